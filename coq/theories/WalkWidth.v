(* Minimum walk covers of digraphs with cycles.  Part 1 (this section): for a digraph G with source s and sink t in which every
   edge lies on an s-t walk and a set X of edges to be covered, the least number of s-t walks covering X equals the largest
   number of edges of X no two of which lie on a common walk of G (Dilworth's theorem of Dilworth.v applied to one
   representative per strongly connected component plus the edges between components, ordered by one-way reachability).
   Part 2: the expanded condensation stDiGraph.get_width works on, its multiplicities, and why its weighted width is that number. *)
From Coq Require Import List NArith ZArith Bool Arith Lia Permutation.
Import ListNotations.
From FP Require Import Lin PathEnc Euler EulerProofs1 PathEncComplete Dilworth.
Set Default Timeout 60.
Local Open Scope nat_scope.

(* pigeonhole in relational form *)
Lemma pigeon {A B} (R : A -> B -> Prop) : forall (la : list A) (lb : list B),
  NoDup la -> (forall a, In a la -> exists b, In b lb /\ R a b) ->
  (forall a a' b, In a la -> In a' la -> In b lb -> R a b -> R a' b -> a = a') -> length la <= length lb.
Proof.
  induction la as [|a la IH]; intros lb ND Hex Hinj; [cbn; lia|].
  inversion ND as [|? ? Ha ND']; subst.
  destruct (Hex a (or_introl eq_refl)) as (b & Hb & Rab). apply in_split in Hb. destruct Hb as (l1 & l2 & ->).
  rewrite app_length. cbn [length]. rewrite Nat.add_succ_r, <- app_length. apply le_n_S. apply IH.
  - exact ND'.
  - intros a' Ha'. destruct (Hex a' (or_intror Ha')) as (b' & Hb' & Rb'). apply in_app_or in Hb'. destruct Hb' as [Hb'|[<-|Hb']].
    + exists b'. split; [apply in_or_app; left; exact Hb'|exact Rb'].
    + exfalso. apply Ha. rewrite (Hinj a a' b (or_introl eq_refl) (or_intror Ha') ltac:(apply in_or_app; right; left; reflexivity) Rab Rb'). exact Ha'.
    + exists b'. split; [apply in_or_app; right; exact Hb'|exact Rb'].
  - intros x y b0 Hx Hy Hb0. apply Hinj; [right; assumption|right; assumption|].
    apply in_app_or in Hb0. apply in_or_app. destruct Hb0; [left|right; right]; assumption.
Qed.

Section WalkWidth.
  Variable G : list PathEnc.edge.
  Variables s t : node.
  (* every edge lies on an s-t walk *)
  Hypothesis Hst : forall u v, In (u, v) G -> conn G s u /\ conn G v t.

  (* walks that pass a given list of edges *)
  Definition wkP (u v : node) (S : list PathEnc.edge) : Prop :=
    exists m, incl (pairs (u :: m)) G /\ last (u :: m) u = v /\ incl S (pairs (u :: m)).
  Lemma wkP_conn u v : conn G u v -> wkP u v [].
  Proof. intros (m & H1 & H2). exists m. split; [exact H1|]. split; [exact H2|intros e []]. Qed.
  Lemma wkP_edge u v : In (u, v) G -> wkP u v [(u, v)].
  Proof. intros H. exists [v]. split; [intros e [<-|[]]; exact H|]. split; [reflexivity|intros e [<-|[]]; left; reflexivity]. Qed.
  Lemma wkP_app u v w S1 S2 : wkP u v S1 -> wkP v w S2 -> wkP u w (S1 ++ S2).
  Proof.
    intros (m & Hm & Lm & Sm) (m' & Hm' & Lm' & Sm'). exists (m ++ m').
    assert (Ep : pairs (u :: m ++ m') = pairs (u :: m) ++ pairs (v :: m')).
    { change (u :: m ++ m') with ((u :: m) ++ m'). rewrite (pairs_app_last (u :: m) m' u) by discriminate. rewrite Lm. reflexivity. }
    rewrite Ep. split; [|split].
    - intros e He. apply in_app_or in He. destruct He; auto.
    - destruct m' as [|y m'']; [rewrite app_nil_r; cbn in Lm'; congruence|].
      change (u :: m ++ y :: m'') with ((u :: m) ++ y :: m''). rewrite last_app_ne by discriminate.
      rewrite <- Lm'. rewrite !last_cons_default. reflexivity.
    - intros e He. apply in_or_app. apply in_app_or in He. destruct He; [left|right]; auto.
  Qed.
  Lemma wkP_weaken u v S S' : incl S' S -> wkP u v S -> wkP u v S'.
  Proof. intros Hi (m & H1 & H2 & H3). exists m. split; [exact H1|]. split; [exact H2|]. intros e He. apply H3, Hi, He. Qed.
  Lemma wkP_is_conn u v S : wkP u v S -> conn G u v.
  Proof. intros (m & H1 & H2 & _). exists m. split; assumption. Qed.

  (* a closed walk at z through edges that all lie in the strongly connected component of z *)
  Lemma tour z : forall fs, (forall f, In f fs -> In f G /\ conn G z (fst f) /\ conn G (snd f) z) -> wkP z z fs.
  Proof.
    induction fs as [|f fs IH]; intros H; [apply wkP_conn, conn_refl|].
    destruct (H f (or_introl eq_refl)) as (HfG & H1 & H2).
    change (f :: fs) with ((([] ++ [f]) ++ []) ++ fs).
    apply (wkP_app z z z); [|apply IH; intros g Hg; apply H; right; exact Hg].
    apply (wkP_app z (snd f) z); [|apply wkP_conn; exact H2].
    apply (wkP_app z (fst f) (snd f)); [apply wkP_conn; exact H1|]. destruct f as [a b]. apply wkP_edge. exact HfG.
  Qed.

  (* ---- the order: one-way reachability ---- *)
  Definition wlt (e1 e2 : PathEnc.edge) : bool :=
    mem_edge e1 G && mem_edge e2 G && reachb G (snd e1) (fst e2) && negb (reachb G (snd e2) (fst e1)).
  Definition eqvb (e1 e2 : PathEnc.edge) : bool := reachb G (snd e1) (fst e2) && reachb G (snd e2) (fst e1).

  Lemma reachb_conn e u : In e G -> (reachb G (snd e) u = true <-> conn G (snd e) u).
  Proof. intros He. apply reachb_spec. apply (nodes_of_in G e He). Qed.

  Lemma wlt_spec e1 e2 : wlt e1 e2 = true <->
    In e1 G /\ In e2 G /\ conn G (snd e1) (fst e2) /\ reachb G (snd e2) (fst e1) = false.
  Proof.
    unfold wlt. rewrite !andb_true_iff, !mem_edge_In, negb_true_iff. split.
    - intros [[[H1 H2] H3] H4]. repeat split; try assumption. apply (reachb_conn e1); assumption.
    - intros (H1 & H2 & H3 & H4). repeat split; try assumption. apply (reachb_conn e1); assumption.
  Qed.
  Lemma wlt_irrefl e : wlt e e = false.
  Proof. unfold wlt. destruct (reachb G (snd e) (fst e)); cbn; rewrite ?andb_false_r; reflexivity. Qed.
  Lemma wlt_trans a b c : wlt a b = true -> wlt b c = true -> wlt a c = true.
  Proof.
    rewrite !wlt_spec. intros (Ha & Hb & H1 & N1) (_ & Hc & H2 & N2). split; [exact Ha|]. split; [exact Hc|]. split.
    - apply (conn_trans G _ (fst b) _ H1). apply (conn_trans G _ (snd b) _); [|exact H2]. apply conn_edge. destruct b; exact Hb.
    - destruct (reachb G (snd c) (fst a)) eqn:R; [exfalso|reflexivity]. apply (reachb_conn c _ Hc) in R.
      assert (Y : conn G (snd b) (fst a)).
      { apply (conn_trans G _ (fst c) _ H2). apply (conn_trans G _ (snd c) _); [|exact R]. apply conn_edge. destruct c; exact Hc. }
      apply (reachb_conn b _ Hb) in Y. congruence.
  Qed.
  Lemma eqvb_sym a b : eqvb a b = eqvb b a.
  Proof. unfold eqvb. apply andb_comm. Qed.

  (* ---- one representative per class of mutually reachable edges ---- *)
  Fixpoint pick (l : list PathEnc.edge) : list PathEnc.edge :=
    match l with [] => [] | e :: r => let y := pick r in if existsb (eqvb e) y then y else e :: y end.
  Lemma pick_incl l : incl (pick l) l.
  Proof.
    induction l as [|e r IH]; [intros x []|]. cbn [pick]. destruct (existsb (eqvb e) (pick r)).
    - intros x Hx. right. apply IH. exact Hx.
    - intros x [<-|Hx]; [left; reflexivity|right; apply IH; exact Hx].
  Qed.
  Lemma pick_nodup l : NoDup l -> NoDup (pick l).
  Proof.
    induction 1 as [|e r He ND IH]; [constructor|]. cbn [pick]. destruct (existsb (eqvb e) (pick r)); [exact IH|].
    constructor; [|exact IH]. intros H. apply He. apply pick_incl. exact H.
  Qed.
  Lemma pick_rep l : forall e, In e l -> exists e', In e' (pick l) /\ (e' = e \/ eqvb e' e = true).
  Proof.
    induction l as [|x r IH]; intros e He; [destruct He|]. cbn [pick]. destruct (existsb (eqvb x) (pick r)) eqn:Ex.
    - destruct He as [<-|He]; [|apply IH; exact He]. apply existsb_exists in Ex. destruct Ex as (e' & He' & Q).
      exists e'. split; [exact He'|right]. rewrite eqvb_sym. exact Q.
    - destruct He as [<-|He]; [exists x; split; [left; reflexivity|left; reflexivity]|].
      destruct (IH e He) as (e' & He' & Q). exists e'. split; [right; exact He'|exact Q].
  Qed.
  Lemma pick_sep l : forall a b, In a (pick l) -> In b (pick l) -> a = b \/ eqvb a b = false.
  Proof.
    induction l as [|x r IH]; intros a b Ha Hb; [destruct Ha|]. cbn [pick] in Ha, Hb. destruct (existsb (eqvb x) (pick r)) eqn:Ex.
    - apply IH; assumption.
    - assert (Hx : forall y, In y (pick r) -> eqvb x y = false).
      { intros y Hy. destruct (eqvb x y) eqn:Q; [|reflexivity].
        assert (existsb (eqvb x) (pick r) = true) by (apply existsb_exists; exists y; auto). congruence. }
      destruct Ha as [<-|Ha], Hb as [<-|Hb].
      + left. reflexivity.
      + right. apply Hx. exact Hb.
      + right. rewrite eqvb_sym. apply Hx. exact Ha.
      + apply IH; assumption.
  Qed.

  Variable X : list PathEnc.edge.
  Hypothesis NDX : NoDup X.
  Hypothesis HX : incl X G.

  Definition block (e : PathEnc.edge) : list PathEnc.edge := e :: filter (eqvb e) X.

  (* an increasing list of edges, together with every edge of X in the component of one of them, lies on one walk *)
  Lemma linked_blocks : forall srt e, incl (e :: srt) G -> linked PathEnc.edge wlt (e :: srt) ->
    exists z, wkP (fst e) z (flat_map block (e :: srt)) /\ conn G z t.
  Proof.
    assert (Hblock : forall e, In e G -> wkP (fst e) (snd e) (block e)).
    { intros e He. unfold block. change (e :: filter (eqvb e) X) with ([e] ++ filter (eqvb e) X).
      apply (wkP_app _ (snd e)); [destruct e; apply wkP_edge; exact He|]. apply tour.
      intros f Hf. apply filter_In in Hf. destruct Hf as [HfX Q]. unfold eqvb in Q. apply andb_true_iff in Q. destruct Q as [Q1 Q2].
      pose proof (HX f HfX) as HfG. split; [exact HfG|]. split; [apply (reachb_conn e _ He); exact Q1|].
      apply (reachb_conn f _ HfG) in Q2. apply (conn_trans G _ (fst e) _ Q2). apply conn_edge. destruct e; exact He. }
    induction srt as [|e2 srt IH]; intros e Hin Hlk.
    - exists (snd e). cbn [flat_map]. rewrite app_nil_r. split; [apply Hblock; apply Hin; left; reflexivity|].
      assert (He : In e G) by (apply Hin; left; reflexivity). destruct e as [a b]. exact (proj2 (Hst a b He)).
    - destruct Hlk as [Hb Hlk]. destruct (IH e2 (fun z Hz => Hin z (or_intror Hz)) Hlk) as (z & Hw & Hz).
      exists z. split; [|exact Hz]. apply wlt_spec in Hb. destruct Hb as (He & _ & Hc & _).
      change (flat_map block (e :: e2 :: srt)) with (block e ++ flat_map block (e2 :: srt)).
      apply (wkP_app _ (snd e)); [apply Hblock; exact He|].
      change (flat_map block (e2 :: srt)) with ([] ++ flat_map block (e2 :: srt)).
      apply (wkP_app _ (fst e2)); [apply wkP_conn; exact Hc|exact Hw].
  Qed.

  Definition st_walk (l : list node) : Prop := hd_error l = Some s /\ last l s = t /\ incl (pairs l) G.
  (* no walk of G passes two different edges of A' *)
  Definition walk_incompatible (A' : list PathEnc.edge) : Prop :=
    forall e1 e2 l, In e1 A' -> In e2 A' -> e1 <> e2 -> incl (pairs l) G -> In e1 (pairs l) -> In e2 (pairs l) -> False.

  (* weak duality for walks *)
  Theorem walk_cover_needs_width_many_walks (W : list (list node)) (A' : list PathEnc.edge) :
    NoDup A' -> walk_incompatible A' -> (forall l, In l W -> incl (pairs l) G) ->
    (forall e, In e A' -> exists l, In l W /\ In e (pairs l)) -> length A' <= length W.
  Proof.
    intros ND Hinc HW Hcov. apply (pigeon (fun e l => In e (pairs l)) A' W ND Hcov).
    intros a a' l Ha Ha' Hl H1 H2. destruct (edge_eqb a a') eqn:Q; [apply edge_eqb_eq; exact Q|exfalso].
    assert (Hne : a <> a') by (intros E; apply edge_eqb_eq in E; congruence).
    exact (Hinc a a' l Ha Ha' Hne (HW l Hl) H1 H2).
  Qed.

  (* Dilworth for walk covers *)
  Theorem min_walk_cover_equals_walk_width :
    exists (W : list (list node)) (A' : list PathEnc.edge),
      (forall l, In l W -> st_walk l) /\ (forall e, In e X -> exists l, In l W /\ In e (pairs l)) /\
      NoDup A' /\ incl A' X /\ walk_incompatible A' /\ length A' = length W.
  Proof.
    set (Y := pick X).
    destruct (dilworth PathEnc.edge edge_eqb edge_eqb_eq wlt wlt_irrefl wlt_trans Y (pick_nodup X NDX))
      as (C & A' & HC & Hcov & NDA & HA & Hanti & Hlen).
    assert (HYG : incl Y G) by (intros e He; apply HX; apply (pick_incl X); exact He).
    destruct (choice_list (fun c l => st_walk l /\ incl (flat_map block c) (pairs l)) C) as (W & HF).
    { intros c Hc. destruct (HC c Hc) as (Hch & Hinc & Hne).
      destruct (chain_linked PathEnc.edge edge_eqb edge_eqb_eq wlt wlt_irrefl wlt_trans (length c) c (le_n _) Hch) as (srt & Hs & Hlk & _).
      destruct srt as [|e srt0].
      { destruct c as [|z c0]; [contradiction|]. exfalso. apply (proj2 (Hs z)). left. reflexivity. }
      assert (HsG : incl (e :: srt0) G) by (intros z Hz; apply HYG; apply Hinc; apply Hs; exact Hz).
      destruct (linked_blocks srt0 e HsG Hlk) as (z & Hw & Hz).
      assert (HeG : In e G) by (apply HsG; left; reflexivity).
      assert (Hfull : wkP s t (flat_map block (e :: srt0))).
      { change (flat_map block (e :: srt0)) with ([] ++ flat_map block (e :: srt0)).
        apply (wkP_app _ (fst e)); [apply wkP_conn; destruct e as [a b]; exact (proj1 (Hst a b HeG))|].
        rewrite <- (app_nil_r (flat_map block (e :: srt0))). apply (wkP_app _ z); [exact Hw|apply wkP_conn; exact Hz]. }
      destruct Hfull as (m & H1 & H2 & H3). exists (s :: m). split; [split; [reflexivity|split; [exact H2|exact H1]]|].
      intros f Hf. apply H3. apply in_flat_map in Hf. destruct Hf as (x & Hx & Hfx). apply in_flat_map. exists x. split; [apply Hs; exact Hx|exact Hfx]. }
    exists W, A'. split; [|split; [|split; [|split; [|split]]]].
    - intros l Hl. destruct (Forall2_in_r _ _ _ l HF Hl) as (c & _ & H & _). exact H.
    - intros e He. destruct (pick_rep X e He) as (e' & He' & Q). fold Y in He'.
      destruct (Hcov e' He') as (c & Hc & Hec). destruct (Forall2_in_l _ _ _ c HF Hc) as (l & Hl & _ & Hcl).
      exists l. split; [exact Hl|]. apply Hcl. apply in_flat_map. exists e'. split; [exact Hec|]. unfold block.
      destruct Q as [->|Q]; [left; reflexivity|right; apply filter_In; split; assumption].
    - exact NDA.
    - intros e He. apply (pick_incl X). apply HA. exact He.
    - intros e1 e2 l H1 H2 Hne Hl I1 I2.
      assert (G1 : In e1 G) by (apply HYG, HA, H1). assert (G2 : In e2 G) by (apply HYG, HA, H2).
      destruct (pick_sep X e1 e2 (HA e1 H1) (HA e2 H2)) as [E|Sep]; [contradiction|].
      assert (Hone : forall a b, In a A' -> In b A' -> In a G -> In b G -> eqvb a b = false -> conn G (snd a) (fst b) -> False).
      { intros a b Ha Hb Ga Gb Sp Hc. pose proof (Hanti a b Ha Hb) as L. unfold wlt in L.
        apply (reachb_conn a _ Ga) in Hc. unfold eqvb in Sp. apply andb_false_iff in Sp. destruct Sp as [Sp|Sp]; [congruence|].
        rewrite (proj2 (mem_edge_In a G) Ga), (proj2 (mem_edge_In b G) Gb), Hc, Sp in L. discriminate. }
      destruct (two_on_path G l e1 e2 Hl I1 I2) as [E|[Hc|Hc]]; [contradiction| |].
      + exact (Hone e1 e2 H1 H2 G1 G2 Sep Hc).
      + rewrite eqvb_sym in Sep. exact (Hone e2 e1 H2 H1 G2 G1 Sep Hc).
    - rewrite Hlen. apply (Forall2_len _ _ _ HF).
  Qed.

  (* hence: the least number of s-t walks covering X is the walk width of X *)
  Theorem least_walk_cover_is_walk_width (k : nat) :
    (exists W, length W = k /\ (forall l, In l W -> st_walk l) /\ (forall e, In e X -> exists l, In l W /\ In e (pairs l))) ->
    (forall W, (forall l, In l W -> st_walk l) -> (forall e, In e X -> exists l, In l W /\ In e (pairs l)) -> k <= length W) ->
    (exists A', NoDup A' /\ incl A' X /\ walk_incompatible A' /\ length A' = k) /\
    (forall A', NoDup A' -> incl A' X -> walk_incompatible A' -> length A' <= k).
  Proof.
    intros (W0 & Hlen0 & HW0 & Hcov0) Hmin. split.
    - destruct min_walk_cover_equals_walk_width as (W & A' & HW & Hcov & NDA & HA & Hinc & Hlen).
      exists A'. split; [exact NDA|]. split; [exact HA|]. split; [exact Hinc|].
      pose proof (Hmin W HW Hcov) as H1.
      pose proof (walk_cover_needs_width_many_walks W0 A' NDA Hinc (fun l Hl => proj2 (proj2 (HW0 l Hl))) (fun e He => Hcov0 e (HA e He))) as H2.
      lia.
    - intros A' NDA HA Hinc. rewrite <- Hlen0.
      exact (walk_cover_needs_width_many_walks W0 A' NDA Hinc (fun l Hl => proj2 (proj2 (HW0 l Hl))) (fun e He => Hcov0 e (HA e He))).
  Qed.
End WalkWidth.

(* ================================================================================================================= *)
(* Part 2: the expanded condensation of stDiGraph (_build_condensation_expanded) with the weights of get_width *)
Lemma edge_dec (a b : PathEnc.edge) : {a = b} + {a <> b}.
Proof. decide equality; apply N.eq_dec. Qed.

Section Condensation.
  Variable E : list PathEnc.edge.          (* the edges of the s-t graph *)
  Variables s t : node.
  Variable cm : node -> N.                 (* C.graph["mapping"] *)
  Variable cn : list N.                    (* C.nodes() *)
  Variable cE : list (N * N).              (* C.edges() *)
  Variable ign : list PathEnc.edge.        (* edges_to_ignore *)

  Definition inN (c : N) : N := (2 * c)%N.
  Definition outN (c : N) : N := (2 * c + 1)%N.
  Definition member (c : N) : list PathEnc.edge := filter (fun e => (cm (fst e) =? c)%N && (cm (snd e) =? c)%N) E.
  Definition nontriv (c : N) : bool := match member c with [] => false | _ => true end.
  Definition tlN (c : N) : N := if nontriv c then outN c else inN c.
  (* condensation_expanded.edges(): one edge per non-trivial component, one per condensation edge *)
  Definition hedges : list PathEnc.edge :=
    flat_map (fun c => if nontriv c then [(inN c, outN c)] else []) cn ++ map (fun ce => (tlN (fst ce), inN (snd ce))) cE.
  (* the edge of the expanded condensation an edge of the graph belongs to *)
  Definition hmap (e : PathEnc.edge) : PathEnc.edge :=
    if (cm (fst e) =? cm (snd e))%N then (inN (cm (fst e)), outN (cm (fst e))) else (tlN (cm (fst e)), inN (cm (snd e))).
  Definition kept (e : PathEnc.edge) : bool := negb (mem_edge e ign).
  Definition over (b : PathEnc.edge) : list PathEnc.edge := filter (fun e => kept e && edge_eqb (hmap e) b) E.
  (* weight_function_condensation_expanded: multiplicity of the kept edges between two components; 1 for a component that
     still has a kept member edge, 0 otherwise *)
  Definition hweight (b : PathEnc.edge) : nat :=
    if N.odd (snd b) then Nat.min 1 (length (over b)) else length (over b).

  Definition cblock (c : N) : list N := if nontriv c then [inN c; outN c] else [inN c].
  (* the path of the expanded condensation a walk of the graph runs along *)
  Fixpoint proj (l : list node) : list N :=
    match l with
    | [] => []
    | u :: r => match r with
                | [] => cblock (cm u)
                | v :: _ => if (cm u =? cm v)%N then proj r else cblock (cm u) ++ proj r
                end
    end.

  Hypothesis Hcm : forall u v, In u (nodes_of E) -> In v (nodes_of E) -> (cm u = cm v <-> conn E u v /\ conn E v u).
  Hypothesis HcE_fwd : forall u v, In (u, v) E -> cm u <> cm v -> In (cm u, cm v) cE.
  Hypothesis HcE_bwd : forall a b, In (a, b) cE -> a <> b /\ exists u v, In (u, v) E /\ cm u = a /\ cm v = b.
  Hypothesis Hcn : forall e, In e E -> In (cm (fst e)) cn /\ In (cm (snd e)) cn.
  Hypothesis NDE : NoDup E.

  Lemma member_nontriv u v : In (u, v) E -> cm u = cm v -> nontriv (cm u) = true.
  Proof.
    intros H Eq. unfold nontriv. assert (X : In (u, v) (member (cm u))).
    { apply filter_In. split; [exact H|]. cbn. rewrite <- Eq, N.eqb_refl. reflexivity. }
    destruct (member (cm u)); [destruct X|reflexivity].
  Qed.
  Lemma block_last c d : last (cblock c) d = tlN c.
  Proof. unfold cblock, tlN. destruct (nontriv c); reflexivity. Qed.
  Lemma block_pairs c : In c cn -> incl (pairs (cblock c)) hedges.
  Proof.
    intros Hc. unfold cblock. destruct (nontriv c) eqn:Nt; [|intros e []]. intros e [<-|[]]. unfold hedges. apply in_or_app. left.
    apply in_flat_map. exists c. split; [exact Hc|]. rewrite Nt. left. reflexivity.
  Qed.
  Lemma proj_head u r : exists q, proj (u :: r) = inN (cm u) :: q.
  Proof.
    revert u. induction r as [|v r IH]; intros u.
    - cbn [proj]. unfold cblock. destruct (nontriv (cm u)); eexists; reflexivity.
    - change (proj (u :: v :: r)) with (if (cm u =? cm v)%N then proj (v :: r) else cblock (cm u) ++ proj (v :: r)).
      destruct (N.eqb_spec (cm u) (cm v)) as [Eq|Ne].
      + rewrite Eq. apply IH.
      + unfold cblock. destruct (nontriv (cm u)); eexists; reflexivity.
  Qed.

  (* what the projection of a walk passes *)
  Lemma proj_spec : forall l u, incl (pairs (u :: l)) E ->
    incl (pairs (proj (u :: l))) hedges /\ last (proj (u :: l)) (inN (cm u)) = tlN (cm (last (u :: l) u)) /\
    forall e, In e (pairs (u :: l)) -> In (hmap e) (pairs (proj (u :: l))).
  Proof.
    induction l as [|v l IH]; intros u Hw.
    - cbn [proj last]. split; [|split; [apply block_last|intros e []]].
      (* a single node: its cblock is inside hedges only if the component id is a condensation node; a trivial cblock has no pairs *)
      unfold cblock. destruct (nontriv (cm u)) eqn:Nt; [|intros e []].
      unfold nontriv in Nt. destruct (member (cm u)) as [|e0 m0] eqn:Em; [discriminate|].
      assert (He0 : In e0 (member (cm u))) by (rewrite Em; left; reflexivity). apply filter_In in He0. destruct He0 as [He0 Q].
      apply andb_true_iff in Q. destruct Q as [Q _]. apply N.eqb_eq in Q.
      intros e [<-|[]]. unfold hedges. apply in_or_app. left. apply in_flat_map. exists (cm u).
      split; [rewrite <- Q; apply (Hcn e0 He0)|]. unfold nontriv. rewrite Em. left. reflexivity.
    - rewrite pairs_cons2 in Hw. assert (Huv : In (u, v) E) by (apply Hw; left; reflexivity).
      destruct (IH v (fun e He => Hw e (or_intror He))) as (I1 & I2 & I3).
      change (proj (u :: v :: l)) with (if (cm u =? cm v)%N then proj (v :: l) else cblock (cm u) ++ proj (v :: l)).
      change (last (u :: v :: l) u) with (last (v :: l) u). rewrite (last_cons_default l u v). rewrite (last_cons_default l v v) in I2.
      destruct (N.eqb_spec (cm u) (cm v)) as [Eq|Ne].
      + split; [exact I1|]. split.
        * destruct (proj_head v l) as (q & Eq'). rewrite Eq' in *. rewrite last_cons_default. rewrite last_cons_default in I2. exact I2.
        * rewrite pairs_cons2. intros e [<-|He]; [|apply I3; exact He].
          unfold hmap. cbn [fst snd]. rewrite (proj2 (N.eqb_eq _ _) Eq).
          (* the component edge is passed because the rest of the walk starts inside the same non-trivial component *)
          pose proof (member_nontriv u v Huv Eq) as Nt. rewrite Eq in Nt |- *.
          clear - Nt. revert v Nt. induction l as [|x l IHl]; intros v Nt.
          { cbn [proj]. unfold cblock. rewrite Nt. left. reflexivity. }
          change (proj (v :: x :: l)) with (if (cm v =? cm x)%N then proj (x :: l) else cblock (cm v) ++ proj (x :: l)).
          destruct (N.eqb_spec (cm v) (cm x)) as [Eq2|Ne2].
          { rewrite Eq2 in *. apply IHl. exact Nt. }
          unfold cblock. rewrite Nt. destruct (proj_head x l) as (q & ->). left. reflexivity.
      + destruct (proj_head v l) as (q & Eq'). rewrite Eq' in *.
        assert (Ep : pairs (cblock (cm u) ++ inN (cm v) :: q) = pairs (cblock (cm u)) ++ (tlN (cm u), inN (cm v)) :: pairs (inN (cm v) :: q)).
        { rewrite (pairs_app_last (cblock (cm u)) (inN (cm v) :: q) 0%N) by (unfold cblock; destruct (nontriv (cm u)); discriminate).
          rewrite block_last. reflexivity. }
        rewrite Ep. split; [|split].
        * intros e He. apply in_app_or in He. destruct He as [He|[<-|He]].
          -- apply (block_pairs (cm u)); [apply (Hcn (u, v) Huv)|exact He].
          -- unfold hedges. apply in_or_app. right. apply in_map_iff. exists (cm u, cm v). split; [reflexivity|apply HcE_fwd; assumption].
          -- apply I1. exact He.
        * rewrite last_app_ne by discriminate. rewrite last_cons_default. rewrite last_cons_default in I2. exact I2.
        * rewrite pairs_cons2. intros e [<-|He].
          -- unfold hmap. cbn [fst snd]. rewrite (proj2 (N.eqb_neq _ _) Ne). apply in_or_app. right. left. reflexivity.
          -- apply in_or_app. right. right. apply I3. exact He.
  Qed.

  Lemma div2_inN c : N.div2 (inN c) = c.
  Proof. unfold inN. destruct c; reflexivity. Qed.
  Lemma div2_outN c : N.div2 (outN c) = c.
  Proof. unfold outN. destruct c; reflexivity. Qed.
  Lemma div2_tlN c : N.div2 (tlN c) = c.
  Proof. unfold tlN. destruct (nontriv c); [apply div2_outN|apply div2_inN]. Qed.
  Lemma odd_inN c : N.odd (inN c) = false.
  Proof. unfold inN. destruct c; reflexivity. Qed.
  Lemma odd_outN c : N.odd (outN c) = true.
  Proof. unfold outN. destruct c; reflexivity. Qed.

  Lemma hmap_in_hedges e : In e E -> In (hmap e) hedges.
  Proof.
    intros He. destruct e as [u v]. unfold hmap, hedges. cbn [fst snd]. apply in_or_app. destruct (N.eqb_spec (cm u) (cm v)) as [Eq|Ne].
    - left. apply in_flat_map. exists (cm u). split; [apply (Hcn (u, v) He)|]. rewrite (member_nontriv u v He Eq). left. reflexivity.
    - right. apply in_map_iff. exists (cm u, cm v). split; [reflexivity|apply HcE_fwd; assumption].
  Qed.
  Lemma hmap_ends e : N.div2 (fst (hmap e)) = cm (fst e) /\ N.div2 (snd (hmap e)) = cm (snd e).
  Proof.
    unfold hmap. destruct (N.eqb_spec (cm (fst e)) (cm (snd e))) as [Eq|Ne]; cbn [fst snd].
    - rewrite div2_inN, div2_outN. split; [reflexivity|exact Eq].
    - rewrite div2_tlN, div2_inN. split; reflexivity.
  Qed.
  Lemma hmap_even_inter e : N.odd (snd (hmap e)) = false -> cm (fst e) <> cm (snd e).
  Proof.
    unfold hmap. destruct (N.eqb_spec (cm (fst e)) (cm (snd e))) as [Eq|Ne]; cbn [fst snd]; [rewrite odd_outN; discriminate|auto].
  Qed.
  Lemma hmap_odd_inner e : N.odd (snd (hmap e)) = true -> cm (fst e) = cm (snd e).
  Proof.
    unfold hmap. destruct (N.eqb_spec (cm (fst e)) (cm (snd e))) as [Eq|Ne]; cbn [fst snd]; [auto|rewrite odd_inN; discriminate].
  Qed.

  Definition hpath (p : list N) : Prop :=
    hd_error p = Some (inN (cm s)) /\ last p (inN (cm s)) = tlN (cm t) /\ incl (pairs p) hedges.
  Definition has (b : PathEnc.edge) (p : list N) : bool := mem_edge b (pairs p).
  (* what compute_max_edge_antichain's minimum flow asks of a family of paths: every edge is on at least weight-many of them *)
  Definition multicover (P : list (list N)) : Prop := forall b, In b hedges -> hweight b <= length (filter (has b) P).

  Lemma filter_map_len {A B} (f : A -> B) (q : B -> bool) l : length (filter q (map f l)) = length (filter (fun x => q (f x)) l).
  Proof. induction l as [|x l IH]; [reflexivity|]. cbn [map filter]. destruct (q (f x)); cbn [length]; rewrite IH; reflexivity. Qed.

  Lemma nodes_of_edge u v : In (u, v) E -> In u (nodes_of E) /\ In v (nodes_of E).
  Proof. intros H. exact (nodes_of_in E (u, v) H). Qed.

  (* two different edges between the same two components do not lie on a common walk *)
  Lemma parallel_not_on_walk a a' l : In a E -> In a' E -> a <> a' -> cm (fst a) <> cm (snd a) ->
    cm (fst a) = cm (fst a') -> cm (snd a) = cm (snd a') -> incl (pairs l) E -> In a (pairs l) -> In a' (pairs l) -> False.
  Proof.
    intros Ha Ha' Hne Hinter E1 E2 Hl I1 I2. destruct a as [a1 a2], a' as [b1 b2]. cbn [fst snd] in *.
    destruct (nodes_of_edge a1 a2 Ha) as [Na1 Na2]. destruct (nodes_of_edge b1 b2 Ha') as [Nb1 Nb2].
    destruct (two_on_path E l (a1, a2) (b1, b2) Hl I1 I2) as [Eq|[Hc|Hc]]; [contradiction| |]; cbn [fst snd] in Hc.
    - (* a2 reaches b1, which is in the component of a1 *)
      apply Hinter. apply (Hcm a1 a2 Na1 Na2). split; [apply conn_edge; exact Ha|].
      apply (conn_trans E _ b1 _ Hc). apply (proj2 (proj1 (Hcm a1 b1 Na1 Nb1) E1)).
    - apply Hinter. rewrite E1, E2. apply (Hcm b1 b2 Nb1 Nb2). split; [apply conn_edge; exact Ha'|].
      apply (conn_trans E _ a1 _ Hc). apply (proj1 (proj1 (Hcm a1 b1 Na1 Nb1) E1)).
  Qed.

  (* (1), projection: a walk cover of the kept edges runs along as many paths of the expanded condensation, and these
     meet the multiplicities get_width asks for *)
  Theorem walk_cover_projects (W : list (list node)) :
    (forall l, In l W -> st_walk E s t l) ->
    (forall e, In e E -> kept e = true -> exists l, In l W /\ In e (pairs l)) ->
    (forall p, In p (map proj W) -> hpath p) /\ multicover (map proj W) /\ length (map proj W) = length W.
  Proof.
    intros HW Hcov. split; [|split; [|apply map_length]].
    - intros p Hp. apply in_map_iff in Hp. destruct Hp as (l & <- & Hl). destruct (HW l Hl) as (Hh & Hla & Hin).
      destruct l as [|u m]; [discriminate|]. cbn in Hh. injection Hh as ->.
      destruct (proj_spec m s Hin) as (P1 & P2 & _). destruct (proj_head s m) as (q & Eq). split; [rewrite Eq; reflexivity|].
      split; [rewrite P2, Hla; reflexivity|exact P1].
    - intros b Hb. unfold has. rewrite (filter_map_len proj (fun p => mem_edge b (pairs p)) W).
      assert (Hon : forall e l, In e (over b) -> In l W -> In e (pairs l) -> mem_edge b (pairs (proj l)) = true).
      { intros e l He Hl Hel. apply filter_In in He. destruct He as [HeE Q]. apply andb_true_iff in Q. destruct Q as [_ Q].
        apply edge_eqb_eq in Q. destruct (HW l Hl) as (_ & _ & Hin). destruct l as [|u m]; [destruct Hel|].
        apply mem_edge_In. rewrite <- Q. apply (proj2 (proj2 (proj_spec m u Hin))). exact Hel. }
      assert (Hex : forall e, In e (over b) -> exists l, In l (filter (fun l => mem_edge b (pairs (proj l))) W) /\ In e (pairs l)).
      { intros e He. pose proof He as He'. apply filter_In in He'. destruct He' as [HeE Q]. apply andb_true_iff in Q. destruct Q as [Hk _].
        destruct (Hcov e HeE Hk) as (l & Hl & Hel). exists l. split; [apply filter_In; split; [exact Hl|apply (Hon e l He Hl Hel)]|exact Hel]. }
      unfold hweight. destruct (N.odd (snd b)) eqn:Odd.
      + destruct (over b) as [|e0 o] eqn:Eo; [cbn; lia|].
        destruct (Hex e0 (or_introl eq_refl)) as (l & Hl & _).
        destruct (filter (fun l => mem_edge b (pairs (proj l))) W); [destruct Hl|cbn [length]; lia].
      + apply (pigeon (fun e l => In e (pairs l))); [apply NoDup_filter; exact NDE|exact Hex|].
        intros a a' l Ha Ha' Hl H1 H2. apply filter_In in Hl. destruct Hl as [Hl _]. destruct (HW l Hl) as (_ & _ & Hin).
        destruct (edge_eqb a a') eqn:Q; [apply edge_eqb_eq; exact Q|exfalso].
        assert (Hne : a <> a') by (intros X; apply edge_eqb_eq in X; congruence).
        apply filter_In in Ha, Ha'. destruct Ha as [HaE Qa], Ha' as [HaE' Qa'].
        apply andb_true_iff in Qa, Qa'. destruct Qa as [_ Qa], Qa' as [_ Qa']. apply edge_eqb_eq in Qa, Qa'.
        assert (Hinter : cm (fst a) <> cm (snd a)) by (apply hmap_even_inter; rewrite Qa; exact Odd).
        destruct (hmap_ends a) as [A1 A2]. destruct (hmap_ends a') as [B1 B2]. rewrite Qa in A1, A2. rewrite Qa' in B1, B2.
        apply (parallel_not_on_walk a a' l HaE HaE' Hne Hinter); try assumption; congruence.
  Qed.

  (* reachability in the expanded condensation gives reachability in the graph *)
  Lemma hconn_gconn : forall m x y u v, incl (pairs (x :: m)) hedges -> last (x :: m) x = y ->
    In u (nodes_of E) -> In v (nodes_of E) -> cm u = N.div2 x -> cm v = N.div2 y -> conn E u v.
  Proof.
    induction m as [|x' m IH]; intros x y u v Hw Hl Hu Hv Cu Cv.
    - cbn in Hl. subst y. apply (Hcm u v Hu Hv). congruence.
    - rewrite pairs_cons2 in Hw. rewrite last_cons_ne in Hl by discriminate.
      assert (Hl' : last (x' :: m) x' = y) by (rewrite <- Hl; rewrite !last_cons_default; reflexivity).
      assert (Hxx : In (x, x') hedges) by (apply Hw; left; reflexivity).
      unfold hedges in Hxx. apply in_app_or in Hxx. destruct Hxx as [Hxx|Hxx].
      + apply in_flat_map in Hxx. destruct Hxx as (c & _ & Hc). destruct (nontriv c); [|destruct Hc]. destruct Hc as [Hc|[]].
        injection Hc as <- <-. apply (IH (outN c) y u v); try assumption; [intros e He; apply Hw; right; exact He|].
        rewrite div2_outN. rewrite div2_inN in Cu. exact Cu.
      + apply in_map_iff in Hxx. destruct Hxx as ([c1 c2] & Hc & Hce). cbn [fst snd] in Hc. injection Hc as <- <-.
        destruct (HcE_bwd c1 c2 Hce) as (_ & a & b & Hab & Ca & Cb). destruct (nodes_of_edge a b Hab) as [Na Nb].
        rewrite div2_tlN in Cu. apply (conn_trans E u a).
        { apply (Hcm u a Hu Na). congruence. }
        apply (conn_trans E a b); [apply conn_edge; exact Hab|].
        apply (IH (inN c2) y b v); try assumption; [intros e He; apply Hw; right; exact He|]. rewrite div2_inN. exact Cb.
  Qed.

  (* ---- sums over a duplicate-free list of keys ---- *)
  Lemma lsum_cons x l : list_sum (x :: l) = x + list_sum l.
  Proof. reflexivity. Qed.
  Lemma sum_add {K} (a b : K -> nat) l : list_sum (map (fun k => a k + b k) l) = list_sum (map a l) + list_sum (map b l).
  Proof. induction l as [|k l IH]; [reflexivity|]. cbn [map]. rewrite ?lsum_cons. rewrite IH. lia. Qed.
  Lemma sum_le {K} (a b : K -> nat) l : (forall k, In k l -> a k <= b k) -> list_sum (map a l) <= list_sum (map b l).
  Proof.
    induction l as [|k l IH]; intros H; [apply le_n|]. cbn [map]. rewrite ?lsum_cons. specialize (H k (or_introl eq_refl)) as Hk.
    specialize (IH (fun x Hx => H x (or_intror Hx))). lia.
  Qed.
  Lemma sum_ext {K} (a b : K -> nat) l : (forall k, In k l -> a k = b k) -> list_sum (map a l) = list_sum (map b l).
  Proof.
    induction l as [|k l IH]; intros H; [reflexivity|]. cbn [map]. rewrite ?lsum_cons. rewrite (H k (or_introl eq_refl)), IH; [reflexivity|].
    intros x Hx. apply H. right. exact Hx.
  Qed.
  Lemma ind_sum_le1 {K} (q : K -> bool) keys : NoDup keys ->
    (forall b b', In b keys -> In b' keys -> q b = true -> q b' = true -> b = b') ->
    list_sum (map (fun b => if q b then 1 else 0) keys) <= 1.
  Proof.
    induction 1 as [|k keys Hk ND IH]; intros Hu; [cbn; lia|]. cbn [map]. rewrite ?lsum_cons. destruct (q k) eqn:Q.
    - assert (Z : list_sum (map (fun b => if q b then 1 else 0) keys) = 0).
      { clear IH. induction keys as [|x keys IH2]; [reflexivity|]. cbn [map]. rewrite ?lsum_cons. destruct (q x) eqn:Qx.
        - exfalso. apply Hk. left. symmetry. apply Hu; [left; reflexivity|right; left; reflexivity|exact Q|exact Qx].
        - apply IH2; [intros X; apply Hk; right; exact X|inversion ND; assumption|].
          intros b b' Hb Hb'. apply Hu; (destruct Hb as [<-|Hb]; [left; reflexivity|right; right; exact Hb]) ||
                                        (destruct Hb' as [<-|Hb']; [left; reflexivity|right; right; exact Hb']). }
      lia.
    - apply IH. intros b b' Hb Hb'. apply Hu; right; assumption.
  Qed.
  Lemma ind_sum_one (k0 : PathEnc.edge) keys : NoDup keys -> In k0 keys ->
    list_sum (map (fun k => if edge_eqb k0 k then 1 else 0) keys) = 1.
  Proof.
    induction 1 as [|k keys Hk ND IH]; intros Hin; [destruct Hin|]. cbn [map]. rewrite ?lsum_cons. destruct (edge_eqb k0 k) eqn:Q.
    - apply edge_eqb_eq in Q. subst k. assert (Z : list_sum (map (fun k => if edge_eqb k0 k then 1 else 0) keys) = 0).
      { clear IH ND Hin. induction keys as [|x keys IH2]; [reflexivity|]. cbn [map]. rewrite ?lsum_cons. destruct (edge_eqb k0 x) eqn:Qx.
        - apply edge_eqb_eq in Qx. subst x. exfalso. apply Hk. left. reflexivity.
        - apply IH2. intros X. apply Hk. right. exact X. }
      lia.
    - destruct Hin as [->|Hin]; [rewrite (proj2 (edge_eqb_eq k0 k0) eq_refl) in Q; discriminate|]. apply IH. exact Hin.
  Qed.
  Lemma length_by_key {A} (f : A -> PathEnc.edge) keys : NoDup keys -> forall l, (forall x, In x l -> In (f x) keys) ->
    length l = list_sum (map (fun k => length (filter (fun x => edge_eqb (f x) k) l)) keys).
  Proof.
    intros ND. induction l as [|x l IH]; intros Hk.
    - cbn [filter length]. clear. induction keys; [reflexivity|cbn [map]; rewrite ?lsum_cons; lia].
    - cbn [length]. rewrite (IH (fun y Hy => Hk y (or_intror Hy))).
      pose proof (ind_sum_one (f x) keys ND (Hk x (or_introl eq_refl))) as H1.
      assert (Eq : list_sum (map (fun k => length (filter (fun y => edge_eqb (f y) k) (x :: l))) keys) =
                   list_sum (map (fun k => (if edge_eqb (f x) k then 1 else 0) + length (filter (fun y => edge_eqb (f y) k) l)) keys)).
      { apply sum_ext. intros k _. cbn [filter]. destruct (edge_eqb (f x) k); cbn [length]; lia. }
      rewrite Eq, sum_add, H1. reflexivity.
  Qed.
  Lemma disjoint_counts {B} (q : PathEnc.edge -> B -> bool) keys : NoDup keys -> forall P,
    (forall p b b', In p P -> In b keys -> In b' keys -> q b p = true -> q b' p = true -> b = b') ->
    list_sum (map (fun b => length (filter (q b) P)) keys) <= length P.
  Proof.
    intros ND. induction P as [|p P IH]; intros Hd.
    - cbn [filter length]. clear. induction keys; [apply le_n|cbn [map]; rewrite ?lsum_cons; lia].
    - cbn [length]. specialize (IH (fun p0 b b' Hp => Hd p0 b b' (or_intror Hp))).
      pose proof (ind_sum_le1 (fun b => q b p) keys ND (fun b b' Hb Hb' => Hd p b b' (or_introl eq_refl) Hb Hb')) as H1.
      assert (Eq : list_sum (map (fun b => length (filter (q b) (p :: P))) keys) =
                   list_sum (map (fun b => (if q b p then 1 else 0) + length (filter (q b) P)) keys)).
      { apply sum_ext. intros b _. cbn [filter]. destruct (q b p); cbn [length]; lia. }
      rewrite Eq, sum_add. lia.
  Qed.

  (* weak duality on the side of the expanded condensation: kept edges no two of which lie on a common walk of the graph need
     as many paths in every family that meets the multiplicities *)
  Theorem multicover_needs_walk_width_many_paths (A' : list PathEnc.edge) (P : list (list N)) :
    NoDup A' -> (forall e, In e A' -> In e E /\ kept e = true) -> walk_incompatible E A' ->
    (forall p, In p P -> incl (pairs p) hedges) -> multicover P -> length A' <= length P.
  Proof.
    intros NDA HA Hinc HP Hmc.
    set (keys := nodup edge_dec (map hmap A')).
    assert (NDk : NoDup keys) by apply NoDup_nodup.
    assert (Hkeys : forall b, In b keys <-> exists a, In a A' /\ hmap a = b).
    { intros b. unfold keys. rewrite nodup_In, in_map_iff. split; intros (a & H1 & H2); exists a; auto. }
    (* an edge of A' on a walk through two keys *)
    assert (Hwalk : forall a a', In a A' -> In a' A' -> a <> a' -> conn E (snd a) (fst a') -> False).
    { intros a a' Ha Ha' Hne Hc. destruct (HA a Ha) as [HaE _]. destruct (HA a' Ha') as [HaE' _]. destruct Hc as (m & Hm & Lm).
      assert (Ep : pairs (fst a :: snd a :: m ++ [snd a']) = (fst a, snd a) :: pairs (snd a :: m) ++ [(fst a', snd a')]).
      { rewrite pairs_cons2. f_equal. change (snd a :: m ++ [snd a']) with ((snd a :: m) ++ [snd a']).
        rewrite (pairs_app_last (snd a :: m) [snd a'] (snd a)) by discriminate. rewrite Lm. reflexivity. }
      apply (Hinc a a' (fst a :: snd a :: m ++ [snd a']) Ha Ha' Hne); rewrite Ep.
      - intros e [<-|He]; [destruct a; exact HaE|]. apply in_app_or in He. destruct He as [He|[<-|[]]]; [apply Hm; exact He|destruct a'; exact HaE'].
      - left. destruct a; reflexivity.
      - right. apply in_or_app. right. left. destruct a'; reflexivity. }
    rewrite (length_by_key hmap keys NDk A') by (intros x Hx; apply Hkeys; exists x; auto).
    apply (Nat.le_trans _ (list_sum (map (fun b => length (filter (has b) P)) keys))).
    - apply sum_le. intros b Hb. apply Hkeys in Hb. destruct Hb as (a0 & Ha0 & Eb).
      destruct (HA a0 Ha0) as [Ha0E Ha0k].
      apply (Nat.le_trans _ (hweight b)); [|apply Hmc; rewrite <- Eb; apply hmap_in_hedges; exact Ha0E].
      assert (Hsub : incl (filter (fun x => edge_eqb (hmap x) b) A') (over b)).
      { intros x Hx. apply filter_In in Hx. destruct Hx as [Hx Q]. destruct (HA x Hx) as [HxE Hxk]. apply filter_In. split; [exact HxE|].
        rewrite Hxk, Q. reflexivity. }
      assert (NDf : NoDup (filter (fun x => edge_eqb (hmap x) b) A')) by (apply NoDup_filter; exact NDA).
      unfold hweight. destruct (N.odd (snd b)) eqn:Odd; [|apply NoDup_incl_length; assumption].
      (* a component: at most one edge of A' lies in it *)
      assert (L1 : length (filter (fun x => edge_eqb (hmap x) b) A') <= 1).
      { destruct (filter (fun x => edge_eqb (hmap x) b) A') as [|x [|y r]] eqn:Ef; [cbn; lia|cbn; lia|exfalso].
        assert (Hx : In x (filter (fun x => edge_eqb (hmap x) b) A')) by (rewrite Ef; left; reflexivity).
        assert (Hy : In y (filter (fun x => edge_eqb (hmap x) b) A')) by (rewrite Ef; right; left; reflexivity).
        assert (Hxy : x <> y) by (inversion NDf as [|? ? Hn _]; intros ->; apply Hn; left; reflexivity).
        apply filter_In in Hx, Hy. destruct Hx as [Hx Qx], Hy as [Hy Qy]. apply edge_eqb_eq in Qx, Qy.
        destruct (HA x Hx) as [HxE _]. destruct (HA y Hy) as [HyE _].
        pose proof (hmap_odd_inner x ltac:(rewrite Qx; exact Odd)) as Ix. pose proof (hmap_odd_inner y ltac:(rewrite Qy; exact Odd)) as Iy.
        destruct (hmap_ends x) as [X1 X2]. destruct (hmap_ends y) as [Y1 Y2]. rewrite Qx in X1, X2. rewrite Qy in Y1, Y2.
        apply (Hwalk x y Hx Hy Hxy). destruct x as [x1 x2], y as [y1 y2]. cbn [fst snd] in *.
        apply (Hcm x2 y1 (proj2 (nodes_of_edge x1 x2 HxE)) (proj1 (nodes_of_edge y1 y2 HyE))). congruence. }
      pose proof (NoDup_incl_length NDf Hsub) as L2. lia.
    - apply (disjoint_counts has keys NDk P). intros p b b' Hp Hb Hb' Q Q'.
      destruct (edge_eqb b b') eqn:Qb; [apply edge_eqb_eq; exact Qb|exfalso].
      assert (Hne : b <> b') by (intros X; apply edge_eqb_eq in X; congruence).
      apply Hkeys in Hb, Hb'. destruct Hb as (a & Ha & Eb), Hb' as (a' & Ha' & Eb').
      assert (Haa : a <> a') by (intros ->; congruence).
      unfold has in Q, Q'. apply mem_edge_In in Q, Q'.
      destruct (HA a Ha) as [HaE _]. destruct (HA a' Ha') as [HaE' _].
      destruct (hmap_ends a) as [A1 A2]. destruct (hmap_ends a') as [B1 B2]. rewrite Eb in A1, A2. rewrite Eb' in B1, B2.
      assert (Na := nodes_of_edge (fst a) (snd a) ltac:(destruct a; exact HaE)).
      assert (Na' := nodes_of_edge (fst a') (snd a') ltac:(destruct a'; exact HaE')).
      destruct (two_on_path hedges p b b' (HP p Hp) Q Q') as [X|[(m & Hm & Lm)|(m & Hm & Lm)]]; [contradiction| |].
      + apply (Hwalk a a' Ha Ha' Haa). apply (hconn_gconn m (snd b) (fst b') (snd a) (fst a') Hm Lm); try tauto; congruence.
      + apply (Hwalk a' a Ha' Ha (fun X => Haa (eq_sym X))). apply (hconn_gconn m (snd b') (fst b) (snd a') (fst a) Hm Lm); try tauto; congruence.
  Qed.
End Condensation.

(* ================================================================================================================= *)
(* (2): the least number of s-t walks covering the kept edges = the least number of paths of the expanded condensation that meet
   its multiplicities (what get_width computes by a minimum flow) = the largest number of kept edges no two on a common walk *)
Section Equality.
  Variable E : list PathEnc.edge.
  Variables s t : node.
  Variable cm : node -> N.
  Variable cn : list N.
  Variable cE : list (N * N).
  Variable ign : list PathEnc.edge.
  Hypothesis Hst : forall u v, In (u, v) E -> conn E s u /\ conn E v t.
  Hypothesis Hcm : forall u v, In u (nodes_of E) -> In v (nodes_of E) -> (cm u = cm v <-> conn E u v /\ conn E v u).
  Hypothesis HcE_fwd : forall u v, In (u, v) E -> cm u <> cm v -> In (cm u, cm v) cE.
  Hypothesis HcE_bwd : forall a b, In (a, b) cE -> a <> b /\ exists u v, In (u, v) E /\ cm u = a /\ cm v = b.
  Hypothesis Hcn : forall e, In e E -> In (cm (fst e)) cn /\ In (cm (snd e)) cn.
  Hypothesis NDE : NoDup E.

  Definition walk_cover (W : list (list node)) : Prop :=
    (forall l, In l W -> st_walk E s t l) /\ (forall e, In e E -> kept ign e = true -> exists l, In l W /\ In e (pairs l)).
  Definition condensation_cover (P : list (list N)) : Prop :=
    (forall p, In p P -> hpath E s t cm cn cE p) /\ multicover E cm cn cE ign P.

  Theorem min_walk_cover_equals_condensation_width :
    exists k,
      (exists W, walk_cover W /\ length W = k) /\ (forall W, walk_cover W -> k <= length W) /\
      (exists P, condensation_cover P /\ length P = k) /\ (forall P, condensation_cover P -> k <= length P) /\
      (exists A', NoDup A' /\ (forall e, In e A' -> In e E /\ kept ign e = true) /\ walk_incompatible E A' /\ length A' = k).
  Proof.
    set (X := filter (kept ign) E).
    assert (HXin : forall e, In e X <-> In e E /\ kept ign e = true) by (intros e; unfold X; apply filter_In).
    destruct (min_walk_cover_equals_walk_width E s t Hst X (NoDup_filter _ NDE) (fun e He => proj1 (proj1 (HXin e) He)))
      as (W & A' & HW & Hcov & NDA & HA & Hinc & Hlen).
    assert (HWc : walk_cover W).
    { split; [exact HW|]. intros e He Hk. apply Hcov. apply HXin. split; assumption. }
    assert (HA' : forall e, In e A' -> In e E /\ kept ign e = true) by (intros e He; apply HXin, HA, He).
    exists (length W). split; [exists W; split; [exact HWc|reflexivity]|]. split; [|split; [|split]].
    - intros W' [HW' Hcov']. rewrite <- Hlen.
      apply (walk_cover_needs_width_many_walks E W' A' NDA Hinc (fun l Hl => proj2 (proj2 (HW' l Hl)))).
      intros e He. destruct (HA' e He) as [H1 H2]. exact (Hcov' e H1 H2).
    - destruct (walk_cover_projects E s t cm cn cE ign Hcm HcE_fwd Hcn NDE W (proj1 HWc) (proj2 HWc)) as (H1 & H2 & H3).
      exists (map (proj E cm) W). split; [split; assumption|exact H3].
    - intros P [HP Hmc]. rewrite <- Hlen.
      apply (multicover_needs_walk_width_many_paths E cm cn cE ign Hcm HcE_fwd HcE_bwd Hcn A' P NDA HA' Hinc); [|exact Hmc].
      intros p Hp. exact (proj2 (proj2 (HP p Hp))).
    - exists A'. split; [exact NDA|]. split; [exact HA'|]. split; [exact Hinc|exact Hlen].
  Qed.
End Equality.

(* the hypotheses about the condensation are what the verified checker Reach.cond_ok establishes about networkx' output *)
From FP Require Reach ReachProofs1 ReachProofs2.
Definition st_ok (E : list PathEnc.edge) (s t : node) : bool :=
  forallb (fun e => reachb E s (fst e) && reachb E (snd e) t) E && existsb (fun e => (fst e =? s)%N) E.
Lemma st_ok_spec E s t : st_ok E s t = true -> forall u v, In (u, v) E -> conn E s u /\ conn E v t.
Proof.
  unfold st_ok. rewrite andb_true_iff. intros [H1 H2] u v He. rewrite forallb_forall in H1. specialize (H1 (u, v) He). cbn [fst snd] in H1.
  apply andb_true_iff in H1. destruct H1 as [R1 R2]. apply existsb_exists in H2. destruct H2 as (e0 & He0 & Q). apply N.eqb_eq in Q.
  split.
  - apply (reachb_spec E s u); [rewrite <- Q; apply (nodes_of_in E e0 He0)|exact R1].
  - apply (reachb_spec E v t); [apply (nodes_of_in E (u, v) He)|exact R2].
Qed.

Theorem min_walk_cover_equals_condensation_width_checked (V : list node) (E : list PathEnc.edge) (C : Reach.cond) (s t : node)
    (ign : list PathEnc.edge) :
  Reach.cond_ok V E C = true -> NoDup E -> st_ok E s t = true ->
  let cm := Reach.c_map C in let cn := Reach.c_topo C in let cE := Reach.c_edges C in
  exists k,
    (exists W, walk_cover E s t ign W /\ length W = k) /\ (forall W, walk_cover E s t ign W -> k <= length W) /\
    (exists P, condensation_cover E s t cm cn cE ign P /\ length P = k) /\
    (forall P, condensation_cover E s t cm cn cE ign P -> k <= length P) /\
    (exists A', NoDup A' /\ (forall e, In e A' -> In e E /\ kept ign e = true) /\ walk_incompatible E A' /\ length A' = k).
Proof.
  intros Hok NDE Hsok. cbv zeta. pose proof (ReachProofs2.cond_ok_spec V E C Hok) as S.
  assert (HV : forall e, In e E -> In (fst e) V /\ In (snd e) V).
  { intros [u v] He. exact (ReachProofs2.cs_edgesV V E C S u v He). }
  assert (HN : forall u, In u (nodes_of E) -> In u V).
  { intros u Hu. unfold nodes_of in Hu. rewrite nodup_In in Hu. apply in_app_or in Hu.
    destruct Hu as [Hu|Hu]; apply in_map_iff in Hu; destruct Hu as (e & <- & He); apply (HV e He). }
  apply (min_walk_cover_equals_condensation_width E s t (Reach.c_map C) (Reach.c_topo C) (Reach.c_edges C) ign (st_ok_spec E s t Hsok)).
  - intros u v Hu Hv. rewrite (ReachProofs2.cs_scc V E C S u v (HN u Hu) (HN v Hv)). rewrite <- !conn_reach. tauto.
  - intros u v He Hne. exact (ReachProofs2.cs_edge_fwd V E C S u v He Hne).
  - intros a b Hab. exact (ReachProofs2.cs_edge_bwd V E C S a b Hab).
  - intros e He. destruct (HV e He) as [H1 H2]. split; apply (ReachProofs2.cs_topo_all V E C S); assumption.
  - exact NDE.
Qed.

(* the executable model of stDiGraph._build_condensation_expanded and of the weights get_width hands to the minimum flow:
   node 2c is "c", node 2c+1 is "c_expanded" *)
Definition condense_model (E : list PathEnc.edge) (cmap : list (node * N)) (cn : list N) (cE : list (N * N))
    (ign : list PathEnc.edge) : list (PathEnc.edge * nat) :=
  let cm := Reach.map_of cmap 0%N in map (fun b => (b, hweight E cm ign b)) (hedges E cm cn cE).

(* ---- non-vacuity: a 2-cycle 1 <-> 2 with a tail 2 -> 3, source 0, sink 4 ---- *)
Definition cyV : list node := [0; 1; 2; 3; 4]%N.
Definition cyE : list PathEnc.edge := [(0, 1); (1, 2); (2, 1); (2, 3); (3, 4)]%N.
Definition cyC : Reach.cond :=
  {| Reach.c_map := Reach.map_of [(0, 0); (1, 1); (2, 1); (3, 2); (4, 3)]%N 0%N;
     Reach.c_edges := [(0, 1); (1, 2); (2, 3)]%N; Reach.c_topo := [0; 1; 2; 3]%N |}.

Example two_cycle_premises : Reach.cond_ok cyV cyE cyC = true /\ NoDup cyE /\ st_ok cyE 0%N 4%N = true.
Proof.
  split; [vm_compute; reflexivity|]. split; [|vm_compute; reflexivity].
  repeat constructor; cbn; intuition discriminate.
Qed.
Example two_cycle_condensation :
  condense_model cyE [(0, 0); (1, 1); (2, 1); (3, 2); (4, 3)]%N [0; 1; 2; 3]%N [(0, 1); (1, 2); (2, 3)]%N [] =
  [((2, 3)%N, 1); ((0, 2)%N, 1); ((3, 4)%N, 1); ((4, 6)%N, 1)].
Proof. vm_compute. reflexivity. Qed.
Example two_cycle_one_walk : walk_cover cyE 0%N 4%N [] [[0; 1; 2; 1; 2; 3; 4]%N].
Proof.
  split.
  - intros l [<-|[]]. split; [reflexivity|]. split; [reflexivity|]. intros e He. cbn in He. cbn. intuition.
  - intros e He _. exists [0; 1; 2; 1; 2; 3; 4]%N. split; [left; reflexivity|]. cbn in He. cbn. intuition.
Qed.

(* the premises of min_walk_cover_equals_condensation_width_checked as one executable check, evaluated per instance by the E3 stream *)
Definition condense_premises (V : list node) (E : list PathEnc.edge) (cmap : list (node * N)) (topo : list N) (cE : list (N * N))
    (s t : node) : bool :=
  Reach.cond_ok V E {| Reach.c_map := Reach.map_of cmap 0%N; Reach.c_edges := cE; Reach.c_topo := topo |} &&
  Reach.nodupE E && st_ok E s t.
Lemma condense_premises_sound V E cmap topo cE s t : condense_premises V E cmap topo cE s t = true ->
  Reach.cond_ok V E {| Reach.c_map := Reach.map_of cmap 0%N; Reach.c_edges := cE; Reach.c_topo := topo |} = true /\
  NoDup E /\ st_ok E s t = true.
Proof.
  unfold condense_premises. rewrite !andb_true_iff. intros [[H1 H2] H3]. split; [exact H1|]. split; [|exact H3].
  apply ReachProofs1.nodupE_NoDup. exact H2.
Qed.
