(* Non-vacuity: a concrete instance (diamond, two paths of weights 2 and 3, one subpath constraint) meets every
   hypothesis of kfd_feasible_iff_cons / mfd_returns_minimum_cons, has a decomposition covering the constraint with
   k = 2 and none with k = 1 -- so the premises of the C02/C03/C10 theorems are satisfiable and the optimum is 2. *)
From Coq Require Import List NArith ZArith QArith Lqa Bool Arith Lia Permutation.
Import ListNotations.
From FP Require Import Lin Blocks BlocksProofs PathEnc Aug AugProofs Euler EulerProofs1 EulerProofs2 DagDecode PathEncProofs PathEncComplete.
Local Close Scope Q_scope.

Definition exG : stgraph :=
  {| g_nodes := [0; 1; 2; 3]%N; g_edges := [(0, 1); (0, 2); (1, 3); (2, 3)]%N; g_src := 0%N; g_snk := 3%N;
     g_succ := [(0, [1; 2]); (1, [3]); (2, [3]); (3, [])]%N; g_pred := [(0, []); (1, [0]); (2, [0]); (3, [1; 2])]%N |}.

Definition exB (k : nat) : path_inst :=
  {| p_graph := exG; p_k := k; p_allow_empty := false; p_cons := [[(0, 1); (1, 3)]]%N; p_cov := 1%Q; p_len := None |}.

Definition exI (k : nat) : kfd_inst :=
  {| f_base := exB k; f_flow := [((0, 1), 2%Q); ((0, 2), 3%Q); ((1, 3), 2%Q); ((2, 3), 3%Q)]%N; f_ignore := [];
     f_wmax := 3%Q; f_int := true |}.

Definition exP (i : N) : list node := if (i =? 0)%N then [0; 1; 3]%N else [0; 2; 3]%N.
Definition exW (i : N) : Q := if (i =? 0)%N then 2%Q else 3%Q.
Definition exRank (v : node) : nat := N.to_nat (N.min v 3).

Lemma ex_wf : wf_graph exG.
Proof.
  constructor.
  - cbn. repeat constructor; cbn; intuition discriminate.
  - intros e He. cbn in He. cbn. intuition (subst; cbn; auto).
  - intros v. destruct v as [|[[p|p|]|[p|p|]|]]; reflexivity.
  - intros v. destruct v as [|[[p|p|]|[p|p|]|]]; cbn; apply Permutation_refl.
  - intros e He. cbn in He. intuition (subst; cbn; discriminate).
  - intros e He. cbn in He. intuition (subst; cbn; discriminate).
  - cbn. discriminate.
Qed.

Lemma ex_rank : forall u v, In (u, v) (g_edges exG) -> (exRank u < exRank v)%nat.
Proof. intros u v H. cbn in H. intuition (match goal with E : (_, _) = (_, _) |- _ => injection E as <- <- end; cbn; lia). Qed.

Lemma ex_rank_le : forall v, (exRank v <= 3)%nat.
Proof. intros v. unfold exRank. lia. Qed.

Lemma ex_cons_ok k : forall c e, In c (p_cons (f_base (exI k))) -> In e c ->
  In e (g_edges (p_graph (f_base (exI k)))) /\ (0 <= elen (f_base (exI k)) e)%Q.
Proof.
  intros c e Hc He. cbn in Hc. destruct Hc as [<-|[]]. cbn in He. unfold elen. cbn [p_len f_base exI exB].
  split; [cbn; intuition (subst; auto)|lra].
Qed.

Lemma ex_layers2 i : In i (layers 2) -> i = 0%N \/ i = 1%N.
Proof. cbn. intuition. Qed.

Example ex_decomposition : decomposition (exI 2) exP exW /\ constraints_covered (f_base (exI 2)) exP.
Proof.
  split; [unfold decomposition; split; [|split]|].
  - intros i Hi. destruct (ex_layers2 i Hi) as [-> | ->]; cbn.
    + repeat split; try reflexivity.
      * repeat constructor; cbn; intuition discriminate.
      * intros e He. cbn in He. cbn. intuition.
    + repeat split; try reflexivity.
      * repeat constructor; cbn; intuition discriminate.
      * intros e He. cbn in He. cbn. intuition.
  - intros i Hi. destruct (ex_layers2 i Hi) as [-> | ->]; cbn; (split; [lra|intros _; eexists; reflexivity]).
  - intros e He _. cbn in He. intuition (subst; vm_compute; reflexivity).
  - intros n c Hn. destruct n as [|n]; [|destruct n; discriminate]. cbn in Hn. injection Hn as <-.
    exists 0%N. split; [cbn; auto|]. vm_compute. discriminate.
Qed.

(* one path cannot explain the two branches: no decomposition with k = 1 *)
Example ex_no_decomposition_1 : ~ exists P w, decomposition (exI 1) P w /\ constraints_covered (f_base (exI 1)) P.
Proof.
  intros (P & w & (HP & Hw & Hf) & _).
  assert (H0 : In 0%N (layers 1)) by (cbn; auto).
  pose proof (Hf (0, 1)%N) as F1. pose proof (Hf (0, 2)%N) as F2.
  cbn in F1, F2. specialize (F1 (or_introl eq_refl) eq_refl). specialize (F2 (or_intror (or_introl eq_refl)) eq_refl).
  (* the single weight would have to be 0 or 2 on (0,1) and 0 or 3 on (0,2) while both flows are positive and differ *)
  destruct (mem_edge (0, 1)%N (pairs (P 0%N))); destruct (mem_edge (0, 2)%N (pairs (P 0%N)));
    cbn [indq] in F1, F2; lra.
Qed.

(* hence the k-model of the example is feasible for k = 2 and infeasible for k = 1 *)
Example ex_lp_feasible_2 : exists a, sat a (encode_kfd (exI 2)).
Proof.
  apply (kfd_feasible_iff_cons (exI 2) exRank 3 ex_wf eq_refl ex_rank ex_rank_le (ex_cons_ok 2)).
  exists exP, exW. exact ex_decomposition.
Qed.

Example ex_lp_infeasible_1 : ~ exists a, sat a (encode_kfd (exI 1)).
Proof.
  intros H. apply (kfd_feasible_iff_cons (exI 1) exRank 3 ex_wf eq_refl ex_rank ex_rank_le (ex_cons_ok 1)) in H.
  exact (ex_no_decomposition_1 H).
Qed.

(* ---- the same instance as a path-cover instance ---- *)
From FP Require Import PathCoverComplete.

Example ex_cover_2 : path_cover (exB 2) [] exP /\ constraints_covered (exB 2) exP.
Proof.
  split; [split|exact (proj2 ex_decomposition)].
  - exact (proj1 (proj1 ex_decomposition)).
  - intros e He _. cbn in He.
    destruct He as [<-|[<-|[<-|[<-|[]]]]];
      [exists 0%N|exists 1%N|exists 0%N|exists 1%N]; (split; [cbn; auto|reflexivity]).
Qed.

Example ex_no_cover_1 : ~ exists P, path_cover (exB 1) [] P /\ constraints_covered (exB 1) P.
Proof.
  intros (P & (HP & Hcov) & _).
  assert (L1 : forall i, In i (layers 1) -> i = 0%N) by (intros i Hi; cbn in Hi; intuition).
  destruct (Hcov (0, 1)%N) as (i1 & Hi1 & M1); [cbn; auto|reflexivity|].
  destruct (Hcov (0, 2)%N) as (i2 & Hi2 & M2); [cbn; auto|reflexivity|].
  cbn [p_k exB] in Hi1, Hi2. rewrite (L1 i1 Hi1) in M1. rewrite (L1 i2 Hi2) in M2.
  destruct (HP 0%N) as (_ & _ & ND & _); [cbn; auto|].
  apply mem_edge_In in M1, M2.
  (* two different edges leaving node 0 on a duplicate-free node list *)
  clear - ND M1 M2. set (l := P 0%N) in *. clearbody l.
  induction l as [|a r IH]; [destruct M1|].
  destruct r as [|b r']; [destruct M1|].
  change (pairs (a :: b :: r')) with ((a, b) :: pairs (b :: r')) in M1, M2.
  inversion ND as [|? ? Hni ND']; subst.
  destruct M1 as [E1|M1]; destruct M2 as [E2|M2].
  - congruence.
  - injection E1 as -> ->. apply in_pairs_r in M2. tauto.
  - injection E2 as -> ->. apply in_pairs_r in M1. tauto.
  - exact (IH M1 M2 ND').
Qed.

Lemma exB_cons_ok k : forall c e, In c (p_cons (exB k)) -> In e c -> In e (g_edges (p_graph (exB k))) /\ (0 <= elen (exB k) e)%Q.
Proof. exact (ex_cons_ok k). Qed.

Example ex_kpc_feasible_2 : exists a, sat a (encode_kpc (exB 2) []).
Proof.
  apply (kpc_feasible_iff (exB 2) [] exRank 3 ex_wf eq_refl ex_rank ex_rank_le (exB_cons_ok 2)).
  exists exP. exact ex_cover_2.
Qed.

Example ex_kpc_infeasible_1 : ~ exists a, sat a (encode_kpc (exB 1) []).
Proof.
  intros H. apply (kpc_feasible_iff (exB 1) [] exRank 3 ex_wf eq_refl ex_rank ex_rank_le (exB_cons_ok 1)) in H.
  exact (ex_no_cover_1 H).
Qed.

(* ---- given weights (solution_weights_superset): a satisfying assignment of the LP with an empty layer ---- *)
From FP Require Import PathEncGiven.
(* three given weights 2, 3, 5 for the diamond with flows 2 / 3: layers 0 and 1 carry the two paths, layer 2 stays empty *)
Definition exBg : path_inst :=
  {| p_graph := exG; p_k := 3; p_allow_empty := true; p_cons := []; p_cov := 1%Q; p_len := None |}.
Definition exIg : kfd_inst :=
  {| f_base := exBg; f_flow := [((0, 1), 2%Q); ((0, 2), 3%Q); ((1, 3), 2%Q); ((2, 3), 3%Q)]%N; f_ignore := [];
     f_wmax := 5%Q; f_int := true |}.
Definition exAg (x : var) : Q :=
  match vidx x with
  | [u; v; i] => if (vfam x =? fEdge)%N then
                   if (i =? 0)%N then indq (mem_edge (u, v) [(0, 1); (1, 3)]%N)
                   else if (i =? 1)%N then indq (mem_edge (u, v) [(0, 2); (2, 3)]%N) else 0%Q
                 else 0%Q
  | _ => 0%Q
  end.

Example ex_given_sat : sat exAg (encode_kfd_given exIg [2%Q; 3%Q; 5%Q] 2).
Proof.
  split.
  - apply Forall_forall. intros c Hc. cbn in Hc.
    repeat (destruct Hc as [<-|Hc]; [unfold sat_col; cbn; repeat split; try lra; intros _; try (exists 0%Z; reflexivity); try (exists 1%Z; reflexivity)|]).
    destruct Hc.
  - apply Forall_forall. intros r Hr. cbn in Hr.
    repeat (destruct Hr as [<-|Hr]; [unfold sat_row, mkrow; cbn; unfold inject_Z; lra|]).
    destruct Hr.
Qed.

From FP Require Import SafeFix.
(* ---- safe-path fixing on the diamond: the lists [(0,1)] and [(0,2)] are safe and incompatible ---- *)
Lemma two_out_edges_nodup (l : list node) (a b c : node) : b <> c -> NoDup l -> In (a, b) (pairs l) -> In (a, c) (pairs l) -> False.
Proof.
  intros Hbc. induction l as [|x r IH]; intros ND M1 M2; [destruct M1|].
  destruct r as [|y r']; [destruct M1|].
  change (pairs (x :: y :: r')) with ((x, y) :: pairs (y :: r')) in M1, M2.
  inversion ND as [|? ? Hni ND']; subst.
  destruct M1 as [E1|M1]; destruct M2 as [E2|M2].
  - congruence.
  - injection E1 as -> ->. apply in_pairs_r in M2. tauto.
  - injection E2 as -> ->. apply in_pairs_r in M1. tauto.
  - exact (IH ND' M1 M2).
Qed.

Definition exSs : list (list PathEnc.edge) := [[(0, 1)]; [(0, 2)]]%N.

Example ex_fix_safe : forall P w, decomposition (exI 2) P w -> constraints_covered (f_base (exI 2)) P ->
  forall j S, nth_error exSs j = Some S -> exists i, In i (layers (p_k (f_base (exI 2)))) /\ incl S (pairs (P i)).
Proof.
  intros P w (_ & _ & Hf) _ j S Hj.
  assert (Hpos : forall e, In e (g_edges exG) -> (0 < lookup_q e (f_flow (exI 2)) 0)%Q ->
                 exists i, In i (layers 2) /\ In e (pairs (P i))).
  { intros e He Hp. pose proof (Hf e He eq_refl) as F. cbn [p_k f_base exI exB layers map seq sumq] in F.
    destruct (mem_edge e (pairs (P (N.of_nat 0)))) eqn:M0.
    - exists 0%N. split; [cbn; auto|apply mem_edge_In; exact M0].
    - destruct (mem_edge e (pairs (P (N.of_nat 1)))) eqn:M1.
      + exists 1%N. split; [cbn; auto|apply mem_edge_In; exact M1].
      + exfalso. cbn [indq] in F. lra. }
  destruct j as [|[|j]]; [| |destruct j; discriminate]; cbn in Hj; injection Hj as <-.
  - destruct (Hpos (0, 1)%N) as (i & Hi & Hin); [cbn; auto|vm_compute; reflexivity|].
    exists i. split; [exact Hi|]. intros e [<-|[]]. exact Hin.
  - destruct (Hpos (0, 2)%N) as (i & Hi & Hin); [cbn; auto|vm_compute; reflexivity|].
    exists i. split; [exact Hi|]. intros e [<-|[]]. exact Hin.
Qed.

Example ex_fix_incompatible : forall j j' S S', j <> j' -> nth_error exSs j = Some S -> nth_error exSs j' = Some S' ->
  forall l, NoDup l -> incl S (pairs l) -> incl S' (pairs l) -> False.
Proof.
  intros j j' S S' Hne Hj Hj' l ND HS HS'.
  destruct j as [|[|j]]; [| |destruct j; discriminate]; cbn in Hj; injection Hj as <-;
  (destruct j' as [|[|j']]; [| |destruct j'; discriminate]; cbn in Hj'; injection Hj' as <-); try congruence.
  - apply (two_out_edges_nodup l 0%N 1%N 2%N); [discriminate|exact ND|apply HS; left; reflexivity|apply HS'; left; reflexivity].
  - apply (two_out_edges_nodup l 0%N 2%N 1%N); [discriminate|exact ND|apply HS; left; reflexivity|apply HS'; left; reflexivity].
Qed.

Example ex_fixed_model_feasible : exists a, sat a (with_rows (encode_kfd (exI 2)) (fix_rows exSs)).
Proof.
  apply (safe_fix_preserves_feasibility (exI 2) exRank 3 exSs ex_wf eq_refl ex_rank ex_rank_le (ex_cons_ok 2)).
  - cbn. lia.
  - exact ex_fix_safe.
  - exact ex_fix_incompatible.
  - exact ex_lp_feasible_2.
Qed.

(* the same two lists added as subpath constraints (optimize_with_safety_as_subpath_constraints): still feasible *)
Example ex_safety_as_constraints_feasible : exists a, sat a (encode_kfd (add_cons (exI 2) exSs)).
Proof.
  apply (safety_as_constraints_preserves_feasibility (exI 2) exRank 3 exSs ex_wf eq_refl ex_rank ex_rank_le).
  - intros c e Hc He. cbn in Hc. destruct Hc as [<-|[<-|[<-|[]]]]; cbn in He; unfold elen; cbn [p_len f_base exI exB];
      (split; [cbn; intuition (subst; auto)|lra]).
  - cbn. lra.
  - intros P w Hd Hcc S HS. destruct (In_nth_error _ _ HS) as (j & Hj). exact (ex_fix_safe P w Hd Hcc j S Hj).
  - exact ex_lp_feasible_2.
Qed.
