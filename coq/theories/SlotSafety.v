(* C06, second and third sentence: the sequences fixed into different solution slots cannot occur together in one source-to-sink
   path/walk, and an arc forbidden for a slot lies on no source-to-sink walk that contains the slot's sequence.
   A (DAG): sequences that contain different arcs of an arc antichain are pairwise incompatible; the set compute_max_edge_antichain
      extracts is such an antichain (MinFlowCut).
   B (cycles): the same through the expanded condensation: arcs over different members of an antichain of the expanded condensation,
      or different parallel arcs over one member between two components, lie on no common walk (WalkWidth's projection).
   C: the zero-fixing rule of _apply_safety_optimizations_fix_zero_edges (WalkEncRows.zero_edges) forbids only arcs that lie on no walk
      containing the sequence in order. *)
From Coq Require Import List Bool Arith NArith ZArith QArith Lia.
Import ListNotations.
From FP Require Import Lin PathEnc Euler EulerProofs1 SafetyReach Dilworth.
From FP Require Safety MinFlowCut WalkWidth.
Set Default Timeout 60.
Local Close Scope Q_scope.
Local Open Scope nat_scope.

Notation st_walk := Safety.st_walk.
Notation incompatible := Safety.incompatible.
Notation forbidden := Safety.forbidden.

(* an arc walk is the list of consecutive pairs of a node walk *)
Lemma chain_nodes a w b : SafetyReach.chain a w b -> exists m, EulerProofs1.pairs (a :: m) = w /\ last (a :: m) a = b.
Proof.
  induction 1 as [v|v u w z C IH]; [exists []; split; reflexivity|]. destruct IH as (m & E1 & E2). exists (u :: m).
  split; [rewrite pairs_cons2, E1; reflexivity|]. rewrite <- E2. rewrite !last_cons_default. reflexivity.
Qed.

Definition arc_antichain (G : SafetyReach.graph) (s t : node) (A : list edge) : Prop :=
  forall e1 e2 w, In e1 A -> In e2 A -> e1 <> e2 -> st_walk G s t w -> In e1 w -> In e2 w -> False.

(* A *)
Theorem sequences_of_an_antichain_are_pairwise_incompatible G s t A e1 e2 q1 q2 :
  arc_antichain G s t A -> In e1 A -> In e2 A -> e1 <> e2 -> In e1 q1 -> In e2 q2 -> incompatible G s t q1 q2.
Proof.
  intros HA H1 H2 Hne I1 I2 w Hw S1 S2. exact (HA e1 e2 w H1 H2 Hne Hw (subseq_In _ _ _ S1 I1) (subseq_In _ _ _ S2 I2)).
Qed.

(* arcs pairwise unordered by reachability (what MinFlowCut proves of the extracted set) are an arc antichain *)
Lemma unordered_is_arc_antichain G s t A :
  (forall e1 e2, In e1 A -> In e2 A -> ~ conn G (snd e1) (fst e2)) -> arc_antichain G s t A.
Proof.
  intros HA e1 e2 w H1 H2 Hne [C I] I1 I2. destruct (chain_nodes _ _ _ C) as (m & Ep & _).
  assert (Hl : incl (EulerProofs1.pairs (s :: m)) G) by (rewrite Ep; exact I).
  rewrite <- Ep in I1, I2. destruct (two_on_path G (s :: m) e1 e2 Hl I1 I2) as [E|[H|H]]; [contradiction| |].
  - exact (HA e1 e2 H1 H2 H).
  - exact (HA e2 e1 H2 H1 H).
Qed.

(* composed with MinFlowCut: on an instance that passes the extracted premise check, the arcs compute_max_edge_antichain returns form an
   arc antichain, so sequences containing different ones of them are pairwise incompatible *)
Theorem extracted_antichain_gives_incompatible_sequences V E s t wl fl e1 e2 q1 q2 :
  MinFlowCut.mincut_premises V E s t wl fl = true ->
  let A := snd (MinFlowCut.mincut_model V E s wl fl) in
  In e1 A -> In e2 A -> e1 <> e2 -> In e1 q1 -> In e2 q2 -> incompatible E s t q1 q2.
Proof.
  intros Hp A H1 H2 Hne I1 I2. destruct (MinFlowCut.mincut_checked V E s t wl fl Hp) as ((_ & _ & Hanti) & _).
  apply (sequences_of_an_antichain_are_pairwise_incompatible E s t A e1 e2 q1 q2); try assumption.
  apply unordered_is_arc_antichain. exact Hanti.
Qed.

(* B: through the expanded condensation *)
Section Cyclic.
  Variable E : list PathEnc.edge.
  Variables s t : node.
  Variable cm : node -> N.
  Variable cn : list N.
  Variable cE : list (N * N).
  Hypothesis Hcm : forall u v, In u (nodes_of E) -> In v (nodes_of E) -> (cm u = cm v <-> conn E u v /\ conn E v u).
  Hypothesis HcE_fwd : forall u v, In (u, v) E -> cm u <> cm v -> In (cm u, cm v) cE.
  Hypothesis Hcn : forall e, In e E -> In (cm (fst e)) cn /\ In (cm (snd e)) cn.

  Definition hmap := WalkWidth.hmap E cm.
  Definition hedges := WalkWidth.hedges E cm cn cE.
  (* no path of the expanded condensation passes two different members of B *)
  Definition condensation_antichain (B : list PathEnc.edge) : Prop :=
    forall b1 b2 p, In b1 B -> In b2 B -> b1 <> b2 -> incl (EulerProofs1.pairs p) hedges -> In b1 (EulerProofs1.pairs p) -> In b2 (EulerProofs1.pairs p) -> False.

  Theorem arcs_over_a_condensation_antichain_share_no_walk (B : list PathEnc.edge) e1 e2 w :
    condensation_antichain B -> In e1 E -> In e2 E -> In (hmap e1) B -> In (hmap e2) B ->
    (* over different members, or different parallel arcs between two components *)
    (hmap e1 <> hmap e2 \/ (e1 <> e2 /\ hmap e1 = hmap e2 /\ cm (fst e1) <> cm (snd e1))) ->
    st_walk E s t w -> In e1 w -> In e2 w -> False.
  Proof.
    intros HB He1 He2 Hb1 Hb2 Hcase [C I] I1 I2. destruct (chain_nodes _ _ _ C) as (m & Ep & _).
    assert (Hl : incl (EulerProofs1.pairs (s :: m)) E) by (rewrite Ep; exact I). rewrite <- Ep in I1, I2.
    destruct Hcase as [Hne|(Hne & Heq & Hinter)].
    - destruct (WalkWidth.proj_spec E cm cn cE HcE_fwd Hcn m s Hl) as (P1 & _ & P3).
      exact (HB (hmap e1) (hmap e2) (WalkWidth.proj E cm (s :: m)) Hb1 Hb2 Hne P1 (P3 e1 I1) (P3 e2 I2)).
    - destruct (WalkWidth.hmap_ends E cm e1) as [A1 A2]. destruct (WalkWidth.hmap_ends E cm e2) as [B1 B2].
      unfold hmap in Heq. rewrite Heq in A1, A2.
      apply (WalkWidth.parallel_not_on_walk E cm Hcm e1 e2 (s :: m) He1 He2 Hne Hinter); try assumption; congruence.
  Qed.

  Theorem sequences_over_a_condensation_antichain_are_incompatible (B : list PathEnc.edge) e1 e2 q1 q2 :
    condensation_antichain B -> In e1 E -> In e2 E -> In (hmap e1) B -> In (hmap e2) B ->
    (hmap e1 <> hmap e2 \/ (e1 <> e2 /\ hmap e1 = hmap e2 /\ cm (fst e1) <> cm (snd e1))) ->
    In e1 q1 -> In e2 q2 -> incompatible E s t q1 q2.
  Proof.
    intros HB He1 He2 Hb1 Hb2 Hcase I1 I2 w Hw S1 S2.
    exact (arcs_over_a_condensation_antichain_share_no_walk B e1 e2 w HB He1 He2 Hb1 Hb2 Hcase Hw (subseq_In _ _ _ S1 I1) (subseq_In _ _ _ S2 I2)).
  Qed.
End Cyclic.

(* ================================================================================================================= *)
(* C: the zero-fixing rule *)
From FP Require Import PathEncProofs WalkEncRows WalkEncRowsProofs WalkWidthCaps.
From Coq Require Import Permutation.

(* the reachability sets of the model are complete *)
Lemma reach_fwd_complete G a b : wf_stg G -> In a (g_nodes G) -> conn (g_edges G) a b -> mem_node b (reach_fwd G a) = true.
Proof.
  intros WFS Ha (m & Hm & Lm). pose proof (wfs_graph G WFS) as WF.
  destruct (simple_conn (g_edges G) m a Hm) as (m' & ND & Hw & L').
  pose proof (NoDup_incl_length ND (walk_nodes_in G WF m' a Ha Hw)) as Hlen. cbn [length] in Hlen.
  unfold reach_fwd. apply mem_node_In. rewrite <- Lm, <- L'.
  apply closure_reaches; [left; reflexivity|lia|]. intros x y Hxy. apply (succs_edge G x y WF). apply Hw. exact Hxy.
Qed.

Lemma pairs_snoc_gen (l : list node) (x d : node) : l <> [] -> pairs (l ++ [x]) = pairs l ++ [(last l d, x)].
Proof.
  induction l as [|a l IH]; intros Hne; [contradiction|]. destruct l as [|b r]; [reflexivity|].
  change (pairs ((a :: b :: r) ++ [x])) with ((a, b) :: pairs ((b :: r) ++ [x])). rewrite IH by discriminate.
  rewrite pairs_cons2. change (last (a :: b :: r) d) with (last (b :: r) d). reflexivity.
Qed.
Lemma pairs_rev_in : forall (l : list node) x y, In (x, y) (pairs (rev l)) -> In (y, x) (pairs l).
Proof.
  induction l as [|a l IH]; intros x y H; [destruct H|]. destruct l as [|b r]; [destruct H|]. cbn [rev] in H.
  rewrite (pairs_snoc_gen (rev r ++ [b]) a b) in H by (destruct (rev r); discriminate). rewrite last_last in H.
  apply in_app_or in H. rewrite pairs_cons2. destruct H as [H|[H|[]]].
  - right. apply IH. exact H.
  - injection H as <- <-. left. reflexivity.
Qed.
Lemma preds_edge G a b : wf_graph G -> (In a (preds G b) <-> In (a, b) (g_edges G)).
Proof.
  intros WF. pose proof (wf_pred G WF b) as P. split.
  - intros H. apply (Permutation_in _ P) in H. apply in_map_iff in H. destruct H as ([x y] & <- & H). apply filter_In in H.
    destruct H as [H Q]. apply N.eqb_eq in Q. cbn in Q. subst. exact H.
  - intros H. apply (Permutation_in _ (Permutation_sym P)). apply in_map_iff. exists (a, b). split; [reflexivity|].
    apply filter_In. split; [exact H|apply N.eqb_refl].
Qed.
Lemma reach_bwd_complete G a b : wf_stg G -> In b (g_nodes G) -> In a (g_nodes G) -> conn (g_edges G) a b -> mem_node a (reach_bwd G b) = true.
Proof.
  intros WFS Hb Ha (m & Hm & Lm). pose proof (wfs_graph G WFS) as WF.
  destruct (simple_conn (g_edges G) m a Hm) as (m' & ND & Hw & L').
  pose proof (NoDup_incl_length ND (walk_nodes_in G WF m' a Ha Hw)) as Hlen.
  unfold reach_bwd. apply mem_node_In.
  (* the reversed walk starts at b *)
  assert (Er : exists r, rev (a :: m') = b :: r /\ last (b :: r) b = a).
  { exists (rev (removelast (a :: m'))).
    assert (E1 : rev (a :: m') = b :: rev (removelast (a :: m'))).
    { rewrite (app_removelast_last a (l := a :: m')) at 1 by discriminate. rewrite rev_app_distr. cbn [rev app]. f_equal.
      rewrite L', Lm. reflexivity. }
    split; [exact E1|]. rewrite <- E1. cbn [rev]. apply last_last. }
  destruct Er as (r & Er & Lr). rewrite <- Lr. apply closure_reaches; [left; reflexivity| |].
  - assert (length (b :: r) = length (a :: m')) by (rewrite <- Er; apply rev_length). cbn [length] in *. lia.
  - intros x y Hxy. apply (preds_edge G y x WF). apply Hw. apply pairs_rev_in. rewrite Er. exact Hxy.
Qed.

Lemma chain_cons_inv' m b w z : SafetyReach.chain m (b :: w) z -> fst b = m /\ SafetyReach.chain (snd b) w z.
Proof. intros C. inversion C; subst. cbn. auto. Qed.

(* where an arc of a walk lies relative to a sub-sequence of the walk *)
Lemma chain_split_conn E x w y e : SafetyReach.chain x w y -> incl w E -> In e w -> conn E x (fst e) /\ conn E (snd e) y.
Proof.
  intros C I Hin. destruct (in_split _ _ Hin) as (w1 & w2 & ->). destruct (chain_app_inv _ _ _ _ C) as (m & C1 & C2).
  inversion C2 as [|v u w0 z C2']; subst. cbn [fst snd].
  destruct (chain_nodes _ _ _ C1) as (m1 & E1 & L1). destruct (chain_nodes _ _ _ C2') as (m2 & E2 & L2). split.
  - exists m1. split; [rewrite E1; intros a Ha; apply I; apply in_or_app; left; exact Ha|exact L1].
  - exists m2. split; [rewrite E2; intros a Ha; apply I; apply in_or_app; right; right; exact Ha|exact L2].
Qed.

Lemma position_in_walk E : forall sq W, subseq sq W -> forall x y, SafetyReach.chain x W y -> incl W E -> forall e d, In e W ->
  In e sq \/ (sq <> [] /\ conn E (snd e) (fst (hd d sq))) \/ (sq <> [] /\ conn E (snd (last sq d)) (fst e)) \/
  (exists a b, In (a, b) (consec sq) /\ conn E (snd a) (fst e) /\ conn E (snd e) (fst b)) \/ sq = [].
Proof.
  induction 1 as [w|a l w Hs IH|a l w Hs IH]; intros x y C I e d He.
  - right. right. right. right. reflexivity.
  - destruct (chain_cons_inv' _ _ _ _ C) as [_ C']. set (u := snd a) in *. destruct He as [<-|He]; [left; left; reflexivity|].
    assert (I' : incl w E) by (intros z0 Hz; apply I; right; exact Hz).
    destruct l as [|b l'].
    + right. right. left. split; [discriminate|]. cbn [last]. exact (proj1 (chain_split_conn E u w y e C' I' He)).
    + destruct (IH u y C' I' e d He) as [H|[[_ H]|[[_ H]|[(a' & b' & Hab & H1 & H2)|H]]]].
      * left. right. exact H.
      * right. right. right. left. exists a, b. split; [left; reflexivity|]. split; [exact (proj1 (chain_split_conn E u w y e C' I' He))|exact H].
      * right. right. left. split; [discriminate|]. change (last (a :: b :: l') d) with (last (b :: l') d). exact H.
      * right. right. right. left. exists a', b'. split; [right; exact Hab|]. split; assumption.
      * discriminate.
  - destruct (chain_cons_inv' _ _ _ _ C) as [_ C']. set (u := snd a) in *. assert (I' : incl w E) by (intros z0 Hz; apply I; right; exact Hz).
    destruct l as [|b l']; [right; right; right; right; reflexivity|].
    destruct He as [<-|He].
    + right. left. split; [discriminate|]. cbn [hd].
      assert (Hb : In b w) by (apply (subseq_In _ _ _ Hs); left; reflexivity). exact (proj1 (chain_split_conn E u w y b C' I' Hb)).
    + exact (IH u y C' I' e d He).
Qed.

(* a forbidden arc lies on no walk that contains the sequence in order *)
Theorem zero_edges_are_forbidden G sq e x y W : wf_stg G -> incl sq (g_edges G) ->
  In e (zero_edges G sq) -> SafetyReach.chain x W y -> incl W (g_edges G) -> subseq sq W -> ~ In e W.
Proof.
  intros WFS Hsq Hz C I Hs Hin. pose proof (wfs_graph G WFS) as WF.
  destruct sq as [|e0 r] eqn:Esq; [destruct Hz|]. rewrite <- Esq in *.
  assert (Hsne : sq <> []) by (rewrite Esq; discriminate).
  unfold zero_edges in Hz. rewrite Esq in Hz. rewrite <- Esq in Hz. apply filter_In in Hz. destruct Hz as [HeE Q].
  apply negb_true_iff in Q. rewrite !orb_false_iff in Q. destruct Q as [[[Q1 Q2] Q3] Q4].
  assert (Hnode : forall a, In a sq -> In (fst a) (g_nodes G) /\ In (snd a) (g_nodes G)) by (intros a Ha; apply (wf_ends G WF a (Hsq a Ha))).
  destruct (wf_ends G WF e HeE) as [Hn1 Hn2].
  destruct (position_in_walk (g_edges G) sq W Hs x y C I e e0 Hin) as [H|[[_ H]|[[_ H]|[(a & b & Hab & H1 & H2)|H]]]].
  - apply mem_edge_In in H. congruence.
  - (* before the first arc: its head reaches the first node *)
    assert (Hf : In (hd e0 sq) sq) by (rewrite Esq; left; reflexivity).
    pose proof (reach_bwd_complete G (snd e) (fst (hd e0 sq)) WFS (proj1 (Hnode _ Hf)) Hn2 H) as R.
    rewrite Esq in R. cbn [hd] in R. congruence.
  - assert (Hl : In (last sq e0) sq) by (rewrite Esq; destruct (exists_last (l := e0 :: r) ltac:(discriminate)) as (l0 & z & E0); rewrite E0, last_last; apply in_or_app; right; left; reflexivity).
    pose proof (reach_fwd_complete G (snd (last sq e0)) (fst e) WFS (proj2 (Hnode _ Hl)) H) as R. congruence.
  - assert (Hin2 : forall p q, In (p, q) (consec sq) -> In p sq /\ In q sq).
    { clear. induction sq as [|c l IH]; intros p q H; [destruct H|]. destruct l as [|c' l']; [destruct H|]. cbn [consec] in H.
      destruct H as [H|H]; [injection H as <- <-; split; [left; reflexivity|right; left; reflexivity]|].
      destruct (IH p q H) as [A B]. split; right; assumption. }
    destruct (Hin2 a b Hab) as [Ha Hb].
    assert (X : existsb (fun g => mem_node (fst e) (fst g) && mem_node (snd e) (snd g))
                  (map (fun ab => (reach_fwd G (snd (fst ab)), reach_bwd G (fst (snd ab)))) (consec sq)) = true).
    { apply existsb_exists. exists (reach_fwd G (snd a), reach_bwd G (fst b)). split; [apply in_map_iff; exists (a, b); split; [reflexivity|exact Hab]|].
      cbn [fst snd]. rewrite (reach_fwd_complete G (snd a) (fst e) WFS (proj2 (Hnode _ Ha)) H1).
      rewrite (reach_bwd_complete G (snd e) (fst b) WFS (proj1 (Hnode _ Hb)) Hn2 H2). reflexivity. }
    congruence.
  - contradiction.
Qed.

Corollary zero_edges_forbidden_in_the_sense_of_Safety G s t sq e : wf_stg G -> incl sq (g_edges G) ->
  In e (zero_edges G sq) -> forbidden (g_edges G) s t sq e.
Proof. intros WFS Hsq Hz W [C I] Hs. exact (zero_edges_are_forbidden G sq e s t W WFS Hsq Hz C I Hs). Qed.

(* ---- B from the verified checker of networkx' condensation ---- *)
From FP Require Reach ReachProofs2.
Theorem sequences_over_a_condensation_antichain_are_incompatible_checked (V : list node) (E : list PathEnc.edge) (C : Reach.cond) s t B e1 e2 q1 q2 :
  Reach.cond_ok V E C = true ->
  let cm := Reach.c_map C in
  condensation_antichain E cm (Reach.c_topo C) (Reach.c_edges C) B -> In e1 E -> In e2 E -> In (hmap E cm e1) B -> In (hmap E cm e2) B ->
  (hmap E cm e1 <> hmap E cm e2 \/ (e1 <> e2 /\ hmap E cm e1 = hmap E cm e2 /\ cm (fst e1) <> cm (snd e1))) ->
  In e1 q1 -> In e2 q2 -> incompatible E s t q1 q2.
Proof.
  intros Hok cm. pose proof (ReachProofs2.cond_ok_spec V E C Hok) as S.
  assert (HV : forall e, In e E -> In (fst e) V /\ In (snd e) V) by (intros [u v] He; exact (ReachProofs2.cs_edgesV V E C S u v He)).
  assert (HN : forall u, In u (nodes_of E) -> In u V).
  { intros u Hu. unfold nodes_of in Hu. rewrite nodup_In in Hu. apply in_app_or in Hu.
    destruct Hu as [Hu|Hu]; apply in_map_iff in Hu; destruct Hu as (e & <- & He); apply (HV e He). }
  apply (sequences_over_a_condensation_antichain_are_incompatible E s t cm (Reach.c_topo C) (Reach.c_edges C)).
  - intros u v Hu Hv. unfold cm. rewrite (ReachProofs2.cs_scc V E C S u v (HN u Hu) (HN v Hv)). rewrite <- !conn_reach. tauto.
  - intros u v He Hne. exact (ReachProofs2.cs_edge_fwd V E C S u v He Hne).
  - intros e He. destruct (HV e He) as [H1 H2]. split; apply (ReachProofs2.cs_topo_all V E C S); assumption.
Qed.

(* ================================================================================================================= *)
(* non-vacuity *)
(* A: the weighted diamond of MinFlowCut: the extracted antichain is [(1,2); (1,3)], so a sequence through (1,2) and one through (1,3)
   are incompatible *)
Example slots_dag : incompatible MinFlowCut.dmE 0%N 5%N [(0, 1); (1, 2); (2, 4)]%N [(1, 3); (3, 4)]%N.
Proof.
  apply (extracted_antichain_gives_incompatible_sequences MinFlowCut.dmV MinFlowCut.dmE 0%N 5%N MinFlowCut.dmW MinFlowCut.dmF (1, 2)%N (1, 3)%N).
  - exact MinFlowCut.diamond_mincut_premises.
  - rewrite MinFlowCut.diamond_mincut. left. reflexivity.
  - rewrite MinFlowCut.diamond_mincut. right. left. reflexivity.
  - discriminate.
  - right. left. reflexivity.
  - left. reflexivity.
Qed.

(* B: a 2-cycle 1 <-> 2 with the two arcs (1,3) and (2,3) leaving it towards 3: both lie over the one condensation arc between the two
   components, so a sequence through one and a sequence through the other are incompatible *)
Definition slV : list node := [0; 1; 2; 3; 4]%N.
Definition slE : list PathEnc.edge := [(0, 1); (1, 2); (2, 1); (1, 3); (2, 3); (3, 4)]%N.
Definition slC : Reach.cond :=
  {| Reach.c_map := Reach.map_of [(0, 0); (1, 1); (2, 1); (3, 2); (4, 3)]%N 0%N;
     Reach.c_edges := [(0, 1); (1, 2); (2, 3)]%N; Reach.c_topo := [0; 1; 2; 3]%N |}.
Example slots_cyclic : incompatible slE 0%N 4%N [(0, 1); (1, 3)]%N [(2, 3); (3, 4)]%N.
Proof.
  apply (sequences_over_a_condensation_antichain_are_incompatible_checked slV slE slC 0%N 4%N [hmap slE (Reach.c_map slC) (1, 3)%N] (1, 3)%N (2, 3)%N).
  - vm_compute. reflexivity.
  - intros b1 b2 p [<-|[]] [<-|[]] Hne. contradiction.
  - cbn. tauto.
  - cbn. tauto.
  - left. reflexivity.
  - left. vm_compute. reflexivity.
  - right. split; [discriminate|]. split; [vm_compute; reflexivity|vm_compute; discriminate].
  - right. left. reflexivity.
  - left. reflexivity.
Qed.

(* C: the diamond with source 0 and sink 5 as an s-t graph: for the sequence [(1,2)] the rule forbids exactly the other branch *)
From FP Require EndToEnd1 EndToEndExample WalkChecked.
Definition zfG : stgraph := EndToEnd1.st_of EndToEndExample.xV EndToEndExample.xE 0%N 5%N.
Example zero_fixing_on_the_diamond :
  wf_stg zfG /\ zero_edges zfG [(1, 2)%N] = [(1, 3); (3, 4)]%N /\ forbidden (g_edges zfG) 0%N 5%N [(1, 2)%N] (1, 3)%N.
Proof.
  assert (WF : wf_stg zfG) by (apply WalkChecked.wf_stg_b_sound; vm_compute; reflexivity).
  assert (Z : zero_edges zfG [(1, 2)%N] = [(1, 3); (3, 4)]%N) by (vm_compute; reflexivity).
  split; [exact WF|]. split; [exact Z|].
  apply (zero_edges_forbidden_in_the_sense_of_Safety zfG 0%N 5%N [(1, 2)%N] (1, 3)%N WF).
  - intros e [<-|[]]. vm_compute. tauto.
  - rewrite Z. left. reflexivity.
Qed.

(* ================================================================================================================= *)
(* why at most one selected sequence passes a given arc when its condensation arc has multiplicity >= 2: an arc that has a parallel
   arc between the same two components dominates nothing, so it lies on no dominator chain but its own *)
From FP Require DomSpec.
Lemma nodes_chain : forall m a, SafetyReach.chain a (EulerProofs1.pairs (a :: m)) (last (a :: m) a).
Proof.
  induction m as [|b m IH]; intros a; [constructor|]. rewrite pairs_cons2. constructor.
  replace (last (a :: b :: m) a) with (last (b :: m) b) by (rewrite !last_cons_default; reflexivity). apply IH.
Qed.
Lemma first_occurrence (e : edge) : forall w, In e w -> exists w1 w2, w = w1 ++ e :: w2 /\ ~ In e w1.
Proof.
  induction w as [|x w IH]; intros H; [destruct H|]. destruct (DomSpec.edge_dec x e) as [->|Hne].
  - exists [], w. split; [reflexivity|intros []].
  - destruct H as [H|H]; [contradiction|]. destruct (IH H) as (w1 & w2 & -> & Hn). exists (x :: w1), w2. split; [reflexivity|].
    intros [E0|H0]; [contradiction|exact (Hn H0)].
Qed.
Lemma last_occurrence (e : edge) w : In e w -> exists w1 w2, w = w1 ++ e :: w2 /\ ~ In e w2.
Proof.
  intros H. apply in_rev in H. destruct (first_occurrence e (rev w) H) as (r1 & r2 & E0 & Hn).
  exists (rev r2), (rev r1). split.
  - rewrite <- (rev_involutive w), E0, rev_app_distr. cbn [rev]. rewrite <- app_assoc. reflexivity.
  - intros Hin. apply in_rev in Hin. exact (Hn Hin).
Qed.

Section Parallel.
  Variable E : list PathEnc.edge.
  Variable cm : node -> N.
  Hypothesis Hcm : forall u v, In u (nodes_of E) -> In v (nodes_of E) -> (cm u = cm v <-> conn E u v /\ conn E v u).

  (* a walk between two nodes of one component stays inside the component *)
  Lemma walk_inside_component : forall m x, In x (nodes_of E) -> incl (EulerProofs1.pairs (x :: m)) E -> cm (last (x :: m) x) = cm x ->
    forall p q, In (p, q) (EulerProofs1.pairs (x :: m)) -> cm p = cm x /\ cm q = cm x.
  Proof.
    intros m x Hx Hw Hc p q Hpq.
    assert (Hy : conn E x (last (x :: m) x)) by (exists m; split; [exact Hw|reflexivity]).
    assert (HpqE : In (p, q) E) by (apply Hw; exact Hpq).
    destruct (nodes_of_in E (p, q) HpqE) as [Np Nq]. cbn [fst snd] in Np, Nq.
    assert (Nl : In (last (x :: m) x) (nodes_of E)).
    { destruct m as [|y m']; [exact Hx|]. destruct (WalkWidth.proj_head E cm x (y :: m')) as (q0 & _).
      destruct (exists_last (l := x :: y :: m') ltac:(discriminate)) as (l0 & z & E0). rewrite E0, last_last.
      (* the last node is the head of the last pair *)
      assert (Hz : exists a, In (a, z) (EulerProofs1.pairs (x :: y :: m'))).
      { rewrite E0. destruct l0 as [|c l1]; [discriminate|]. exists (last (c :: l1) c).
        rewrite (pairs_app_last (c :: l1) [z] c) by discriminate. apply in_or_app. right. left. reflexivity. }
      destruct Hz as (a & Ha). exact (proj2 (nodes_of_in E (a, z) (Hw _ Ha))). }
    destruct (proj1 (Hcm x _ Hx Nl) (eq_sym Hc)) as [_ Hback].
    (* x reaches p, q reaches the end, the end reaches x *)
    pose proof (in_pairs_conn E m x (p, q) Hw Hpq) as Hxp. cbn [fst] in Hxp.
    assert (Hq_end : conn E q (last (x :: m) x)).
    { clear - Hw Hpq. revert x Hw Hpq. induction m as [|y m IH]; intros x Hw Hpq; [destruct Hpq|]. rewrite pairs_cons2 in Hw, Hpq.
      replace (last (x :: y :: m) x) with (last (y :: m) y) by (rewrite !last_cons_default; reflexivity). destruct Hpq as [Hpq|Hpq].
      - injection Hpq as <- <-. exists m. split; [intros e He; apply Hw; right; exact He|reflexivity].
      - apply IH; [intros e He; apply Hw; right; exact He|exact Hpq]. }
    assert (Hqx : conn E q x) by (apply (conn_trans E q _ x Hq_end Hback)).
    assert (Hpx : conn E p x) by (apply (conn_trans E p q x); [apply conn_edge; exact HpqE|exact Hqx]).
    assert (Hxq : conn E x q) by (apply (conn_trans E x p q Hxp); apply conn_edge; exact HpqE).
    split; [apply (Hcm p x Np Hx); split; assumption|apply (Hcm q x Nq Hx); split; assumption].
  Qed.

  Theorem parallel_arc_dominates_nothing e e' v t :
    In e E -> In e' E -> e <> e' -> cm (fst e) = cm (fst e') -> cm (snd e) = cm (snd e') -> cm (fst e) <> cm (snd e) ->
    (exists w, st_walk E v t w) -> ~ DomSpec.dominates_to E v t e.
  Proof.
    intros He He' Hne E1 E2 Hinter (w & [C I]) Hdom. pose proof (Hdom w (conj C I)) as Hin.
    destruct (first_occurrence e w Hin) as (w1 & r & Ew & Hn1).
    rewrite Ew in C, I. destruct (chain_app_inv _ _ _ _ C) as (m1 & C1 & Cr). destruct (chain_cons_inv' _ _ _ _ Cr) as [Em1 Crr].
    assert (Htail : exists w2, SafetyReach.chain (snd e) w2 t /\ incl w2 r /\ ~ In e w2).
    { destruct (in_dec DomSpec.edge_dec e r) as [Hr|Hr]; [|exists r; split; [exact Crr|split; [intros x Hx; exact Hx|exact Hr]]].
      destruct (last_occurrence e r Hr) as (r1 & w2 & Er & Hn2). rewrite Er in Crr. destruct (chain_app_inv _ _ _ _ Crr) as (m2 & _ & C2).
      destruct (chain_cons_inv' _ _ _ _ C2) as [_ C2']. exists w2. split; [exact C2'|]. split; [|exact Hn2].
      intros x Hx. rewrite Er. apply in_or_app. right. right. exact Hx. }
    destruct Htail as (w2 & C2' & Iw2 & Hn2).
    destruct e as [a1 b1], e' as [a2 b2]. cbn [fst snd] in *. subst m1.
    destruct (nodes_of_in E (a1, b1) He) as [Na1 Nb1]. destruct (nodes_of_in E (a2, b2) He') as [Na2 Nb2]. cbn [fst snd] in *.
    destruct (proj1 (Hcm a1 a2 Na1 Na2) E1) as [(ma & Hma & Lma) _]. destruct (proj1 (Hcm b2 b1 Nb2 Nb1) (eq_sym E2)) as [(mb & Hmb & Lmb) _].
    set (W := w1 ++ EulerProofs1.pairs (a1 :: ma) ++ (a2, b2) :: EulerProofs1.pairs (b2 :: mb) ++ w2).
    assert (HW : st_walk E v t W).
    { split.
      - unfold W. apply (chain_app v w1 a1 _ t C1). apply (chain_app a1 _ a2).
        + pose proof (nodes_chain ma a1) as Hc. rewrite Lma in Hc. exact Hc.
        + constructor. apply (chain_app b2 _ b1 _ t); [|exact C2']. pose proof (nodes_chain mb b2) as Hc. rewrite Lmb in Hc. exact Hc.
      - unfold W. intros x Hx. apply in_app_or in Hx. destruct Hx as [Hx|Hx]; [apply I; apply in_or_app; left; exact Hx|].
        apply in_app_or in Hx. destruct Hx as [Hx|[<-|Hx]]; [apply Hma; exact Hx|exact He'|].
        apply in_app_or in Hx. destruct Hx as [Hx|Hx]; [apply Hmb; exact Hx|].
        apply I. apply in_or_app. right. right. apply Iw2. exact Hx. }
    pose proof (Hdom W HW) as HinW. unfold W in HinW. apply in_app_or in HinW. destruct HinW as [H|H]; [exact (Hn1 H)|].
    apply in_app_or in H. destruct H as [H|[H|H]].
    - destruct (walk_inside_component ma a1 Na1 Hma ltac:(rewrite Lma; symmetry; exact E1) a1 b1 H) as [_ Hb]. exact (Hinter (eq_sym Hb)).
    - exact (Hne (eq_sym H)).
    - apply in_app_or in H. destruct H as [H|H]; [|exact (Hn2 H)].
      destruct (walk_inside_component mb b2 Nb2 Hmb ltac:(rewrite Lmb; exact E2) a1 b1 H) as [Ha _]. apply Hinter. rewrite Ha. symmetry. exact E2.
  Qed.
End Parallel.
