(* C17/C02 — proofs, part 3: greedy peeling with the max-bottleneck DP explains the flow. *)
From Coq Require Import List NArith ZArith Bool Arith Lia.
Import ListNotations.
From FP Require Import Reach ReachProofs1 Peel PeelProofs1 PeelProofs2.
Set Default Timeout 60.
Open Scope Z_scope.

Section PeelDP.
  Variable G : list edge.
  Hypothesis G_nodup : NoDup G.
  Variable rank : node -> nat.
  Hypothesis Hrank : forall u v, In (u, v) G -> (rank u < rank v)%nat.
  Variable R : nat.
  Hypothesis HR : forall v, (rank v <= R)%nat.
  Variable preds succs : node -> list node.
  Hypothesis preds_ok : forall u v, In u (preds v) <-> In (u, v) G.
  Hypothesis succs_ok : forall u v, In v (succs u) <-> In (u, v) G.
  Variable topo : list node.
  Hypothesis topo_sorted : sorted preds [] topo.
  Hypothesis topo_all : forall e, In e G -> In (fst e) topo /\ In (snd e) topo.

  Definition find_mb (f : edge -> Z) : outcome := max_bottleneck f preds succs topo.

  Lemma ins_nil v : ins G v = [] <-> preds v = [].
  Proof.
    split; intros H.
    - destruct (preds v) as [|u l] eqn:E; [reflexivity|exfalso].
      assert (In u (preds v)) by (rewrite E; left; reflexivity). apply preds_ok in H0.
      assert (In (u, v) (ins G v)) by (apply ins_In; tauto). rewrite H in H1. destruct H1.
    - destruct (ins G v) as [|[a b] l] eqn:E; [reflexivity|exfalso].
      assert (Hin : In (a, b) (ins G v)) by (rewrite E; left; reflexivity). apply ins_In in Hin. destruct Hin as [HG Hb]. cbn in Hb. subst b.
      apply preds_ok in HG. rewrite H in HG. destruct HG.
  Qed.
  Lemma outs_nil v : outs G v = [] <-> succs v = [].
  Proof.
    split; intros H.
    - destruct (succs v) as [|u l] eqn:E; [reflexivity|exfalso].
      assert (In u (succs v)) by (rewrite E; left; reflexivity). apply succs_ok in H0.
      assert (In (v, u) (outs G v)) by (apply outs_In; tauto). rewrite H in H1. destruct H1.
    - destruct (outs G v) as [|[a b] l] eqn:E; [reflexivity|exfalso].
      assert (Hin : In (a, b) (outs G v)) by (rewrite E; left; reflexivity). apply outs_In in Hin. destruct Hin as [HG Ha]. cbn in Ha. subst a.
      apply succs_ok in HG. rewrite H in HG. destruct HG.
  Qed.

  Lemma find_sound f b p : nonneg G f -> conserving G f -> find_mb f = MBPath b p ->
    0 < b /\ ss_path G p /\ (forall e, In e (pairs p) -> b <= f e) /\ (exists e, In e (pairs p) /\ f e = b).
  Proof.
    intros N _ H. unfold find_mb in H.
    destruct (max_bottleneck_sound G f preds succs preds_ok N topo b p topo_sorted H) as (H1 & H2 & H3 & H4 & H5 & H6 & H7).
    split; [assumption|]. split; [|split; assumption].
    split; [assumption|]. split; [assumption|]. split; [apply ins_nil; assumption|apply outs_nil; assumption].
  Qed.

  Lemma find_complete f : nonneg G f -> conserving G f -> find_mb f = MBNoPath ->
    forall p, ss_path G p -> exists e, In e (pairs p) /\ f e <= 0.
  Proof.
    intros N _ H p (Hne & HG & Hs & Ht). unfold find_mb in H.
    destruct p as [|a p] using rev_ind; [cbn in Hne; congruence|]. clear IHp.
    assert (Hpne : p <> []) by (intros ->; cbn in Hne; congruence).
    assert (Hlast : last (p ++ [a]) 0%N = a) by apply last_snoc'.
    rewrite Hlast in Ht.
    assert (Hhd : hd 0%N (p ++ [a]) = hd a p) by (destruct p; reflexivity). rewrite Hhd in Hs.
    assert (Hsrc : src_path G preds p a) by (split; [apply ins_nil; assumption|assumption]).
    assert (Hatopo : In a topo).
    { destruct p as [|y p'] using rev_ind; [congruence|]. rewrite pairs_snoc2 in HG.
      assert (In (y, a) G) by (apply HG; apply in_or_app; right; left; reflexivity). apply topo_all in H0. tauto. }
    assert (Hsa : succs a = []) by (apply outs_nil; assumption).
    apply (max_bottleneck_complete G f preds succs preds_ok topo topo_sorted); try assumption.
    - rewrite H. discriminate.
    - intros b0 p0. rewrite H. discriminate.
  Qed.

  Lemma find_nosink : G <> [] -> forall f, find_mb f <> MBNoSink.
  Proof.
    intros Hne f E. destruct (dag_has_sink G G_nodup rank Hrank R HR Hne) as (u & v & Huv & Ho).
    apply (max_bottleneck_nosink G f preds succs preds_ok topo topo_sorted E v).
    - apply (topo_all _ Huv).
    - intros X. apply preds_ok in Huv. rewrite X in Huv. destruct Huv.
    - apply outs_nil, Ho.
  Qed.

  Theorem greedy_peeling_explains f : G <> [] -> nonneg G f -> conserving G f ->
    exists D, decompose G preds succs topo f = PeelOK D /\
              (forall e, In e G -> explained D e = f e) /\
              Forall (fun pw => ss_path G (fst pw) /\ 0 < snd pw) D /\
              (length D <= npos G f)%nat.
  Proof.
    intros Hne N C. unfold decompose.
    apply (peel_explains G G_nodup rank Hrank R HR find_mb find_sound find_complete (find_nosink Hne)); [assumption|assumption|lia].
  Qed.
End PeelDP.

(* the checker run on the implementation's output decides the flow equation *)
Lemma explains_ok_correct W D : explains_ok W D = true <-> forall e z, In (e, z) W -> explained D e = z.
Proof.
  unfold explains_ok. rewrite forallb_forall. split.
  - intros H e z Hin. specialize (H _ Hin). cbn in H. apply Z.eqb_eq in H. exact H.
  - intros H [e z] Hin. cbn. apply Z.eqb_eq. apply H, Hin.
Qed.
