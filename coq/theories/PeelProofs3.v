(* C17/C02 — proofs, part 3: greedy peeling with the max-bottleneck DP explains the flow. *)
From Coq Require Import List NArith ZArith Bool Arith Lia.
Import ListNotations.
From FP Require Import Reach ReachProofs1 ReachProofs2 ReachProofs3 Peel PeelProofs1 PeelProofs2.
Set Default Timeout 60.
Open Scope Z_scope.

Section PeelDP.
  Variable G : list edge.
  Hypothesis G_nodup : NoDup G.
  Variable rank : node -> nat.
  Hypothesis Hrank : forall u v, In (u, v) G -> (rank u < rank v)%nat.
  Variable R : nat.
  Hypothesis HR : forall v, (rank v <= R)%nat.
  Variable preds succs : node -> list node.
  Hypothesis preds_ok : forall u v, In u (preds v) <-> In (u, v) G.
  Hypothesis succs_ok : forall u v, In v (succs u) <-> In (u, v) G.
  Variable topo : list node.
  Hypothesis topo_sorted : sorted preds [] topo.
  Hypothesis topo_all : forall e, In e G -> In (fst e) topo /\ In (snd e) topo.
  Variable keyerr : bool.

  Definition find_mb (f : edge -> Z) : mb_outcome := max_bottleneck f preds succs keyerr topo.

  Lemma ins_nil v : ins G v = [] <-> preds v = [].
  Proof.
    split; intros H.
    - destruct (preds v) as [|u l] eqn:E; [reflexivity|exfalso].
      assert (In u (preds v)) by (rewrite E; left; reflexivity). apply preds_ok in H0.
      assert (In (u, v) (ins G v)) by (apply ins_In; tauto). rewrite H in H1. destruct H1.
    - destruct (ins G v) as [|[a b] l] eqn:E; [reflexivity|exfalso].
      assert (Hin : In (a, b) (ins G v)) by (rewrite E; left; reflexivity). apply ins_In in Hin. destruct Hin as [HG Hb]. cbn in Hb. subst b.
      apply preds_ok in HG. rewrite H in HG. destruct HG.
  Qed.
  Lemma outs_nil v : outs G v = [] <-> succs v = [].
  Proof.
    split; intros H.
    - destruct (succs v) as [|u l] eqn:E; [reflexivity|exfalso].
      assert (In u (succs v)) by (rewrite E; left; reflexivity). apply succs_ok in H0.
      assert (In (v, u) (outs G v)) by (apply outs_In; tauto). rewrite H in H1. destruct H1.
    - destruct (outs G v) as [|[a b] l] eqn:E; [reflexivity|exfalso].
      assert (Hin : In (a, b) (outs G v)) by (rewrite E; left; reflexivity). apply outs_In in Hin. destruct Hin as [HG Ha]. cbn in Ha. subst a.
      apply succs_ok in HG. rewrite H in HG. destruct HG.
  Qed.

  Lemma find_sound f b p : nonneg G f -> find_mb f = MBPath b p ->
    0 < b /\ ss_path G p /\ (forall e, In e (pairs p) -> b <= f e) /\ (exists e, In e (pairs p) /\ f e = b).
  Proof.
    intros N H. unfold find_mb in H.
    destruct (max_bottleneck_sound G f preds succs preds_ok N keyerr topo b p topo_sorted H) as (H1 & H2 & H3 & H4 & H5 & H6 & H7).
    split; [assumption|]. split; [|split; assumption].
    split; [assumption|]. split; [assumption|]. split; [apply ins_nil; assumption|apply outs_nil; assumption].
  Qed.

  Lemma find_complete' f : nonneg G f -> find_mb f = MBNoPath ->
    forall p, ss_path G p -> exists e, In e (pairs p) /\ f e <= 0.
  Proof.
    intros N H p (Hne & HG & Hs & Ht). unfold find_mb in H.
    destruct p as [|a p] using rev_ind; [cbn in Hne; congruence|]. clear IHp.
    assert (Hpne : p <> []) by (intros ->; cbn in Hne; congruence).
    assert (Hlast : last (p ++ [a]) 0%N = a) by apply last_snoc'.
    rewrite Hlast in Ht.
    assert (Hhd : hd 0%N (p ++ [a]) = hd a p) by (destruct p; reflexivity). rewrite Hhd in Hs.
    assert (Hsrc : src_path G preds p a) by (split; [apply ins_nil; assumption|assumption]).
    assert (Hatopo : In a topo).
    { destruct p as [|y p'] using rev_ind; [congruence|]. rewrite pairs_snoc2 in HG.
      assert (In (y, a) G) by (apply HG; apply in_or_app; right; left; reflexivity). apply topo_all in H0. tauto. }
    assert (Hsa : succs a = []) by (apply outs_nil; assumption).
    apply (max_bottleneck_complete G f preds succs preds_ok keyerr topo topo_sorted); assumption.
  Qed.

  Lemma find_complete f : nonneg G f -> conserving G f -> find_mb f = MBNoPath ->
    forall p, ss_path G p -> exists e, In e (pairs p) /\ f e <= 0.
  Proof. intros N _. apply find_complete', N. Qed.

  Lemma find_nosink : keyerr = false \/ G <> [] -> forall f, find_mb f <> MBNoSink.
  Proof.
    intros [Hk|Hne] f E; [exact (max_bottleneck_never_nosink f preds succs keyerr topo Hk E)|].
    destruct (dag_has_sink G G_nodup rank Hrank R HR Hne) as (u & v & Huv & Ho).
    apply (max_bottleneck_nosink G f preds succs preds_ok keyerr topo topo_sorted E v).
    - apply (topo_all _ Huv).
    - intros X. apply preds_ok in Huv. rewrite X in Huv. destruct Huv.
    - apply outs_nil, Ho.
  Qed.

  Theorem greedy_peeling_explains f : keyerr = false \/ G <> [] -> nonneg G f -> conserving G f ->
    exists D, decompose keyerr G preds succs topo f = PeelOK D /\
              (forall e, In e G -> explained D e = f e) /\
              Forall (fun pw => ss_path G (fst pw) /\ 0 < snd pw) D /\
              (length D <= npos G f)%nat.
  Proof.
    intros Hne N C. unfold decompose.
    apply (peel_explains G G_nodup rank Hrank R HR find_mb find_sound find_complete (find_nosink Hne)); [assumption|assumption|lia].
  Qed.

  Theorem greedy_peeling_routes f : keyerr = false \/ G <> [] -> nonneg G f ->
    exists D, decompose keyerr G preds succs topo f = PeelOK D /\
              Forall (fun pw => ss_path G (fst pw) /\ 0 < snd pw) D /\
              (forall e, In e G -> 0 <= explained D e <= f e) /\
              (length D <= npos G f)%nat.
  Proof.
    intros Hne N. unfold decompose.
    apply (peel_routes G find_mb find_sound (find_nosink Hne)); [assumption|lia].
  Qed.
End PeelDP.

(* the checker run on the implementation's output decides the flow equation *)
Lemma explains_ok_correct W D : explains_ok W D = true <-> forall e z, In (e, z) W -> explained D e = z.
Proof.
  unfold explains_ok. rewrite forallb_forall. split.
  - intros H e z Hin. specialize (H _ Hin). cbn in H. apply Z.eqb_eq in H. exact H.
  - intros H [e z] Hin. cbn. apply Z.eqb_eq. apply H, Hin.
Qed.

(* ---------------------------------------------------------------- decidable premises *)
Lemma sorted_ext dep dep' : (forall v u, In u (dep' v) -> In u (dep v)) ->
  forall rest done, sorted dep done rest -> sorted dep' done rest.
Proof.
  intros H. induction rest as [|v r IH]; intros done S; cbn [sorted] in *; [exact I|].
  destruct S as (S1 & S2 & S3). split; [assumption|]. split; [|apply IH; assumption].
  intros u Hu. apply S2, H, Hu.
Qed.

Lemma pos_le l v : (pos l v <= length l)%nat.
Proof. induction l as [|x r IH]; cbn [pos length]; [lia|]. destruct (x =? v)%N; lia. Qed.

Lemma beforeb_pos l u v : NoDup l -> beforeb l u v = true -> (pos l u < pos l v)%nat.
Proof.
  induction l as [|x r IH]; intros ND H; cbn [beforeb] in H; [discriminate|].
  inversion ND as [|? ? Hx NDr]; subst. cbn [pos].
  destruct (N.eqb_spec x u) as [->|Hne].
  - apply memN_In in H. destruct (N.eqb_spec u v) as [->|_]; [contradiction|lia].
  - specialize (IH NDr H). destruct (beforeb_split _ _ _ NDr H) as (l1 & l2 & -> & Hv & _).
    destruct (N.eqb_spec x v) as [->|_]; [|lia].
    exfalso. apply Hx. apply in_or_app. right. right. assumption.
Qed.

Lemma adj_of_In A v x : In x (adj_of A v) -> exists p, In p A /\ fst p = v /\ In x (snd p).
Proof.
  unfold adj_of. destruct (find (fun p => (fst p =? v)%N) A) as [p|] eqn:F; [|intros []].
  apply find_some in F. destruct F as [Hp Hv]. apply N.eqb_eq in Hv. intros Hx. exists p. tauto.
Qed.

Theorem greedy_peeling_explains_checked keyerr G P S topo (f : edge -> Z) :
  peel_inputs_ok G P S topo = true -> keyerr = false \/ G <> [] -> nonneg G f -> conserving G f ->
  exists D, decompose keyerr G (adj_of P) (adj_of S) topo f = PeelOK D /\
            (forall e, In e G -> explained D e = f e) /\
            Forall (fun pw => ss_path G (fst pw) /\ 0 < snd pw) D /\
            (length D <= npos G f)%nat.
Proof.
  unfold peel_inputs_ok. rewrite !andb_true_iff, !forallb_forall. intros (((((H1 & H2) & H3) & H4) & H5) & H6).
  apply nodupE_NoDup in H1. apply nodupb_NoDup in H2.
  assert (OK : dag_topo_ok [] G topo = true).
  { unfold dag_topo_ok. rewrite !andb_true_iff. split; [split; [apply nodupb_NoDup; assumption|reflexivity]|].
    apply forallb_forall. exact H3. }
  assert (Pok : forall u v, In u (adj_of P v) <-> In (u, v) G).
  { intros u v. split.
    - intros Hu. destruct (adj_of_In _ _ _ Hu) as (p & Hp & <- & Hx). specialize (H5 p Hp).
      rewrite forallb_forall in H5. apply memE_In, H5, Hx.
    - intros Huv. specialize (H4 _ Huv). cbn [fst snd] in H4. apply andb_true_iff in H4. apply memN_In. tauto. }
  assert (Sok : forall u v, In v (adj_of S u) <-> In (u, v) G).
  { intros u v. split.
    - intros Hv. destruct (adj_of_In _ _ _ Hv) as (p & Hp & <- & Hx). specialize (H6 p Hp).
      rewrite forallb_forall in H6. apply memE_In, H6, Hx.
    - intros Huv. specialize (H4 _ Huv). cbn [fst snd] in H4. apply andb_true_iff in H4. apply memN_In. tauto. }
  apply (greedy_peeling_explains G H1 (pos topo)) with (R := length topo).
  - intros u v Huv. apply beforeb_pos; [assumption|]. apply (H3 _ Huv).
  - intros v. apply pos_le.
  - exact Pok.
  - exact Sok.
  - apply (sorted_ext (preds_of G)); [|apply (sorted_pred [] G topo OK)].
    intros v u Hu. apply preds_of_In, Pok, Hu.
  - intros [u v] Huv. specialize (H3 _ Huv). cbn [fst snd] in *.
    destruct (beforeb_split _ _ _ H2 H3) as (l1 & l2 & -> & Hv & _). split; apply in_or_app; right; [left; reflexivity|right; assumption].
Qed.

Theorem max_bottleneck_sound_checked keyerr G P S topo (f : edge -> Z) b p :
  peel_inputs_ok G P S topo = true -> nonneg G f ->
  max_bottleneck f (adj_of P) (adj_of S) keyerr topo = MBPath b p ->
  0 < b /\ pairs p <> [] /\ incl (pairs p) G /\ adj_of P (hd 0%N p) = [] /\ adj_of S (last p 0%N) = [] /\
  (forall e, In e (pairs p) -> b <= f e) /\ (exists e, In e (pairs p) /\ f e = b).
Proof.
  unfold peel_inputs_ok. rewrite !andb_true_iff, !forallb_forall. intros (((((H1 & H2) & H3) & H4) & H5) & H6) N.
  apply nodupb_NoDup in H2.
  assert (OK : dag_topo_ok [] G topo = true).
  { unfold dag_topo_ok. rewrite !andb_true_iff. split; [split; [apply nodupb_NoDup; assumption|reflexivity]|].
    apply forallb_forall. exact H3. }
  assert (Pok : forall u v, In u (adj_of P v) <-> In (u, v) G).
  { intros u v. split.
    - intros Hu. destruct (adj_of_In _ _ _ Hu) as (q & Hq & <- & Hx). specialize (H5 q Hq).
      rewrite forallb_forall in H5. apply memE_In, H5, Hx.
    - intros Huv. specialize (H4 _ Huv). cbn [fst snd] in H4. apply andb_true_iff in H4. apply memN_In. tauto. }
  apply (max_bottleneck_sound G f (adj_of P) (adj_of S) Pok N keyerr topo b p).
  apply (sorted_ext (preds_of G)); [|apply (sorted_pred [] G topo OK)].
  intros v u Hu. apply preds_of_In, Pok, Hu.
Qed.

(* completeness: when the model reports "no path", every source-to-sink path has a non-positive edge *)
Theorem max_bottleneck_complete_checked keyerr G P S topo (f : edge -> Z) :
  peel_inputs_ok G P S topo = true -> nonneg G f ->
  max_bottleneck f (adj_of P) (adj_of S) keyerr topo = MBNoPath ->
  forall p, ss_path G p -> exists e, In e (pairs p) /\ f e <= 0.
Proof.
  intros HOK N HNP.
  pose proof HOK as HOK'. unfold peel_inputs_ok in HOK'. rewrite !andb_true_iff, !forallb_forall in HOK'.
  destruct HOK' as (((((H1 & H2) & H3) & H4) & H5) & H6).
  apply nodupE_NoDup in H1. apply nodupb_NoDup in H2.
  assert (OK : dag_topo_ok [] G topo = true).
  { unfold dag_topo_ok. rewrite !andb_true_iff. split; [split; [apply nodupb_NoDup; assumption|reflexivity]|].
    apply forallb_forall. exact H3. }
  assert (Pok : forall u v, In u (adj_of P v) <-> In (u, v) G).
  { intros u v. split.
    - intros Hu. destruct (adj_of_In _ _ _ Hu) as (q & Hq & <- & Hx). specialize (H5 q Hq).
      rewrite forallb_forall in H5. apply memE_In, H5, Hx.
    - intros Huv. specialize (H4 _ Huv). cbn [fst snd] in H4. apply andb_true_iff in H4. apply memN_In. tauto. }
  assert (Sok : forall u v, In v (adj_of S u) <-> In (u, v) G).
  { intros u v. split.
    - intros Hv. destruct (adj_of_In _ _ _ Hv) as (q & Hq & <- & Hx). specialize (H6 q Hq).
      rewrite forallb_forall in H6. apply memE_In, H6, Hx.
    - intros Huv. specialize (H4 _ Huv). cbn [fst snd] in H4. apply andb_true_iff in H4. apply memN_In. tauto. }
  intros p Hp.
  apply (find_complete' G (adj_of P) (adj_of S) Pok Sok topo) with (keyerr := keyerr) (f := f); try assumption.
  - apply (sorted_ext (preds_of G)); [|apply (sorted_pred [] G topo OK)].
    intros v u Hu. apply preds_of_In, Pok, Hu.
  - intros [u v] Huv. specialize (H3 _ Huv). cbn [fst snd] in *.
    destruct (beforeb_split _ _ _ H2 H3) as (l1 & l2 & -> & Hv & _). split; apply in_or_app; right; [left; reflexivity|right; assumption].
Qed.

(* the code as it is (switch off): no premise about the graph having an edge *)
Theorem greedy_peeling_explains_code G P S topo (f : edge -> Z) :
  peel_inputs_ok G P S topo = true -> nonneg G f -> conserving G f ->
  exists D, decompose code_nosink_keyerror G (adj_of P) (adj_of S) topo f = PeelOK D /\
            (forall e, In e G -> explained D e = f e) /\
            Forall (fun pw => ss_path G (fst pw) /\ 0 < snd pw) D /\
            (length D <= npos G f)%nat.
Proof. intros H. apply greedy_peeling_explains_checked; [exact H|left; reflexivity]. Qed.

(* any non-negative flow (conserving or not): the code as it is returns source-to-sink paths of the ORIGINAL graph with
   positive weights, within #positive edges rounds, and never explains more than the flow of an edge *)
Theorem greedy_peeling_routes_code G P S topo (f : edge -> Z) :
  peel_inputs_ok G P S topo = true -> nonneg G f ->
  exists D, decompose code_nosink_keyerror G (adj_of P) (adj_of S) topo f = PeelOK D /\
            Forall (fun pw => ss_path G (fst pw) /\ 0 < snd pw) D /\
            (forall e, In e G -> 0 <= explained D e <= f e) /\
            (length D <= npos G f)%nat.
Proof.
  unfold peel_inputs_ok. rewrite !andb_true_iff, !forallb_forall. intros (((((H1 & H2) & H3) & H4) & H5) & H6).
  apply nodupE_NoDup in H1. apply nodupb_NoDup in H2.
  assert (OK : dag_topo_ok [] G topo = true).
  { unfold dag_topo_ok. rewrite !andb_true_iff. split; [split; [apply nodupb_NoDup; assumption|reflexivity]|].
    apply forallb_forall. exact H3. }
  assert (Pok : forall u v, In u (adj_of P v) <-> In (u, v) G).
  { intros u v. split.
    - intros Hu. destruct (adj_of_In _ _ _ Hu) as (p & Hp & <- & Hx). specialize (H5 p Hp).
      rewrite forallb_forall in H5. apply memE_In, H5, Hx.
    - intros Huv. specialize (H4 _ Huv). cbn [fst snd] in H4. apply andb_true_iff in H4. apply memN_In. tauto. }
  assert (Sok : forall u v, In v (adj_of S u) <-> In (u, v) G).
  { intros u v. split.
    - intros Hv. destruct (adj_of_In _ _ _ Hv) as (p & Hp & <- & Hx). specialize (H6 p Hp).
      rewrite forallb_forall in H6. apply memE_In, H6, Hx.
    - intros Huv. specialize (H4 _ Huv). cbn [fst snd] in H4. apply andb_true_iff in H4. apply memN_In. tauto. }
  apply (greedy_peeling_routes G H1 (pos topo)) with (R := length topo).
  - intros u v Huv. apply beforeb_pos; [assumption|]. apply (H3 _ Huv).
  - intros v. apply pos_le.
  - exact Pok.
  - exact Sok.
  - apply (sorted_ext (preds_of G)); [|apply (sorted_pred [] G topo OK)].
    intros v u Hu. apply preds_of_In, Pok, Hu.
  - intros [u v] Huv. specialize (H3 _ Huv). cbn [fst snd] in *.
    destruct (beforeb_split _ _ _ H2 H3) as (l1 & l2 & -> & Hv & _). split; apply in_or_app; right; [left; reflexivity|right; assumption].
  - left. reflexivity.
Qed.
