(* Completeness of the cyclic error encoders WalkErrEnc.encode_klae_cycles / encode_kmpe_cycles AS THEY ARE, within
   the caps the encoders use: every family of k source-to-sink walks whose per-edge multiplicities respect the
   repetition caps (stDiGraph.compute_edge_max_reachable_value inside SCCs, 1 outside), the safety fixing and the
   subset constraints, with weights (and slacks) in [0, w_max] of the requested type, multiplicities representable in
   the bit vector of the product helper and products weight*multiplicity (slack*multiplicity) at most w_max, together
   with error values that dominate the deviation within the bound of the error column (resp. slacks that cover the
   scaled deviation), extends to a satisfying assignment.  The walk block is taken from WalkEncComplete.base_sat
   (first-visit spanning tree certificate for Sel / Dist); here only the product blocks, error rows and objective. *)
From Coq Require Import List NArith ZArith QArith Qabs Qround Lqa Bool Arith Lia Permutation.
Import ListNotations.
From FP Require Import Lin Blocks BlocksProofs PathEnc PathEncProofs Euler EulerProofs1 EulerProofs4
                       WalkEnc WalkDecode WalkEncRows WalkEncRowsProofs WalkTree WalkEncComplete WalkCoverIff
                       WalkErrEnc WalkErrEncProofs.
Set Default Timeout 120.
Local Close Scope Q_scope.

(* ------------------------------------------------------------------ one product block, any assignment *)
Lemma comps_forall2 (wm cv : Q) (bs : list Q) : (0 <= cv <= wm)%Q -> Forall bin bs ->
  Forall2 (fun b x => (0 <= x <= wm)%Q /\ mcc b cv x 0%Q wm) bs (map (fun b => (b * cv)%Q) bs).
Proof.
  intros Hc. induction bs as [|b bs IH]; intros HB; cbn [map]; [constructor|].
  inversion HB as [|? ? Hb HB']; subst. constructor; [|apply IH; exact HB']. split.
  - destruct Hb as [Hb|Hb]; rewrite Hb; split; lra.
  - apply (mcc_exact b cv (b * cv)%Q 0%Q wm Hb); [split; lra|reflexivity].
Qed.

Lemma wprod_complete (WI : walk_inst) (wm : Q) (a : var -> Q) (e : PathEnc.edge) (i : N) (c p : var) (m : Z) (cv : Q) :
  a (evar e i) = inject_Z m -> a c = cv -> (a p == cv * inject_Z m)%Q ->
  (forall j, a (Bit p (N.of_nat j)) = nth j (bits (num_bits wm) m) 0%Q) ->
  (forall j, a (Comp p (N.of_nat j)) = (nth j (bits (num_bits wm) m) 0 * cv)%Q) ->
  (0 <= cv <= wm)%Q -> (0 <= m)%Z ->
  (wprod_kind WI e i = 2%N -> (m < 2 ^ Z.of_nat (num_bits wm))%Z) ->
  (In (e, i) (zero_set WI) -> m = 0%Z) -> (In (e, i) (one_set WI) -> m = 1%Z) ->
  (vfam c <> fBit /\ vfam c <> fComp) -> (vfam p <> fBit /\ vfam p <> fComp) ->
  Forall (sat_col a) (wprod_cols WI wm e i p) /\ Forall (sat_row a) (wprod_rows WI wm e i c p).
Proof.
  intros Ae Ac Ap Ab Am Hc Hm0 Hbits Hz Ho Fc Fp.
  unfold wprod_cols, wprod_rows, wprod_kind in *.
  destruct (mem_ei e i (zero_set WI)) eqn:Z0.
  - cbn. split; [constructor|]. constructor; [|constructor]. unfold sat_row, mkrow. cbn [sns lhs rhs eval fst snd].
    apply mem_ei_In in Z0. rewrite Ap, (Hz Z0). change (inject_Z 0) with 0%Q. lra.
  - destruct (mem_ei e i (one_set WI)) eqn:O1.
    + cbn. split; [constructor|]. constructor; [|constructor]. unfold sat_row, mkrow. cbn [sns lhs rhs eval fst snd].
      apply mem_ei_In in O1. rewrite Ap, Ac, (Ho O1). change (inject_Z 1) with 1%Q. lra.
    + cbn. set (n := num_bits wm) in *.
      apply (intprod_rows_sem (evar e i) c p 0%Q wm n ltac:(split; discriminate) Fc Fp a). cbn zeta.
      destruct (bits_spec n m (conj Hm0 (Hbits eq_refl))) as (BL & BB & BV).
      assert (Ebs : map (fun j => a (Bit p (N.of_nat j))) (seq 0 n) = bits n m).
      { rewrite <- BL at 1. apply map_seq_nth. intros j _. cbn [plus]. apply Ab. }
      assert (Ems : map (fun j => a (Comp p (N.of_nat j))) (seq 0 n) = map (fun b => (b * cv)%Q) (bits n m)).
      { rewrite <- Ebs. rewrite map_map. apply map_ext. intros j. rewrite Am, Ab. reflexivity. }
      rewrite Ebs, Ems.
      assert (HF : Forall2 (fun b x => (0 <= x <= wm)%Q /\ mcc b (a c) x 0%Q wm) (bits n m) (map (fun b => (b * cv)%Q) (bits n m))).
      { rewrite Ac. apply comps_forall2; assumption. }
      split; [exact BB|]. split; [exact HF|]. split.
      * rewrite BV, Ae. reflexivity.
      * pose proof (comps_value (a c) 0%Q wm ltac:(rewrite Ac; split; lra) _ _ BB HF) as V.
        rewrite V, BV, Ac, Ap. reflexivity.
Qed.

(* ------------------------------------------------------------------ families of walks within the caps *)
(* k source-to-sink walks whose multiplicities respect the repetition caps of the encoder, its safety fixing and
   its subset constraints *)
Definition werr_family (I : werr_inst) (P : N -> list node) : Prop :=
  let WI := werr_walk I in
  wwalks WI P /\ wwithin_caps WI P /\ wrespects_fixing WI P /\ wrealises_constraints WI P.

(* the multiplicities on non-ignored edges fit the bit vector of the product helper (sized from w_max) *)
Definition werr_bits_cap (I : werr_inst) (P : N -> list node) : Prop :=
  forall i e, In i (layers (x_k I)) -> In e (x_basic I) -> wprod_kind (werr_walk I) e i = 2%N ->
    (mult P i e < 2 ^ Z.of_nat (num_bits (x_wmax I)))%Z.
(* the product of a per-walk quantity (weight / slack) with the multiplicity fits the bound w_max of the Pi / Gamma columns *)
Definition werr_prod_cap (I : werr_inst) (P : N -> list node) (c : N -> Q) : Prop :=
  forall i e, In i (layers (x_k I)) -> In e (x_basic I) -> (c i * inject_Z (mult P i e) <= x_wmax I)%Q.
Definition werr_typed (I : werr_inst) (c : N -> Q) : Prop :=
  forall i, In i (layers (x_k I)) -> (0 <= c i <= x_wmax I)%Q /\ (x_int I = true -> is_int (c i)).

Definition xexpl (I : werr_inst) (P : N -> list node) (wt : N -> Q) (e : PathEnc.edge) : Q :=
  sumq (fun i => (wt i * inject_Z (mult P i e))%Q) (layers (x_k I)).

Definition basicb (I : werr_inst) (e : PathEnc.edge) : bool := mem_edge e (x_basic I).

(* one assignment for both encoders *)
Definition xasg (I : werr_inst) (P : N -> list node) (wt sl : N -> Q) (er : PathEnc.edge -> Q) (ch : N -> N) (x : var) : Q :=
  let n := num_bits (x_wmax I) in
  match vidx x with
  | [u; v; i] =>
      if (vfam x =? fEdge)%N then inject_Z (mult P i (u, v))
      else if (vfam x =? fSel)%N then indq (selb (rev (P i)) (u, v))
      else if (vfam x =? fPi)%N then (if basicb I (u, v) then wt i * inject_Z (mult P i (u, v)) else 0)%Q
      else if (vfam x =? fGamma)%N then (if basicb I (u, v) then sl i * inject_Z (mult P i (u, v)) else 0)%Q
      else if (vfam x =? fUsed)%N then usedq P i (u, v)
      else 0%Q
  | [v; i] => if (vfam x =? fDist)%N then inject_Z (Z.of_nat (rankf (rev (P i)) v))
              else if (vfam x =? fR)%N then indq (v =? ch i)%N
              else if (vfam x =? fErr)%N then er (v, i) else 0%Q
  | [i] => if (vfam x =? fW)%N then wt i else if (vfam x =? fSlack)%N then sl i else 0%Q
  | [f; u; v; i; j] =>
      if ((vfam x =? fBit)%N && ((f =? fPi)%N || (f =? fGamma)%N))%bool then nth (N.to_nat j) (bits n (mult P i (u, v))) 0%Q
      else if ((vfam x =? fComp)%N && (f =? fPi)%N)%bool then (nth (N.to_nat j) (bits n (mult P i (u, v))) 0 * wt i)%Q
      else if ((vfam x =? fComp)%N && (f =? fGamma)%N)%bool then (nth (N.to_nat j) (bits n (mult P i (u, v))) 0 * sl i)%Q
      else 0%Q
  | _ => 0%Q
  end.

Section XComplete.
  Variable I : werr_inst.
  Let WI := werr_walk I.
  Let G := x_graph I.
  Let k := x_k I.
  Let E := g_edges G.
  Let wm := x_wmax I.
  Variable P : N -> list node.
  Variables wt sl : N -> Q.
  Variable er : PathEnc.edge -> Q.
  Variable ch : N -> N.
  Hypothesis WFS : wf_stg G.
  Hypothesis HP : wwalks WI P.
  Hypothesis Hcap : wwithin_caps WI P.
  Hypothesis Hfix : wrespects_fixing WI P.
  Hypothesis Hcov : forall j c, nth_error (all_cons WI) j = Some c ->
      In (ch (N.of_nat j)) (layers k) /\
      (qnat (length (nodup_e c)) * w_cov WI <= sumq (usedq P (ch (N.of_nat j))) (nodup_e c))%Q.
  Hypothesis Hw : werr_typed I wt.
  Hypothesis Hbits : werr_bits_cap I P.
  Hypothesis Hpw : werr_prod_cap I P wt.

  Let a := xasg I P wt sl er ch.

  Lemma xa_edge e i : a (evar e i) = inject_Z (mult P i e). Proof. destruct e; reflexivity. Qed.
  Lemma xa_w i : a (W i) = wt i. Proof. reflexivity. Qed.
  Lemma xa_slack i : a (Slack i) = sl i. Proof. reflexivity. Qed.
  Lemma xa_err e : a (errvar e) = er e. Proof. destruct e; reflexivity. Qed.
  Lemma xa_pi e i : a (pvar e i) = (if basicb I e then wt i * inject_Z (mult P i e) else 0)%Q. Proof. destruct e; reflexivity. Qed.
  Lemma xa_gamma e i : a (gvar e i) = (if basicb I e then sl i * inject_Z (mult P i e) else 0)%Q. Proof. destruct e; reflexivity. Qed.
  Lemma xa_bit_pi e i j : a (Bit (pvar e i) (N.of_nat j)) = nth j (bits (num_bits wm) (mult P i e)) 0%Q.
  Proof. destruct e. unfold a, xasg, Bit, pvar, Pi. cbn [vidx vfam app]. cbn. rewrite Nat2N.id. reflexivity. Qed.
  Lemma xa_comp_pi e i j : a (Comp (pvar e i) (N.of_nat j)) = (nth j (bits (num_bits wm) (mult P i e)) 0 * wt i)%Q.
  Proof. destruct e. unfold a, xasg, Comp, pvar, Pi. cbn [vidx vfam app]. cbn. rewrite Nat2N.id. reflexivity. Qed.
  Lemma xa_bit_g e i j : a (Bit (gvar e i) (N.of_nat j)) = nth j (bits (num_bits wm) (mult P i e)) 0%Q.
  Proof. destruct e. unfold a, xasg, Bit, gvar, Gamma. cbn [vidx vfam app]. cbn. rewrite Nat2N.id. reflexivity. Qed.
  Lemma xa_comp_g e i j : a (Comp (gvar e i) (N.of_nat j)) = (nth j (bits (num_bits wm) (mult P i e)) 0 * sl i)%Q.
  Proof. destruct e. unfold a, xasg, Comp, gvar, Gamma. cbn [vidx vfam app]. cbn. rewrite Nat2N.id. reflexivity. Qed.

  Lemma xmult_nonneg i e : (0 <= mult P i e)%Z. Proof. unfold mult, multz. lia. Qed.
  Lemma basicb_true e : In e (x_basic I) -> basicb I e = true.
  Proof. intros H. unfold basicb. apply mem_edge_In. exact H. Qed.

  Lemma x_one_set_mult e i : In (e, i) (one_set WI) -> mult P i e = 1%Z.
  Proof.
    unfold one_set. intros H. apply in_map_iff in H. destruct H as ([[e' i'] m] & Eq & H). cbn [fst] in Eq. injection Eq as -> ->.
    apply filter_In in H. destruct H as [Hin S]. cbn [fst] in S. apply negb_true_iff in S.
    apply (proj2 (proj2 Hfix e i m Hin)). exact S.
  Qed.

  Lemma x_base_sat : Forall (sat_col a) (base_wcols WI) /\ Forall (sat_row a) (base_wrows WI).
  Proof. apply (base_sat WI P ch a WFS HP Hcap (proj1 Hfix) (proj2 Hfix) Hcov); reflexivity. Qed.

  Lemma x_wm_nonneg : k <> O -> (0 <= wm)%Q.
  Proof.
    intros Hk. assert (Hi : In 0%N (layers k)) by (apply in_layers; exists O; split; [lia|reflexivity]).
    destruct (Hw 0%N Hi) as [[A B] _]. unfold wm. lra.
  Qed.

  (* Pi columns and product blocks (used by both encoders) *)
  Lemma x_pi_cols_sat : Forall (sat_col a) (x_pi_cols I).
  Proof.
    unfold x_pi_cols. apply Forall_flat_map. intros i Hi. apply Forall_forall. intros c Hc. apply in_map_iff in Hc. destruct Hc as (e & <- & _).
    unfold sat_col, wcol_. cbn [cvar clb cub cint]. rewrite xa_pi. destruct (Hw i Hi) as [[W0 W1] Wi].
    assert (M0 : (0 <= inject_Z (mult P i e))%Q) by (change 0%Q with (inject_Z 0); rewrite <- Zle_Qle; apply xmult_nonneg).
    destruct (basicb I e) eqn:K.
    - apply mem_edge_In in K. split; [nra|]. split; [apply (Hpw i e Hi K)|].
      intros Hint. apply is_int_mult; [apply Wi; exact Hint|apply is_int_inject].
    - split; [lra|]. split; [fold wm in W0, W1 |- *; lra|]. intros _. exists 0%Z. reflexivity.
  Qed.
  Lemma x_w_cols_sat : Forall (sat_col a) (x_w_cols I).
  Proof.
    unfold x_w_cols. apply Forall_forall. intros c Hc. apply in_map_iff in Hc. destruct Hc as (i & <- & Hi).
    unfold sat_col, wcol_. cbn [cvar clb cub cint]. rewrite xa_w. destruct (Hw i Hi) as [[A B] C]. repeat split; assumption.
  Qed.

  Lemma x_pi_block i e : In i (layers k) -> In e (x_basic I) ->
    Forall (sat_col a) (wprod_cols WI wm e i (pvar e i)) /\ Forall (sat_row a) (wprod_rows WI wm e i (W i) (pvar e i)).
  Proof.
    intros Hi He. destruct (Hw i Hi) as [Wb _].
    apply (wprod_complete WI wm a e i (W i) (pvar e i) (mult P i e) (wt i)).
    - apply xa_edge.
    - apply xa_w.
    - rewrite xa_pi, (basicb_true e He). reflexivity.
    - intros j. apply xa_bit_pi.
    - intros j. apply xa_comp_pi.
    - exact Wb.
    - apply xmult_nonneg.
    - intros K2. apply (Hbits i e Hi He K2).
    - intros Hz. apply (proj1 Hfix e i Hz).
    - apply x_one_set_mult.
    - split; discriminate.
    - split; discriminate.
  Qed.

  Lemma x_piprod_cols_sat : Forall (sat_col a) (x_piprod_cols I).
  Proof. unfold x_piprod_cols. apply Forall_flat_map. intros e He. apply Forall_flat_map. intros i Hi. apply (proj1 (x_pi_block i e Hi He)). Qed.
  Lemma x_piprod_rows_sat e : In e (x_basic I) -> Forall (sat_row a) (x_piprod_rows I e).
  Proof. intros He. unfold x_piprod_rows. apply Forall_flat_map. intros i Hi. apply (proj2 (x_pi_block i e Hi He)). Qed.

  Lemma x_pi_sum e : In e (x_basic I) -> (sumq (fun i => a (pvar e i)) (layers k) == xexpl I P wt e)%Q.
  Proof. intros He. unfold xexpl. apply sumq_ext. intros i _. rewrite xa_pi, (basicb_true e He). reflexivity. Qed.

  (* ---------------- kLeastAbsErrorsCycles ---------------- *)
  Hypothesis Her : forall e, In e (x_basic I) ->
    (Qabs (xflow I e - xexpl I P wt e) <= er e <= wm)%Q /\ (x_int I = true -> is_int (er e)).

  Theorem klaec_complete_sat : sat a (encode_klae_cycles I) /\
    (objective a (encode_klae_cycles I) == sumq (fun e => xscale I e * er e) (x_basic I))%Q.
  Proof.
    destruct x_base_sat as [Bc Br]. split; [split|].
    - unfold encode_klae_cycles. cbn [cols]. fold WI. rewrite Forall_app. split; [exact Bc|].
      unfold klaec_cols. rewrite !Forall_app. split; [exact x_pi_cols_sat|]. split; [exact x_w_cols_sat|]. split; [|exact x_piprod_cols_sat].
      unfold x_err_cols. apply Forall_forall. intros c Hc. apply in_map_iff in Hc. destruct Hc as (e & <- & He).
      unfold sat_col, wcol_. cbn [cvar clb cub cint]. rewrite xa_err. destruct (Her e He) as [[E1 E2] E3].
      pose proof (Qabs_nonneg (xflow I e - xexpl I P wt e)) as A0. split; [lra|split; [exact E2|exact E3]].
    - unfold encode_klae_cycles. cbn [rows]. fold WI. rewrite Forall_app. split; [exact Br|].
      unfold klaec_rows. apply Forall_flat_map. intros e He. unfold klaec_edge_rows. rewrite Forall_app. split; [apply (x_piprod_rows_sat e He)|].
      destruct (Her e He) as [[E1 _] _]. apply Qabs_Qle_condition in E1.
      constructor; [|constructor; [|constructor]]; unfold sat_row, xrow_9aa, xrow_9ab, mkrow; cbn [sns lhs rhs]; fold k; rewrite eval_app.
      + rewrite (eval_map_const a (fun i => pvar e i) (- (1))%Q). cbn [eval fst snd]. rewrite (x_pi_sum e He), xa_err. lra.
      + rewrite (eval_map_const a (fun i => pvar e i) 1%Q). cbn [eval fst snd]. rewrite (x_pi_sum e He), xa_err. lra.
    - rewrite (klaec_objective I a). apply sumq_ext. intros e _. rewrite xa_err. reflexivity.
  Qed.
End XComplete.

Section XCompleteMpe.
  Variable I : werr_inst.
  Let WI := werr_walk I.
  Let G := x_graph I.
  Let k := x_k I.
  Let wm := x_wmax I.
  Variable P : N -> list node.
  Variables wt sl : N -> Q.
  Variable ch : N -> N.
  Hypothesis WFS : wf_stg G.
  Hypothesis HP : wwalks WI P.
  Hypothesis Hcap : wwithin_caps WI P.
  Hypothesis Hfix : wrespects_fixing WI P.
  Hypothesis Hcov : forall j c, nth_error (all_cons WI) j = Some c ->
      In (ch (N.of_nat j)) (layers k) /\
      (qnat (length (nodup_e c)) * w_cov WI <= sumq (usedq P (ch (N.of_nat j))) (nodup_e c))%Q.
  Hypothesis Hw : werr_typed I wt.
  Hypothesis Hs : werr_typed I sl.
  Hypothesis Hbits : werr_bits_cap I P.
  Hypothesis Hpw : werr_prod_cap I P wt.
  Hypothesis Hps : werr_prod_cap I P sl.
  (* the slacks of the walks through an edge cover its scaled deviation *)
  Hypothesis Hdev : forall e, In e (x_basic I) ->
    (Qabs (xscale I e * (xflow I e - xexpl I P wt e)) <= xexpl I P sl e)%Q.

  Let a := xasg I P wt sl (fun _ => 0%Q) ch.

  Lemma x_gamma_block i e : In i (layers k) -> In e (x_basic I) ->
    Forall (sat_col a) (wprod_cols WI wm e i (gvar e i)) /\ Forall (sat_row a) (wprod_rows WI wm e i (Slack i) (gvar e i)).
  Proof.
    intros Hi He. destruct (Hs i Hi) as [Sb _].
    apply (wprod_complete WI wm a e i (Slack i) (gvar e i) (mult P i e) (sl i)).
    - apply (xa_edge I P wt sl (fun _ => 0%Q) ch).
    - reflexivity.
    - rewrite (xa_gamma I P wt sl (fun _ => 0%Q) ch), (basicb_true I e He). reflexivity.
    - intros j. apply (xa_bit_g I P wt sl (fun _ => 0%Q) ch).
    - intros j. apply (xa_comp_g I P wt sl (fun _ => 0%Q) ch).
    - exact Sb.
    - unfold mult, multz. lia.
    - intros K2. apply (Hbits i e Hi He K2).
    - intros Hz. apply (proj1 Hfix e i Hz).
    - apply (x_one_set_mult I P Hfix).
    - split; discriminate.
    - split; discriminate.
  Qed.

  Theorem kmpec_complete_sat : sat a (encode_kmpe_cycles I) /\
    (objective a (encode_kmpe_cycles I) == sumq sl (layers k))%Q.
  Proof.
    destruct (x_base_sat I P wt sl (fun _ => 0%Q) ch WFS HP Hcap Hfix Hcov) as [Bc Br]. split; [split|].
    - unfold encode_kmpe_cycles. cbn [cols]. fold WI. rewrite Forall_app. split; [exact Bc|].
      unfold kmpec_cols. rewrite !Forall_app.
      split; [apply (x_w_cols_sat I P wt sl (fun _ => 0%Q) ch Hw)|].
      split; [apply (x_pi_cols_sat I P wt sl (fun _ => 0%Q) ch Hw Hpw)|].
      split; [|split; [|split]].
      + unfold x_slack_cols. apply Forall_forall. intros c Hc. apply in_map_iff in Hc. destruct Hc as (i & <- & Hi).
        unfold sat_col, wcol_. cbn [cvar clb cub cint]. change (a (Slack i)) with (sl i). destruct (Hs i Hi) as [[A B] C]. repeat split; assumption.
      + unfold x_gamma_cols. apply Forall_flat_map. intros i Hi. apply Forall_forall. intros c Hc. apply in_map_iff in Hc. destruct Hc as (e & <- & _).
        unfold sat_col, wcol_. cbn [cvar clb cub cint]. rewrite (xa_gamma I P wt sl (fun _ => 0%Q) ch). destruct (Hs i Hi) as [[S0 S1] _].
        assert (M0 : (0 <= inject_Z (mult P i e))%Q) by (change 0%Q with (inject_Z 0); rewrite <- Zle_Qle; unfold mult, multz; lia).
        destruct (basicb I e) eqn:K.
        * apply mem_edge_In in K. split; [nra|]. split; [apply (Hps i e Hi K)|intros D; discriminate D].
        * split; [lra|]. split; [lra|intros D; discriminate D].
      + apply (x_piprod_cols_sat I P wt sl (fun _ => 0%Q) ch Hfix Hw Hbits).
      + unfold x_gprod_cols. apply Forall_flat_map. intros e He. apply Forall_flat_map. intros i Hi. apply (proj1 (x_gamma_block i e Hi He)).
    - unfold encode_kmpe_cycles. cbn [rows]. fold WI. rewrite Forall_app. split; [exact Br|].
      unfold kmpec_rows. apply Forall_flat_map. intros e He. unfold kmpec_edge_rows. rewrite !Forall_app.
      split; [apply (x_piprod_rows_sat I P wt sl (fun _ => 0%Q) ch Hfix Hw Hbits e He)|]. split.
      + unfold x_gprod_rows. apply Forall_flat_map. intros i Hi. apply (proj2 (x_gamma_block i e Hi He)).
      + assert (HPi : (sumq (fun i => a (pvar e i)) (layers k) == xexpl I P wt e)%Q) by (apply (x_pi_sum I P wt sl (fun _ => 0%Q) ch e He)).
        assert (HGa : (sumq (fun i => a (gvar e i)) (layers k) == xexpl I P sl e)%Q).
        { unfold xexpl. apply sumq_ext. intros i _. rewrite (xa_gamma I P wt sl (fun _ => 0%Q) ch), (basicb_true I e He). reflexivity. }
        pose proof (Hdev e He) as HD. apply Qabs_Qle_condition in HD.
        constructor; [|constructor; [|constructor]]; unfold sat_row, mrow_9aa, mrow_9ab, mkrow; cbn [sns lhs rhs]; fold k; rewrite eval_app.
        * rewrite (eval_map_const a (fun i => pvar e i) (- xscale I e)%Q), (eval_map_const a (fun i => gvar e i) (- (1))%Q), HPi, HGa. lra.
        * rewrite (eval_map_const a (fun i => pvar e i) (- xscale I e)%Q), (eval_map_const a (fun i => gvar e i) 1%Q), HPi, HGa. lra.
    - rewrite (kmpec_objective I a). apply sumq_ext. intros i _. reflexivity.
  Qed.
End XCompleteMpe.
