(* Constraint generators and control code of the three "miscellaneous" models (C15, C16):
     MinGenSet  (__init__ pre-processing, _create_solver(k), the k loop of solve()),
     MinSetCover (_encode_set_cover),
     MinErrorFlow (_encode_flow, _encode_min_sum_errors_objective,
                   _encode_different_flow_values_and_objective, the corrected graph of get_solution).
   Faithful to the code as it is: same columns, bounds, rows, iteration ranges. *)
From Coq Require Import List NArith ZArith QArith Bool Lia.
Import ListNotations.
From FP Require Import Lin Blocks PathEnc.
Local Close Scope Q_scope.

(* variable families private to these models (tags continue the table of Lin.v) *)
Definition fY    : N := 30.  (* Y i j c     y_vars of the partition block *)
Definition fPiY  : N := 31.  (* PiY i j c   product_y *)
Definition fFV   : N := 32.  (* FV i        all_flow_values_vars *)
Definition fFVU  : N := 33.  (* FVU i       all_flow_values_used_indicator_vars *)
Definition fFVM  : N := 34.  (* FVM u v i   flow_values_map_vars *)

Definition Gen (i : N) : var := V fGen [i].
Definition Xv (i j : N) : var := V fX [i; j].
Definition Pij (i j : N) : var := V fPi [i; j].
Definition Yv (i j c : N) : var := V fY [i; j; c].
Definition PiY (i j c : N) : var := V fPiY [i; j; c].
Definition Sub (i : N) : var := V fSub [i].
Definition Xe (e : edge) : var := V fX [fst e; snd e].
Definition Erre (e : edge) : var := V fErr [fst e; snd e].
Definition FV (i : N) : var := V fFV [i].
Definition FVU (i : N) : var := V fFVU [i].
Definition FVM (e : edge) (i : N) : var := V fFVM [fst e; snd e; i].

Definition qcol (v : var) (lb ub : Q) (isint : bool) : col := {| cvar := v; clb := lb; cub := ub; cint := isint |}.
Definition idxs {A} (l : list A) : list N := layers (length l).

(* ====================================================================== MinGenSet *)
Record mgs_inst := {
  mg_numbers : list Q;                 (* self.numbers after __init__, in the order the object holds them *)
  mg_total : Q;
  mg_int : bool;                       (* weight_type == int *)
  mg_mult : nat;                       (* max_multiplicity *)
  mg_parts : option (list (list Q)) }. (* partition_constraints (None = not given) *)

(* ---- __init__ : removal of total / zero / complements / duplicates (remove_complement_values) ---- *)
Definition qmem (x : Q) (l : list Q) : bool := existsb (Qeq_bool x) l.
Definition Qlt_bool (a b : Q) : bool := negb (Qle_bool b a).

(*  for val in numbers:
        if max_multiplicity == 1 and total - val in numbers and total - val > val: remove.add(total - val)
        if val == total or val == 0:                                                remove.add(val)
    [compl] = "complements are removed": max_multiplicity == 1 in the code as it is (295fbde);
    the code before that fix removed them for every multiplicity ([mgs_preprocess_old]) *)
Definition mgs_removed_gen (compl : bool) (numbers : list Q) (total : Q) : list Q :=
  flat_map (fun v => (if compl && qmem (total - v)%Q numbers && Qlt_bool v (total - v)%Q then [(total - v)%Q] else []) ++
                     (if Qeq_bool v total || Qeq_bool v 0%Q then [v] else [])) numbers.
Definition mgs_removed (mult : nat) (numbers : list Q) (total : Q) : list Q :=
  mgs_removed_gen (mult =? 1)%nat numbers total.

Fixpoint qnodup (l : list Q) : list Q :=
  match l with
  | [] => []
  | x :: r => let r' := qnodup r in if qmem x r' then r' else x :: r'
  end.

(* list(set(numbers) - removed): a duplicate-free list; Python's order is hash order, so the
   correspondence compares the result as a set and hands the object's own order to the encoder *)
Definition mgs_preprocess_gen (compl remove_complements : bool) (numbers : list Q) (total : Q) : list Q :=
  if remove_complements
  then qnodup (filter (fun x => negb (qmem x (mgs_removed_gen compl numbers total))) numbers)
  else numbers.
Definition mgs_preprocess (remove_complements : bool) (mult : nat) (numbers : list Q) (total : Q) : list Q :=
  mgs_preprocess_gen (mult =? 1)%nat remove_complements numbers total.
(* old behaviour (before 295fbde): complements removed for every max_multiplicity *)
Definition mgs_preprocess_old (remove_complements : bool) (numbers : list Q) (total : Q) : list Q :=
  mgs_preprocess_gen true remove_complements numbers total.

(* ---- _create_solver(k) ---- *)
Definition mult1 (I : mgs_inst) : bool := (mg_mult I =? 1)%nat.
Definition x_ub (I : mgs_inst) : Q := if mult1 I then 1%Q else inject_Z (Z.of_nat (mg_mult I)).
(* bound handed to add_integer_continuous_product_constraint: max(total, max_multiplicity) (b959a54);
   before that fix: total ([encode_mgs_old]).  [pub] is a parameter of the generators below. *)
Definition prod_ub (I : mgs_inst) : Q :=
  let m := inject_Z (Z.of_nat (mg_mult I)) in if Qle_bool m (mg_total I) then mg_total I else m.

Definition parts_of (I : mgs_inst) : list (list Q) := match mg_parts I with None => [] | Some cs => cs end.
(* t = max(len(c) for c in partition_constraints) *)
Definition parts_t (I : mgs_inst) : nat := fold_right Nat.max 0%nat (map (@length Q) (parts_of I)).

Definition ijc (I : mgs_inst) (k : nat) : list (N * N * N) :=
  flat_map (fun i => flat_map (fun j => map (fun c => (i, j, c)) (idxs (parts_of I))) (layers (parts_t I))) (layers k).

Definition part_cols (I : mgs_inst) (k : nat) : list col :=
  match parts_of I with
  | [] => []
  | _ => map (fun t => bincol (Yv (fst (fst t)) (snd (fst t)) (snd t))) (ijc I k) ++
         map (fun t => qcol (PiY (fst (fst t)) (snd (fst t)) (snd t)) 0%Q (mg_total I) (mg_int I)) (ijc I k)
  end.

Definition part_rows (I : mgs_inst) (k : nat) : list row :=
  match parts_of I with
  | [] => []
  | _ =>
    flat_map (fun t => let '(i, j, c) := t in mcc_rows (Yv i j c) (Gen i) (PiY i j c) 0%Q (mg_total I)) (ijc I k) ++
    flat_map (fun i => map (fun c => mkrow (map (fun j => (Yv i j c, 1%Q)) (layers (parts_t I))) SEq 1%Q) (idxs (parts_of I))) (layers k) ++
    flat_map (fun cc => map (fun jv => mkrow (map (fun i => (PiY i (fst jv) (fst cc), 1%Q)) (layers k)) SEq (snd jv))
                            (zipn 0 (snd cc))) (zipn 0 (parts_of I))
  end.

Definition mgs_cols (pub piub : Q) (I : mgs_inst) (k : nat) : list col :=
  map (fun i => qcol (Gen i) 0%Q (mg_total I) (mg_int I)) (layers k) ++
  flat_map (fun i => map (fun j => qcol (Xv i j) 0%Q (x_ub I) true) (idxs (mg_numbers I))) (layers k) ++
  flat_map (fun i => map (fun j => qcol (Pij i j) 0%Q piub (mg_int I)) (idxs (mg_numbers I))) (layers k) ++
  (if mult1 I then []
   else flat_map (fun j => flat_map (fun i => intprod_cols (Pij i j) 0%Q pub (num_bits pub)) (layers k)) (idxs (mg_numbers I))) ++
  part_cols I k.

Definition prod_rows (pub : Q) (I : mgs_inst) (i j : N) : list row :=
  if mult1 I then mcc_rows (Xv i j) (Gen i) (Pij i j) 0%Q (mg_total I)
  else intprod_rows (Xv i j) (Gen i) (Pij i j) 0%Q pub (num_bits pub).

Definition row_total (I : mgs_inst) (k : nat) : row := mkrow (map (fun i => (Gen i, 1%Q)) (layers k)) SEq (mg_total I).
Definition row_sum_pi (k : nat) (ja : N * Q) : row := mkrow (map (fun i => (Pij i (fst ja), 1%Q)) (layers k)) SEq (snd ja).
(* _encode_symmetry_breaking: for i in range(k - 2): gen[i] <= gen[i+1] *)
Definition sym_rows (k : nat) : list row :=
  map (fun i => mkrow [(Gen i, 1%Q); (Gen (i + 1)%N, (- (1))%Q)] SLe 0%Q) (layers (k - 2)).

Definition mgs_rows (pub : Q) (I : mgs_inst) (k : nat) : list row :=
  [row_total I k] ++
  flat_map (fun ja => flat_map (fun i => prod_rows pub I i (fst ja)) (layers k) ++ [row_sum_pi k ja]) (zipn 0 (mg_numbers I)) ++
  sym_rows k ++
  part_rows I k.

(* upper bound of the pi columns: total if max_multiplicity == 1 else max([total] + numbers) (a068bcc);
   before that fix: total ([encode_mgs_pi_old]) *)
Definition pi_ub (I : mgs_inst) : Q := if mult1 I then mg_total I else list_max (mg_total I) (mg_numbers I).

Definition encode_mgs_gen (pub piub : Q) (I : mgs_inst) (k : nat) : milp :=
  {| cols := mgs_cols pub piub I k; rows := mgs_rows pub I k; obj := []; maximize := false |}.
Definition encode_mgs (I : mgs_inst) (k : nat) : milp := encode_mgs_gen (prod_ub I) (pi_ub I) I k.
(* old behaviour (before b959a54): bit vector sized from total only *)
Definition encode_mgs_old (I : mgs_inst) (k : nat) : milp := encode_mgs_gen (mg_total I) (mg_total I) I k.
(* old behaviour (before a068bcc): products bounded by total also when multiplicities are allowed *)
Definition encode_mgs_pi_old (I : mgs_inst) (k : nat) : milp := encode_mgs_gen (prod_ub I) (mg_total I) I k.

(* ---- solve(): extra_cuts = sum(len(c) - 1 for c in partition_constraints or []); first_k = max(1, lowerbound)
               for k in range(first_k, max(first_k + 1, len(initial_numbers) + 2 + extra_cuts)) ----
   kOptimal at k: answer k.  kInfeasible: go on with k + 1.  Any other status (time limit, unknown,
   error ...): stop, unsolved.  Result: the ks tried in order, and Some k / None. *)
Inductive mstatus := MgOptimal | MgInfeasible | MgOther.
Definition is_opt (s : mstatus) : bool := match s with MgOptimal => true | _ => false end.

Definition extra_cuts (parts : option (list (list Q))) : Z :=
  match parts with
  | None => 0%Z
  | Some cs => fold_right (fun c s => (Z.of_nat (length c) - 1 + s)%Z) 0%Z cs
  end.
(* first_k = max(1, lowerbound) (2a5d8e1): a lower bound below 1 must not start the search with the empty model k = 0.
   [lowerbound : nat] stands for max(0, lowerbound) of the Python int (mgsm_range_z): max(1, lb) = max(1, max(0, lb)). *)
Definition mgsm_first (lowerbound : nat) : nat := Nat.max 1 lowerbound.
Definition mgsm_range (lowerbound n_initial : nat) (extra : Z) : list nat :=
  let f := mgsm_first lowerbound in
  seq f (Z.to_nat (Z.max (Z.of_nat f + 1) (Z.of_nat n_initial + 2 + extra) - Z.of_nat f)).
Definition mgsm_range_z (lowerbound : Z) (n_initial : nat) (extra : Z) : list nat := mgsm_range (Z.to_nat lowerbound) n_initial extra.
(* before 2a5d8e1 the search started at the lower bound itself (kept for the _refuted witness) *)
Definition mgsm_range_from_lb (lowerbound n_initial : nat) (extra : Z) : list nat :=
  seq lowerbound (Z.to_nat (Z.max (Z.of_nat lowerbound + 1) (Z.of_nat n_initial + 2 + extra) - Z.of_nat lowerbound)).

Fixpoint mgsm_loop_on (status : nat -> mstatus) (ks : list nat) : list nat * option nat :=
  match ks with
  | [] => ([], None)
  | k :: r => match status k with
              | MgOptimal => ([k], Some k)
              | MgInfeasible => let '(tried, res) := mgsm_loop_on status r in (k :: tried, res)
              | MgOther => ([k], None)
              end
  end.

Definition mgsm_loop (status : nat -> mstatus) (lowerbound n_initial : nat) (extra : Z) : list nat * option nat :=
  mgsm_loop_on status (mgsm_range lowerbound n_initial extra).
Definition mgsm_loop_from_lb (status : nat -> mstatus) (lowerbound n_initial : nat) (extra : Z) : list nat * option nat :=
  mgsm_loop_on status (mgsm_range_from_lb lowerbound n_initial extra).

(* the loop as it was before the fixes 03febc7 / 2966290 (kept for the _refuted witnesses of the old
   behaviour): range(lowerbound, max(lowerbound + 1, len(initial_numbers))), every non-optimal status moves on *)
Definition mgsm_range_old (lowerbound n_initial : nat) : list nat :=
  seq lowerbound (Nat.max (lowerbound + 1) n_initial - lowerbound).
Fixpoint mgsm_loop_on_old (status : nat -> mstatus) (ks : list nat) : list nat * option nat :=
  match ks with
  | [] => ([], None)
  | k :: r => if is_opt (status k) then ([k], Some k)
              else let '(tried, res) := mgsm_loop_on_old status r in (k :: tried, res)
  end.
Definition mgsm_loop_old (status : nat -> mstatus) (lowerbound n_initial : nat) : list nat * option nat :=
  mgsm_loop_on_old status (mgsm_range_old lowerbound n_initial).

(* old conversion (before f5a395c) self.weight_type(value): int() truncates toward zero; the code as it is
   uses round() for int (py_round_half_even below) and float() otherwise *)
Definition py_int (q : Q) : Z := Z.quot (Qnum q) (Zpos (Qden q)).

(* ====================================================================== MinSetCover *)
Record msc_inst := {
  sc_universe : list N;
  sc_subsets : list (list N);
  sc_weights : option (list Q) }.       (* None = the default subset_weights=None *)

Definition nmem (x : N) (l : list N) : bool := existsb (N.eqb x) l.

Definition msc_cols (I : msc_inst) : list col := map (fun i => bincol (Sub i)) (idxs (sc_subsets I)).
Definition cover_row (I : msc_inst) (el : N) : row :=
  mkrow (map (fun iS => (Sub (fst iS), 1%Q)) (filter (fun iS => nmem el (snd iS)) (zipn 0 (sc_subsets I)))) SGe 1%Q.
Definition msc_rows (I : msc_inst) : list row := map (cover_row I) (sc_universe I).

(* objective: subset_weights[i] * subset_vars[i] for i in range(len(subsets)); too short -> IndexError: no model is built *)
Fixpoint msc_obj (i : nat) (subsets : list (list N)) (ws : list Q) : option lin :=
  match subsets with
  | [] => Some []
  | _ :: r => match ws with
              | [] => None
              | w :: wr => option_map (cons (Sub (N.of_nat i), w)) (msc_obj (S i) r wr)
              end
  end.

(* subset_weights=None: unit weights (4e8a1f8); before that fix no model was built ([encode_msc_old]) *)
Definition msc_weights (I : msc_inst) : list Q :=
  match sc_weights I with Some ws => ws | None => repeat 1%Q (length (sc_subsets I)) end.

Definition encode_msc (I : msc_inst) : option milp :=
  option_map (fun o => {| cols := msc_cols I; rows := msc_rows I; obj := o; maximize := false |})
             (msc_obj 0 (sc_subsets I) (msc_weights I)).

Definition encode_msc_old (I : msc_inst) : option milp :=
  match sc_weights I with None => None | Some _ => encode_msc I end.

(* ====================================================================== MinErrorFlow *)
Record mef_inst := {
  mef_nodes : list node;                (* list(self.G.nodes()) : the s-t augmented graph when acyclic *)
  mef_edges : list edge;                (* list(self.G.edges()) *)
  mef_flow : list (edge * Q);           (* edges carrying the flow attribute *)
  mef_ignore : list edge;               (* self.edges_to_ignore (incl. source/sink edges and scale-0 edges) *)
  mef_scale : list (edge * Q);          (* self.edge_error_scaling *)
  mef_lambda : Q;                       (* sparsity_lambda *)
  mef_src : option node;                (* self.G.source when acyclic *)
  mef_int : bool }.

Definition mef_in_edges (E : list edge) (v : node) : list edge := filter (fun e => (snd e =? v)%N) E.
Definition has_flow (I : mef_inst) (e : edge) : bool := existsb (fun p => edge_eqb (fst p) e) (mef_flow I).
Definition fval (I : mef_inst) (e : edge) : Q := lookup_q e (mef_flow I) 0%Q.
Definition ignored (I : mef_inst) (e : edge) : bool := mem_edge e (mef_ignore I).
Definition scale_of (I : mef_inst) (e : edge) : Q := lookup_q e (mef_scale I) 1%Q.

(* a non-ignored edge without the attribute makes _encode_flow raise ValueError *)
Definition mef_ok (I : mef_inst) : bool := forallb (fun e => ignored I e || has_flow I e) (mef_edges I).

(* w_max = max(G[u][v].get(flow_attr, 0) for all edges); ub = w_max * number_of_edges *)
Definition mef_wmax (I : mef_inst) : Q :=
  match map (fval I) (mef_edges I) with [] => 0%Q | x :: r => list_max x r end.
Definition mef_ub (I : mef_inst) : Q := (mef_wmax I * inject_Z (Z.of_nat (length (mef_edges I))))%Q.

Definition conserved (I : mef_inst) (v : node) : bool :=
  match mef_in_edges (mef_edges I) v, out_edges (mef_edges I) v with
  | [], _ => false | _, [] => false | _, _ => true
  end.

Definition cons_row (I : mef_inst) (v : node) : row :=
  mkrow (map (fun e => (Xe e, 1%Q)) (mef_in_edges (mef_edges I) v) ++ map (fun e => (Xe e, (- (1))%Q)) (out_edges (mef_edges I) v)) SEq 0%Q.

Definition err_rows (I : mef_inst) (e : edge) : list row :=
  if ignored I e then [ mkrow [(Erre e, 1%Q)] SEq 0%Q ]
  else [ mkrow [(Xe e, (- (1))%Q); (Erre e, (- (1))%Q)] SLe (- fval I e)%Q;
         mkrow [(Xe e, 1%Q); (Erre e, (- (1))%Q)] SLe (fval I e) ].

Definition mef_cols (I : mef_inst) : list col :=
  map (fun e => qcol (Xe e) 0%Q (mef_ub I) (mef_int I)) (mef_edges I) ++
  map (fun e => qcol (Erre e) 0%Q (mef_ub I) (mef_int I)) (mef_edges I).

Definition mef_rows (I : mef_inst) : list row :=
  map (cons_row I) (filter (conserved I) (mef_nodes I)) ++ flat_map (err_rows I) (mef_edges I).

(* sum of scaled errors of the non-ignored edges + (lambda * flow out of the source, if lambda > 0) *)
Definition mef_obj (I : mef_inst) : lin :=
  map (fun e => (Erre e, scale_of I e)) (filter (fun e => negb (ignored I e)) (mef_edges I)) ++
  (if Qlt_bool 0%Q (mef_lambda I)
   then match mef_src I with
        | Some s => map (fun e => (Xe e, mef_lambda I)) (out_edges (mef_edges I) s)
        | None => []
        end
   else []).

Definition encode_mef (I : mef_inst) : milp :=
  {| cols := mef_cols I; rows := mef_rows I; obj := mef_obj I; maximize := false |}.

(* second model (few_flow_values_epsilon): _encode_flow again + value-map block + budget row;
   subset = edges of the caller's graph, nvals = number of distinct values of the first optimum,
   budget row: first objective <= (1 + eps) * opt *)
Definition mef2_cols (I : mef_inst) (subset : list edge) (nvals : nat) : list col :=
  map (fun i => qcol (FV i) 0%Q (mef_ub I) (mef_int I)) (layers nvals) ++
  map (fun i => bincol (FVU i)) (layers nvals) ++
  flat_map (fun e => map (fun i => bincol (FVM e i)) (layers nvals)) subset.

Definition mef2_edge_rows (I : mef_inst) (nvals : nat) (e : edge) : list row :=
  mkrow (map (fun i => (FVM e i, 1%Q)) (layers nvals)) SEq 1%Q ::
  flat_map (fun i =>
    [ mkrow [(Xe e, 1%Q); (FV i, (- (1))%Q); (FVM e i, mef_ub I)] SLe (mef_ub I);
      mkrow [(Xe e, 1%Q); (FV i, (- (1))%Q); (FVM e i, (- mef_ub I)%Q)] SGe (- mef_ub I)%Q;
      mkrow [(FVU i, 1%Q); (FVM e i, (- (1))%Q)] SGe 0%Q ]) (layers nvals).

Definition mef2_budget (eps opt : Q) : Q := ((1 + eps) * opt)%Q.

Definition encode_mef2 (I : mef_inst) (subset : list edge) (eps opt : Q) (nvals : nat) : milp :=
  {| cols := mef_cols I ++ mef2_cols I subset nvals;
     rows := mef_rows I ++ flat_map (mef2_edge_rows I nvals) subset ++ [ mkrow (mef_obj I) SLe (mef2_budget eps opt) ];
     obj := map (fun i => (FVU i, 1%Q)) (layers nvals);
     maximize := false |}.

(* get_solution: the corrected graph = deep copy of the graph, the attribute of every edge that has
   one replaced by the solver's value (round() for int, float() otherwise); nodes and edges untouched *)
Definition py_round_half_even (q : Q) : Z :=
  let fl := (Qnum q / Zpos (Qden q))%Z in
  let r := (q - inject_Z fl)%Q in
  if Qlt_bool r (1 # 2) then fl
  else if Qlt_bool (1 # 2) r then (fl + 1)%Z
  else if Z.even fl then fl else (fl + 1)%Z.

Definition corrected_value (I : mef_inst) (x : edge -> Q) (e : edge) : Q :=
  if mef_int I then inject_Z (py_round_half_even (x e)) else x e.

Definition corrected_graph (I : mef_inst) (nodes : list node) (edges : list edge) (x : edge -> Q)
  : list node * list (edge * option Q) :=
  (nodes, map (fun e => (e, if has_flow I e then Some (corrected_value I x e) else None)) edges).

(* reported "error" = sum of all error variables; "objective_value" = solver objective *)
Definition reported_error (I : mef_inst) (a : var -> Q) : Q := sumq (fun e => a (Erre e)) (mef_edges I).
