(* C17 — proofs, part 1: the generic closure decides reachability; membership helpers;
   order lemmas; the generic pull-DP lemma. *)
From Coq Require Import List NArith ZArith Bool Arith Lia.
Import ListNotations.
From FP Require Import Reach.
Set Default Timeout 30.

(* ---------------------------------------------------------------- membership helpers *)
Lemma eqe_spec e1 e2 : reflect (e1 = e2) (eqe e1 e2).
Proof.
  destruct e1 as [a b], e2 as [c d]. unfold eqe. cbn [fst snd].
  destruct (N.eqb_spec a c), (N.eqb_spec b d); cbn; constructor; congruence.
Qed.
Lemma memN_In x l : memN x l = true <-> In x l.
Proof.
  unfold memN. rewrite existsb_exists. split.
  - intros (y & Hy & E). apply N.eqb_eq in E. subst. assumption.
  - intros H. exists x. split; [assumption|apply N.eqb_refl].
Qed.
Lemma memN_false x l : memN x l = false <-> ~ In x l.
Proof. rewrite <- memN_In. destruct (memN x l); split; congruence. Qed.
Lemma memE_In e l : memE e l = true <-> In e l.
Proof.
  unfold memE. rewrite existsb_exists. split.
  - intros (y & Hy & E). destruct (eqe_spec e y); [subst; assumption|discriminate].
  - intros H. exists e. split; [assumption|]. destruct (eqe_spec e e); congruence.
Qed.
Lemma memE_false e l : memE e l = false <-> ~ In e l.
Proof. rewrite <- memE_In. destruct (memE e l); split; congruence. Qed.

Lemma succs_of_In E u v : In v (succs_of E u) <-> In (u, v) E.
Proof.
  unfold succs_of. rewrite in_map_iff. split.
  - intros ([a b] & <- & H). apply filter_In in H. destruct H as [H1 H2]. cbn in *. apply N.eqb_eq in H2. subst. assumption.
  - intros H. exists (u, v). split; [reflexivity|]. apply filter_In. split; [assumption|]. cbn. apply N.eqb_refl.
Qed.
Lemma preds_of_In E u v : In u (preds_of E v) <-> In (u, v) E.
Proof.
  unfold preds_of. rewrite in_map_iff. split.
  - intros ([a b] & <- & H). apply filter_In in H. destruct H as [H1 H2]. cbn in *. apply N.eqb_eq in H2. subst. assumption.
  - intros H. exists (u, v). split; [reflexivity|]. apply filter_In. split; [assumption|]. cbn. apply N.eqb_refl.
Qed.

Lemma nodupb_NoDup l : nodupb l = true <-> NoDup l.
Proof.
  induction l as [|x r IH]; cbn [nodupb].
  - split; [constructor|reflexivity].
  - rewrite andb_true_iff, negb_true_iff, memN_false, IH. split.
    + intros [H1 H2]. constructor; assumption.
    + intros H. inversion H; subst. tauto.
Qed.

Lemma nodupE_NoDup l : nodupE l = true <-> NoDup l.
Proof.
  induction l as [|x r IH]; cbn [nodupE].
  - split; [constructor|reflexivity].
  - rewrite andb_true_iff, negb_true_iff, memE_false, IH. split.
    + intros [H1 H2]. constructor; assumption.
    + intros H. inversion H; subst. tauto.
Qed.

(* ---------------------------------------------------------------- closure *)
Section ClosureProofs.
  Variable A : Type.
  Variable eqb : A -> A -> bool.
  Hypothesis eqb_spec : forall x y, reflect (x = y) (eqb x y).
  Variable step : A -> list A.

  Lemma mem_In x l : mem eqb x l = true <-> In x l.
  Proof.
    unfold mem. rewrite existsb_exists. split.
    - intros (y & Hy & E). destruct (eqb_spec x y); [subst; assumption|discriminate].
    - intros H. exists x. split; [assumption|]. destruct (eqb_spec x x); congruence.
  Qed.

  Lemma add_all_In xs : forall acc y, In y (add_all eqb xs acc) <-> In y xs \/ In y acc.
  Proof.
    induction xs as [|x r IH]; intros acc y; cbn [add_all]; [cbn; tauto|].
    destruct (mem eqb x acc) eqn:M; rewrite IH.
    - apply mem_In in M. split; [cbn; tauto|]. intros [[<-|H]|H]; tauto.
    - cbn. tauto.
  Qed.

  Lemma add_all_NoDup xs : forall acc, NoDup acc -> NoDup (add_all eqb xs acc).
  Proof.
    induction xs as [|x r IH]; intros acc H; cbn [add_all]; [assumption|].
    destruct (mem eqb x acc) eqn:M; apply IH; [assumption|].
    constructor; [|assumption]. intros HI. apply mem_In in HI. congruence.
  Qed.

  Lemma add_all_length xs : forall acc, length acc <= length (add_all eqb xs acc).
  Proof.
    induction xs as [|x r IH]; intros acc; cbn [add_all]; [lia|].
    destruct (mem eqb x acc); [apply IH|]. specialize (IH (x :: acc)). cbn in IH. lia.
  Qed.

  Lemma reach_trans x y z : reach step x y -> reach step y z -> reach step x z.
  Proof. intros H1 H2. induction H2; [assumption|econstructor 2; eassumption]. Qed.
  Lemma reach_one x y : In y (step x) -> reach step x y.
  Proof. intros H. econstructor 2; [constructor|assumption]. Qed.
  Lemma reach_left x s y : In s (step x) -> reach step s y -> reach step x y.
  Proof. intros H1 H2. eapply reach_trans; [apply reach_one; eassumption|assumption]. Qed.
  Lemma reach_inv_left x y : reach step x y -> y = x \/ exists s, In s (step x) /\ reach step s y.
  Proof.
    induction 1 as [|a b R IH Hb]; [left; reflexivity|right].
    destruct IH as [->|(s & Hs & Rs)].
    - exists b. split; [assumption|constructor].
    - exists s. split; [assumption|econstructor 2; eassumption].
  Qed.

  Lemma clos_sound fuel : forall S y, In y (clos eqb step fuel S) -> exists x, In x S /\ reach step x y.
  Proof.
    induction fuel as [|f IH]; intros S y H; cbn [clos] in H.
    - exists y. split; [assumption|constructor].
    - destruct (length (add_all eqb (flat_map step S) S) =? length S).
      + exists y. split; [assumption|constructor].
      + destruct (IH _ _ H) as (x & Hx & R). apply add_all_In in Hx. destruct Hx as [Hx|Hx].
        * apply in_flat_map in Hx. destruct Hx as (x' & Hx' & Hs). exists x'. split; [assumption|].
          eapply reach_left; eassumption.
        * exists x. tauto.
  Qed.

  Definition closed (S : list A) : Prop := forall x y, In x S -> In y (step x) -> In y S.

  Lemma closed_reach S x y : closed S -> In x S -> reach step x y -> In y S.
  Proof. intros C Hx R. induction R; [assumption|eapply C; eassumption]. Qed.

  Lemma clos_incl fuel : forall S x, In x S -> In x (clos eqb step fuel S).
  Proof.
    induction fuel as [|f IH]; intros S x H; cbn [clos]; [assumption|].
    destruct (_ =? _); [assumption|]. apply IH. apply add_all_In. tauto.
  Qed.

  Lemma clos_NoDup fuel : forall S, NoDup S -> NoDup (clos eqb step fuel S).
  Proof.
    induction fuel as [|f IH]; intros S H; cbn [clos]; [assumption|].
    destruct (_ =? _); [assumption|]. apply IH, add_all_NoDup, H.
  Qed.

  Variable U : list A.
  Hypothesis step_in_U : forall x y, In x U -> In y (step x) -> In y U.

  Lemma stable_closed S : NoDup S ->
    length (add_all eqb (flat_map step S) S) = length S -> closed S.
  Proof.
    intros ND L x y Hx Hy.
    destruct (mem eqb y S) eqn:M; [apply mem_In; assumption|exfalso].
    assert (HnotIn : ~ In y S) by (intros HI; apply mem_In in HI; congruence).
    set (S' := add_all eqb (flat_map step S) S) in *.
    assert (ND' : NoDup S') by (apply add_all_NoDup; assumption).
    assert (Hy' : In y S').
    { apply add_all_In. left. apply in_flat_map. exists x. tauto. }
    assert (Hincl : incl (y :: S) S').
    { intros z [<-|Hz]; [assumption|]. apply add_all_In. tauto. }
    assert (NoDup (y :: S)) by (constructor; assumption).
    pose proof (NoDup_incl_length H Hincl) as Hlen. cbn in Hlen. lia.
  Qed.

  Lemma clos_closed fuel : forall S, NoDup S -> incl S U -> NoDup U ->
    length U < fuel + length S -> closed (clos eqb step fuel S).
  Proof.
    induction fuel as [|f IH]; intros S ND Hin NDU Hf; cbn [clos].
    - exfalso. pose proof (NoDup_incl_length ND Hin). lia.
    - destruct (length (add_all eqb (flat_map step S) S) =? length S) eqn:E.
      + apply Nat.eqb_eq in E. apply stable_closed; assumption.
      + apply Nat.eqb_neq in E. apply IH.
        * apply add_all_NoDup. assumption.
        * intros z Hz. apply add_all_In in Hz. destruct Hz as [Hz|Hz]; [|apply Hin; assumption].
          apply in_flat_map in Hz. destruct Hz as (x & Hx & Hs). eapply step_in_U; [apply Hin; eassumption|assumption].
        * assumption.
        * pose proof (add_all_length (flat_map step S) S). lia.
  Qed.

  Theorem clos_correct x0 y : NoDup U -> In x0 U ->
    (In y (clos eqb step (S (length U)) [x0]) <-> reach step x0 y).
  Proof.
    intros NDU H0. split.
    - intros H. destruct (clos_sound _ _ _ H) as (x & [<-|[]] & R). exact R.
    - intros R. eapply closed_reach; [|apply clos_incl; left; reflexivity|exact R].
      apply clos_closed; try assumption.
      + constructor; [intros []|constructor].
      + intros z [<-|[]]. assumption.
      + cbn. lia.
  Qed.
End ClosureProofs.

(* the instance on N used everywhere *)
Theorem closure_correct_N (U : list N) (step : N -> list N) (v y : N) :
  NoDup U -> (forall x z, In x U -> In z (step x) -> In z U) -> In v U ->
  (In y (closure U step v) <-> reach step v y).
Proof. intros ND HU Hv. unfold closure. apply clos_correct; try assumption. apply N.eqb_spec. Qed.

Lemma closure_NoDup U step v : NoDup (closure U step v).
Proof. unfold closure. apply clos_NoDup; [apply N.eqb_spec|]. constructor; [intros []|constructor]. Qed.

(* reachability along reversed edges *)
Lemma greach_rev_iff E u v : greach_rev E v u <-> greach E u v.
Proof.
  unfold greach, greach_rev. split.
  - induction 1 as [|a b R IH Hb]; [constructor|].
    apply preds_of_In in Hb. eapply reach_left; [apply succs_of_In; eassumption|assumption].
  - induction 1 as [|a b R IH Hb]; [constructor|].
    apply succs_of_In in Hb. eapply reach_left; [apply preds_of_In; eassumption|assumption].
Qed.

(* ---------------------------------------------------------------- orders *)
Lemma beforeb_split l a b : NoDup l -> beforeb l a b = true ->
  exists l1 l2, l = l1 ++ a :: l2 /\ In b l2 /\ ~ In b (l1 ++ [a]) /\ ~ In a l1.
Proof.
  induction l as [|x r IH]; intros ND H; cbn [beforeb] in H; [discriminate|].
  inversion ND as [|? ? Hx NDr]; subst.
  destruct (N.eqb_spec x a) as [->|Hne].
  - apply memN_In in H. exists [], r. cbn. repeat split; try assumption; try tauto.
    intros [<-|[]]. contradiction.
  - destruct (IH NDr H) as (l1 & l2 & -> & Hb & Hnb & Hna).
    exists (x :: l1), l2. cbn. repeat split; try assumption.
    + intros [<-|Hin]; [|contradiction]. apply Hx. apply in_or_app. right. right. assumption.
    + intros [<-|Hin]; [congruence|contradiction].
Qed.

Lemma NoDup_app_inv {A} (l1 l2 : list A) : NoDup (l1 ++ l2) -> NoDup l1 /\ NoDup l2 /\ forall x, In x l1 -> ~ In x l2.
Proof.
  induction l1 as [|a l1 IH]; cbn; intros H.
  - split; [constructor|]. split; [assumption|]. intros ? [].
  - inversion H as [|? ? Ha ND]; subst. destruct (IH ND) as (H1 & H2 & H3). split; [|split].
    + constructor; [|assumption]. intros Hin. apply Ha. apply in_or_app. left. assumption.
    + assumption.
    + intros x [<-|Hx]; [|apply H3; assumption]. intros Hin. apply Ha. apply in_or_app. right. assumption.
Qed.

Lemma NoDup_split_unique {A} (l1 l2 l1' l2' : list A) c :
  NoDup (l1 ++ c :: l2) -> l1 ++ c :: l2 = l1' ++ c :: l2' -> l1 = l1' /\ l2 = l2'.
Proof.
  revert l1'. induction l1 as [|a l1 IH]; intros l1' ND Heq.
  - destruct l1' as [|b l1']; cbn in *.
    + inversion Heq. tauto.
    + inversion Heq; subst. inversion ND as [|? ? Hc _]; subst. exfalso. apply Hc. apply in_or_app. right. left. reflexivity.
  - destruct l1' as [|b l1']; cbn in *.
    + inversion Heq; subst. inversion ND as [|? ? Hc _]; subst. exfalso. apply Hc. apply in_or_app. right. left. reflexivity.
    + inversion Heq; subst. inversion ND as [|? ? _ ND2]; subst. destruct (IH l1' ND2 H1) as [-> ->]. tauto.
Qed.

(* a duplicate-free order in which every dependency of an element occurs earlier is [sorted] *)
Lemma sorted_intro dep : forall rest done, NoDup (done ++ rest) ->
  (forall l1 c l2, rest = l1 ++ c :: l2 -> forall s, In s (dep c) -> In s (done ++ l1)) ->
  sorted dep done rest.
Proof.
  induction rest as [|v r IH]; intros done ND H; cbn [sorted]; [exact I|].
  destruct (NoDup_app_inv _ _ ND) as (_ & _ & Hd). split; [|split].
  - intros Hin. apply (Hd v Hin). left. reflexivity.
  - intros u Hu. specialize (H [] v r eq_refl u Hu). rewrite app_nil_r in H. exact H.
  - apply IH.
    + rewrite <- app_assoc. exact ND.
    + intros l1 c l2 -> s Hs. specialize (H (v :: l1) c l2 eq_refl s Hs).
      rewrite <- app_assoc. exact H.
Qed.

(* ---------------------------------------------------------------- the pull DP *)
Lemma upd_same {T} (m : N -> T) v a : upd m v a v = a.
Proof. unfold upd. rewrite N.eqb_refl. reflexivity. Qed.
Lemma upd_other {T} (m : N -> T) v a x : x <> v -> upd m v a x = m x.
Proof. unfold upd. intros H. destruct (N.eqb_spec x v); congruence. Qed.

Section PullDP.
  Variable T : Type.
  Variable dep : N -> list N.
  Variable join2 : N -> N -> T -> T -> T.
  Variable m0 : N -> T.
  Variable Spec : N -> T -> Prop.
  (* one node's value is right whenever its dependencies' values are *)
  Hypothesis Hstep : forall c (m : N -> T), (forall s, In s (dep c) -> Spec s (m s)) ->
    Spec c (fold_left (fun acc s => join2 c s acc (m s)) (dep c) (m0 c)).

  Lemma pull_inv : forall rest done m,
    (forall c, In c done -> Spec c (m c)) -> (forall c, ~ In c done -> m c = m0 c) ->
    sorted dep done rest ->
    let m' := fold_left (pull_step dep join2) rest m in
    (forall c, In c (done ++ rest) -> Spec c (m' c)) /\ (forall c, ~ In c (done ++ rest) -> m' c = m0 c).
  Proof.
    induction rest as [|v r IH]; intros done m H1 H2 S; cbn [fold_left].
    - rewrite app_nil_r. split; assumption.
    - destruct S as (Hv & Hdep & S').
      replace (done ++ v :: r) with ((done ++ [v]) ++ r) by (rewrite <- app_assoc; reflexivity).
      apply IH; [| |exact S'].
      + intros c Hc. apply in_app_or in Hc. unfold pull_step. destruct Hc as [Hc|[<-|[]]].
        * rewrite upd_other by (intros ->; contradiction). apply H1, Hc.
        * rewrite upd_same. rewrite (H2 v Hv). apply Hstep. intros s Hs. apply H1, Hdep, Hs.
      + intros c Hc. unfold pull_step. rewrite upd_other.
        * apply H2. intros Hin. apply Hc. apply in_or_app. left. assumption.
        * intros ->. apply Hc. apply in_or_app. right. left. reflexivity.
  Qed.

  Theorem pull_correct order : sorted dep [] order ->
    forall c, In c order -> Spec c (pull dep join2 order m0 c).
  Proof.
    intros S c Hc. unfold pull.
    destruct (pull_inv order [] m0 (fun c H => match H with end) (fun c _ => eq_refl) S) as [H _].
    apply H. exact Hc.
  Qed.
End PullDP.
