(* C17/C09 — antichain and cover checkers (run on the implementation's output) and the weighted
   route-cover / antichain duality.  Proofs: CoverProofs.v *)
From Coq Require Import List NArith ZArith Bool Arith Lia.
Import ListNotations.
From FP Require Import Reach.
Open Scope Z_scope.

Definition zsum {A} (g : A -> Z) (l : list A) : Z := fold_right (fun a s => g a + s) 0 l.
Definition indz (b : bool) : Z := if b then 1 else 0.

Fixpoint pairwise {A} (r : A -> A -> bool) (l : list A) : bool :=
  match l with [] => true | x :: t => forallb (r x) t && pairwise r t end.

Section Checkers.
  Variable V : list node.
  Variable E : list edge.

  Definition graph_ok : bool := nodupb V && forallb (fun e => memN (fst e) V && memN (snd e) V) E.
  Definition reachb (a b : node) : bool := memN b (closure V (succs_of E) a).
  (* no route runs through both: neither head reaches the other's tail *)
  Definition incompatible (e1 e2 : edge) : bool :=
    negb (reachb (snd e1) (fst e2)) && negb (reachb (snd e2) (fst e1)).
  Definition antichain_ok (A : list edge) : bool :=
    graph_ok && nodupE A && forallb (fun e => memE e E) A && pairwise incompatible A.

  (* routes: node lists from s to t along edges of E, with a non-negative multiplicity each *)
  Definition route_okb (s t : node) (p : list node) : bool :=
    match p with
    | [] => false
    | a :: _ => (a =? s)%N && (last p a =? t)%N && forallb (fun e => memE e E) (pairs p)
    end.
  Definition coverage (P : list (list node * Z)) (e : edge) : Z :=
    zsum (fun pm => snd pm * indz (memE e (pairs (fst pm)))) P.
  Definition cover_size (P : list (list node * Z)) : Z := zsum snd P.
  Definition cover_ok (s t : node) (W : list (edge * Z)) (P : list (list node * Z)) : bool :=
    forallb (fun pm => route_okb s t (fst pm) && (0 <=? snd pm)) P &&
    forallb (fun e => wt W e <=? coverage P e) E.
  Definition antichain_weight (W : list (edge * Z)) (A : list edge) : Z := zsum (wt W) A.

  (* per-instance optimality certificate: both checkers accept and the two values coincide *)
  Definition certificate_ok (s t : node) (W : list (edge * Z)) (A : list edge) (P : list (list node * Z)) : bool :=
    antichain_ok A && cover_ok s t W P && (antichain_weight W A =? cover_size P).
End Checkers.

(* ------------------------------------------------------------------------------------------ *)
(* stDAG's width cache as a state machine.  The min-flow engine (network_simplex) is external: [solve] maps the
   demand function handed to it to the optimum it reports.  Operations on ONE stDAG object:
     WGetWidth ign        get_width(edges_to_ignore = ign)      (caches its answer in self.width iff ign is empty)
     WAntichain wf        compute_max_edge_antichain(weight_function = wf), with or without get_antichain
   The code as it is reads self.width only in get_width with an empty ignore list. *)
Section WidthCache.
  Variable s t : node.                         (* global source / sink *)
  Variable solve : (edge -> Z) -> Z.

  Definition w_default (e : edge) : Z := if (fst e =? s)%N || (snd e =? t)%N then 0 else 1.
  Definition w_width (ign : list edge) (e : edge) : Z := if memE e ign then 0 else 1.
  Definition w_given (wf : list (edge * Z)) (e : edge) : Z := wt wf e.

  Inductive wop := WGetWidth (ign : list edge) | WAntichain (wf : option (list (edge * Z))).

  Definition wop_demand (o : wop) : edge -> Z :=
    match o with
    | WGetWidth ign => w_width ign
    | WAntichain None => w_default
    | WAntichain (Some wf) => w_given wf
    end.

  Definition wstep (cache : option Z) (o : wop) : option Z * Z :=
    match o with
    | WGetWidth [] => match cache with
                      | Some w => (cache, w)
                      | None => let w := solve (w_width []) in (Some w, w)
                      end
    | WGetWidth ign => (cache, solve (w_width ign))
    | WAntichain _ => (cache, solve (wop_demand o))
    end.

  Fixpoint wrun (cache : option Z) (os : list wop) : list Z :=
    match os with
    | [] => []
    | o :: r => let '(c, a) := wstep cache o in a :: wrun c r
    end.
End WidthCache.
