(* C07 / C08 in NODE mode WITH additional_starts / additional_ends, in the caller's terms: NodeErrE2E.v redone for node paths that may
   start at a node of S and end at a node of T (DilworthNode.nwalk) and for the expanded instance whose global source is attached to
   v.0 for v in S and whose global sink is attached from v.1 for v in T (NodeFlowST.st_ofST).  The caller-level cost / choice notions
   are those of NodeErrE2E.v; only the admissible paths change.  Generated from the section of NodeErrE2E.v by renaming (suffix ST). *)
From Coq Require Import List NArith ZArith QArith Qabs Lqa Bool Arith Lia Permutation.
Import ListNotations.
From FP Require Import Lin Blocks PathEnc Euler EulerProofs1 PathEncProofs PathEncComplete Aug AugProofs EndToEnd1 EndToEnd2
                       EndToEndCover Dilworth ErrEncIgnore DilworthNode NodeFlowE2E NodeFlowST NodeErrE2E
                       ErrEnc ErrEncProofs ErrEncComplete ErrEncKlae ErrEncOptimal ErrEncOptimal2.
Set Default Timeout 60.
Local Open Scope Q_scope.

Definition node_pathsST (V : list node) (E : list PathEnc.edge) (S T : list node) (k : nat) (Pn : N -> list node) : Prop :=
  forall i, In i (layers k) -> nwalk V E S T (Pn i).

Definition node_err_instST (V : list node) (E : list PathEnc.edge) (S T : list node) (s t : node) (fq sc : node -> Q) (ign : list node)
                           (isint : bool) (k : nat) : err_inst :=
  {| e_base := {| p_graph := st_ofST (expV V) (expE V E) (map x0 S) (map x1 T) s t; p_k := k; p_allow_empty := false;
                  p_cons := []; p_cov := 1%Q; p_len := None |};
     e_flow := map (fun v => (nedge v, fq v)) V;
     e_user_ignore := node_ignore E ign;
     e_scale := map (fun v => (nedge v, sc v)) V;
     e_int := isint; e_given := None; e_korig := k |}.
Definition node_kmpe_instST (V : list node) (E : list PathEnc.edge) (S T : list node) (s t : node) (fq sc : node -> Q) (ign : list node)
                            (isint : bool) (k : nat) : kmpe_inst :=
  {| m_err := node_err_instST V E S T s t fq sc ign isint k; m_len := None; m_pieces := [] |}.

Section NodeErrST.
  Variables (V : list node) (E : list PathEnc.edge) (S T : list node) (s t : node).
  Variable topo : list node.
  Variables fq sc : node -> Q.
  Variable ign : list node.
  Variable isint : bool.
  Variable k : nat.
  Hypothesis Hs : ~ In s (expV V).
  Hypothesis Ht : ~ In t (expV V).
  Hypothesis Hst : s <> t.
  Hypothesis HE : forall e, In e E -> In (fst e) V /\ In (snd e) V.
  Hypothesis NDV : NoDup V.
  Hypothesis NDE : NoDup E.
  Hypothesis Htopo : forall u v, In (u, v) E -> (posn topo u < posn topo v)%nat.
  Hypothesis HVtopo : incl V topo.

  Let V' := expV V.
  Let E' := expE V E.
  Let S' := map x0 S.
  Let T' := map x1 T.
  Let A' := aug_edges V' E' S' T' s t.
  Let HE' := expE_ends V E HE.
  Let I := node_err_instST V E S T s t fq sc ign isint k.
  Let rank' := st_rank s t (exp_topo topo).
  Let Hrank' : forall u v, In (u, v) A' -> (rank' u < rank' v)%nat :=
    st_rank_increasing_ST V' E' S' T' s t Hs Ht Hst HE' (exp_topo topo) (exp_topo_increasing V E topo HVtopo Htopo).

  (* ---- the tuple correspondence *)

  Lemma expP_st_pathsST Pn : node_pathsST V E S T k Pn -> st_paths (eG I) k (expP s t Pn).
  Proof.
    intros HP i Hi. specialize (HP i Hi). unfold expP. cbn [I node_err_instST eG e_base p_graph st_ofST g_src g_snk g_edges]. fold V' E' S' T' A'.
    pose proof (nwalk_in_aug V E S T s t Hs Ht Hst HE _ HP) as Hincl. destruct HP as (Hne & _).
    destruct (Pn i) as [|v p]; [contradiction|]. rewrite expand_cons in *.
    split; [reflexivity|]. split; [change (s :: (x0 v :: x1 v :: expand p) ++ [t]) with ((s :: x0 v :: x1 v :: expand p) ++ [t]); apply last_last|].
    split; [|exact Hincl].
    destruct (rank_walk_nodup A' rank' Hrank' ((x0 v :: x1 v :: expand p) ++ [t]) s Hincl) as [ND _]. exact ND.
  Qed.

  Lemma st_paths_contractST P : st_paths (eG I) k P ->
    node_pathsST V E S T k (conP P) /\ forall i, In i (layers k) -> P i = expP s t (conP P) i.
  Proof.
    intros HP.
    assert (H : forall i, In i (layers k) -> exists p, P i = s :: expand p ++ [t] /\ nwalk V E S T p).
    { intros i Hi. destruct (HP i Hi) as (Hh & Hl & _ & Hin).
      cbn [I node_err_instST eG e_base p_graph st_ofST g_src g_snk g_edges] in Hh, Hl, Hin. fold V' E' S' T' A' in Hin.
      destruct (P i) as [|a m] eqn:EP; [discriminate|]. cbn in Hh. injection Hh as ->.
      destruct m as [|b m']; [cbn in Hl; congruence|].
      destruct (exists_last (l := b :: m') ltac:(discriminate)) as (r & z & Er). rewrite Er in *.
      assert (z = t).
      { rewrite <- Hl. change (s :: r ++ [z]) with ((s :: r) ++ [z]). rewrite last_last. reflexivity. }
      subst z.
      destruct (walk_contracts V E S T s t Hs Ht Hst HE r Hin) as (p & -> & Hp). exists p. split; [reflexivity|exact Hp]. }
    split.
    - intros i Hi. destruct (H i Hi) as (p & EP & Hp). unfold conP. rewrite EP, strip_frame, unexp_expand. exact Hp.
    - intros i Hi. destruct (H i Hi) as (p & EP & Hp). unfold expP, conP. rewrite EP, strip_frame, unexp_expand. reflexivity.
  Qed.

  Lemma onq_expPST Pn i v : In v V -> Pn i <> [] -> onq (expP s t Pn) i (nedge v) = node_on Pn i v.
  Proof. intros Hv Hne. unfold onq, node_on, expP. rewrite (nedge_on_expanded_path V s t Hs Ht v (Pn i) Hv Hne). reflexivity. Qed.

  (* ---- the non-ignored edges of the expanded instance are the node edges of the counting nodes *)
  Lemma nedge_ignored_iffST v : In v V -> mem_edge (nedge v) (ign_all I) = negb (ngood ign sc v).
  Proof.
    intros Hv. unfold ign_all. cbn [I node_err_instST e_user_ignore e_scale]. rewrite !mem_edge_app.
    assert (HeE : In (nedge v) E') by (apply expE_in; left; exists v; auto).
    assert (M1 : mem_edge (nedge v) (node_ignore E ign) = memn v ign).
    { apply eq_true_iff_eq. rewrite memn_In. split.
      - intros M. destruct (in_dec N.eq_dec v ign) as [Hi|Hni]; [exact Hi|exfalso].
        assert (X : mem_edge (nedge v) (node_ignore E ign) = false) by (apply (node_ignore_spec V E ign (nedge v) HeE); exists v; auto). congruence.
      - intros Hi. destruct (mem_edge (nedge v) (node_ignore E ign)) eqn:M; [reflexivity|exfalso].
        destruct (proj1 (node_ignore_spec V E ign (nedge v) HeE) M) as (u & _ & Hni & Eq). injection Eq as Eq _. apply x0_inj in Eq. subst u. contradiction. }
    assert (M2 : mem_edge (nedge v) (st_edges (eG I)) = false).
    { match goal with |- ?x = false => destruct x eqn:M end; [exfalso|reflexivity]. apply mem_edge_In in M. unfold st_edges in M. apply filter_In in M.
      destruct M as [_ M]. cbn [eG I node_err_instST e_base p_graph st_ofST g_src g_snk nedge fst snd] in M.
      apply orb_true_iff in M. destruct M as [M|M]; apply N.eqb_eq in M.
      - apply Hs. rewrite <- M. apply expV_in. exists v. auto.
      - apply Ht. rewrite <- M. apply expV_in. exists v. auto. }
    assert (M3 : mem_edge (nedge v) (map fst (filter (fun es => Qeq_bool (snd es) 0) (map (fun v => (nedge v, sc v)) V))) = Qeq_bool (sc v) 0).
    { apply eq_true_iff_eq. rewrite mem_edge_In, in_map_iff. split.
      - intros ([e q] & Eq & Hin). cbn [fst] in Eq. subst e. apply filter_In in Hin. destruct Hin as [Hin Hq]. cbn [snd] in Hq.
        apply in_map_iff in Hin. destruct Hin as (u & Eq & _). injection Eq as Eq1 _ Eq2. apply x0_inj in Eq1. subst u q. exact Hq.
      - intros Hq. exists (nedge v, sc v). split; [reflexivity|]. apply filter_In. split; [|exact Hq].
        apply (in_map (fun v => (nedge v, sc v))). exact Hv. }
    rewrite M1, M2, M3. unfold ngood. destruct (memn v ign), (Qeq_bool (sc v) 0); reflexivity.
  Qed.

  Theorem basic_nedgesST : basic_edges I = map nedge (nodes_basic V ign sc).
  Proof.
    unfold basic_edges. cbn [eG I node_err_instST e_base p_graph st_ofST g_edges]. fold (node_err_instST V E S T s t fq sc ign isint k). fold I.
    unfold aug_edges. fold V' E'. unfold E', expE. rewrite !filter_app.
    set (f := fun e : PathEnc.edge => negb (mem_edge e (ign_all I))).
    assert (F1 : filter f (map nedge V) = map nedge (nodes_basic V ign sc)).
    { rewrite filter_map_comm. unfold nodes_basic. f_equal. apply filter_ext_in.
      intros v Hv. unfold f. rewrite (nedge_ignored_iffST v Hv). apply negb_involutive. }
    assert (F2 : filter f (map (fun e : node * node => (x1 (fst e), x0 (snd e))) E) = []).
    { apply filter_all_false. intros e He. unfold f. apply negb_false_iff. unfold ign_all. cbn [I node_err_instST e_user_ignore].
      rewrite mem_edge_app. apply orb_true_iff. left. apply mem_edge_In. unfold node_ignore. apply in_or_app. left. exact He. }
    rewrite F1, F2. rewrite filter_all_false; [rewrite !app_nil_r; reflexivity|].
    intros e He. unfold f. apply negb_false_iff. unfold ign_all. rewrite !mem_edge_app. apply orb_true_iff. right. apply orb_true_iff. left.
    apply mem_edge_In. unfold st_edges. apply filter_In.
    assert (HeA : In e A') by (unfold A', aug_edges; apply in_or_app; right; exact He).
    split; [exact HeA|]. cbn [eG I node_err_instST e_base p_graph st_ofST g_src g_snk].
    apply in_flat_map in He. destruct He as (u & _ & He). apply in_app_or in He. apply orb_true_iff. destruct He as [He|He].
    - match type of He with In _ (if ?c then _ else _) => destruct c end; [|destruct He]. destruct He as [<-|[]]. left. apply N.eqb_refl.
    - match type of He with In _ (if ?c then _ else _) => destruct c end; [|destruct He]. destruct He as [<-|[]]. right. apply N.eqb_refl.
  Qed.

  Lemma nodes_basic_inST v : In v (nodes_basic V ign sc) -> In v V.
  Proof. unfold nodes_basic. intros H. apply filter_In in H. tauto. Qed.
  Lemma flow_of_nedgeST v : In v V -> flow_of I (nedge v) = fq v.
  Proof. intros Hv. unfold flow_of. cbn [I node_err_instST e_flow]. apply lookup_nedge_q. exact Hv. Qed.
  Lemma scale_of_nedgeST v : In v V -> scale_of I (nedge v) = sc v.
  Proof. intros Hv. unfold scale_of. cbn [I node_err_instST e_scale]. apply lookup_nedge_q. exact Hv. Qed.

  (* what the expanded tuple puts on the node edge of v = what the caller's tuple puts on v *)
  Lemma explains_agreeST Pn w v : node_pathsST V E S T k Pn -> In v V ->
    sumq (fun i => w i * onq (expP s t Pn) i (nedge v)) (layers k) == node_explains k Pn w v.
  Proof.
    intros HP Hv. unfold node_explains. apply sumq_ext. intros i Hi. destruct (HP i Hi) as (Hne & _).
    rewrite (onq_expPST Pn i v Hv Hne). reflexivity.
  Qed.

  (* ---- kLeastAbsErrors: the costs agree *)
  Theorem klae_cost_agreeST Pn w : node_pathsST V E S T k Pn -> klae_cost I (expP s t Pn) w == node_klae_cost V fq sc ign k Pn w.
  Proof.
    intros HP. unfold klae_cost, node_klae_cost. rewrite basic_nedgesST, sumq_map. apply sumq_ext. intros v Hv.
    apply nodes_basic_inST in Hv. rewrite (scale_of_nedgeST v Hv). unfold klae_err. rewrite (flow_of_nedgeST v Hv).
    assert (Ek : eK I = k) by reflexivity. rewrite Ek. rewrite (explains_agreeST Pn w v HP Hv). reflexivity.
  Qed.

  Lemma klae_cost_extST P P' w : (forall i, In i (layers k) -> P i = P' i) -> klae_cost I P w == klae_cost I P' w.
  Proof.
    intros H. unfold klae_cost. apply sumq_ext. intros e _. unfold klae_err.
    assert (Ek : eK I = k) by reflexivity. rewrite Ek.
    assert (Es : sumq (fun i => w i * onq P i e) (layers k) == sumq (fun i => w i * onq P' i e) (layers k)).
    { apply sumq_ext. intros i Hi. unfold onq. rewrite (H i Hi). reflexivity. }
    rewrite Es. reflexivity.
  Qed.

  Lemma no_constraintsST P : constraints_covered (e_base I) P.
  Proof. intros n c Hn. cbn [I node_err_instST e_base p_cons] in Hn. destruct n; discriminate. Qed.

  Lemma wf_IST : wf_graph (eG I).
  Proof. exact (st_ofST_wf V' E' S' T' s t Hs Ht Hst HE' (expV_nodup V NDV) (expE_nodup V E NDV NDE)). Qed.

  (* the documented domain, in the caller's terms *)
  Definition node_domainST : Prop :=
    (forall v, In v (nodes_basic V ign sc) -> 0 <= fq v /\ 0 <= sc v /\ (isint = true -> is_int (fq v))) /\
    nodes_basic V ign sc <> [] /\ (1 <= k)%nat.

  Lemma klae_side_IST : node_domainST -> klae_side I.
  Proof.
    intros (Hd & Hne & Hk). split; [intros c e Hc; cbn [I node_err_instST e_base p_cons] in Hc; destruct Hc|]. split; [|split; [|exact Hk]].
    - intros e He. rewrite basic_nedgesST in He. apply in_map_iff in He. destruct He as (v & <- & Hv). pose proof (nodes_basic_inST v Hv) as HvV.
      rewrite (flow_of_nedgeST v HvV), (scale_of_nedgeST v HvV). exact (Hd v Hv).
    - rewrite basic_nedgesST. destruct (nodes_basic V ign sc); [contradiction|discriminate].
  Qed.

  (* C07 in node mode: an optimal satisfying assignment of the expanded instance's model has as objective the minimum, over all
     k source-to-sink paths of the CALLER's graph and non-negative weights of the requested type, of
     sum over the counting nodes of  sc v * | fq v - sum of the weights of the paths through v | *)
  Theorem node_klae_optimalST (a : var -> Q) : node_domainST ->
    sat a (encode_klae I) -> (forall b, sat b (encode_klae I) -> objective a (encode_klae I) <= objective b (encode_klae I)) ->
    (exists Pn w, node_pathsST V E S T k Pn /\ node_adm isint k w /\ node_klae_cost V fq sc ign k Pn w == objective a (encode_klae I)) /\
    (forall Pn w, node_pathsST V E S T k Pn -> node_adm isint k w -> objective a (encode_klae I) <= node_klae_cost V fq sc ign k Pn w).
  Proof.
    intros Hdom Hsat Hopt.
    destruct (klae_optimal I a rank' (Datatypes.S (Datatypes.S (length (exp_topo topo)))) eq_refl wf_IST eq_refl Hrank' (fun v => st_rank_le s t Hst (exp_topo topo) v)
                (klae_side_IST Hdom) Hsat Hopt) as [(P & w & HP & Hw & _ & Hcost) Hmin].
    split.
    - destruct (st_paths_contractST P HP) as [HPn Heq]. exists (conP P), w. split; [exact HPn|]. split; [exact Hw|].
      rewrite <- Hcost, <- (klae_cost_agreeST (conP P) w HPn). symmetry. apply klae_cost_extST. exact Heq.
    - intros Pn w2 HPn Hw2. rewrite <- (klae_cost_agreeST Pn w2 HPn).
      apply (Hmin (expP s t Pn) w2 (expP_st_pathsST Pn HPn) Hw2 (no_constraintsST _)).
  Qed.

  (* the model is satisfiable as soon as the caller's graph has k source-to-sink paths (zero weights, errors = the node weights) *)
  Lemma node_klae_satisfiableST Pn : node_domainST -> node_pathsST V E S T k Pn -> exists b, sat b (encode_klae I).
  Proof.
    intros Hdom HP.
    assert (Hadm : adm_weights I (fun _ => 0)) by (intros i _; split; [lra|intros _; exists 0%Z; reflexivity]).
    destruct (klae_clip I (expP s t Pn) (fun _ => 0) (klae_side_IST Hdom) (expP_st_pathsST Pn HP) Hadm (no_constraintsST _)) as [Hch _].
    destruct (klae_complete I (expP s t Pn) _ eq_refl wf_IST eq_refl
                (fun c e (Hc : In c (p_cons (e_base I))) => match Hc with end) Hch) as (b & Sb & _).
    exists b. exact Sb.
  Qed.

  (* ============================================================================ kMinPathError *)
  Let M : kmpe_inst := {| m_err := I; m_len := None; m_pieces := [] |}.

  (* a choice in the caller's terms: k paths of the graph, weights and per-path slacks of the requested type such that on every
     counting node the scaled error is at most the sum of the slacks of the paths through it *)
  Definition node_kmpe_choiceST (Pn : N -> list node) (w sl : N -> Q) : Prop :=
    node_pathsST V E S T k Pn /\
    (forall i, In i (layers k) -> 0 <= w i /\ (isint = true -> is_int (w i)) /\ 0 <= sl i /\ (isint = true -> is_int (sl i))) /\
    (forall v, In v (nodes_basic V ign sc) -> Qabs (sc v * (fq v - node_explains k Pn w v)) <= node_explains k Pn sl v).

  Definition node_domain1ST : Prop :=
    (forall v, In v (nodes_basic V ign sc) -> 0 <= fq v /\ 0 <= sc v <= 1 /\ (isint = true -> is_int (fq v))) /\
    nodes_basic V ign sc <> [] /\ (1 <= k)%nat.

  Lemma kmpe_side_MST : kmpe_side M.
  Proof.
    split; [intros c e Hc; cbn [M m_err I node_err_instST e_base p_cons] in Hc; destruct Hc|].
    intros e _. unfold plen. cbn [M m_len]. split; [lra|exists 1%Z; reflexivity].
  Qed.

  Lemma err_domain_IST : node_domain1ST -> err_domain I.
  Proof.
    intros (Hd & Hne & Hk). split; [|split; [|exact Hk]].
    - intros e He. rewrite basic_nedgesST in He. apply in_map_iff in He. destruct He as (v & <- & Hv). pose proof (nodes_basic_inST v Hv) as HvV.
      rewrite (flow_of_nedgeST v HvV), (scale_of_nedgeST v HvV). exact (Hd v Hv).
    - rewrite basic_nedgesST. destruct (nodes_basic V ign sc); [contradiction|discriminate].
  Qed.

  Lemma choice_expandsST Pn w sl : node_kmpe_choiceST Pn w sl -> kmpe_choice_unbounded M (expP s t Pn) w sl.
  Proof.
    intros (HP & Hw & Herr). split; [exact (expP_st_pathsST Pn HP)|]. split; [exact Hw|]. split; [|apply no_constraintsST].
    intros e He. cbn [M m_err] in *. rewrite basic_nedgesST in He. apply in_map_iff in He. destruct He as (v & <- & Hv).
    pose proof (nodes_basic_inST v Hv) as HvV. rewrite (flow_of_nedgeST v HvV), (scale_of_nedgeST v HvV).
    assert (Ek : eK I = k) by reflexivity. rewrite Ek.
    rewrite (explains_agreeST Pn w v HP HvV), (explains_agreeST Pn sl v HP HvV). exact (Herr v Hv).
  Qed.

  Lemma choice_contractsST P w sl : kmpe_choice_unbounded M P w sl -> node_kmpe_choiceST (conP P) w sl.
  Proof.
    intros (HP & Hw & Herr & _). cbn [M m_err] in *. destruct (st_paths_contractST P HP) as [HPn Heq].
    split; [exact HPn|]. split; [exact Hw|]. intros v Hv. pose proof (nodes_basic_inST v Hv) as HvV.
    assert (He : In (nedge v) (basic_edges I)) by (rewrite basic_nedgesST; apply in_map; exact Hv).
    specialize (Herr (nedge v) He). rewrite (flow_of_nedgeST v HvV), (scale_of_nedgeST v HvV) in Herr.
    assert (Ek : eK I = k) by reflexivity. rewrite Ek in Herr.
    assert (X : forall u : N -> Q, sumq (fun i => u i * onq P i (nedge v)) (layers k) == node_explains k (conP P) u v).
    { intros u. rewrite <- (explains_agreeST (conP P) u v HPn HvV). apply sumq_ext. intros i Hi. unfold onq. rewrite (Heq i Hi). reflexivity. }
    rewrite (X w), (X sl) in Herr. exact Herr.
  Qed.

  (* C08 in node mode: the optimal objective is the least total slack of any choice of k paths of the CALLER's graph, weights and slacks *)
  Theorem node_kmpe_optimalST (a : var -> Q) : node_domain1ST ->
    sat a (encode_kmpe M) -> (forall b, sat b (encode_kmpe M) -> objective a (encode_kmpe M) <= objective b (encode_kmpe M)) ->
    (exists Pn w sl, node_kmpe_choiceST Pn w sl /\ sumq sl (layers k) == objective a (encode_kmpe M)) /\
    (forall Pn w sl, node_kmpe_choiceST Pn w sl -> objective a (encode_kmpe M) <= sumq sl (layers k)).
  Proof.
    intros Hdom Hsat Hopt.
    destruct (kmpe_optimal_unbounded M a rank' (Datatypes.S (Datatypes.S (length (exp_topo topo)))) eq_refl eq_refl wf_IST eq_refl Hrank'
                (fun v => st_rank_le s t Hst (exp_topo topo) v) kmpe_side_MST (err_domain_IST Hdom) Hsat Hopt) as [(P & w & sl & Hch & Hsum) Hmin].
    split.
    - exists (conP P), w, sl. split; [exact (choice_contractsST P w sl Hch)|exact Hsum].
    - intros Pn w2 sl2 Hch2. exact (Hmin (expP s t Pn) w2 sl2 (choice_expandsST Pn w2 sl2 Hch2)).
  Qed.

  (* ---- feasibility of the kMinPathError model, with the model's bound on weights and slacks *)
  Lemma w_max_nodeST : w_max I = node_wmax V fq sc ign isint k.
  Proof.
    unfold w_max, node_wmax, max_flow. cbn [I node_err_instST e_given e_int]. fold (node_err_instST V E S T s t fq sc ign isint k). fold I.
    rewrite basic_nedgesST, map_map. rewrite (map_ext_in (fun x => flow_of I (nedge x)) fq); [reflexivity|].
    intros v Hv. apply flow_of_nedgeST. apply nodes_basic_inST. exact Hv.
  Qed.

  Definition node_kmpe_choice_boundedST (Pn : N -> list node) (w sl : N -> Q) : Prop :=
    node_kmpe_choiceST Pn w sl /\
    forall i, In i (layers k) -> w i <= node_wmax V fq sc ign isint k /\ sl i <= node_wmax V fq sc ign isint k.

  Theorem node_kmpe_feasible_iffST :
    (exists a, sat a (encode_kmpe M)) <-> (exists Pn w sl, node_kmpe_choice_boundedST Pn w sl).
  Proof.
    rewrite (kmpe_feasible_iff M rank' (Datatypes.S (Datatypes.S (length (exp_topo topo)))) eq_refl eq_refl wf_IST eq_refl Hrank'
               (fun v => st_rank_le s t Hst (exp_topo topo) v) kmpe_side_MST).
    split.
    - intros (P & w & sl & (HP & Hw & Herr & Hc)). exists (conP P), w, sl. split.
      + apply choice_contractsST. split; [exact HP|]. split; [|split; [exact Herr|exact Hc]].
        intros i Hi. destruct (Hw i Hi) as ([W0 _] & Wi & [S0 _] & Si). tauto.
      + intros i Hi. cbn [M m_err] in Hw. destruct (Hw i Hi) as ([_ W1] & _ & [_ S1] & _). rewrite <- w_max_nodeST. split; assumption.
    - intros (Pn & w & sl & Hch & Hb). exists (expP s t Pn), w, sl.
      destruct (choice_expandsST Pn w sl Hch) as (HP & Hw & Herr & Hc). split; [exact HP|]. split; [|split; [exact Herr|exact Hc]].
      intros i Hi. cbn [M m_err] in *. destruct (Hw i Hi) as (W0 & Wi & S0 & Si). destruct (Hb i Hi) as [W1 S1]. rewrite w_max_nodeST. tauto.
  Qed.
End NodeErrST.
(* ---- S = T = [] gives back the notions of NodeErrE2E.v *)
Lemma node_paths_nil_iff V E k Pn : node_pathsST V E [] [] k Pn <-> node_paths V E k Pn.
Proof. unfold node_pathsST, node_paths. split; intros H i Hi; apply nwalk_nil_iff; exact (H i Hi). Qed.
Lemma node_kmpe_choice_nil_iff V E fq sc ign isint k Pn w sl :
  node_kmpe_choiceST V E [] [] fq sc ign isint k Pn w sl <-> node_kmpe_choice V E fq sc ign isint k Pn w sl.
Proof. unfold node_kmpe_choiceST, node_kmpe_choice. rewrite node_paths_nil_iff. tauto. Qed.

(* ================================================================================================================= *)
(* non-vacuity: the path 1 -> 2 with node weights 3, 5 (scaling 1), k = 2.  Without additional starts both paths run 1-2, so the
   optimum of kLeastAbsErrors is 2 and that of kMinPathError 1; with node 2 as additional start the paths 1-2 (weight 3) and 2 (weight 2)
   explain both nodes exactly: both optima drop to 0. *)
Definition exPn2 (i : N) : list node := if (i =? 0)%N then [1; 2]%N else [2]%N.
Definition exw2 (i : N) : Q := if (i =? 0)%N then 3 else 2.

Lemma ex_cost2 Pn w : node_paths exV exE 2 Pn ->
  node_klae_cost exV exfq exsc [] 2 Pn w == Qabs (3 - (w 0%N + w 1%N)) + Qabs (5 - (w 0%N + w 1%N)).
Proof.
  intros HP. destruct (ex_route _ (HP 0%N ltac:(cbn; tauto))) as [M1 M2]. destruct (ex_route _ (HP 1%N ltac:(cbn; tauto))) as [M3 M4].
  assert (NB : nodes_basic exV [] exsc = [1; 2]%N) by reflexivity.
  unfold node_klae_cost, node_explains, node_on. rewrite NB. cbn [exsc layers seq map sumq exfq N.eqb Pos.eqb].
  change (N.of_nat 0) with 0%N. change (N.of_nat 1) with 1%N. rewrite M1, M2, M3, M4. cbn [indq]. unfold exsc.
  assert (E1 : 3 - (w 0%N * 1 + (w 1%N * 1 + 0)) == 3 - (w 0%N + w 1%N)) by ring.
  assert (E2 : 5 - (w 0%N * 1 + (w 1%N * 1 + 0)) == 5 - (w 0%N + w 1%N)) by ring. rewrite E1, E2. ring.
Qed.

Lemma ex_st_premises :
  node_domain1 exV exfq exsc [] false 2 /\ node_domain exV exfq exsc [] false 2 /\
  (* without additional starts *)
  (forall Pn w, node_pathsST exV exE [] [] 2 Pn -> 2 <= node_klae_cost exV exfq exsc [] 2 Pn w) /\
  (forall Pn w sl, node_kmpe_choiceST exV exE [] [] exfq exsc [] false 2 Pn w sl -> 1 <= sumq sl (layers 2)) /\
  (* with node 2 as additional start *)
  node_pathsST exV exE [2%N] [] 2 exPn2 /\ node_adm false 2 exw2 /\
  node_klae_cost exV exfq exsc [] 2 exPn2 exw2 == 0 /\
  node_kmpe_choiceST exV exE [2%N] [] exfq exsc [] false 2 exPn2 exw2 (fun _ => 0) /\ sumq (fun _ : N => 0) (layers 2) == 0.
Proof.
  assert (HP2 : node_pathsST exV exE [2%N] [] 2 exPn2).
  { intros i Hi. cbn in Hi. destruct Hi as [<-|[<-|[]]]; unfold exPn2; cbn [N.eqb Pos.eqb N.of_nat]; unfold nwalk;
      (split; [discriminate|]); (split; [intros x Hx; cbn in Hx |- *; tauto|]); (split; [intros e He; cbn in He |- *; tauto|]); split; reflexivity. }
  assert (Hdom1 : node_domain1 exV exfq exsc [] false 2).
  { split; [|split; [cbn; discriminate|lia]]. intros v Hv. cbn in Hv. unfold exsc.
    destruct Hv as [<-|[<-|[]]]; cbn; (split; [lra|split; [lra|discriminate]]). }
  assert (NB : nodes_basic exV [] exsc = [1; 2]%N) by reflexivity.
  split; [exact Hdom1|].
  split; [destruct Hdom1 as (H1 & H2 & H3); split; [intros v Hv; destruct (H1 v Hv) as (A & [B _] & C); auto|split; assumption]|].
  split.
  { intros Pn w HP. apply node_paths_nil_iff in HP. rewrite (ex_cost2 Pn w HP).
    pose proof (Qle_Qabs (5 - (w 0%N + w 1%N))) as A. pose proof (Qle_Qabs (- (3 - (w 0%N + w 1%N)))) as B. rewrite Qabs_opp in B. lra. }
  split.
  { intros Pn w sl Hch. apply node_kmpe_choice_nil_iff in Hch. destruct Hch as (HP & _ & Herr).
    destruct (ex_route _ (HP 0%N ltac:(cbn; tauto))) as [M1 M2]. destruct (ex_route _ (HP 1%N ltac:(cbn; tauto))) as [M3 M4].
    pose proof (Herr 1%N ltac:(rewrite NB; cbn; tauto)) as H1. pose proof (Herr 2%N ltac:(rewrite NB; cbn; tauto)) as H2.
    unfold node_explains, node_on in H1, H2. cbn [layers seq map sumq] in *. change (N.of_nat 0) with 0%N in *. change (N.of_nat 1) with 1%N in *.
    rewrite M1, M3 in H1. rewrite M2, M4 in H2. cbn [indq exfq exsc N.eqb Pos.eqb] in H1, H2. unfold exsc in H1, H2.
    apply Qabs_Qle_condition in H1, H2. lra. }
  split; [exact HP2|].
  split; [intros i _; unfold exw2; destruct (i =? 0)%N; (split; [lra|discriminate])|].
  assert (Hzero : forall v, In v [1; 2]%N -> exfq v - node_explains 2 exPn2 exw2 v == 0).
  { intros v Hv. unfold node_explains, node_on, exPn2, exw2. cbn [layers seq map sumq]. change (N.of_nat 0) with 0%N. change (N.of_nat 1) with 1%N.
    cbn [N.eqb Pos.eqb]. cbn in Hv. destruct Hv as [<-|[<-|[]]]; cbn; ring. }
  split.
  { unfold node_klae_cost. rewrite NB. cbn [sumq]. rewrite (Hzero 1%N ltac:(cbn; tauto)), (Hzero 2%N ltac:(cbn; tauto)). unfold exsc. cbn. reflexivity. }
  split; [|cbn; reflexivity].
  split; [exact HP2|]. split.
  - intros i _. unfold exw2. destruct (i =? 0)%N; (split; [lra|split; [discriminate|split; [lra|discriminate]]]).
  - intros v Hv. rewrite NB in Hv. rewrite (Hzero v Hv).
    assert (Z0 : node_explains 2 exPn2 (fun _ => 0) v == 0) by (unfold node_explains; cbn [layers seq map sumq]; ring).
    rewrite Z0. unfold exsc. cbn. discriminate.
Qed.

Lemma ex_c07_st :
  node_domain exV exfq exsc [] false 2 /\
  (forall Pn w, node_pathsST exV exE [] [] 2 Pn -> 2 <= node_klae_cost exV exfq exsc [] 2 Pn w) /\
  node_pathsST exV exE [2%N] [] 2 exPn2 /\ node_adm false 2 exw2 /\ node_klae_cost exV exfq exsc [] 2 exPn2 exw2 == 0.
Proof. destruct ex_st_premises as (_ & H2 & H3 & _ & H5 & H6 & H7 & _). exact (conj H2 (conj H3 (conj H5 (conj H6 H7)))). Qed.
Lemma ex_c08_st :
  node_domain1 exV exfq exsc [] false 2 /\
  (forall Pn w sl, node_kmpe_choiceST exV exE [] [] exfq exsc [] false 2 Pn w sl -> 1 <= sumq sl (layers 2)) /\
  node_kmpe_choiceST exV exE [2%N] [] exfq exsc [] false 2 exPn2 exw2 (fun _ => 0) /\ sumq (fun _ : N => 0) (layers 2) == 0.
Proof. destruct ex_st_premises as (H1 & _ & _ & H4 & _ & _ & _ & H8 & H9). exact (conj H1 (conj H4 (conj H8 H9))). Qed.
