(* Dilworth for NODE covers, derived from the edge theorems on the node-expanded graph (every node v becomes the edge
   v.0 -> v.1, every edge u -> v the connecting edge u.1 -> v.0; node mode of MinPathCover / kPathCover solves the edge cover of
   this graph with the connecting edges -- and the node edges of ignored nodes -- in the ignore list).  Here v.0 = 2v, v.1 = 2v+1.
   The string-named expansion of NodeExp.v has exactly this shape (NodeExpProofs.ne_xrel); the transfer is [expE_is_xrel]. *)
From Coq Require Import List NArith ZArith QArith Bool Arith Lia Permutation.
Import ListNotations.
From FP Require Import Lin PathEnc Euler EulerProofs1 PathEncProofs PathEncComplete PathCoverComplete Aug AugProofs
                       EndToEnd1 EndToEnd2 EndToEndCover CoverOracle Search Dilworth ErrEncIgnore.
From FP Require DagDecode.
From FP Require WalkWidth.
Set Default Timeout 60.
Local Close Scope Q_scope.
Local Open Scope nat_scope.

(* ================================================================================================================= *)
(* the edge theorem at the caller's level with an arbitrary ignore list, in terms of routes of the caller's graph *)
Section Routes.
  Variables (V : list node) (E : list PathEnc.edge) (s t : node).
  Variable topo : list node.
  Hypothesis Hs : ~ In s V.
  Hypothesis Ht : ~ In t V.
  Hypothesis Hst : s <> t.
  Hypothesis HE : forall e, In e E -> In (fst e) V /\ In (snd e) V.
  Hypothesis NDV : NoDup V.
  Hypothesis NDE : NoDup E.
  Hypothesis Htopo : forall u v, In (u, v) E -> posn topo u < posn topo v.

  (* a route: non-empty, inside V, along edges, from a node without incoming edge to a node without outgoing edge *)
  Definition route (r : list node) : Prop :=
    r <> [] /\ (forall v, In v r -> In v V) /\ incl (pairs r) E /\
    is_start E [] (hd s r) = true /\ is_end E [] (last r s) = true.

  Theorem dag_routes_dilworth (ign : list PathEnc.edge) :
    exists (W : list (list node)) (A' : list PathEnc.edge),
      (forall r, In r W -> route r) /\
      (forall e, In e E -> mem_edge e ign = false -> exists r, In r W /\ In e (pairs r)) /\
      NoDup A' /\ (forall e, In e A' -> In e E /\ mem_edge e ign = false) /\ incompatible_in E A' /\ length A' = length W /\
      (exists P, path_cover (cover_inst V E s t (length W)) (synth V E s t ++ ign) P) /\
      (forall k' P', path_cover (cover_inst V E s t k') (synth V E s t ++ ign) P' -> length W <= k').
  Proof.
    set (Au := aug_edges V E [] [] s t).
    destruct (min_path_cover_equals_width_st (cover_inst V E s t 0) (synth V E s t ++ ign) (st_rank s t topo) (S (S (length topo))))
      as (k & P & A' & [HP Hcov] & NDA & HA & Hinc & Hlen).
    - exact (aug_nodup V E s t Hs Ht Hst HE NDV NDE).
    - exact (st_rank_increasing V E s t Hs Ht Hst HE topo Htopo).
    - intros v. apply st_rank_le. exact Hst.
    - exact (st_tail_has_in V E s t Hs Hst HE).
    - exact (st_head_has_out V E s t Ht Hst HE).
    - cbn [set_k cover_inst p_graph p_k st_of g_edges g_src g_snk] in *. fold Au in HP, Hcov, HA, Hinc.
      assert (Hsplit : forall e, mem_edge e (synth V E s t ++ ign) = false <-> mem_edge e (synth V E s t) = false /\ mem_edge e ign = false).
      { intros e. rewrite mem_edge_app. apply orb_false_iff. }
      destruct (choice_list (fun i r => P i = s :: r ++ [t] /\ route r) (layers k)) as (W & HF).
      { intros i Hi. destruct (HP i Hi) as (Hh & Hl & _ & Hin). destruct (P i) as [|a m] eqn:EP; [discriminate|]. cbn in Hh. injection Hh as ->.
        destruct m as [|b m']; [cbn in Hl; congruence|].
        destruct (exists_last (l := b :: m') ltac:(discriminate)) as (r & z & Er). rewrite Er in *.
        assert (z = t).
        { rewrite <- Hl. change (s :: r ++ [z]) with ((s :: r) ++ [z]). rewrite last_last. reflexivity. }
        subst z. exists r. split; [reflexivity|]. exact (aug_route_valid V E [] [] s t Hs Ht Hst HE r Hin). }
      assert (HlenW : length W = k) by (rewrite <- (Forall2_len _ _ _ HF); unfold layers; rewrite map_length, seq_length; reflexivity).
      exists W, A'. split; [|split; [|split; [|split; [|split; [|split; [|split]]]]]].
      + intros r Hr. destruct (Forall2_in_r _ _ _ r HF Hr) as (i & _ & _ & H). exact H.
      + intros e He Hig. destruct (proj2 (nonignored_iff V E s t Hs Ht HE e) He) as [HeA Hsy].
        destruct (Hcov e HeA (proj2 (Hsplit e) (conj Hsy Hig))) as (i & Hi & M). apply mem_edge_In in M.
        destruct (Forall2_in_l _ _ _ i HF Hi) as (r & Hr & EP & (Hne & _)). exists r. split; [exact Hr|].
        rewrite EP in M. destruct r as [|v0 r0]; [contradiction|]. rewrite pairs_st in M.
        destruct (HE e He) as [H1 H2]. destruct M as [<-|M]; [cbn in H1; contradiction|]. apply in_app_or in M.
        destruct M as [M|[<-|[]]]; [exact M|cbn in H2; contradiction].
      + exact NDA.
      + intros e He. destruct (HA e He) as [HeA Hig]. apply Hsplit in Hig. destruct Hig as [Hsy Hig].
        split; [apply (nonignored_iff V E s t Hs Ht HE e); split; assumption|exact Hig].
      + intros e1 e2 l H1 H2 Hne ND Hl I1 I2. apply (Hinc e1 e2 l H1 H2 Hne ND); [|exact I1|exact I2].
        intros e He. apply (aug_in V E [] [] s t). left. apply Hl. exact He.
      + rewrite Hlen, HlenW. reflexivity.
      + rewrite HlenW. exists P. split; assumption.
      + intros k' P' HP'. rewrite HlenW, <- Hlen.
        exact (cover_needs_width_many_paths (cover_inst V E s t k') (synth V E s t ++ ign) A' P' NDA Hinc HA HP').
  Qed.
End Routes.

(* ================================================================================================================= *)
(* the node expansion over N *)
Definition x0 (v : node) : node := (2 * v)%N.
Definition x1 (v : node) : node := (2 * v + 1)%N.
Definition nedge (v : node) : PathEnc.edge := (x0 v, x1 v).
Definition expV (V : list node) : list node := flat_map (fun v => [x0 v; x1 v]) V.
Definition expE (V : list node) (E : list PathEnc.edge) : list PathEnc.edge :=
  map nedge V ++ map (fun e => (x1 (fst e), x0 (snd e))) E.
Definition expand (p : list node) : list node := flat_map (fun v => [x0 v; x1 v]) p.

Lemma x0_inj u v : x0 u = x0 v -> u = v.
Proof. unfold x0. lia. Qed.
Lemma x1_inj u v : x1 u = x1 v -> u = v.
Proof. unfold x1. lia. Qed.
Lemma x0_x1 u v : x0 u <> x1 v.
Proof. unfold x0, x1. lia. Qed.

Lemma expE_in V E a b : In (a, b) (expE V E) <->
  (exists v, In v V /\ a = x0 v /\ b = x1 v) \/ (exists u v, In (u, v) E /\ a = x1 u /\ b = x0 v).
Proof.
  unfold expE. rewrite in_app_iff, !in_map_iff. split.
  - intros [(v & Eq & Hv)|([u v] & Eq & He)]; injection Eq as <- <-; [left; exists v; auto|right; exists u, v; auto].
  - intros [(v & Hv & -> & ->)|(u & v & He & -> & ->)]; [left; exists v; auto|right; exists (u, v); auto].
Qed.
Lemma expV_in V a : In a (expV V) <-> exists v, In v V /\ (a = x0 v \/ a = x1 v).
Proof.
  unfold expV. rewrite in_flat_map. split.
  - intros (v & Hv & [<-|[<-|[]]]); exists v; auto.
  - intros (v & Hv & [-> | ->]); exists v; (split; [exact Hv|]); [left|right; left]; reflexivity.
Qed.
Lemma expV_nodup V : NoDup V -> NoDup (expV V).
Proof.
  induction 1 as [|v V Hv ND IH]; [constructor|]. cbn [expV flat_map app]. constructor; [|constructor; [|exact IH]].
  - intros [H|H]; [exact (x0_x1 v v (eq_sym H))|]. apply (expV_in V) in H. destruct H as (u & Hu & [H|H]); [apply x0_inj in H; subst; auto|exact (x0_x1 _ _ H)].
  - intros H. apply (expV_in V) in H. destruct H as (u & Hu & [H|H]); [exact (x0_x1 _ _ (eq_sym H))|apply x1_inj in H; subst; auto].
Qed.
Lemma expE_nodup V E : NoDup V -> NoDup E -> NoDup (expE V E).
Proof.
  intros NV NE. unfold expE. apply DagDecode.NoDup_app_intro.
  - apply FinFun.Injective_map_NoDup; [|exact NV]. intros u v H. injection H as H _. exact (x0_inj _ _ H).
  - apply FinFun.Injective_map_NoDup; [|exact NE]. intros [a b] [c d] H. cbn in H. injection H as H1 H2. apply x1_inj in H1. apply x0_inj in H2. congruence.
  - intros e H1 H2. apply in_map_iff in H1, H2. destruct H1 as (v & <- & _). destruct H2 as (e' & Eq & _). injection Eq as Eq _.
    exact (x0_x1 _ _ (eq_sym Eq)).
Qed.
Lemma expE_ends V E : (forall e, In e E -> In (fst e) V /\ In (snd e) V) ->
  forall e, In e (expE V E) -> In (fst e) (expV V) /\ In (snd e) (expV V).
Proof.
  intros HE [a b] He. apply expE_in in He. cbn [fst snd]. destruct He as [(v & Hv & -> & ->)|(u & v & Huv & -> & ->)].
  - split; apply expV_in; exists v; auto.
  - destruct (HE _ Huv) as [Hu Hv]. cbn in Hu, Hv. split; apply expV_in; [exists u|exists v]; auto.
Qed.

Lemma expand_cons v p : expand (v :: p) = x0 v :: x1 v :: expand p.
Proof. reflexivity. Qed.
Lemma pairs_expand_cons2 v w r : pairs (expand (v :: w :: r)) = nedge v :: (x1 v, x0 w) :: pairs (expand (w :: r)).
Proof. rewrite !expand_cons. reflexivity. Qed.
Lemma expand_walk V E : forall p, incl p V -> incl (pairs p) E -> incl (pairs (expand p)) (expE V E).
Proof.
  induction p as [|v p IH]; intros HV Hw; [intros e []|]. destruct p as [|w r].
  - cbn. intros e [<-|[]]. apply expE_in. left. exists v. split; [apply HV; left; reflexivity|auto].
  - rewrite pairs_expand_cons2. rewrite pairs_cons2 in Hw. intros e [<-|[<-|He]].
    + apply expE_in. left. exists v. split; [apply HV; left; reflexivity|auto].
    + apply expE_in. right. exists v, w. split; [apply Hw; left; reflexivity|auto].
    + apply IH; [intros z Hz; apply HV; right; exact Hz|intros z Hz; apply Hw; right; exact Hz|exact He].
Qed.
Lemma in_expand a : forall p, In a (expand p) <-> exists v, In v p /\ (a = x0 v \/ a = x1 v).
Proof. intros p. apply (expV_in p a). Qed.
Lemma nedge_in_expand v : forall p, In (nedge v) (pairs (expand p)) <-> In v p.
Proof.
  induction p as [|u p IH]; [cbn; tauto|]. destruct p as [|w r].
  - cbn. split; [intros [H|[]]; injection H as H _; left; symmetry; exact (x0_inj _ _ (eq_sym H))|intros [-> |[]]; left; reflexivity].
  - rewrite pairs_expand_cons2. cbn [In]. rewrite IH. unfold nedge. split.
    + intros [H|[H|H]]; [injection H as H _; left; exact (x0_inj _ _ H)|injection H as H _; exfalso; exact (x0_x1 _ _ (eq_sym H))|right; exact H].
    + intros [->|H]; [left; reflexivity|right; right; exact H].
Qed.
Lemma expand_nodup p : NoDup p -> NoDup (expand p).
Proof. apply expV_nodup. Qed.
Lemma expand_last p d : p <> [] -> last (expand p) d = x1 (last p 0%N).
Proof.
  induction p as [|v p IH]; intros H; [contradiction|]. destruct p as [|w r]; [reflexivity|].
  rewrite expand_cons. change (last (x0 v :: x1 v :: expand (w :: r)) d) with (last (expand (w :: r)) d).
  rewrite IH by discriminate. reflexivity.
Qed.

(* a walk of the expansion from some v.0 to some w.1 is the expansion of a walk of the graph *)
Lemma contract V E : forall n q v, length q <= n -> incl (pairs (x0 v :: q)) (expE V E) ->
  (exists w, last (x0 v :: q) 0%N = x1 w) ->
  exists p, x0 v :: q = expand (v :: p) /\ incl (pairs (v :: p)) E /\ incl (v :: p) V.
Proof.
  induction n as [|n IH]; intros q v Hlen Hw (w & Hl).
  - destruct q; [|cbn in Hlen; lia]. cbn in Hl. exfalso. exact (x0_x1 _ _ Hl).
  - destruct q as [|b q]; [cbn in Hl; exfalso; exact (x0_x1 _ _ Hl)|]. rewrite pairs_cons2 in Hw.
    assert (Hb : In (x0 v, b) (expE V E)) by (apply Hw; left; reflexivity). apply expE_in in Hb.
    destruct Hb as [(v' & Hv' & E1 & ->)|(u & v' & _ & E1 & _)]; [|exfalso; exact (x0_x1 _ _ E1)].
    apply x0_inj in E1. subst v'. destruct q as [|c q].
    + exists []. split; [reflexivity|]. split; [intros e []|intros z [<-|[]]; exact Hv'].
    + assert (Hw' : incl (pairs (x1 v :: c :: q)) (expE V E)) by (intros e He; apply Hw; right; exact He).
      rewrite pairs_cons2 in Hw'. assert (Hc : In (x1 v, c) (expE V E)) by (apply Hw'; left; reflexivity). apply expE_in in Hc.
      destruct Hc as [(u & _ & E2 & _)|(u & v2 & Huv & E2 & ->)]; [exfalso; exact (x0_x1 _ _ (eq_sym E2))|].
      apply x1_inj in E2. subst u.
      destruct (IH q v2) as (p & Ep & Hp & HpV).
      * cbn in Hlen. lia.
      * intros e He. apply Hw'. right. exact He.
      * exists w. rewrite <- Hl. rewrite !last_cons_default. cbn [last]. destruct q; [reflexivity|]. rewrite !last_cons_default. reflexivity.
      * exists (v2 :: p). split; [rewrite expand_cons, <- Ep; reflexivity|]. split.
        -- rewrite pairs_cons2. intros e [<-|He]; [exact Huv|apply Hp; exact He].
        -- intros z [<-|Hz]; [exact Hv'|apply HpV; exact Hz].
Qed.

(* the topological order of the expansion from one of the graph *)
Definition exp_topo (topo : list node) : list node := expand topo.
Lemma posn_expand topo v : posn (exp_topo topo) (x0 v) = 2 * posn topo v /\
  (In v topo -> posn (exp_topo topo) (x1 v) = 2 * posn topo v + 1).
Proof.
  induction topo as [|u topo IH]; [split; [reflexivity|intros []]|]. unfold exp_topo in *. rewrite expand_cons. cbn [posn].
  destruct (N.eqb_spec u v) as [->|Hne].
  - rewrite N.eqb_refl. split; [reflexivity|]. intros _. destruct (N.eqb_spec (x0 v) (x1 v)) as [H|_]; [exfalso; exact (x0_x1 _ _ H)|].
    rewrite N.eqb_refl. reflexivity.
  - destruct (N.eqb_spec (x0 u) (x0 v)) as [H|_]; [apply x0_inj in H; contradiction|].
    destruct (N.eqb_spec (x1 u) (x0 v)) as [H|_]; [exfalso; exact (x0_x1 _ _ (eq_sym H))|].
    destruct (N.eqb_spec (x0 u) (x1 v)) as [H|_]; [exfalso; exact (x0_x1 _ _ H)|].
    destruct (N.eqb_spec (x1 u) (x1 v)) as [H|_]; [apply x1_inj in H; contradiction|].
    destruct IH as [I1 I2]. split; [rewrite I1; lia|]. intros [H|H]; [contradiction|]. rewrite (I2 H). lia.
Qed.
Lemma posn_lt_in topo v : posn topo v < length topo -> In v topo.
Proof.
  induction topo as [|u topo IH]; cbn [posn length]; [lia|]. destruct (N.eqb_spec u v) as [->|Hne]; [intros _; left; reflexivity|].
  intros H. right. apply IH. lia.
Qed.
Lemma exp_topo_increasing V E topo : incl V topo -> (forall u v, In (u, v) E -> posn topo u < posn topo v) ->
  forall a b, In (a, b) (expE V E) -> posn (exp_topo topo) a < posn (exp_topo topo) b.
Proof.
  intros HV Ht a b Hab. apply expE_in in Hab. destruct Hab as [(v & Hv & -> & ->)|(u & v & Huv & -> & ->)].
  - destruct (posn_expand topo v) as [P0 P1]. rewrite P0, (P1 (HV v Hv)). lia.
  - pose proof (Ht u v Huv) as Hlt. pose proof (posn_le' topo v) as Hle.
    destruct (posn_expand topo u) as [_ P1]. destruct (posn_expand topo v) as [P0 _].
    rewrite P0, (P1 (posn_lt_in topo u ltac:(lia))). lia.
Qed.

(* ================================================================================================================= *)
(* Dilworth for node covers of a DAG *)
From FP Require SafeFix.
Section NodeDilworth.
  Variables (V : list node) (E : list PathEnc.edge) (s t : node).
  Variable topo : list node.
  Variable ign : list node.                       (* nodes that need not be covered *)
  Hypothesis Hs : ~ In s (expV V).                (* s, t: the source and sink added to the expansion *)
  Hypothesis Ht : ~ In t (expV V).
  Hypothesis Hst : s <> t.
  Hypothesis HE : forall e, In e E -> In (fst e) V /\ In (snd e) V.
  Hypothesis NDV : NoDup V.
  Hypothesis NDE : NoDup E.
  Hypothesis Htopo : forall u v, In (u, v) E -> posn topo u < posn topo v.
  Hypothesis HVtopo : incl V topo.

  (* a source-to-sink path of the graph (a single node without edges counts) *)
  Definition nroute (p : list node) : Prop :=
    p <> [] /\ incl p V /\ incl (pairs p) E /\ (forall u, ~ In (u, hd 0%N p) E) /\ (forall w, ~ In (last p 0%N, w) E).
  (* no path of the graph visits two different nodes of A *)
  Definition node_incompatible (A : list node) : Prop :=
    forall u v l, In u A -> In v A -> u <> v -> incl l V -> incl (pairs l) E -> In u l -> In v l -> False.
  (* the ignore list node mode hands to the edge model: the connecting edges and the node edges of the ignored nodes *)
  Definition node_ignore : list PathEnc.edge := map (fun e => (x1 (fst e), x0 (snd e))) E ++ map nedge ign.

  Lemma node_ignore_spec e : In e (expE V E) -> (mem_edge e node_ignore = false <-> exists v, In v V /\ ~ In v ign /\ e = nedge v).
  Proof.
    intros He. destruct e as [a b]. apply expE_in in He. split.
    - intros Hig. destruct He as [(v & Hv & -> & ->)|(u & v & Huv & -> & ->)].
      + exists v. split; [exact Hv|]. split; [|reflexivity]. intros Hi. assert (M : mem_edge (x0 v, x1 v) node_ignore = true).
        { apply mem_edge_In. apply in_or_app. right. apply (in_map nedge). exact Hi. } congruence.
      + assert (M : mem_edge (x1 u, x0 v) node_ignore = true).
        { apply mem_edge_In. apply in_or_app. left. apply (in_map (fun e => (x1 (fst e), x0 (snd e))) E (u, v)). exact Huv. } congruence.
    - intros (v & Hv & Hni & Eq). destruct (mem_edge (a, b) node_ignore) eqn:M; [exfalso|reflexivity]. apply mem_edge_In in M.
      apply in_app_or in M. rewrite Eq in M. destruct M as [M|M]; apply in_map_iff in M.
      + destruct M as (e' & Eq' & _). injection Eq' as Eq' _. exact (x0_x1 _ _ (eq_sym Eq')).
      + destruct M as (u & Eq' & Hu). injection Eq' as Eq' _. apply x0_inj in Eq'. subst u. exact (Hni Hu).
  Qed.

  Lemma route_contracts r : route (expV V) (expE V E) s r ->
    exists p, r = expand p /\ nroute p.
  Proof.
    intros (Hne & HrV & Hw & Hstart & Hend). destruct r as [|a q]; [contradiction|]. cbn [hd] in Hstart.
    assert (Ha : In a (expV V)) by (apply HrV; left; reflexivity). apply expV_in in Ha. destruct Ha as (v & Hv & [-> | ->]).
    2:{ exfalso. unfold is_start, indeg0 in Hstart. cbn [memn existsb] in Hstart. rewrite orb_false_r in Hstart. apply negb_true_iff in Hstart.
        assert (X : existsb (fun e => (snd e =? x1 v)%N) (expE V E) = true).
        { apply existsb_exists. exists (nedge v). split; [apply expE_in; left; exists v; auto|apply N.eqb_refl]. } congruence. }
    assert (Hl : exists w, last (x0 v :: q) 0%N = x1 w).
    { assert (Hb : In (last (x0 v :: q) s) (expV V)).
      { apply HrV. destruct (exists_last (l := x0 v :: q) ltac:(discriminate)) as (l' & z & Eq). rewrite Eq, last_last. apply in_or_app. right. left. reflexivity. }
      apply expV_in in Hb. destruct Hb as (w & Hw0 & [Eq|Eq]).
      - exfalso. unfold is_end, outdeg0 in Hend. cbn [memn existsb] in Hend. rewrite orb_false_r in Hend. apply negb_true_iff in Hend. rewrite Eq in Hend.
        assert (X : existsb (fun e => (fst e =? x0 w)%N) (expE V E) = true).
        { apply existsb_exists. exists (nedge w). split; [apply expE_in; left; exists w; auto|apply N.eqb_refl]. } congruence.
      - exists w. rewrite <- Eq. rewrite !last_cons_default. reflexivity. }
    destruct (contract V E (length q) q v (le_n _) Hw Hl) as (p & Ep & Hp & HpV).
    exists (v :: p). split; [exact Ep|]. split; [discriminate|]. split; [exact HpV|]. split; [exact Hp|]. split.
    - cbn [hd]. intros u Hu. unfold is_start, indeg0 in Hstart. cbn [memn existsb] in Hstart. rewrite orb_false_r in Hstart. apply negb_true_iff in Hstart.
      assert (X : existsb (fun e => (snd e =? x0 v)%N) (expE V E) = true).
      { apply existsb_exists. exists (x1 u, x0 v). split; [apply expE_in; right; exists u, v; auto|apply N.eqb_refl]. } congruence.
    - intros w Hw0. unfold is_end, outdeg0 in Hend. cbn [memn existsb] in Hend. rewrite orb_false_r in Hend. apply negb_true_iff in Hend.
      rewrite Ep in Hend. rewrite (last_default_irrel (expand (v :: p)) s 0%N) in Hend by discriminate.
      rewrite (expand_last (v :: p) 0%N) in Hend by discriminate.
      assert (X : existsb (fun e => (fst e =? x1 (last (v :: p) 0%N))%N) (expE V E) = true).
      { apply existsb_exists. exists (x1 (last (v :: p) 0%N), x0 w). split; [apply expE_in; right; eexists _, w; eauto|apply N.eqb_refl]. } congruence.
  Qed.

  Theorem min_node_path_cover_equals_node_width :
    exists (W : list (list node)) (A : list node),
      (forall p, In p W -> nroute p) /\ (forall v, In v V -> ~ In v ign -> exists p, In p W /\ In v p) /\
      NoDup A /\ (forall v, In v A -> In v V /\ ~ In v ign) /\ node_incompatible A /\ length A = length W /\
      (* the same number on the side of the edge model of the expansion *)
      (exists P, path_cover (cover_inst (expV V) (expE V E) s t (length W)) (synth (expV V) (expE V E) s t ++ node_ignore) P) /\
      (forall k' P', path_cover (cover_inst (expV V) (expE V E) s t k') (synth (expV V) (expE V E) s t ++ node_ignore) P' -> length W <= k').
  Proof.
    destruct (dag_routes_dilworth (expV V) (expE V E) s t (exp_topo topo) Hs Ht Hst (expE_ends V E HE) (expV_nodup V NDV)
                (expE_nodup V E NDV NDE) (exp_topo_increasing V E topo HVtopo Htopo) node_ignore)
      as (W' & A' & HW' & Hcov' & NDA' & HA' & Hinc' & Hlen' & HP' & Hmin').
    destruct (choice_list (fun r p => r = expand p /\ nroute p) W') as (W & HF).
    { intros r Hr. exact (route_contracts r (HW' r Hr)). }
    assert (HAn : forall e, In e A' -> exists v, In v V /\ ~ In v ign /\ e = nedge v).
    { intros e He. destruct (HA' e He) as [H1 H2]. exact (proj1 (node_ignore_spec e H1) H2). }
    set (nd := fun e : PathEnc.edge => N.div2 (fst e)).
    assert (Hnd : forall v, nd (nedge v) = v) by (intros v; unfold nd, nedge, x0; cbn [fst]; destruct v; reflexivity).
    pose proof (Forall2_len _ _ _ HF) as HlenWW.
    exists W, (map nd A'). split; [|split; [|split; [|split; [|split; [|split; [|split]]]]]].
    - intros p Hp. destruct (Forall2_in_r _ _ _ p HF Hp) as (r & _ & _ & H). exact H.
    - intros v Hv Hni. assert (HeE : In (nedge v) (expE V E)) by (apply expE_in; left; exists v; auto).
      destruct (Hcov' (nedge v) HeE (proj2 (node_ignore_spec _ HeE) (ex_intro _ v (conj Hv (conj Hni eq_refl))))) as (r & Hr & Hin).
      destruct (Forall2_in_l _ _ _ r HF Hr) as (p & Hp & -> & _). exists p. split; [exact Hp|apply nedge_in_expand; exact Hin].
    - apply SafeFix.NoDup_map_inj_in; [|exact NDA']. intros e1 e2 H1 H2 Eq.
      destruct (HAn e1 H1) as (v1 & _ & _ & ->). destruct (HAn e2 H2) as (v2 & _ & _ & ->). rewrite !Hnd in Eq. congruence.
    - intros v Hv. apply in_map_iff in Hv. destruct Hv as (e & <- & He). destruct (HAn e He) as (v & Hv & Hni & ->). rewrite Hnd. auto.
    - intros u v l Hu Hv Hne HlV Hl Iu Iv. apply in_map_iff in Hu, Hv. destruct Hu as (e1 & <- & He1). destruct Hv as (e2 & <- & He2).
      destruct (HAn e1 He1) as (v1 & _ & _ & ->). destruct (HAn e2 He2) as (v2 & _ & _ & ->). rewrite !Hnd in *.
      apply (Hinc' (nedge v1) (nedge v2) (expand l) He1 He2).
      + intros Eq. injection Eq as Eq _. apply x0_inj in Eq. contradiction.
      + apply expand_nodup. destruct l as [|x m]; [destruct Iu|]. exact (proj1 (walk_rank E (posn topo) Htopo m x Hl)).
      + apply expand_walk; assumption.
      + apply nedge_in_expand. exact Iu.
      + apply nedge_in_expand. exact Iv.
    - rewrite map_length, Hlen'. exact HlenWW.
    - rewrite <- HlenWW. exact HP'.
    - rewrite <- HlenWW. exact Hmin'.
  Qed.

  (* weak duality for node covers, directly *)
  Theorem node_cover_needs_node_width_many_paths (W : list (list node)) (A : list node) :
    NoDup A -> node_incompatible A -> (forall p, In p W -> incl p V /\ incl (pairs p) E) ->
    (forall v, In v A -> exists p, In p W /\ In v p) -> length A <= length W.
  Proof.
    intros ND Hinc HW Hcov. apply (WalkWidth.pigeon (fun v p => In v p) A W ND Hcov).
    intros a a' p Ha Ha' Hp H1 H2. destruct (N.eq_dec a a') as [E0|Hne]; [exact E0|exfalso].
    destruct (HW p Hp) as [P1 P2]. exact (Hinc a a' p Ha Ha' Hne P1 P2 H1 H2).
  Qed.
End NodeDilworth.

(* ================================================================================================================= *)
(* (2) the same for walks of a digraph with cycles: WalkWidth on the expansion.  No condensation is involved -- the walk theorem is
   stated on the graph itself -- so the expansion only has to commute with walks. *)
Section NodeWalks.
  Variables (V : list node) (E : list PathEnc.edge) (S T : list node) (s t : node).
  Variable ign : list node.
  Hypothesis Hs : ~ In s (expV V).
  Hypothesis Ht : ~ In t (expV V).
  Hypothesis Hst : s <> t.
  Hypothesis HE : forall e, In e E -> In (fst e) V /\ In (snd e) V.
  Hypothesis NDV : NoDup V.
  Let G' := aug_edges (expV V) (expE V E) (map x0 S) (map x1 T) s t.
  (* every edge of the augmented expansion lies on a source-to-sink walk *)
  Hypothesis Hst' : forall u v, In (u, v) G' -> conn G' s u /\ conn G' v t.

  Definition nwalk (p : list node) : Prop :=
    p <> [] /\ incl p V /\ incl (pairs p) E /\ is_start E S (hd 0%N p) = true /\ is_end E T (last p 0%N) = true.

  Lemma start_contracts a : In a (expV V) -> is_start (expE V E) (map x0 S) a = true -> exists v, a = x0 v /\ In v V /\ is_start E S v = true.
  Proof.
    intros Ha Hstart. apply expV_in in Ha. destruct Ha as (v & Hv & [-> | ->]).
    - exists v. split; [reflexivity|]. split; [exact Hv|]. unfold is_start in *. apply orb_true_iff in Hstart. apply orb_true_iff. destruct Hstart as [H|H].
      + left. unfold indeg0 in *. apply negb_true_iff in H. apply negb_true_iff. destruct (existsb (fun e => (snd e =? v)%N) E) eqn:X; [|reflexivity].
        apply existsb_exists in X. destruct X as ([u v'] & Hu & Q). apply N.eqb_eq in Q. cbn in Q. subst v'.
        assert (Y : existsb (fun e => (snd e =? x0 v)%N) (expE V E) = true).
        { apply existsb_exists. exists (x1 u, x0 v). split; [apply expE_in; right; exists u, v; auto|apply N.eqb_refl]. } congruence.
      + right. apply memn_In in H. apply memn_In. apply in_map_iff in H. destruct H as (u & Eq & Hu). apply x0_inj in Eq. subst. exact Hu.
    - exfalso. unfold is_start in Hstart. apply orb_true_iff in Hstart. destruct Hstart as [H|H].
      + unfold indeg0 in H. apply negb_true_iff in H.
        assert (Y : existsb (fun e => (snd e =? x1 v)%N) (expE V E) = true).
        { apply existsb_exists. exists (nedge v). split; [apply expE_in; left; exists v; auto|apply N.eqb_refl]. } congruence.
      + apply memn_In in H. apply in_map_iff in H. destruct H as (u & Eq & _). exact (x0_x1 _ _ Eq).
  Qed.
  Lemma end_contracts b : In b (expV V) -> is_end (expE V E) (map x1 T) b = true -> exists w, b = x1 w /\ In w V /\ is_end E T w = true.
  Proof.
    intros Hb Hend. apply expV_in in Hb. destruct Hb as (w & Hw & [-> | ->]).
    - exfalso. unfold is_end in Hend. apply orb_true_iff in Hend. destruct Hend as [H|H].
      + unfold outdeg0 in H. apply negb_true_iff in H.
        assert (Y : existsb (fun e => (fst e =? x0 w)%N) (expE V E) = true).
        { apply existsb_exists. exists (nedge w). split; [apply expE_in; left; exists w; auto|apply N.eqb_refl]. } congruence.
      + apply memn_In in H. apply in_map_iff in H. destruct H as (u & Eq & _). exact (x0_x1 _ _ (eq_sym Eq)).
    - exists w. split; [reflexivity|]. split; [exact Hw|]. unfold is_end in *. apply orb_true_iff in Hend. apply orb_true_iff. destruct Hend as [H|H].
      + left. unfold outdeg0 in *. apply negb_true_iff in H. apply negb_true_iff. destruct (existsb (fun e => (fst e =? w)%N) E) eqn:X; [|reflexivity].
        apply existsb_exists in X. destruct X as ([w' z] & Hz & Q). apply N.eqb_eq in Q. cbn in Q. subst w'.
        assert (Y : existsb (fun e => (fst e =? x1 w)%N) (expE V E) = true).
        { apply existsb_exists. exists (x1 w, x0 z). split; [apply expE_in; right; exists w, z; auto|apply N.eqb_refl]. } congruence.
      + right. apply memn_In in H. apply memn_In. apply in_map_iff in H. destruct H as (u & Eq & Hu). apply x1_inj in Eq. subst. exact Hu.
  Qed.

  Theorem min_node_walk_cover_equals_node_walk_width :
    exists (W : list (list node)) (A : list node),
      (forall p, In p W -> nwalk p) /\ (forall v, In v V -> ~ In v ign -> exists p, In p W /\ In v p) /\
      NoDup A /\ (forall v, In v A -> In v V /\ ~ In v ign) /\ node_incompatible V E A /\ length A = length W.
  Proof.
    set (keep := filter (fun v => negb (memn v ign)) V).
    assert (Hkeep : forall v, In v keep <-> In v V /\ ~ In v ign).
    { intros v. unfold keep. rewrite filter_In, negb_true_iff. split; intros [H1 H2]; (split; [exact H1|]).
      - intros Hi. apply memn_In in Hi. congruence.
      - destruct (memn v ign) eqn:M; [apply memn_In in M; contradiction|reflexivity]. }
    assert (HE' := expE_ends V E HE).
    assert (HX : incl (map nedge keep) G').
    { intros e He. apply in_map_iff in He. destruct He as (v & <- & Hv). apply (aug_in (expV V) (expE V E) (map x0 S) (map x1 T) s t). left.
      apply expE_in. left. exists v. split; [apply Hkeep; exact Hv|auto]. }
    assert (NDX : NoDup (map nedge keep)).
    { apply FinFun.Injective_map_NoDup; [|apply NoDup_filter; exact NDV]. intros u v H. injection H as H _. exact (x0_inj _ _ H). }
    destruct (WalkWidth.min_walk_cover_equals_walk_width G' s t Hst' (map nedge keep) NDX HX) as (W' & A' & HW' & Hcov' & NDA' & HA' & Hinc' & Hlen').
    destruct (choice_list (fun l p => (forall v, In (nedge v) (pairs l) -> In v p) /\ nwalk p) W') as (W & HF).
    { intros l Hl. destruct (HW' l Hl) as (Hh & Hla & Hin). destruct l as [|a m]; [discriminate|]. cbn in Hh. injection Hh as ->.
      destruct m as [|b m']; [cbn in Hla; congruence|].
      destruct (exists_last (l := b :: m') ltac:(discriminate)) as (r & z & Er). rewrite Er in *.
      assert (z = t) by (rewrite <- Hla; change (s :: r ++ [z]) with ((s :: r) ++ [z]); rewrite last_last; reflexivity). subst z.
      destruct (aug_route_valid (expV V) (expE V E) (map x0 S) (map x1 T) s t Hs Ht Hst HE' r Hin) as (Hne & HrV & Hw & Hstart & Hend).
      destruct r as [|a q]; [contradiction|]. cbn [hd] in Hstart.
      destruct (start_contracts a (HrV a (or_introl eq_refl)) Hstart) as (v & -> & Hv & Hsv).
      assert (Hlast : In (last (x0 v :: q) s) (expV V)).
      { apply HrV. destruct (exists_last (l := x0 v :: q) ltac:(discriminate)) as (l' & z & Eq). rewrite Eq, last_last. apply in_or_app. right. left. reflexivity. }
      destruct (end_contracts _ Hlast Hend) as (w & Ew & Hw0 & Hew).
      destruct (contract V E (length q) q v (le_n _) Hw) as (p & Ep & Hp & HpV).
      { exists w. rewrite <- Ew. rewrite !last_cons_default. reflexivity. }
      exists (v :: p). split.
      - intros u Hu. apply nedge_in_expand. rewrite <- Ep. rewrite pairs_st in Hu. destruct Hu as [Hu|Hu].
        + injection Hu as _ Hu. exfalso. exact (x0_x1 _ _ Hu).
        + apply in_app_or in Hu. destruct Hu as [Hu|[Hu|[]]]; [exact Hu|]. rewrite (last_default_irrel (x0 v :: q) (x0 v) s) in Hu by discriminate. rewrite Ew in Hu. injection Hu as Hu _. exfalso. exact (x0_x1 _ _ (eq_sym Hu)).
      - split; [discriminate|]. split; [exact HpV|]. split; [exact Hp|]. split; [exact Hsv|].
        assert (El : x1 (last (v :: p) 0%N) = x1 w).
        { rewrite <- Ew, Ep. rewrite (last_default_irrel (expand (v :: p)) s 0%N) by discriminate. symmetry. apply expand_last. discriminate. }
        apply x1_inj in El. rewrite El. exact Hew. }
    assert (HAn : forall e, In e A' -> exists v, In v V /\ ~ In v ign /\ e = nedge v).
    { intros e He. apply HA' in He. apply in_map_iff in He. destruct He as (v & <- & Hv). apply Hkeep in Hv. exists v. tauto. }
    set (nd := fun e : PathEnc.edge => N.div2 (fst e)).
    assert (Hnd : forall v, nd (nedge v) = v) by (intros v; unfold nd, nedge, x0; cbn [fst]; destruct v; reflexivity).
    exists W, (map nd A'). split; [|split; [|split; [|split; [|split]]]].
    - intros p Hp. destruct (Forall2_in_r _ _ _ p HF Hp) as (l & _ & _ & H). exact H.
    - intros v Hv Hni. destruct (Hcov' (nedge v)) as (l & Hl & Hin); [apply in_map; apply Hkeep; auto|].
      destruct (Forall2_in_l _ _ _ l HF Hl) as (p & Hp & Hc & _). exists p. split; [exact Hp|apply Hc; exact Hin].
    - apply SafeFix.NoDup_map_inj_in; [|exact NDA']. intros e1 e2 H1 H2 Eq.
      destruct (HAn e1 H1) as (v1 & _ & _ & ->). destruct (HAn e2 H2) as (v2 & _ & _ & ->). rewrite !Hnd in Eq. congruence.
    - intros v Hv. apply in_map_iff in Hv. destruct Hv as (e & <- & He). destruct (HAn e He) as (v & Hv & Hni & ->). rewrite Hnd. auto.
    - intros u v l Hu Hv Hne HlV Hl Iu Iv. apply in_map_iff in Hu, Hv. destruct Hu as (e1 & <- & He1). destruct Hv as (e2 & <- & He2).
      destruct (HAn e1 He1) as (v1 & _ & _ & ->). destruct (HAn e2 He2) as (v2 & _ & _ & ->). rewrite !Hnd in *.
      apply (Hinc' (nedge v1) (nedge v2) (expand l) He1 He2).
      + intros Eq. injection Eq as Eq _. apply x0_inj in Eq. contradiction.
      + intros e He. apply (aug_in (expV V) (expE V E) (map x0 S) (map x1 T) s t). left. apply (expand_walk V E l HlV Hl). exact He.
      + apply nedge_in_expand. exact Iu.
      + apply nedge_in_expand. exact Iv.
    - rewrite map_length, Hlen'. apply (Forall2_len _ _ _ HF).
  Qed.
End NodeWalks.

(* ================================================================================================================= *)
(* end to end: node-mode MinPathCover (the edge model of the expansion with the connecting edges and the ignored nodes' edges in the
   ignore list, searched from a valid lower bound with an exact solver) returns the node width *)
From FP Require Import SearchProofs1.
Theorem node_minpathcover_returns_the_node_width
    (V : list node) (E : list PathEnc.edge) (s t : node) (topo ign : list node)
    (feasible : nat -> bool) (lb : nat) (sts : list raw) :
  ~ In s (expV V) -> ~ In t (expV V) -> s <> t -> (forall e, In e E -> In (fst e) V /\ In (snd e) V) -> NoDup V -> NoDup E ->
  (forall u v, In (u, v) E -> posn topo u < posn topo v) -> incl V topo ->
  let ignore := synth (expV V) (expE V E) s t ++ node_ignore E ign in
  (forall k, feasible k = true <-> exists a, sat a (encode_kpc (cover_inst (expV V) (expE V E) s t k) ignore)) ->
  (forall i, i < S (length (expE V E)) - lb -> exists x, nth_error sts i = Some x /\
             status_of x = if feasible (lb + i) then Optimal else Infeasible) ->
  exists (w : nat) (W : list (list node)) (A : list node),
    length W = w /\ (forall p, In p W -> nroute V E p) /\ (forall v, In v V -> ~ In v ign -> exists p, In p W /\ In v p) /\
    length A = w /\ NoDup A /\ (forall v, In v A -> In v V /\ ~ In v ign) /\ node_incompatible V E A /\
    (forall A2, NoDup A2 -> node_incompatible V E A2 -> (forall v, In v A2 -> In v V /\ ~ In v ign) -> length A2 <= w) /\
    (lb <= w -> so_res (mpc_solve true lb (S (length (expE V E))) sts) = Solved w).
Proof.
  intros Hs Ht Hst HE NDV NDE Htopo HVt ignore Hspec Hsts.
  destruct (min_node_path_cover_equals_node_width V E s t topo ign Hs Ht Hst HE NDV NDE Htopo HVt)
    as (W & A & HW & Hcov & NDA & HA & Hinc & Hlen & (P & HP) & Hmin).
  exists (length W), W, A. split; [reflexivity|]. split; [exact HW|]. split; [exact Hcov|]. split; [exact Hlen|]. split; [exact NDA|].
  split; [exact HA|]. split; [exact Hinc|]. split.
  - intros A2 ND2 Hinc2 HA2. apply (node_cover_needs_node_width_many_paths V E W A2 ND2 Hinc2).
    + intros p Hp. destruct (HW p Hp) as (_ & H1 & H2 & _). split; assumption.
    + intros v Hv. destruct (HA2 v Hv) as [H1 H2]. exact (Hcov v H1 H2).
  - intros Hlb.
    assert (Hle : length W <= length (expE V E)).
    { (* the cover that takes one route per edge has |E'| paths; the minimum is not larger *)
      destruct (cover_with_one_path_per_edge_exists (expV V) (expE V E) s t (exp_topo topo) Hs Ht Hst (expE_ends V E HE)
                  (exp_topo_increasing V E topo HVt Htopo)) as (P1 & HP1 & Hc1).
      apply (Hmin (length (expE V E)) P1). split; [exact HP1|]. intros e He Hig. apply Hc1; [exact He|].
      unfold ignore in *. rewrite mem_edge_app in Hig. apply orb_false_iff in Hig. apply Hig. }
    apply (mpc_returns_minimum (cover_inst (expV V) (expE V E) s t) ignore (st_rank s t (exp_topo topo)) (S (S (length (exp_topo topo))))
             feasible lb (S (length (expE V E))) (length W) sts).
    + intros k. split; [reflexivity|]. split; [exact (st_of_wf (expV V) (expE V E) s t Hs Ht Hst (expE_ends V E HE) (expV_nodup V NDV) (expE_nodup V E NDV NDE))|].
      split; [reflexivity|]. split.
      * exact (st_rank_increasing (expV V) (expE V E) s t Hs Ht Hst (expE_ends V E HE) (exp_topo topo) (exp_topo_increasing V E topo HVt Htopo)).
      * intros c e [].
    + intros v. apply st_rank_le. exact Hst.
    + exact Hspec.
    + exact Hsts.
    + exists P. split; [exact HP|]. intros n c Hn. destruct n; discriminate.
    + intros k Hk (P' & HP' & _). pose proof (Hmin k P' HP'). lia.
    + lia.
Qed.

(* ================================================================================================================= *)
(* transfer to the string-named expansion of NodeExp.v: under any injective naming, the edges of expE are exactly the relation
   NodeExpProofs.ne_xrel that the model of NodeExpandedDiGraph is proved to build (C11_expand_edges) *)
From FP Require NodeExp NodeExpProofs.
Section Transfer.
  Variable name : node -> String.string.
  Hypothesis name_inj : forall u v, name u = name v -> u = v.
  Definition sname (a : node) : String.string :=
    if N.even a then NodeExp.ne_exp0 (name (N.div2 a)) else NodeExp.ne_exp1 (name (N.div2 a)).
  Lemma sname_x0 v : sname (x0 v) = NodeExp.ne_exp0 (name v).
  Proof. unfold sname, x0. destruct v; reflexivity. Qed.
  Lemma sname_x1 v : sname (x1 v) = NodeExp.ne_exp1 (name v).
  Proof. unfold sname, x1. destruct v; reflexivity. Qed.
  Lemma parity a : a = x0 (N.div2 a) /\ N.even a = true \/ a = x1 (N.div2 a) /\ N.even a = false.
  Proof.
    unfold x0, x1. destruct a as [|p]; [left; split; reflexivity|]. destruct p; [right|left|right]; split; reflexivity.
  Qed.

  Theorem expE_is_xrel V E a b :
    In (a, b) (expE V E) <->
    NodeExpProofs.ne_xrel (fun x => exists v, In v V /\ x = name v) (fun x y => exists u v, In (u, v) E /\ x = name u /\ y = name v)
                          (sname a) (sname b).
  Proof.
    rewrite expE_in. unfold NodeExpProofs.ne_xrel. split.
    - intros [(v & Hv & -> & ->)|(u & v & Huv & -> & ->)].
      + left. exists (name v). split; [exists v; auto|]. split; [apply sname_x0|apply sname_x1].
      + right. exists (name u), (name v). split; [exists u, v; auto|]. split; [apply sname_x1|apply sname_x0].
    - intros [(x & (v & Hv & ->) & Ha & Hb)|(x & y & (u & v & Huv & -> & ->) & Ha & Hb)].
      + left. exists v. split; [exact Hv|].
        destruct (parity a) as [[Ea Pa]|[Ea Pa]]; rewrite Ea in Ha; [rewrite sname_x0 in Ha|rewrite sname_x1 in Ha; symmetry in Ha; exfalso; exact (NodeExpProofs.exp0_neq_exp1 _ _ Ha)].
        destruct (parity b) as [[Eb Pb]|[Eb Pb]]; rewrite Eb in Hb; [rewrite sname_x0 in Hb; exfalso; exact (NodeExpProofs.exp0_neq_exp1 _ _ Hb)|rewrite sname_x1 in Hb].
        apply NodeExpProofs.exp0_inj, name_inj in Ha. apply NodeExpProofs.exp1_inj, name_inj in Hb. rewrite Ea, Eb, Ha, Hb. auto.
      + right. exists u, v. split; [exact Huv|].
        destruct (parity a) as [[Ea Pa]|[Ea Pa]]; rewrite Ea in Ha; [rewrite sname_x0 in Ha; exfalso; exact (NodeExpProofs.exp0_neq_exp1 _ _ Ha)|rewrite sname_x1 in Ha].
        destruct (parity b) as [[Eb Pb]|[Eb Pb]]; rewrite Eb in Hb; [rewrite sname_x0 in Hb|rewrite sname_x1 in Hb; symmetry in Hb; exfalso; exact (NodeExpProofs.exp0_neq_exp1 _ _ Hb)].
        apply NodeExpProofs.exp1_inj, name_inj in Ha. apply NodeExpProofs.exp0_inj, name_inj in Hb. rewrite Ea, Eb, Ha, Hb. auto.
  Qed.
End Transfer.


Lemma head_reaches G : forall l x b, incl (pairs (x :: l)) G -> In b (x :: l) -> conn G x b.
Proof.
  induction l as [|y l IH]; intros x b Hl Hb; [destruct Hb as [<-|[]]; apply conn_refl|]. rewrite pairs_cons2 in Hl.
  destruct Hb as [<-|Hb]; [apply conn_refl|]. apply (conn_trans G x y); [apply conn_edge; apply Hl; left; reflexivity|].
  apply IH; [intros e He; apply Hl; right; exact He|exact Hb].
Qed.
Lemma two_nodes_on_walk G : forall l a b, incl (pairs l) G -> In a l -> In b l -> a = b \/ conn G a b \/ conn G b a.
Proof.
  induction l as [|x l IH]; intros a b Hl Ha Hb; [destruct Ha|]. destruct Ha as [Ea|Ha], Hb as [Eb|Hb].
  - left. congruence.
  - right. left. rewrite <- Ea. apply (head_reaches G l x b Hl). right. exact Hb.
  - right. right. rewrite <- Eb. apply (head_reaches G l x a Hl). right. exact Ha.
  - apply IH; try assumption. destruct l as [|y r]; [destruct Ha|]. rewrite pairs_cons2 in Hl. intros e He. apply Hl. right. exact He.
Qed.

(* ---- non-vacuity: the diamond 1 -> {2,3} -> 4 with node 2 ignored: one path covers the other nodes; without ignoring, two ---- *)
From FP Require Import EndToEndExample.
Example node_diamond_premises :
  ~ In 100%N (expV xV) /\ ~ In 101%N (expV xV) /\ 100%N <> 101%N /\ (forall e, In e xE -> In (fst e) xV /\ In (snd e) xV) /\
  NoDup xV /\ NoDup xE /\ (forall u v, In (u, v) xE -> posn [1; 2; 3; 4]%N u < posn [1; 2; 3; 4]%N v) /\ incl xV [1; 2; 3; 4]%N.
Proof.
  destruct diamond_premises as (_ & _ & _ & H4 & H5 & H6 & H7).
  split; [intros H; cbn in H; intuition discriminate|]. split; [intros H; cbn in H; intuition discriminate|]. split; [discriminate|].
  split; [exact H4|]. split; [exact H5|]. split; [exact H6|]. split; [exact H7|]. intros v Hv. exact Hv.
Qed.
Example node_diamond_ignoring_2 :
  nroute xV xE [1; 3; 4]%N /\ (forall v, In v xV -> ~ In v [2%N] -> In v [1; 3; 4]%N) /\
  node_incompatible xV xE [2; 3]%N.
Proof.
  split; [|split].
  - split; [discriminate|]. split; [intros v Hv; cbn in Hv; cbn; intuition|]. split; [intros e He; cbn in He; cbn; intuition|].
    split; intros u Hu; cbn in Hu; intuition discriminate.
  - intros v Hv Hn. cbn in Hv. cbn. destruct Hv as [<-|[<-|[<-|[<-|[]]]]]; auto. exfalso. apply Hn. left. reflexivity.
  - intros u v l Hu Hv Hne _ Hl Iu Iv.
    assert (Hr : forall a b, In a l -> In b l -> a <> b -> conn xE a b \/ conn xE b a).
    { intros a b Ha Hb Hab. destruct (two_nodes_on_walk xE l a b Hl Ha Hb) as [H|H]; [contradiction|exact H]. }
    assert (N23 : ~ conn xE 2%N 3%N /\ ~ conn xE 3%N 2%N).
    { split; intros C; apply (reachb_spec xE) in C; try (vm_compute in C; discriminate); unfold nodes_of; vm_compute; tauto. }
    destruct Hu as [<-|[<-|[]]], Hv as [<-|[<-|[]]]; try contradiction; destruct (Hr _ _ Iu Iv Hne); tauto.
Qed.
