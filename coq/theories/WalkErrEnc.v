(* Constraint generators of the cyclic error models (E1):
     kLeastAbsErrorsCycles._encode_leastabserrors_decomposition / _encode_objective
     kMinPathErrorCycles._encode_minpatherror_decomposition / _encode_objective
   on top of the walk block, safety rows and subset constraints of WalkEncRows.v (inherited
   create_solver_and_walks).  The instance carries what the CALLER passed (flow values, ignore list,
   error scaling, weight type, k, constraints) in the edge form of the internal graph; computed here the
   way the constructors compute them: the ignore set I* (source/sink edges + ignore list + scale-0 edges),
   w_max = k * weight_type(max non-ignored flow), the error columns, and the per-edge repetition caps
   stDiGraph.compute_edge_max_reachable_value (largest flow value on the edge itself, on any edge whose
   tail is reachable from the edge's head, or on any edge whose head reaches the edge's tail; forced to 1
   outside SCCs by the walk model).  These caps and the product bound w_max are the code's (open findings
   cycles_rep_cap_from_reachable_max, cycles_products_bounded_by_wmax): the model reproduces them.
   Neither cyclic class has given weights or path-length factors. *)
From Coq Require Import List NArith ZArith QArith Qround Bool Lia.
Import ListNotations.
From FP Require Import Lin Blocks PathEnc WalkEncRows.
Local Close Scope Q_scope.

Definition Err (u v : node) : var := V fErr [u; v].
Definition Slack (i : N) : var := V fSlack [i].
Definition Gamma (u v : node) (i : N) : var := V fGamma [u; v; i].
Definition errvar (e : edge) : var := Err (fst e) (snd e).
Definition gvar (e : edge) (i : N) : var := Gamma (fst e) (snd e) i.

Record werr_inst := {
  x_graph : stgraph; x_k : nat;
  x_flow : list (edge * Q);          (* flow attribute of the edges that carry it *)
  x_ignore : list edge;              (* elements_to_ignore (edge form), WITHOUT source/sink edges *)
  x_scale : list (edge * Q);         (* error_scaling (edge form) *)
  x_int : bool;                      (* weight_type = int *)
  x_cons : list (list edge); x_cov : Q; x_opts : walk_opts;
  x_safe_lists : list (list edge); x_fix : list (list edge) }.

Definition xflow (I : werr_inst) (e : edge) : Q := lookup_q e (x_flow I) 0%Q.
Definition xscale (I : werr_inst) (e : edge) : Q := lookup_q e (x_scale I) 1%Q.

(* self.edges_to_ignore = source_sink_edges U elements_to_ignore U {e : error_scaling[e] == 0} *)
Definition x_ign_all (I : werr_inst) : list edge :=
  st_edges (x_graph I) ++ x_ignore I ++ map fst (filter (fun es => Qeq_bool (snd es) 0) (x_scale I)).
(* edge_indexes_basic *)
Definition x_basic (I : werr_inst) : list edge :=
  filter (fun e => negb (mem_edge e (x_ign_all I))) (g_edges (x_graph I)).

Definition x_max_flow (I : werr_inst) : Q := fold_left qmax (map (xflow I) (x_basic I)) 0%Q.
Definition x_wmax (I : werr_inst) : Q :=
  (qnat (x_k I) * (if x_int I then qtrunc (x_max_flow I) else x_max_flow I))%Q.

(* stDiGraph.compute_edge_max_reachable_value(flow_attr): missing attribute = 0 *)
Definition max_over (I : werr_inst) (p : edge -> bool) : Q :=
  fold_left qmax (map (xflow I) (filter p (g_edges (x_graph I)))) 0%Q.
Definition reach_max (I : werr_inst) (e : edge) : Q :=
  let G := x_graph I in
  let fw := reach_fwd G (snd e) in let bw := reach_bwd G (fst e) in
  qmax (qmax (xflow I e) (max_over I (fun e' => mem_node (fst e') fw))) (max_over I (fun e' => mem_node (snd e') bw)).

Definition werr_walk (I : werr_inst) : walk_inst :=
  {| w_graph := x_graph I; w_k := x_k I;
     w_rep := map (fun e => (e, reach_max I e)) (g_edges (x_graph I)); w_rep_default := 0%Q;
     w_cons := x_cons I; w_cov := x_cov I; w_opts := x_opts I;
     w_safe_lists := x_safe_lists I; w_fix := x_fix I |}.

(* ---- the product  p(e,i) = Edge(e,i) * c(i)  in its three encodings ---- *)
Definition wprod_kind (WI : walk_inst) (e : edge) (i : N) : N :=
  if mem_ei e i (zero_set WI) then 0%N else if mem_ei e i (one_set WI) then 1%N else 2%N.

Definition wprod_cols (WI : walk_inst) (wm : Q) (e : edge) (i : N) (p : var) : list col :=
  if (wprod_kind WI e i =? 2)%N then intprod_cols p 0%Q wm (num_bits wm) else [].
Definition wprod_rows (WI : walk_inst) (wm : Q) (e : edge) (i : N) (c p : var) : list row :=
  if (wprod_kind WI e i =? 0)%N then [mkrow [(p, 1%Q)] SEq 0%Q]
  else if (wprod_kind WI e i =? 1)%N then [mkrow [(p, 1%Q); (c, (- (1))%Q)] SEq 0%Q]
  else intprod_rows (evar e i) c p 0%Q wm (num_bits wm).

Definition x_pi_cols (I : werr_inst) : list col :=
  flat_map (fun i => map (fun e => wcol_ (pvar e i) (x_wmax I) (x_int I)) (g_edges (x_graph I))) (layers (x_k I)).
Definition x_w_cols (I : werr_inst) : list col := map (fun i => wcol_ (W i) (x_wmax I) (x_int I)) (layers (x_k I)).
Definition x_piprod_cols (I : werr_inst) : list col :=
  flat_map (fun e => flat_map (fun i => wprod_cols (werr_walk I) (x_wmax I) e i (pvar e i)) (layers (x_k I))) (x_basic I).
Definition x_piprod_rows (I : werr_inst) (e : edge) : list row :=
  flat_map (fun i => wprod_rows (werr_walk I) (x_wmax I) e i (W i) (pvar e i)) (layers (x_k I)).

(* ------------------------------------------------------------------ kLeastAbsErrorsCycles *)
Definition x_err_cols (I : werr_inst) : list col :=
  map (fun e => wcol_ (errvar e) (x_wmax I) (x_int I)) (x_basic I).

(* 9aa:  f - sum_i Pi <= Err      9ab:  sum_i Pi - f <= Err *)
Definition xrow_9aa (I : werr_inst) (e : edge) : row :=
  mkrow (map (fun i => (pvar e i, (- (1))%Q)) (layers (x_k I)) ++ [(errvar e, (- (1))%Q)]) SLe (- xflow I e)%Q.
Definition xrow_9ab (I : werr_inst) (e : edge) : row :=
  mkrow (map (fun i => (pvar e i, 1%Q)) (layers (x_k I)) ++ [(errvar e, (- (1))%Q)]) SLe (xflow I e).

Definition klaec_edge_rows (I : werr_inst) (e : edge) : list row :=
  x_piprod_rows I e ++ [xrow_9aa I e; xrow_9ab I e].
Definition klaec_cols (I : werr_inst) : list col := x_pi_cols I ++ x_w_cols I ++ x_err_cols I ++ x_piprod_cols I.
Definition klaec_rows (I : werr_inst) : list row := flat_map (klaec_edge_rows I) (x_basic I).
Definition klaec_obj (I : werr_inst) : lin := map (fun e => (errvar e, xscale I e)) (x_basic I).

Definition encode_klae_cycles (I : werr_inst) : milp :=
  {| cols := base_wcols (werr_walk I) ++ klaec_cols I; rows := base_wrows (werr_walk I) ++ klaec_rows I;
     obj := klaec_obj I; maximize := false |}.

(* ------------------------------------------------------------------ kMinPathErrorCycles *)
Definition x_slack_cols (I : werr_inst) : list col := map (fun i => wcol_ (Slack i) (x_wmax I) (x_int I)) (layers (x_k I)).
Definition x_gamma_cols (I : werr_inst) : list col :=
  flat_map (fun i => map (fun e => wcol_ (gvar e i) (x_wmax I) false) (g_edges (x_graph I))) (layers (x_k I)).
Definition x_gprod_cols (I : werr_inst) : list col :=
  flat_map (fun e => flat_map (fun i => wprod_cols (werr_walk I) (x_wmax I) e i (gvar e i)) (layers (x_k I))) (x_basic I).
Definition x_gprod_rows (I : werr_inst) (e : edge) : list row :=
  flat_map (fun i => wprod_rows (werr_walk I) (x_wmax I) e i (Slack i) (gvar e i)) (layers (x_k I)).

(* 9aa: (f - sum_i Pi) * s <= sum_i Gamma      9ab: (f - sum_i Pi) * s >= - sum_i Gamma *)
Definition mrow_9aa (I : werr_inst) (e : edge) : row :=
  mkrow (map (fun i => (pvar e i, (- xscale I e)%Q)) (layers (x_k I)) ++ map (fun i => (gvar e i, (- (1))%Q)) (layers (x_k I)))
        SLe (- (xflow I e * xscale I e))%Q.
Definition mrow_9ab (I : werr_inst) (e : edge) : row :=
  mkrow (map (fun i => (pvar e i, (- xscale I e)%Q)) (layers (x_k I)) ++ map (fun i => (gvar e i, 1%Q)) (layers (x_k I)))
        SGe (- (xflow I e * xscale I e))%Q.

Definition kmpec_edge_rows (I : werr_inst) (e : edge) : list row :=
  x_piprod_rows I e ++ x_gprod_rows I e ++ [mrow_9aa I e; mrow_9ab I e].
Definition kmpec_cols (I : werr_inst) : list col :=
  x_w_cols I ++ x_pi_cols I ++ x_slack_cols I ++ x_gamma_cols I ++ x_piprod_cols I ++ x_gprod_cols I.
Definition kmpec_rows (I : werr_inst) : list row := flat_map (kmpec_edge_rows I) (x_basic I).
Definition kmpec_obj (I : werr_inst) : lin := map (fun i => (Slack i, 1%Q)) (layers (x_k I)).

Definition encode_kmpe_cycles (I : werr_inst) : milp :=
  {| cols := base_wcols (werr_walk I) ++ kmpec_cols I; rows := base_wrows (werr_walk I) ++ kmpec_rows I;
     obj := kmpec_obj I; maximize := false |}.
