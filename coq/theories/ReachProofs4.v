(* C17 — final statements about the reachability substrate, premised only on the verified per-instance
   checker [cond_ok] of networkx' condensation outputs (resp. [dag_topo_ok] of its topological order). *)
From Coq Require Import List NArith ZArith Bool Arith Lia.
Import ListNotations.
From FP Require Import Reach ReachProofs1 ReachProofs2 ReachProofs3.
Set Default Timeout 30.
Open Scope Z_scope.

Theorem nodes_reachable_correct V E C v : cond_ok V E C = true ->
  (In v V -> exists l, nodes_reachable_cold V C v = Some l /\ forall x, In x l <-> greach E v x) /\
  (~ In v V -> nodes_reachable_cold V C v = None).
Proof. intros H. apply (nodes_reachable_sets V E C (cond_ok_spec _ _ _ H)). Qed.

Theorem nodes_reaching_correct V E C v : cond_ok V E C = true ->
  (In v V -> exists l, nodes_reaching_cold V C v = Some l /\ forall x, In x l <-> greach E x v) /\
  (~ In v V -> nodes_reaching_cold V C v = None).
Proof. intros H. apply (nodes_reaching_sets V E C (cond_ok_spec _ _ _ H)). Qed.

Theorem is_scc_edge_correct V E C u v : cond_ok V E C = true ->
  (In (u, v) E -> exists b, is_scc_edge_model E C u v = Some b /\ (b = true <-> greach E v u)) /\
  (~ In (u, v) E -> is_scc_edge_model E C u v = None).
Proof. intros H. apply (is_scc_edge_sets V E C (cond_ok_spec _ _ _ H)). Qed.

Theorem edge_max_reachable_correct V E C W u v : cond_ok V E C = true -> In (u, v) E ->
  let r := edge_max_reachable E C W (u, v) in
  (forall e', in_scope E u v e' -> wt W e' <= r) /\
  (r = 0 \/ exists e', in_scope E u v e' /\ r = wt W e') /\ 0 <= r.
Proof. intros H. apply (edge_max_reachable_spec V E C W (cond_ok_spec _ _ _ H)). Qed.

(* with non-negative weights the result IS the maximum weight over the edge set of the docstring *)
Theorem edge_max_reachable_is_max V E C W u v : cond_ok V E C = true -> In (u, v) E ->
  (forall e, In e E -> 0 <= wt W e) ->
  let r := edge_max_reachable E C W (u, v) in
  (forall e', in_scope E u v e' -> wt W e' <= r) /\ (exists e', in_scope E u v e' /\ r = wt W e').
Proof.
  intros H Huv N. destruct (edge_max_reachable_correct V E C W u v H Huv) as (H1 & H2 & H3). cbv zeta in *.
  split; [assumption|]. destruct H2 as [H2|H2]; [|assumption].
  exists (u, v). split; [left; reflexivity|].
  specialize (H1 (u, v) (or_introl eq_refl)). specialize (N _ Huv). lia.
Qed.

(* what a cold query answers *)
Lemma cold_answer_reach V E C v : cold_answer V E C (QReach v) = ans (nodes_reachable_cold V C v).
Proof.
  unfold cold_answer. cbn [qstep cache0 k_from lookup]. unfold nodes_reachable_cold.
  destruct (memN v V); reflexivity.
Qed.
Lemma cold_answer_reaching V E C v : cold_answer V E C (QReaching v) = ans (nodes_reaching_cold V C v).
Proof.
  unfold cold_answer. cbn [qstep cache0 k_to lookup]. unfold nodes_reaching_cold.
  destruct (memN v V); reflexivity.
Qed.

(* every answer of every query sequence (cache warm or cold) is the graph's answer *)
Theorem query_sequences_match_graph V E C alias qs :
  cond_ok V E C = true -> (alias = false \/ forallb (fun q => negb (is_mut q)) qs = true) ->
  qrun V E C alias cache0 qs = map (cold_answer V E C) qs /\
  (forall v, In (QReach v) qs -> In v V -> exists l, cold_answer V E C (QReach v) = ANodes l /\ forall x, In x l <-> greach E v x) /\
  (forall v, In (QReaching v) qs -> In v V -> exists l, cold_answer V E C (QReaching v) = ANodes l /\ forall x, In x l <-> greach E x v).
Proof.
  intros H Hal. split; [apply cache_coherent_all, Hal|]. split; intros v _ Hv.
  - destruct (nodes_reachable_correct V E C v H) as [H1 _]. destruct (H1 Hv) as (l & El & Hl).
    exists l. rewrite cold_answer_reach, El. split; [reflexivity|assumption].
  - destruct (nodes_reaching_correct V E C v H) as [H1 _]. destruct (H1 Hv) as (l & El & Hl).
    exists l. rewrite cold_answer_reaching, El. split; [reflexivity|assumption].
Qed.

(* the aliasing defect of the code as it is: a caller that mutates a returned set changes later answers *)
Definition alias_witness_V : list node := [0; 1]%N.
Definition alias_witness_E : list edge := [(0, 1)]%N.
Definition alias_witness_C : cond := {| c_map := fun v => v; c_edges := [(0, 1)]%N; c_topo := [0; 1]%N |}.
Definition alias_witness_qs : list query := [QReach 1%N; QMut true true 1%N 0%N; QReach 1%N].
Theorem cache_alias_refuted :
  cond_ok alias_witness_V alias_witness_E alias_witness_C = true /\
  qrun alias_witness_V alias_witness_E alias_witness_C true cache0 alias_witness_qs
    <> map (cold_answer alias_witness_V alias_witness_E alias_witness_C) alias_witness_qs.
Proof. split; [vm_compute; reflexivity|]. vm_compute. intros H. discriminate H. Qed.
