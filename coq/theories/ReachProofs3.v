(* C17 — proofs, part 3: compute_edge_max_reachable_value (local maxima, pull DP max_desc, push DP
   max_anc) equals the maximum over the declaratively reachable edge set; cache coherence of the
   query machine; the stDAG set DPs. *)
From Coq Require Import List NArith ZArith Bool Arith Lia.
Import ListNotations.
From FP Require Import Reach ReachProofs1 ReachProofs2.
Set Default Timeout 30.
Open Scope Z_scope.

Lemma zjoin_max a b : zjoin a b = Z.max a b.
Proof. unfold zjoin. destruct (b >? a) eqn:H; [apply Z.gtb_lt in H|rewrite Z.gtb_ltb in H; apply Z.ltb_ge in H]; lia. Qed.

(* fold of "if P e and w e > acc then w e" *)
Lemma lmax_fold (w : edge -> Z) (P : edge -> bool) : forall L acc,
  let r := fold_left (fun acc e => if P e && (w e >? acc) then w e else acc) L acc in
  acc <= r /\ (forall e, In e L -> P e = true -> w e <= r) /\ (r = acc \/ exists e, In e L /\ P e = true /\ r = w e).
Proof.
  induction L as [|e L IH]; intros acc; cbn [fold_left].
  - split; [lia|]. split; [intros ? []|left; reflexivity].
  - set (acc' := if P e && (w e >? acc) then w e else acc).
    assert (Ha : acc <= acc' /\ (P e = true -> w e <= acc') /\ (acc' = acc \/ (P e = true /\ acc' = w e))).
    { unfold acc'. destruct (P e); cbn [andb].
      - destruct (w e >? acc) eqn:G; [apply Z.gtb_lt in G|rewrite Z.gtb_ltb in G; apply Z.ltb_ge in G];
          (split; [lia|split; [intros; lia|]]); [right; tauto|left; reflexivity].
      - split; [lia|]. split; [discriminate|left; reflexivity]. }
    destruct Ha as (A1 & A2 & A3). destruct (IH acc') as (I1 & I2 & I3). cbv zeta. split; [lia|]. split.
    + intros x [<-|Hx] Px; [specialize (A2 Px); lia|apply I2; assumption].
    + destruct I3 as [I3|(x & Hx & Px & Ex)].
      * destruct A3 as [A3|[Pe A3]]; [left; lia|right; exists e; split; [left; reflexivity|split; [assumption|lia]]].
      * right. exists x. split; [right; assumption|tauto].
Qed.

Lemma zjoin_fold (m : N -> Z) : forall l a,
  let r := fold_left (fun acc s => zjoin acc (m s)) l a in
  a <= r /\ (forall s, In s l -> m s <= r) /\ (r = a \/ exists s, In s l /\ r = m s).
Proof.
  induction l as [|s l IH]; intros a; cbn [fold_left].
  - split; [lia|]. split; [intros ? []|left; reflexivity].
  - destruct (IH (zjoin a (m s))) as (I1 & I2 & I3). rewrite zjoin_max in *. cbv zeta. split; [lia|]. split.
    + intros x [<-|Hx]; [lia|apply I2; assumption].
    + destruct I3 as [I3|(x & Hx & Ex)].
      * destruct (Z.max_spec a (m s)) as [[_ Em]|[_ Em]]; [right; exists s; split; [left; reflexivity|lia]|left; lia].
      * right. exists x. split; [right; assumption|assumption].
Qed.

(* ---------------------------------------------------------------- push DP with max *)
Fixpoint fresh_succs (dep : N -> list N) (done rest : list N) : Prop :=
  match rest with
  | [] => True
  | c :: r => (forall s, In s (dep c) -> ~ In s (done ++ [c])) /\ fresh_succs dep (done ++ [c]) r
  end.

Lemma fresh_intro dep : forall rest done,
  (forall l1 c l2, rest = l1 ++ c :: l2 -> forall s, In s (dep c) -> ~ In s (done ++ l1 ++ [c])) ->
  fresh_succs dep done rest.
Proof.
  induction rest as [|v r IH]; intros done H; cbn [fresh_succs]; [exact I|]. split.
  - intros s Hs. apply (H [] v r eq_refl s Hs).
  - apply IH. intros l1 c l2 -> s Hs. specialize (H (v :: l1) c l2 eq_refl s Hs).
    rewrite <- app_assoc. exact H.
Qed.

Section PushMax.
  Variable dep : N -> list N.
  Variable init : N -> Z.
  Notation R := (reach dep).

  Lemma push_inner c : forall ss (m : N -> Z), ~ In c ss ->
    let m' := fold_left (fun m' s => upd m' s (zjoin (m' s) (m' c))) ss m in
    m' c = m c /\ (forall x, m x <= m' x) /\ (forall x, m' x = m x \/ (In x ss /\ m' x = m c)) /\
    (forall s, In s ss -> m c <= m' s) /\ (forall x, ~ In x ss -> m' x = m x).
  Proof.
    induction ss as [|s ss IH]; intros m Hc; cbn [fold_left].
    - cbv zeta. repeat split; try lia; try tauto; try (intros ? []).
    - assert (Hsc : s <> c) by (intros ->; apply Hc; left; reflexivity).
      set (m1 := upd m s (zjoin (m s) (m c))).
      destruct (IH m1 (fun h => Hc (or_intror h))) as (I1 & I2 & I3 & I4 & I5). cbv zeta.
      assert (E1 : m1 c = m c) by (unfold m1; apply upd_other; congruence).
      assert (E2 : forall x, m x <= m1 x).
      { intros x. unfold m1, upd. destruct (x =? s)%N eqn:Q; [apply N.eqb_eq in Q; subst; rewrite zjoin_max|]; lia. }
      assert (E3 : m c <= m1 s) by (unfold m1; rewrite upd_same, zjoin_max; lia).
      assert (E4 : forall x, m1 x = m x \/ (x = s /\ m1 x = m c)).
      { intros x. unfold m1, upd. destruct (N.eqb_spec x s) as [->|]; [|left; reflexivity]. rewrite zjoin_max.
        destruct (Z.max_spec (m s) (m c)) as [[_ Em]|[_ Em]]; [right; split; [reflexivity|lia]|left; lia]. }
      rewrite E1 in *. split; [assumption|]. split; [|split; [|split]].
      + intros x. specialize (I2 x). specialize (E2 x). lia.
      + intros x. destruct (I3 x) as [H|[H H']].
        * destruct (E4 x) as [H2|[-> H2]]; [left; lia|right; split; [left; reflexivity|lia]].
        * right. split; [right; assumption|assumption].
      + intros x [<-|Hx]; [specialize (I2 s); lia|apply I4; assumption].
      + intros x Hx. rewrite I5 by (intros h; apply Hx; right; assumption).
        unfold m1. apply upd_other. intros ->. apply Hx. left. reflexivity.
  Qed.

  Record PInv (done : list N) (m : N -> Z) : Prop := {
    pi_wit : forall x, exists a, R a x /\ m x = init a;
    pi_ge : forall x, init x <= m x;
    pi_edge : forall p x, In p done -> In x (dep p) -> m p <= m x }.

  Lemma push_inv : forall rest done m, PInv done m -> fresh_succs dep done rest ->
    PInv (done ++ rest) (fold_left (push_step dep zjoin) rest m).
  Proof.
    induction rest as [|c r IH]; intros done m I F; cbn [fold_left].
    - rewrite app_nil_r. exact I.
    - destruct F as [F1 F2]. replace (done ++ c :: r) with ((done ++ [c]) ++ r) by (rewrite <- app_assoc; reflexivity).
      apply IH; [|exact F2]. unfold push_step.
      assert (Hc : ~ In c (dep c)).
      { intros h. apply (F1 c h). apply in_or_app. right. left. reflexivity. }
      destruct (push_inner c (dep c) m Hc) as (I1 & I2 & I3 & I4 & I5). cbv zeta in *.
      set (m' := fold_left (fun m' s => upd m' s (zjoin (m' s) (m' c))) (dep c) m) in *.
      constructor.
      + intros x. destruct (I3 x) as [H|[H H']].
        * destruct (pi_wit _ _ I x) as (a & Ra & Ea). exists a. split; [assumption|lia].
        * destruct (pi_wit _ _ I c) as (a & Ra & Ea). exists a. split; [econstructor 2; eassumption|lia].
      + intros x. pose proof (pi_ge _ _ I x). specialize (I2 x). lia.
      + intros p x Hp Hx. apply in_app_or in Hp. destruct Hp as [Hp|[<-|[]]].
        * assert (Hp' : m' p = m p).
          { apply I5. intros h. apply (F1 p h). apply in_or_app. left. assumption. }
          pose proof (pi_edge _ _ I p x Hp Hx). specialize (I2 x). lia.
        * rewrite I1. apply I4, Hx.
  Qed.

  Theorem push_max_correct order : fresh_succs dep [] order ->
    (forall p x, In x (dep p) -> In p order) ->
    let m := push dep zjoin order init in
    forall x, (forall a, R a x -> init a <= m x) /\ (exists a, R a x /\ m x = init a).
  Proof.
    intros F Hall m x.
    assert (I0 : PInv [] init).
    { constructor; [intros y; exists y; split; [constructor|reflexivity]|intros; lia|intros ? ? []]. }
    pose proof (push_inv order [] init I0 F) as I. cbn [app] in I. fold (push dep zjoin order init) in I. fold m in I.
    split; [|apply (pi_wit _ _ I)].
    intros a Ra. induction Ra as [|y z Ra IH Hz]; [apply (pi_ge _ _ I)|].
    pose proof (pi_edge _ _ I y z (Hall _ _ Hz) Hz). lia.
  Qed.
End PushMax.

(* ---------------------------------------------------------------- max reachable value *)
Section MaxReach.
  Variable V : list node.
  Variable E : list edge.
  Variable C : cond.
  Variable W : list (edge * Z).
  Hypothesis CS : cond_spec V E C.
  Notation cmap := (c_map C).
  Notation cR := (creach C).
  Notation w := (wt W).

  Lemma local_out_spec c : 0 <= local_out E C W c /\
    (forall e, In e E -> cmap (fst e) = c -> w e <= local_out E C W c) /\
    (local_out E C W c = 0 \/ exists e, In e E /\ cmap (fst e) = c /\ local_out E C W c = w e).
  Proof.
    unfold local_out. destruct (lmax_fold w (fun e => (cmap (fst e) =? c)%N) E 0) as (H1 & H2 & H3).
    cbv zeta in *. split; [assumption|]. split.
    - intros e He Hc. apply H2; [assumption|apply N.eqb_eq; assumption].
    - destruct H3 as [H3|(e & He & Pe & Ee)]; [left; assumption|right]. exists e. rewrite N.eqb_eq in Pe. tauto.
  Qed.
  Lemma local_in_spec c : 0 <= local_in E C W c /\
    (forall e, In e E -> cmap (snd e) = c -> w e <= local_in E C W c) /\
    (local_in E C W c = 0 \/ exists e, In e E /\ cmap (snd e) = c /\ local_in E C W c = w e).
  Proof.
    unfold local_in. destruct (lmax_fold w (fun e => (cmap (snd e) =? c)%N) E 0) as (H1 & H2 & H3).
    cbv zeta in *. split; [assumption|]. split.
    - intros e He Hc. apply H2; [assumption|apply N.eqb_eq; assumption].
    - destruct H3 as [H3|(e & He & Pe & Ee)]; [left; assumption|right]. exists e. rewrite N.eqb_eq in Pe. tauto.
  Qed.

  Lemma topo_split_succ l1 c l2 s : c_topo C = l1 ++ c :: l2 -> In s (succs_of (c_edges C) c) ->
    In s l2 /\ ~ In s (l1 ++ [c]).
  Proof.
    intros Ht Hs. apply succs_of_In in Hs. pose proof (cs_topo_before _ _ _ CS _ _ Hs) as B.
    destruct (beforeb_split _ _ _ (cs_topo_nodup _ _ _ CS) B) as (k1 & k2 & Hk & Hs2 & Hns & _).
    pose proof (cs_topo_nodup _ _ _ CS) as ND. rewrite Hk in ND.
    destruct (NoDup_split_unique k1 k2 l1 l2 c ND) as [-> ->]; [congruence|]. tauto.
  Qed.

  Lemma sorted_rev_topo : sorted (succs_of (c_edges C)) [] (rev (c_topo C)).
  Proof.
    apply sorted_intro.
    - cbn [app]. apply NoDup_rev, (cs_topo_nodup _ _ _ CS).
    - intros l1 c l2 Hr s Hs. cbn [app].
      assert (Ht : c_topo C = rev l2 ++ c :: rev l1).
      { rewrite <- (rev_involutive (c_topo C)), Hr, rev_app_distr. cbn [rev]. rewrite <- app_assoc. reflexivity. }
      destruct (topo_split_succ _ _ _ _ Ht Hs) as [H _]. apply in_rev. exact H.
  Qed.

  Lemma max_desc_spec c : In c (c_topo C) ->
    0 <= max_desc E C W c /\ (forall d, cR c d -> local_out E C W d <= max_desc E C W c) /\
    (exists d, cR c d /\ max_desc E C W c = local_out E C W d).
  Proof.
    intros Hc. unfold max_desc.
    apply (pull_correct Z (succs_of (c_edges C)) (fun _ _ => zjoin) (local_out E C W)
             (fun c m => 0 <= m /\ (forall d, cR c d -> local_out E C W d <= m) /\ (exists d, cR c d /\ m = local_out E C W d))).
    - clear c Hc. intros c m Hs.
      destruct (zjoin_fold m (succs_of (c_edges C) c) (local_out E C W c)) as (F1 & F2 & F3). cbv zeta in *.
      set (r := fold_left (fun acc s => zjoin acc (m s)) (succs_of (c_edges C) c) (local_out E C W c)) in *.
      destruct (local_out_spec c) as (L0 & _). split; [lia|]. split.
      + intros d Rd. apply reach_inv_left in Rd. destruct Rd as [->|(s & Hs' & Rs)]; [assumption|].
        destruct (Hs s Hs') as (_ & Hub & _). specialize (Hub d Rs). specialize (F2 s Hs'). lia.
      + destruct F3 as [F3|(s & Hs' & Es)].
        * exists c. split; [constructor|assumption].
        * destruct (Hs s Hs') as (_ & _ & d & Rd & Ed). exists d. split; [eapply reach_left; eassumption|lia].
    - apply sorted_rev_topo.
    - apply in_rev. rewrite rev_involutive. exact Hc.
  Qed.

  Lemma max_anc_spec c :
    (forall a, cR a c -> local_in E C W a <= max_anc E C W c) /\
    (exists a, cR a c /\ max_anc E C W c = local_in E C W a).
  Proof.
    unfold max_anc. apply push_max_correct.
    - apply fresh_intro. intros l1 x l2 Ht s Hs. cbn [app].
      destruct (topo_split_succ _ _ _ _ Ht Hs) as [_ H]. exact H.
    - intros p x Hx. apply succs_of_In in Hx. apply (cedges_topo V E C CS) in Hx. tauto.
  Qed.

  (* the declarative edge set of the docstring: the edge itself, every edge whose tail is reachable
     from v, every edge whose head reaches u *)
  Definition in_scope (u v : node) (e' : edge) : Prop :=
    e' = (u, v) \/ (In e' E /\ greach E v (fst e')) \/ (In e' E /\ greach E (snd e') u).

  Theorem edge_max_reachable_spec u v : In (u, v) E ->
    let r := edge_max_reachable E C W (u, v) in
    (forall e', in_scope u v e' -> w e' <= r) /\
    (r = 0 \/ exists e', in_scope u v e' /\ r = w e') /\ 0 <= r.
  Proof.
    intros Huv. destruct (cs_edgesV _ _ _ CS _ _ Huv) as [Hu Hv].
    unfold edge_max_reachable. cbn [fst snd].
    destruct (max_desc_spec (cmap v) (cs_topo_all _ _ _ CS v Hv)) as (D0 & D1 & d & Rd & Ed).
    destruct (max_anc_spec (cmap u)) as (A1 & a & Ra & Ea).
    set (md := max_desc E C W (cmap v)) in *.
    set (ma := max_anc E C W (cmap u)) in *.
    cbv zeta. split; [|split].
    - intros e' [->|[[He R]|[He R]]].
      + lia.
      + destruct (local_out_spec (cmap (fst e'))) as (_ & L & _). specialize (L e' He eq_refl).
        specialize (D1 _ (greach_creach V E C CS _ _ R)). lia.
      + destruct (local_in_spec (cmap (snd e'))) as (_ & L & _). specialize (L e' He eq_refl).
        specialize (A1 _ (greach_creach V E C CS _ _ R)). lia.
    - destruct (Z.max_spec (Z.max (w (u, v)) md) ma) as [[_ Em]|[_ Em]]; rewrite Em.
      + (* the backward part *)
        destruct (local_in_spec a) as (_ & _ & [L|(e' & He & Hc & L)]); [left; lia|right].
        exists e'. split; [|lia]. right. right. split; [assumption|].
        destruct e' as [x y]. cbn [fst snd] in *. destruct (cs_edgesV _ _ _ CS _ _ He) as [_ HyV].
        subst a. eapply (creach_greach V E C CS); try eassumption. reflexivity.
      + destruct (Z.max_spec (w (u, v)) md) as [[_ Em2]|[_ Em2]]; rewrite Em2.
        * destruct (local_out_spec d) as (_ & _ & [L|(e' & He & Hc & L)]); [left; lia|right].
          exists e'. split; [|lia]. right. left. split; [assumption|].
          destruct e' as [x y]. cbn [fst snd] in *. destruct (cs_edgesV _ _ _ CS _ _ He) as [HxV _].
          eapply (creach_greach V E C CS); try eassumption.
        * right. exists (u, v). split; [left; reflexivity|reflexivity].
    - lia.
  Qed.
End MaxReach.

(* ---------------------------------------------------------------- cache coherence *)
Section Cache.
  Variable V : list node.
  Variable E : list edge.
  Variable C : cond.
  Notation step := (qstep V E C).

  Definition cache_good (k : cache) : Prop :=
    (forall v s, lookup v (k_from k) = Some s -> nodes_reachable_cold V C v = Some s) /\
    (forall v s, lookup v (k_to k) = Some s -> nodes_reaching_cold V C v = Some s).

  Lemma reachable_cold_mem v s : nodes_reachable_cold V C v = Some s -> memN v V = true.
  Proof. unfold nodes_reachable_cold. destruct (memN v V); [reflexivity|discriminate]. Qed.

  Lemma step_good alias k q : (alias = false \/ is_mut q = false) -> cache_good k ->
    cache_good (fst (step alias k q)) /\ snd (step alias k q) = cold_answer V E C q.
  Proof.
    intros Hal [G1 G2]. destruct q as [v|v|u v|fwd add v x]; unfold cold_answer; cbn [qstep cache0 k_from k_to lookup].
    - destruct (memN v V) eqn:M; [|split; [split; assumption|reflexivity]].
      destruct (lookup v (k_from k)) as [s|] eqn:L.
      + cbn [fst snd]. split; [split; assumption|]. rewrite (G1 _ _ L). reflexivity.
      + destruct (nodes_reachable_cold V C v) as [s|] eqn:Cd; cbn [fst snd]; [|split; [split; assumption|reflexivity]].
        split; [|reflexivity]. split; [|assumption]. cbn [k_from lookup]. intros v' s'.
        destruct (N.eqb_spec v v') as [<-|]; [intros H; inversion H; subst; assumption|apply G1].
    - destruct (memN v V) eqn:M; [|split; [split; assumption|reflexivity]].
      destruct (lookup v (k_to k)) as [s|] eqn:L.
      + cbn [fst snd]. split; [split; assumption|]. rewrite (G2 _ _ L). reflexivity.
      + destruct (nodes_reaching_cold V C v) as [s|] eqn:Cd; cbn [fst snd]; [|split; [split; assumption|reflexivity]].
        split; [|reflexivity]. split; [assumption|]. cbn [k_to lookup]. intros v' s'.
        destruct (N.eqb_spec v v') as [<-|]; [intros H; inversion H; subst; assumption|apply G2].
    - cbn [fst snd]. split; [split; assumption|reflexivity].
    - destruct Hal as [->|Hm]; [|discriminate]. cbn [fst snd]. split; [split; assumption|reflexivity].
  Qed.

  Lemma qrun_good alias : forall qs k, (alias = false \/ forallb (fun q => negb (is_mut q)) qs = true) -> cache_good k ->
    qrun V E C alias k qs = map (cold_answer V E C) qs.
  Proof.
    induction qs as [|q r IH]; intros k Hal G; cbn [qrun map]; [reflexivity|].
    assert (Hq : alias = false \/ is_mut q = false).
    { destruct Hal as [H|H]; [left; assumption|right]. cbn [forallb] in H. apply andb_true_iff in H. apply negb_true_iff. tauto. }
    destruct (step_good alias k q Hq G) as [G' A]. destruct (step alias k q) as [k' a]. cbn [fst snd] in *.
    rewrite A. f_equal. apply IH; [|assumption].
    destruct Hal as [H|H]; [left; assumption|right]. cbn [forallb] in H. apply andb_true_iff in H. tauto.
  Qed.

  (* every answer of every query sequence equals the cold answer: for the code as it is (alias = true)
     as long as the caller does not mutate a returned set, and unconditionally for copies *)
  Theorem cache_coherent_all alias qs :
    (alias = false \/ forallb (fun q => negb (is_mut q)) qs = true) ->
    qrun V E C alias (cache0) qs = map (cold_answer V E C) qs.
  Proof. intros H. apply qrun_good; [assumption|]. split; intros v s; cbn; discriminate. Qed.
End Cache.

(* ---------------------------------------------------------------- stDAG set DPs *)
Section DagSets.
  Variable V : list node.
  Variable E : list edge.
  Variable topo : list node.
  Hypothesis OK : dag_topo_ok V E topo = true.

  Lemma dag_ok_parts : NoDup topo /\ (forall v, In v V -> In v topo) /\ (forall u v, In (u, v) E -> beforeb topo u v = true).
  Proof.
    unfold dag_topo_ok in OK. rewrite !andb_true_iff in OK. destruct OK as [[H1 H2] H3].
    apply nodupb_NoDup in H1. rewrite forallb_forall in H2, H3. split; [assumption|]. split.
    - intros v Hv. apply memN_In, H2, Hv.
    - intros u v Huv. apply (H3 _ Huv).
  Qed.

  Lemma dag_split l1 c l2 : topo = l1 ++ c :: l2 ->
    (forall s, In (c, s) E -> In s l2) /\ (forall p, In (p, c) E -> In p l1).
  Proof.
    destruct dag_ok_parts as (ND & _ & HB). intros Ht. split.
    - intros s Hs. destruct (beforeb_split _ _ _ ND (HB _ _ Hs)) as (k1 & k2 & Hk & Hs2 & _).
      rewrite Hk in ND. destruct (NoDup_split_unique k1 k2 l1 l2 c ND) as [-> ->]; [congruence|]. assumption.
    - intros p Hp. destruct (beforeb_split _ _ _ ND (HB _ _ Hp)) as (k1 & k2 & Hk & Hc2 & _).
      (* c occurs in k2: topo = k1 ++ p :: k2, c in k2 -> p in l1 *)
      apply in_split in Hc2. destruct Hc2 as (k3 & k4 & ->).
      assert (Ht2 : topo = (k1 ++ p :: k3) ++ c :: k4) by (rewrite Hk, <- app_assoc; reflexivity).
      rewrite Ht2 in ND. destruct (NoDup_split_unique (k1 ++ p :: k3) k4 l1 l2 c ND) as [<- _]; [congruence|].
      apply in_or_app. right. left. reflexivity.
  Qed.

  Lemma sorted_succ : sorted (succs_of E) [] (rev topo).
  Proof.
    destruct dag_ok_parts as (ND & _). apply sorted_intro.
    - cbn [app]. apply NoDup_rev, ND.
    - intros l1 c l2 Hr s Hs. cbn [app].
      assert (Ht : topo = rev l2 ++ c :: rev l1).
      { rewrite <- (rev_involutive topo), Hr, rev_app_distr. cbn [rev]. rewrite <- app_assoc. reflexivity. }
      destruct (dag_split _ _ _ Ht) as [H _]. apply in_rev. apply H. apply succs_of_In, Hs.
  Qed.
  Lemma sorted_pred : sorted (preds_of E) [] topo.
  Proof.
    destruct dag_ok_parts as (ND & _). apply sorted_intro; [exact ND|].
    intros l1 c l2 Ht s Hs. cbn [app]. destruct (dag_split _ _ _ Ht) as [_ H]. apply H. apply preds_of_In, Hs.
  Qed.

  Lemma union_In a b x : In x (union a b) <-> In x a \/ In x b.
  Proof. unfold union. rewrite (add_all_In N N.eqb N.eqb_spec (fun _ => nil)). tauto. Qed.
  Lemma eunion_In a b x : In x (eunion a b) <-> In x a \/ In x b.
  Proof. unfold eunion. rewrite (add_all_In edge eqe eqe_spec (fun _ => nil)). tauto. Qed.

  Lemma fold_union (m : N -> list N) : forall l a x,
    In x (fold_left (fun acc s => union acc (m s)) l a) <-> In x a \/ exists s, In s l /\ In x (m s).
  Proof.
    induction l as [|s l IH]; intros a x; cbn [fold_left].
    - split; [tauto|]. intros [H|(s & [] & _)]. assumption.
    - rewrite IH, union_In. split.
      + intros [[H|H]|(s' & Hs' & H)]; [tauto|right; exists s; cbn; tauto|right; exists s'; cbn; tauto].
      + intros [H|(s' & [<-|Hs'] & H)]; [tauto|tauto|right; exists s'; tauto].
  Qed.

  Theorem dag_reachable_from_sets v : In v topo -> forall x, In x (dag_reachable_from E topo v) <-> greach E v x.
  Proof.
    intros Hv. unfold dag_reachable_from.
    apply (pull_correct (list N) (succs_of E) (fun _ _ => union) (fun v => [v])
             (fun c l => forall x, In x l <-> greach E c x)); [|apply sorted_succ|apply in_rev; rewrite rev_involutive; exact Hv].
    clear v Hv. intros c m Hs x. rewrite fold_union. split.
    - intros [[<-|[]]|(s & Hs' & Hx)]; [constructor|]. apply (Hs s Hs') in Hx. eapply reach_left; eassumption.
    - intros R. apply reach_inv_left in R. destruct R as [->|(s & Hs' & Rs)]; [left; left; reflexivity|].
      right. exists s. split; [assumption|]. apply (Hs s Hs'), Rs.
  Qed.

  Theorem dag_nodes_reaching_sets v : In v topo -> forall x, In x (dag_nodes_reaching E topo v) <-> greach E x v.
  Proof.
    intros Hv x. rewrite <- greach_rev_iff. revert x. unfold dag_nodes_reaching.
    apply (pull_correct (list N) (preds_of E) (fun _ _ => union) (fun v => [v])
             (fun c l => forall x, In x l <-> greach_rev E c x)); [|apply sorted_pred|exact Hv].
    clear v Hv. intros c m Hs x. rewrite fold_union. split.
    - intros [[<-|[]]|(s & Hs' & Hx)]; [constructor|]. apply (Hs s Hs') in Hx. eapply reach_left; eassumption.
    - intros R. apply reach_inv_left in R. destruct R as [->|(s & Hs' & Rs)]; [left; left; reflexivity|].
      right. exists s. split; [assumption|]. apply (Hs s Hs'), Rs.
  Qed.

  Lemma fold_eunion (f : N -> edge) (m : N -> list edge) : forall l a x,
    In x (fold_left (fun acc s => eunion (eunion acc (m s)) [f s]) l a) <->
    In x a \/ exists s, In s l /\ (In x (m s) \/ x = f s).
  Proof.
    induction l as [|s l IH]; intros a x; cbn [fold_left].
    - split; [tauto|]. intros [H|(s & [] & _)]. assumption.
    - rewrite IH, !eunion_In. cbn [In]. split.
      + intros [[[H|H]|[H|[]]]|(s' & Hs' & H)]; [tauto|right; exists s; tauto|right; exists s; split; [tauto|right; congruence]|right; exists s'; tauto].
      + intros [H|(s' & [<-|Hs'] & [H|H])]; [tauto|tauto|left; right; left; congruence|right; exists s'; tauto|right; exists s'; tauto].
  Qed.

  (* reachable_edges_from[v] = the edges whose tail is reachable from v *)
  Theorem dag_reachable_edges_from_sets v : In v topo ->
    forall e, In e (dag_reachable_edges_from E topo v) <-> In e E /\ greach E v (fst e).
  Proof.
    intros Hv. unfold dag_reachable_edges_from.
    apply (pull_correct (list edge) (succs_of E) (fun c s acc ms => eunion (eunion acc ms) [(c, s)]) (fun _ => [])
             (fun c l => forall e, In e l <-> In e E /\ greach E c (fst e))); [|apply sorted_succ|apply in_rev; rewrite rev_involutive; exact Hv].
    clear v Hv. intros c m Hs e. rewrite (fold_eunion (fun s => (c, s))). split.
    - intros [[]|(s & Hs' & [Hx| ->])].
      + apply (Hs s Hs') in Hx. split; [tauto|]. eapply reach_left; [eassumption|tauto].
      + split; [apply succs_of_In; assumption|constructor].
    - intros [He R]. right. apply reach_inv_left in R. destruct R as [Eq|(s & Hs' & Rs)].
      + destruct e as [a b]. cbn [fst] in Eq. subst a. exists b. split; [apply succs_of_In; assumption|right; reflexivity].
      + exists s. split; [assumption|left]. apply (Hs s Hs'). tauto.
  Qed.

  (* reachable_edges_rev_from[v] = the edges whose head reaches v *)
  Theorem dag_reachable_edges_rev_from_sets v : In v topo ->
    forall e, In e (dag_reachable_edges_rev_from E topo v) <-> In e E /\ greach E (snd e) v.
  Proof.
    intros Hv e. rewrite <- greach_rev_iff. revert e. unfold dag_reachable_edges_rev_from.
    apply (pull_correct (list edge) (preds_of E) (fun c s acc ms => eunion (eunion acc ms) [(s, c)]) (fun _ => [])
             (fun c l => forall e, In e l <-> In e E /\ greach_rev E c (snd e))); [|apply sorted_pred|exact Hv].
    clear v Hv. intros c m Hs e. rewrite (fold_eunion (fun s => (s, c))). split.
    - intros [[]|(s & Hs' & [Hx| ->])].
      + apply (Hs s Hs') in Hx. split; [tauto|]. eapply reach_left; [eassumption|tauto].
      + split; [apply preds_of_In; assumption|constructor].
    - intros [He R]. right. apply reach_inv_left in R. destruct R as [Eq|(s & Hs' & Rs)].
      + destruct e as [a b]. cbn [snd] in Eq. subst b. exists a. split; [apply preds_of_In; assumption|right; reflexivity].
      + exists s. split; [assumption|left]. apply (Hs s Hs'). tauto.
  Qed.
End DagSets.
