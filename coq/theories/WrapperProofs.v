From Coq Require Import List NArith ZArith QArith Lqa Bool Arith Lia.
Import ListNotations.
From FP Require Import Wrapper.
Set Default Timeout 60.
Local Close Scope Q_scope.

Lemma upd_length cs i f : length (upd cs i f) = length cs.
Proof. revert i. induction cs as [|c r IH]; intros [|j]; cbn; auto. Qed.
Lemma upd_nth_same cs i f d : (i < length cs)%nat -> nth i (upd cs i f) d = f (nth i cs d).
Proof. revert i. induction cs as [|c r IH]; intros [|j] H; cbn in *; try lia; [reflexivity|apply IH; lia]. Qed.
Lemma upd_nth_other cs i j f d : i <> j -> nth j (upd cs i f) d = nth j cs d.
Proof. revert i j. induction cs as [|c r IH]; intros [|i] [|j] H; cbn; try reflexivity; try congruence. apply IH. congruence. Qed.
Lemma upd_out cs i f : (length cs <= i)%nat -> upd cs i f = cs.
Proof. revert i. induction cs as [|c r IH]; intros [|j] H; cbn in *; try reflexivity; try lia. f_equal. apply IH. lia. Qed.

(* folding a list of per-column updates: column j sees exactly the requests addressed to j, in order *)
Definition reqs_for (j : nat) (l : list (nat * Q)) : list Q := map snd (filter (fun iv => Nat.eqb (fst iv) j) l).

Lemma fold_upd_nth (g : Q -> wcol -> wcol) l : forall cs j d, (j < length cs)%nat ->
  nth j (fold_left (fun cs iv => upd cs (fst iv) (g (snd iv))) l cs) d =
  fold_left (fun c v => g v c) (reqs_for j l) (nth j cs d).
Proof.
  induction l as [|[i v] l IH]; intros cs j d Hj; cbn [fold_left reqs_for filter map fst snd]; [reflexivity|].
  rewrite IH by (rewrite upd_length; exact Hj). fold (reqs_for j l).
  destruct (Nat.eqb_spec i j) as [->|Hne].
  - cbn [map snd fold_left]. rewrite upd_nth_same by exact Hj. reflexivity.
  - rewrite upd_nth_other by exact Hne. reflexivity.
Qed.

Lemma fold_upd_length (g : Q -> wcol -> wcol) l : forall cs,
  length (fold_left (fun cs iv => upd cs (fst iv) (g (snd iv))) l cs) = length cs.
Proof. induction l as [|iv l IH]; intros cs; cbn [fold_left]; [reflexivity|]. rewrite IH, upd_length. reflexivity. Qed.

(* what a column looks like after a list of fix requests resp. raise requests *)
Lemma fold_fix vs c : fold_left (fun c v => fixc v c) vs c =
  match rev vs with [] => c | v :: _ => {| wlb := v; wub := v; wcost := wcost c; wint := wint c |} end.
Proof.
  revert c. induction vs as [|v vs IH]; intros c; cbn [fold_left rev]; [reflexivity|].
  rewrite IH. destruct (rev vs) as [|w r] eqn:E; cbn [app]; reflexivity.
Qed.
Lemma fold_raise vs c : fold_left (fun c v => raisec v c) vs c =
  match rev vs with [] => c | v :: _ => {| wlb := v; wub := wub c; wcost := wcost c; wint := wint c |} end.
Proof.
  revert c. induction vs as [|v vs IH]; intros c; cbn [fold_left rev]; [reflexivity|].
  rewrite IH. destruct (rev vs) as [|w r] eqn:E; cbn [app]; reflexivity.
Qed.

(* the specification of the queued bound changes, per column:
   last fix request (if any) sets lb = ub = v; then the last raise request (if any) sets lb = v
   and keeps the upper bound; cost and integrality never change; other columns are untouched *)
Definition spec_col (c : wcol) (fixes lbs : list Q) : wcol :=
  let c1 := match rev fixes with [] => c | v :: _ => {| wlb := v; wub := v; wcost := wcost c; wint := wint c |} end in
  match rev lbs with [] => c1 | v :: _ => {| wlb := v; wub := wub c1; wcost := wcost c1; wint := wint c1 |} end.

Theorem apply_pending_exact cs fixes lbs j d : (j < length cs)%nat ->
  nth j (apply_pending cs fixes lbs) d = spec_col (nth j cs d) (reqs_for j fixes) (reqs_for j lbs).
Proof.
  intros Hj. unfold apply_pending.
  rewrite (fold_upd_nth raisec) by (rewrite (fold_upd_length fixc); exact Hj).
  rewrite (fold_upd_nth fixc) by exact Hj.
  rewrite fold_raise, fold_fix. unfold spec_col. reflexivity.
Qed.

Corollary apply_pending_untouched cs fixes lbs j d : (j < length cs)%nat ->
  reqs_for j fixes = [] -> reqs_for j lbs = [] -> nth j (apply_pending cs fixes lbs) d = nth j cs d.
Proof. intros Hj F L. rewrite apply_pending_exact by exact Hj. rewrite F, L. reflexivity. Qed.

Corollary apply_pending_single_fix cs i v d : (i < length cs)%nat ->
  let cs' := apply_pending cs [(i, v)] [] in
  wlb (nth i cs' d) = v /\ wub (nth i cs' d) = v /\ forall j, j <> i -> (j < length cs)%nat -> nth j cs' d = nth j cs d.
Proof.
  intros Hi cs'. unfold cs'. split; [|split].
  1,2: rewrite apply_pending_exact by exact Hi; unfold reqs_for; cbn [filter fst snd map]; rewrite Nat.eqb_refl; reflexivity.
  intros j Hj Hl. apply apply_pending_untouched; [exact Hl| |reflexivity].
  unfold reqs_for. cbn [filter fst]. destruct (Nat.eqb_spec i j); [congruence|reflexivity].
Qed.

Corollary apply_pending_single_raise cs i v d : (i < length cs)%nat ->
  let cs' := apply_pending cs [] [(i, v)] in
  wlb (nth i cs' d) = v /\ wub (nth i cs' d) = wub (nth i cs d) /\
  forall j, j <> i -> (j < length cs)%nat -> nth j cs' d = nth j cs d.
Proof.
  intros Hi cs'. unfold cs'. split; [|split].
  1,2: rewrite apply_pending_exact by exact Hi; unfold reqs_for; cbn [filter fst snd map]; rewrite Nat.eqb_refl; reflexivity.
  intros j Hj Hl. apply apply_pending_untouched; [exact Hl|reflexivity|].
  unfold reqs_for. cbn [filter fst]. destruct (Nat.eqb_spec i j); [congruence|reflexivity].
Qed.

Lemma apply_pending_length cs fixes lbs : length (apply_pending cs fixes lbs) = length cs.
Proof. unfold apply_pending. rewrite (fold_upd_length raisec), (fold_upd_length fixc). reflexivity. Qed.

(* queues are empty after optimize, whatever the history *)
Theorem queues_cleared ops : let s := run (ops ++ [Optimize]) in pfix s = [] /\ plb s = [].
Proof. unfold run. rewrite fold_left_app. cbn. auto. Qed.

(* ---- objective replacement ---- *)
Lemma set_costs_length cs terms : length (set_costs cs terms) = length cs.
Proof. unfold set_costs. rewrite (fold_upd_length addcost), map_length. reflexivity. Qed.

Lemma fr_shift (b : Q) l :
  (fold_right (fun v acc => (acc + v)%Q) b l == b + fold_right (fun v acc => (acc + v)%Q) 0%Q l)%Q.
Proof. induction l as [|w l IH]; cbn [fold_right]; [ring|]. rewrite IH. ring. Qed.

Lemma fold_addcost vs : forall c,
  let c' := fold_left (fun c v => addcost v c) vs c in
  wlb c' = wlb c /\ wub c' = wub c /\ wint c' = wint c /\
  (wcost c' == wcost c + fold_right (fun v acc => (acc + v)%Q) 0%Q (rev vs))%Q.
Proof.
  induction vs as [|v vs IH]; intros c; cbn [fold_left rev fold_right].
  - repeat split; try reflexivity. ring.
  - destruct (IH (addcost v c)) as (H1 & H2 & H3 & H4). cbn zeta in *.
    rewrite H1, H2, H3. repeat split; try reflexivity.
    rewrite H4. unfold addcost, setcost. cbn [wcost].
    rewrite fold_right_app. cbn [fold_right]. rewrite (fr_shift (0 + v)%Q). ring.
Qed.

(* after set_objective the cost of every column is the sum of the new expression's coefficients
   on that column (zero if absent): nothing of the previous objective survives; bounds and
   integrality are untouched *)
Theorem objective_replaced cs terms j d : (j < length cs)%nat ->
  let c' := nth j (set_costs cs terms) d in
  wlb c' = wlb (nth j cs d) /\ wub c' = wub (nth j cs d) /\ wint c' = wint (nth j cs d) /\
  (wcost c' == fold_right (fun v acc => (acc + v)%Q) 0%Q (rev (reqs_for j terms)))%Q.
Proof.
  intros Hj. unfold set_costs. cbn zeta.
  rewrite (fold_upd_nth addcost) by (rewrite map_length; exact Hj).
  assert (E : nth j (map (setcost 0%Q) cs) d = setcost 0%Q (nth j cs d)).
  { rewrite (nth_indep _ d (setcost 0%Q d)) by (rewrite map_length; exact Hj). apply map_nth. }
  rewrite E. destruct (fold_addcost (reqs_for j terms) (setcost 0%Q (nth j cs d))) as (H1 & H2 & H3 & H4).
  cbn zeta in *. rewrite H1, H2, H3. repeat split; try reflexivity.
  rewrite H4. unfold setcost. cbn [wcost]. ring.
Qed.

(* in particular the result does not depend on any earlier objective *)
Corollary objective_independent_of_previous s t1 c1 m1 t2 c2 m2 j d : (j < length (wcols s))%nat ->
  (wcost (nth j (wcols (step (step s (SetObjective t1 c1 m1)) (SetObjective t2 c2 m2))) d) ==
   wcost (nth j (wcols (step s (SetObjective t2 c2 m2))) d))%Q /\
  woffset (step (step s (SetObjective t1 c1 m1)) (SetObjective t2 c2 m2)) = c2 /\
  wmaxi (step (step s (SetObjective t1 c1 m1)) (SetObjective t2 c2 m2)) = m2.
Proof.
  intros Hj. cbn [step wcols woffset wmaxi]. repeat split.
  destruct (objective_replaced (set_costs (wcols s) t1) t2 j d) as (_ & _ & _ & H1); [rewrite set_costs_length; exact Hj|].
  destruct (objective_replaced (wcols s) t2 j d Hj) as (_ & _ & _ & H2). cbn zeta in *. rewrite H1, H2. reflexivity.
Qed.

(* add_variables appends columns and leaves existing ones alone *)
Theorem add_variables_appends s bs isint :
  wcols (step s (AddVars bs isint)) = wcols s ++ map (fun b => {| wlb := fst b; wub := snd b; wcost := 0%Q; wint := isint |}) bs /\
  pfix (step s (AddVars bs isint)) = pfix s /\ plb (step s (AddVars bs isint)) = plb s.
Proof. cbn. auto. Qed.

(* values are read back for exactly the variables asked for *)
Theorem get_values_exact {K} (all : list Q) (asked : list (K * nat)) :
  map fst (get_values all asked) = map fst asked /\
  forall k i, In (k, i) asked -> In (k, nth i all 0%Q) (get_values all asked).
Proof.
  unfold get_values. split.
  - rewrite map_map. reflexivity.
  - intros k i Hin. apply (in_map (fun kv => (fst kv, nth (snd kv) all 0%Q))) in Hin. exact Hin.
Qed.

(* optimize applied to any reachable state: every column is as specified by the queues *)
Theorem optimize_exact ops j d : let s := run ops in (j < length (wcols s))%nat ->
  nth j (wcols (step s Optimize)) d = spec_col (nth j (wcols s) d) (reqs_for j (pfix s)) (reqs_for j (plb s)).
Proof. intros s Hj. cbn [step wcols]. apply apply_pending_exact. exact Hj. Qed.
