(* C09 end to end for MinPathCover (edge cover, no ignored edges): for every DAG with at least one edge the search over
   k = lb .. |E| returns the least number of source-to-sink paths covering every edge.  Derived: every edge of a DAG lies on
   a source-to-sink path, hence a cover with |E| paths exists, hence the |E|-model is feasible (completeness). *)
From Coq Require Import List NArith ZArith QArith Lqa Bool Arith Lia Permutation.
Import ListNotations.
From FP Require Import Lin Blocks BlocksProofs PathEnc Aug AugProofs Euler EulerProofs1 EulerProofs2 DagDecode PathEncProofs PathEncComplete PathCoverComplete WfCheck EndToEnd1 EndToEnd2.
From FP Require Import Search SearchProofs1 SearchProofs2 EndToEnd3.
From FP Require PeelProofs3.
From FP Require Reach ReachProofs1 Peel PeelProofs1.
Set Default Timeout 60.
Local Close Scope Q_scope.

Lemma pairs_app_mid (l1 : list node) (b : node) (l2 : list node) (d : node) : l1 <> [] ->
  pairs (l1 ++ b :: l2) = pairs l1 ++ (last l1 d, b) :: pairs (b :: l2).
Proof.
  induction l1 as [|a l1 IH]; intros Hne; [contradiction|]. destruct l1 as [|c r].
  - reflexivity.
  - change (pairs ((a :: c :: r) ++ b :: l2)) with ((a, c) :: pairs ((c :: r) ++ b :: l2)).
    rewrite IH by discriminate. change (pairs (a :: c :: r)) with ((a, c) :: pairs (c :: r)).
    change (last (a :: c :: r) d) with (last (c :: r) d). reflexivity.
Qed.

Lemma last_app_nonempty {A} (l1 l2 : list A) (d : A) : l2 <> [] -> last (l1 ++ l2) d = last l2 d.
Proof.
  induction l1 as [|a l1 IH]; intros Hne; [reflexivity|]. cbn [app].
  destruct (l1 ++ l2) as [|b r] eqn:E; [destruct l1; [cbn in E; subst; contradiction|discriminate]|].
  change (last (a :: b :: r) d) with (last (b :: r) d). exact (IH Hne).
Qed.

Lemma posn_le' l v : (posn l v <= length l)%nat.
Proof. induction l as [|x r IH]; cbn [posn length]; [lia|]. destruct (x =? v)%N; lia. Qed.

Section ThroughEdge.
  Variable E : list edge.
  Variable topo : list node.
  Hypothesis Htopo : forall u v, In (u, v) E -> (posn topo u < posn topo v)%nat.

  (* a path that starts at a node without in-edges and ends at u *)
  Lemma back_path : forall n u, posn topo u = n ->
    exists q, last q u = u /\ q <> [] /\ incl (pairs q) E /\ Peel.ins E (hd u q) = [].
  Proof.
    induction n as [n IH] using lt_wf_ind. intros u Hn.
    destruct (Peel.ins E u) as [|e l] eqn:Hi.
    - exists [u]. repeat split; [discriminate|intros x []|exact Hi].
    - assert (He : In e (Peel.ins E u)) by (rewrite Hi; left; reflexivity).
      unfold Peel.ins in He. apply filter_In in He. destruct He as [HeE Hsnd]. apply N.eqb_eq in Hsnd.
      destruct e as [w u']. cbn in Hsnd. subst u'.
      pose proof (Htopo w u HeE) as Hlt.
      destruct (IH (posn topo w) ltac:(lia) w eq_refl) as (q & Hl & Hne & Hincl & Hsrc).
      exists (q ++ [u]). split; [apply last_snoc|]. split; [destruct q; discriminate|]. split.
      + rewrite (pairs_snoc q u w Hne). intros x Hx. apply in_app_or in Hx. destruct Hx as [Hx|[<-|[]]]; [apply Hincl; exact Hx|].
        rewrite Hl. exact HeE.
      + destruct q as [|a q']; [contradiction|]. cbn [app hd] in *. exact Hsrc.
  Qed.

  (* a path that starts at v and ends at a node without out-edges *)
  Lemma fwd_path : forall n v, (length topo - posn topo v = n)%nat ->
    exists r, incl (pairs (v :: r)) E /\ Peel.outs E (last (v :: r) v) = [].
  Proof.
    induction n as [n IH] using lt_wf_ind. intros v Hn.
    destruct (Peel.outs E v) as [|e l] eqn:Ho.
    - exists []. split; [intros x []|exact Ho].
    - assert (He : In e (Peel.outs E v)) by (rewrite Ho; left; reflexivity).
      unfold Peel.outs in He. apply filter_In in He. destruct He as [HeE Hfst]. apply N.eqb_eq in Hfst.
      destruct e as [v' x]. cbn in Hfst. subst v'.
      pose proof (Htopo v x HeE) as Hlt. pose proof (posn_le' topo x) as Hle.
      destruct (IH (length topo - posn topo x)%nat ltac:(lia) x eq_refl) as (r & Hincl & Hsnk).
      exists (x :: r). split.
      + change (pairs (v :: x :: r)) with ((v, x) :: pairs (x :: r)). intros y [<-|Hy]; [exact HeE|apply Hincl; exact Hy].
      + change (last (v :: x :: r) v) with (last (x :: r) v). rewrite (last_default_irrel (x :: r) v x) by discriminate. exact Hsnk.
  Qed.

  Theorem edge_on_source_sink_path u v : In (u, v) E ->
    exists p, PeelProofs1.ss_path E p /\ In (u, v) (pairs p).
  Proof.
    intros He.
    destruct (back_path (posn topo u) u eq_refl) as (q & Hl & Hne & Hq & Hsrc).
    destruct (fwd_path (length topo - posn topo v)%nat v eq_refl) as (r & Hr & Hsnk).
    exists (q ++ v :: r).
    assert (Ep : pairs (q ++ v :: r) = pairs q ++ (u, v) :: pairs (v :: r)) by (rewrite (pairs_app_mid q v r u Hne), Hl; reflexivity).
    split.
    - unfold PeelProofs1.ss_path. rewrite pairs_same, Ep. split; [destruct (pairs q); discriminate|]. split; [|split].
      + intros x Hx. apply in_app_or in Hx. destruct Hx as [Hx|[<-|Hx]]; [apply Hq; exact Hx|exact He|apply Hr; exact Hx].
      + destruct q as [|a q']; [contradiction|]. cbn [app hd] in *. exact Hsrc.
      + assert (El : last (q ++ v :: r) 0%N = last (v :: r) v).
        { rewrite last_app_nonempty; [|discriminate]. apply last_default_irrel. discriminate. }
        rewrite El. exact Hsnk.
    - rewrite Ep. apply in_or_app. right. left. reflexivity.
  Qed.
End ThroughEdge.

Lemma nth_error_lt {A} (l : list A) n x : nth_error l n = Some x -> (n < length l)%nat.
Proof. intros H. apply nth_error_Some. intros E. pose proof (eq_trans (eq_sym E) H) as Bad. discriminate Bad. Qed.

Lemma list_choice {A B} (R : A -> B -> Prop) (l : list A) : (forall x, In x l -> exists y, R x y) -> exists l', Forall2 R l l'.
Proof.
  induction l as [|a l IH]; intros H; [exists []; constructor|].
  destruct (H a (or_introl eq_refl)) as (b & Hb). destruct IH as (l' & Hl'); [intros x Hx; apply H; right; exact Hx|].
  exists (b :: l'). constructor; assumption.
Qed.

Lemma Forall2_nth {A B} (R : A -> B -> Prop) l l' : Forall2 R l l' ->
  length l = length l' /\ forall n a d, nth_error l n = Some a -> R a (nth n l' d).
Proof.
  induction 1 as [|a b l l' Hab H IH]; [split; [reflexivity|intros n a d Hn; destruct n; discriminate]|].
  destruct IH as [IL IN]. split; [cbn; lia|]. intros n x d Hn. destruct n as [|n]; cbn in *.
  - injection Hn as <-. exact Hab.
  - apply IN. exact Hn.
Qed.

Definition cover_inst (V : list node) (E : list edge) (s t : node) (k : nat) : path_inst :=
  {| p_graph := st_of V E s t; p_k := k; p_allow_empty := false; p_cons := []; p_cov := 1%Q; p_len := None |}.

Section CoverE2E.
  Variables (V : list node) (E : list edge) (s t : node).
  Variable topo : list node.
  Hypothesis Hs : ~ In s V.
  Hypothesis Ht : ~ In t V.
  Hypothesis Hst : s <> t.
  Hypothesis HE : forall e, In e E -> In (fst e) V /\ In (snd e) V.
  Hypothesis NDV : NoDup V.
  Hypothesis NDE : NoDup E.
  Hypothesis Htopo : forall u v, In (u, v) E -> (posn topo u < posn topo v)%nat.

  Theorem cover_with_one_path_per_edge_exists :
    exists P, path_cover (cover_inst V E s t (length E)) (synth V E s t) P.
  Proof.
    destruct (list_choice (fun e p => PeelProofs1.ss_path E p /\ In e (pairs p)) E) as (paths & HF).
    { intros [u v] He. exact (edge_on_source_sink_path E topo Htopo u v He). }
    destruct (Forall2_nth _ _ _ HF) as [Hlen Hnth].
    set (D := map (fun p => (p, 1%Z)) paths).
    assert (HD2 : Forall (fun pw => PeelProofs1.ss_path E (fst pw) /\ (0 < snd pw)%Z) D).
    { unfold D. rewrite Forall_map. apply Forall_forall. intros p Hp. cbn [fst snd]. split; [|lia].
      destruct (In_nth_error _ _ Hp) as (n & Hn).
      assert (Hlt : (n < length E)%nat) by (rewrite Hlen; exact (nth_error_lt _ _ _ Hn)).
      destruct (nth_error E n) as [e|] eqn:En; [|apply nth_error_None in En; lia].
      pose proof (Hnth n e [] En) as [Hss _]. rewrite (nth_error_nth paths n [] Hn) in Hss. exact Hss. }
    assert (HlenD : length D = length E) by (unfold D; rewrite map_length; symmetry; exact Hlen).
    exists (dP s t D). unfold path_cover. cbn [cover_inst p_graph p_k]. cbn [st_of g_src g_snk g_edges].
    rewrite <- HlenD. split.
    - intros i Hi. destruct (dP_shape E s t D HD2 i Hi) as (v0 & r & w & _ & Hin & EP & _). rewrite EP.
      pose proof (path_in_A V E s t Hs Ht Hst HE D HD2 v0 r w Hin) as Hincl.
      split; [reflexivity|]. split; [change (s :: (v0 :: r) ++ [t]) with ((s :: v0 :: r) ++ [t]); apply last_snoc|].
      split; [|exact Hincl].
      destruct (rank_walk_nodup (aug_edges V E [] [] s t) (st_rank s t topo)
                  (st_rank_increasing V E s t Hs Ht Hst HE topo Htopo) ((v0 :: r) ++ [t]) s Hincl) as [ND _]. exact ND.
    - intros e He Hig. pose proof (nonignored_in_E V E s t e He Hig) as HeE.
      destruct (In_nth_error _ _ HeE) as (n & Hn).
      assert (Hlt : (n < length D)%nat) by (rewrite HlenD; exact (nth_error_lt _ _ _ Hn)).
      exists (N.of_nat n). split; [apply in_layers; exists n; split; [exact Hlt|reflexivity]|].
      pose proof (Hnth n e [] Hn) as [Hss Hin].
      unfold dP. rewrite Nat2N.id. unfold D. 
      rewrite (nth_indep _ ([], 0%Z) ((fun p => (p, 1%Z)) [])) by (rewrite map_length; rewrite <- Hlen, <- HlenD; exact Hlt).
      rewrite (map_nth (fun p => (p, 1%Z)) paths [] n). cbn [fst].
      apply mem_edge_In. set (p := nth n paths []) in *.
      destruct Hss as (Hne & _). rewrite pairs_same in Hne. destruct p as [|v0 r]; [exfalso; apply Hne; reflexivity|].
      rewrite pairs_st. right. apply in_or_app. left. exact Hin.
  Qed.

  Theorem cover_model_feasible : exists a, sat a (encode_kpc (cover_inst V E s t (length E)) (synth V E s t)).
  Proof.
    destruct cover_with_one_path_per_edge_exists as (P & HP).
    exists (asg P (fun _ => 0%Q) (fun _ => 0%N)).
    apply (kpc_complete (cover_inst V E s t (length E)) (synth V E s t) P (fun _ => 0%N)).
    - exact (st_of_wf V E s t Hs Ht Hst HE NDV NDE).
    - reflexivity.
    - exact HP.
    - intros c e [].
    - intros n c Hn. destruct n; discriminate.
  Qed.
End CoverE2E.

Theorem minpathcover_end_to_end
    (V : list node) (E : list edge) (s t : node) (Pa Sa : list (node * list node)) (topo : list node)
    (feasible : nat -> bool) (lb : nat) (sts : list raw) :
  NoDup V -> (forall e, In e E -> In (fst e) V /\ In (snd e) V) -> ~ In s V -> ~ In t V -> s <> t ->
  Peel.peel_inputs_ok E Pa Sa topo = true ->
  (forall k, feasible k = true <-> exists a, sat a (encode_kpc (cover_inst V E s t k) (synth V E s t))) ->
  (forall i, (i < S (length E) - lb)%nat -> exists x, nth_error sts i = Some x /\
             status_of x = if feasible (lb + i)%nat then Optimal else Infeasible) ->
  (forall k, (k < lb)%nat -> feasible k = false) ->
  exists kopt,
    so_res (mpc_solve true lb (S (length E)) sts) = Solved kopt /\ (kopt <= length E)%nat /\
    (exists P, path_cover (cover_inst V E s t kopt) (synth V E s t) P) /\
    (forall k, (k < kopt)%nat -> ~ exists P, path_cover (cover_inst V E s t k) (synth V E s t) P).
Proof.
  intros NDV HE Hs Ht Hst Hok Hspec Hsts Hlb.
  pose proof Hok as Hok'. unfold Peel.peel_inputs_ok in Hok'.
  apply andb_true_iff in Hok'. destruct Hok' as [Hok' _]. apply andb_true_iff in Hok'. destruct Hok' as [Hok' _].
  apply andb_true_iff in Hok'. destruct Hok' as [Hok' _]. apply andb_true_iff in Hok'. destruct Hok' as [Hok' Hbefore].
  apply andb_true_iff in Hok'. destruct Hok' as [HndE Hndt].
  apply ReachProofs1.nodupE_NoDup in HndE. apply ReachProofs1.nodupb_NoDup in Hndt.
  assert (Htopo : forall u v, In (u, v) E -> (posn topo u < posn topo v)%nat).
  { intros u v He. rewrite !EndToEnd3.posn_pos. apply PeelProofs3.beforeb_pos; [exact Hndt|].
    rewrite forallb_forall in Hbefore. exact (Hbefore (u, v) He). }
  pose proof (cover_model_feasible V E s t topo Hs Ht Hst HE NDV HndE Htopo) as Hfeas. apply Hspec in Hfeas.
  destruct (EndToEnd3.least_true feasible (length E) Hfeas) as (kopt & Hk & Hgk & Hmin).
  assert (WF := st_of_wf V E s t Hs Ht Hst HE NDV HndE).
  assert (Hrank := st_rank_increasing V E s t Hs Ht Hst HE topo Htopo).
  assert (HR : forall v, (st_rank s t topo v <= S (S (length topo)))%nat) by (intros v; apply st_rank_le; exact Hst).
  assert (Hiff : forall k, (exists a, sat a (encode_kpc (cover_inst V E s t k) (synth V E s t))) <->
                           (exists P, path_cover (cover_inst V E s t k) (synth V E s t) P)).
  { intros k. rewrite (kpc_feasible_iff (cover_inst V E s t k) (synth V E s t) (st_rank s t topo) (S (S (length topo))) WF eq_refl Hrank HR).
    - split; [intros (P & HP & _); exists P; exact HP|intros (P & HP); exists P; split; [exact HP|intros n c Hn; destruct n; discriminate]].
    - intros c e []. }
  exists kopt. split; [|split; [exact Hk|split]].
  - apply (search_min feasible lb (S (length E)) kopt sts Hsts Hgk Hmin). split; [|lia].
    destruct (Nat.le_gt_cases lb kopt) as [H|H]; [exact H|]. rewrite (Hlb kopt H) in Hgk. discriminate.
  - apply Hiff. apply Hspec. exact Hgk.
  - intros k Hk' Hex. apply Hiff in Hex. apply Hspec in Hex. rewrite (Hmin k Hk') in Hex. discriminate.
Qed.
