(* Completeness of the MinGenSet rows (C15): every generating multiset of size k is carried by a satisfying
   assignment of encode_mgs I k (partition constraints included).  Steps: genset is permutation invariant; sort g;
   explicit assignment (Gen = g, X = multiplicities, Pi = X * Gen, Bit/Comp = binary digits of X and digit * Gen). *)
From Coq Require Import List NArith ZArith QArith Lqa Bool Lia Permutation Sorting.Sorted.
Import ListNotations.
From FP Require Import Lin Blocks BlocksProofs PathEnc PathEncProofs MiscEnc MiscEncProofs.
Set Default Timeout 60.
Open Scope Q_scope.

(* ---------------------------------------------------------------- gen_by through lists of pairs *)
Definition pair_sum (ps : list (Z * Q)) : Q := sumq (fun p => inject_Z (fst p) * snd p) ps.

Lemma dotz_combine : forall xs g, length xs = length g -> dotz xs g == pair_sum (combine xs g).
Proof.
  induction xs as [|x xs IH]; intros [|v g] H; try discriminate; cbn [dotz combine]; [reflexivity|].
  unfold pair_sum in *. cbn [sumq fst snd]. rewrite IH by (cbn in H; lia). reflexivity.
Qed.

Lemma dotz_pairs ps : dotz (map fst ps) (map snd ps) == pair_sum ps.
Proof. induction ps as [|[x v] ps IH]; cbn [map dotz fst snd]; [reflexivity|]. unfold pair_sum in *. cbn [sumq fst snd]. rewrite IH. reflexivity. Qed.

Lemma map_snd_combine {A B} : forall (xs : list A) (g : list B), length xs = length g -> map snd (combine xs g) = g.
Proof. induction xs as [|x xs IH]; intros [|v g] H; try discriminate; cbn; [reflexivity|]. rewrite IH by (cbn in H; lia). reflexivity. Qed.
Lemma map_fst_combine {A B} : forall (xs : list A) (g : list B), length xs = length g -> map fst (combine xs g) = xs.
Proof. induction xs as [|x xs IH]; intros [|v g] H; try discriminate; cbn; [reflexivity|]. rewrite IH by (cbn in H; lia). reflexivity. Qed.

Lemma gen_by_perm m g g' a : Permutation g g' -> gen_by m g a -> gen_by m g' a.
Proof.
  intros HP (xs & Hl & Hf & He).
  assert (HP' : Permutation g' (map snd (combine xs g))) by (rewrite (map_snd_combine _ _ Hl); symmetry; exact HP).
  destruct (Permutation_map_inv _ _ HP') as (ps & Hg' & Hps).
  exists (map fst ps). split; [rewrite Hg', !map_length; reflexivity|]. split.
  - apply Forall_forall. intros x Hx. apply in_map_iff in Hx. destruct Hx as ([x' v] & <- & Hin). cbn [fst].
    assert (Hin' : In (x', v) (combine xs g)) by (eapply Permutation_in; [symmetry; exact Hps|exact Hin]).
    apply in_combine_l in Hin'. rewrite Forall_forall in Hf. apply Hf. exact Hin'.
  - rewrite Hg', dotz_pairs, He, (dotz_combine _ _ Hl). unfold pair_sum. apply sumq_perm. exact Hps.
Qed.

Lemma sumql_perm l l' : Permutation l l' -> sumql l == sumql l'.
Proof. induction 1; cbn [sumql]; try lra. Qed.

Theorem genset_perm m numbers total g g' : Permutation g g' -> genset m numbers total g -> genset m numbers total g'.
Proof.
  intros HP (H0 & Hs & Hg). split; [|split].
  - apply Forall_forall. intros v Hv. rewrite Forall_forall in H0. apply H0. eapply Permutation_in; [symmetry; exact HP|exact Hv].
  - rewrite <- (sumql_perm _ _ HP). exact Hs.
  - intros a Ha. eapply gen_by_perm; [exact HP|apply Hg; exact Ha].
Qed.

(* ---------------------------------------------------------------- insertion sort on Q *)
Fixpoint qinsert (x : Q) (l : list Q) : list Q :=
  match l with [] => [x] | y :: r => if Qle_bool x y then x :: y :: r else y :: qinsert x r end.
Fixpoint qsort (l : list Q) : list Q := match l with [] => [] | x :: r => qinsert x (qsort r) end.

Lemma qinsert_perm x l : Permutation (x :: l) (qinsert x l).
Proof.
  induction l as [|y r IH]; cbn [qinsert]; [reflexivity|]. destruct (Qle_bool x y); [reflexivity|].
  rewrite perm_swap. constructor. exact IH.
Qed.
Lemma qsort_perm l : Permutation l (qsort l).
Proof. induction l as [|x r IH]; cbn [qsort]; [constructor|]. rewrite <- qinsert_perm. constructor. exact IH. Qed.

Lemma qinsert_sorted x l : Sorted Qle l -> Sorted Qle (qinsert x l).
Proof.
  induction l as [|y r IH]; intros H; cbn [qinsert]; [repeat constructor|].
  destruct (Qle_bool x y) eqn:E.
  - apply Qle_bool_iff in E. constructor; [exact H|constructor; exact E].
  - assert (Hyx : y <= x). { apply Qlt_le_weak. apply Qnot_le_lt. intros C. apply Qle_bool_iff in C. congruence. }
    inversion H as [|? ? Hr Hh]; subst. constructor; [apply IH; exact Hr|].
    destruct r as [|z r']; cbn [qinsert]; [constructor; exact Hyx|].
    destruct (Qle_bool x z); constructor; [exact Hyx|]. inversion Hh; subst. assumption.
Qed.
Lemma qsort_sorted l : Sorted Qle (qsort l).
Proof. induction l as [|x r IH]; cbn [qsort]; [constructor|]. apply qinsert_sorted. exact IH. Qed.

Lemma sorted_adjacent : forall l, Sorted Qle l -> forall i, (i + 1 < length l)%nat -> nth i l 0 <= nth (i + 1) l 0.
Proof.
  induction l as [|x r IH]; intros H i Hi; [cbn in Hi; lia|].
  inversion H as [|? ? Hr Hh]; subst. destruct i as [|i].
  - destruct r as [|y r']; [cbn in Hi; lia|]. inversion Hh; subst. cbn. assumption.
  - cbn [nth Nat.add]. apply IH; [exact Hr|cbn in Hi; lia].
Qed.

(* ---------------------------------------------------------------- list helpers *)
Lemma sumq_seq_nth (l : list Q) : sumq (fun n => nth n l 0) (seq 0 (length l)) == sumql l.
Proof.
  induction l as [|x l IH]; cbn [length seq sumq sumql nth]; [reflexivity|].
  rewrite <- seq_shift, sumq_map. cbn [nth]. rewrite IH. reflexivity.
Qed.

Lemma sumq_seq_dotz : forall (xs : list Z) (g : list Q), length xs = length g ->
  sumq (fun n => inject_Z (nth n xs 0%Z) * nth n g 0) (seq 0 (length g)) == dotz xs g.
Proof.
  induction xs as [|x xs IH]; intros [|v g] H; try discriminate; cbn [length seq sumq dotz nth]; [reflexivity|].
  rewrite <- seq_shift, sumq_map. cbn [nth]. rewrite IH by (cbn in H; lia). reflexivity.
Qed.

Lemma sumq_layers (F : nat -> Q) k : sumq (fun i => F (N.to_nat i)) (layers k) == sumq F (seq 0 k).
Proof. unfold layers. rewrite sumq_map. apply sumq_ext. intros n _. rewrite Nnat.Nat2N.id. reflexivity. Qed.

Lemma nth_le_sumql : forall l, Forall (fun v => 0 <= v) l -> forall i, 0 <= nth i l 0 <= sumql l.
Proof.
  induction 1 as [|x l Hx Hl IH]; intros i.
  - destruct i; cbn; lra.
  - assert (0 <= sumql l) by (destruct (IH 0%nat); lra). destruct i as [|i]; cbn [nth sumql]; [lra|]. destruct (IH i). lra.
Qed.

Lemma Forall_nth_default {A} (P : A -> Prop) l d i : Forall P l -> P d -> P (nth i l d).
Proof. intros Hf Hd. destruct (nth_in_or_default i l d) as [H| ->]; [rewrite Forall_forall in Hf; apply Hf; exact H|exact Hd]. Qed.

Lemma Forall2_nth {A B} (P : A -> B -> Prop) l1 l2 d1 d2 : Forall2 P l1 l2 -> forall n, (n < length l1)%nat -> P (nth n l1 d1) (nth n l2 d2).
Proof. induction 1 as [|x y l1 l2 Hxy _ IH]; intros n Hn; [cbn in Hn; lia|]. destruct n; cbn [nth]; [exact Hxy|apply IH; cbn in Hn; lia]. Qed.

Lemma valq_scale c : forall bs, valq (map (fun b => b * c) bs) == valq bs * c.
Proof. induction bs as [|b bs IH]; cbn [map valq]; [ring|]. rewrite IH. ring. Qed.

Lemma comps_ok c ub : 0 <= c <= ub -> forall bs, Forall bin bs ->
  Forall2 (fun b m => 0 <= m <= ub /\ mcc b c m 0 ub) bs (map (fun b => b * c) bs).
Proof.
  intros Hc. induction 1 as [|b bs Hb _ IH]; cbn [map]; constructor; [|exact IH]. split.
  - destruct Hb as [E|E]; rewrite E; lra.
  - apply (mcc_exact b c (b * c) 0 ub Hb Hc). reflexivity.
Qed.

Lemma is_int_inject z : is_int (inject_Z z). Proof. exists z. reflexivity. Qed.
Lemma is_int_mul p q : is_int p -> is_int q -> is_int (p * q).
Proof. intros [z1 H1] [z2 H2]. exists (z1 * z2)%Z. rewrite H1, H2, inject_Z_mult. reflexivity. Qed.

Lemma list_max_ge_in d l x : In x l -> x <= list_max d l.
Proof. intros H. apply (proj2 (list_max_ge l d)). exact H. Qed.

Lemma sumq_indicator_zero p l : ~ In p l -> sumq (fun n => if (p =? n)%nat then 1 else 0) l == 0.
Proof.
  induction l as [|x l IH]; intros H; cbn [sumq]; [reflexivity|].
  destruct (p =? x)%nat eqn:E; [apply Nat.eqb_eq in E; exfalso; apply H; left; symmetry; exact E|].
  rewrite IH by (intros C; apply H; right; exact C). ring.
Qed.

Lemma sumq_indicator p : forall t, (p < t)%nat -> sumq (fun n => if (p =? n)%nat then 1 else 0) (seq 0 t) == 1.
Proof.
  intros t Hp. replace t with (p + (1 + (t - p - 1)))%nat by lia. rewrite !seq_app, !sumq_app. cbn [seq sumq Nat.add].
  rewrite Nat.eqb_refl, !sumq_indicator_zero; [ring| |]; rewrite in_seq; lia.
Qed.

Lemma sumq_seq_part : forall (ps : list nat) (g : list Q) j, length ps = length g ->
  sumq (fun n => (if (nth n ps 0%nat =? j)%nat then 1 else 0) * nth n g 0) (seq 0 (length g)) == part_sum ps g j.
Proof.
  induction ps as [|p ps IH]; intros [|v g] j H; try discriminate; cbn [length seq sumq part_sum nth]; [reflexivity|].
  rewrite <- seq_shift, sumq_map. cbn [nth]. rewrite IH by (cbn in H; lia). destruct (p =? j)%nat; ring.
Qed.

Lemma len_le_fold_max (cs : list (list Q)) cons : In cons cs -> (length cons <= fold_right Nat.max 0%nat (map (@length Q) cs))%nat.
Proof. induction cs as [|c l IH]; intros H; [destruct H|]. cbn [map fold_right]. destruct H as [->|H]; [lia|specialize (IH H); lia]. Qed.

(* ---------------------------------------------------------------- the assignment *)
Section Complete.
  Variable I : mgs_inst.
  Variable g : list Q.
  Variable xss : list (list Z).
  Variable pss : list (list nat).          (* per partition constraint c: the part every element is put into *)
  Let k := length g.
  Let nb := num_bits (prod_ub I).
  Let total := mg_total I.
  Let numbers := mg_numbers I.
  Let mult := mg_mult I.

  Definition gi (i : N) : Q := nth (N.to_nat i) g 0.
  Definition xij (i j : N) : Z := nth (N.to_nat i) (nth (N.to_nat j) xss []) 0%Z.
  Definition bitv (i j b : N) : Q := nth (N.to_nat b) (bits nb (xij i j)) 0.
  Definition yv (i j c : N) : Q := if (nth (N.to_nat i) (nth (N.to_nat c) pss []) 0 =? N.to_nat j)%nat then 1 else 0.

  Definition mgs_assign (v : var) : Q :=
    match vidx v with
    | [i] => if (vfam v =? fGen)%N then gi i else 0
    | [i; j] => if (vfam v =? fX)%N then inject_Z (xij i j)
                else if (vfam v =? fPi)%N then inject_Z (xij i j) * gi i else 0
    | [i; j; c] => if (vfam v =? fY)%N then yv i j c else if (vfam v =? fPiY)%N then yv i j c * gi i else 0
    | [p; i; j; b] => if (vfam v =? fBit)%N then bitv i j b
                      else if (vfam v =? fComp)%N then bitv i j b * gi i else 0
    | _ => 0
    end.

  Lemma asg_gen i : mgs_assign (Gen i) = gi i. Proof. reflexivity. Qed.
  Lemma asg_x i j : mgs_assign (Xv i j) = inject_Z (xij i j). Proof. reflexivity. Qed.
  Lemma asg_pi i j : mgs_assign (Pij i j) = inject_Z (xij i j) * gi i. Proof. reflexivity. Qed.
  Lemma asg_bit i j b : mgs_assign (Bit (Pij i j) b) = bitv i j b. Proof. reflexivity. Qed.
  Lemma asg_comp i j b : mgs_assign (Comp (Pij i j) b) = bitv i j b * gi i. Proof. reflexivity. Qed.
  Lemma asg_y i j c : mgs_assign (Yv i j c) = yv i j c. Proof. reflexivity. Qed.
  Lemma asg_piy i j c : mgs_assign (PiY i j c) = yv i j c * gi i. Proof. reflexivity. Qed.

  Hypothesis Hp : Forall2 (fun cons ps => length ps = k /\ Forall (fun p => (p < parts_t I)%nat) ps /\
                                       forall j v, nth_error cons j = Some v -> part_sum ps g j == v) (parts_of I) pss.
  Hypothesis Hmult : (1 <= mult)%nat.
  Hypothesis Hpos : Forall (fun v => 0 <= v) g.
  Hypothesis Hsum : sumql g == total.
  Hypothesis Hsorted : Sorted Qle g.
  Hypothesis Hint : mg_int I = true -> Forall is_int g.
  Hypothesis Hx : Forall2 (fun a xs => length xs = k /\ Forall (fun x => (0 <= x <= Z.of_nat mult)%Z) xs /\ a == dotz xs g) numbers xss.

  Lemma total_nonneg : 0 <= total.
  Proof. destruct (nth_le_sumql g Hpos 0%nat). rewrite <- Hsum. lra. Qed.

  Lemma gi_range i : 0 <= gi i <= total.
  Proof. unfold gi. rewrite <- Hsum. apply nth_le_sumql. exact Hpos. Qed.

  Lemma gi_int i : mg_int I = true -> is_int (gi i).
  Proof. intros H. unfold gi. apply Forall_nth_default; [apply Hint; exact H|exists 0%Z; reflexivity]. Qed.

  Lemma xs_of j : In j (idxs numbers) ->
    let xs := nth (N.to_nat j) xss [] in
    length xs = k /\ Forall (fun x => (0 <= x <= Z.of_nat mult)%Z) xs /\ nth (N.to_nat j) numbers 0 == dotz xs g.
  Proof.
    intros Hj. apply in_layers in Hj. destruct Hj as (n & Hn & ->). rewrite Nnat.Nat2N.id.
    apply (Forall2_nth _ _ _ 0 [] Hx). exact Hn.
  Qed.

  Lemma xij_range i j : In j (idxs numbers) -> (0 <= xij i j <= Z.of_nat mult)%Z.
  Proof.
    intros Hj. destruct (xs_of j Hj) as (_ & Hf & _). unfold xij.
    apply (Forall_nth_default (fun x => (0 <= x <= Z.of_nat mult)%Z)); [exact Hf|lia].
  Qed.

  Lemma mult1_eq : mult1 I = true -> mult = 1%nat.
  Proof. unfold mult1. intros H. apply Nat.eqb_eq in H. exact H. Qed.

  (* pi_ij = x_ij * g_i is at most the number it contributes to *)
  Lemma pi_le_number i j : In i (layers k) -> In j (idxs numbers) ->
    inject_Z (xij i j) * gi i <= nth (N.to_nat j) numbers 0.
  Proof.
    intros Hi Hj. destruct (xs_of j Hj) as (Hl & Hf & He). cbn zeta in *. rewrite He.
    apply in_layers in Hi. destruct Hi as (n & Hn & ->). unfold xij, gi. rewrite Nnat.Nat2N.id.
    set (xs := nth (N.to_nat j) xss []) in *. clearbody xs. clear He Hj.
    revert xs n Hl Hf Hn. unfold k. clear Hx Hsorted Hint Hsum Hp. induction g as [|v g' IH]; intros xs n Hl Hf Hn; [cbn in Hn; lia|].
    destruct xs as [|x xs]; [discriminate|]. inversion Hf as [|? ? Hx0 Hf']; subst. inversion Hpos as [|? ? Hv Hpos']; subst.
    assert (Hrest : 0 <= dotz xs g').
    { clear - Hf' Hpos'. revert xs Hf'. induction Hpos' as [|w l Hw _ IHl]; intros xs Hf'; destruct xs as [|y ys]; cbn [dotz]; try lra.
      inversion Hf' as [|? ? Hy Hf'']; subst. specialize (IHl ys Hf''). assert (0 <= inject_Z y) by (change 0 with (inject_Z 0); rewrite <- Zle_Qle; lia). nra. }
    assert (Hx0' : 0 <= inject_Z x) by (change 0 with (inject_Z 0); rewrite <- Zle_Qle; lia).
    cbn [dotz]. destruct n as [|n]; cbn [nth].
    - lra.
    - assert (inject_Z (nth n xs 0%Z) * nth n g' 0 <= dotz xs g') by (apply IH; [exact Hpos'|cbn in Hl; lia|exact Hf'|cbn in Hn; lia]). nra.
  Qed.

  Lemma inj_nonneg z : (0 <= z)%Z -> 0 <= inject_Z z.
  Proof. intros H. change 0 with (inject_Z 0). rewrite <- Zle_Qle. exact H. Qed.

  (* the bit-expansion block of one product (max_multiplicity > 1) *)
  Lemma prod_ok i j : In i (layers k) -> In j (idxs numbers) ->
    Forall (sat_col mgs_assign) (intprod_cols (Pij i j) 0 (prod_ub I) nb) /\
    Forall (sat_row mgs_assign) (intprod_rows (Xv i j) (Gen i) (Pij i j) 0 (prod_ub I) nb).
  Proof.
    intros Hi Hj.
    apply (intprod_rows_sem (Xv i j) (Gen i) (Pij i j) 0 (prod_ub I) nb
             ltac:(split; discriminate) ltac:(split; discriminate) ltac:(split; discriminate) mgs_assign).
    cbn zeta. pose proof (xij_range i j Hj) as Hr. pose proof (mgs_bits_suffice I total_nonneg) as Hb. fold mult nb in Hb.
    destruct (bits_spec nb (xij i j) ltac:(lia)) as (Hlen & Hbin & Hval).
    assert (E1 : map (fun b => mgs_assign (Bit (Pij i j) (N.of_nat b))) (seq 0 nb) = bits nb (xij i j)).
    { rewrite <- Hlen at 1. apply map_seq_nth. intros b _. rewrite asg_bit. unfold bitv. cbn [Nat.add]. rewrite Nnat.Nat2N.id. reflexivity. }
    assert (E2 : map (fun b => mgs_assign (Comp (Pij i j) (N.of_nat b))) (seq 0 nb) = map (fun q => q * gi i) (bits nb (xij i j))).
    { rewrite <- E1. rewrite map_map. apply map_ext. intros b. rewrite asg_comp, asg_bit. reflexivity. }
    rewrite E1, E2, asg_gen, asg_x, asg_pi. split; [exact Hbin|]. split; [|split].
    - apply comps_ok; [|exact Hbin]. destruct (gi_range i). destruct (prod_ub_ge I). fold total in H1. lra.
    - exact Hval.
    - rewrite valq_scale, Hval. reflexivity.
  Qed.

  Lemma x_bin i j : mult1 I = true -> In j (idxs numbers) -> bin (inject_Z (xij i j)).
  Proof.
    intros Hm Hj. pose proof (xij_range i j Hj) as Hr. rewrite (mult1_eq Hm) in Hr.
    assert (xij i j = 0 \/ xij i j = 1)%Z as [->| ->] by lia; [left|right]; reflexivity.
  Qed.

  Lemma number_le_pi_ub j : In j (idxs numbers) -> mult1 I = false -> nth (N.to_nat j) numbers 0 <= pi_ub I.
  Proof.
    intros Hj Hm. unfold pi_ub. rewrite Hm. apply list_max_ge_in. apply nth_In.
    apply in_layers in Hj. destruct Hj as (n & Hn & ->). rewrite Nnat.Nat2N.id. exact Hn.
  Qed.

  Lemma yv_bin i j c : bin (yv i j c).
  Proof. unfold yv. destruct (_ =? _)%nat; [right|left]; reflexivity. Qed.

  Lemma parts_nth nc cons : nth_error (parts_of I) nc = Some cons ->
    let ps := nth nc pss [] in
    length ps = k /\ Forall (fun p => (p < parts_t I)%nat) ps /\ forall j v, nth_error cons j = Some v -> part_sum ps g j == v.
  Proof.
    intros H. assert (Hn : (nc < length (parts_of I))%nat) by (apply nth_error_Some; congruence).
    pose proof (Forall2_nth _ _ _ [] [] Hp nc Hn) as HH. cbn beta in HH. rewrite (nth_error_nth _ _ [] H) in HH. exact HH.
  Qed.

  Lemma len_le_parts_t cons : In cons (parts_of I) -> (length cons <= parts_t I)%nat.
  Proof. apply len_le_fold_max. Qed.

  Lemma part_index_lt_t i c : In i (layers k) -> In c (idxs (parts_of I)) ->
    (nth (N.to_nat i) (nth (N.to_nat c) pss []) 0 < parts_t I)%nat.
  Proof.
    intros Hi Hc. apply in_layers in Hi. destruct Hi as (n & Hn & ->). apply in_layers in Hc. destruct Hc as (nc & Hnc & ->).
    rewrite !Nnat.Nat2N.id. destruct (nth_error (parts_of I) nc) as [cons|] eqn:E; [|apply nth_error_None in E; lia].
    destruct (parts_nth nc cons E) as (Hl & Hf & _). cbn zeta in *.
    assert (In (nth n (nth nc pss []) 0%nat) (nth nc pss [])) by (apply nth_In; lia).
    rewrite Forall_forall in Hf. exact (Hf _ H).
  Qed.

  Lemma cols_ok : Forall (sat_col mgs_assign) (mgs_cols (prod_ub I) (pi_ub I) I k).
  Proof.
    unfold mgs_cols. rewrite !Forall_app. split; [|split; [|split; [|split]]].
    - apply Forall_map_iff. intros i Hi. unfold sat_col. cbn [cvar clb cub cint qcol]. rewrite asg_gen.
      destruct (gi_range i). split; [assumption|]. split; [assumption|]. apply gi_int.
    - apply Forall_flat_map. intros i Hi. apply Forall_map_iff. intros j Hj. unfold sat_col. cbn [cvar clb cub cint qcol]. rewrite asg_x.
      pose proof (xij_range i j Hj) as Hr. split; [apply inj_nonneg; lia|]. split; [|intros _; apply is_int_inject].
      unfold x_ub. destruct (mult1 I) eqn:Hm.
      + rewrite (mult1_eq Hm) in Hr. change 1 with (inject_Z 1). rewrite <- Zle_Qle. lia.
      + fold mult. rewrite <- Zle_Qle. lia.
    - apply Forall_flat_map. intros i Hi. apply Forall_map_iff. intros j Hj. unfold sat_col. cbn [cvar clb cub cint qcol]. rewrite asg_pi.
      pose proof (xij_range i j Hj) as Hr. destruct (gi_range i) as [G0 G1]. assert (X0 : 0 <= inject_Z (xij i j)) by (apply inj_nonneg; lia).
      split; [nra|]. split.
      + destruct (mult1 I) eqn:Hm.
        * unfold pi_ub. rewrite Hm. fold total. destruct (x_bin i j Hm Hj) as [E|E]; rewrite E; lra.
        * pose proof (pi_le_number i j Hi Hj). pose proof (number_le_pi_ub j Hj Hm). lra.
      + intros Hi'. apply is_int_mul; [apply is_int_inject|apply gi_int; exact Hi'].
    - destruct (mult1 I); [constructor|]. apply Forall_flat_map. intros j Hj. apply Forall_flat_map. intros i Hi. apply (prod_ok i j Hi Hj).
    - destruct (parts_of I) eqn:EP; [unfold part_cols; rewrite EP; constructor|].
      rewrite (part_cols_unfold I k) by (rewrite EP; discriminate). apply Forall_app. split; apply Forall_map_iff; intros [[i j] c] Hin; cbn [fst snd].
      + apply col_of_bin. rewrite asg_y. apply yv_bin.
      + unfold sat_col. cbn [cvar clb cub cint qcol]. rewrite asg_piy. destruct (gi_range i) as [G0 G1]. fold total.
        split; [destruct (yv_bin i j c) as [E|E]; rewrite E; lra|]. split; [destruct (yv_bin i j c) as [E|E]; rewrite E; lra|].
        intros Hi'. apply is_int_mul; [|apply gi_int; exact Hi']. unfold yv. destruct (_ =? _)%nat; [exists 1%Z|exists 0%Z]; reflexivity.
  Qed.

  Lemma rows_ok : Forall (sat_row mgs_assign) (mgs_rows (prod_ub I) I k).
  Proof.
    unfold mgs_rows. rewrite !Forall_app. split; [|split; [|split]].
    - constructor; [|constructor]. unfold row_total. rewrite sat_row_eq, eval_ones_sumq.
      transitivity (sumq (fun i => (fun n => nth n g 0) (N.to_nat i)) (layers k)); [apply sumq_ext; intros i _; rewrite asg_gen; reflexivity|].
      rewrite (sumq_layers (fun n => nth n g 0) k). unfold k. rewrite sumq_seq_nth. exact Hsum.
    - apply Forall_flat_map. intros [j aj] Hja. cbn [fst snd].
      assert (Hj : In j (idxs numbers)) by (eapply zipn_in_idxs; exact Hja).
      assert (Haj : aj = nth (N.to_nat j) numbers 0).
      { destruct (zipn_in_nth _ _ _ _ Hja) as (n & _ & -> & Hn). rewrite Nnat.Nat2N.id. rewrite Nat.sub_0_r in Hn.
        symmetry. apply nth_error_nth. exact Hn. }
      apply Forall_app. split.
      + apply Forall_flat_map. intros i Hi. unfold prod_rows. destruct (mult1 I) eqn:Hm.
        * apply (mcc_rows_exact mgs_assign (Xv i j) (Gen i) (Pij i j) 0 (mg_total I)).
          -- rewrite asg_x. apply x_bin; assumption.
          -- rewrite asg_gen. apply gi_range.
          -- rewrite asg_pi, asg_x, asg_gen. reflexivity.
        * apply (prod_ok i j Hi Hj).
      + constructor; [|constructor]. unfold row_sum_pi. cbn [fst snd]. rewrite sat_row_eq, eval_ones_sumq.
        destruct (xs_of j Hj) as (Hl & _ & He). cbn zeta in *.
        transitivity (sumq (fun i => (fun n => inject_Z (nth n (nth (N.to_nat j) xss []) 0%Z) * nth n g 0) (N.to_nat i)) (layers k));
          [apply sumq_ext; intros i _; rewrite asg_pi; reflexivity|].
        rewrite (sumq_layers (fun n => inject_Z (nth n (nth (N.to_nat j) xss []) 0%Z) * nth n g 0) k). unfold k. rewrite sumq_seq_dotz by exact Hl. rewrite Haj, He. reflexivity.
    - unfold sym_rows. apply Forall_map_iff. intros i Hi. rewrite sat_row_le. cbn [eval fst snd]. rewrite !asg_gen.
      apply in_layers in Hi. destruct Hi as (n & Hn & ->). unfold gi.
      replace (N.to_nat (N.of_nat n + 1)) with (n + 1)%nat by lia. rewrite Nnat.Nat2N.id.
      pose proof (sorted_adjacent g Hsorted n ltac:(fold k; lia)). lra.
    - destruct (parts_of I) eqn:EP; [unfold part_rows; rewrite EP; constructor|].
      rewrite (part_rows_unfold I k) by (rewrite EP; discriminate). rewrite <- EP in *. rewrite !Forall_app. split; [|split].
      + apply Forall_flat_map. intros [[i j] c] Hin. cbn beta iota.
        apply (mcc_rows_exact mgs_assign (Yv i j c) (Gen i) (PiY i j c) 0 (mg_total I)).
        * rewrite asg_y. apply yv_bin.
        * rewrite asg_gen. apply gi_range.
        * rewrite asg_piy, asg_y, asg_gen. reflexivity.
      + apply Forall_flat_map. intros i Hi. apply Forall_map_iff. intros c Hc. rewrite sat_row_eq, eval_ones_sumq.
        transitivity (sumq (fun j => (fun n => if (nth (N.to_nat i) (nth (N.to_nat c) pss []) 0 =? n)%nat then 1 else 0) (N.to_nat j)) (layers (parts_t I)));
          [apply sumq_ext; intros j _; rewrite asg_y; reflexivity|].
        rewrite (sumq_layers (fun n => if (nth (N.to_nat i) (nth (N.to_nat c) pss []) 0 =? n)%nat then 1 else 0) (parts_t I)).
        apply sumq_indicator. apply (part_index_lt_t i c Hi Hc).
      + apply Forall_flat_map. intros [c cons] Hc. cbn [fst snd]. apply Forall_map_iff. intros [j v] Hjv. cbn [fst snd].
        rewrite sat_row_eq, eval_ones_sumq.
        destruct (zipn_in_nth _ _ _ _ Hc) as (nc & Hnc & -> & Hcons). rewrite Nat.sub_0_r in Hcons.
        destruct (zipn_in_nth _ _ _ _ Hjv) as (nj & Hnj & -> & Hv). rewrite Nat.sub_0_r in Hv.
        destruct (parts_nth nc cons Hcons) as (Hl & _ & Hs).
        transitivity (sumq (fun i => (fun n => (if (nth n (nth nc pss []) 0 =? nj)%nat then 1 else 0) * nth n g 0) (N.to_nat i)) (layers k)).
        { apply sumq_ext. intros i _. rewrite asg_piy. unfold yv, gi. rewrite !Nnat.Nat2N.id. reflexivity. }
        rewrite (sumq_layers (fun n => (if (nth n (nth nc pss []) 0 =? nj)%nat then 1 else 0) * nth n g 0) k).
        unfold k. rewrite (sumq_seq_part _ _ nj Hl). apply Hs. exact Hv.
  Qed.

  Theorem mgs_assign_sat : sat mgs_assign (encode_mgs I k).
  Proof. split; [exact cols_ok|exact rows_ok]. Qed.
End Complete.

(* ---------------------------------------------------------------- completeness *)
Lemma Forall2_choice {A B} (P : A -> B -> Prop) : forall l, (forall a, In a l -> exists b, P a b) -> exists bs, Forall2 P l bs.
Proof.
  induction l as [|x l IH]; intros H; [exists []; constructor|].
  destruct (H x (or_introl eq_refl)) as (b & Hb). destruct IH as (bs & Hbs); [intros a Ha; apply H; right; exact Ha|].
  exists (b :: bs). constructor; assumption.
Qed.

(* ---- partition constraints: every element in exactly one (existing) part of the constraint, part sums as given ---- *)
(* [part_ok_t t]: the part indices range over 0 .. t-1; the rows use t = the length of the longest constraint (parts_t), so an
   element may sit in a part index that the constraint itself does not have (such an element adds to no constrained sum) *)
Definition part_ok_t (t : nat) (g : list Q) (cons : list Q) : Prop :=
  exists ps, length ps = length g /\ Forall (fun p => (p < t)%nat) ps /\
             forall j v, nth_error cons j = Some v -> part_sum ps g j == v.
Definition part_ok_strict (g : list Q) (cons : list Q) : Prop := part_ok_t (length cons) g cons.

Lemma part_ok_t_mono t t' g cons : (t <= t')%nat -> part_ok_t t g cons -> part_ok_t t' g cons.
Proof.
  intros Ht (ps & Hl & Hf & Hs). exists ps. split; [exact Hl|]. split; [|exact Hs].
  eapply Forall_impl; [|exact Hf]. intros p Hp. cbn beta in *. lia.
Qed.

Definition ppair_sum (j : nat) (l : list (nat * Q)) : Q := sumq (fun p => if (fst p =? j)%nat then snd p else 0) l.
Lemma part_sum_combine j : forall ps g, length ps = length g -> part_sum ps g j == ppair_sum j (combine ps g).
Proof.
  induction ps as [|p ps IH]; intros [|v g] H; try discriminate; cbn [part_sum combine]; [reflexivity|].
  unfold ppair_sum in *. cbn [sumq fst snd]. rewrite IH by (cbn in H; lia). reflexivity.
Qed.
Lemma part_sum_pairs j l : part_sum (map fst l) (map snd l) j == ppair_sum j l.
Proof. induction l as [|[p v] l IH]; cbn [map part_sum fst snd]; [reflexivity|]. unfold ppair_sum in *. cbn [sumq fst snd]. rewrite IH. reflexivity. Qed.

Lemma part_ok_t_perm t g g' cons : Permutation g g' -> part_ok_t t g cons -> part_ok_t t g' cons.
Proof.
  intros HP (ps & Hl & Hf & Hs).
  assert (HP' : Permutation g' (map snd (combine ps g))) by (rewrite (map_snd_combine _ _ Hl); symmetry; exact HP).
  destruct (Permutation_map_inv _ _ HP') as (l & Hg' & Hl').
  exists (map fst l). split; [rewrite Hg', !map_length; reflexivity|]. split.
  - apply Forall_forall. intros p Hin. apply in_map_iff in Hin. destruct Hin as ([p' v] & <- & Hin). cbn [fst].
    assert (Hin' : In (p', v) (combine ps g)) by (eapply Permutation_in; [symmetry; exact Hl'|exact Hin]).
    apply in_combine_l in Hin'. rewrite Forall_forall in Hf. apply Hf. exact Hin'.
  - intros j v Hv. rewrite Hg', part_sum_pairs, <- (Hs j v Hv), (part_sum_combine j _ _ Hl). unfold ppair_sum. symmetry. apply sumq_perm. exact Hl'.
Qed.

(* what MinGenSet looks for: a generating multiset, integral when weight_type = int, meeting every partition constraint *)
Lemma part_ok_strict_perm g g' cons : Permutation g g' -> part_ok_strict g cons -> part_ok_strict g' cons.
Proof. apply part_ok_t_perm. Qed.

Definition genset_for (I : mgs_inst) (g : list Q) : Prop :=
  genset (mg_mult I) (mg_numbers I) (mg_total I) g /\ (mg_int I = true -> Forall is_int g) /\
  Forall (part_ok_strict g) (parts_of I).

(* EXACTLY what the rows admit (MgsPartsIff.v proves the converse): part indices below the length of the longest constraint *)
Definition genset_rows (I : mgs_inst) (g : list Q) : Prop :=
  genset (mg_mult I) (mg_numbers I) (mg_total I) g /\ (mg_int I = true -> Forall is_int g) /\
  Forall (part_ok_t (parts_t I) g) (parts_of I).

Lemma genset_for_rows I g : genset_for I g -> genset_rows I g.
Proof.
  intros (H1 & H2 & H3). split; [exact H1|]. split; [exact H2|]. apply Forall_forall. intros cons Hc. rewrite Forall_forall in H3.
  apply (part_ok_t_mono (length cons)); [apply len_le_fold_max; exact Hc|apply H3; exact Hc].
Qed.

(* COMPLETENESS: every such multiset of size k (in any order) is admitted by the rows of _create_solver(k).
   Side conditions: max_multiplicity >= 1 only; nothing about the numbers or the total. *)
Theorem mgs_enc_complete_rows (I : mgs_inst) (k : nat) (g : list Q) :
  (1 <= mg_mult I)%nat -> length g = k -> genset_rows I g -> exists a, sat a (encode_mgs I k).
Proof.
  intros Hm Hl (Hg & Hi & Hparts). pose proof (qsort_perm g) as HP.
  apply (genset_perm _ _ _ _ _ HP) in Hg. destruct Hg as (Hpos & Hsum & Hgen).
  destruct (Forall2_choice (fun a xs => length xs = length (qsort g) /\ Forall (fun x => (0 <= x <= Z.of_nat (mg_mult I))%Z) xs /\ a == dotz xs (qsort g))
              (mg_numbers I)) as (xss & Hx).
  { intros a Ha. destruct (Hgen a Ha) as (xs & H1 & H2 & H3). exists xs. tauto. }
  destruct (Forall2_choice (fun cons ps => length ps = length (qsort g) /\ Forall (fun p => (p < parts_t I)%nat) ps /\
                                             forall j v, nth_error cons j = Some v -> part_sum ps (qsort g) j == v) (parts_of I)) as (pss & Hps).
  { intros cons Hc. rewrite Forall_forall in Hparts. exact (part_ok_t_perm _ _ _ _ HP (Hparts cons Hc)). }
  exists (mgs_assign I (qsort g) xss pss). rewrite <- Hl, (Permutation_length HP).
  apply mgs_assign_sat; try assumption; [apply qsort_sorted|].
  intros Hint. apply Forall_forall. intros v Hv. specialize (Hi Hint). rewrite Forall_forall in Hi. apply Hi.
  eapply Permutation_in; [symmetry; exact HP|exact Hv].
Qed.

Theorem mgs_enc_complete (I : mgs_inst) (k : nat) (g : list Q) :
  (1 <= mg_mult I)%nat -> length g = k -> genset_for I g -> exists a, sat a (encode_mgs I k).
Proof. intros Hm Hl Hg. apply (mgs_enc_complete_rows I k g Hm Hl). apply genset_for_rows. exact Hg. Qed.

(* without partition constraints: the model for k is satisfiable exactly when a generating multiset of size k exists *)
Theorem mgs_feasible_iff (I : mgs_inst) (k : nat) : mg_parts I = None -> (1 <= mg_mult I)%nat ->
  ((exists a, sat a (encode_mgs I k)) <-> exists g, length g = k /\ genset_for I g).
Proof.
  intros Hp Hm. split.
  - intros (a & Hs). destruct (mgs_sound_multiset I k a Hm Hs) as (Hl & Hg & Hi). cbn zeta in *.
    eexists. split; [exact Hl|]. split; [exact Hg|]. split; [exact Hi|]. unfold parts_of. rewrite Hp. constructor.
  - intros (g & Hl & Hg). eapply mgs_enc_complete; eassumption.
Qed.

(* pre-processing does not change the generating multisets (both directions) *)
Theorem genset_preprocess_iff rm mult numbers total g : (1 <= mult)%nat ->
  (genset mult (mgs_preprocess rm mult numbers total) total g <-> genset mult numbers total g).
Proof.
  intros Hm. split.
  - destruct rm; [apply complement_removal_sound; exact Hm|intros H; exact H].
  - intros (H0 & Hs & Hg). split; [exact H0|]. split; [exact Hs|]. intros a Ha. apply Hg.
    destruct rm; [|exact Ha]. unfold mgs_preprocess, mgs_preprocess_gen in Ha. apply qnodup_incl in Ha. apply filter_In in Ha. tauto.
Qed.

(* MinGenSet.solve under the solver specification: the reported size is the least size >= lowerbound of a generating
   multiset (for the retained numbers, equivalently -- genset_preprocess_iff -- for the caller's numbers) *)
Section Minimum.
  Variable I : mgs_inst.
  Variable status : nat -> mstatus.
  Hypothesis Hparts : mg_parts I = None.
  Hypothesis Hmult : (1 <= mg_mult I)%nat.
  Hypothesis solver_optimal : forall k, status k = MgOptimal -> exists a, sat a (encode_mgs I k).
  Hypothesis solver_infeasible : forall k, status k = MgInfeasible -> forall a, ~ sat a (encode_mgs I k).

  Theorem mgs_returns_minimum lb n extra tried k : mgsm_loop status lb n extra = (tried, Some k) ->
    (exists g, length g = k /\ genset_for I g) /\ (Nat.max 1 lb <= k)%nat /\
    forall k' g, (Nat.max 1 lb <= k' < k)%nat -> length g = k' -> ~ genset_for I g.
  Proof.
    intros H.
    destruct (mgsm_loop_sound (fun k => exists a, sat a (encode_mgs I k)) status solver_optimal
                (fun k Hk Hex => let '(ex_intro _ a Ha) := Hex in solver_infeasible k Hk a Ha) lb n extra tried k H) as (Hf & _ & Hlb & Hmin).
    split; [apply (mgs_feasible_iff I k Hparts Hmult); exact Hf|]. split; [exact Hlb|].
    intros k' g Hk' Hl Hg. apply (Hmin k' Hk'). apply (mgs_feasible_iff I k' Hparts Hmult). exists g. split; assumption.
  Qed.

  (* and it reports a size whenever some size of its range has a generating multiset and the solver is conclusive *)
  Theorem mgs_solves_when_possible lb n extra : (forall k, status k = MgOptimal \/ status k = MgInfeasible) ->
    (exists k g, In k (mgsm_range lb n extra) /\ length g = k /\ genset_for I g) ->
    exists tried k, mgsm_loop status lb n extra = (tried, Some k).
  Proof.
    intros Hc (k & g & Hin & Hl & Hg).
    apply (mgsm_loop_complete (fun k => exists a, sat a (encode_mgs I k)) status
             (fun k Hk Hex => let '(ex_intro _ a Ha) := Hex in solver_infeasible k Hk a Ha) lb n extra Hc).
    exists k. split; [exact Hin|]. apply (mgs_feasible_iff I k Hparts Hmult). exists g. split; assumption.
  Qed.
End Minimum.

(* with partition constraints: the reported size carries a generating multiset (soundness) and no smaller size from the
   lower bound on has a generating multiset that meets the partition constraints (completeness) *)
Theorem mgs_returns_minimum_parts (I : mgs_inst) (status : nat -> mstatus) :
  (1 <= mg_mult I)%nat ->
  (forall k, status k = MgOptimal -> exists a, sat a (encode_mgs I k)) ->
  (forall k, status k = MgInfeasible -> forall a, ~ sat a (encode_mgs I k)) ->
  forall lb n extra tried k, mgsm_loop status lb n extra = (tried, Some k) ->
  (exists g, length g = k /\ genset (mg_mult I) (mg_numbers I) (mg_total I) g /\ (mg_int I = true -> Forall is_int g)) /\ (Nat.max 1 lb <= k)%nat /\
  forall k' g, (Nat.max 1 lb <= k' < k)%nat -> length g = k' -> ~ genset_for I g.
Proof.
  intros Hm Hopt Hinf lb n extra tried k H.
  destruct (mgsm_loop_sound (fun k => exists a, sat a (encode_mgs I k)) status Hopt
              (fun k Hk Hex => let '(ex_intro _ a Ha) := Hex in Hinf k Hk a Ha) lb n extra tried k H) as ((a & Hs) & _ & Hlb & Hmin).
  split; [|split; [exact Hlb|]].
  - destruct (mgs_sound_multiset I k a Hm Hs) as (Hl & Hg & Hi). eexists. split; [exact Hl|]. split; assumption.
  - intros k' g Hk' Hl Hg. apply (Hmin k' Hk'). eapply mgs_enc_complete; eassumption.
Qed.

(* non-vacuity: the instance on which the OLD encoder had no solution (numbers 1/2, 1/4, total 1, multiplicity 2,
   generating multiset {3/4, 1/4} given unsorted) is admitted by the encoder as it is *)
Definition ex_complete_inst : mgs_inst := {| mg_numbers := [1 # 2; 1 # 4]; mg_total := 1; mg_int := false; mg_mult := 2; mg_parts := None |}.
Lemma ex_complete_genset : genset_for ex_complete_inst [3 # 4; 1 # 4].
Proof.
  split; [|split; [discriminate|constructor]]. cbn [mg_mult mg_numbers mg_total ex_complete_inst]. split; [repeat constructor; lra|]. split; [vm_compute; reflexivity|].
  intros a [<-|[<-|[]]].
  - exists [0; 2]%Z. split; [reflexivity|]. split; [repeat (apply Forall_cons; [cbn; lia|]); apply Forall_nil|]. vm_compute; reflexivity.
  - exists [0; 1]%Z. split; [reflexivity|]. split; [repeat (apply Forall_cons; [cbn; lia|]); apply Forall_nil|]. vm_compute; reflexivity.
Qed.
Lemma ex_complete_sat : exists a, sat a (encode_mgs ex_complete_inst 2).
Proof. apply (mgs_enc_complete ex_complete_inst 2 [3 # 4; 1 # 4]); [cbn; lia|reflexivity|exact ex_complete_genset]. Qed.

(* non-vacuity with partition constraints: numbers [1,1], total 6, constraints [2,2,2] and [6], multiset {2,1,2,1} (unsorted) *)
Definition ex_parts_inst : mgs_inst := {| mg_numbers := [1; 1]; mg_total := 6; mg_int := true; mg_mult := 1; mg_parts := Some [[2; 2; 2]; [6]] |}.
Lemma ex_parts_genset : genset_for ex_parts_inst [2; 1; 2; 1].
Proof.
  split; [|split].
  - cbn [mg_mult mg_numbers mg_total ex_parts_inst]. split; [repeat constructor; lra|]. split; [vm_compute; reflexivity|].
    intros a [<-|[<-|[]]]; exists [0; 1; 0; 0]%Z; (split; [reflexivity|]); (split; [repeat (apply Forall_cons; [cbn; lia|]); apply Forall_nil|]); vm_compute; reflexivity.
  - intros _. repeat constructor; [exists 2%Z|exists 1%Z|exists 2%Z|exists 1%Z]; reflexivity.
  - cbn [parts_of mg_parts ex_parts_inst]. constructor; [|constructor; [|constructor]].
    + exists [0; 2; 1; 2]%nat. split; [reflexivity|]. split; [repeat constructor|].
      intros j v H. do 3 (destruct j as [|j]; [cbn in H; injection H as <-; vm_compute; reflexivity|]). destruct j; discriminate.
    + exists [0; 0; 0; 0]%nat. split; [reflexivity|]. split; [repeat constructor|].
      intros [|j] v H; cbn in H; [injection H as <-; vm_compute; reflexivity|destruct j; discriminate].
Qed.
Lemma ex_parts_sat : exists a, sat a (encode_mgs ex_parts_inst 4).
Proof. apply (mgs_enc_complete ex_parts_inst 4 [2; 1; 2; 1]); [cbn; lia|reflexivity|exact ex_parts_genset]. Qed.
