(* NodeExp — executable model of flowpaths/nodeexpandeddigraph.py (class NodeExpandedDiGraph)
   and of the node-mode glue code that every model class wraps around it (C11).

   This property is ABOUT names, so node names are Coq [string]s (one [ascii] per Python code
   point; the harness uses names over code points 0..255).  Attribute dictionaries are
   insertion-ordered association lists with Python's [dict] update semantics; attribute values
   are opaque integers (they are only copied around by the code).

   The input graph is given exactly the way the constructor reads it: for every node (in
   [G.nodes] order) its attribute dict [G.nodes[node]], [list(G.predecessors(node))] with
   [G.edges[pred, node]], and [list(G.successors(node))] with [G.edges[node, succ]].

   The result graph is a small model of networkx.DiGraph: nodes in insertion order with their
   attribute dicts, edges in first-insertion order with their attribute dicts.  [ne_edges_view]
   is [list(G.edges(data=True))] (grouped by source node in node order, inside a group by first
   insertion).  Everything here is FAITHFUL to the code as it is, including
     - the half-initialised nodes [add_edge] creates before [add_node] reaches them,
     - original edge attributes being copied to (u.1, v.0), node attributes to v.0, v.1 and (v.0, v.1),
     - the order of [edges_to_ignore],
     - the slicing logic of get_condensed_paths ([range(0, len(path) - 1, 2)], [s[-2:]], [s[:-2]]),
     - get_expanded_subpath_constraints rejecting ANY empty constraint with ValueError before the type dispatch.
   Names are prefixed [ne_] because all models are extracted into one OCaml module. *)
From Coq Require Import List String Ascii Bool Arith ZArith.
Import ListNotations.
Local Open Scope string_scope.
Local Open Scope list_scope.

Notation ne_name := string (only parsing).
Definition ne_attrs := list (string * Z).

(* ------------------------------------------------------------------ names *)
Definition ne_exp0 (v : string) : string := String.append v ".0".
Definition ne_exp1 (v : string) : string := String.append v ".1".

(* Python slices s[:n] and s[n:] for 0 <= n *)
Fixpoint ne_sfirstn (n : nat) (s : string) : string :=
  match n, s with
  | O, _ => EmptyString
  | S _, EmptyString => EmptyString
  | S n', String c r => String c (ne_sfirstn n' r)
  end.
Fixpoint ne_sskipn (n : nat) (s : string) : string :=
  match n, s with
  | O, _ => s
  | S _, EmptyString => EmptyString
  | S n', String _ r => ne_sskipn n' r
  end.
(* s[:-2] and s[-2:]  (for len(s) < 2: "" and s) *)
Definition ne_drop_last2 (s : string) : string := ne_sfirstn (String.length s - 2) s.
Definition ne_last2 (s : string) : string := ne_sskipn (String.length s - 2) s.

(* ------------------------------------------------------------------ dicts *)
Fixpoint ne_dget (d : ne_attrs) (k : string) : option Z :=
  match d with
  | [] => None
  | (k', v) :: r => if String.eqb k' k then Some v else ne_dget r k
  end.
(* d[k] = v : an existing key keeps its position *)
Fixpoint ne_dset (d : ne_attrs) (k : string) (v : Z) : ne_attrs :=
  match d with
  | [] => [(k, v)]
  | (k', v') :: r => if String.eqb k' k then (k', v) :: r else (k', v') :: ne_dset r k v
  end.
(* d.update(d2) *)
Definition ne_dupdate (d d2 : ne_attrs) : ne_attrs :=
  fold_left (fun acc kv => ne_dset acc (fst kv) (snd kv)) d2 d.

(* ------------------------------------------------------------------ networkx.DiGraph (what the constructor uses of it) *)
Record ne_nx := { ne_xn : list (string * ne_attrs); ne_xe : list ((string * string) * ne_attrs) }.
Definition ne_nx_empty : ne_nx := {| ne_xn := []; ne_xe := [] |}.

Definition ne_edge_eqb (e f : string * string) : bool := String.eqb (fst e) (fst f) && String.eqb (snd e) (snd f).
Definition ne_has_node (g : ne_nx) (v : string) : bool := existsb (fun p => String.eqb (fst p) v) (ne_xn g).
Definition ne_has_edge (g : ne_nx) (e : string * string) : bool := existsb (fun p => ne_edge_eqb (fst p) e) (ne_xe g).

Fixpoint ne_upd_node (l : list (string * ne_attrs)) (v : string) (a : ne_attrs) :=
  match l with
  | [] => []
  | (n, d) :: r => if String.eqb n v then (n, ne_dupdate d a) :: r else (n, d) :: ne_upd_node r v a
  end.
Fixpoint ne_upd_edge (l : list ((string * string) * ne_attrs)) (e : string * string) (a : ne_attrs) :=
  match l with
  | [] => []
  | (f, d) :: r => if ne_edge_eqb f e then (f, ne_dupdate d a) :: r else (f, d) :: ne_upd_edge r e a
  end.

(* G.add_node(v, **a) *)
Definition ne_add_node (g : ne_nx) (v : string) (a : ne_attrs) : ne_nx :=
  if ne_has_node g v then {| ne_xn := ne_upd_node (ne_xn g) v a; ne_xe := ne_xe g |}
  else {| ne_xn := ne_xn g ++ [(v, ne_dupdate [] a)]; ne_xe := ne_xe g |}.
(* the implicit node creation of add_edge: "if u not in self._succ: ... self._node[u] = {}" *)
Definition ne_touch (g : ne_nx) (v : string) : ne_nx :=
  if ne_has_node g v then g else {| ne_xn := ne_xn g ++ [(v, [])]; ne_xe := ne_xe g |}.
(* G.add_edge(u, v, **a) *)
Definition ne_add_edge (g : ne_nx) (u v : string) (a : ne_attrs) : ne_nx :=
  let g1 := ne_touch (ne_touch g u) v in
  if ne_has_edge g1 (u, v) then {| ne_xn := ne_xn g1; ne_xe := ne_upd_edge (ne_xe g1) (u, v) a |}
  else {| ne_xn := ne_xn g1; ne_xe := ne_xe g1 ++ [((u, v), ne_dupdate [] a)] |}.
(* G[u][v][k] = x   (the edge exists at every call site) *)
Definition ne_set_eattr (g : ne_nx) (u v : string) (k : string) (x : Z) : ne_nx :=
  {| ne_xn := ne_xn g; ne_xe := ne_upd_edge (ne_xe g) (u, v) [(k, x)] |}.
(* list(G.edges(data=True)) *)
Definition ne_edges_view (g : ne_nx) : list ((string * string) * ne_attrs) :=
  flat_map (fun n => filter (fun e => String.eqb (fst (fst e)) (fst n)) (ne_xe g)) (ne_xn g).
Fixpoint ne_eget (l : list ((string * string) * ne_attrs)) (e : string * string) : option ne_attrs :=
  match l with
  | [] => None
  | (f, d) :: r => if ne_edge_eqb f e then Some d else ne_eget r e
  end.

(* ------------------------------------------------------------------ the input graph as the constructor reads it *)
Record ne_innode := { ne_nm : string; ne_at : ne_attrs;
                      ne_preds : list (string * ne_attrs); ne_succs : list (string * ne_attrs) }.
Definition ne_ingraph := list ne_innode.

Definition ne_is_node (G : ne_ingraph) (v : string) : bool := existsb (fun nd => String.eqb (ne_nm nd) v) G.
(* (u, v) in G.edges   ==   v in G._adj[u]   (KeyError -> False) *)
Definition ne_is_edge (G : ne_ingraph) (u v : string) : bool :=
  existsb (fun nd => String.eqb (ne_nm nd) u && existsb (fun s => String.eqb (fst s) v) (ne_succs nd)) G.

(* ------------------------------------------------------------------ errors *)
Inductive ne_err := NE_ValueError | NE_IndexError | NE_KeyError | NE_Unmodelled.
Inductive ne_res (A : Type) := NE_Ok (a : A) | NE_Err (e : ne_err).
Arguments NE_Ok {A} a.
Arguments NE_Err {A} e.
Definition ne_bind {A B} (r : ne_res A) (f : A -> ne_res B) : ne_res B :=
  match r with NE_Ok a => f a | NE_Err e => NE_Err e end.
Fixpoint ne_mapM {A B} (f : A -> ne_res B) (l : list A) : ne_res (list B) :=
  match l with
  | [] => NE_Ok []
  | a :: r => ne_bind (f a) (fun b => ne_bind (ne_mapM f r) (fun t => NE_Ok (b :: t)))
  end.

(* ------------------------------------------------------------------ __init__, lines 113-145 *)
Definition ne_state := (ne_nx * list (string * string))%type.

(* for pred in G.predecessors(node): ... *)
Definition ne_pred_step (len : option string) (n0 : string) (st : ne_state) (pe : string * ne_attrs) : ne_state :=
  let p1 := ne_exp1 (fst pe) in
  let g1 := ne_add_edge (fst st) p1 n0 (snd pe) in
  let g2 := match len with
            | Some l => match ne_dget (snd pe) l with Some _ => g1 | None => ne_set_eattr g1 p1 n0 l 0%Z end
            | None => g1
            end in
  (g2, snd st ++ [(p1, n0)]).

(* for succ in G.successors(node): self.add_edge(node1, succ0, **G.edges[node, succ]) *)
Definition ne_succ_step (n1 : string) (g : ne_nx) (se : string * ne_attrs) : ne_nx :=
  ne_add_edge g n1 (ne_exp0 (fst se)) (snd se).

(* body of "for node in G.nodes:" *)
Definition ne_node_step (flow : string) (len : option string) (st : ne_state) (nd : ne_innode) : ne_state :=
  let v := ne_nm nd in
  let a := ne_at nd in
  let n0 := ne_exp0 v in
  let n1 := ne_exp1 v in
  let g3 := ne_add_edge (ne_add_node (ne_add_node (fst st) n0 a) n1 a) n0 n1 a in
  let st4 := match ne_dget a flow with
             | Some x => (ne_set_eattr g3 n0 n1 flow x, snd st)
             | None => (g3, snd st ++ [(n0, n1)])
             end in
  let g5 := match len with
            | Some l => match ne_dget a l with Some x => ne_set_eattr (fst st4) n0 n1 l x | None => fst st4 end
            | None => fst st4
            end in
  let st6 := fold_left (ne_pred_step len n0) (ne_preds nd) (g5, snd st4) in
  (fold_left (ne_succ_step n1) (ne_succs nd) (fst st6), snd st6).

Definition ne_expand_core (G : ne_ingraph) (flow : string) (len : option string) : ne_state :=
  fold_left (ne_node_step flow len) G (ne_nx_empty, []).

(* lines 151-164 / 166-178: the synthetic global source (sink) and its edges *)
Fixpoint ne_add_starts (G : ne_ingraph) (gsrc : string) (starts : list string) (st : ne_state) : ne_res ne_state :=
  match starts with
  | [] => NE_Ok st
  | v :: r =>
      if ne_is_node G v then
        let e := (ne_exp1 gsrc, ne_exp0 v) in
        ne_add_starts G gsrc r (ne_add_edge (fst st) (fst e) (snd e) [], snd st ++ [e])
      else NE_Err NE_ValueError
  end.
Fixpoint ne_add_ends (G : ne_ingraph) (gsnk : string) (ends : list string) (st : ne_state) : ne_res ne_state :=
  match ends with
  | [] => NE_Ok st
  | v :: r =>
      if ne_is_node G v then
        let e := (ne_exp1 v, ne_exp0 gsnk) in
        ne_add_ends G gsnk r (ne_add_edge (fst st) (fst e) (snd e) [], snd st ++ [e])
      else NE_Err NE_ValueError
  end.
Definition ne_add_global (x : string) (st : ne_state) : ne_state :=
  let e := (ne_exp0 x, ne_exp1 x) in
  (ne_add_edge (ne_add_node (ne_add_node (fst st) (fst e) []) (snd e) []) (fst e) (snd e) [], snd st ++ [e]).

(* The whole constructor up to (not including) _try_filling_in_missing_flow_values, which is a call
   into networkx' min-cost flow (external engine, not modelled).  [gsrc]/[gsnk] are
   'source' + str(id(self)) / 'sink' + str(id(self)), taken from the object by the harness.
   Result: the graph and edges_to_ignore. *)
Definition ne_construct (G : ne_ingraph) (flow : string) (len : option string)
           (starts ends : list string) (try_fill : bool) (gsrc gsnk : string) : ne_res ne_state :=
  match G with
  | [] => NE_Err NE_ValueError
  | _ =>
    let st := ne_expand_core G flow len in
    if Nat.ltb 0 (List.length starts + List.length ends) && negb try_fill then NE_Err NE_ValueError
    else
      ne_bind (match starts with [] => NE_Ok st | _ => ne_add_starts G gsrc starts (ne_add_global gsrc st) end)
        (fun st1 => match ends with [] => NE_Ok st1 | _ => ne_add_ends G gsnk ends (ne_add_global gsnk st1) end)
  end.

(* ------------------------------------------------------------------ get_expanded_edge / starts / ends / constraints *)
Inductive ne_elem := NE_Node (v : string) | NE_Edge (u v : string).

Definition ne_expanded_edge (G : ne_ingraph) (el : ne_elem) : ne_res (string * string) :=
  match el with
  | NE_Node v => if ne_is_node G v then NE_Ok (ne_exp0 v, ne_exp1 v) else NE_Err NE_ValueError
  | NE_Edge u v => if ne_is_edge G u v then NE_Ok (ne_exp1 u, ne_exp0 v) else NE_Err NE_ValueError
  end.

Definition ne_expanded_starts (G : ne_ingraph) (starts : list string) : ne_res (list string) :=
  ne_mapM (fun v => ne_bind (ne_expanded_edge G (NE_Node v)) (fun e => NE_Ok (fst e))) starts.
Definition ne_expanded_ends (G : ne_ingraph) (ends : list string) : ne_res (list string) :=
  ne_mapM (fun v => ne_bind (ne_expanded_edge G (NE_Node v)) (fun e => NE_Ok (snd e))) ends.

(* _get_expanded_subpath_constraints_nodes, one constraint.  A tuple in a node constraint is
   "not in self.original_G.nodes" -> ValueError. *)
Definition ne_cons_nodes (G : ne_ingraph) (c : list ne_elem) : ne_res (list (string * string)) :=
  ne_mapM (fun el => match el with
                     | NE_Node v => if ne_is_node G v then NE_Ok (ne_exp0 v, ne_exp1 v) else NE_Err NE_ValueError
                     | NE_Edge _ _ => NE_Err NE_ValueError
                     end) c.
(* _get_expanded_subpath_constraints_edges, one constraint: for every edge (u,v): (u.0,u.1), (u.1,v.0);
   after the LAST edge also (v.0,v.1).  (A string inside an edge constraint makes networkx unpack
   its characters; that corner is outside the property's domain: NE_Unmodelled.) *)
Fixpoint ne_cons_edges (G : ne_ingraph) (c : list ne_elem) : ne_res (list (string * string)) :=
  match c with
  | [] => NE_Ok []
  | NE_Edge u v :: r =>
      if ne_is_edge G u v then
        match r with
        | [] => NE_Ok [(ne_exp0 u, ne_exp1 u); (ne_exp1 u, ne_exp0 v); (ne_exp0 v, ne_exp1 v)]
        | _ => ne_bind (ne_cons_edges G r) (fun t => NE_Ok ((ne_exp0 u, ne_exp1 u) :: (ne_exp1 u, ne_exp0 v) :: t))
        end
      else NE_Err NE_ValueError
  | NE_Node _ :: _ => NE_Err NE_Unmodelled
  end.
(* get_expanded_subpath_constraints (since /repo 3d7a4b5): an empty list gives []; ANY empty constraint is a
   ValueError (checked before the dispatch); then dispatch on type(subpath_constraints[0][0]) *)
Definition ne_expand_constraints (G : ne_ingraph) (cs : list (list ne_elem)) : ne_res (list (list (string * string))) :=
  match cs with
  | [] => NE_Ok []
  | c0 :: _ =>
      if existsb (fun c => match c with [] => true | _ => false end) cs then NE_Err NE_ValueError
      else match c0 with
           | NE_Node _ :: _ => ne_mapM (ne_cons_nodes G) cs
           | NE_Edge _ _ :: _ => ne_mapM (ne_cons_edges G) cs
           | [] => NE_Err NE_ValueError      (* unreachable: excluded by the test above *)
           end
  end.

(* ------------------------------------------------------------------ get_condensed_paths *)
(* for i in range(0, len(path) - 1, 2): look at path[i] only; a trailing odd element is never read *)
Fixpoint ne_condense_path (G : ne_ingraph) (gsrc gsnk : string) (p : list string) : ne_res (list string) :=
  match p with
  | a :: _ :: r =>
      if String.eqb (ne_last2 a) ".0" then
        let node := ne_drop_last2 a in
        let syn := String.eqb node gsrc || String.eqb node gsnk in
        if negb (ne_is_node G node) && negb syn then NE_Err NE_ValueError
        else ne_bind (ne_condense_path G gsrc gsnk r) (fun t => NE_Ok (if syn then t else node :: t))
      else NE_Err NE_ValueError
  | _ => NE_Ok []
  end.
Definition ne_condense_paths (G : ne_ingraph) (gsrc gsnk : string) (ps : list (list string)) : ne_res (list (list string)) :=
  ne_mapM (ne_condense_path G gsrc gsnk) ps.

(* ------------------------------------------------------------------ get_condensed_graph (node attribute dicts of the result) *)
Definition ne_condensed_graph (G : ne_ingraph) (X : ne_nx) (flow : string) (len : option string) : ne_res (list (string * ne_attrs)) :=
  ne_mapM (fun nd =>
    let v := ne_nm nd in
    match ne_eget (ne_xe X) (ne_exp0 v, ne_exp1 v) with
    | None => NE_Err NE_KeyError
    | Some ea =>
        let a1 := match ne_dget ea flow with Some x => ne_dset (ne_at nd) flow x | None => ne_at nd end in
        let a2 := match len with
                  | Some l => match ne_dget ea l with Some x => ne_dset a1 l x | None => a1 end
                  | None => a1
                  end in
        NE_Ok (v, a2)
    end) G.

(* ------------------------------------------------------------------ glue code shared by the model classes in node mode *)
(* edges_to_ignore_internal = G_internal.edges_to_ignore; ... += [get_expanded_edge(node) for node in elements_to_ignore]
   (every element must be a str, else ValueError).  The classes then apply list(set(...)) or set.union,
   so only membership matters downstream. *)
Definition ne_ignore_internal (G : ne_ingraph) (ign : list (string * string)) (elems : list ne_elem) : ne_res (list (string * string)) :=
  if forallb (fun el => match el with NE_Node _ => true | NE_Edge _ _ => false end) elems
  then ne_bind (ne_mapM (ne_expanded_edge G) elems) (fun l => NE_Ok (ign ++ l))
  else NE_Err NE_ValueError.

(* _remove_empty_paths / _remove_empty_walks(solution), as the code is now (since /repo 7b35658):
     internal = solution.get("_paths_internal", solution["paths"])
     for path, internal_path, weight in zip(paths, internal, weights): keep iff len(internal_path) > 1
   An entry is (returned route, internal route, weight). *)
Definition ne_remove_empty (sol : list ((list string * list string) * Z)) : list ((list string * list string) * Z) :=
  filter (fun x => Nat.ltb 1 (List.length (snd (fst x)))) sol.

(* get_solution(remove_empty) of the k-models in node mode: the internal routes are condensed, the filter
   looks at the INTERNAL route; the result pairs each kept condensed route with its weight. *)
Definition ne_node_solution (G : ne_ingraph) (gsrc gsnk : string) (internal : list (list string)) (weights : list Z)
           (remove_empty : bool) : ne_res (list (list string * Z)) :=
  ne_bind (ne_condense_paths G gsrc gsnk internal)
    (fun ps => let sol := combine (combine ps internal) weights in
               NE_Ok (map (fun x => (fst (fst x), snd x)) (if remove_empty then ne_remove_empty sol else sol))).

(* OLD behaviour (before /repo 7b35658; finding remove_empty_drops_single_node, fixed): the filter tested
   len(path) > 1 on the CONDENSED routes.  Kept only as the subject of the _refuted theorems. *)
Definition ne_remove_empty_old (sol : list (list string * Z)) : list (list string * Z) :=
  filter (fun pw => Nat.ltb 1 (List.length (fst pw))) sol.
Definition ne_node_solution_old (G : ne_ingraph) (gsrc gsnk : string) (internal : list (list string)) (weights : list Z)
           (remove_empty : bool) : ne_res (list (list string * Z)) :=
  ne_bind (ne_condense_paths G gsrc gsnk internal)
    (fun ps => let sol := combine ps weights in NE_Ok (if remove_empty then ne_remove_empty_old sol else sol)).

(* the expansion of a path / walk of the original graph (specification side; used by the theorems and
   by the harness to phrase E2) *)
Fixpoint ne_expand_path (p : list string) : list string :=
  match p with [] => [] | v :: r => ne_exp0 v :: ne_exp1 v :: ne_expand_path r end.
