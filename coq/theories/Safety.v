(* C06 (and the safety part of C05) — executable model.
   - declarative notions: st-walks as edge chains, walk covers of trusted items, [safe], [incompatible], [forbidden];
   - the verified deciders [safe_dec], [incompat_dec], [forbid_dec]: one product automaton
     (node, greedily matched prefix of a, greedily matched prefix of b) explored with the verified closure [clos];
     a trusted item is a list of edges (a single trusted edge e is the item [e]; a subpath/subset constraint is the
     list of its edges), so the classical automaton (node, prefix of s, "trusted edge seen?") is the case |b| = 1;
   - DAG algorithms of flowpaths/utils/safetypathcovers.py: [safe_path] (univocal extension, transcription of
     safe_paths.process_edge) and [safe_sequence] (bridges to the source / to the sink; the bridges are computed from
     their definition with the verified closure, the result of find_all_bridges being canonical);
   - flow-safe paths (safetyflowdecomp.py): the excess flow of a node path.
   Proofs are in SafetyProofs*.v; property theorems in Props/C06.v. *)
From Coq Require Import List Bool Arith NArith ZArith Lia.
Import ListNotations.
From FP Require Import SafetyReach.

(* [node], [edge], [graph], [eqe], [subseq], [adv], [run], [chain] come from SafetyReach. *)

(* ------------------------------------------------------------------ declarative notions *)
Definition st_walk (G : graph) (s t : node) (w : list edge) : Prop := chain s w t /\ incl w G.

(* a cover of the trusted items X: source-to-sink walks such that every item occurs (in order) in one of them *)
Definition walk_cover (G : graph) (s t : node) (X : list (list edge)) (C : list (list edge)) : Prop :=
  (forall w, In w C -> st_walk G s t w) /\ (forall c, In c X -> exists w, In w C /\ subseq c w).

Definition safe (G : graph) (s t : node) (X : list (list edge)) (sq : list edge) : Prop :=
  forall C, walk_cover G s t X C -> exists w, In w C /\ subseq sq w.

Definition items_of_edges (X : list edge) : list (list edge) := map (fun e => [e]) X.
(* the special case of the property statement: X is a set of trusted edges *)
Definition edge_cover (G : graph) (s t : node) (X : list edge) (C : list (list edge)) : Prop :=
  (forall w, In w C -> st_walk G s t w) /\ (forall e, In e X -> exists w, In w C /\ In e w).
Definition safe_for_edges (G : graph) (s t : node) (X : list edge) (sq : list edge) : Prop :=
  forall C, edge_cover G s t X C -> exists w, In w C /\ subseq sq w.

Definition item_safe (G : graph) (s t : node) (X : list (list edge)) (sq : list edge) : Prop :=
  exists c, In c X /\ forall w, st_walk G s t w -> subseq c w -> subseq sq w.

Definition incompatible (G : graph) (s t : node) (a b : list edge) : Prop :=
  forall w, st_walk G s t w -> subseq a w -> subseq b w -> False.

Definition forbidden (G : graph) (s t : node) (sq : list edge) (e : edge) : Prop :=
  forall w, st_walk G s t w -> subseq sq w -> ~ In e w.

(* ------------------------------------------------------------------ product automaton *)
Definition pstate := (node * nat * nat)%type.
Definition pseqb (x y : pstate) : bool :=
  match x, y with (v, i, j), (v', i', j') => (v =? v')%N && Nat.eqb i i' && Nat.eqb j j' end.

Definition pstep (G : graph) (a b : list edge) (st : pstate) : list pstate :=
  match st with (v, i, j) =>
    map (fun e => (snd e, adv a i e, adv b j e)) (filter (fun e => (fst e =? v)%N) G)
  end.

Definition gnodes (G : graph) (s : node) : list node := nodup N.eq_dec (s :: map fst G ++ map snd G).
Definition puniverse (G : graph) (a b : list edge) (s : node) : list pstate :=
  flat_map (fun v => flat_map (fun i => map (fun j => (v, i, j)) (List.seq 0 (S (length b))))
                              (List.seq 0 (S (length a)))) (gnodes G s).

Definition preach_set (G : graph) (a b : list edge) (s : node) : list pstate :=
  clos pstate pseqb (pstep G a b) (S (length (puniverse G a b s))) [(s, 0, 0)].

(* all pairs (matched prefix of a, matched prefix of b) realised by some walk from s to t *)
Definition sink_pairs (G : graph) (a b : list edge) (s t : node) : list (nat * nat) :=
  map (fun st => (snd (fst st), snd st)) (filter (fun st => (fst (fst st) =? t)%N) (preach_set G a b s)).

(* every s-t walk that contains the item c contains sq *)
Definition implies_dec (G : graph) (s t : node) (c sq : list edge) : bool :=
  forallb (fun p => negb (Nat.eqb (snd p) (length c) && Nat.ltb (fst p) (length sq))) (sink_pairs G sq c s t).

Definition safe_dec (G : graph) (s t : node) (X : list (list edge)) (sq : list edge) : bool :=
  existsb (fun c => implies_dec G s t c sq) X.

Definition incompat_dec (G : graph) (s t : node) (a b : list edge) : bool :=
  forallb (fun p => negb (Nat.eqb (fst p) (length a) && Nat.eqb (snd p) (length b))) (sink_pairs G a b s t).

Definition forbid_dec (G : graph) (s t : node) (sq : list edge) (e : edge) : bool :=
  incompat_dec G s t sq [e].

Fixpoint pairwise_incompat_dec (G : graph) (s t : node) (ss : list (list edge)) : bool :=
  match ss with
  | [] => true
  | a :: r => forallb (fun b => incompat_dec G s t a b) r && pairwise_incompat_dec G s t r
  end.

(* ------------------------------------------------------------------ DAG: safe_paths (univocal extension) *)
Definition in_edges (G : graph) (v : node) : list edge := filter (fun e => (snd e =? v)%N) G.
Definition out_edges (G : graph) (v : node) : list edge := filter (fun e => (fst e =? v)%N) G.

(* while G.in_degree(u) == 1: x = next(G.predecessors(u)); path.append((x,u)); u = x   — then reversed *)
Fixpoint left_ext (G : graph) (fuel : nat) (u : node) : list edge :=
  match fuel with
  | O => []
  | S k => match in_edges G u with
           | [e] => left_ext G k (fst e) ++ [e]
           | _ => []
           end
  end.
(* while G.out_degree(v) == 1: x = next(G.successors(v)); path.append((v,x)); v = x *)
Fixpoint right_ext (G : graph) (fuel : nat) (v : node) : list edge :=
  match fuel with
  | O => []
  | S k => match out_edges G v with
           | [e] => e :: right_ext G k (snd e)
           | _ => []
           end
  end.
(* did the loop stop because its condition became false (and not because the fuel ran out)? *)
Fixpoint left_done (G : graph) (fuel : nat) (u : node) : bool :=
  match fuel with
  | O => false
  | S k => match in_edges G u with [e] => left_done G k (fst e) | _ => true end
  end.
Fixpoint right_done (G : graph) (fuel : nat) (v : node) : bool :=
  match fuel with
  | O => false
  | S k => match out_edges G v with [e] => right_done G k (snd e) | _ => true end
  end.

Definition safe_path_fuel (G : graph) (f1 f2 : nat) (e : edge) : list edge :=
  left_ext G f1 (fst e) ++ e :: right_ext G f2 (snd e).
(* safe_paths.process_edge; None = a loop did not terminate within |E|+1 iterations (impossible on a DAG) *)
Definition safe_path (G : graph) (e : edge) : option (list edge) :=
  let f := S (length G) in
  if left_done G f (fst e) && right_done G f (snd e) then Some (safe_path_fuel G f f e) else None.
Definition safe_paths (G : graph) (X : list edge) : list (option (list edge)) := map (safe_path G) X.

(* ------------------------------------------------------------------ DAG: bridges and safe_sequences *)
Definition neqe (e e' : edge) : bool := negb (eqe e e').
Definition remove_edge (G : graph) (e : edge) : graph := filter (neqe e) G.
(* plain reachability = the product automaton with two empty sequences *)
Definition reachb (G : graph) (v t : node) : bool :=
  match sink_pairs G [] [] v t with [] => false | _ :: _ => true end.
(* e is a v-t bridge: t is not reachable from v without e *)
Definition bridgeb (G : graph) (v t : node) (e : edge) : bool := negb (reachb (remove_edge G e) v t).

(* some path from v to t: follow the first out-edge (in a DAG whose only sink is t this always arrives) *)
Fixpoint first_path (G : graph) (fuel : nat) (v t : node) : option (list edge) :=
  if (v =? t)%N then Some [] else
  match fuel with
  | O => None
  | S k => match out_edges G v with
           | [] => None
           | e :: _ => match first_path G k (snd e) t with Some p => Some (e :: p) | None => None end
           end
  end.
Fixpoint nodupb (l : list edge) : bool :=
  match l with [] => true | e :: r => negb (existsb (eqe e) r) && nodupb r end.

(* find_all_bridges(adj, v, t): all v-t bridges in the order in which every v-t path meets them *)
Definition bridges (G : graph) (v t : node) : option (list edge) :=
  match first_path G (S (length G)) v t with
  | Some p => if nodupb p then Some (filter (bridgeb G v t) p) else None
  | None => None
  end.

Definition swap (e : edge) : edge := (snd e, fst e).
Definition rev_graph (G : graph) : graph := map swap G.

(* safe_sequences.process_edge_locked for one item c (non-empty list of edges):
   left_extension[::-1] (edges turned back) + c + right_extension *)
Definition safe_sequence (G : graph) (s t : node) (c : list edge) : option (list edge) :=
  match c with
  | [] => None
  | e0 :: _ =>
      let u := fst e0 in
      let v := snd (last c e0) in
      match bridges (rev_graph G) u s, bridges G v t with
      | Some l, Some r => Some (rev (map swap l) ++ c ++ r)
      | _, _ => None
      end
  end.

(* ------------------------------------------------------------------ flow-safe paths: excess flow *)
Local Open Scope Z_scope.
Fixpoint pairs (w : list node) : list edge :=
  match w with
  | a :: ((b :: _) as r) => (a, b) :: pairs r
  | _ => []
  end.
Definition sumL {A} (g : A -> Z) (l : list A) : Z := fold_right (fun a s => g a + s) 0 l.
Definition succs (G : graph) (v : node) : list node := map snd (filter (fun e => (fst e =? v)%N) G).
Definition others (G : graph) (v u : node) : list node := filter (fun x => negb (x =? u)%N) (succs G v).
(* flow leaking out of the path at its inner nodes *)
Fixpoint leak (G : graph) (f : edge -> Z) (p : list node) : Z :=
  match p with
  | v :: ((u :: _) as r) => sumL (fun x => f (v, x)) (others G v u) + leak G f r
  | _ => 0
  end.
Definition excess (G : graph) (f : edge -> Z) (p : list node) : Z :=
  match p with
  | u0 :: u1 :: r => f (u0, u1) - leak G f (u1 :: r)
  | _ => 0
  end.
Definition flow_of (fl : list (edge * Z)) (e : edge) : Z :=
  match find (fun x => eqe (fst x) e) fl with Some x => snd x | None => 0 end.
Definition excess_of (fl : list (edge * Z)) (p : list node) : Z := excess (map fst fl) (flow_of fl) p.
Definition excess_pos_dec (fl : list (edge * Z)) (p : list node) : bool :=
  forallb (fun e => existsb (eqe e) (map fst fl)) (pairs p) && (0 <? excess_of fl p).

(* inexact flows (intervals [lb, ub] per edge), compute_inexact_flow_decomp_safe_paths: the worst-case excess
   lb(first edge) - (upper bounds of what may leak at the inner nodes) kept by the two-pointer scan *)
Definition inexact_excess (G : graph) (lb ub : edge -> Z) (p : list node) : Z :=
  match p with
  | u0 :: u1 :: r => lb (u0, u1) - leak G ub (u1 :: r)
  | _ => 0
  end.
Definition inexact_excess_of (bl : list (edge * (Z * Z))) (p : list node) : Z :=
  inexact_excess (map fst bl) (flow_of (map (fun x => (fst x, fst (snd x))) bl))
                 (flow_of (map (fun x => (fst x, snd (snd x))) bl)) p.
Definition inexact_pos_dec (bl : list (edge * (Z * Z))) (p : list node) : bool :=
  forallb (fun e => existsb (eqe e) (map fst bl)) (pairs p) && (0 <? inexact_excess_of bl p).

Fixpoint prefixb (a b : list node) : bool :=
  match a, b with
  | [], _ => true
  | x :: a', y :: b' => (x =? y)%N && prefixb a' b'
  | _ :: _, [] => false
  end.
Fixpoint infixb (a b : list node) : bool :=
  prefixb a b || match b with [] => false | _ :: b' => infixb a b' end.
