(* C19 — proofs about Validate.v, part 4: MinPathCoverCycles, MinFlowDecompCycles *)
From Coq Require Import List Bool ZArith QArith Arith Lia.
Import ListNotations.
From FP Require Import Validate ValidateProofs ValidateProofs2 ValidateProofs3.
Local Close Scope Q_scope.
Local Open Scope bool_scope.
Set Default Timeout 120.

Ltac unfold_all ::=
  unfold validate_stDAG, validate_stDiGraph, validate_NodeExpandedDiGraph, validate_kFlowDecomp, validate_MinFlowDecomp,
    validate_kMinPathError, validate_kLeastAbsErrors, validate_kErrDAG, validate_kPathCover, validate_MinPathCover,
    validate_MinErrorFlow, validate_kFlowDecompCycles, validate_kLeastAbsErrorsCycles, validate_kMinPathErrorCycles,
    validate_kErrCycles, validate_kPathCoverCycles, validate_MinPathCoverCycles, validate_MinFlowDecompCycles,
    mfd_solve, kfd_core, kfdc_core, front_cover, front, front_node, front_edge, v_stdag, v_stdigraph, v_ssg_common, v_nodeexp,
    v_maxflow, v_pathmodel, v_walkmodel, v_walkmodel_k, v_fooled, st_of, en_of, fooled, no_src, no_snk, VE in *.

Definition nat_st (i : input) := has_source i && has_sink i.     (* a source and a sink without the additional starts/ends *)
Definition dev_fooled_nil (i : input) := fooled i [] [].

(* ================================================================== MinPathCoverCycles *)
Definition deviates_MinPathCoverCycles (i : input) :=
  dev_cov i || dev_expand i || negb (search_enters i) || dev_fooled_st i.
Theorem validate_sound_MinPathCoverCycles i :
  nat_st i = true -> validate_MinPathCoverCycles i = RaiseValueError -> in_domain_MinPathCoverCycles i = false.
Proof.
  intros N H. unfold nat_st in N. destruct (in_domain_MinPathCoverCycles i) eqn:D; [exfalso|reflexivity].
  apply andb_prop in N as [N1 N2]. sound_script i.
Qed.
Theorem validate_complete_MinPathCoverCycles i :
  in_domain_MinPathCoverCycles i = false -> deviates_MinPathCoverCycles i = false ->
  validate_MinPathCoverCycles i = RaiseValueError.
Proof.
  intros D V. unfold deviates_MinPathCoverCycles, dev_fooled_nil in V. split_dev V. norm_hyps. complete_script_c i.
Qed.
Theorem accepts_domain_MinPathCoverCycles i :
  in_domain_MinPathCoverCycles i = true -> search_enters i = true -> nat_st i = true ->
  validate_MinPathCoverCycles i = Accept.
Proof.
  intros D S N. unfold nat_st in N. apply andb_prop in N as [N1 N2]. accept_script_c i.
Qed.
(* get_lowerbound_k builds stDiGraph(G) WITHOUT the additional starts: a documented input whose only start is an
   additional one is rejected in solve() *)
Definition set_starts (i : input) (hs : bool) (sts : list bool) : input :=
  {| nodes_str := nodes_str i; n_edges := n_edges i; acyclic := acyclic i; has_source := hs; has_sink := has_sink i;
     src_fooled := src_fooled i; snk_fooled := snk_fooled i; origin := origin i; wtype := wtype i; elems := elems i;
     conserving := conserving i; k := k i; cons := cons i; cov := cov i; starts := sts; ends := ends i; ign := ign i;
     search_enters := search_enters i |}.
Theorem accepts_domain_MinPathCoverCycles_refuted_lowerbound_ignores_starts :
  exists i, in_domain_MinPathCoverCycles i = true /\ validate_MinPathCoverCycles i = RaiseValueError.
Proof. exists (set_starts ex_graph false [true]). vm_compute. auto. Qed.

(* ================================================================== MinFlowDecompCycles *)
Lemma all_ignored_no_usable i : all_ignored i = true -> no_usable i = true.
Proof.
  unfold no_usable, all_ignored. induction (elems i) as [|e l IH]; cbn; auto.
  intros A. apply andb_prop in A as [A1 A2]. rewrite (IH A2), andb_true_r.
  unfold ignored in A1. destruct (e_ign e); cbn in *; auto.
  destruct (origin i), (e_w e); cbn in *; try discriminate; auto.
Qed.
Lemma usable_not_all_ignored i : no_usable i = false -> all_ignored i = false.
Proof.
  intros U. destruct (all_ignored i) eqn:A; auto. rewrite (all_ignored_no_usable i A) in U. discriminate.
Qed.
Lemma live_usable i : has_live i = true -> bad_live i = false -> no_usable i = false.
Proof.
  intros L B. destruct (no_usable i) eqn:U; auto. rewrite (no_usable_live_bad i U L) in B. discriminate.
Qed.

Definition deviates_MinFlowDecompCycles (i : input) :=
  dev_cov i || dev_expand i || negb (search_enters i) || dev_fooled_nil i || dev_noncons i.
Definition no_extra (i : input) := is_nil (starts i) && is_nil (ends i).

Theorem validate_sound_MinFlowDecompCycles i :
  has_live i = true -> nat_st i = true -> no_extra i = true ->
  validate_MinFlowDecompCycles i = RaiseValueError -> in_domain_MinFlowDecompCycles i = false.
Proof.
  intros L N X H. unfold nat_st, no_extra in *. destruct (in_domain_MinFlowDecompCycles i) eqn:D; [exfalso|reflexivity].
  apply andb_prop in N as [N1 N2]. apply andb_prop in X as [X1 X2].
  assert (B : bad_live i = false).
  { unfold_dom. destruct (origin i); bsimp; try discriminate; split_dom D; norm_hyps; assumption. }
  pose proof (live_usable i L B) as U. pose proof (usable_not_all_ignored i U) as A.
  sound_script i.
Qed.
Theorem validate_complete_MinFlowDecompCycles i :
  in_domain_MinFlowDecompCycles i = false -> deviates_MinFlowDecompCycles i = false ->
  validate_MinFlowDecompCycles i = RaiseValueError.
Proof.
  intros D V. unfold deviates_MinFlowDecompCycles, dev_fooled_nil in V. split_dev V. norm_hyps.
  destruct (no_usable i) eqn:U.
  - (* max() of nothing *)
    unfold dev_fooled_st, dev_noncons in *; unfold_dom; unfold_all; destruct (origin i) eqn:O; bsimp; try reflexivity;
    (destruct (cons_wf i) eqn:W; [use_wf i | use_bad i]); unfold_dev; rw_origin i O; prep_lists; rw_goal; bsimp; fing; crunch.
  - pose proof (usable_not_all_ignored i U) as A.
    destruct (starts i) as [|s0 sl] eqn:ST, (ends i) as [|e0 el] eqn:EN;
    unfold dev_fooled_st, dev_noncons in *; unfold_dom; unfold_all; rewrite ?ST, ?EN in *; destruct (origin i) eqn:O; bsimp; try reflexivity;
    (destruct (cons_wf i) eqn:W; [use_wf i | use_bad i]); unfold_dev; rw_origin i O; prep_lists; rw_goal; bsimp; fing; crunch.
Qed.
Theorem accepts_domain_MinFlowDecompCycles i :
  in_domain_MinFlowDecompCycles i = true -> has_live i = true -> search_enters i = true -> nat_st i = true ->
  no_extra i = true -> validate_MinFlowDecompCycles i = Accept.
Proof.
  intros D L S N X. unfold nat_st, no_extra in *.
  apply andb_prop in N as [N1 N2]. apply andb_prop in X as [X1 X2].
  assert (B : bad_live i = false).
  { unfold_dom. destruct (origin i); bsimp; try discriminate; split_dom D; norm_hyps; assumption. }
  pose proof (live_usable i L B) as U. pose proof (usable_not_all_ignored i U) as A.
  accept_script_c i.
Qed.
(* node mode + additional starts: NodeExpandedDiGraph is called without try_filling_in_missing_flow_attr and refuses *)
Theorem accepts_domain_MinFlowDecompCycles_refuted_node_mode_starts :
  exists i, in_domain_MinFlowDecompCycles i = true /\ has_live i = true /\ validate_MinFlowDecompCycles i = RaiseValueError.
Proof. exists (set_origin (set_starts ex_graph true [true]) ONode). vm_compute. auto. Qed.
Theorem validate_MinFlowDecompCycles_refuted_nonconserving :
  exists i, in_domain_MinFlowDecompCycles i = false /\ validate_MinFlowDecompCycles i = AcceptsButUnsolved.
Proof. exists (set_flags ex_graph false false true [true; true]). vm_compute. auto. Qed.

(* ================================================================== the property at full strength *)
Definition full_statement (c : cls) : Prop :=
  forall i, (in_domain c i = false -> validate c i = RaiseValueError) /\
            (in_domain c i = true -> has_live i = true -> validate c i = Accept).
Theorem full_stDAG : full_statement CstDAG.
Proof. intros i. split; [apply validate_complete_stDAG|intros D _; apply accepts_domain_stDAG; auto]. Qed.
Theorem full_NodeExpandedDiGraph : full_statement CNodeExpandedDiGraph.
Proof.
  intros i. split; [apply validate_complete_NodeExpandedDiGraph|intros D _; apply accepts_domain_NodeExpandedDiGraph; auto].
Qed.
Ltac refute_with w := let F := fresh in intros F; destruct (F w) as [F1 F2]; vm_compute in F1, F2;
  first [ specialize (F1 eq_refl); discriminate | specialize (F2 eq_refl eq_refl); discriminate ].
Theorem full_statement_refuted c : c <> CstDAG -> c <> CNodeExpandedDiGraph -> ~ full_statement c.
Proof.
  intros N1 N2. destruct c; try congruence; clear N1 N2.
  - refute_with (with_nosource ex_graph true).
  - refute_with (set_cons ex_dag [] 0%Q).
  - refute_with (set_elems ex_dag [neg_elem] false).
  - refute_with (set_k ex_dag (KInt 0)).
  - refute_with (set_k ex_dag (KInt 0)).
  - refute_with (set_k ex_dag (KInt 0)).
  - refute_with (set_cons ex_dag [] 0%Q).
  - refute_with (set_flags ex_graph false false true [true; true]).
  - refute_with (set_flags ex_graph false false true [true; true]).
  - refute_with (set_k ex_graph (KNonInt (5#2))).
  - refute_with (set_k ex_graph (KNonInt (5#2))).
  - refute_with (set_k ex_graph (KNonInt (5#2))).
  - refute_with (set_starts ex_graph false [true]).
  - refute_with (set_flags ex_graph false true true [true; false]).
Qed.
