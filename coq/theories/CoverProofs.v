(* C17/C09 — weighted weak duality between route covers and antichains, the optimality certificate,
   and correctness of the checkers antichain_ok / cover_ok. *)
From Coq Require Import List NArith ZArith Bool Arith Lia.
Import ListNotations.
From FP Require Import Reach ReachProofs1 ReachProofs2 Cover.
Set Default Timeout 30.
Open Scope Z_scope.

Lemma zsum_le {A} (f g : A -> Z) l : (forall a, In a l -> f a <= g a) -> zsum f l <= zsum g l.
Proof.
  induction l as [|a l IH]; intros H; cbn [zsum fold_right]; [lia|].
  pose proof (H a (or_introl eq_refl)). specialize (IH (fun a' h => H a' (or_intror h))). unfold zsum in IH. lia.
Qed.

(* ---------------------------------------------------------------- abstract duality *)
Section Duality.
  Variable Ed : Type.                       (* edges *)
  Variable Rt : Type.                       (* routes (paths or walks) *)
  Variable on : Ed -> Rt -> bool.           (* edge lies on route *)
  Variable admissible : Rt -> Prop.

  (* A is an antichain: no admissible route contains two different members *)
  Definition antichain (A : list Ed) : Prop :=
    NoDup A /\ forall p, admissible p -> forall a b, In a A -> In b A -> on a p = true -> on b p = true -> a = b.

  (* P: routes with multiplicities; it covers the demand w on dom *)
  Definition cov (P : list (Rt * Z)) (e : Ed) : Z := zsum (fun pm => snd pm * indz (on e (fst pm))) P.
  Definition size (P : list (Rt * Z)) : Z := zsum snd P.
  Definition covers (w : Ed -> Z) (dom : list Ed) (P : list (Rt * Z)) : Prop :=
    (forall p m, In (p, m) P -> admissible p /\ 0 <= m) /\ forall e, In e dom -> w e <= cov P e.

  Lemma sum_swap (A : list Ed) (P : list (Rt * Z)) :
    zsum (cov P) A = zsum (fun pm => snd pm * zsum (fun e => indz (on e (fst pm))) A) P.
  Proof.
    induction A as [|e A IH]; cbn [zsum fold_right].
    - induction P as [|pm P IHP]; cbn [zsum fold_right]; [reflexivity|]. unfold zsum in IHP. rewrite <- IHP. lia.
    - unfold zsum in IH. rewrite IH. clear IH. unfold cov.
      induction P as [|pm P IHP]; cbn [zsum fold_right]; [reflexivity|]. unfold zsum in IHP. rewrite <- IHP. lia.
  Qed.

  Lemma at_most_one (p : Rt) (A : list Ed) : NoDup A ->
    (forall a b, In a A -> In b A -> on a p = true -> on b p = true -> a = b) ->
    0 <= zsum (fun e => indz (on e p)) A <= 1 /\
    (zsum (fun e => indz (on e p)) A = 1 -> exists a, In a A /\ on a p = true).
  Proof.
    induction 1 as [|a A Ha ND IH]; intros U; cbn [zsum fold_right]; [split; [lia|intros; lia]|].
    destruct IH as [IH1 IH2]; [intros x y Hx Hy; apply U; right; assumption|]. unfold zsum in *.
    destruct (on a p) eqn:Fa; cbn [indz].
    - assert (Z0 : fold_right (fun a0 s => indz (on a0 p) + s) 0 A = 0).
      { destruct (Z.eq_dec (fold_right (fun a0 s => indz (on a0 p) + s) 0 A) 1) as [E1|N1]; [exfalso|lia].
        destruct (IH2 E1) as (b & Hb & Fb).
        assert (a = b) by (apply U; [left; reflexivity|right; assumption|assumption|assumption]). subst. contradiction. }
      rewrite Z0. split; [lia|]. intros _. exists a. split; [left; reflexivity|assumption].
    - split; [lia|]. intros E1. destruct (IH2 ltac:(lia)) as (b & Hb & Fb). exists b. split; [right; assumption|assumption].
  Qed.

  Theorem weak_duality w dom A P :
    antichain A -> incl A dom -> covers w dom P -> zsum w A <= size P.
  Proof.
    intros [ND AC] I [Adm Cv].
    transitivity (zsum (cov P) A).
    - apply zsum_le. intros e He. apply Cv, I, He.
    - rewrite sum_swap. unfold size. apply zsum_le. intros [p m] Hp. cbn [fst snd].
      destruct (Adm p m Hp) as [Hadm Hm].
      destruct (at_most_one p A ND (fun a b => AC p Hadm a b)) as [[_ H1] _]. nia.
  Qed.

  Corollary certificate_opt w dom A P0 :
    antichain A -> incl A dom -> covers w dom P0 -> zsum w A = size P0 ->
    (forall P, covers w dom P -> size P0 <= size P) /\
    (forall A', antichain A' -> incl A' dom -> zsum w A' <= zsum w A).
  Proof.
    intros HA I C0 Eq. split.
    - intros P C. rewrite <- Eq. eapply weak_duality; eassumption.
    - intros A' HA' I'. rewrite Eq. eapply weak_duality; eassumption.
  Qed.
End Duality.

(* ---------------------------------------------------------------- checkers *)
Lemma pairwise_spec {A} (r : A -> A -> bool) (l : list A) :
  (forall x y, r x y = r y x) -> NoDup l ->
  (pairwise r l = true <-> forall x y, In x l -> In y l -> x <> y -> r x y = true).
Proof.
  intros Sym. induction 1 as [|a l Ha ND IH]; cbn [pairwise].
  - split; [intros _ ? ? []|reflexivity].
  - rewrite andb_true_iff, forallb_forall, IH. split.
    + intros [H1 H2] x y [<-|Hx] [<-|Hy] Hne; try congruence.
      * apply H1, Hy.
      * rewrite Sym. apply H1, Hx.
      * apply H2; assumption.
    + intros H. split.
      * intros y Hy. apply H; [left; reflexivity|right; assumption|intros ->; contradiction].
      * intros x y Hx Hy. apply H; right; assumption.
Qed.

Section CheckerProofs.
  Variable V : list node.
  Variable E : list edge.

  Definition wf_graph : Prop := NoDup V /\ forall a b, In (a, b) E -> In a V /\ In b V.

  Lemma graph_ok_wf : graph_ok V E = true <-> wf_graph.
  Proof.
    unfold graph_ok, wf_graph. rewrite andb_true_iff, nodupb_NoDup, forallb_forall. split.
    - intros [H1 H2]. split; [assumption|]. intros a b Hab. specialize (H2 _ Hab). cbn in H2.
      apply andb_true_iff in H2. rewrite !memN_In in H2. exact H2.
    - intros [H1 H2]. split; [assumption|]. intros [a b] Hab. cbn. apply andb_true_iff. rewrite !memN_In. apply H2, Hab.
  Qed.

  (* on well-formed graphs reachb decides reachability; outside V nothing but the node itself is reachable *)
  Lemma reachb_iff a b : wf_graph -> In a V -> (reachb V E a b = true <-> greach E a b).
  Proof. intros [ND HE] Ha. unfold reachb. rewrite memN_In. apply closure_V; assumption. Qed.

  Definition pairwise_unreachable (A : list edge) : Prop :=
    forall e1 e2, In e1 A -> In e2 A -> e1 <> e2 -> ~ greach E (snd e1) (fst e2).

  (* the checker accepts exactly the duplicate-free sets of edges of the graph that are pairwise unreachable *)
  Theorem antichain_ok_iff A :
    antichain_ok V E A = true <-> wf_graph /\ NoDup A /\ incl A E /\ pairwise_unreachable A.
  Proof.
    unfold antichain_ok. rewrite !andb_true_iff, graph_ok_wf, nodupE_NoDup, forallb_forall. split.
    - intros [[[WF ND] HI] HP]. split; [assumption|]. split; [assumption|].
      assert (Hincl : incl A E) by (intros e He; apply memE_In, HI, He). split; [assumption|].
      rewrite pairwise_spec in HP; [|intros x y; unfold incompatible; apply andb_comm|assumption].
      intros e1 e2 H1 H2 Hne R. specialize (HP e1 e2 H1 H2 Hne). unfold incompatible in HP.
      apply andb_true_iff in HP. destruct HP as [HP _]. apply negb_true_iff in HP.
      destruct e1 as [a b]. cbn [fst snd] in *.
      assert (Hb : In b V) by (destruct WF as [_ HE]; apply (HE a b), Hincl, H1).
      apply (reachb_iff b (fst e2) WF Hb) in R. congruence.
    - intros (WF & ND & HI & HP). split; [split; [split; assumption|]|].
      + intros e He. apply memE_In, HI, He.
      + rewrite pairwise_spec; [|intros x y; unfold incompatible; apply andb_comm|assumption].
        intros e1 e2 H1 H2 Hne. unfold incompatible. apply andb_true_iff. split; apply negb_true_iff.
        * destruct (reachb V E (snd e1) (fst e2)) eqn:Rb; [exfalso|reflexivity].
          destruct e1 as [a b]. cbn [fst snd] in *.
          assert (Hb : In b V) by (destruct WF as [_ HE]; apply (HE a b), HI, H1).
          apply (reachb_iff b (fst e2) WF Hb) in Rb. apply (HP (a, b) e2 H1 H2 Hne). exact Rb.
        * destruct (reachb V E (snd e2) (fst e1)) eqn:Rb; [exfalso|reflexivity].
          destruct e2 as [a b]. cbn [fst snd] in *.
          assert (Hb : In b V) by (destruct WF as [_ HE]; apply (HE a b), HI, H2).
          apply (reachb_iff b (fst e1) WF Hb) in Rb. apply (HP (a, b) e1 H2 H1 (fun h => Hne (eq_sym h))). exact Rb.
  Qed.

  (* two different edges on one walk: the head of one reaches the tail of the other *)
  Lemma pairs_reach b r e : incl (pairs (b :: r)) E -> In e (pairs (b :: r)) -> greach E b (fst e).
  Proof.
    revert b. induction r as [|c r IH]; intros b HG He; [destruct He|].
    cbn [pairs] in *. destruct He as [<-|He]; [constructor|].
    assert (In (b, c) E) by (apply HG; left; reflexivity).
    eapply reach_left; [apply succs_of_In; eassumption|]. apply IH; [|assumption].
    intros x Hx. apply HG. right. exact Hx.
  Qed.

  Lemma walk_order p e1 e2 : incl (pairs p) E -> In e1 (pairs p) -> In e2 (pairs p) ->
    e1 = e2 \/ greach E (snd e1) (fst e2) \/ greach E (snd e2) (fst e1).
  Proof.
    induction p as [|a p IH]; intros HG H1 H2; [destruct H1|].
    destruct p as [|b r]; [destruct H1|]. cbn [pairs] in HG, H1, H2.
    assert (HG' : incl (pairs (b :: r)) E) by (intros x Hx; apply HG; right; exact Hx).
    destruct H1 as [<-|H1], H2 as [<-|H2].
    - left. reflexivity.
    - right. left. cbn [snd]. apply (pairs_reach b r); assumption.
    - right. right. cbn [snd]. apply (pairs_reach b r); assumption.
    - apply IH; assumption.
  Qed.

  Definition on_route (e : edge) (p : list node) : bool := memE e (pairs p).
  Definition walk_in (p : list node) : Prop := incl (pairs p) E.
  Definition st_route (s t : node) (p : list node) : Prop :=
    hd_error p = Some s /\ last p s = t /\ walk_in p.

  (* an accepted set is an antichain with respect to ALL walks of the graph (paths and walks, cyclic or not) *)
  Theorem antichain_ok_routes A : antichain_ok V E A = true -> antichain edge (list node) on_route walk_in A.
  Proof.
    intros H. apply antichain_ok_iff in H. destruct H as (WF & ND & HI & HP). split; [assumption|].
    intros p Hp a b Ha Hb Oa Ob. unfold on_route in *. apply memE_In in Oa, Ob.
    destruct (walk_order p a b Hp Oa Ob) as [Eq|[R|R]]; [assumption| |].
    - destruct (eqe_spec a b) as [Eq|Hne]; [assumption|exfalso]. apply (HP a b Ha Hb Hne R).
    - destruct (eqe_spec a b) as [Eq|Hne]; [assumption|exfalso]. apply (HP b a Hb Ha (fun h => Hne (eq_sym h)) R).
  Qed.

  Lemma route_okb_spec s t p : route_okb E s t p = true -> st_route s t p.
  Proof.
    unfold route_okb. destruct p as [|a r]; [discriminate|]. rewrite !andb_true_iff, !N.eqb_eq, forallb_forall.
    intros [[-> Hl] Hp]. split; [reflexivity|]. split; [assumption|]. intros e He. apply memE_In, Hp, He.
  Qed.

  Theorem cover_ok_covers s t W P : cover_ok E s t W P = true ->
    covers edge (list node) on_route (st_route s t) (wt W) E P.
  Proof.
    unfold cover_ok. rewrite andb_true_iff, !forallb_forall. intros [H1 H2]. split.
    - intros p m Hpm. specialize (H1 _ Hpm). cbn [fst snd] in H1. apply andb_true_iff in H1. destruct H1 as [H1 Hm].
      split; [apply route_okb_spec, H1|apply Z.leb_le, Hm].
    - intros e He. specialize (H2 e He). apply Z.leb_le in H2. exact H2.
  Qed.

  (* the per-instance certificate: optimum of the instance proved from the two accepted objects *)
  Theorem certificate_ok_opt s t W A P : certificate_ok V E s t W A P = true ->
    antichain_weight W A = cover_size P /\
    (forall P', covers edge (list node) on_route (st_route s t) (wt W) E P' -> cover_size P <= size (list node) P') /\
    (forall A', antichain_ok V E A' = true -> antichain_weight W A' <= antichain_weight W A).
  Proof.
    unfold certificate_ok. rewrite !andb_true_iff, Z.eqb_eq. intros [[HA HC] Eq].
    pose proof (antichain_ok_routes A HA) as HA'.
    assert (HA'' : antichain edge (list node) on_route (st_route s t) A).
    { destruct HA' as [ND AC]. split; [assumption|]. intros p (_ & _ & Hw). apply AC, Hw. }
    assert (HI : incl A E) by (apply antichain_ok_iff in HA; tauto).
    pose proof (cover_ok_covers s t W P HC) as HC'.
    destruct (certificate_opt edge (list node) on_route (st_route s t) (wt W) E A P HA'' HI HC' Eq) as [O1 O2].
    split; [assumption|]. split; [exact O1|].
    intros A' HA1. apply O2.
    - pose proof (antichain_ok_routes A' HA1) as [ND AC]. split; [assumption|]. intros p (_ & _ & Hw). apply AC, Hw.
    - apply antichain_ok_iff in HA1. tauto.
  Qed.
End CheckerProofs.

(* ---------------------------------------------------------------- the width cache *)
Section WidthCacheProofs.
  Variable s t : node.
  Variable solve : (edge -> Z) -> Z.

  Lemma wrun_inv : forall os cache, (cache = None \/ cache = Some (solve (w_width []))) ->
    wrun s t solve cache os = map (fun o => solve (wop_demand s t o)) os.
  Proof.
    induction os as [|o r IH]; intros cache Hc; cbn [wrun map]; [reflexivity|].
    destruct o as [[|e ign]|wf]; cbn [wstep wop_demand].
    - destruct Hc as [->| ->]; cbn [wop_demand]; f_equal; apply IH; right; reflexivity.
    - f_equal. apply IH, Hc.
    - f_equal. apply IH, Hc.
  Qed.

  (* for every history on one object every answer is the answer of a fresh object: what get_width caches never leaks into
     compute_max_edge_antichain nor into a get_width with an ignore list *)
  Theorem width_cache_coherent os : wrun s t solve None os = map (fun o => solve (wop_demand s t o)) os.
  Proof. apply wrun_inv. left. reflexivity. Qed.
End WidthCacheProofs.
