From Coq Require Import List NArith ZArith Bool Arith Lia Permutation.
Import ListNotations.
From FP Require Import Euler EulerProofs1 EulerProofs2.

Theorem reconstruct_correct (g0 : graph) (s t : node) :
  s <> t ->
  exc g0 s = 1%Z -> exc g0 t = (-1)%Z -> (forall x, x <> s -> x <> t -> exc g0 x = 0%Z) ->
  (forall a b, In (a, b) g0 -> reach g0 s a) ->
  exists w, reconstruct g0 s = Some ([], w) /\
            Permutation g0 (pairs w) /\ hd_error w = Some s /\ last w s = t.
Proof.
  intros Hst Hs Ht Hx Hc. unfold reconstruct.
  pose proof (trail_fuel (S (length g0)) g0 s ltac:(lia)) as Hne.
  destruct (trail (S (length g0)) g0 s) as [[[g1 w] st]|] eqn:T; [|congruence]. clear Hne.
  destruct (trail_spec _ _ _ _ _ _ T) as (P & Sp & Z).
  remember (last w s) as z eqn:Ez.
  assert (Hexc : forall x, exc g1 x = (exc g0 x - ind1 (x =? s)%N + ind1 (x =? z)%N)%Z).
  { intros x. pose proof (exc_perm _ _ x P) as E. rewrite exc_app, exc_pairs, <- Ez in E. lia. }
  assert (Hz : z = t).
  { apply pop_out_none, has_out_outd in Z.
    pose proof (Hexc z) as E. rewrite N.eqb_refl in E. unfold exc at 1 in E. rewrite Z in E.
    destruct (N.eqb_spec z s) as [->|Hzs].
    - rewrite Hs in E. cbn [ind1] in E. lia.
    - destruct (N.eq_dec z t) as [|Hzt]; [assumption|]. rewrite (Hx z Hzs Hzt) in E. cbn [ind1] in E. lia. }
  subst z. rewrite Hz in *.
  assert (Hlen : length g0 = length w + length g1).
  { rewrite (Permutation_length P), app_length, pairs_length. reflexivity. }
  assert (Hst_len : length st = length w).
  { assert (L : length (s :: w) = length (st ++ [t])) by (rewrite Sp; reflexivity).
    rewrite app_length in L. simpl in L. lia. }
  apply phase2_correct.
  - constructor.
    + exact P.
    + intros x. rewrite Hexc.
      destruct (N.eqb_spec x s) as [Hxs|Hxs]; destruct (N.eqb_spec x t) as [Hxt|Hxt]; cbn [ind1].
      * congruence.
      * subst x. rewrite Hs. lia.
      * subst x. rewrite Ht. lia.
      * rewrite (Hx x Hxs Hxt). lia.
    + intros x Hin. apply in_rev in Hin. rewrite Sp. apply in_or_app. left. exact Hin.
    + intros x Hin Ho. rewrite Sp in Hin. apply in_app_or in Hin. destruct Hin as [Hin|[<-|[]]].
      * apply -> in_rev. exact Hin.
      * apply pop_out_none in Z. congruence.
    + split; [reflexivity|]. rewrite last_cons_default. exact Hz.
  - rewrite rev_length. lia.
  - lia.
  - exact Hc.
Qed.

Print Assumptions reconstruct_correct.

