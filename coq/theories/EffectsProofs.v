(* C18 — proofs about Effects.v *)
From Coq Require Import List Bool Arith Lia.
Import ListNotations.
From FP Require Import Validate Effects.
Set Default Timeout 60.

Lemma ext_step_none h o : ext_step ext_alias h o = h.
Proof. unfold ext_step, ext_alias. rewrite andb_false_r. reflexivity. Qed.
Lemma step_gen_opts hold_of h o : step_gen hold_of h o = opts_step hold_of h o.
Proof. unfold step_gen, step_gen2. apply ext_step_none. Qed.

Section Gen.
Variable hold_of : cls -> hold.
Lemma frame_quiet h o : quiet_gen hold_of h o = true -> step_gen hold_of h o = h.
Proof.
  rewrite step_gen_opts. unfold quiet_gen, opts_step. destruct (negb (o_pass_opts o) || is_empty (h_opts h)); cbn; [reflexivity|].
  destruct (hold_of (o_cls o)); try reflexivity; try discriminate.
  destruct (o_solve o); cbn; [discriminate|reflexivity].
Qed.
Lemma run_quiet ops : forall h, Forall (fun o => quiet_gen hold_of h o = true) ops -> run_gen hold_of ops h = h.
Proof.
  induction ops as [|o r IH]; intros h F; [reflexivity|].
  inversion F as [|? ? Q F']; subst. change (run_gen hold_of (o :: r) h) with (run_gen hold_of r (step_gen hold_of h o)).
  rewrite (frame_quiet h o Q). apply IH. exact F'.
Qed.
End Gen.

(* ---------------------------------------------------------------- the current code: frame, for every class and argument vector *)
Lemma all_quiet h o : quiet_gen opts_hold h o = true.
Proof. unfold quiet_gen. destruct (o_cls o); cbn; apply orb_true_r. Qed.
Theorem frame h o : step h o = h.
Proof. apply frame_quiet. apply all_quiet. Qed.
Theorem run_frame ops h : run ops h = h.
Proof. apply run_quiet. apply Forall_forall. intros o _. apply all_quiet. Qed.
Theorem history_independent ops h o : model_of (run ops h) o = model_of h o.
Proof. rewrite run_frame. reflexivity. Qed.

Definition ex_heap : heap :=
  {| h_graph := []; h_opts := [KUser 0]; h_has_ext := true; h_ext := []; h_sopts := [1]; h_cons := [2]; h_ign := []; h_starts := []; h_ends := []; h_sup := [3; 1; 3]; h_defaults := [] |}.
Definition mk_op c p s hc sv := {| o_cls := c; o_pass_opts := p; o_sup := s; o_hc := hc; o_solve := sv |}.

(* ---------------------------------------------------------------- old behaviour (before 5ed9792) *)
(* DESIGN #16: `optimization_options or {}` aliased a non-empty caller dict and wrote into it *)
Lemma old_frame_refuted c :
  old_opts_hold c = AliasIfNonEmpty \/ old_opts_hold c = AliasForward -> exists h o, o_cls o = c /\ old_step h o <> h.
Proof.
  intros H. exists ex_heap, (mk_op c true false false true). split; [reflexivity|].
  destruct c; cbn in H; destruct H as [H|H]; try discriminate; vm_compute; discriminate.
Qed.
(* a kMinPathError with given weights polluted the shared dict; a later kLeastAbsErrors saw allow_empty_paths etc. *)
Theorem old_history_independent_refuted :
  exists ops h o, model_of (old_run ops h) o <> model_of h o.
Proof.
  exists [mk_op CkMinPathError true true false true], ex_heap, (mk_op CkLeastAbsErrors true false false true).
  vm_compute. discriminate.
Qed.
(* what did hold for the old code: heap-preserving histories *)
Theorem old_history_independent_partial ops h o :
  Forall (fun o' => quiet_gen old_opts_hold h o' = true) ops -> model_of (old_run ops h) o = model_of h o.
Proof. intros F. unfold old_run. rewrite (run_quiet old_opts_hold ops h F). reflexivity. Qed.

(* writing is idempotent: constructing the same thing again adds nothing more *)
Lemma has_key_app k d d' : has_key k (d ++ d') = has_key k d || has_key k d'.
Proof. unfold has_key. apply existsb_app. Qed.
Lemma key_eqb_refl k : key_eqb k k = true.
Proof. destruct k; cbn; auto. apply Nat.eqb_refl. Qed.
Lemma set_key_has d k : has_key k (set_key d k) = true.
Proof.
  unfold set_key. destruct (has_key k d) eqn:E; [exact E|].
  rewrite has_key_app. cbn. rewrite key_eqb_refl. apply orb_true_r.
Qed.
Lemma set_key_keeps d k k' : has_key k d = true -> has_key k (set_key d k') = true.
Proof.
  unfold set_key. destruct (has_key k' d); auto. intros H. rewrite has_key_app, H. reflexivity.
Qed.
Lemma set_keys_keeps ks : forall d k, has_key k d = true -> has_key k (set_keys d ks) = true.
Proof.
  induction ks as [|a r IH]; cbn; auto. intros d k H.
  change (has_key k (set_keys (set_key d a) r) = true). apply IH. apply set_key_keeps. exact H.
Qed.
Lemma set_keys_fix ks : forall d, forallb (fun k => has_key k d) ks = true -> set_keys d ks = d.
Proof.
  induction ks as [|a r IH]; cbn; auto. intros d H. apply andb_prop in H as [H1 H2].
  change (set_keys (set_key d a) r = d).
  replace (set_key d a) with d by (unfold set_key; rewrite H1; reflexivity). apply IH. exact H2.
Qed.
Lemma set_keys_has ks : forall d, forallb (fun k => has_key k (set_keys d ks)) ks = true.
Proof.
  induction ks as [|a r IH]; cbn; auto. intros d.
  change (has_key a (set_keys (set_key d a) r) && forallb (fun k => has_key k (set_keys (set_key d a) r)) r = true).
  rewrite IH, andb_true_r. apply set_keys_keeps. apply set_key_has.
Qed.
Lemma set_keys_idem ks d : set_keys (set_keys d ks) ks = set_keys d ks.
Proof. apply set_keys_fix. apply set_keys_has. Qed.
Lemma set_keys_nonempty ks d : d <> [] -> set_keys d ks <> [].
Proof.
  revert d. induction ks as [|a r IH]; cbn; auto. intros d H.
  change (set_keys (set_key d a) r <> []). apply IH.
  unfold set_key. destruct (has_key a d); auto. destruct d; [congruence|discriminate].
Qed.
(* for ANY effect summary of this shape (old or new): only optimization_options can ever be touched, no caller key is lost *)
Lemma step_only_opts hold_of h o :
  let h' := step_gen hold_of h o in
  h_graph h' = h_graph h /\ h_sopts h' = h_sopts h /\ h_cons h' = h_cons h /\
  h_ign h' = h_ign h /\ h_starts h' = h_starts h /\ h_ends h' = h_ends h /\ h_sup h' = h_sup h /\ h_defaults h' = h_defaults h.
Proof.
  cbv zeta. rewrite step_gen_opts.
  unfold opts_step. destruct (negb (o_pass_opts o) || is_empty (h_opts h)); [repeat split|].
  destruct (hold_of (o_cls o)); try (repeat split); destruct (o_solve o); repeat split.
Qed.
Theorem run_only_opts hold_of ops : forall h,
  let h' := run_gen hold_of ops h in
  h_graph h' = h_graph h /\ h_sopts h' = h_sopts h /\ h_cons h' = h_cons h /\
  h_ign h' = h_ign h /\ h_starts h' = h_starts h /\ h_ends h' = h_ends h /\ h_sup h' = h_sup h /\ h_defaults h' = h_defaults h.
Proof.
  induction ops as [|o r IH]; intros h; [repeat split|].
  change (run_gen hold_of (o :: r) h) with (run_gen hold_of r (step_gen hold_of h o)).
  destruct (IH (step_gen hold_of h o)) as (A & B & C & D & E & F & G & G2).
  destruct (step_only_opts hold_of h o) as (A' & B' & C' & D' & E' & F' & G' & G2').
  cbv zeta in *. repeat split; congruence.
Qed.
Theorem run_keeps_keys hold_of ops : forall h k,
  has_key k (h_opts h) = true -> has_key k (h_opts (run_gen hold_of ops h)) = true.
Proof.
  induction ops as [|o r IH]; intros h k H; [exact H|].
  change (run_gen hold_of (o :: r) h) with (run_gen hold_of r (step_gen hold_of h o)). apply IH.
  rewrite step_gen_opts. unfold opts_step. destruct (negb (o_pass_opts o) || is_empty (h_opts h)); [exact H|].
  destruct (hold_of (o_cls o)); try exact H.
  - cbn. apply set_keys_keeps. exact H.
  - destruct (o_solve o); [cbn; apply set_keys_keeps|]; exact H.
Qed.

(* getters: the first call may fill the cache, every further call returns the same value and state *)
Theorem idempotent_getters m :
  let '(m1, r1) := get_solution m in let '(m2, r2) := get_solution m1 in let '(m3, r3) := get_solution m2 in
  r1 = r2 /\ r2 = r3 /\ m2 = m1 /\ m3 = m2.
Proof.
  unfold get_solution. destruct (ms_cached m) eqn:C; cbn.
  - rewrite C. cbn. rewrite C. auto.
  - destruct (ms_solved m) eqn:S; cbn; [auto|]. rewrite C, S. cbn. rewrite C, S. auto.
Qed.


(* ---------------------------------------------------------------- option values that are lists (external_safe_paths) *)
(* the code at 003f186 keeps the caller's list and extends it: frame and history independence fail for that summary *)
Theorem head_frame_refuted : forall c, old_ext_alias c = true -> exists h o, o_cls o = c /\ head_step h o <> h.
Proof.
  intros c H. exists ex_heap, (mk_op c true false true true). split; [reflexivity|].
  destruct c; cbn in H; try discriminate; vm_compute; discriminate.
Qed.
Theorem head_history_independent_refuted : exists ops h o, model_of (head_run ops h) o <> model_of h o.
Proof.
  exists [mk_op CkLeastAbsErrors true false true true], ex_heap, (mk_op CkMinPathError true false true true).
  vm_compute. discriminate.
Qed.
(* with the list copied (ext_alias) the switch-off run is the framed one *)
Theorem run_sw_off ops h : run_sw false ops h = h.
Proof. unfold run_sw. apply run_frame. Qed.
(* even the aliasing summary touches nothing but that list *)
Lemma head_step_only_ext h o :
  let h' := head_step h o in
  h_graph h' = h_graph h /\ h_opts h' = h_opts h /\ h_sopts h' = h_sopts h /\ h_cons h' = h_cons h /\
  h_ign h' = h_ign h /\ h_starts h' = h_starts h /\ h_ends h' = h_ends h /\ h_sup h' = h_sup h /\ h_defaults h' = h_defaults h.
Proof.
  cbv zeta. unfold head_step, step_gen2.
  assert (E : opts_step opts_hold h o = h).
  { rewrite <- step_gen_opts. apply frame. }
  rewrite E. unfold ext_step. destruct (_ && _ && _ && _ && _); repeat split.
Qed.

Theorem frame_participants p pass sup hc sv h : step h (op_of p pass sup hc sv) = h.
Proof. apply frame. Qed.

(* ---------------------------------------------------------------- refused constructions *)
Lemma ctor_effs_current h o : ctor_effs opts_hold no_tag h o = [].
Proof.
  unfold ctor_effs, no_tag. cbn [app]. destruct (negb (o_pass_opts o) || is_empty (h_opts h)); [reflexivity|].
  destruct (o_cls o); reflexivity.
Qed.
(* a construction that is refused, wherever it stops, leaves the caller's heap as it was *)
Theorem refused_frame h o n : refused_step h o n = h.
Proof. unfold refused_step, refused_gen. rewrite ctor_effs_current. destruct n; reflexivity. Qed.
Theorem ev_frame h e : ev_step h e = h.
Proof. destruct e; [apply frame|apply refused_frame]. Qed.
Theorem ev_run_frame evs : forall h, ev_run evs h = h.
Proof. induction evs as [|e r IH]; intros h; [reflexivity|]. cbn [ev_run fold_left]. rewrite ev_frame. apply IH. Qed.
Theorem ev_history_independent evs h o : model_of (ev_run evs h) o = model_of h o.
Proof. rewrite ev_run_frame. reflexivity. Qed.

(* in-place tagging of the caller's graph: every COMPLETED construction restores the graph ... *)
Lemma filter_fresh (t : nat) (l : list nat) : ~ In t l -> filter (fun x => negb (Nat.eqb x t)) (l ++ [t]) = l.
Proof.
  intros H. rewrite filter_app. cbn [filter]. rewrite Nat.eqb_refl. cbn [negb]. rewrite app_nil_r.
  induction l as [|a l IH]; [reflexivity|]. cbn [filter]. destruct (Nat.eqb a t) eqn:E.
  - apply Nat.eqb_eq in E. subst. exfalso. apply H. left. reflexivity.
  - cbn [negb]. f_equal. apply IH. intros Hi. apply H. right. exact Hi.
Qed.
Theorem inplace_tag_completed_invisible h o : ~ In 1 (h_graph h) -> completed_gen opts_hold inplace_tag h o = h.
Proof.
  intros Hn. unfold completed_gen, ctor_effs.
  assert (E : (if negb (o_pass_opts o) || is_empty (h_opts h) then [] else
               match opts_hold (o_cls o) with AliasIfNonEmpty => [EKeys (ctor_writes (o_cls o) (o_sup o) (o_hc o))] | _ => [] end) = @nil eff).
  { destruct (negb (o_pass_opts o) || is_empty (h_opts h)); [reflexivity|]. destruct (o_cls o); reflexivity. }
  rewrite E, app_nil_r. destruct (inplace_tag (o_cls o)); [|reflexivity].
  unfold run_effs. cbn [fold_left apply_eff with_graph h_graph]. rewrite (filter_fresh 1 (h_graph h) Hn). destruct h; reflexivity.
Qed.
(* ... but a construction refused between tagging and untagging leaves the tags behind *)
Theorem inplace_tag_refused_refuted : exists h o n, ~ In 1 (h_graph h) /\ refused_gen opts_hold inplace_tag h o n <> h.
Proof. exists ex_heap, (mk_op CkPathCover true false false true), 1. split; [intros []|vm_compute; discriminate]. Qed.
(* the old dict handling also failed the refused-construction frame (keys written before the refusal stay) *)
Theorem old_refused_refuted : exists h o n, refused_gen old_opts_hold no_tag h o n <> h.
Proof. exists ex_heap, (mk_op CkMinPathError true true false true), 1. vm_compute. discriminate. Qed.
