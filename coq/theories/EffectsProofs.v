(* C18 — proofs about Effects.v *)
From Coq Require Import List Bool Arith Lia.
Import ListNotations.
From FP Require Import Validate Effects.
Set Default Timeout 60.

Lemma frame_quiet h o : quiet h o = true -> step h o = h.
Proof.
  unfold quiet, step. destruct (negb (o_pass_opts o) || is_empty (h_opts h)); cbn; [reflexivity|].
  destruct (opts_hold (o_cls o)); try reflexivity; try discriminate.
  destruct (o_solve o); cbn; [discriminate|reflexivity].
Qed.

(* classes whose summary never writes: every argument vector, every heap *)
Definition frame_class (c : cls) : bool :=
  match opts_hold c with Copy | AliasReadOnly => true | _ => false end.
Lemma frame_of_class h o : frame_class (o_cls o) = true -> step h o = h.
Proof.
  intros F. apply frame_quiet. unfold quiet, frame_class in *.
  destruct (opts_hold (o_cls o)); try discriminate; apply orb_true_r.
Qed.
(* the other classes leave the heap alone when optimization_options is omitted or empty *)
Lemma frame_omitted_or_empty h o : o_pass_opts o = false \/ h_opts h = [] -> step h o = h.
Proof.
  intros [E|E]; apply frame_quiet; unfold quiet; rewrite E; cbn; [reflexivity|].
  destruct (negb (o_pass_opts o)); reflexivity.
Qed.

Definition ex_heap : heap :=
  {| h_graph := []; h_opts := [KUser 0]; h_sopts := [1]; h_cons := [2]; h_ign := []; h_starts := []; h_ends := []; h_defaults := [] |}.
Definition mk_op c p s hc sv := {| o_cls := c; o_pass_opts := p; o_sup := s; o_hc := hc; o_solve := sv |}.

(* DESIGN #16: `optimization_options or {}` aliases a non-empty caller dict and writes into it *)
Lemma frame_refuted_kLeastAbsErrors : exists h o, o_cls o = CkLeastAbsErrors /\ step h o <> h.
Proof. exists ex_heap, (mk_op CkLeastAbsErrors true false false true). split; [reflexivity|]. vm_compute. discriminate. Qed.
Lemma frame_refuted_all_aliasing c :
  opts_hold c = AliasIfNonEmpty \/ opts_hold c = AliasForward -> exists h o, o_cls o = c /\ step h o <> h.
Proof.
  intros H. exists ex_heap, (mk_op c true false false true). split; [reflexivity|].
  destruct c; cbn in H; destruct H as [H|H]; try discriminate; vm_compute; discriminate.
Qed.

(* arbitrary histories of quiet operations leave the heap unchanged ... *)
Lemma run_quiet ops : forall h, Forall (fun o => quiet h o = true) ops -> run ops h = h.
Proof.
  induction ops as [|o r IH]; intros h F; [reflexivity|].
  inversion F as [|? ? Q F']; subst. change (run (o :: r) h) with (run r (step h o)).
  rewrite (frame_quiet h o Q). apply IH. exact F'.
Qed.
(* ... so the model constructed at the end of the history is the one constructed from the initial heap *)
Theorem history_independent ops h o :
  Forall (fun o' => quiet h o' = true) ops -> model_of (run ops h) o = model_of h o.
Proof. intros F. rewrite (run_quiet ops h F). reflexivity. Qed.
Corollary history_independent_frame_classes ops h o :
  Forall (fun o' => frame_class (o_cls o') = true) ops -> model_of (run ops h) o = model_of h o.
Proof.
  intros F. apply history_independent. eapply Forall_impl; [|exact F].
  intros a Fa. unfold quiet, frame_class in *. destruct (opts_hold (o_cls a)); try discriminate; apply orb_true_r.
Qed.

(* a kMinPathError with given weights pollutes the shared dict; a later kLeastAbsErrors sees allow_empty_paths etc. *)
Theorem history_independent_refuted :
  exists ops h o, model_of (run ops h) o <> model_of h o.
Proof.
  exists [mk_op CkMinPathError true true false true], ex_heap, (mk_op CkLeastAbsErrors true false false true).
  vm_compute. discriminate.
Qed.

(* writing is idempotent: constructing the same thing again adds nothing more *)
Lemma has_key_app k d d' : has_key k (d ++ d') = has_key k d || has_key k d'.
Proof. unfold has_key. apply existsb_app. Qed.
Lemma key_eqb_refl k : key_eqb k k = true.
Proof. destruct k; cbn; auto. apply Nat.eqb_refl. Qed.
Lemma set_key_has d k : has_key k (set_key d k) = true.
Proof.
  unfold set_key. destruct (has_key k d) eqn:E; [exact E|].
  rewrite has_key_app. cbn. rewrite key_eqb_refl. apply orb_true_r.
Qed.
Lemma set_key_keeps d k k' : has_key k d = true -> has_key k (set_key d k') = true.
Proof.
  unfold set_key. destruct (has_key k' d); auto. intros H. rewrite has_key_app, H. reflexivity.
Qed.
Lemma set_keys_keeps ks : forall d k, has_key k d = true -> has_key k (set_keys d ks) = true.
Proof.
  induction ks as [|a r IH]; cbn; auto. intros d k H.
  change (has_key k (set_keys (set_key d a) r) = true). apply IH. apply set_key_keeps. exact H.
Qed.
Lemma set_keys_fix ks : forall d, forallb (fun k => has_key k d) ks = true -> set_keys d ks = d.
Proof.
  induction ks as [|a r IH]; cbn; auto. intros d H. apply andb_prop in H as [H1 H2].
  change (set_keys (set_key d a) r = d).
  replace (set_key d a) with d by (unfold set_key; rewrite H1; reflexivity). apply IH. exact H2.
Qed.
Lemma set_keys_has ks : forall d, forallb (fun k => has_key k (set_keys d ks)) ks = true.
Proof.
  induction ks as [|a r IH]; cbn; auto. intros d.
  change (has_key a (set_keys (set_key d a) r) && forallb (fun k => has_key k (set_keys (set_key d a) r)) r = true).
  rewrite IH, andb_true_r. apply set_keys_keeps. apply set_key_has.
Qed.
Lemma set_keys_idem ks d : set_keys (set_keys d ks) ks = set_keys d ks.
Proof. apply set_keys_fix. apply set_keys_has. Qed.
Lemma set_keys_nonempty ks d : d <> [] -> set_keys d ks <> [].
Proof.
  revert d. induction ks as [|a r IH]; cbn; auto. intros d H.
  change (set_keys (set_key d a) r <> []). apply IH.
  unfold set_key. destruct (has_key a d); auto. destruct d; [congruence|discriminate].
Qed.
Theorem step_idempotent h o : step (step h o) o = step h o.
Proof.
  unfold step at 2 3. destruct (negb (o_pass_opts o) || is_empty (h_opts h)) eqn:E.
  - unfold step. rewrite E. reflexivity.
  - apply orb_false_elim in E as [E1 E2].
    assert (NE : h_opts h <> []) by (destruct (h_opts h); [discriminate|discriminate]).
    destruct (opts_hold (o_cls o)) eqn:Hh; try (unfold step; rewrite E1, E2, Hh; reflexivity).
    + unfold step. cbn [h_opts with_opts]. rewrite E1, Hh. cbn [orb].
      destruct (is_empty (set_keys (h_opts h) _)) eqn:E3.
      * exfalso. apply (set_keys_nonempty (ctor_writes (o_cls o) (o_sup o) (o_hc o)) _ NE).
        destruct (set_keys _ _); [reflexivity|discriminate].
      * unfold with_opts. cbn. rewrite set_keys_idem. reflexivity.
    + destruct (o_solve o) eqn:S; [|unfold step; rewrite E1, E2, Hh, S; reflexivity].
      unfold step. cbn [h_opts with_opts]. rewrite E1, Hh, S. cbn [orb].
      destruct (is_empty (set_keys (h_opts h) _)) eqn:E3.
      * exfalso. apply (set_keys_nonempty (solve_writes (o_cls o)) _ NE).
        destruct (set_keys _ _); [reflexivity|discriminate].
      * unfold with_opts. cbn. rewrite set_keys_idem. reflexivity.
Qed.

(* only optimization_options is ever touched: every other shared object keeps its value over any history *)
Lemma step_only_opts h o :
  h_graph (step h o) = h_graph h /\ h_sopts (step h o) = h_sopts h /\ h_cons (step h o) = h_cons h /\
  h_ign (step h o) = h_ign h /\ h_starts (step h o) = h_starts h /\ h_ends (step h o) = h_ends h /\
  h_defaults (step h o) = h_defaults h.
Proof.
  unfold step. destruct (negb (o_pass_opts o) || is_empty (h_opts h)); [repeat split|].
  destruct (opts_hold (o_cls o)); try (repeat split); destruct (o_solve o); repeat split.
Qed.
Theorem run_only_opts ops : forall h,
  h_graph (run ops h) = h_graph h /\ h_sopts (run ops h) = h_sopts h /\ h_cons (run ops h) = h_cons h /\
  h_ign (run ops h) = h_ign h /\ h_starts (run ops h) = h_starts h /\ h_ends (run ops h) = h_ends h /\
  h_defaults (run ops h) = h_defaults h.
Proof.
  induction ops as [|o r IH]; intros h; [repeat split|].
  change (run (o :: r) h) with (run r (step h o)).
  destruct (IH (step h o)) as (A & B & C & D & E & F & G).
  destruct (step_only_opts h o) as (A' & B' & C' & D' & E' & F' & G').
  repeat split; congruence.
Qed.
(* and the caller's own keys are never removed *)
Theorem run_keeps_keys ops : forall h k, has_key k (h_opts h) = true -> has_key k (h_opts (run ops h)) = true.
Proof.
  induction ops as [|o r IH]; intros h k H; [exact H|]. change (run (o :: r) h) with (run r (step h o)). apply IH.
  unfold step. destruct (negb (o_pass_opts o) || is_empty (h_opts h)); [exact H|].
  destruct (opts_hold (o_cls o)); try exact H.
  - cbn. apply set_keys_keeps. exact H.
  - destruct (o_solve o); [cbn; apply set_keys_keeps|]; exact H.
Qed.

(* getters: the first call may fill the cache, every further call returns the same value and state *)
Theorem idempotent_getters m :
  let '(m1, r1) := get_solution m in let '(m2, r2) := get_solution m1 in let '(m3, r3) := get_solution m2 in
  r1 = r2 /\ r2 = r3 /\ m2 = m1 /\ m3 = m2.
Proof.
  unfold get_solution. destruct (ms_cached m) eqn:C; cbn.
  - rewrite C. cbn. rewrite C. auto.
  - destruct (ms_solved m) eqn:S; cbn; [auto|]. rewrite C, S. cbn. rewrite C, S. auto.
Qed.

Theorem full_statement_refuted18 : ~ (forall h o, step h o = h).
Proof.
  intros F. destruct frame_refuted_kLeastAbsErrors as (h & o & _ & N). apply N. apply F.
Qed.
