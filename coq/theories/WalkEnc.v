(* Prototype: constraints 17a/17b/21/22a/22b/18a/19c imply that every used edge is reachable
   from the source through used edges (one layer). *)
From Coq Require Import List NArith ZArith Bool Arith Lia.
Import ListNotations.
From FP Require Import Euler.
Open Scope Z_scope.

Section WalkEnc.
  Variable G : graph.
  Variables s t : node.
  Variables x y : edge -> Z.
  Variable d : node -> Z.
  Variable Mv : node -> Z.
  Variable M : Z.

  Definition outs (v : node) : list edge := filter (fun e => (fst e =? v)%N) G.
  Definition ins  (v : node) : list edge := filter (fun e => (snd e =? v)%N) G.
  Definition sumf (f : edge -> Z) (l : list edge) : Z := fold_right (fun e a => f e + a) 0 l.

  Hypothesis Hx0  : forall e, In e G -> 0 <= x e.
  Hypothesis Hy01 : forall e, In e G -> y e = 0 \/ y e = 1.
  Hypothesis Hd0  : forall v, 0 <= d v.
  Hypothesis H21  : forall e, In e G -> y e <= x e.
  Hypothesis H22a : forall v, v <> s -> sumf x (ins v) <= Mv v * sumf y (ins v).
  Hypothesis H19c : forall u v, In (u, v) G -> d u + 1 - M * (1 - y (u, v)) <= d v.
  Hypothesis H17b : forall v, v <> s -> v <> t -> sumf x (ins v) = sumf x (outs v).
  Hypothesis Ht_out : outs t = [].

  Definition pos (e : edge) : Prop := In e G /\ 1 <= x e.
  Inductive preach : node -> Prop :=
  | preach_s : preach s
  | preach_step u v : preach u -> pos (u, v) -> preach v.

  Lemma sumf_nonneg f l : (forall e, In e l -> 0 <= f e) -> 0 <= sumf f l.
  Proof. induction l as [|e l IH]; intros H; simpl; [lia|]. specialize (H e (or_introl eq_refl)) as He. specialize (IH (fun e' h => H e' (or_intror h))). lia. Qed.

  Lemma sumf_pos_ex f l : (forall e, In e l -> 0 <= f e) -> 1 <= sumf f l -> exists e, In e l /\ 1 <= f e.
  Proof.
    induction l as [|e l IH]; intros H S; simpl in S; [lia|].
    destruct (Z_le_gt_dec 1 (f e)) as [Hf|Hf]; [exists e; split; [left; reflexivity|assumption]|].
    assert (f e = 0) by (specialize (H e (or_introl eq_refl)); lia).
    destruct IH as (e' & He' & Hf'); [intros e' h; apply H; right; assumption|lia|].
    exists e'. split; [right|]; assumption.
  Qed.

  Lemma sumf_ge_member f l e : (forall e, In e l -> 0 <= f e) -> In e l -> f e <= sumf f l.
  Proof.
    induction l as [|a l IH]; intros H Hin0; [destruct Hin0|]. destruct Hin0 as [<-|Hin]; simpl.
    - pose proof (sumf_nonneg f l (fun e' h => H e' (or_intror h))). lia.
    - specialize (IH (fun e' h => H e' (or_intror h)) Hin). specialize (H a (or_introl eq_refl)). lia.
  Qed.

  Lemma ins_In e v : In e (ins v) <-> In e G /\ snd e = v.
  Proof. unfold ins. rewrite filter_In, N.eqb_eq. tauto. Qed.
  Lemma outs_In e v : In e (outs v) <-> In e G /\ fst e = v.
  Proof. unfold outs. rewrite filter_In, N.eqb_eq. tauto. Qed.

  Lemma inflow_reach : forall n v, Z.to_nat (d v) = n -> (v = s \/ 1 <= sumf x (ins v)) -> preach v.
  Proof.
    induction n as [n IH] using lt_wf_ind. intros v Hn [->|Hin]; [constructor|].
    destruct (N.eq_dec v s) as [->|Hvs]; [constructor|].
    pose proof (H22a v Hvs) as Ha.
    assert (Hys : 1 <= sumf y (ins v)).
    { assert (0 <= sumf y (ins v)) by (apply sumf_nonneg; intros e He; apply ins_In in He; destruct (Hy01 e) as [-> | ->]; [tauto|lia|lia]).
      destruct (Z_le_gt_dec 1 (sumf y (ins v))); [assumption|]. assert (sumf y (ins v) = 0) by lia. rewrite H0 in Ha. lia. }
    destruct (sumf_pos_ex y (ins v)) as ([u v'] & He & Hy1); [intros e He; apply ins_In in He; destruct (Hy01 e) as [-> | ->]; [tauto|lia|lia]|assumption|].
    apply ins_In in He. destruct He as [HeG Hv]. simpl in Hv. subst v'.
    assert (Hye : y (u, v) = 1) by (destruct (Hy01 _ HeG); lia).
    pose proof (H21 _ HeG) as Hxe. pose proof (H19c _ _ HeG) as Hd. rewrite Hye in Hd.
    assert (Hdu : d u < d v) by lia.
    apply (preach_step u v); [|split; [assumption|lia]].
    apply (IH (Z.to_nat (d u))); [pose proof (Hd0 u); pose proof (Hd0 v); lia|reflexivity|].
    destruct (N.eq_dec u s) as [->|Hus]; [left; reflexivity|right].
    assert (Hut : u <> t).
    { intros ->. assert (In (t, v) (outs t)) by (apply outs_In; tauto). rewrite Ht_out in H. destruct H. }
    rewrite (H17b u Hus Hut).
    assert (x (u, v) <= sumf x (outs u)).
    { apply sumf_ge_member; [intros e He; apply outs_In in He; apply Hx0; tauto|apply outs_In; tauto]. }
    lia.
  Qed.

  Theorem used_edges_connected a b : pos (a, b) -> preach a.
  Proof.
    intros [HG Hx]. apply (inflow_reach (Z.to_nat (d a)) a eq_refl).
    destruct (N.eq_dec a s) as [->|Has]; [left; reflexivity|right].
    assert (Hat : a <> t).
    { intros ->. assert (In (t, b) (outs t)) by (apply outs_In; tauto). rewrite Ht_out in H. destruct H. }
    rewrite (H17b a Has Hat).
    assert (x (a, b) <= sumf x (outs a)).
    { apply sumf_ge_member; [intros e He; apply outs_In in He; apply Hx0; tauto|apply outs_In; tauto]. }
    lia.
  Qed.
End WalkEnc.
Print Assumptions used_edges_connected.
