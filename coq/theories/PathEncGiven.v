(* kFlowDecomp with given weights (solution_weights_superset): soundness of PathEnc.encode_kfd_given.
   Empty layers are allowed (row 10a is "<= 1"): every layer of a satisfying assignment is EITHER empty (no edge has
   value 1) OR exactly one source-to-sink path; the given weights of the non-empty layers explain every non-ignored
   edge; at most k_orig layers are non-empty; the objective counts them. *)
From Coq Require Import List NArith ZArith QArith Lqa Bool Arith Lia Permutation.
Import ListNotations.
From FP Require Import Lin Blocks BlocksProofs PathEnc Euler EulerProofs1 EulerProofs2 DagDecode PathEncProofs.
Set Default Timeout 60.
Local Close Scope Q_scope.

(* ---- a layer with no edge leaving the source is empty (DAG, conservation at inner nodes) ---- *)
Section EmptyLayer.
  Variable G : graph.
  Variable x : edge -> Z.
  Variables s t : node.
  Variable rank : node -> nat.
  Hypothesis Hrank : forall u v, In (u, v) G -> (rank u < rank v)%nat.
  Hypothesis Hbin : forall e, In e G -> x e = 0%Z \/ x e = 1%Z.
  Hypothesis H0 : sumx x (outs G s) = 0%Z.
  Hypothesis H10c : forall v, v <> s -> v <> t -> sumx x (ins G v) = sumx x (outs G v).
  Hypothesis Ht_out : outs G t = [].

  Lemma no_one_edge : forall n u v, rank u = n -> In (u, v) (Sup G x) -> False.
  Proof.
    induction n as [n IH] using lt_wf_ind. intros u v Hn He.
    pose proof (in_outd_pos _ _ _ He) as Ho.
    pose proof (outd_Sup G x Hbin u) as Eo.
    destruct (N.eq_dec u t) as [->|Hut].
    - apply Sup_In in He. destruct He as [He _].
      assert (Hin : In (t, v) (outs G t)) by (unfold outs; apply filter_In; split; [exact He|apply N.eqb_refl]).
      rewrite Ht_out in Hin. destruct Hin.
    - destruct (N.eq_dec u s) as [->|Hus].
      + rewrite H0 in Eo. lia.
      + pose proof (ind_Sup G x Hbin u) as Ei. rewrite (H10c u Hus Hut) in Ei.
        assert (Hi : ind (Sup G x) u > 0) by lia.
        destruct (ind_pos_find _ _ Hi) as ([p u'] & Hp & Hsnd). cbn [snd] in Hsnd. subst u'.
        assert (HpG : In (p, u) G) by (apply Sup_In in Hp; tauto).
        pose proof (Hrank p u HpG) as Hr.
        apply (IH (rank p) ltac:(lia) p u eq_refl Hp).
  Qed.

  Lemma empty_layer : forall e, In e G -> x e = 0%Z.
  Proof.
    intros [u v] He. destruct (Hbin _ He) as [Z0|Z1]; [exact Z0|exfalso].
    apply (no_one_edge (rank u) u v eq_refl). apply Sup_In. split; assumption.
  Qed.
End EmptyLayer.

Lemma sumq_plus {A} (g h : A -> Q) l : (sumq (fun x => g x + h x) l == sumq g l + sumq h l)%Q.
Proof. induction l as [|x l IH]; cbn [sumq]; [ring|rewrite IH; ring]. Qed.

Lemma sumq_swap {A B} (g : A -> B -> Q) (l1 : list A) (l2 : list B) :
  (sumq (fun a => sumq (fun b => g a b) l2) l1 == sumq (fun b => sumq (fun a => g a b) l1) l2)%Q.
Proof.
  induction l1 as [|a l1 IH]; cbn [sumq].
  - induction l2 as [|b l2 IH2]; cbn [sumq]; [reflexivity|rewrite <- IH2; ring].
  - rewrite IH, <- sumq_plus. reflexivity.
Qed.

Lemma eval_flat_map {A} (a : var -> Q) (f : A -> lin) (l : list A) :
  (eval a (flat_map f l) == sumq (fun x => eval a (f x)) l)%Q.
Proof. induction l as [|x l IH]; cbn [flat_map sumq]; [reflexivity|rewrite eval_app, IH; reflexivity]. Qed.

Fixpoint sumz {A} (g : A -> Z) (l : list A) : Z := match l with [] => 0%Z | x :: r => (g x + sumz g r)%Z end.
Lemma sumq_sumz {A} (g : A -> Q) (h : A -> Z) (l : list A) :
  (forall x, In x l -> (g x == inject_Z (h x))%Q) -> (sumq g l == inject_Z (sumz h l))%Q.
Proof.
  induction l as [|x l IH]; intros H; cbn [sumq sumz]; [reflexivity|].
  rewrite inject_Z_plus, <- IH by (intros y Hy; apply H; right; exact Hy). rewrite (H x (or_introl eq_refl)). reflexivity.
Qed.

Section GivenRows.
  Variable I : kfd_inst.
  Variable ws : list Q.
  Variable k_orig : nat.
  Variable a : var -> Q.
  Let B := f_base I.
  Let G := p_graph B.
  Let k := p_k B.
  Let E := g_edges G.
  Let s := g_src G.
  Let t := g_snk G.
  Hypothesis WF : wf_graph G.
  Hypothesis Hae : p_allow_empty B = true.
  Hypothesis Hlen : length ws = k.
  Hypothesis Hsat : sat a (encode_kfd_given I ws k_orig).

  Lemma g_cols : Forall (sat_col a) (edge_cols G k).
  Proof. destruct Hsat as [Hc _]. unfold encode_kfd_given in Hc. cbn [cols] in Hc. unfold base_cols in Hc. rewrite Forall_app in Hc. tauto. Qed.
  Lemma g_path_rows : Forall (sat_row a) (path_rows G k true).
  Proof.
    destruct Hsat as [_ Hr]. unfold encode_kfd_given in Hr. cbn [rows] in Hr. rewrite Forall_app in Hr. destruct Hr as [Hr _].
    unfold base_rows in Hr. rewrite Forall_app in Hr. destruct Hr as [Hr _]. fold B in Hr. rewrite Hae in Hr. exact Hr.
  Qed.
  Lemma g_given_rows : Forall (sat_row a) (kfdw_rows I ws k_orig).
  Proof. destruct Hsat as [_ Hr]. unfold encode_kfd_given in Hr. cbn [rows] in Hr. rewrite Forall_app in Hr. tauto. Qed.

  Lemma g_bin i e : In i (layers k) -> In e E -> bin (a (Edge (fst e) (snd e) i)).
  Proof. intros Hi He. exact (edge_bin G k a g_cols i e Hi He). Qed.
  Lemma g_xbin i e : In i (layers k) -> In e E -> xval a i e = 0%Z \/ xval a i e = 1%Z.
  Proof. intros Hi He. exact (proj2 (xval_bin a i e (g_bin i e Hi He))). Qed.

  (* 10a with "<=": at most one edge leaves the source *)
  Lemma g_out_src i : In i (layers k) -> sumx (xval a i) (outs E s) = 0%Z \/ sumx (xval a i) (outs E s) = 1%Z.
  Proof.
    intros Hi.
    assert (R : sat_row a (row_10a G true i)).
    { apply (sat_rows_in a _ _ g_path_rows). unfold path_rows. apply in_or_app. left. apply in_map. exact Hi. }
    unfold sat_row, row_10a, mkrow in R. cbn [sns lhs rhs] in R.
    rewrite (eval_map_const a (fun v => Edge (g_src G) v i) 1%Q) in R.
    rewrite (wf_succ G WF) in R. rewrite sumq_map in R.
    assert (Eq : (sumq (fun e => a (Edge (g_src G) (snd e) i)) (filter (fun e => (fst e =? g_src G)%N) (g_edges G))
                 == sumq (fun e => a (Edge (fst e) (snd e) i)) (outs E s))%Q).
    { unfold outs, E, s. apply sumq_ext. intros e He. apply filter_In in He. destruct He as [_ He].
      apply N.eqb_eq in He. rewrite He. reflexivity. }
    rewrite Eq in R. rewrite sumq_inject in R.
    - assert (Hle : (sumx (xval a i) (outs E s) <= 1)%Z).
      { rewrite Zle_Qle. change (inject_Z 1) with 1%Q. lra. }
      assert (Hge : (0 <= sumx (xval a i) (outs E s))%Z).
      { rewrite (sumx_count E (xval a i) (fun e He => g_xbin i e Hi He)); [lia|]. intros e He. unfold outs in He. apply filter_In in He. tauto. }
      lia.
    - intros e He. apply g_bin; [exact Hi|]. unfold outs in He. apply filter_In in He. tauto.
  Qed.

  Lemma g_in_out i v : In i (layers k) -> v <> s -> v <> t ->
    sumx (xval a i) (ins E v) = sumx (xval a i) (outs E v).
  Proof.
    intros Hi Hs Ht.
    destruct (in_dec N.eq_dec v (g_nodes G)) as [Hv|Hv].
    - assert (R : sat_row a (row_10c G i v)).
      { apply (sat_rows_in a _ _ g_path_rows). unfold path_rows. apply in_or_app. right. apply in_flat_map. exists i. split; [exact Hi|].
        apply in_map. unfold inner. apply filter_In. split; [exact Hv|].
        destruct (N.eqb_spec v (g_src G)); [contradiction|]. destruct (N.eqb_spec v (g_snk G)); [contradiction|]. reflexivity. }
      unfold sat_row, row_10c, mkrow in R. cbn [sns lhs rhs] in R.
      rewrite eval_app in R.
      rewrite (eval_map_const a (fun u => Edge u v i) 1%Q), (eval_map_const a (fun w => Edge v w i) (- (1))%Q) in R.
      rewrite (sumq_perm _ _ _ (wf_pred G WF v)) in R. rewrite (wf_succ G WF) in R. rewrite !sumq_map in R.
      assert (E1 : (sumq (fun e => a (Edge (fst e) v i)) (filter (fun e => (snd e =? v)%N) (g_edges G))
                   == sumq (fun e => a (Edge (fst e) (snd e) i)) (ins E v))%Q).
      { unfold ins, E. apply sumq_ext. intros e He. apply filter_In in He. destruct He as [_ He]. apply N.eqb_eq in He. rewrite He. reflexivity. }
      assert (E2 : (sumq (fun e => a (Edge v (snd e) i)) (filter (fun e => (fst e =? v)%N) (g_edges G))
                   == sumq (fun e => a (Edge (fst e) (snd e) i)) (outs E v))%Q).
      { unfold outs, E. apply sumq_ext. intros e He. apply filter_In in He. destruct He as [_ He]. apply N.eqb_eq in He. rewrite He. reflexivity. }
      rewrite E1, E2 in R. rewrite !sumq_inject in R.
      + apply inject_Z_inj_eq. lra.
      + intros e He. apply g_bin; [exact Hi|]. unfold outs in He. apply filter_In in He. tauto.
      + intros e He. apply g_bin; [exact Hi|]. unfold ins in He. apply filter_In in He. tauto.
    - assert (I0 : ins E v = []).
      { unfold ins. destruct (filter (fun e => (snd e =? v)%N) E) as [|e l] eqn:F; [reflexivity|exfalso].
        assert (He : In e (filter (fun e => (snd e =? v)%N) E)) by (rewrite F; left; reflexivity).
        apply filter_In in He. destruct He as [He Hv']. apply N.eqb_eq in Hv'. apply Hv. rewrite <- Hv'. apply (wf_ends G WF e He). }
      assert (O0 : outs E v = []).
      { unfold outs. destruct (filter (fun e => (fst e =? v)%N) E) as [|e l] eqn:F; [reflexivity|exfalso].
        assert (He : In e (filter (fun e => (fst e =? v)%N) E)) by (rewrite F; left; reflexivity).
        apply filter_In in He. destruct He as [He Hv']. apply N.eqb_eq in Hv'. apply Hv. rewrite <- Hv'. apply (wf_ends G WF e He). }
      rewrite I0, O0. reflexivity.
  Qed.

  (* every layer is empty or one source-to-sink path *)
  Theorem given_layer_empty_or_path (rank : node -> nat) (Rm : nat) i :
    (forall u v, In (u, v) E -> (rank u < rank v)%nat) -> (forall v, (rank v <= Rm)%nat) ->
    In i (layers k) ->
    (sumx (xval a i) (outs E s) = 0%Z /\ (forall e, In e E -> xval a i e = 0%Z) /\
       solution_path E (xval a i) s t (S Rm) = Some []) \/
    (sumx (xval a i) (outs E s) = 1%Z /\
       exists p, decode E (xval a i) t (S Rm) s = Some p /\ last p s = t /\ Permutation (Sup E (xval a i)) (pairs (s :: p))).
  Proof.
    intros Hrank HR Hi. destruct (g_out_src i Hi) as [H0|H1]; [left|right].
    - assert (Hz : forall e, In e E -> xval a i e = 0%Z).
      { apply (empty_layer E (xval a i) s t rank Hrank (fun e He => g_xbin i e Hi He) H0 (fun v => g_in_out i v Hi)).
        exact (outs_snk_nil G WF). }
      split; [exact H0|]. split; [exact Hz|].
      unfold solution_path.
      destruct (find (x_one (xval a i)) (out_edges E s)) as [e|] eqn:F; [exfalso|reflexivity].
      apply find_some in F. destruct F as [Fin Fone]. unfold out_edges in Fin. apply filter_In in Fin.
      unfold x_one in Fone. apply Z.eqb_eq in Fone. rewrite (Hz e (proj1 Fin)) in Fone. discriminate.
    - split; [exact H1|].
      apply (decode_exact E (xval a i) s t rank Rm (wf_nodup_e G WF) Hrank HR (fun e He => g_xbin i e Hi He) H1
               (fun v => g_in_out i v Hi) (ins_src_nil G WF) (outs_snk_nil G WF) (wf_st G WF)).
  Qed.

  (* the given weights of the layers through e add up to the flow of e *)
  Theorem given_flow_explained e : In e E -> mem_edge e (f_ignore I) = false ->
    (sumq (fun iw => snd iw * inject_Z (xval a (fst iw) e)) (zipn 0 ws) == lookup_q e (f_flow I) 0)%Q.
  Proof.
    intros He Hig.
    assert (R : sat_row a (mkrow (map (fun iw => (Edge (fst e) (snd e) (fst iw), snd iw)) (zipn 0 ws)) SEq (lookup_q e (f_flow I) 0%Q))).
    { apply (sat_rows_in a _ _ g_given_rows). unfold kfdw_rows. apply in_or_app. left.
      apply (in_map (fun e => mkrow (map (fun iw => (Edge (fst e) (snd e) (fst iw), snd iw)) (zipn 0 ws)) SEq (lookup_q e (f_flow I) 0%Q))).
      apply filter_In. split; [exact He|]. rewrite Hig. reflexivity. }
    unfold sat_row, mkrow in R. cbn [sns lhs rhs] in R.
    rewrite (eval_map_coef a (fun iw => Edge (fst e) (snd e) (fst iw)) (fun iw => snd iw) (zipn 0 ws)) in R.
    rewrite <- R. apply sumq_ext. intros [i w] Hiw. cbn [fst snd].
    destruct (in_zipn _ _ _ _ Hiw) as (n & -> & _ & Hn). rewrite Nat.sub_0_r in Hn.
    assert (Hi : In (N.of_nat n) (layers k)).
    { apply in_layers. exists n. split; [|reflexivity]. rewrite <- Hlen. apply nth_error_Some. rewrite Hn. discriminate. }
    destruct (xval_bin a (N.of_nat n) e (g_bin _ e Hi He)) as [X _]. rewrite X. reflexivity.
  Qed.

  (* at most k_orig layers are non-empty; the objective is their number *)
  Theorem given_path_count :
    (sumz (fun i => sumx (xval a i) (outs E s)) (layers k) <= Z.of_nat k_orig)%Z /\
    (objective a (encode_kfd_given I ws k_orig) == inject_Z (sumz (fun i => sumx (xval a i) (outs E s)) (layers k)))%Q.
  Proof.
    assert (Ev : (eval a (src_out_terms G k) == inject_Z (sumz (fun i => sumx (xval a i) (outs E s)) (layers k)))%Q).
    { unfold src_out_terms. rewrite eval_flat_map.
      assert (E1 : (sumq (fun v => eval a (map (fun i => (Edge (g_src G) v i, 1%Q)) (layers k))) (succs G (g_src G)) ==
                    sumq (fun v => sumq (fun i => a (Edge (g_src G) v i)) (layers k)) (succs G (g_src G)))%Q).
      { apply sumq_ext. intros v _. rewrite (eval_map_const a (fun i => Edge (g_src G) v i) 1%Q). ring. }
      rewrite E1, sumq_swap. apply sumq_sumz. intros i Hi.
      rewrite (wf_succ G WF), sumq_map.
      assert (Eq : (sumq (fun e => a (Edge (g_src G) (snd e) i)) (filter (fun e => (fst e =? g_src G)%N) (g_edges G))
                   == sumq (fun e => a (Edge (fst e) (snd e) i)) (outs E s))%Q).
      { unfold outs, E, s. apply sumq_ext. intros e He. apply filter_In in He. destruct He as [_ He].
        apply N.eqb_eq in He. rewrite He. reflexivity. }
      rewrite Eq. apply sumq_inject. intros e He. apply g_bin; [exact Hi|]. unfold outs in He. apply filter_In in He. tauto. }
    split.
    - assert (R : sat_row a (mkrow (src_out_terms G k) SLe (inject_Z (Z.of_nat k_orig)))).
      { apply (sat_rows_in a _ _ g_given_rows). unfold kfdw_rows. apply in_or_app. right. left. reflexivity. }
      unfold sat_row, mkrow in R. cbn [sns lhs rhs] in R. rewrite Ev in R. rewrite Zle_Qle. exact R.
    - unfold objective, encode_kfd_given. cbn [obj]. exact Ev.
  Qed.
End GivenRows.
