From Coq Require Import List NArith ZArith Bool Arith Lia Permutation.
Import ListNotations.
From FP Require Import Euler EulerProofs1.

Lemma last_app_cons (l : list node) y l2 d : last (l ++ y :: l2) d = last (y :: l2) d.
Proof.
  induction l as [|a l IH]; [reflexivity|].
  change ((a :: l) ++ y :: l2) with (a :: (l ++ y :: l2)).
  rewrite last_cons_ne; [exact IH|]. destruct l; discriminate.
Qed.

Lemma pairs_length v c : length (pairs (v :: c)) = length c.
Proof. revert v. induction c as [|a c IH]; intros v; [reflexivity|]. rewrite pairs_cons2. cbn [length]. rewrite IH. reflexivity. Qed.

(* ---------- splice ---------- *)
Lemma splice_split w v c : In v w ->
  exists l1 l2, w = l1 ++ v :: l2 /\ splice w v c = l1 ++ v :: c ++ l2.
Proof.
  induction w as [|x r IH]; intros H; [destruct H|]. simpl.
  destruct (N.eqb_spec x v) as [->|Hne].
  - exists [], r. split; reflexivity.
  - destruct H as [H|H]; [congruence|]. destruct (IH H) as (l1 & l2 & E1 & E2).
    exists (x :: l1), l2. rewrite E1 at 1. rewrite E2. split; reflexivity.
Qed.

Lemma pairs_splice l1 v c l2 : c <> [] -> last c v = v ->
  Permutation (pairs (l1 ++ v :: c ++ l2)) (pairs (l1 ++ v :: l2) ++ pairs (v :: c)).
Proof.
  intros Hc Hl.
  destruct (exists_last Hc) as (c' & z & ->).
  rewrite last_app_single in Hl. subst z.
  rewrite (pairs_app_mid l1 v l2).
  rewrite (pairs_app_mid l1 v ((c' ++ [v]) ++ l2)).
  rewrite <- app_assoc. simpl ((c' ++ [v] ++ l2)).
  replace (v :: c' ++ v :: l2) with ((v :: c') ++ v :: l2) by reflexivity.
  rewrite (pairs_app_mid (v :: c') v l2).
  replace ((v :: c') ++ [v]) with (v :: c' ++ [v]) by reflexivity.
  rewrite <- !app_assoc.
  apply Permutation_app_head. apply Permutation_app_comm.
Qed.

Lemma in_pairs_r a b w : In (a, b) (pairs w) -> In a w /\ In b w.
Proof.
  induction w as [|x r IH]; [intros []|].
  destruct r as [|y r]; [intros []|].
  rewrite pairs_cons2. intros [H|H].
  - inversion H; subst. split; [left; reflexivity|right; left; reflexivity].
  - destruct (IH H). split; right; assumption.
Qed.

Inductive reach (g0 : graph) (s : node) : node -> Prop :=
| reach_refl : reach g0 s s
| reach_step x y : reach g0 s x -> In (x, y) g0 -> reach g0 s y.

(* ---------- the invariant of phase 2 ---------- *)
Record Inv (g0 : graph) (s t : node) (g : graph) (w stack : list node) : Prop := {
  I1 : Permutation g0 (pairs w ++ g);
  I2 : forall x, exc g x = 0%Z;
  I3 : forall x, In x stack -> In x w;
  I4 : forall x, In x w -> has_out g x = true -> In x stack;
  I5 : hd_error w = Some s /\ last w s = t
}.

Lemma has_out_mono g g' h x : Permutation g (h ++ g') -> has_out g' x = true -> has_out g x = true.
Proof.
  intros P H. apply has_out_in in H. destruct H as [v H]. apply has_out_in. exists v.
  eapply Permutation_in; [symmetry; exact P|]. apply in_or_app. right. exact H.
Qed.

Lemma closed_good g v g' c pushed fuel :
  (forall x, exc g x = 0%Z) -> has_out g v = true ->
  closed_from fuel g v v = Some (g', c, pushed) ->
  c <> [] /\ last c v = v.
Proof.
  intros B Ho H. destruct (closed_from_spec _ _ _ _ _ _ _ H) as (P & S & [D|[D1 D2]]); [exact D|exfalso].
  destruct c as [|c0 c].
  - simpl in D1. apply pop_out_none in D1.
    assert (has_out g v = true -> has_out g' v = true).
    { intros _. simpl in P. apply has_out_in in Ho. destruct Ho as [y Hy]. apply has_out_in. exists y.
      eapply Permutation_in; [exact P|exact Hy]. }
    rewrite (H0 Ho) in D1. discriminate.
  - set (z := last (c0 :: c) v) in *.
    assert (Hz : In z (c0 :: c)).
    { unfold z. destruct (exists_last (l := c0 :: c) ltac:(discriminate)) as (c' & y & E). rewrite E.
      rewrite last_app_single. apply in_or_app. right. left. reflexivity. }
    assert (Hzv : z <> v) by (intros E; apply D2; rewrite <- E; exact Hz).
    apply pop_out_none, has_out_outd in D1.
    pose proof (exc_perm _ _ z P) as E. rewrite exc_app, exc_pairs, B in E. fold z in E.
    rewrite N.eqb_refl in E. destruct (N.eqb_spec z v); [congruence|].
    unfold exc in E. rewrite D1 in E. cbn [ind1] in E. lia.
Qed.

Lemma phase2_correct g0 s t efuel : forall fuel g w stack,
  Inv g0 s t g w stack ->
  2 * length g + length stack < fuel -> length g < efuel ->
  (forall a b, In (a, b) g0 -> reach g0 s a) ->
  exists w', phase2 fuel efuel g w stack = Some ([], w') /\
             Permutation g0 (pairs w') /\ hd_error w' = Some s /\ last w' s = t.
Proof.
  induction fuel as [|f IH]; intros g w stack HI Hf He Hc; [lia|].
  destruct stack as [|v st]; simpl.
  - (* stack empty: nothing can remain *)
    destruct HI as [P B S3 S4 [Hh Hl]].
    assert (Hw : forall x, reach g0 s x -> In x w).
    { induction 1 as [|x y Hr IHr Hxy].
      - destruct w; [discriminate|]. simpl in Hh. inversion Hh. left. reflexivity.
      - apply (Permutation_in _ P) in Hxy. apply in_app_or in Hxy. destruct Hxy as [Hxy|Hxy].
        + apply in_pairs_r in Hxy. tauto.
        + exfalso. assert (has_out g x = true) by (apply has_out_in; eauto).
          destruct (S4 x IHr H). }
    assert (Hg : g = []).
    { destruct g as [|[a b] g]; [reflexivity|exfalso].
      assert (Hab : In (a, b) g0) by (eapply Permutation_in; [symmetry; exact P|apply in_or_app; right; left; reflexivity]).
      assert (In a w) by (apply Hw; eapply Hc; exact Hab).
      assert (has_out ((a, b) :: g) a = true) by (apply has_out_in; exists b; left; reflexivity).
      destruct (S4 a H H0). }
    subst g. exists w. rewrite app_nil_r in P. repeat split; assumption.
  - destruct (has_out g v) eqn:Ho.
    + (* splice a closed walk *)
      pose proof (closed_from_fuel efuel g v v He) as Hne.
      destruct (closed_from efuel g v v) as [[[g' c] pushed]|] eqn:C; [|congruence].
      destruct HI as [P B S3 S4 [Hh Hl]].
      destruct (closed_good _ _ _ _ _ _ B Ho C) as [Hc1 Hc2].
      destruct (closed_from_spec _ _ _ _ _ _ _ C) as (P' & Sp & _).
      rewrite Hc2 in Sp.
      destruct (splice_split w v c (S3 v (or_introl eq_refl))) as (l1 & l2 & E1 & E2).
      apply IH.
      * constructor.
        -- rewrite E2. rewrite (pairs_splice l1 v c l2 Hc1 Hc2). rewrite <- E1.
           rewrite P, P'. rewrite <- app_assoc. reflexivity.
        -- intros x. pose proof (exc_perm _ _ x P') as E. rewrite exc_app, exc_pairs, B, Hc2 in E. lia.
        -- intros x Hx. rewrite E2. apply in_app_or in Hx. destruct Hx as [Hx|Hx].
           ++ apply in_rev in Hx. assert (In x (v :: c)) by (rewrite Sp; apply in_or_app; left; exact Hx).
              apply in_or_app. right. destruct H as [<-|H]; [left; reflexivity|right; apply in_or_app; left; exact H].
           ++ assert (In x w) by (apply S3; right; exact Hx). rewrite E1 in H.
              apply in_app_or in H. apply in_or_app. destruct H as [H|[<-|H]]; [left; exact H|right; left; reflexivity|].
              right. right. apply in_or_app. right. exact H.
        -- intros x Hx Hox.
           assert (Hv : In v (rev pushed)).
           { apply -> in_rev. destruct pushed as [|p0 pushed]; [destruct c; [congruence|discriminate]|].
             simpl in Sp. inversion Sp. left. reflexivity. }
           assert (Hcp : forall y, In y c -> In y (rev pushed)).
           { intros y Hy. assert (In y (pushed ++ [v])) by (rewrite <- Sp; right; exact Hy).
             apply in_app_or in H. destruct H as [H|[<-|[]]]; [apply -> in_rev; exact H|exact Hv]. }
           rewrite E2 in Hx. apply in_or_app.
           assert (Hxw : In x w \/ In x c).
           { apply in_app_or in Hx. destruct Hx as [Hx|[<-|Hx]].
             - left. rewrite E1. apply in_or_app. left. exact Hx.
             - left. apply S3. left. reflexivity.
             - apply in_app_or in Hx. destruct Hx as [Hx|Hx]; [right; exact Hx|left]. rewrite E1. apply in_or_app. right. right. exact Hx. }
           destruct Hxw as [Hxw|Hxc]; [|left; apply Hcp; exact Hxc].
           assert (Hog : has_out g x = true) by (eapply has_out_mono; [exact P'|exact Hox]).
           destruct (S4 x Hxw Hog) as [<-|Hst]; [left; exact Hv|right; exact Hst].
        -- rewrite E2. split.
           ++ rewrite E1 in Hh. destruct l1; simpl in *; exact Hh.
           ++ rewrite E1 in Hl. clear - Hl Hc1 Hc2.
              destruct l2 as [|y l2].
              ** rewrite app_nil_r. rewrite last_app_single in Hl. subst t.
                 destruct (exists_last Hc1) as (c' & z & ->). rewrite last_app_single in Hc2. subst z.
                 replace (l1 ++ v :: c' ++ [v]) with ((l1 ++ v :: c') ++ [v]) by (rewrite <- app_assoc; reflexivity).
                 apply last_app_single.
              ** replace (l1 ++ v :: c ++ y :: l2) with ((l1 ++ v :: c) ++ y :: l2) by (rewrite <- app_assoc; reflexivity).
                 replace (l1 ++ v :: y :: l2) with ((l1 ++ [v]) ++ y :: l2) in Hl by (rewrite <- app_assoc; reflexivity).
                 rewrite last_app_cons in *. exact Hl.
      * pose proof (Permutation_length P') as L. rewrite app_length in L.
        pose proof (pairs_length v c) as Hpl.
        assert (length pushed = length c).
        { assert (Hlen : length (v :: c) = length (pushed ++ [v])) by (rewrite Sp; reflexivity). rewrite app_length in Hlen. simpl in Hlen. lia. }
        rewrite app_length, rev_length. simpl in Hf. 
        assert (length c >= 1) by (destruct c; [congruence|simpl; lia]). lia.
      * pose proof (Permutation_length P') as L. rewrite app_length in L. pose proof (pairs_length v c). lia.
      * exact Hc.
    + apply IH; [| simpl in Hf; lia | exact He | exact Hc].
      destruct HI as [P B S3 S4 H5]. constructor; auto.
      * intros x Hx. apply S3. right. exact Hx.
      * intros x Hx Hox. destruct (S4 x Hx Hox) as [<-|H]; [congruence|exact H].
Qed.
