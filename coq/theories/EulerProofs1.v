From Coq Require Import List NArith ZArith Bool Arith Lia Permutation.
Import ListNotations.
From FP Require Import Euler.

(* ---------- consecutive pairs of a node list ---------- *)
Fixpoint pairs (w : list node) : list edge :=
  match w with
  | a :: ((b :: _) as r) => (a, b) :: pairs r
  | _ => []
  end.

Lemma pairs_cons2 a b r : pairs (a :: b :: r) = (a, b) :: pairs (b :: r).
Proof. reflexivity. Qed.

Lemma pairs_app_mid l1 v l2 :
  pairs (l1 ++ v :: l2) = pairs (l1 ++ [v]) ++ pairs (v :: l2).
Proof.
  induction l1 as [|a l1 IH]; simpl.
  - reflexivity.
  - destruct l1 as [|b l1].
    + simpl. reflexivity.
    + simpl in *. rewrite IH. reflexivity.
Qed.

Lemma last_cons_ne (x : node) l d : l <> [] -> last (x :: l) d = last l d.
Proof. destruct l; [congruence|reflexivity]. Qed.

Lemma last_app_single (l : list node) x d : last (l ++ [x]) d = x.
Proof. induction l as [|a l IH]; simpl; [reflexivity|]. destruct (l ++ [x]) eqn:E; [destruct l; discriminate|]. exact IH. Qed.

Lemma last_cons_default (w : list node) : forall a b, last (b :: w) a = last w b.
Proof.
  induction w as [|c w IH]; intros a b; [reflexivity|].
  change (last (b :: c :: w) a) with (last (c :: w) a).
  rewrite (IH a c). symmetry. apply IH.
Qed.

(* ---------- degrees ---------- *)
Definition outd (g : graph) (u : node) : nat := length (filter (fun e => (fst e =? u)%N) g).
Definition ind  (g : graph) (v : node) : nat := length (filter (fun e => (snd e =? v)%N) g).
Definition exc (g : graph) (x : node) : Z := (Z.of_nat (outd g x) - Z.of_nat (ind g x))%Z.
Definition ind1 (b : bool) : Z := if b then 1%Z else 0%Z.

Lemma filter_len_perm {A} (f : A -> bool) l l' :
  Permutation l l' -> length (filter f l) = length (filter f l').
Proof.
  induction 1; simpl; try lia.
  - destruct (f x); simpl; lia.
  - destruct (f x), (f y); simpl; lia.
Qed.

Lemma outd_perm g g' x : Permutation g g' -> outd g x = outd g' x.
Proof. apply filter_len_perm. Qed.
Lemma ind_perm g g' x : Permutation g g' -> ind g x = ind g' x.
Proof. apply filter_len_perm. Qed.
Lemma outd_app g h x : outd (g ++ h) x = outd g x + outd h x.
Proof. unfold outd. rewrite filter_app, app_length. reflexivity. Qed.
Lemma ind_app g h x : ind (g ++ h) x = ind g x + ind h x.
Proof. unfold ind. rewrite filter_app, app_length. reflexivity. Qed.
Lemma exc_perm g g' x : Permutation g g' -> exc g x = exc g' x.
Proof. intros H. unfold exc. rewrite (outd_perm _ _ x H), (ind_perm _ _ x H). reflexivity. Qed.
Lemma exc_app g h x : exc (g ++ h) x = (exc g x + exc h x)%Z.
Proof. unfold exc. rewrite outd_app, ind_app. lia. Qed.

Lemma exc_pairs a w x :
  exc (pairs (a :: w)) x = (ind1 (x =? a)%N - ind1 (x =? last w a)%N)%Z.
Proof.
  revert a. induction w as [|b w IH]; intros a.
  - cbn [pairs last]. unfold exc, outd, ind. cbn [filter length]. destruct (x =? a)%N; cbn [ind1]; lia.
  - rewrite pairs_cons2.
    change ((a, b) :: pairs (b :: w)) with ([(a, b)] ++ pairs (b :: w)).
    rewrite exc_app, IH.
    rewrite (last_cons_default w a b).
    generalize (ind1 (x =? last w b)%N). intros z.
    unfold exc, outd, ind. cbn [filter fst snd].
    rewrite (N.eqb_sym a x), (N.eqb_sym b x).
    destruct (x =? a)%N, (x =? b)%N; cbn [length ind1]; lia.
Qed.

(* ---------- pop_out ---------- *)
Lemma pop_out_perm g u v g' : pop_out g u = Some (v, g') -> Permutation g ((u, v) :: g').
Proof.
  revert v g'. induction g as [|[a b] r IH]; intros v g' H; simpl in H; [discriminate|].
  destruct (pop_out r u) as [[v1 r1]|] eqn:E.
  - inversion H; subst. specialize (IH _ _ eq_refl).
    rewrite IH. apply perm_swap.
  - destruct (N.eqb_spec a u); [|discriminate]. inversion H; subst. reflexivity.
Qed.

Lemma pop_out_none g u : pop_out g u = None <-> has_out g u = false.
Proof.
  induction g as [|[a b] r IH]; simpl.
  - tauto.
  - destruct (pop_out r u) as [[v1 r1]|] eqn:E.
    + split; [discriminate|]. intros H. apply orb_false_iff in H. destruct H as [_ H].
      apply IH in H. discriminate.
    + destruct IH as [IH _]. rewrite (IH eq_refl), orb_false_r.
      destruct (a =? u)%N; split; congruence.
Qed.

Lemma has_out_outd g u : has_out g u = false <-> outd g u = 0.
Proof.
  unfold has_out, outd. induction g as [|e r IH]; simpl; [tauto|].
  match goal with |- context [(?a =? u)%N] => destruct (a =? u)%N end; simpl.
  - split; intros H; [discriminate H|exfalso; lia].
  - exact IH.
Qed.

Lemma has_out_in g u : has_out g u = true <-> exists v, In (u, v) g.
Proof.
  unfold has_out. rewrite existsb_exists. split.
  - intros [[a b] [H1 H2]]. simpl in H2. apply N.eqb_eq in H2. subst. eauto.
  - intros [v H]. exists (u, v). split; [assumption|]. simpl. apply N.eqb_refl.
Qed.

(* ---------- trail ---------- *)
Lemma trail_spec fuel : forall g cur g' w st,
  trail fuel g cur = Some (g', w, st) ->
  Permutation g (pairs (cur :: w) ++ g') /\
  cur :: w = st ++ [last w cur] /\
  pop_out g' (last w cur) = None.
Proof.
  induction fuel as [|f IH]; intros g cur g' w st H; simpl in H; [discriminate|].
  destruct (pop_out g cur) as [[nxt g1]|] eqn:E.
  - destruct (trail f g1 nxt) as [[[g2 w2] st2]|] eqn:T; [|discriminate].
    inversion H; subst. destruct (IH _ _ _ _ _ T) as (P & S & Z).
    rewrite (last_cons_default w2 cur nxt). repeat split.
    + rewrite pairs_cons2. simpl. rewrite (pop_out_perm _ _ _ _ E). constructor. exact P.
    + simpl. rewrite <- S. reflexivity.
    + exact Z.
  - inversion H; subst. simpl. repeat split; [reflexivity| exact E].
Qed.

Lemma trail_fuel fuel : forall g cur, length g < fuel -> trail fuel g cur <> None.
Proof.
  induction fuel as [|f IH]; intros g cur Hf; [lia|]. simpl.
  destruct (pop_out g cur) as [[nxt g1]|] eqn:E; [|discriminate].
  pose proof (Permutation_length (pop_out_perm _ _ _ _ E)) as L. simpl in L.
  specialize (IH g1 nxt ltac:(lia)).
  destruct (trail f g1 nxt) as [[[? ?] ?]|]; [discriminate|congruence].
Qed.

(* ---------- closed_from ---------- *)
Lemma closed_from_spec fuel : forall g v cur g' c pushed,
  closed_from fuel g v cur = Some (g', c, pushed) ->
  Permutation g (pairs (cur :: c) ++ g') /\
  cur :: c = pushed ++ [last c cur] /\
  ((c <> [] /\ last c cur = v) \/ (pop_out g' (last c cur) = None /\ ~ In v c)).
Proof.
  induction fuel as [|f IH]; intros g v cur g' c pushed H; simpl in H; [discriminate|].
  destruct (pop_out g cur) as [[nxt g1]|] eqn:E.
  - destruct (N.eqb_spec nxt v) as [->|Hne].
    + inversion H; subst. simpl. repeat split.
      * rewrite (pop_out_perm _ _ _ _ E). reflexivity.
      * left. split; [discriminate|reflexivity].
    + destruct (closed_from f g1 v nxt) as [[[g2 w2] st2]|] eqn:T; [|discriminate].
      inversion H; subst. destruct (IH _ _ _ _ _ _ T) as (P & S & D).
      rewrite (last_cons_default w2 cur nxt). repeat split.
      * rewrite pairs_cons2. simpl. rewrite (pop_out_perm _ _ _ _ E). constructor. exact P.
      * simpl. rewrite <- S. reflexivity.
      * destruct D as [[_ D]|[D1 D2]].
        -- left. split; [discriminate|exact D].
        -- right. split; [exact D1|]. intros [X|X]; [congruence|tauto].
  - inversion H; subst. simpl. repeat split; [reflexivity|]. right. split; [exact E|tauto].
Qed.

Lemma closed_from_fuel fuel : forall g v cur, length g < fuel -> closed_from fuel g v cur <> None.
Proof.
  induction fuel as [|f IH]; intros g v cur Hf; [lia|]. simpl.
  destruct (pop_out g cur) as [[nxt g1]|] eqn:E; [|discriminate].
  destruct (nxt =? v)%N; [discriminate|].
  pose proof (Permutation_length (pop_out_perm _ _ _ _ E)) as L. simpl in L.
  specialize (IH g1 v nxt ltac:(lia)).
  destruct (closed_from f g1 v nxt) as [[[? ?] ?]|]; [discriminate|congruence].
Qed.
