(* C07 / C08 in NODE mode, stated in the caller's terms.  The caller's DAG (V, E) carries rational node weights fq and a
   per-node error scaling sc; nodes in [ign] (explicitly ignored nodes, nodes without the attribute) and nodes of scaling 0
   do not count.  Node mode solves the error model of the node expansion (DilworthNode.expE; the node edge v.0 -> v.1 carries the
   weight and the scaling of v, connecting edges and the ignored nodes' edges are in elements_to_ignore).
   Key lemma: k-tuples of source-to-sink paths of the caller's graph (nroute) and k-tuples of source-to-sink paths of the
   expanded s-t graph correspond (expP / conP), and under this correspondence the error terms agree node-for-edge: the non-ignored
   edges of the expanded instance are exactly the node edges of the counting nodes ([basic_nedges]), and a path visits v iff its
   expansion uses the node edge of v.  Hence klae_optimal and kmpe_optimal_unbounded transfer verbatim. *)
From Coq Require Import List NArith ZArith QArith Qabs Lqa Bool Arith Lia Permutation.
Import ListNotations.
From FP Require Import Lin Blocks PathEnc Euler EulerProofs1 PathEncProofs PathEncComplete Aug AugProofs EndToEnd1 EndToEnd2
                       EndToEndCover Dilworth ErrEncIgnore DilworthNode NodeFlowE2E
                       ErrEnc ErrEncProofs ErrEncComplete ErrEncKlae ErrEncOptimal ErrEncOptimal2.
Set Default Timeout 60.
Local Open Scope Q_scope.

(* ---------------------------------------------------------------------------------------------- the caller's notions *)
Definition ngood (ign : list node) (sc : node -> Q) (v : node) : bool := negb (memn v ign) && negb (Qeq_bool (sc v) 0).
Definition nodes_basic (V : list node) (ign : list node) (sc : node -> Q) : list node := filter (ngood ign sc) V.
Definition node_on (Pn : N -> list node) (i : N) (v : node) : Q := indq (memn v (Pn i)).
(* what the k weighted paths put on node v *)
Definition node_explains (k : nat) (Pn : N -> list node) (w : N -> Q) (v : node) : Q := sumq (fun i => w i * node_on Pn i v) (layers k).
Definition node_klae_cost (V : list node) (fq sc : node -> Q) (ign : list node) (k : nat) (Pn : N -> list node) (w : N -> Q) : Q :=
  sumq (fun v => sc v * Qabs (fq v - node_explains k Pn w v)) (nodes_basic V ign sc).
Definition node_paths (V : list node) (E : list PathEnc.edge) (k : nat) (Pn : N -> list node) : Prop :=
  forall i, In i (layers k) -> nroute V E (Pn i).
Definition node_adm (isint : bool) (k : nat) (w : N -> Q) : Prop :=
  forall i, In i (layers k) -> 0 <= w i /\ (isint = true -> is_int (w i)).

(* the instance node mode hands to the edge error models *)
Definition node_err_inst (V : list node) (E : list PathEnc.edge) (s t : node) (fq sc : node -> Q) (ign : list node)
                         (isint : bool) (k : nat) : err_inst :=
  {| e_base := cover_inst (expV V) (expE V E) s t k;
     e_flow := map (fun v => (nedge v, fq v)) V;
     e_user_ignore := node_ignore E ign;
     e_scale := map (fun v => (nedge v, sc v)) V;
     e_int := isint; e_given := None; e_korig := k |}.

Definition node_kmpe_inst (V : list node) (E : list PathEnc.edge) (s t : node) (fq sc : node -> Q) (ign : list node)
                          (isint : bool) (k : nat) : kmpe_inst :=
  {| m_err := node_err_inst V E s t fq sc ign isint k; m_len := None; m_pieces := [] |}.
(* the bound the models put on weights and slacks: k * weight_type(largest counting node weight) *)
Definition node_wmax (V : list node) (fq sc : node -> Q) (ign : list node) (isint : bool) (k : nat) : Q :=
  qmax (inject_Z (Z.of_nat k) * cast isint (max_of (map fq (nodes_basic V ign sc)))) 0.

(* ---------------------------------------------------------------------------------------------- list helpers *)
Lemma filter_all_false {A} (f : A -> bool) l : (forall x, In x l -> f x = false) -> filter f l = [].
Proof. induction l as [|a l IH]; intros H; [reflexivity|]. cbn [filter]. rewrite (H a (or_introl eq_refl)). apply IH. intros x Hx. apply H. right. exact Hx. Qed.
Lemma filter_map_comm {A B} (f : B -> bool) (g : A -> B) l : filter f (map g l) = map g (filter (fun x => f (g x)) l).
Proof. induction l as [|a l IH]; [reflexivity|]. cbn [map filter]. destruct (f (g a)); cbn [map]; rewrite IH; reflexivity. Qed.

Lemma lookup_nedge_q (h : node -> Q) V v d : In v V -> lookup_q (nedge v) (map (fun v => (nedge v, h v)) V) d = h v.
Proof.
  induction V as [|u V IH]; intros Hv; [destruct Hv|]. cbn [map lookup_q].
  destruct (edge_eqb (nedge u) (nedge v)) eqn:X.
  - unfold edge_eqb, nedge in X. cbn [fst snd] in X. apply andb_true_iff in X. destruct X as [X _]. apply N.eqb_eq in X.
    apply x0_inj in X. subst. reflexivity.
  - destruct Hv as [->|Hv]; [|exact (IH Hv)]. unfold edge_eqb in X. rewrite !N.eqb_refl in X. discriminate.
Qed.

(* contraction of an expanded path as a FUNCTION: keep the even nodes, halve them *)
Definition unexp (r : list node) : list node := map N.div2 (filter N.even r).
Lemma unexp_expand p : unexp (expand p) = p.
Proof.
  induction p as [|v p IH]; [reflexivity|]. rewrite expand_cons. unfold unexp in *. cbn [filter].
  assert (E0 : N.even (x0 v) = true) by (unfold x0; rewrite N.even_mul; reflexivity).
  assert (E1 : N.even (x1 v) = false) by (unfold x1; rewrite N.add_comm, N.even_add_mul_2; reflexivity).
  rewrite E0, E1. cbn [map]. rewrite IH. f_equal. unfold x0. apply N.div2_double.
Qed.
Definition strip (P : list node) : list node := removelast (tl P).
Lemma strip_frame (s t : node) r : strip (s :: r ++ [t]) = r.
Proof. unfold strip. cbn [tl]. apply removelast_last. Qed.

Section NodeErr.
  Variables (V : list node) (E : list PathEnc.edge) (s t : node).
  Variable topo : list node.
  Variables fq sc : node -> Q.
  Variable ign : list node.
  Variable isint : bool.
  Variable k : nat.
  Hypothesis Hs : ~ In s (expV V).
  Hypothesis Ht : ~ In t (expV V).
  Hypothesis Hst : s <> t.
  Hypothesis HE : forall e, In e E -> In (fst e) V /\ In (snd e) V.
  Hypothesis NDV : NoDup V.
  Hypothesis NDE : NoDup E.
  Hypothesis Htopo : forall u v, In (u, v) E -> (posn topo u < posn topo v)%nat.
  Hypothesis HVtopo : incl V topo.

  Let V' := expV V.
  Let E' := expE V E.
  Let A' := aug_edges V' E' [] [] s t.
  Let HE' := expE_ends V E HE.
  Let I := node_err_inst V E s t fq sc ign isint k.
  Let rank' := st_rank s t (exp_topo topo).
  Let Hrank' : forall u v, In (u, v) A' -> (rank' u < rank' v)%nat :=
    st_rank_increasing V' E' s t Hs Ht Hst HE' (exp_topo topo) (exp_topo_increasing V E topo HVtopo Htopo).

  (* ---- the tuple correspondence *)
  Definition expP (Pn : N -> list node) : N -> list node := fun i => s :: expand (Pn i) ++ [t].
  Definition conP (P : N -> list node) : N -> list node := fun i => unexp (strip (P i)).

  Lemma conP_expP Pn i : conP (expP Pn) i = Pn i.
  Proof. unfold conP, expP. rewrite strip_frame. apply unexp_expand. Qed.

  Lemma expP_st_paths Pn : node_paths V E k Pn -> st_paths (eG I) k (expP Pn).
  Proof.
    intros HP i Hi. specialize (HP i Hi). unfold expP. cbn [I node_err_inst eG e_base cover_inst p_graph st_of g_src g_snk g_edges]. fold V' E' A'.
    pose proof (nroute_in_aug V E s t Hs Ht Hst HE _ HP) as Hincl. destruct HP as (Hne & _).
    destruct (Pn i) as [|v p]; [contradiction|]. rewrite expand_cons in *.
    split; [reflexivity|]. split; [change (s :: (x0 v :: x1 v :: expand p) ++ [t]) with ((s :: x0 v :: x1 v :: expand p) ++ [t]); apply last_last|].
    split; [|exact Hincl].
    destruct (rank_walk_nodup A' rank' Hrank' ((x0 v :: x1 v :: expand p) ++ [t]) s Hincl) as [ND _]. exact ND.
  Qed.

  Lemma st_paths_contract P : st_paths (eG I) k P ->
    node_paths V E k (conP P) /\ forall i, In i (layers k) -> P i = expP (conP P) i.
  Proof.
    intros HP.
    assert (H : forall i, In i (layers k) -> exists p, P i = s :: expand p ++ [t] /\ nroute V E p).
    { intros i Hi. destruct (HP i Hi) as (Hh & Hl & _ & Hin).
      cbn [I node_err_inst eG e_base cover_inst p_graph st_of g_src g_snk g_edges] in Hh, Hl, Hin. fold V' E' A' in Hin.
      destruct (P i) as [|a m] eqn:EP; [discriminate|]. cbn in Hh. injection Hh as ->.
      destruct m as [|b m']; [cbn in Hl; congruence|].
      destruct (exists_last (l := b :: m') ltac:(discriminate)) as (r & z & Er). rewrite Er in *.
      assert (z = t).
      { rewrite <- Hl. change (s :: r ++ [z]) with ((s :: r) ++ [z]). rewrite last_last. reflexivity. }
      subst z.
      pose proof (aug_route_valid V' E' [] [] s t Hs Ht Hst HE' r Hin) as Hroute.
      destruct (route_contracts V E s r Hroute) as (p & -> & Hp). exists p. split; [reflexivity|exact Hp]. }
    split.
    - intros i Hi. destruct (H i Hi) as (p & EP & Hp). unfold conP. rewrite EP, strip_frame, unexp_expand. exact Hp.
    - intros i Hi. destruct (H i Hi) as (p & EP & Hp). unfold expP, conP. rewrite EP, strip_frame, unexp_expand. reflexivity.
  Qed.

  Lemma onq_expP Pn i v : In v V -> Pn i <> [] -> onq (expP Pn) i (nedge v) = node_on Pn i v.
  Proof. intros Hv Hne. unfold onq, node_on, expP. rewrite (nedge_on_expanded_path V s t Hs Ht v (Pn i) Hv Hne). reflexivity. Qed.

  (* ---- the non-ignored edges of the expanded instance are the node edges of the counting nodes *)
  Lemma nedge_ignored_iff v : In v V -> mem_edge (nedge v) (ign_all I) = negb (ngood ign sc v).
  Proof.
    intros Hv. unfold ign_all. cbn [I node_err_inst e_user_ignore e_scale]. rewrite !mem_edge_app.
    assert (HeE : In (nedge v) E') by (apply expE_in; left; exists v; auto).
    assert (M1 : mem_edge (nedge v) (node_ignore E ign) = memn v ign).
    { apply eq_true_iff_eq. rewrite memn_In. split.
      - intros M. destruct (in_dec N.eq_dec v ign) as [Hi|Hni]; [exact Hi|exfalso].
        assert (X : mem_edge (nedge v) (node_ignore E ign) = false) by (apply (node_ignore_spec V E ign (nedge v) HeE); exists v; auto). congruence.
      - intros Hi. destruct (mem_edge (nedge v) (node_ignore E ign)) eqn:M; [reflexivity|exfalso].
        destruct (proj1 (node_ignore_spec V E ign (nedge v) HeE) M) as (u & _ & Hni & Eq). injection Eq as Eq _. apply x0_inj in Eq. subst u. contradiction. }
    assert (M2 : mem_edge (nedge v) (st_edges (eG I)) = false).
    { match goal with |- ?x = false => destruct x eqn:M end; [exfalso|reflexivity]. apply mem_edge_In in M. unfold st_edges in M. apply filter_In in M.
      destruct M as [_ M]. cbn [eG I node_err_inst e_base cover_inst p_graph st_of g_src g_snk nedge fst snd] in M.
      apply orb_true_iff in M. destruct M as [M|M]; apply N.eqb_eq in M.
      - apply Hs. rewrite <- M. apply expV_in. exists v. auto.
      - apply Ht. rewrite <- M. apply expV_in. exists v. auto. }
    assert (M3 : mem_edge (nedge v) (map fst (filter (fun es => Qeq_bool (snd es) 0) (map (fun v => (nedge v, sc v)) V))) = Qeq_bool (sc v) 0).
    { apply eq_true_iff_eq. rewrite mem_edge_In, in_map_iff. split.
      - intros ([e q] & Eq & Hin). cbn [fst] in Eq. subst e. apply filter_In in Hin. destruct Hin as [Hin Hq]. cbn [snd] in Hq.
        apply in_map_iff in Hin. destruct Hin as (u & Eq & _). injection Eq as Eq1 _ Eq2. apply x0_inj in Eq1. subst u q. exact Hq.
      - intros Hq. exists (nedge v, sc v). split; [reflexivity|]. apply filter_In. split; [|exact Hq].
        apply (in_map (fun v => (nedge v, sc v))). exact Hv. }
    rewrite M1, M2, M3. unfold ngood. destruct (memn v ign), (Qeq_bool (sc v) 0); reflexivity.
  Qed.

  Theorem basic_nedges : basic_edges I = map nedge (nodes_basic V ign sc).
  Proof.
    unfold basic_edges. cbn [eG I node_err_inst e_base cover_inst p_graph st_of g_edges]. fold (node_err_inst V E s t fq sc ign isint k). fold I.
    unfold aug_edges. fold V' E'. unfold E', expE. rewrite !filter_app.
    set (f := fun e : PathEnc.edge => negb (mem_edge e (ign_all I))).
    assert (F1 : filter f (map nedge V) = map nedge (nodes_basic V ign sc)).
    { rewrite filter_map_comm. unfold nodes_basic. f_equal. apply filter_ext_in.
      intros v Hv. unfold f. rewrite (nedge_ignored_iff v Hv). apply negb_involutive. }
    assert (F2 : filter f (map (fun e : node * node => (x1 (fst e), x0 (snd e))) E) = []).
    { apply filter_all_false. intros e He. unfold f. apply negb_false_iff. unfold ign_all. cbn [I node_err_inst e_user_ignore].
      rewrite mem_edge_app. apply orb_true_iff. left. apply mem_edge_In. unfold node_ignore. apply in_or_app. left. exact He. }
    rewrite F1, F2. rewrite filter_all_false; [rewrite !app_nil_r; reflexivity|].
    intros e He. unfold f. apply negb_false_iff. unfold ign_all. rewrite !mem_edge_app. apply orb_true_iff. right. apply orb_true_iff. left.
    apply mem_edge_In. unfold st_edges. apply filter_In.
    assert (HeA : In e A') by (unfold A', aug_edges; apply in_or_app; right; exact He).
    split; [exact HeA|]. cbn [eG I node_err_inst e_base cover_inst p_graph st_of g_src g_snk].
    apply in_flat_map in He. destruct He as (u & _ & He). apply in_app_or in He. apply orb_true_iff. destruct He as [He|He].
    - match type of He with In _ (if ?c then _ else _) => destruct c end; [|destruct He]. destruct He as [<-|[]]. left. apply N.eqb_refl.
    - match type of He with In _ (if ?c then _ else _) => destruct c end; [|destruct He]. destruct He as [<-|[]]. right. apply N.eqb_refl.
  Qed.

  Lemma nodes_basic_in v : In v (nodes_basic V ign sc) -> In v V.
  Proof. unfold nodes_basic. intros H. apply filter_In in H. tauto. Qed.
  Lemma flow_of_nedge v : In v V -> flow_of I (nedge v) = fq v.
  Proof. intros Hv. unfold flow_of. cbn [I node_err_inst e_flow]. apply lookup_nedge_q. exact Hv. Qed.
  Lemma scale_of_nedge v : In v V -> scale_of I (nedge v) = sc v.
  Proof. intros Hv. unfold scale_of. cbn [I node_err_inst e_scale]. apply lookup_nedge_q. exact Hv. Qed.

  (* what the expanded tuple puts on the node edge of v = what the caller's tuple puts on v *)
  Lemma explains_agree Pn w v : node_paths V E k Pn -> In v V ->
    sumq (fun i => w i * onq (expP Pn) i (nedge v)) (layers k) == node_explains k Pn w v.
  Proof.
    intros HP Hv. unfold node_explains. apply sumq_ext. intros i Hi. destruct (HP i Hi) as (Hne & _).
    rewrite (onq_expP Pn i v Hv Hne). reflexivity.
  Qed.

  (* ---- kLeastAbsErrors: the costs agree *)
  Theorem klae_cost_agree Pn w : node_paths V E k Pn -> klae_cost I (expP Pn) w == node_klae_cost V fq sc ign k Pn w.
  Proof.
    intros HP. unfold klae_cost, node_klae_cost. rewrite basic_nedges, sumq_map. apply sumq_ext. intros v Hv.
    apply nodes_basic_in in Hv. rewrite (scale_of_nedge v Hv). unfold klae_err. rewrite (flow_of_nedge v Hv).
    assert (Ek : eK I = k) by reflexivity. rewrite Ek. rewrite (explains_agree Pn w v HP Hv). reflexivity.
  Qed.

  Lemma klae_cost_ext P P' w : (forall i, In i (layers k) -> P i = P' i) -> klae_cost I P w == klae_cost I P' w.
  Proof.
    intros H. unfold klae_cost. apply sumq_ext. intros e _. unfold klae_err.
    assert (Ek : eK I = k) by reflexivity. rewrite Ek.
    assert (Es : sumq (fun i => w i * onq P i e) (layers k) == sumq (fun i => w i * onq P' i e) (layers k)).
    { apply sumq_ext. intros i Hi. unfold onq. rewrite (H i Hi). reflexivity. }
    rewrite Es. reflexivity.
  Qed.

  Lemma no_constraints P : constraints_covered (e_base I) P.
  Proof. intros n c Hn. cbn [I node_err_inst e_base cover_inst p_cons] in Hn. destruct n; discriminate. Qed.

  Lemma wf_I : wf_graph (eG I).
  Proof. exact (st_of_wf V' E' s t Hs Ht Hst HE' (expV_nodup V NDV) (expE_nodup V E NDV NDE)). Qed.

  (* the documented domain, in the caller's terms *)
  Definition node_domain : Prop :=
    (forall v, In v (nodes_basic V ign sc) -> 0 <= fq v /\ 0 <= sc v /\ (isint = true -> is_int (fq v))) /\
    nodes_basic V ign sc <> [] /\ (1 <= k)%nat.

  Lemma klae_side_I : node_domain -> klae_side I.
  Proof.
    intros (Hd & Hne & Hk). split; [intros c e Hc; cbn [I node_err_inst e_base cover_inst p_cons] in Hc; destruct Hc|]. split; [|split; [|exact Hk]].
    - intros e He. rewrite basic_nedges in He. apply in_map_iff in He. destruct He as (v & <- & Hv). pose proof (nodes_basic_in v Hv) as HvV.
      rewrite (flow_of_nedge v HvV), (scale_of_nedge v HvV). exact (Hd v Hv).
    - rewrite basic_nedges. destruct (nodes_basic V ign sc); [contradiction|discriminate].
  Qed.

  (* C07 in node mode: an optimal satisfying assignment of the expanded instance's model has as objective the minimum, over all
     k source-to-sink paths of the CALLER's graph and non-negative weights of the requested type, of
     sum over the counting nodes of  sc v * | fq v - sum of the weights of the paths through v | *)
  Theorem node_klae_optimal (a : var -> Q) : node_domain ->
    sat a (encode_klae I) -> (forall b, sat b (encode_klae I) -> objective a (encode_klae I) <= objective b (encode_klae I)) ->
    (exists Pn w, node_paths V E k Pn /\ node_adm isint k w /\ node_klae_cost V fq sc ign k Pn w == objective a (encode_klae I)) /\
    (forall Pn w, node_paths V E k Pn -> node_adm isint k w -> objective a (encode_klae I) <= node_klae_cost V fq sc ign k Pn w).
  Proof.
    intros Hdom Hsat Hopt.
    destruct (klae_optimal I a rank' (S (S (length (exp_topo topo)))) eq_refl wf_I eq_refl Hrank' (fun v => st_rank_le s t Hst (exp_topo topo) v)
                (klae_side_I Hdom) Hsat Hopt) as [(P & w & HP & Hw & _ & Hcost) Hmin].
    split.
    - destruct (st_paths_contract P HP) as [HPn Heq]. exists (conP P), w. split; [exact HPn|]. split; [exact Hw|].
      rewrite <- Hcost, <- (klae_cost_agree (conP P) w HPn). symmetry. apply klae_cost_ext. exact Heq.
    - intros Pn w2 HPn Hw2. rewrite <- (klae_cost_agree Pn w2 HPn).
      apply (Hmin (expP Pn) w2 (expP_st_paths Pn HPn) Hw2 (no_constraints _)).
  Qed.

  (* the model is satisfiable as soon as the caller's graph has k source-to-sink paths (zero weights, errors = the node weights) *)
  Lemma node_klae_satisfiable Pn : node_domain -> node_paths V E k Pn -> exists b, sat b (encode_klae I).
  Proof.
    intros Hdom HP.
    assert (Hadm : adm_weights I (fun _ => 0)) by (intros i _; split; [lra|intros _; exists 0%Z; reflexivity]).
    destruct (klae_clip I (expP Pn) (fun _ => 0) (klae_side_I Hdom) (expP_st_paths Pn HP) Hadm (no_constraints _)) as [Hch _].
    destruct (klae_complete I (expP Pn) _ eq_refl wf_I eq_refl
                (fun c e (Hc : In c (p_cons (e_base I))) => match Hc with end) Hch) as (b & Sb & _).
    exists b. exact Sb.
  Qed.

  (* ============================================================================ kMinPathError *)
  Let M : kmpe_inst := {| m_err := I; m_len := None; m_pieces := [] |}.

  (* a choice in the caller's terms: k paths of the graph, weights and per-path slacks of the requested type such that on every
     counting node the scaled error is at most the sum of the slacks of the paths through it *)
  Definition node_kmpe_choice (Pn : N -> list node) (w sl : N -> Q) : Prop :=
    node_paths V E k Pn /\
    (forall i, In i (layers k) -> 0 <= w i /\ (isint = true -> is_int (w i)) /\ 0 <= sl i /\ (isint = true -> is_int (sl i))) /\
    (forall v, In v (nodes_basic V ign sc) -> Qabs (sc v * (fq v - node_explains k Pn w v)) <= node_explains k Pn sl v).

  Definition node_domain1 : Prop :=
    (forall v, In v (nodes_basic V ign sc) -> 0 <= fq v /\ 0 <= sc v <= 1 /\ (isint = true -> is_int (fq v))) /\
    nodes_basic V ign sc <> [] /\ (1 <= k)%nat.

  Lemma kmpe_side_M : kmpe_side M.
  Proof.
    split; [intros c e Hc; cbn [M m_err I node_err_inst e_base cover_inst p_cons] in Hc; destruct Hc|].
    intros e _. unfold plen. cbn [M m_len]. split; [lra|exists 1%Z; reflexivity].
  Qed.

  Lemma err_domain_I : node_domain1 -> err_domain I.
  Proof.
    intros (Hd & Hne & Hk). split; [|split; [|exact Hk]].
    - intros e He. rewrite basic_nedges in He. apply in_map_iff in He. destruct He as (v & <- & Hv). pose proof (nodes_basic_in v Hv) as HvV.
      rewrite (flow_of_nedge v HvV), (scale_of_nedge v HvV). exact (Hd v Hv).
    - rewrite basic_nedges. destruct (nodes_basic V ign sc); [contradiction|discriminate].
  Qed.

  Lemma choice_expands Pn w sl : node_kmpe_choice Pn w sl -> kmpe_choice_unbounded M (expP Pn) w sl.
  Proof.
    intros (HP & Hw & Herr). split; [exact (expP_st_paths Pn HP)|]. split; [exact Hw|]. split; [|apply no_constraints].
    intros e He. cbn [M m_err] in *. rewrite basic_nedges in He. apply in_map_iff in He. destruct He as (v & <- & Hv).
    pose proof (nodes_basic_in v Hv) as HvV. rewrite (flow_of_nedge v HvV), (scale_of_nedge v HvV).
    assert (Ek : eK I = k) by reflexivity. rewrite Ek.
    rewrite (explains_agree Pn w v HP HvV), (explains_agree Pn sl v HP HvV). exact (Herr v Hv).
  Qed.

  Lemma choice_contracts P w sl : kmpe_choice_unbounded M P w sl -> node_kmpe_choice (conP P) w sl.
  Proof.
    intros (HP & Hw & Herr & _). cbn [M m_err] in *. destruct (st_paths_contract P HP) as [HPn Heq].
    split; [exact HPn|]. split; [exact Hw|]. intros v Hv. pose proof (nodes_basic_in v Hv) as HvV.
    assert (He : In (nedge v) (basic_edges I)) by (rewrite basic_nedges; apply in_map; exact Hv).
    specialize (Herr (nedge v) He). rewrite (flow_of_nedge v HvV), (scale_of_nedge v HvV) in Herr.
    assert (Ek : eK I = k) by reflexivity. rewrite Ek in Herr.
    assert (X : forall u : N -> Q, sumq (fun i => u i * onq P i (nedge v)) (layers k) == node_explains k (conP P) u v).
    { intros u. rewrite <- (explains_agree (conP P) u v HPn HvV). apply sumq_ext. intros i Hi. unfold onq. rewrite (Heq i Hi). reflexivity. }
    rewrite (X w), (X sl) in Herr. exact Herr.
  Qed.

  (* C08 in node mode: the optimal objective is the least total slack of any choice of k paths of the CALLER's graph, weights and slacks *)
  Theorem node_kmpe_optimal (a : var -> Q) : node_domain1 ->
    sat a (encode_kmpe M) -> (forall b, sat b (encode_kmpe M) -> objective a (encode_kmpe M) <= objective b (encode_kmpe M)) ->
    (exists Pn w sl, node_kmpe_choice Pn w sl /\ sumq sl (layers k) == objective a (encode_kmpe M)) /\
    (forall Pn w sl, node_kmpe_choice Pn w sl -> objective a (encode_kmpe M) <= sumq sl (layers k)).
  Proof.
    intros Hdom Hsat Hopt.
    destruct (kmpe_optimal_unbounded M a rank' (S (S (length (exp_topo topo)))) eq_refl eq_refl wf_I eq_refl Hrank'
                (fun v => st_rank_le s t Hst (exp_topo topo) v) kmpe_side_M (err_domain_I Hdom) Hsat Hopt) as [(P & w & sl & Hch & Hsum) Hmin].
    split.
    - exists (conP P), w, sl. split; [exact (choice_contracts P w sl Hch)|exact Hsum].
    - intros Pn w2 sl2 Hch2. exact (Hmin (expP Pn) w2 sl2 (choice_expands Pn w2 sl2 Hch2)).
  Qed.

  (* ---- feasibility of the kMinPathError model, with the model's bound on weights and slacks *)
  Lemma w_max_node : w_max I = node_wmax V fq sc ign isint k.
  Proof.
    unfold w_max, node_wmax, max_flow. cbn [I node_err_inst e_given e_int]. fold (node_err_inst V E s t fq sc ign isint k). fold I.
    rewrite basic_nedges, map_map. rewrite (map_ext_in (fun x => flow_of I (nedge x)) fq); [reflexivity|].
    intros v Hv. apply flow_of_nedge. apply nodes_basic_in. exact Hv.
  Qed.

  Definition node_kmpe_choice_bounded (Pn : N -> list node) (w sl : N -> Q) : Prop :=
    node_kmpe_choice Pn w sl /\
    forall i, In i (layers k) -> w i <= node_wmax V fq sc ign isint k /\ sl i <= node_wmax V fq sc ign isint k.

  Theorem node_kmpe_feasible_iff :
    (exists a, sat a (encode_kmpe M)) <-> (exists Pn w sl, node_kmpe_choice_bounded Pn w sl).
  Proof.
    rewrite (kmpe_feasible_iff M rank' (S (S (length (exp_topo topo)))) eq_refl eq_refl wf_I eq_refl Hrank'
               (fun v => st_rank_le s t Hst (exp_topo topo) v) kmpe_side_M).
    split.
    - intros (P & w & sl & (HP & Hw & Herr & Hc)). exists (conP P), w, sl. split.
      + apply choice_contracts. split; [exact HP|]. split; [|split; [exact Herr|exact Hc]].
        intros i Hi. destruct (Hw i Hi) as ([W0 _] & Wi & [S0 _] & Si). tauto.
      + intros i Hi. cbn [M m_err] in Hw. destruct (Hw i Hi) as ([_ W1] & _ & [_ S1] & _). rewrite <- w_max_node. split; assumption.
    - intros (Pn & w & sl & Hch & Hb). exists (expP Pn), w, sl.
      destruct (choice_expands Pn w sl Hch) as (HP & Hw & Herr & Hc). split; [exact HP|]. split; [|split; [exact Herr|exact Hc]].
      intros i Hi. cbn [M m_err] in *. destruct (Hw i Hi) as (W0 & Wi & S0 & Si). destruct (Hb i Hi) as [W1 S1]. rewrite w_max_node. tauto.
  Qed.
End NodeErr.

(* ================================================================================================================= *)
(* non-vacuity: the path 1 -> 2 with node weights 3 and 5, scaling 1, one path: every choice has cost >= 2, weight 4 attains 2 *)
Definition exV : list node := [1; 2]%N.
Definition exE : list PathEnc.edge := [(1, 2)]%N.
Definition exfq (v : node) : Q := if (v =? 1)%N then 3 else 5.
Definition exsc (v : node) : Q := 1.
Definition exPn (i : N) : list node := [1; 2]%N.

Lemma ex_route p : nroute exV exE p -> memn 1%N p = true /\ memn 2%N p = true.
Proof.
  intros (Hne & HpV & Hw & Hhd & Hlast). destruct p as [|a p]; [contradiction|]. cbn [hd] in Hhd. split; apply memn_In.
  - assert (Ha : In a exV) by (apply HpV; left; reflexivity). destruct Ha as [<-|[<-|[]]]; [left; reflexivity|].
    exfalso. apply (Hhd 1%N). left. reflexivity.
  - assert (Hl : In (last (a :: p) 0%N) (a :: p)).
    { destruct (exists_last (l := a :: p) ltac:(discriminate)) as (l' & z & ->). rewrite last_last. apply in_or_app. right. left. reflexivity. }
    assert (Hl2 : In (last (a :: p) 0%N) exV) by (apply HpV; exact Hl). destruct Hl2 as [Eq|[Eq|[]]]; [|rewrite Eq; exact Hl].
    exfalso. apply (Hlast 2%N). rewrite <- Eq. left. reflexivity.
Qed.

Lemma ex_cost Pn w : node_paths exV exE 1 Pn -> node_klae_cost exV exfq exsc [] 1 Pn w == Qabs (3 - w 0%N) + Qabs (5 - w 0%N).
Proof.
  intros HP. destruct (ex_route _ (HP 0%N ltac:(left; reflexivity))) as [M1 M2].
  assert (NB : nodes_basic exV [] exsc = [1; 2]%N) by reflexivity.
  unfold node_klae_cost, node_explains, node_on. rewrite NB. cbn [exsc layers seq map sumq exfq N.eqb Pos.eqb].
  change (N.of_nat 0) with 0%N. rewrite M1, M2. cbn [indq].
  assert (E1 : 3 - (w 0%N * 1 + 0) == 3 - w 0%N) by ring. assert (E2 : 5 - (w 0%N * 1 + 0) == 5 - w 0%N) by ring.
  rewrite E1, E2. unfold exsc. ring.
Qed.

Lemma ex_node_premises :
  NoDup exV /\ NoDup exE /\ (forall e, In e exE -> In (fst e) exV /\ In (snd e) exV) /\
  (forall u v, In (u, v) exE -> (posn exV u < posn exV v)%nat) /\ incl exV exV /\
  ~ In 100%N (expV exV) /\ ~ In 101%N (expV exV) /\ 100%N <> 101%N /\
  node_domain1 exV exfq exsc [] false 1 /\ node_domain exV exfq exsc [] false 1 /\
  node_paths exV exE 1 exPn /\
  (* the minimum on the right-hand side of the node theorems is 2, not 0 *)
  node_klae_cost exV exfq exsc [] 1 exPn (fun _ => 4) == 2 /\
  (forall Pn w, node_paths exV exE 1 Pn -> 2 <= node_klae_cost exV exfq exsc [] 1 Pn w) /\
  node_kmpe_choice exV exE exfq exsc [] false 1 exPn (fun _ => 4) (fun _ => 1) /\
  (forall Pn w sl, node_kmpe_choice exV exE exfq exsc [] false 1 Pn w sl -> 1 <= sumq sl (layers 1)).
Proof.
  assert (HPn : node_paths exV exE 1 exPn).
  { intros i _. unfold exPn, nroute. split; [discriminate|]. split; [intros x Hx; exact Hx|]. split; [intros e He; exact He|].
    split; intros u Hu; cbn in Hu; destruct Hu as [Eq|[]]; discriminate Eq. }
  assert (Hdom1 : node_domain1 exV exfq exsc [] false 1).
  { split; [|split; [cbn; discriminate|lia]]. intros v Hv. cbn in Hv. unfold exsc.
    destruct Hv as [<-|[<-|[]]]; cbn; (split; [lra|split; [lra|discriminate]]). }
  split; [repeat constructor; cbn; intuition discriminate|].
  split; [repeat constructor; cbn; intuition discriminate|].
  split; [intros e [<-|[]]; cbn; tauto|].
  split; [intros u v [Eq|[]]; injection Eq as <- <-; cbn; lia|].
  split; [apply incl_refl|].
  split; [cbn; intuition discriminate|]. split; [cbn; intuition discriminate|]. split; [discriminate|].
  split; [exact Hdom1|].
  split; [destruct Hdom1 as (H1 & H2 & H3); split; [intros v Hv; destruct (H1 v Hv) as (A & [B _] & C); auto|split; assumption]|].
  split; [exact HPn|].
  split; [rewrite (ex_cost exPn _ HPn); cbn; reflexivity|].
  split.
  - intros Pn w HP. rewrite (ex_cost Pn w HP).
    pose proof (Qle_Qabs (5 - w 0%N)) as A. pose proof (Qle_Qabs (- (3 - w 0%N))) as B. rewrite Qabs_opp in B. lra.
  - split.
    + split; [exact HPn|]. split; [intros i _; split; [lra|split; [discriminate|split; [lra|discriminate]]]|].
      intros v Hv. destruct (ex_route _ (HPn 0%N ltac:(left; reflexivity))) as [M1 M2].
      unfold node_explains, node_on. cbn [layers seq map sumq]. change (N.of_nat 0) with 0%N. cbn in Hv.
      destruct Hv as [<-|[<-|[]]]; rewrite ?M1, ?M2; cbn [indq exfq exsc N.eqb Pos.eqb].
      all: unfold exsc; apply Qabs_Qle_condition; split; lra.
    + intros Pn w sl (HP & Hw & Herr). destruct (ex_route _ (HP 0%N ltac:(left; reflexivity))) as [M1 M2].
      pose proof (Herr 1%N ltac:(cbn; tauto)) as H1. pose proof (Herr 2%N ltac:(cbn; tauto)) as H2.
      unfold node_explains, node_on in H1, H2. cbn [layers seq map sumq] in *. change (N.of_nat 0) with 0%N in *.
      rewrite M1 in H1. rewrite M2 in H2. cbn [indq exfq exsc N.eqb Pos.eqb] in H1, H2. unfold exsc in H1, H2.
      apply Qabs_Qle_condition in H1, H2. lra.
Qed.

Lemma ex_c07_premises :
  NoDup exV /\ NoDup exE /\ (forall e, In e exE -> In (fst e) exV /\ In (snd e) exV) /\
  (forall u v, In (u, v) exE -> (posn exV u < posn exV v)%nat) /\ incl exV exV /\
  ~ In 100%N (expV exV) /\ ~ In 101%N (expV exV) /\ 100%N <> 101%N /\
  node_domain exV exfq exsc [] false 1 /\ node_paths exV exE 1 exPn /\
  node_klae_cost exV exfq exsc [] 1 exPn (fun _ => 4) == 2 /\
  (forall Pn w, node_paths exV exE 1 Pn -> 2 <= node_klae_cost exV exfq exsc [] 1 Pn w).
Proof.
  destruct ex_node_premises as (H1 & H2 & H3 & H4 & H5 & H6 & H7 & H8 & _ & H10 & H11 & H12 & H13 & _).
  exact (conj H1 (conj H2 (conj H3 (conj H4 (conj H5 (conj H6 (conj H7 (conj H8 (conj H10 (conj H11 (conj H12 H13))))))))))).
Qed.
Lemma ex_c08_premises :
  NoDup exV /\ NoDup exE /\ (forall e, In e exE -> In (fst e) exV /\ In (snd e) exV) /\
  (forall u v, In (u, v) exE -> (posn exV u < posn exV v)%nat) /\ incl exV exV /\
  ~ In 100%N (expV exV) /\ ~ In 101%N (expV exV) /\ 100%N <> 101%N /\
  node_domain1 exV exfq exsc [] false 1 /\
  node_kmpe_choice exV exE exfq exsc [] false 1 exPn (fun _ => 4) (fun _ => 1) /\
  (forall Pn w sl, node_kmpe_choice exV exE exfq exsc [] false 1 Pn w sl -> 1 <= sumq sl (layers 1)).
Proof.
  destruct ex_node_premises as (H1 & H2 & H3 & H4 & H5 & H6 & H7 & H8 & H9 & _ & _ & _ & _ & H14 & H15).
  exact (conj H1 (conj H2 (conj H3 (conj H4 (conj H5 (conj H6 (conj H7 (conj H8 (conj H9 (conj H14 H15)))))))))).
Qed.
