(* C20 — descriptions of well-formed blocks (any layout), their rendering and denotation;
   the header loop (scan) and the edge loop (read_edges) on rendered descriptions. *)
From Coq Require Import List NArith ZArith Bool Arith Lia.
Import ListNotations.
From FP Require Import Parser ParserProofs1.
Set Default Timeout 30.
Open Scope N_scope.

(* ================================================================ descriptions *)
(* a line of the header part:  lead '#'^(1+k) gap text trail     |     lead "#S" gap t1 g1 t2 g2 ... *)
Inductive hitem :=
| HHdr (lead : str) (k : nat) (gap text trail : str)
| HCons (lead gap : str) (cells : list (str * str)).

Definition render_hitem (it : hitem) : str :=
  match it with
  | HHdr lead k gap text trail => lead ++ c_hash :: repeat c_hash k ++ gap ++ text ++ trail
  | HCons lead gap cells => lead ++ c_hash :: c_S :: gap ++ glue cells
  end.

(* a header text line must not read as "#S..." and its text is what remains after removing the '#'s and outer white space *)
Definition wf_hitem (it : hitem) : Prop :=
  match it with
  | HHdr lead k gap text trail =>
      all_ws lead /\ all_ws gap /\ all_ws trail /\ trimmed text /\
      (gap = [] -> nohash text /\ (k = O -> hd 0 text <> c_S))
  | HCons lead gap cells => all_ws lead /\ all_ws gap /\ wf_cells cells
  end.

Definition hdr_texts (items : list hitem) : list str :=
  flat_map (fun it => match it with HHdr _ _ _ text _ => [text] | HCons _ _ _ => [] end) items.
(* node sequences of the '#S' lines that list at least one node *)
Definition cons_toks (items : list hitem) : list (list str) :=
  flat_map (fun it => match it with HCons _ _ (c :: r) => [map fst (c :: r)] | _ => [] end) items.

(* first occurrences only *)
Fixpoint dedup_acc (seen : list (list str)) (l : list (list str)) : list (list str) :=
  match l with
  | [] => []
  | t :: r => if mem_toks t seen then dedup_acc seen r else t :: dedup_acc (t :: seen) r
  end.
Definition len2 (t : list str) : bool := match t with _ :: _ :: _ => true | _ => false end.
Definition cons_from (seen : list (list str)) (tl : list (list str)) : list (list (str * str)) :=
  map pairs_of (filter len2 (dedup_acc seen tl)).
(* one constraint per distinct '#S' node sequence with at least two nodes, as consecutive pairs *)
Definition spec_cons (items : list hitem) : list (list (str * str)) := cons_from [] (cons_toks items).

(* a line of the edge part:  lead u gu v gv w gw    |    a line that is skipped *)
Inductive bitem :=
| BEdge (lead u gu v gv w gw : str) (x : dec)
| BJunk (l : str).
Definition render_bitem (b : bitem) : str :=
  match b with
  | BEdge lead u gu v gv w gw _ => lead ++ glue [(u, gu); (v, gv); (w, gw)]
  | BJunk l => l
  end.
(* cm = comment lines allowed between edges (read_graph on its own; inside read_graphs a '#' line starts a new block) *)
Definition wf_bitem (cm : bool) (b : bitem) : Prop :=
  match b with
  | BEdge lead u gu v gv w gw x =>
      all_ws lead /\ wf_cells [(u, gu); (v, gv); (w, gw)] /\ nohash u /\ parse_float w = FOk x
  | BJunk l => is_blank l = true \/ (cm = true /\ is_hdr l = true)
  end.
Definition listed (body : list bitem) : list wedge :=
  flat_map (fun b => match b with BEdge _ u _ v _ _ _ x => [(u, v, x)] | BJunk _ => [] end) body.

Definition add_all (L : list wedge) (g : list str * list wedge) : list str * list wedge :=
  fold_left (fun g e => add_edge (fst (fst e)) (snd (fst e)) (snd e) g) L g.

(* ================================================================ small facts *)
Definition fst_ne (X : str) (c0 : N) : Prop := match X with c :: _ => c <> c0 | [] => True end.

Lemma ws_ne c c0 : is_ws c = true -> is_ws c0 = false -> c <> c0.
Proof. intros H1 H2 E. subst. congruence. Qed.

Lemma fst_ne_pad gap text trail c0 : all_ws gap -> all_ws trail -> is_ws c0 = false ->
  (gap = [] -> fst_ne text c0) -> fst_ne (gap ++ text ++ trail) c0.
Proof.
  intros Hg Ht H0 Hx. destruct gap as [|c g].
  - cbn [app]. specialize (Hx eq_refl). destruct text as [|c r].
    + cbn [app]. destruct trail as [|c r]; [exact I|]. inversion Ht; subst. cbn [fst_ne]. apply ws_ne; assumption.
    + exact Hx.
  - inversion Hg; subst. cbn [app fst_ne]. apply ws_ne; assumption.
Qed.

Lemma starts_one_false c0 X : fst_ne X c0 -> starts_with [c0] X = false.
Proof. destruct X as [|c r]; [reflexivity|]. cbn [fst_ne starts_with]. intros H. destruct (N.eqb_spec c0 c); [congruence|reflexivity]. Qed.
Lemma lstrip_hash_id X : fst_ne X c_hash -> lstrip_hash X = X.
Proof. destruct X as [|c r]; [reflexivity|]. cbn [fst_ne lstrip_hash]. intros H. destruct (N.eqb_spec c c_hash); [congruence|reflexivity]. Qed.
Lemma lstrip_hash_repeat k X : lstrip_hash (repeat c_hash k ++ X) = lstrip_hash X.
Proof. induction k as [|k IH]; [reflexivity|]. cbn [repeat app lstrip_hash]. rewrite N.eqb_refl. exact IH. Qed.

Lemma pairs_of_nil t : pairs_of t = [] <-> len2 t = false.
Proof. destruct t as [|a [|b r]]; cbn [pairs_of len2]; split; intros H; try reflexivity; discriminate. Qed.

Lemma cons_from_cons_seen seen t r : mem_toks t seen = true -> cons_from seen (t :: r) = cons_from seen r.
Proof. intros H. unfold cons_from. cbn [dedup_acc]. rewrite H. reflexivity. Qed.
Lemma cons_from_cons_new seen t r : mem_toks t seen = false ->
  cons_from seen (t :: r) = (if len2 t then [pairs_of t] else []) ++ cons_from (t :: seen) r.
Proof. intros H. unfold cons_from. cbn [dedup_acc]. rewrite H. cbn [filter]. destruct (len2 t); reflexivity. Qed.

(* ================================================================ the header loop *)
Definition stops (rest : list str) : Prop := match rest with l :: _ => is_hdr l = false | [] => True end.

Lemma scan_stop rest hdrs seen cstr : stops rest -> scan rest hdrs seen cstr = (rest, hdrs, cstr).
Proof. destruct rest as [|l r]; [reflexivity|]. cbn [stops scan]. intros ->. reflexivity. Qed.

Lemma scan_hdr lead k gap text trail r hdrs seen cstr :
  wf_hitem (HHdr lead k gap text trail) ->
  scan (render_hitem (HHdr lead k gap text trail) :: r) hdrs seen cstr = scan r (hdrs ++ [text]) seen cstr.
Proof.
  intros (Hl & Hg & Ht & Hx & Hgap). cbn [render_hitem scan].
  rewrite is_hdr_lead_hash by assumption. rewrite lstrip_lead_hash by assumption.
  assert (H35 : fst_ne (gap ++ text ++ trail) c_hash).
  { apply fst_ne_pad; try assumption; [reflexivity|]. intros E. destruct (Hgap E) as [Hn _]. destruct text; [exact I|exact Hn]. }
  assert (HS : starts_with [c_hash; c_S] (c_hash :: repeat c_hash k ++ gap ++ text ++ trail) = false).
  { cbn [starts_with]. rewrite N.eqb_refl. cbn [andb]. destruct k as [|k'].
    - cbn [repeat app]. apply starts_one_false. apply fst_ne_pad; try assumption; [reflexivity|].
      intros E. destruct (Hgap E) as [_ Hs]. specialize (Hs eq_refl). destruct text; [exact I|exact Hs].
    - reflexivity. }
  rewrite HS. cbn [lstrip_hash]. rewrite N.eqb_refl. rewrite lstrip_hash_repeat, lstrip_hash_id by assumption.
  rewrite strip_pad by assumption. reflexivity.
Qed.

Lemma scan_cons_empty lead gap r hdrs seen cstr :
  wf_hitem (HCons lead gap []) ->
  scan (render_hitem (HCons lead gap []) :: r) hdrs seen cstr = scan r hdrs seen cstr.
Proof.
  intros (Hl & Hg & _). cbn [render_hitem scan glue].
  rewrite is_hdr_lead_hash by assumption. rewrite lstrip_lead_hash by assumption.
  cbn [starts_with]. rewrite !N.eqb_refl. cbn [andb skipn]. rewrite app_nil_r.
  assert (E : strip gap = []) by (apply strip_nil_iff; apply lstrip_all_ws; assumption).
  rewrite E. reflexivity.
Qed.

Lemma scan_cons_step lead gap c cs r hdrs seen cstr :
  wf_hitem (HCons lead gap (c :: cs)) ->
  let toks := map fst (c :: cs) in
  scan (render_hitem (HCons lead gap (c :: cs)) :: r) hdrs seen cstr =
  if mem_toks toks seen then scan r hdrs seen cstr
  else scan r hdrs (toks :: seen) (cstr ++ (if len2 toks then [pairs_of toks] else [])).
Proof.
  intros (Hl & Hg & Hc) toks. cbn [render_hitem scan].
  rewrite is_hdr_lead_hash by assumption. rewrite lstrip_lead_hash by assumption.
  cbn [starts_with]. rewrite !N.eqb_refl. cbn [andb skipn].
  assert (Hs : split_ws (strip (gap ++ glue (c :: cs))) [] = toks).
  { rewrite split_ws_strip, split_ws_lead by assumption. apply split_glue. assumption. }
  destruct (strip (gap ++ glue (c :: cs))) as [|d q] eqn:E.
  - exfalso. cbn [split_ws] in Hs. subst toks. destruct c; discriminate.
  - rewrite Hs. destruct (mem_toks toks seen); [reflexivity|].
    destruct (pairs_of toks) eqn:P.
    + apply pairs_of_nil in P. rewrite P. rewrite app_nil_r. reflexivity.
    + assert (L : len2 toks = true).
      { destruct (len2 toks) eqn:L; [reflexivity|]. apply pairs_of_nil in L. congruence. }
      rewrite L. reflexivity.
Qed.

Lemma scan_items items : Forall wf_hitem items -> forall rest hdrs seen cstr, stops rest ->
  scan (map render_hitem items ++ rest) hdrs seen cstr =
  (rest, hdrs ++ hdr_texts items, cstr ++ cons_from seen (cons_toks items)).
Proof.
  induction 1 as [|it items Hit _ IH]; intros rest hdrs seen cstr Hst.
  - cbn [map app hdr_texts cons_toks flat_map]. unfold cons_from. cbn [dedup_acc filter map]. rewrite !app_nil_r. apply scan_stop. assumption.
  - cbn [map app]. destruct it as [lead k gap text trail|lead gap [|c cs]].
    + rewrite scan_hdr by assumption. rewrite IH by assumption.
      cbn [hdr_texts cons_toks flat_map app]. rewrite <- app_assoc. reflexivity.
    + rewrite scan_cons_empty by assumption. rewrite IH by assumption. reflexivity.
    + rewrite scan_cons_step by assumption.
      change (cons_toks (HCons lead gap (c :: cs) :: items)) with (map fst (c :: cs) :: cons_toks items).
      change (hdr_texts (HCons lead gap (c :: cs) :: items)) with (hdr_texts items).
      destruct (mem_toks (map fst (c :: cs)) seen) eqn:M.
      * rewrite IH by assumption. rewrite cons_from_cons_seen by assumption. reflexivity.
      * rewrite IH by assumption. rewrite cons_from_cons_new by assumption. rewrite <- app_assoc. reflexivity.
Qed.

(* ================================================================ blank lines before the count *)
Lemma skip_blank_app blanks rest : Forall all_ws blanks -> skip_blank (blanks ++ rest) = skip_blank rest.
Proof.
  induction 1 as [|l bl Hl _ IH]; [reflexivity|]. cbn [app skip_blank].
  assert (E : is_blank l = true) by (apply is_blank_all_ws; assumption). rewrite E. exact IH.
Qed.

(* ================================================================ the edge loop *)
Lemma read_edges_edge lead u gu v gv w gw x r g :
  wf_bitem false (BEdge lead u gu v gv w gw x) \/ wf_bitem true (BEdge lead u gu v gv w gw x) ->
  read_edges (render_bitem (BEdge lead u gu v gv w gw x) :: r) g = read_edges r (add_edge u v x g).
Proof.
  intros H. assert (H' : all_ws lead /\ wf_cells [(u, gu); (v, gv); (w, gw)] /\ nohash u /\ parse_float w = FOk x) by (destruct H; exact H).
  clear H. destruct H' as (Hl & Hc & Hn & Hp). cbn [render_bitem read_edges].
  pose proof Hc as Hc'. cbn [wf_cells] in Hc'. destruct Hc' as (Hu & _).
  cbn [glue]. rewrite is_blank_lead_token, is_hdr_lead_token by assumption. cbn [orb].
  change (u ++ gu ++ v ++ gv ++ w ++ gw ++ []) with (glue [(u, gu); (v, gv); (w, gw)]).
  rewrite split_ws_lead by assumption. rewrite split_glue by assumption. cbn [map fst]. rewrite Hp. reflexivity.
Qed.

Lemma read_edges_junk cm l r g : wf_bitem cm (BJunk l) -> read_edges (render_bitem (BJunk l) :: r) g = read_edges r g.
Proof.
  cbn [wf_bitem render_bitem read_edges]. intros [H|[_ H]]; rewrite H; [reflexivity|rewrite orb_true_r; reflexivity].
Qed.

Lemma read_edges_body cm body : Forall (wf_bitem cm) body -> forall rest g,
  read_edges (map render_bitem body ++ rest) g = read_edges rest (add_all (listed body) g).
Proof.
  induction 1 as [|b body Hb _ IH]; intros rest g; [reflexivity|]. cbn [map app].
  destruct b as [lead u gu v gv w gw x|l].
  - rewrite read_edges_edge by (destruct cm; [right|left]; exact Hb). rewrite IH. reflexivity.
  - rewrite (read_edges_junk cm) by assumption. rewrite IH. reflexivity.
Qed.

(* ================================================================ what add_all builds *)
Definition endpoint (x : str) (L : list wedge) : Prop := exists e, In e L /\ (x = fst (fst e) \/ x = snd (fst e)).

Lemma add_node_In x y ns : In x (add_node y ns) <-> x = y \/ In x ns.
Proof.
  unfold add_node. destruct (mem_str y ns) eqn:M.
  - apply mem_str_In in M. split; [intros H; right; assumption|intros [->|H]; assumption].
  - rewrite in_app_iff. cbn [In]. split; [intros [H|[H|[]]]; [right|left]; auto|intros [->|H]; [right; left|left]; auto].
Qed.
Lemma add_node_NoDup y ns : NoDup ns -> NoDup (add_node y ns).
Proof.
  intros H. unfold add_node. destruct (mem_str y ns) eqn:M; [assumption|].
  assert (Hn : ~ In y ns) by (intros Hi; apply mem_str_In in Hi; congruence).
  clear M. induction H as [|a l Ha _ IH]; cbn [app].
  - constructor; [intros []|constructor].
  - constructor.
    + rewrite in_app_iff. cbn [In]. intros [Hi|[<-|[]]]; [contradiction|]. apply Hn. left. reflexivity.
    + apply IH. intros Hi. apply Hn. right. assumption.
Qed.

Lemma set_edge_keys u v w es : forall p, In p (map fst (set_edge u v w es)) <-> p = (u, v) \/ In p (map fst es).
Proof.
  induction es as [|[[a b] x] r IH]; intros p; cbn [set_edge map fst In].
  - split; [intros [<-|[]]; left; reflexivity|intros [->|[]]; left; reflexivity].
  - destruct (str_eqb a u && str_eqb b v) eqn:E.
    + apply andb_true_iff in E. destruct E as [E1 E2]. apply str_eqb_eq in E1, E2. subst. cbn [map fst In].
      split; [intros [H|H]; [right; left|right; right]; assumption|intros [->|[H|H]]; [left; reflexivity|left; assumption|right; assumption]].
    + cbn [map fst In]. rewrite IH. split; [intros [H|[H|H]]; auto|intros [H|[H|H]]; auto].
Qed.
Lemma set_edge_NoDup u v w es : NoDup (map fst es) -> NoDup (map fst (set_edge u v w es)).
Proof.
  induction es as [|[[a b] x] r IH]; intros H; cbn [set_edge map fst].
  - constructor; [intros []|constructor].
  - inversion H as [|? ? Hn Hr]; subst. destruct (str_eqb a u && str_eqb b v) eqn:E.
    + cbn [map fst]. constructor; assumption.
    + cbn [map fst]. constructor; [|apply IH; assumption].
      rewrite set_edge_keys. intros [E'|Hi]; [|contradiction]. inversion E'; subst. rewrite !str_eqb_refl in E. discriminate.
Qed.
(* the weight stored for (a,b) after set_edge *)
Lemma set_edge_lookup u v w es a b x : NoDup (map fst es) ->
  (In (a, b, x) (set_edge u v w es) <-> ((a, b) = (u, v) /\ x = w) \/ ((a, b) <> (u, v) /\ In (a, b, x) es)).
Proof.
  induction es as [|[[a0 b0] x0] r IH]; intros Hnd; cbn [set_edge In].
  - split; [intros [E|[]]; inversion E; subst; left; split; reflexivity|intros [[E ->]|[_ []]]; inversion E; subst; left; reflexivity].
  - inversion Hnd as [|? ? Hn Hr]; subst. cbn [map fst] in Hn. destruct (str_eqb a0 u && str_eqb b0 v) eqn:E.
    + apply andb_true_iff in E. destruct E as [E1 E2]. apply str_eqb_eq in E1, E2. subst. cbn [In]. split.
      * intros [H|H]; [inversion H; subst; left; split; reflexivity|].
        right. split; [|right; assumption]. intros E'. inversion E'; subst. apply Hn. apply (in_map fst) in H. exact H.
      * intros [[E' ->]|[Hne [H|H]]]; [inversion E'; subst; left; reflexivity| |right; assumption].
        inversion H; subst. exfalso. apply Hne. reflexivity.
    + cbn [In]. rewrite (IH Hr). split.
      * intros [H|[H|[Hne H]]]; [|left; assumption|right; split; [assumption|right; assumption]].
        inversion H; subst. right. split; [|left; reflexivity]. intros E'. inversion E'; subst. rewrite !str_eqb_refl in E. discriminate.
      * intros [H|[Hne [H|H]]]; [right; left; assumption|left; assumption|right; right; split; assumption].
Qed.

Lemma add_all_app L1 L2 g : add_all (L1 ++ L2) g = add_all L2 (add_all L1 g).
Proof. unfold add_all. apply fold_left_app. Qed.

Lemma add_all_nodes L : forall g x, In x (fst (add_all L g)) <-> In x (fst g) \/ endpoint x L.
Proof.
  induction L as [|[[u v] w] L IH]; intros g x.
  - cbn. split; [intros H; left; assumption|intros [H|(e & [] & _)]; assumption].
  - change (add_all (((u, v), w) :: L) g) with (add_all L (add_edge u v w g)). rewrite IH.
    unfold add_edge. cbn [fst]. rewrite !add_node_In. unfold endpoint. split.
    + intros [[->|[->|H]]|(e & He & Hx)].
      * right. exists (u, v, w). split; [left; reflexivity|right; reflexivity].
      * right. exists (u, v, w). split; [left; reflexivity|left; reflexivity].
      * left. assumption.
      * right. exists e. split; [right; assumption|assumption].
    + intros [H|(e & [<-|He] & Hx)].
      * left. right. right. assumption.
      * cbn [fst snd] in Hx. left. destruct Hx as [->| ->]; [right; left|left]; reflexivity.
      * right. exists e. split; assumption.
Qed.
Lemma add_all_nodes_NoDup L : forall g, NoDup (fst g) -> NoDup (fst (add_all L g)).
Proof.
  induction L as [|[[u v] w] L IH]; intros g H; [assumption|].
  change (add_all (((u, v), w) :: L) g) with (add_all L (add_edge u v w g)). apply IH.
  unfold add_edge. cbn [fst]. apply add_node_NoDup, add_node_NoDup. assumption.
Qed.
Lemma add_all_keys L : forall g p, In p (map fst (snd (add_all L g))) <-> In p (map fst (snd g)) \/ In p (map fst L).
Proof.
  induction L as [|[[u v] w] L IH]; intros g p.
  - cbn. split; [intros H; left; assumption|intros [H|[]]; assumption].
  - change (add_all (((u, v), w) :: L) g) with (add_all L (add_edge u v w g)). rewrite IH.
    unfold add_edge. cbn [snd map fst In]. rewrite set_edge_keys. split.
    + intros [[->|H]|H]; [right; left; reflexivity|left; assumption|right; right; assumption].
    + intros [H|[<-|H]]; [left; right; assumption|left; left; reflexivity|right; assumption].
Qed.
Lemma add_all_keys_NoDup L : forall g, NoDup (map fst (snd g)) -> NoDup (map fst (snd (add_all L g))).
Proof.
  induction L as [|[[u v] w] L IH]; intros g H; [assumption|].
  change (add_all (((u, v), w) :: L) g) with (add_all L (add_edge u v w g)). apply IH.
  unfold add_edge. cbn [snd]. apply set_edge_NoDup. assumption.
Qed.
(* the last listing of a pair decides its weight *)
Lemma add_all_last L1 u v w L2 g : ~ In (u, v) (map fst L2) -> NoDup (map fst (snd g)) ->
  In (u, v, w) (snd (add_all (L1 ++ (u, v, w) :: L2) g)).
Proof.
  intros Hn Hg. rewrite add_all_app.
  change (add_all ((u, v, w) :: L2) (add_all L1 g)) with (add_all L2 (add_edge u v w (add_all L1 g))).
  set (g1 := add_edge u v w (add_all L1 g)).
  assert (H1 : In (u, v, w) (snd g1) /\ NoDup (map fst (snd g1))).
  { unfold g1, add_edge. cbn [snd]. split.
    - apply set_edge_lookup; [apply add_all_keys_NoDup; assumption|]. left. split; reflexivity.
    - apply set_edge_NoDup. apply add_all_keys_NoDup. assumption. }
  clearbody g1. clear Hg. revert g1 H1. induction L2 as [|[[a b] x] L2 IH]; intros g1 [Hin Hnd]; [exact Hin|].
  change (add_all (((a, b), x) :: L2) g1) with (add_all L2 (add_edge a b x g1)).
  apply IH.
  - intros H. apply Hn. right. assumption.
  - unfold add_edge. cbn [snd]. split; [|apply set_edge_NoDup; assumption].
    apply set_edge_lookup; [assumption|]. right. split; [|assumption].
    intros E. apply Hn. left. cbn [fst]. symmetry. exact E.
Qed.
(* when no pair is listed twice the edge list is the listing itself *)
Lemma add_all_nodup_edges L : forall g, NoDup (map fst (snd g ++ L)) -> snd (add_all L g) = snd g ++ L.
Proof.
  induction L as [|[[u v] w] L IH]; intros g H; [cbn; rewrite app_nil_r; reflexivity|].
  change (add_all (((u, v), w) :: L) g) with (add_all L (add_edge u v w g)).
  assert (E : snd (add_edge u v w g) = snd g ++ [(u, v, w)]).
  { destruct g as [ns es]. unfold add_edge. cbn [snd] in *. clear IH. revert H. induction es as [|[[a b] x] r IHr]; intros H; [reflexivity|].
    cbn [set_edge app]. destruct (str_eqb a u && str_eqb b v) eqn:E.
    - exfalso. apply andb_true_iff in E. destruct E as [E1 E2]. apply str_eqb_eq in E1, E2. subst.
      cbn [app map fst] in H. inversion H as [|? ? Hn _]; subst. apply Hn. rewrite map_app, in_app_iff. right. left. reflexivity.
    - f_equal. apply IHr. cbn [app map fst] in H. inversion H; assumption. }
  assert (H' : NoDup (map fst (snd (add_edge u v w g) ++ L))).
  { replace (snd (add_edge u v w g) ++ L) with (snd g ++ (u, v, w) :: L); [exact H|].
    transitivity ((snd g ++ [(u, v, w)]) ++ L); [rewrite <- app_assoc; reflexivity|exact (f_equal (fun z => z ++ L) (eq_sym E))]. }
  transitivity (snd (add_edge u v w g) ++ L); [apply IH; exact H'|].
  transitivity ((snd g ++ [(u, v, w)]) ++ L); [exact (f_equal (fun z => z ++ L) E)|rewrite <- app_assoc; reflexivity].
Qed.

(* ================================================================ boolean tests vs their meaning *)
Lemma has_edge_In es a b : has_edge es (a, b) = true <-> In (a, b) (map fst es).
Proof.
  unfold has_edge. rewrite existsb_exists. cbn [fst snd]. split.
  - intros ([[a' b'] x] & Hin & E). cbn [fst snd] in E. apply andb_true_iff in E. destruct E as [E1 E2].
    apply str_eqb_eq in E1, E2. subst. apply (in_map fst) in Hin. exact Hin.
  - intros H. apply in_map_iff in H. destruct H as ([[a' b'] x] & E & Hin). cbn [fst] in E. inversion E; subst.
    exists (a, b, x). split; [assumption|]. cbn [fst snd]. rewrite !str_eqb_refl. reflexivity.
Qed.
Lemma has_source_spec ns es : has_source ns es = true <-> exists x, In x ns /\ forall t, In t es -> snd (fst t) <> x.
Proof.
  unfold has_source. rewrite existsb_exists. split.
  - intros (x & Hx & H). exists x. split; [assumption|]. intros t Ht E. apply negb_true_iff in H.
    assert (X : existsb (fun t0 => str_eqb (snd (fst t0)) x) es = true) by (apply existsb_exists; exists t; split; [assumption|apply str_eqb_eq; assumption]).
    congruence.
  - intros (x & Hx & H). exists x. split; [assumption|]. apply negb_true_iff.
    destruct (existsb (fun t => str_eqb (snd (fst t)) x) es) eqn:E; [|reflexivity].
    apply existsb_exists in E. destruct E as (t & Ht & E). apply str_eqb_eq in E. exfalso. exact (H t Ht E).
Qed.
Lemma has_sink_spec ns es : has_sink ns es = true <-> exists x, In x ns /\ forall t, In t es -> fst (fst t) <> x.
Proof.
  unfold has_sink. rewrite existsb_exists. split.
  - intros (x & Hx & H). exists x. split; [assumption|]. intros t Ht E. apply negb_true_iff in H.
    assert (X : existsb (fun t0 => str_eqb (fst (fst t0)) x) es = true) by (apply existsb_exists; exists t; split; [assumption|apply str_eqb_eq; assumption]).
    congruence.
  - intros (x & Hx & H). exists x. split; [assumption|]. apply negb_true_iff.
    destruct (existsb (fun t => str_eqb (fst (fst t)) x) es) eqn:E; [|reflexivity].
    apply existsb_exists in E. destruct E as (t & Ht & E). apply str_eqb_eq in E. exfalso. exact (H t Ht E).
Qed.
