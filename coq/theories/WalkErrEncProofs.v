(* Soundness of the cyclic error encodings (WalkErrEnc.v): every satisfying assignment of the LP of
   kLeastAbsErrorsCycles / kMinPathErrorCycles decodes to k source-to-sink walks with weights (and slacks)
   such that the error variables dominate |f(e) - sum_i w_i * mult_i(e)| (resp. the scaled deviation is
   covered by the slacks of the walks through the edge), and the objective is the scaled sum. *)
From Coq Require Import List NArith ZArith QArith Qround Lqa Bool Arith Lia Permutation.
Import ListNotations.
From FP Require Import Lin Blocks BlocksProofs PathEnc PathEncProofs Euler EulerProofs1 EulerProofs4
                       WalkEnc WalkDecode WalkEncRows WalkEncRowsProofs WalkErrEnc.
Set Default Timeout 60.
Local Close Scope Q_scope.

(* ---- the product block in its three encodings ---- *)
Section WProd.
  Variable WI : walk_inst.
  Variable a : var -> Q.
  Variable wm : Q.
  Hypothesis Hwc : Forall (sat_col a) (walk_cols WI).
  Hypothesis Hzr : Forall (sat_row a) (zero_rows WI).
  Hypothesis Hfr : Forall (sat_row a) (fix_rows WI).

  Lemma wprod_sound e i c p : In i (layers (w_k WI)) -> In e (g_edges (w_graph WI)) ->
    (vfam c <> fBit /\ vfam c <> fComp) -> (vfam p <> fBit /\ vfam p <> fComp) ->
    (0 <= a c <= wm)%Q ->
    Forall (sat_col a) (wprod_cols WI wm e i p) -> Forall (sat_row a) (wprod_rows WI wm e i c p) ->
    (a p == a c * inject_Z (xint a i e))%Q.
  Proof.
    intros Hi He Fc Fp Hb HC HR.
    destruct (edge_val WI a Hwc i e Hi He) as (Ex & _ & _). fold (xint a i e) in Ex.
    unfold wprod_rows, wprod_cols, wprod_kind in *.
    destruct (mem_ei e i (zero_set WI)) eqn:Z0.
    - cbn in HR. inversion HR as [|? ? R _]; subst. unfold sat_row, mkrow in R. cbn [sns lhs rhs eval fst snd] in R.
      apply mem_ei_In in Z0. pose proof (zero_val WI a Hzr e i Z0) as X0. rewrite <- Ex, X0. lra.
    - destruct (mem_ei e i (one_set WI)) eqn:O1.
      + cbn in HR. inversion HR as [|? ? R _]; subst. unfold sat_row, mkrow in R. cbn [sns lhs rhs eval fst snd] in R.
        apply mem_ei_In in O1. pose proof (one_val WI a Hwc Hfr e i Hi He O1) as X1. rewrite <- Ex, X1. lra.
      + cbn in HR, HC.
        pose proof (proj1 (intprod_rows_sem (evar e i) c p 0%Q wm (num_bits wm)
                      ltac:(split; discriminate) Fc Fp a) (conj HC HR)) as S.
        cbn zeta in S. destruct S as (HB & HF & HX & HP).
        pose proof (comps_value (a c) 0%Q wm Hb _ _ HB HF) as V.
        rewrite <- HP, V, HX, Ex. reflexivity.
  Qed.
End WProd.

Lemma x_basic_in_E I e : In e (x_basic I) -> In e (g_edges (x_graph I)).
Proof. intros H. unfold x_basic in H. apply filter_In in H. tauto. Qed.

Lemma x_basic_spec I e : In e (x_basic I) <->
  In e (g_edges (x_graph I)) /\ mem_edge e (x_ign_all I) = false.
Proof. unfold x_basic. rewrite filter_In, negb_true_iff. tauto. Qed.

Lemma sumq_scale {A} (c : Q) (g : A -> Q) l : (sumq (fun x => c * g x) l == c * sumq g l)%Q.
Proof. induction l as [|x l IH]; cbn [sumq]; [ring|]. rewrite IH. ring. Qed.

(* ---------------------------------------------------------------------------------------------- *)
Section KlaeC.
  Variable I : werr_inst.
  Variable a : var -> Q.
  Hypothesis Hsat : sat a (encode_klae_cycles I).
  Let WI := werr_walk I.
  Let k := x_k I.
  Let wm := x_wmax I.

  Lemma klaec_cols_sat : Forall (sat_col a) (walk_cols WI) /\ Forall (sat_col a) (x_pi_cols I) /\
    Forall (sat_col a) (x_w_cols I) /\ Forall (sat_col a) (x_err_cols I) /\ Forall (sat_col a) (x_piprod_cols I).
  Proof.
    destruct Hsat as [Hc _]. unfold encode_klae_cycles in Hc. cbn [cols] in Hc. unfold base_wcols, klaec_cols in Hc.
    rewrite !Forall_app in Hc. tauto.
  Qed.
  Lemma klaec_rows_sat : Forall (sat_row a) (walk_rows WI) /\ Forall (sat_row a) (zero_rows WI) /\
    Forall (sat_row a) (fix_rows WI) /\ Forall (sat_row a) (klaec_rows I).
  Proof.
    destruct Hsat as [_ Hr]. unfold encode_klae_cycles in Hr. cbn [rows] in Hr. unfold base_wrows in Hr.
    rewrite !Forall_app in Hr. tauto.
  Qed.

  Lemma klaec_w_col i : In i (layers k) -> sat_col a (wcol_ (W i) wm (x_int I)).
  Proof.
    intros Hi. destruct klaec_cols_sat as (_ & _ & Hw & _). apply (sat_cols_in a _ _ Hw). unfold x_w_cols.
    apply (in_map (fun i => wcol_ (W i) (x_wmax I) (x_int I))) in Hi. exact Hi.
  Qed.
  Lemma klaec_w_bounds i : In i (layers k) -> (0 <= a (W i) <= wm)%Q.
  Proof. intros Hi. pose proof (klaec_w_col i Hi) as C. unfold sat_col, wcol_ in C. cbn [cvar clb cub] in C. tauto. Qed.
  Lemma klaec_w_int i : In i (layers k) -> x_int I = true -> is_int (a (W i)).
  Proof. intros Hi Hint. pose proof (klaec_w_col i Hi) as C. unfold sat_col, wcol_ in C. cbn [cvar clb cub cint] in C. apply C. exact Hint. Qed.

  Lemma klaec_edge_rows_sat e : In e (x_basic I) -> Forall (sat_row a) (klaec_edge_rows I e).
  Proof.
    intros He. destruct klaec_rows_sat as (_ & _ & _ & Hk). apply (sat_rows_incl a _ _ Hk).
    intros r Hr. unfold klaec_rows. apply in_flat_map. exists e. split; assumption.
  Qed.

  Lemma klaec_product e i : In e (x_basic I) -> In i (layers k) ->
    (a (pvar e i) == a (W i) * inject_Z (xint a i e))%Q.
  Proof.
    intros He Hi. destruct klaec_cols_sat as (Hwc & _ & _ & _ & Hpc). destruct klaec_rows_sat as (_ & Hzr & Hfr & _).
    apply (wprod_sound WI a wm Hwc Hzr Hfr e i (W i) (pvar e i) Hi (x_basic_in_E I e He)
             ltac:(split; discriminate) ltac:(split; discriminate) (klaec_w_bounds i Hi)).
    - apply Forall_forall. intros c Hc. apply (sat_cols_in a _ _ Hpc). unfold x_piprod_cols.
      apply in_flat_map. exists e. split; [exact He|]. apply in_flat_map. exists i. split; [exact Hi|exact Hc].
    - pose proof (klaec_edge_rows_sat e He) as HR. unfold klaec_edge_rows in HR. rewrite Forall_app in HR. destruct HR as [HP _].
      unfold x_piprod_rows in HP. rewrite Forall_flat_map in HP. apply HP. exact Hi.
  Qed.

  Lemma klaec_pi_sum e : In e (x_basic I) ->
    (sumq (fun i => a (pvar e i)) (layers k) == sumq (fun i => a (W i) * inject_Z (xint a i e)) (layers k))%Q.
  Proof. intros He. apply sumq_ext. intros i Hi. apply klaec_product; assumption. Qed.

  (* C07 (cyclic): the error variable of a non-ignored edge dominates the absolute deviation of the explained
     weight from the edge's weight *)
  Theorem klaec_err_dominates e : In e (x_basic I) ->
    let expl := sumq (fun i => (a (W i) * inject_Z (xint a i e))%Q) (layers k) in
    (xflow I e - expl <= a (errvar e))%Q /\ (expl - xflow I e <= a (errvar e))%Q.
  Proof.
    intros He expl. pose proof (klaec_edge_rows_sat e He) as HR. unfold klaec_edge_rows in HR. rewrite Forall_app in HR.
    destruct HR as [_ HE]. inversion HE as [|? ? Ra HE']; subst. inversion HE' as [|? ? Rb _]; subst.
    unfold sat_row, xrow_9aa, xrow_9ab, mkrow in Ra, Rb. cbn [sns lhs rhs] in Ra, Rb. rewrite eval_app in Ra, Rb.
    rewrite (eval_map_const a (fun i => pvar e i) (- (1))%Q) in Ra. rewrite (eval_map_const a (fun i => pvar e i) 1%Q) in Rb.
    cbn [eval fst snd] in Ra, Rb. fold k in Ra, Rb. rewrite (klaec_pi_sum e He) in Ra, Rb. fold expl in Ra, Rb. split; lra.
  Qed.

  Theorem klaec_objective : (objective a (encode_klae_cycles I) == sumq (fun e => xscale I e * a (errvar e)) (x_basic I))%Q.
  Proof. unfold objective, encode_klae_cycles, klaec_obj. cbn [obj]. apply (eval_map_coef a errvar (xscale I)). Qed.
End KlaeC.

Theorem klaec_sound (I : werr_inst) (a : var -> Q) :
  let G := x_graph I in let k := x_k I in
  let E := g_edges G in let s := g_src G in let t := g_snk G in
  wf_stg G -> o_allow_empty (x_opts I) = false ->
  sat a (encode_klae_cycles I) ->
  (forall i, In i (layers k) ->
     exists w, reconstruct (resid E (xint a i)) s = Some ([], w) /\ hd_error w = Some s /\ last w s = t /\
               (forall e, In e E -> count_e e (pairs w) = Z.to_nat (xint a i e) /\ (0 <= xint a i e)%Z) /\
               (forall e, ~ In e E -> count_e e (pairs w) = 0%nat)) /\
  (forall i, In i (layers k) -> (0 <= a (W i) <= x_wmax I)%Q /\ (x_int I = true -> is_int (a (W i)))) /\
  (forall e, In e (x_basic I) ->
     let expl := sumq (fun i => (a (W i) * inject_Z (xint a i e))%Q) (layers k) in
     (xflow I e - expl <= a (errvar e))%Q /\ (expl - xflow I e <= a (errvar e))%Q) /\
  (objective a (encode_klae_cycles I) == sumq (fun e => xscale I e * a (errvar e)) (x_basic I))%Q.
Proof.
  intros G k E s t WF Hae Hsat. split; [|split; [|split]].
  - intros i Hi. destruct (klaec_cols_sat I a Hsat) as (Hc & _). destruct (klaec_rows_sat I a Hsat) as (Hr & _).
    destruct (walk_layer_is_one_walk (werr_walk I) a WF Hc Hr i Hae Hi) as (w & R & Hh & Hl & _ & C1 & C0).
    exists w. repeat split; try assumption.
    + apply C1. assumption.
    + apply (edge_val (werr_walk I) a Hc i e Hi H).
  - intros i Hi. split; [apply (klaec_w_bounds I a Hsat i Hi)|apply (klaec_w_int I a Hsat i Hi)].
  - intros e He. apply (klaec_err_dominates I a Hsat e He).
  - apply klaec_objective.
Qed.

(* ---------------------------------------------------------------------------------------------- *)
Section KmpeC.
  Variable I : werr_inst.
  Variable a : var -> Q.
  Hypothesis Hsat : sat a (encode_kmpe_cycles I).
  Let WI := werr_walk I.
  Let k := x_k I.
  Let wm := x_wmax I.

  Lemma kmpec_cols_sat : Forall (sat_col a) (walk_cols WI) /\ Forall (sat_col a) (x_w_cols I) /\
    Forall (sat_col a) (x_slack_cols I) /\ Forall (sat_col a) (x_piprod_cols I) /\ Forall (sat_col a) (x_gprod_cols I).
  Proof.
    destruct Hsat as [Hc _]. unfold encode_kmpe_cycles in Hc. cbn [cols] in Hc. unfold base_wcols, kmpec_cols in Hc.
    rewrite !Forall_app in Hc. tauto.
  Qed.
  Lemma kmpec_rows_sat : Forall (sat_row a) (walk_rows WI) /\ Forall (sat_row a) (zero_rows WI) /\
    Forall (sat_row a) (fix_rows WI) /\ Forall (sat_row a) (kmpec_rows I).
  Proof.
    destruct Hsat as [_ Hr]. unfold encode_kmpe_cycles in Hr. cbn [rows] in Hr. unfold base_wrows in Hr.
    rewrite !Forall_app in Hr. tauto.
  Qed.

  Lemma kmpec_w_col i : In i (layers k) -> sat_col a (wcol_ (W i) wm (x_int I)).
  Proof.
    intros Hi. destruct kmpec_cols_sat as (_ & Hw & _). apply (sat_cols_in a _ _ Hw). unfold x_w_cols.
    apply (in_map (fun i => wcol_ (W i) (x_wmax I) (x_int I))) in Hi. exact Hi.
  Qed.
  Lemma kmpec_s_col i : In i (layers k) -> sat_col a (wcol_ (Slack i) wm (x_int I)).
  Proof.
    intros Hi. destruct kmpec_cols_sat as (_ & _ & Hs & _). apply (sat_cols_in a _ _ Hs). unfold x_slack_cols.
    apply (in_map (fun i => wcol_ (Slack i) (x_wmax I) (x_int I))) in Hi. exact Hi.
  Qed.
  Lemma kmpec_w_bounds i : In i (layers k) -> (0 <= a (W i) <= wm)%Q.
  Proof. intros Hi. pose proof (kmpec_w_col i Hi) as C. unfold sat_col, wcol_ in C. cbn [cvar clb cub] in C. tauto. Qed.
  Lemma kmpec_s_bounds i : In i (layers k) -> (0 <= a (Slack i) <= wm)%Q.
  Proof. intros Hi. pose proof (kmpec_s_col i Hi) as C. unfold sat_col, wcol_ in C. cbn [cvar clb cub] in C. tauto. Qed.
  Lemma kmpec_w_int i : In i (layers k) -> x_int I = true -> is_int (a (W i)) /\ is_int (a (Slack i)).
  Proof.
    intros Hi Hint. pose proof (kmpec_w_col i Hi) as C. pose proof (kmpec_s_col i Hi) as D.
    unfold sat_col, wcol_ in C, D. cbn [cvar clb cub cint] in C, D. split; [apply C|apply D]; exact Hint.
  Qed.

  Lemma kmpec_edge_rows_sat e : In e (x_basic I) -> Forall (sat_row a) (kmpec_edge_rows I e).
  Proof.
    intros He. destruct kmpec_rows_sat as (_ & _ & _ & Hk). apply (sat_rows_incl a _ _ Hk).
    intros r Hr. unfold kmpec_rows. apply in_flat_map. exists e. split; assumption.
  Qed.

  Lemma kmpec_pi_product e i : In e (x_basic I) -> In i (layers k) ->
    (a (pvar e i) == a (W i) * inject_Z (xint a i e))%Q.
  Proof.
    intros He Hi. destruct kmpec_cols_sat as (Hwc & _ & _ & Hpc & _). destruct kmpec_rows_sat as (_ & Hzr & Hfr & _).
    apply (wprod_sound WI a wm Hwc Hzr Hfr e i (W i) (pvar e i) Hi (x_basic_in_E I e He)
             ltac:(split; discriminate) ltac:(split; discriminate) (kmpec_w_bounds i Hi)).
    - apply Forall_forall. intros c Hc. apply (sat_cols_in a _ _ Hpc). unfold x_piprod_cols.
      apply in_flat_map. exists e. split; [exact He|]. apply in_flat_map. exists i. split; [exact Hi|exact Hc].
    - pose proof (kmpec_edge_rows_sat e He) as HR. unfold kmpec_edge_rows in HR. rewrite !Forall_app in HR. destruct HR as (HP & _ & _).
      unfold x_piprod_rows in HP. rewrite Forall_flat_map in HP. apply HP. exact Hi.
  Qed.
  Lemma kmpec_gamma_product e i : In e (x_basic I) -> In i (layers k) ->
    (a (gvar e i) == a (Slack i) * inject_Z (xint a i e))%Q.
  Proof.
    intros He Hi. destruct kmpec_cols_sat as (Hwc & _ & _ & _ & Hgc). destruct kmpec_rows_sat as (_ & Hzr & Hfr & _).
    apply (wprod_sound WI a wm Hwc Hzr Hfr e i (Slack i) (gvar e i) Hi (x_basic_in_E I e He)
             ltac:(split; discriminate) ltac:(split; discriminate) (kmpec_s_bounds i Hi)).
    - apply Forall_forall. intros c Hc. apply (sat_cols_in a _ _ Hgc). unfold x_gprod_cols.
      apply in_flat_map. exists e. split; [exact He|]. apply in_flat_map. exists i. split; [exact Hi|exact Hc].
    - pose proof (kmpec_edge_rows_sat e He) as HR. unfold kmpec_edge_rows in HR. rewrite !Forall_app in HR. destruct HR as (_ & HG & _).
      unfold x_gprod_rows in HG. rewrite Forall_flat_map in HG. apply HG. exact Hi.
  Qed.

  (* C08 (cyclic): on every non-ignored edge the scaled deviation of the explained weight is covered, in
     absolute value, by the slacks of the walks through the edge (counted with their multiplicities) *)
  Theorem kmpec_slack_covers e : In e (x_basic I) ->
    let expl := sumq (fun i => (a (W i) * inject_Z (xint a i e))%Q) (layers k) in
    let slk := sumq (fun i => (a (Slack i) * inject_Z (xint a i e))%Q) (layers k) in
    ((xflow I e - expl) * xscale I e <= slk)%Q /\ (- slk <= (xflow I e - expl) * xscale I e)%Q.
  Proof.
    intros He expl slk. pose proof (kmpec_edge_rows_sat e He) as HR. unfold kmpec_edge_rows in HR. rewrite !Forall_app in HR.
    destruct HR as (_ & _ & HE). inversion HE as [|? ? Ra HE']; subst. inversion HE' as [|? ? Rb _]; subst.
    unfold sat_row, mrow_9aa, mrow_9ab, mkrow in Ra, Rb. cbn [sns lhs rhs] in Ra, Rb. rewrite eval_app in Ra, Rb.
    rewrite (eval_map_const a (fun i => pvar e i) (- xscale I e)%Q) in Ra, Rb.
    rewrite (eval_map_const a (fun i => gvar e i) (- (1))%Q) in Ra. rewrite (eval_map_const a (fun i => gvar e i) 1%Q) in Rb.
    fold k in Ra, Rb.
    assert (EP : (sumq (fun i => a (pvar e i)) (layers k) == expl)%Q) by (apply sumq_ext; intros i Hi; apply kmpec_pi_product; assumption).
    assert (EG : (sumq (fun i => a (gvar e i)) (layers k) == slk)%Q) by (apply sumq_ext; intros i Hi; apply kmpec_gamma_product; assumption).
    rewrite EP, EG in Ra, Rb. split; lra.
  Qed.

  Theorem kmpec_objective : (objective a (encode_kmpe_cycles I) == sumq (fun i => a (Slack i)) (layers k))%Q.
  Proof.
    unfold objective, encode_kmpe_cycles, kmpec_obj. cbn [obj]. rewrite (eval_map_const a Slack 1%Q). fold k. lra.
  Qed.
End KmpeC.

Theorem kmpec_sound (I : werr_inst) (a : var -> Q) :
  let G := x_graph I in let k := x_k I in
  let E := g_edges G in let s := g_src G in let t := g_snk G in
  wf_stg G -> o_allow_empty (x_opts I) = false ->
  sat a (encode_kmpe_cycles I) ->
  (forall i, In i (layers k) ->
     exists w, reconstruct (resid E (xint a i)) s = Some ([], w) /\ hd_error w = Some s /\ last w s = t /\
               (forall e, In e E -> count_e e (pairs w) = Z.to_nat (xint a i e) /\ (0 <= xint a i e)%Z) /\
               (forall e, ~ In e E -> count_e e (pairs w) = 0%nat)) /\
  (forall i, In i (layers k) -> (0 <= a (W i) <= x_wmax I)%Q /\ (0 <= a (Slack i) <= x_wmax I)%Q /\
                                (x_int I = true -> is_int (a (W i)) /\ is_int (a (Slack i)))) /\
  (forall e, In e (x_basic I) ->
     let expl := sumq (fun i => (a (W i) * inject_Z (xint a i e))%Q) (layers k) in
     let slk := sumq (fun i => (a (Slack i) * inject_Z (xint a i e))%Q) (layers k) in
     ((xflow I e - expl) * xscale I e <= slk)%Q /\ (- slk <= (xflow I e - expl) * xscale I e)%Q) /\
  (objective a (encode_kmpe_cycles I) == sumq (fun i => a (Slack i)) (layers k))%Q.
Proof.
  intros G k E s t WF Hae Hsat. split; [|split; [|split]].
  - intros i Hi. destruct (kmpec_cols_sat I a Hsat) as (Hc & _). destruct (kmpec_rows_sat I a Hsat) as (Hr & _).
    destruct (walk_layer_is_one_walk (werr_walk I) a WF Hc Hr i Hae Hi) as (w & R & Hh & Hl & _ & C1 & C0).
    exists w. repeat split; try assumption.
    + apply C1. assumption.
    + apply (edge_val (werr_walk I) a Hc i e Hi H).
  - intros i Hi. split; [apply (kmpec_w_bounds I a Hsat i Hi)|]. split; [apply (kmpec_s_bounds I a Hsat i Hi)|apply (kmpec_w_int I a Hsat i Hi)].
  - intros e He. apply (kmpec_slack_covers I a Hsat e He).
  - apply kmpec_objective.
Qed.
