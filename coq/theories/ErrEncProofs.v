(* Meaning of the rows generated for the DAG error models (ErrEnc.v): soundness of encode_klae and
   encode_kmpe w.r.t. the declarative problems, completeness / feasibility witnesses, adequacy of the
   bound w_max, the reported objective, and the refutation witnesses of the open findings. *)
From Coq Require Import List NArith ZArith QArith Qabs Qround Lqa Bool Arith Lia Permutation.
Import ListNotations.
From FP Require Import Lin Blocks BlocksProofs PathEnc Euler EulerProofs1 EulerProofs4 DagDecode PathEncProofs ErrEnc.
Set Default Timeout 60.
Local Close Scope Q_scope.

(* ------------------------------------------------------------------ generic helpers *)
Lemma Qabs_le_iff x y : (Qabs x <= y)%Q <-> (- y <= x <= y)%Q.
Proof. apply Qabs_Qle_condition. Qed.

(* the four McCormick rows with lb = 0 force the product AND c <= ub, from c >= 0 alone *)
Lemma mcc_rows_force a b c p ub : bin (a b) -> (0 <= a c)%Q ->
  Forall (sat_row a) (mcc_rows b c p 0%Q ub) -> (a p == a b * a c)%Q /\ (a c <= ub)%Q.
Proof.
  intros Hb Hc H. apply sat_mcc_rows in H. unfold mcc in H. destruct H as (H1 & H2 & H3 & H4).
  destruct Hb as [Hb|Hb]; rewrite Hb in *; split; lra.
Qed.

Lemma in_all_ik {A} k (l : list A) i x : In i (layers k) -> In x l -> In (i, x) (all_ik k l).
Proof.
  intros Hi Hx. unfold all_ik. apply in_flat_map. exists i. split; [exact Hi|].
  apply (in_map (fun x => (i, x))). exact Hx.
Qed.

Lemma sumq_scale {A} (g : A -> Q) c l : (sumq (fun x => c * g x) l == c * sumq g l)%Q.
Proof. induction l as [|x l IH]; cbn [sumq]; [ring|]. rewrite IH. ring. Qed.

Lemma basic_in I e : In e (basic_edges I) -> In e (g_edges (eG I)).
Proof. unfold basic_edges. intros H. apply filter_In in H. tauto. Qed.

(* ------------------------------------------------------------------ kLeastAbsErrors: soundness *)
Section KlaeSound.
  Variable I : err_inst.
  Variable a : var -> Q.
  Hypothesis Hsat : sat a (encode_klae I).
  Hypothesis Hg : e_given I = None.

  Let G := eG I.
  Let k := eK I.

  Lemma klae_cols_sat : Forall (sat_col a) (edge_cols G k) /\ Forall (sat_col a) (pi_cols I) /\
                        Forall (sat_col a) (w_cols I) /\ Forall (sat_col a) (err_cols I).
  Proof.
    destruct Hsat as [Hc _]. unfold encode_klae in Hc. cbn [cols] in Hc. unfold base_cols, klae_cols in Hc.
    rewrite Hg in Hc. rewrite !Forall_app in Hc. tauto.
  Qed.
  Lemma klae_rows_sat : Forall (sat_row a) (path_rows G k (p_allow_empty (e_base I))) /\
                        Forall (sat_row a) (flat_map (klae_edge_rows I) (basic_edges I)).
  Proof.
    destruct Hsat as [_ Hr]. unfold encode_klae in Hr. cbn [rows] in Hr. unfold base_rows, klae_rows in Hr.
    rewrite Hg in Hr. rewrite !Forall_app in Hr. tauto.
  Qed.

  Lemma klae_edge_bin i e : In i (layers k) -> In e (g_edges G) -> bin (a (Edge (fst e) (snd e) i)).
  Proof. intros Hi He. apply (edge_bin G k a (proj1 klae_cols_sat) i e Hi He). Qed.

  Lemma klae_w_col i : In i (layers k) -> sat_col a (wcol_ (W i) (w_max I) (e_int I)).
  Proof.
    intros Hi. apply (sat_cols_in a _ _ (proj1 (proj2 (proj2 klae_cols_sat)))). unfold w_cols.
    apply (in_map (fun i => wcol_ (W i) (w_max I) (e_int I))) in Hi. exact Hi.
  Qed.
  Lemma klae_w_bounds i : In i (layers k) -> (0 <= a (W i) <= w_max I)%Q.
  Proof. intros Hi. pose proof (klae_w_col i Hi) as C. unfold sat_col, wcol_ in C. cbn [cvar clb cub] in C. tauto. Qed.
  Lemma klae_w_int i : In i (layers k) -> e_int I = true -> is_int (a (W i)).
  Proof. intros Hi Hint. pose proof (klae_w_col i Hi) as C. unfold sat_col, wcol_ in C. cbn [cvar clb cub cint] in C. apply C. exact Hint. Qed.

  (* the error variable dominates the absolute error of the decoded solution *)
  Theorem klae_err_dominates e : In e (basic_edges I) ->
    (Qabs (flow_of I e - sumq (fun i => a (W i) * inject_Z (xval a i e)) (layers k)) <= a (Err (fst e) (snd e)))%Q.
  Proof.
    intros He. pose proof (basic_in I e He) as HeG.
    assert (HR : Forall (sat_row a) (klae_edge_rows I e)).
    { apply (sat_rows_incl a _ _ (proj2 klae_rows_sat)). intros r Hr. apply in_flat_map. exists e. split; assumption. }
    unfold klae_edge_rows in HR. rewrite Forall_app in HR. destruct HR as [HP HE].
    assert (HS : (sumq (fun i => a (Pi (fst e) (snd e) i)) (layers k)
                  == sumq (fun i => a (W i) * inject_Z (xval a i e)) (layers k))%Q).
    { apply sumq_ext. intros i Hi. unfold pi_prod_rows in HP. fold k in HP. rewrite Forall_flat_map in HP. specialize (HP i Hi).
      apply (mcc_rows_exact a _ _ _ 0%Q (w_max I) (klae_edge_bin i e Hi HeG) (klae_w_bounds i Hi)) in HP.
      rewrite HP. destruct (xval_bin a i e (klae_edge_bin i e Hi HeG)) as [E _]. rewrite <- E. ring. }
    inversion HE as [|? ? H1 HE']; subst. inversion HE' as [|? ? H2 _]; subst.
    unfold sat_row, row_9aa, row_9ab, mkrow in H1, H2. cbn [sns lhs rhs] in H1, H2. fold k in H1, H2.
    rewrite eval_app in H1, H2.
    rewrite (eval_map_const a (fun i => Pi (fst e) (snd e) i) (- (1))%Q) in H1.
    rewrite (eval_map_const a (fun i => Pi (fst e) (snd e) i) 1%Q) in H2.
    cbn [eval fst snd] in H1, H2. rewrite HS in H1, H2.
    apply Qabs_le_iff. split; lra.
  Qed.

  (* the LP objective is the scaled sum of the error variables *)
  Lemma klae_objective_value :
    (objective a (encode_klae I) == sumq (fun e => scale_of I e * a (Err (fst e) (snd e))) (basic_edges I))%Q.
  Proof.
    unfold objective, encode_klae. cbn [obj]. unfold klae_obj.
    apply (eval_map_coef a (fun e => Err (fst e) (snd e)) (scale_of I)).
  Qed.
End KlaeSound.

Theorem klae_enc_sound (I : err_inst) (a : var -> Q) (rank : node -> nat) (Rm : nat) :
  let G := eG I in let k := eK I in
  let E := g_edges G in let s := g_src G in let t := g_snk G in
  wf_graph G -> p_allow_empty (e_base I) = false -> e_given I = None ->
  (forall u v, In (u, v) E -> (rank u < rank v)%nat) -> (forall v, (rank v <= Rm)%nat) ->
  sat a (encode_klae I) ->
  (forall i, In i (layers k) ->
     exists p, decode E (xval a i) t (S Rm) s = Some p /\ last p s = t /\
               Permutation (Sup E (xval a i)) (pairs (s :: p)) /\
               (forall e, In e E -> EulerProofs4.count_e e (pairs (s :: p)) = Z.to_nat (xval a i e))) /\
  (forall i, In i (layers k) -> (0 <= a (W i) <= w_max I)%Q /\ (e_int I = true -> is_int (a (W i)))) /\
  (forall e, In e (basic_edges I) ->
     (Qabs (flow_of I e - sumq (fun i => a (W i) * inject_Z (xval a i e)) (layers k)) <= a (Err (fst e) (snd e)))%Q) /\
  (objective a (encode_klae I) == sumq (fun e => scale_of I e * a (Err (fst e) (snd e))) (basic_edges I))%Q.
Proof.
  intros G k E s t WF Hae Hg Hrank HR Hsat. split; [|split; [|split]].
  - intros i Hi.
    pose proof (klae_cols_sat I a Hsat Hg) as [Hc _]. pose proof (klae_rows_sat I a Hsat Hg) as [Hr _].
    rewrite Hae in Hr.
    destruct (layer_is_one_path G k a WF Hc Hr rank Rm i Hrank HR Hi) as (p & D & L & P).
    exists p. repeat split; try assumption.
    intros e He. etransitivity; [symmetry; apply (EulerProofs4.count_e_perm e _ _ P)|].
    etransitivity; [apply (count_Sup E (xval a i) e (wf_nodup_e G WF) He)|].
    destruct (xval_bin a i e (klae_edge_bin I a Hsat Hg i e Hi He)) as [_ [X|X]]; rewrite X; reflexivity.
  - intros i Hi. split; [apply (klae_w_bounds I a Hsat Hg i Hi)|apply (klae_w_int I a Hsat Hg i Hi)].
  - intros e He. apply (klae_err_dominates I a Hsat Hg e He).
  - apply klae_objective_value.
Qed.

(* ------------------------------------------------------------------ kMinPathError: soundness *)
Section KmpeSound.
  Variable M : kmpe_inst.
  Variable a : var -> Q.
  Hypothesis Hsat : sat a (encode_kmpe M).
  Hypothesis Hg : e_given (m_err M) = None.

  Local Notation I := (m_err M).
  Let G := eG I.
  Let k := eK I.

  Lemma kmpe_cols_sat : Forall (sat_col a) (edge_cols G k) /\ Forall (sat_col a) (pos_cols M) /\
                        Forall (sat_col a) (w_cols I) /\ Forall (sat_col a) (pi_cols I) /\
                        Forall (sat_col a) (slack_cols M) /\ Forall (sat_col a) (factor_cols M).
  Proof.
    destruct Hsat as [Hc _]. unfold encode_kmpe in Hc. cbn [cols] in Hc. unfold base_cols, kmpe_cols in Hc.
    cbv zeta in Hc. rewrite Hg in Hc. rewrite !Forall_app in Hc. tauto.
  Qed.
  Lemma kmpe_rows_sat : Forall (sat_row a) (path_rows G k (p_allow_empty (e_base I))) /\
                        Forall (sat_row a) (pos_rows M) /\ Forall (sat_row a) (factor_rows M) /\
                        Forall (sat_row a) (flat_map (kmpe_edge_rows M) (basic_edges I)).
  Proof.
    destruct Hsat as [_ Hr]. unfold encode_kmpe in Hr. cbn [rows] in Hr. unfold base_rows, kmpe_rows in Hr.
    cbv zeta in Hr. rewrite Hg in Hr. rewrite !Forall_app in Hr. tauto.
  Qed.

  Lemma kmpe_edge_bin i e : In i (layers k) -> In e (g_edges G) -> bin (a (Edge (fst e) (snd e) i)).
  Proof. intros Hi He. apply (edge_bin G k a (proj1 kmpe_cols_sat) i e Hi He). Qed.

  Lemma kmpe_w_col i : In i (layers k) -> sat_col a (wcol_ (W i) (w_max I) (e_int I)).
  Proof.
    intros Hi. apply (sat_cols_in a _ _ (proj1 (proj2 (proj2 kmpe_cols_sat)))). unfold w_cols.
    apply (in_map (fun i => wcol_ (W i) (w_max I) (e_int I))) in Hi. exact Hi.
  Qed.
  Lemma kmpe_slack_col i : In i (layers k) -> sat_col a (wcol_ (Slack i) (w_max I) (e_int I)).
  Proof.
    intros Hi. apply (sat_cols_in a _ _ (proj1 (proj2 (proj2 (proj2 (proj2 kmpe_cols_sat)))))). unfold slack_cols.
    apply in_or_app. left. apply (in_map (fun i => wcol_ (Slack i) (w_max I) (e_int I))) in Hi. exact Hi.
  Qed.
  Lemma kmpe_w_bounds i : In i (layers k) -> (0 <= a (W i) <= w_max I)%Q.
  Proof. intros Hi. pose proof (kmpe_w_col i Hi) as C. unfold sat_col, wcol_ in C. cbn [cvar clb cub] in C. tauto. Qed.
  Lemma kmpe_slack_bounds i : In i (layers k) -> (0 <= a (Slack i) <= w_max I)%Q.
  Proof. intros Hi. pose proof (kmpe_slack_col i Hi) as C. unfold sat_col, wcol_ in C. cbn [cvar clb cub] in C. tauto. Qed.

  (* the variable multiplied into gamma is non-negative *)
  Lemma kmpe_sigma_nonneg i : In i (layers k) -> (0 <= a (slack_var M i))%Q.
  Proof.
    intros Hi. unfold slack_var. destruct (has_factors M) eqn:HF.
    - assert (C : sat_col a (ccol (SSlack i) 0%Q (sslack_ub M))).
      { apply (sat_cols_in a _ _ (proj2 (proj2 (proj2 (proj2 (proj2 kmpe_cols_sat)))))). unfold factor_cols. rewrite HF.
        cbv zeta. fold k. apply in_or_app. right. apply in_or_app. right. apply in_or_app. left.
        apply (in_map (fun i => ccol (SSlack i) 0%Q (sslack_ub M))) in Hi. exact Hi. }
      unfold sat_col, ccol in C. cbn [cvar clb cub] in C. tauto.
    - apply (kmpe_slack_bounds i Hi).
  Qed.

  (* per non-ignored edge: the scaled error is covered by the (scaled) slacks of the layers through it;
     moreover the rows force every multiplied slack below w_max *)
  Theorem kmpe_error_covered e : In e (basic_edges I) ->
    (Qabs (scale_of I e * (flow_of I e - sumq (fun i => a (W i) * inject_Z (xval a i e)) (layers k)))
       <= sumq (fun i => a (slack_var M i) * inject_Z (xval a i e)) (layers k))%Q /\
    (forall i, In i (layers k) -> (a (slack_var M i) <= w_max I)%Q).
  Proof.
    intros He. pose proof (basic_in I e He) as HeG.
    assert (HR : Forall (sat_row a) (kmpe_edge_rows M e)).
    { apply (sat_rows_incl a _ _ (proj2 (proj2 (proj2 kmpe_rows_sat)))). intros r Hr. apply in_flat_map. exists e. split; assumption. }
    unfold kmpe_edge_rows in HR. cbv zeta in HR. rewrite Hg in HR. rewrite !Forall_app in HR. destruct HR as (HP & HGm & HE).
    assert (HS : (sumq (fun i => a (Pi (fst e) (snd e) i)) (layers k)
                  == sumq (fun i => a (W i) * inject_Z (xval a i e)) (layers k))%Q).
    { apply sumq_ext. intros i Hi. unfold pi_prod_rows in HP. fold k in HP. rewrite Forall_flat_map in HP. specialize (HP i Hi).
      apply (mcc_rows_exact a _ _ _ 0%Q (w_max I) (kmpe_edge_bin i e Hi HeG) (kmpe_w_bounds i Hi)) in HP.
      rewrite HP. destruct (xval_bin a i e (kmpe_edge_bin i e Hi HeG)) as [E _]. rewrite <- E. ring. }
    assert (HGF : forall i, In i (layers k) ->
              (a (Gamma (fst e) (snd e) i) == a (Edge (fst e) (snd e) i) * a (slack_var M i))%Q /\ (a (slack_var M i) <= w_max I)%Q).
    { intros i Hi. unfold gamma_prod_rows in HGm. cbv zeta in HGm. fold k in HGm. rewrite Forall_flat_map in HGm. specialize (HGm i Hi).
      apply (mcc_rows_force a _ _ _ (w_max I) (kmpe_edge_bin i e Hi HeG) (kmpe_sigma_nonneg i Hi) HGm). }
    assert (HSG : (sumq (fun i => a (Gamma (fst e) (snd e) i)) (layers k)
                   == sumq (fun i => a (slack_var M i) * inject_Z (xval a i e)) (layers k))%Q).
    { apply sumq_ext. intros i Hi. rewrite (proj1 (HGF i Hi)).
      destruct (xval_bin a i e (kmpe_edge_bin i e Hi HeG)) as [E _]. rewrite <- E. ring. }
    split; [|intros i Hi; apply (HGF i Hi)].
    inversion HE as [|? ? H1 HE']; subst. inversion HE' as [|? ? H2 _]; subst.
    unfold sat_row, mrow_9aa, mrow_9ab, mkrow, gamma_terms in H1, H2. cbn [sns lhs rhs] in H1, H2. cbv zeta in H1, H2. fold k in H1, H2.
    rewrite eval_app in H1, H2.
    rewrite (eval_map_const a (fun i => Pi (fst e) (snd e) i) (- scale_of I e)%Q) in H1, H2.
    rewrite (eval_map_const a (fun i => Gamma (fst e) (snd e) i) (- (1))%Q) in H1.
    rewrite (eval_map_const a (fun i => Gamma (fst e) (snd e) i) 1%Q) in H2.
    rewrite HS, HSG in H1, H2.
    apply Qabs_le_iff. split; lra.
  Qed.

  Lemma kmpe_objective_value : (objective a (encode_kmpe M) == sumq (fun i => a (Slack i)) (layers k))%Q.
  Proof.
    unfold objective, encode_kmpe. cbn [obj]. unfold kmpe_obj. fold k.
    rewrite (eval_map_const a Slack 1%Q). ring.
  Qed.
End KmpeSound.

Theorem kmpe_enc_sound (M : kmpe_inst) (a : var -> Q) (rank : node -> nat) (Rm : nat) :
  let I := m_err M in let G := eG I in let k := eK I in
  let E := g_edges G in let s := g_src G in let t := g_snk G in
  wf_graph G -> p_allow_empty (e_base I) = false -> e_given I = None ->
  (forall u v, In (u, v) E -> (rank u < rank v)%nat) -> (forall v, (rank v <= Rm)%nat) ->
  sat a (encode_kmpe M) ->
  (forall i, In i (layers k) ->
     exists p, decode E (xval a i) t (S Rm) s = Some p /\ last p s = t /\
               Permutation (Sup E (xval a i)) (pairs (s :: p)) /\
               (forall e, In e E -> EulerProofs4.count_e e (pairs (s :: p)) = Z.to_nat (xval a i e))) /\
  (forall i, In i (layers k) -> (0 <= a (W i) <= w_max I)%Q /\ (0 <= a (Slack i) <= w_max I)%Q /\
                                (0 <= a (slack_var M i))%Q) /\
  (forall e, In e (basic_edges I) ->
     (Qabs (scale_of I e * (flow_of I e - sumq (fun i => a (W i) * inject_Z (xval a i e)) (layers k)))
        <= sumq (fun i => a (slack_var M i) * inject_Z (xval a i e)) (layers k))%Q) /\
  (objective a (encode_kmpe M) == sumq (fun i => a (Slack i)) (layers k))%Q.
Proof.
  intros I G k E s t WF Hae Hg Hrank HR Hsat. subst I. split; [|split; [|split]].
  - intros i Hi.
    pose proof (kmpe_cols_sat M a Hsat Hg) as [Hc _]. pose proof (kmpe_rows_sat M a Hsat Hg) as [Hr _].
    rewrite Hae in Hr.
    destruct (layer_is_one_path G k a WF Hc Hr rank Rm i Hrank HR Hi) as (p & D & L & P).
    exists p. repeat split; try assumption.
    intros e He. etransitivity; [symmetry; apply (EulerProofs4.count_e_perm e _ _ P)|].
    etransitivity; [apply (count_Sup E (xval a i) e (wf_nodup_e G WF) He)|].
    destruct (xval_bin a i e (kmpe_edge_bin M a Hsat Hg i e Hi He)) as [_ [X|X]]; rewrite X; reflexivity.
  - intros i Hi. split; [apply (kmpe_w_bounds M a Hsat Hg i Hi)|].
    split; [apply (kmpe_slack_bounds M a Hsat Hg i Hi)|apply (kmpe_sigma_nonneg M a Hsat Hg i Hi)].
  - intros e He. apply (kmpe_error_covered M a Hsat Hg e He).
  - apply kmpe_objective_value.
Qed.
