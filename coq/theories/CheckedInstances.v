(* The encoder theorems restated with their graph premises replaced by the EXECUTABLE check premises_b, which the
   extracted driver evaluates on every instance of the E1 correspondence: "checker says true" + "LP equal to the model's"
   puts the instance inside the theorem. *)
From Coq Require Import List NArith ZArith QArith Bool Arith Lia Permutation.
Import ListNotations.
From FP Require Import Lin Blocks BlocksProofs PathEnc Euler EulerProofs1 EulerProofs4 DagDecode PathEncProofs PathEncComplete PathCoverComplete WfCheck.
Local Close Scope Q_scope.

Theorem kfd_sound_checked (I : kfd_inst) (a : var -> Q) (order : list node) :
  premises_b (p_graph (f_base I)) order = true -> p_allow_empty (f_base I) = false -> sat a (encode_kfd I) ->
  let G := p_graph (f_base I) in let k := p_k (f_base I) in
  let E := g_edges G in let s := g_src G in let t := g_snk G in
  (forall i, In i (layers k) ->
     exists p, decode E (xval a i) t (S (length order)) s = Some p /\ last p s = t /\
               Permutation (Sup E (xval a i)) (pairs (s :: p))) /\
  (forall i, In i (layers k) -> (0 <= a (W i) <= f_wmax I)%Q /\ (f_int I = true -> is_int (a (W i)))) /\
  (forall e, In e E -> mem_edge e (f_ignore I) = false ->
     (sumq (fun i => a (W i) * inject_Z (xval a i e)) (layers k) == lookup_q e (f_flow I) 0)%Q).
Proof.
  intros Hp Hae Hsat. destruct (premises_b_sound _ _ Hp) as [WF _].
  unfold premises_b in Hp. apply andb_true_iff in Hp. destruct Hp as [_ Ht]. destruct (topo_ok_b_sound _ _ Ht) as [Hrank HR].
  destruct (kfd_sound I a (fun v => index_of v order) (length order) WF Hae Hrank HR Hsat) as (A & B & C).
  split; [|split; [exact B|exact C]].
  intros i Hi. destruct (A i Hi) as (p & D & L & Pm & _). exists p. repeat split; assumption.
Qed.

Theorem kfd_feasible_iff_checked (I : kfd_inst) (order : list node) :
  premises_b (p_graph (f_base I)) order = true -> p_allow_empty (f_base I) = false ->
  (forall c e, In c (p_cons (f_base I)) -> In e c -> In e (g_edges (p_graph (f_base I))) /\ (0 <= elen (f_base I) e)%Q) ->
  ((exists a, sat a (encode_kfd I)) <-> (exists P w, decomposition I P w /\ constraints_covered (f_base I) P)).
Proof.
  intros Hp Hae Hc. destruct (premises_b_sound _ _ Hp) as [WF (rank & Rm & Hrank & HR)].
  exact (kfd_feasible_iff_cons I rank Rm WF Hae Hrank HR Hc).
Qed.

Theorem kpc_feasible_iff_checked (B : path_inst) (ignore : list PathEnc.edge) (order : list node) :
  premises_b (p_graph B) order = true -> p_allow_empty B = false ->
  (forall c e, In c (p_cons B) -> In e c -> In e (g_edges (p_graph B)) /\ (0 <= elen B e)%Q) ->
  ((exists a, sat a (encode_kpc B ignore)) <-> (exists P, path_cover B ignore P /\ constraints_covered B P)).
Proof.
  intros Hp Hae Hc. destruct (premises_b_sound _ _ Hp) as [WF (rank & Rm & Hrank & HR)].
  exact (kpc_feasible_iff B ignore rank Rm WF Hae Hrank HR Hc).
Qed.

(* the side condition on constraints, executable as well *)
Definition cons_ok_b (B : path_inst) : bool :=
  forallb (fun c => forallb (fun e => mem_edge e (g_edges (p_graph B)) && Qle_bool 0 (elen B e)) c) (p_cons B).
Lemma cons_ok_b_sound B : cons_ok_b B = true ->
  forall c e, In c (p_cons B) -> In e c -> In e (g_edges (p_graph B)) /\ (0 <= elen B e)%Q.
Proof.
  unfold cons_ok_b. rewrite forallb_forall. intros H c e Hc He. specialize (H c Hc). rewrite forallb_forall in H.
  specialize (H e He). apply andb_true_iff in H. destruct H as [H1 H2]. split; [apply mem_edge_In'; exact H1|apply Qle_bool_iff; exact H2].
Qed.

(* non-vacuity: the checker accepts the diamond of PathEncExample.v *)
From FP Require Import PathEncExample.
Example premises_b_accepts_example : premises_b exG [0; 1; 2; 3]%N = true /\ cons_ok_b (exB 2) = true.
Proof. split; vm_compute; reflexivity. Qed.
