(* "Feasible for k >= width" for the cyclic error models, composed from the walk-width theorem with bounded repetition
   (WalkWidthCaps.bounded_walk_cover: X can be covered by walk-width many s-t walks that pass no edge more than |X| + 2
   times) and the completeness theorems within the caps (WalkErrOptimal.kmpec_complete / klaec_complete).
   The caps of the error encoders are NOT |E|*|V| as in the cover model but derived from the weights (largest weight
   reachable from / reaching the edge; bit vector and product bound from w_max = k * max weight): the theorems state the
   side conditions under which the bounded-repetition cover fits as explicit hypotheses on the instance, and the 2-cycle
   with a tail with unit weights shows that they cannot be dropped (k = 1 = walk width, LP infeasible). *)
From Coq Require Import List NArith ZArith QArith Qabs Qround Lqa Bool Arith Lia Permutation.
Import ListNotations.
From FP Require Import Lin Blocks BlocksProofs PathEnc PathEncProofs Euler EulerProofs1 EulerProofs4 PathEncComplete
                       WalkEnc WalkDecode WalkEncRows WalkEncRowsProofs WalkTree WalkEncComplete WalkCoverIff WalkEncIff
                       Dilworth WalkWidth WalkWidthCaps
                       WalkErrEnc WalkErrEncProofs WalkErrComplete WalkErrOptimal.
Set Default Timeout 120.
Local Close Scope Q_scope.

(* the value w_max / k : largest non-ignored weight (truncated for the integer type) *)
Definition x_mslack (I : werr_inst) : Q := if x_int I then qtrunc (x_max_flow I) else x_max_flow I.
Lemma x_wmax_eq I : x_wmax I = (qnat (x_k I) * x_mslack I)%Q. Proof. reflexivity. Qed.

Lemma x_max_flow_nonneg I : (0 <= x_max_flow I)%Q.
Proof. unfold x_max_flow. apply (proj1 (list_max_ge (map (xflow I) (x_basic I)) 0%Q)). Qed.
Lemma x_flow_le_max I e : In e (x_basic I) -> (xflow I e <= x_max_flow I)%Q.
Proof. intros He. unfold x_max_flow. apply (proj2 (list_max_ge (map (xflow I) (x_basic I)) 0%Q)). apply in_map. exact He. Qed.

Lemma qtrunc_nonneg q : (0 <= q)%Q -> (0 <= qtrunc q)%Q.
Proof.
  intros H. rewrite qtrunc_floor. change 0%Q with (inject_Z 0). rewrite <- Zle_Qle.
  change 0%Z with (Qfloor (inject_Z 0)). apply Qfloor_resp_le. exact H.
Qed.
Lemma qtrunc_int_le z q : (inject_Z z <= q)%Q -> (inject_Z z <= qtrunc q)%Q.
Proof. intros H. rewrite qtrunc_floor, <- Zle_Qle. rewrite <- (Qfloor_Z z). apply Qfloor_resp_le. exact H. Qed.

Lemma x_mslack_nonneg I : (0 <= x_mslack I)%Q.
Proof. unfold x_mslack. destruct (x_int I); [apply qtrunc_nonneg|]; apply x_max_flow_nonneg. Qed.
Lemma x_mslack_int I : x_int I = true -> is_int (x_mslack I).
Proof. intros H. unfold x_mslack. rewrite H. unfold qtrunc. eexists. reflexivity. Qed.
Lemma x_flow_le_mslack I e : In e (x_basic I) -> (x_int I = true -> is_int (xflow I e)) -> (xflow I e <= x_mslack I)%Q.
Proof.
  intros He Hi. pose proof (x_flow_le_max I e He) as H. unfold x_mslack. destruct (x_int I); [|exact H].
  destruct (Hi eq_refl) as [z Hz]. rewrite Hz. apply qtrunc_int_le. rewrite <- Hz. exact H.
Qed.
Lemma x_mslack_le_wmax I : (1 <= x_k I)%nat -> (x_mslack I <= x_wmax I)%Q.
Proof.
  intros Hk. rewrite x_wmax_eq. pose proof (x_mslack_nonneg I) as H0.
  assert (H1 : (1 <= qnat (x_k I))%Q) by (unfold qnat; change 1%Q with (inject_Z 1); rewrite <- Zle_Qle; lia).
  assert (H2 : (0 <= (qnat (x_k I) - 1) * x_mslack I)%Q) by (apply Qmult_le_0_compat; lra). lra.
Qed.
Lemma x_wmax_nonneg I : (0 <= x_wmax I)%Q.
Proof.
  rewrite x_wmax_eq. apply Qmult_le_0_compat; [|apply x_mslack_nonneg].
  unfold qnat. change 0%Q with (inject_Z 0). rewrite <- Zle_Qle. lia.
Qed.

(* a multiplicity bound that fits under w_max fits the bit vector of the product helper *)
Lemma fits_bits (I : werr_inst) (B : nat) : (qnat B <= x_wmax I)%Q -> (Z.of_nat B < 2 ^ Z.of_nat (num_bits (x_wmax I)))%Z.
Proof.
  intros H. destruct (num_bits_spec (x_wmax I) (x_wmax_nonneg I)) as [S _]. unfold pow2 in S.
  assert (L : (inject_Z (Z.of_nat B + 1) <= inject_Z (2 ^ Z.of_nat (num_bits (x_wmax I))))%Q).
  { rewrite inject_Z_plus. unfold qnat in H. change (inject_Z 1) with 1%Q. lra. }
  rewrite <- Zle_Qle in L. lia.
Qed.

Lemma lookup_q_map_in (f : PathEnc.edge -> Q) e d : forall l, In e l -> lookup_q e (map (fun e0 => (e0, f e0)) l) d = f e.
Proof.
  induction l as [|x l IH]; intros H; [destruct H|]. cbn [map lookup_q]. destruct (edge_eqb x e) eqn:Q.
  - apply edge_eqb_eq in Q. subst x. reflexivity.
  - destruct H as [->|H]; [rewrite (proj2 (edge_eqb_eq e e) eq_refl) in Q; discriminate|apply IH; exact H].
Qed.
Lemma werr_cap (I : werr_inst) e : In e (g_edges (x_graph I)) ->
  cap (werr_walk I) e = if is_scc_edge (x_graph I) e then reach_max I e else 1%Q.
Proof.
  intros He. unfold cap. cbn [werr_walk w_graph w_rep w_rep_default]. destruct (is_scc_edge (x_graph I) e); [|reflexivity].
  apply lookup_q_map_in. exact He.
Qed.

(* no subset constraints, safety lists or fixing: the corresponding parts of the walk model are empty *)
Section NoSide.
  Variable I : werr_inst.
  Hypothesis Hcons : x_cons I = [].
  Hypothesis Hsafe : x_safe_lists I = [].
  Hypothesis Hfix : x_fix I = [].
  Lemma ns_all_cons : all_cons (werr_walk I) = [].
  Proof.
    unfold all_cons. cbn [werr_walk w_cons w_opts w_safe_lists w_fix]. rewrite Hcons, Hsafe, Hfix.
    destruct (o_safe_cons (x_opts I)), (o_anti_cons (x_opts I)); reflexivity.
  Qed.
  Lemma ns_fix_layers : fix_layers (werr_walk I) = [].
  Proof.
    unfold fix_layers. cbn [werr_walk w_opts w_k w_fix]. rewrite Hfix. cbn [zipn]. rewrite firstn_nil.
    destruct (o_safe_cons (x_opts I)); reflexivity.
  Qed.
  Lemma ns_fixing (P : N -> list node) : wrespects_fixing (werr_walk I) P.
  Proof.
    split.
    - intros e i Hin. unfold zero_set in Hin. rewrite ns_fix_layers in Hin. destruct (o_zero _); destruct Hin.
    - intros e i m Hin. unfold fix_items in Hin. rewrite ns_fix_layers in Hin. destruct (fixing_active _); destruct Hin.
  Qed.
  Lemma ns_constraints (P : N -> list node) : wrealises_constraints (werr_walk I) P.
  Proof. intros j c Hj. rewrite ns_all_cons in Hj. destruct j; discriminate Hj. Qed.
End NoSide.

(* ------------------------------------------------------------------ a family of walks with bounded repetition fits the caps *)
Section FromFamily.
  Variable I : werr_inst.
  Let G := x_graph I.
  Let E := g_edges G.
  Variable P : N -> list node.
  Variable B : nat.
  Hypothesis WFS : wf_stg G.
  Hypothesis Hcons : x_cons I = [].
  Hypothesis Hsafe : x_safe_lists I = [].
  Hypothesis Hfix : x_fix I = [].
  Hypothesis HP : wwalks (werr_walk I) P.
  Hypothesis HB : forall i e, In i (layers (x_k I)) -> (count_e e (pairs (P i)) <= B)%nat.
  (* THE side conditions: the repetition cap of every edge inside a strongly connected component, the bit vector and w_max
     admit B repetitions *)
  Hypothesis Hrep : forall e, In e E -> is_scc_edge G e = true -> (qnat B <= reach_max I e)%Q.
  Hypothesis Hbits : (qnat B <= x_wmax I)%Q.

  Lemma fam_family : werr_family I P.
  Proof.
    split; [exact HP|]. split; [|split; [apply (ns_fixing I Hfix)|apply (ns_constraints I Hcons Hsafe Hfix)]].
    intros i e Hi He. cbn [werr_walk w_graph w_k] in Hi, He. rewrite (werr_cap I e He). fold G.
    pose proof (HB i e Hi) as Hb. unfold mult, multz. set (c := count_e e (pairs (P i))) in *.
    destruct (is_scc_edge G e) eqn:Scc.
    - apply (Qle_trans _ (qnat B)); [|apply (Hrep e He Scc)]. unfold qnat. rewrite <- Zle_Qle. lia.
    - change 1%Q with (inject_Z 1). rewrite <- Zle_Qle. change 1%Z with (Z.of_nat 1). apply Nat2Z.inj_le.
      destruct (Nat.le_gt_cases c 1) as [H|H]; [exact H|exfalso].
      destruct (HP i Hi) as (_ & _ & Hw). cbn [werr_walk w_graph] in Hw.
      pose proof (twice_closes E e _ Hw H) as Hc. rewrite (scc_edge_complete G e WFS He Hc) in Scc. discriminate.
  Qed.
  Lemma fam_bits : werr_bits_cap I P.
  Proof.
    intros i e Hi He _. pose proof (HB i e Hi) as Hb. pose proof (fits_bits I B Hbits). unfold mult, multz. lia.
  Qed.
  Lemma fam_mult_le i e : In i (layers (x_k I)) -> (0 <= inject_Z (mult P i e) <= qnat B)%Q.
  Proof.
    intros Hi. pose proof (HB i e Hi) as Hb. unfold mult, multz, qnat. split; [change 0%Q with (inject_Z 0)|]; rewrite <- Zle_Qle; lia.
  Qed.
  Lemma fam_prod_zero : werr_prod_cap I P (fun _ => 0%Q).
  Proof. intros i e Hi He. pose proof (x_wmax_nonneg I). lra. Qed.
  Lemma fam_typed_zero : werr_typed I (fun _ => 0%Q).
  Proof. intros i Hi. pose proof (x_wmax_nonneg I). split; [lra|intros _; exists 0%Z; reflexivity]. Qed.
  Lemma fam_expl_zero e : (xexpl I P (fun _ => 0%Q) e == 0)%Q.
  Proof. unfold xexpl. generalize (layers (x_k I)). intros l. induction l as [|i l IH]; cbn [sumq]; [reflexivity|rewrite IH; ring]. Qed.

  (* documented domain of the weights and scalings *)
  Hypothesis Hdom : forall e, In e (x_basic I) ->
    (0 <= xscale I e <= 1)%Q /\ (0 <= xflow I e)%Q /\ (x_int I = true -> is_int (xflow I e)).
  Hypothesis Hk : (1 <= x_k I)%nat.

  (* kLeastAbsErrorsCycles: weights 0, errors = f *)
  Theorem klaec_feasible_from_family : exists a, sat a (encode_klae_cycles I) /\
    (objective a (encode_klae_cycles I) == sumq (fun e => xscale I e * xflow I e) (x_basic I))%Q.
  Proof.
    assert (Hadm : klaec_admissible I P (fun _ => 0%Q)).
    { split; [exact fam_family|]. split; [exact fam_typed_zero|]. split; [exact fam_bits|]. split; [exact fam_prod_zero|].
      intros e He. unfold klaec_dev. rewrite fam_expl_zero. destruct (Hdom e He) as (_ & F0 & Fi).
      assert (E0 : (xflow I e - 0 == xflow I e)%Q) by ring. rewrite E0, Qabs_pos by exact F0.
      apply (Qle_trans _ (x_mslack I)); [apply (x_flow_le_mslack I e He Fi)|apply (x_mslack_le_wmax I Hk)]. }
    assert (Hd : werr_domain I).
    { split.
      - split.
        + intros c e Hc. rewrite (ns_all_cons I Hcons Hsafe Hfix) in Hc. destruct Hc.
        + intros w e Hw. cbn [werr_walk w_fix] in Hw. rewrite Hfix in Hw. destruct Hw.
      - intros e He. destruct (Hdom e He) as ((S0 & _) & _ & Fi). split; assumption. }
    destruct (klaec_complete I P _ WFS Hd Hadm) as (a & Sa & Oa & _). exists a. split; [exact Sa|].
    rewrite Oa. unfold klaec_cost. apply sumq_ext. intros e He. unfold klaec_dev. rewrite fam_expl_zero.
    destruct (Hdom e He) as (_ & F0 & _). assert (E0 : (xflow I e - 0 == xflow I e)%Q) by ring. rewrite E0, Qabs_pos by exact F0. reflexivity.
  Qed.

  (* kMinPathErrorCycles: weights 0, every walk gets the slack w_max / k; needs every non-ignored edge on some walk and the
     product bound *)
  Hypothesis Hcover : forall e, In e (x_basic I) -> exists i, In i (layers (x_k I)) /\ (1 <= count_e e (pairs (P i)))%nat.
  Hypothesis Hprod : (x_mslack I * qnat B <= x_wmax I)%Q.

  Theorem kmpec_feasible_from_family : exists a, sat a (encode_kmpe_cycles I) /\
    (objective a (encode_kmpe_cycles I) == x_wmax I)%Q.
  Proof.
    pose proof (x_mslack_nonneg I) as M0.
    assert (Hadm : kmpec_admissible I P (fun _ => 0%Q) (fun _ => x_mslack I)).
    { split; [exact fam_family|]. split; [exact fam_typed_zero|]. split; [|split; [exact fam_bits|split; [exact fam_prod_zero|split]]].
      - intros i Hi. split; [split; [exact M0|apply (x_mslack_le_wmax I Hk)]|apply x_mslack_int].
      - intros i e Hi He. destruct (fam_mult_le i e Hi) as [m0 m1].
        assert (H2 : (0 <= x_mslack I * (qnat B - inject_Z (mult P i e)))%Q) by (apply Qmult_le_0_compat; lra). lra.
      - intros e He. rewrite fam_expl_zero. destruct (Hdom e He) as ((S0 & S1) & F0 & Fi).
        assert (E0 : (xscale I e * (xflow I e - 0) == xscale I e * xflow I e)%Q) by ring.
        rewrite E0, Qabs_pos by (apply Qmult_le_0_compat; assumption).
        pose proof (x_flow_le_mslack I e He Fi) as FM.
        assert (H1 : (xscale I e * xflow I e <= x_mslack I)%Q).
        { assert (H2 : (0 <= (1 - xscale I e) * xflow I e)%Q) by (apply Qmult_le_0_compat; lra). lra. }
        apply (Qle_trans _ _ _ H1).
        destruct (Hcover e He) as (i0 & Hi0 & Hc0). unfold xexpl.
        assert (Hterm : forall i, In i (layers (x_k I)) -> (0 <= x_mslack I * inject_Z (mult P i e))%Q).
        { intros i Hi. destruct (fam_mult_le i e Hi). apply Qmult_le_0_compat; assumption. }
        assert (H3 : (x_mslack I * inject_Z (mult P i0 e) <= sumq (fun i => x_mslack I * inject_Z (mult P i e)) (layers (x_k I)))%Q).
        { revert Hi0 Hterm. generalize (layers (x_k I)). induction l as [|j l IH]; intros Hi0 Hterm; [destruct Hi0|]. cbn [sumq].
          assert (Hs : (0 <= sumq (fun i => x_mslack I * inject_Z (mult P i e)) l)%Q).
          { clear IH Hi0. induction l as [|j' l IH']; cbn [sumq]; [lra|].
            pose proof (Hterm j' (or_intror (or_introl eq_refl))).
            assert (0 <= sumq (fun i => x_mslack I * inject_Z (mult P i e)) l)%Q by (apply IH'; intros x [Hx|Hx]; apply Hterm; [left|right; right]; assumption). lra. }
          destruct Hi0 as [->|Hi0]; [lra|]. pose proof (Hterm j (or_introl eq_refl)).
          assert (x_mslack I * inject_Z (mult P i0 e) <= sumq (fun i => x_mslack I * inject_Z (mult P i e)) l)%Q
            by (apply IH; [exact Hi0|intros x Hx; apply Hterm; right; exact Hx]). lra. }
        apply (Qle_trans _ (x_mslack I * inject_Z (mult P i0 e))); [|exact H3].
        assert (H4 : (1 <= inject_Z (mult P i0 e))%Q) by (unfold mult, multz; change 1%Q with (inject_Z 1); rewrite <- Zle_Qle; lia).
        assert (H5 : (0 <= x_mslack I * (inject_Z (mult P i0 e) - 1))%Q) by (apply Qmult_le_0_compat; lra). lra. }
    destruct (kmpec_complete I P _ _ WFS Hadm) as (a & Sa & Oa & _). exists a. split; [exact Sa|].
    rewrite Oa, x_wmax_eq.
    assert (E1 : forall l0 : list N, (sumq (fun _ : N => x_mslack I) l0 == qnat (length l0) * x_mslack I)%Q).
    { induction l0 as [|x l0 IH]; cbn [sumq length]; [unfold qnat; cbn; ring|]. rewrite IH. unfold qnat. rewrite Nat2Z.inj_succ, <- Z.add_1_r, inject_Z_plus. ring. }
    rewrite E1. unfold layers. rewrite map_length, seq_length. reflexivity.
  Qed.
End FromFamily.

(* ------------------------------------------------------------------ from the walk width *)
Section FromWidth.
  Variable I : werr_inst.
  Let G := x_graph I.
  Let E := g_edges G.
  Let s := g_src G.
  Let t := g_snk G.
  Hypothesis WFS : wf_stg G.
  (* every edge lies on a source-to-sink walk *)
  Hypothesis Hst : forall u v, In (u, v) E -> conn E s u /\ conn E v t.
  Hypothesis Hcons : x_cons I = [].
  Hypothesis Hsafe : x_safe_lists I = [].
  Hypothesis Hfix : x_fix I = [].
  Hypothesis Hdom : forall e, In e (x_basic I) ->
    (0 <= xscale I e <= 1)%Q /\ (0 <= xflow I e)%Q /\ (x_int I = true -> is_int (xflow I e)).

  (* kMinPathErrorCycles is feasible for every k >= walk width of the non-ignored edges -- PROVIDED the caps derived from the
     weights admit |X| + 2 repetitions (X = the non-ignored edges) *)
  Definition caps_admit (B : nat) : Prop :=
    (forall e, In e E -> is_scc_edge G e = true -> (qnat B <= reach_max I e)%Q) /\
    (qnat B <= x_wmax I)%Q /\ (x_mslack I * qnat B <= x_wmax I)%Q.

  Theorem kmpec_feasible_from_walk_width :
    x_basic I <> [] -> caps_admit (length (x_basic I) + 2) ->
    exists A' : list PathEnc.edge,
      NoDup A' /\ incl A' (x_basic I) /\ walk_incompatible E A' /\
      (forall A2, NoDup A2 -> incl A2 (x_basic I) -> walk_incompatible E A2 -> (length A2 <= length A')%nat) /\
      ((length A' <= x_k I)%nat -> exists a, sat a (encode_kmpe_cycles I) /\ (objective a (encode_kmpe_cycles I) == x_wmax I)%Q).
  Proof.
    intros Hne (Hrep & Hbits & Hprod). pose proof (wfs_graph G WFS) as WF.
    assert (NDX : NoDup (x_basic I)) by (apply NoDup_filter; exact (wf_nodup_e G WF)).
    assert (HX : incl (x_basic I) E) by (intros e He; apply (x_basic_in_E I e He)).
    destruct (bounded_walk_cover E s t Hst (x_basic I) NDX HX) as (W & A' & HW & Hcov & NDA & HA & Hinc & Hlen & Hbound).
    exists A'. split; [exact NDA|]. split; [exact HA|]. split; [exact Hinc|]. split.
    - intros A2 ND2 HA2 Hinc2. rewrite Hlen. apply (walk_cover_needs_width_many_walks E W A2 ND2 Hinc2).
      + intros l Hl. apply (HW l Hl).
      + intros e He. apply Hcov. apply HA2. exact He.
    - intros Hk.
      assert (HWne : W <> []).
      { intros EW. destruct (x_basic I) as [|e0 r] eqn:EX; [apply Hne; reflexivity|].
        destruct (Hcov e0 (or_introl eq_refl)) as (l & Hl & _). rewrite EW in Hl. destruct Hl. }
      set (P := fun i : N => nth (N.to_nat i) W (hd [] W)).
      assert (HPin : forall i, In (P i) W).
      { intros i. unfold P. destruct (Nat.lt_ge_cases (N.to_nat i) (length W)) as [L|L]; [apply nth_In; exact L|].
        rewrite nth_overflow by exact L. destruct W; [contradiction|left; reflexivity]. }
      assert (Hk1 : (1 <= x_k I)%nat).
      { destruct W; [contradiction|]. cbn [length] in Hlen. lia. }
      apply (kmpec_feasible_from_family I P (length (x_basic I) + 2) WFS Hcons Hsafe Hfix).
      + intros i Hi. cbn [werr_walk w_graph w_k]. apply (HW _ (HPin i)).
      + intros i e Hi. apply (Hbound _ e (HPin i)).
      + exact Hrep.
      + exact Hbits.
      + exact Hdom.
      + exact Hk1.
      + intros e He. destruct (Hcov e He) as (l & Hl & Hel). destruct (In_nth _ _ (hd [] W) Hl) as (n & Hn & En).
        exists (N.of_nat n). split; [apply in_layers; exists n; split; [lia|reflexivity]|].
        unfold P. rewrite Nat2N.id, En. apply count_e_in. exact Hel.
      + exact Hprod.
  Qed.

  (* kLeastAbsErrorsCycles is feasible for every k >= 1 whenever a source-to-sink walk exists -- PROVIDED the caps admit one
     traversal (largest reachable weight >= 1 on the edges inside strongly connected components, w_max >= 1) *)
  Theorem klaec_end_to_end_feasible :
    conn E s t -> (1 <= x_k I)%nat ->
    (forall e, In e E -> is_scc_edge G e = true -> (1 <= reach_max I e)%Q) -> (1 <= x_wmax I)%Q ->
    exists a, sat a (encode_klae_cycles I) /\
              (objective a (encode_klae_cycles I) == sumq (fun e => xscale I e * xflow I e) (x_basic I))%Q.
  Proof.
    intros (m & Hm & Lm) Hk Hrep Hw.
    destruct (simple_conn E m s Hm) as (m' & ND & Hw' & L').
    apply (klaec_feasible_from_family I (fun _ => s :: m') 1 WFS Hcons Hsafe Hfix).
    - intros i Hi. cbn [werr_walk w_graph]. split; [reflexivity|]. split; [|exact Hw']. fold G. fold s. fold t.
      rewrite L'. exact Lm.
    - intros i e Hi. apply count_pairs_nodup. exact ND.
    - intros e He Scc. exact (Hrep e He Scc).
    - exact Hw.
    - exact Hdom.
    - exact Hk.
  Qed.
End FromWidth.
