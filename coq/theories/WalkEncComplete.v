(* Completeness of the walk encoding (C04 / C09 on digraphs with cycles): every family of k source-to-sink walks with
   weights of the requested type that explains the non-ignored flow and whose edge multiplicities, weights and products
   RESPECT THE CAPS OF THE MODEL extends to a satisfying assignment of WalkEncRows.encode_kfdc.  The auxiliary variables
   are constructed: Sel / Dist from the first-visit spanning tree of the walk (WalkTree.v), Bit / Comp from the binary
   expansion of the multiplicity.  Beyond the caps completeness is false (WalkExamples.kfdc_exact_refuted, finding
   rep_cap_from_own_flow).
   Scope: all option vectors.  Subset constraints (incl. the safe sequences appended by the constraint variants) must be
   realised by the walks; the safety fixing (zero rows, >= m / = 1 rows or queued bounds, Pi shortcuts) must be respected
   by them (that a minimum decomposition exists that does so is the subject of C05); given weights must be the weights. *)
From Coq Require Import List NArith ZArith QArith Qround Lqa Bool Arith Lia Permutation.
Import ListNotations.
From FP Require Import Lin Blocks BlocksProofs PathEnc PathEncProofs Euler EulerProofs1 EulerProofs4
                       WalkEnc WalkDecode WalkEncRows WalkEncRowsProofs WalkTree.
Set Default Timeout 90.
Local Close Scope Q_scope.
Local Open Scope nat_scope.

Definition indq (b : bool) : Q := if b then 1%Q else 0%Q.
Lemma indq_bin b : bin (indq b). Proof. destruct b; [right|left]; reflexivity. Qed.
Lemma indq_nonneg b : (0 <= indq b)%Q. Proof. destruct b; cbn; lra. Qed.

Lemma wsumq_nonneg {A} (g : A -> Q) l : (forall x, In x l -> (0 <= g x)%Q) -> (0 <= sumq g l)%Q.
Proof.
  induction l as [|x l IH]; intros H; cbn [sumq]; [lra|]. pose proof (H x (or_introl eq_refl)).
  assert (0 <= sumq g l)%Q by (apply IH; intros y Hy; apply H; right; exact Hy). lra.
Qed.
Lemma wsumq_le {A} (g h : A -> Q) l : (forall x, In x l -> (g x <= h x)%Q) -> (sumq g l <= sumq h l)%Q.
Proof.
  induction l as [|x l IH]; intros H; cbn [sumq]; [lra|]. pose proof (H x (or_introl eq_refl)).
  assert (sumq g l <= sumq h l)%Q by (apply IH; intros y Hy; apply H; right; exact Hy). lra.
Qed.
Lemma wsumq_ge_term {A} (g : A -> Q) l x : (forall y, In y l -> (0 <= g y)%Q) -> In x l -> (g x <= sumq g l)%Q.
Proof.
  induction l as [|y l IH]; intros H Hin; [destruct Hin|]. cbn [sumq]. destruct Hin as [->|Hin].
  - assert (0 <= sumq g l)%Q by (apply wsumq_nonneg; intros z Hz; apply H; right; exact Hz). lra.
  - pose proof (H y (or_introl eq_refl)). assert (g x <= sumq g l)%Q by (apply IH; [intros z Hz; apply H; right; exact Hz|exact Hin]). lra.
Qed.
Lemma wsumq_zero {A} (g : A -> Q) l : (forall x, In x l -> (g x == 0)%Q) -> (sumq g l == 0)%Q.
Proof.
  induction l as [|x l IH]; intros H; cbn [sumq]; [reflexivity|]. rewrite (H x (or_introl eq_refl)), IH; [lra|].
  intros y Hy. apply H. right. exact Hy.
Qed.

(* at most one element of a duplicate-free list satisfies f  =>  the indicators sum to at most 1 *)
Lemma sum_indq_le1 {A} (f : A -> bool) (l : list A) : NoDup l ->
  (forall x y, In x l -> In y l -> f x = true -> f y = true -> x = y) -> (sumq (fun x => indq (f x)) l <= 1)%Q.
Proof.
  induction 1 as [|x l Hx ND IH]; intros U; cbn [sumq]; [lra|].
  destruct (f x) eqn:Fx; cbn [indq].
  - assert (Z : (sumq (fun y => indq (f y)) l == 0)%Q).
    { apply wsumq_zero. intros y Hy. destruct (f y) eqn:Fy; [|reflexivity]. exfalso. apply Hx.
      rewrite (U x y (or_introl eq_refl) (or_intror Hy) Fx Fy). exact Hy. }
    rewrite Z. lra.
  - assert (sumq (fun y => indq (f y)) l <= 1)%Q; [|lra]. apply IH. intros a b Ha Hb. apply U; right; assumption.
Qed.

Lemma is_int_inject z : is_int (inject_Z z). Proof. exists z. reflexivity. Qed.
Lemma is_int_mult p q : is_int p -> is_int q -> is_int (p * q)%Q.
Proof. intros [a Ha] [b Hb]. exists (a * b)%Z. rewrite Ha, Hb, inject_Z_mult. reflexivity. Qed.
Lemma inj_nat_le a b : (a <= b)%nat -> (inject_Z (Z.of_nat a) <= inject_Z (Z.of_nat b))%Q.
Proof. intros H. rewrite <- Zle_Qle. lia. Qed.

Lemma walk_nodes (s : node) (r : list node) v : In v (s :: r) -> v = s \/ exists u, In (u, v) (pairs (s :: r)).
Proof.
  revert s. induction r as [|b r IH]; intros s Hin.
  - destruct Hin as [->|[]]. left. reflexivity.
  - destruct Hin as [->|Hin]; [left; reflexivity|]. right. rewrite pairs_cons2.
    destruct (IH b Hin) as [->|(u & Hu)]; [exists s; left; reflexivity|exists u; right; exact Hu].
Qed.

Lemma Mv_sum (WI : walk_inst) v : wf_graph (w_graph WI) ->
  (Mv WI v == sumq (cap WI) (WalkEnc.ins (g_edges (w_graph WI)) v))%Q.
Proof.
  intros WF. unfold Mv.
  assert (E1 : forall l, (fold_right (fun u s => (cap WI (u, v) + s)%Q) 0%Q l == sumq (fun u => cap WI (u, v)) l)%Q).
  { induction l as [|u l IH]; cbn [fold_right sumq]; [reflexivity|]. rewrite IH. reflexivity. }
  rewrite E1, (sumq_perm _ _ _ (wf_pred _ WF v)), sumq_map. unfold WalkEnc.ins. apply sumq_ext.
  intros e He. apply filter_In in He. destruct He as [_ He]. apply N.eqb_eq in He. destruct e as [a b]. cbn [fst snd] in *. subst b. reflexivity.
Qed.

Section WalkPart.
  Variable WI : walk_inst.
  Let G := w_graph WI.
  Let k := w_k WI.
  Let E := g_edges G.
  Let s := g_src G.
  Let t := g_snk G.
  Variable P : N -> list node.          (* the full walk of layer i: s ... t *)
  Variable ch : N -> N.                  (* the layer chosen to realise subset constraint j *)
  Variable asg : var -> Q.               (* any assignment whose walk variables are the ones constructed from P *)
  Hypothesis WFS : wf_stg G.

  Definition mult (i : N) (e : PathEnc.edge) : Z := multz (pairs (P i)) e.
  Definition usedq (i : N) (e : PathEnc.edge) : Q := indq (0 <? mult i e)%Z.

  Hypothesis HP : forall i, In i (layers k) -> hd_error (P i) = Some s /\ last (P i) s = t /\ incl (pairs (P i)) E.
  (* the repetition caps of the model *)
  Hypothesis Hcap : forall i e, In i (layers k) -> In e E -> (inject_Z (mult i e) <= cap WI e)%Q.
  (* the walks respect the safety fixing of the instance *)
  Hypothesis Hzero : forall e i, In (e, i) (zero_set WI) -> mult i e = 0%Z.
  Hypothesis Hfixed : forall e i m, In (e, i, m) (fix_items WI) ->
      (is_scc_edge G e = true -> o_geq (w_opts WI) = true -> (Z.of_nat m <= mult i e)%Z) /\
      (is_scc_edge G e = false -> mult i e = 1%Z).
  (* they realise the subset constraints: constraint j by the walk of layer ch j *)
  Hypothesis Hcov : forall j c, nth_error (all_cons WI) j = Some c ->
      In (ch (N.of_nat j)) (layers k) /\
      (qnat (length (nodup_e c)) * w_cov WI <= sumq (usedq (ch (N.of_nat j))) (nodup_e c))%Q.
  (* the walk variables of the assignment *)
  Hypothesis asg_edge' : forall u v i, asg (Edge u v i) = inject_Z (mult i (u, v)).
  Hypothesis asg_sel' : forall u v i, asg (Sel u v i) = indq (selb (rev (P i)) (u, v)).
  Hypothesis asg_dist : forall v i, asg (Dist v i) = inject_Z (Z.of_nat (rankf (rev (P i)) v)).
  Hypothesis asg_used' : forall u v i, asg (Used u v i) = usedq i (u, v).
  Hypothesis asg_r : forall i j, asg (R i j) = indq (i =? ch j)%N.

  Let WF : wf_graph G := wfs_graph G WFS.

  Lemma asg_edge e i : asg (evar e i) = inject_Z (mult i e). Proof. destruct e; apply asg_edge'. Qed.
  Lemma asg_sel e i : asg (svar e i) = indq (selb (rev (P i)) e). Proof. destruct e; apply asg_sel'. Qed.
  Lemma asg_used e i : asg (uvar e i) = usedq i e. Proof. destruct e; apply asg_used'. Qed.

  (* ---- facts about the walks ---- *)
  Lemma mult_nonneg i e : (0 <= mult i e)%Z. Proof. unfold mult, multz. lia. Qed.

  Lemma P_shape i : In i (layers k) -> exists r, P i = s :: r /\ last r s = t.
  Proof.
    intros Hi. destruct (HP i Hi) as (Hh & Hl & _). destruct (P i) as [|a r]; [discriminate|]. cbn in Hh. injection Hh as ->.
    exists r. split; [reflexivity|]. rewrite <- Hl. symmetry. apply last_cons_default.
  Qed.

  Lemma P_nodes i v : In i (layers k) -> In v (P i) -> In v (g_nodes G).
  Proof.
    intros Hi Hv. destruct (P_shape i Hi) as (r & Er & _). destruct (HP i Hi) as (_ & _ & Hin). rewrite Er in Hv, Hin.
    destruct (walk_nodes s r v Hv) as [->|(u & Hu)]; [apply (wfs_src_in G WFS)|].
    apply (wf_ends G WF (u, v) (Hin _ Hu)).
  Qed.

  Lemma sum_ins i v : In i (layers k) -> WalkEnc.sumf (mult i) (WalkEnc.ins E v) = Z.of_nat (ind (pairs (P i)) v).
  Proof. intros Hi. destruct (HP i Hi) as (_ & _ & Hin). apply (sum_mult_filter E _ _ (wf_nodup_e G WF) Hin). Qed.
  Lemma sum_outs i v : In i (layers k) -> WalkEnc.sumf (mult i) (WalkEnc.outs E v) = Z.of_nat (outd (pairs (P i)) v).
  Proof. intros Hi. destruct (HP i Hi) as (_ & _ & Hin). apply (sum_mult_filter E _ _ (wf_nodup_e G WF) Hin). Qed.

  Lemma edge_sum_q i l : (sumq (fun e => asg (Edge (fst e) (snd e) i)) l == inject_Z (WalkEnc.sumf (mult i) l))%Q.
  Proof. apply sumq_inj. intros e _. destruct e. cbn [fst snd]. rewrite asg_edge'. reflexivity. Qed.

  Lemma pairs_no_in_s i e : In i (layers k) -> In e (pairs (P i)) -> snd e <> s.
  Proof. intros Hi He. destruct (HP i Hi) as (_ & _ & Hin). apply (wf_src G WF e (Hin e He)). Qed.
  Lemma pairs_no_out_t i e : In i (layers k) -> In e (pairs (P i)) -> fst e <> t.
  Proof. intros Hi He. destruct (HP i Hi) as (_ & _ & Hin). apply (wf_snk G WF e (Hin e He)). Qed.

  (* ---- the walk rows ---- *)
  Lemma row_17a_sat i : In i (layers k) -> sat_row asg (row_17a G (o_allow_empty (w_opts WI)) i).
  Proof.
    intros Hi.
    assert (X : (eval asg (map (fun v => (Edge (g_src G) v i, 1%Q)) (succs G (g_src G))) == 1)%Q).
    { rewrite (eval_out_terms G WF asg (fun u v => Edge u v i) 1%Q (g_src G)). cbv beta.
      rewrite (edge_sum_q i). fold E s. rewrite (sum_outs i s Hi).
      destruct (P_shape i Hi) as (r & Er & Hl). rewrite Er.
      rewrite (outd_s_one s t r (PathEncProofs.wf_st G WF) Hl).
      - reflexivity.
      - intros e He. rewrite <- Er in He. apply (pairs_no_in_s i e Hi He). }
    unfold sat_row, row_17a, mkrow. destruct (o_allow_empty (w_opts WI)); cbn [sns lhs rhs]; rewrite X; lra.
  Qed.

  Lemma row_17b_sat i v : In i (layers k) -> In v (inner G) -> sat_row asg (row_17b G i v).
  Proof.
    intros Hi Hv. unfold inner in Hv. apply filter_In in Hv. destruct Hv as [_ Hv]. apply andb_true_iff in Hv. destruct Hv as [H1 H2].
    apply negb_true_iff in H1, H2. apply N.eqb_neq in H1, H2.
    unfold sat_row, row_17b, row_10c, mkrow. cbn [sns lhs rhs]. rewrite eval_app.
    rewrite (eval_in_terms G WF asg (fun u w => Edge u w i) 1%Q v), (eval_out_terms G WF asg (fun u w => Edge u w i) (- (1))%Q v). cbv beta.
    rewrite !(edge_sum_q i). fold E. rewrite (sum_ins i v Hi), (sum_outs i v Hi).
    destruct (P_shape i Hi) as (r & Er & Hl). rewrite Er.
    rewrite (balanced s t r (PathEncProofs.wf_st G WF) Hl v H1 H2). lra.
  Qed.

  Lemma sel_in_pairs i e : selb (rev (P i)) e = true -> In e (pairs (P i)).
  Proof. destruct e as [u v]. intros H. destruct (selb_spec _ _ _ H) as (A & _). rewrite rev_involutive in A. exact A. Qed.

  Lemma row_21_sat i e : In i (layers k) -> In e E -> sat_row asg (row_21 i e).
  Proof.
    intros Hi He. unfold sat_row, row_21, mkrow. cbn [sns lhs rhs eval fst snd]. rewrite asg_edge, asg_sel.
    destruct (selb (rev (P i)) e) eqn:S; cbn [indq].
    - apply sel_in_pairs in S. apply count_pos_in in S. unfold mult, multz.
      assert (inject_Z 1 <= inject_Z (Z.of_nat (count_e e (pairs (P i)))))%Q by (rewrite <- Zle_Qle; lia).
      change (inject_Z 1) with 1%Q in H. lra.
    - pose proof (mult_nonneg i e). assert (inject_Z 0 <= inject_Z (mult i e))%Q by (rewrite <- Zle_Qle; exact H).
      change (inject_Z 0) with 0%Q in H0. lra.
  Qed.

  Lemma ins_nodup v : NoDup (WalkEnc.ins E v).
  Proof. unfold WalkEnc.ins. apply NoDup_filter. apply (wf_nodup_e G WF). Qed.
  Lemma ins_spec e v : In e (WalkEnc.ins E v) <-> In e E /\ snd e = v.
  Proof. unfold WalkEnc.ins. rewrite filter_In, N.eqb_eq. tauto. Qed.

  Lemma sel_sum_le1 i v : (sumq (fun e => indq (selb (rev (P i)) e)) (WalkEnc.ins E v) <= 1)%Q.
  Proof.
    apply sum_indq_le1; [apply ins_nodup|]. intros [u1 v1] [u2 v2] H1 H2 S1 S2.
    apply ins_spec in H1, H2. destruct H1 as [_ H1], H2 as [_ H2]. cbn [snd] in H1, H2. subst v1 v2.
    rewrite (selb_unique _ _ _ _ S1 S2). reflexivity.
  Qed.

  Lemma sel_sum_q i l : (sumq (fun e => asg (Sel (fst e) (snd e) i)) l == sumq (fun e => indq (selb (rev (P i)) e)) l)%Q.
  Proof. apply sumq_ext. intros [a b] _. cbn [fst snd]. rewrite asg_sel'. reflexivity. Qed.

  Lemma cap_nonneg i e : In i (layers k) -> In e E -> (0 <= cap WI e)%Q.
  Proof.
    intros Hi He. pose proof (Hcap i e Hi He). pose proof (mult_nonneg i e).
    assert (inject_Z 0 <= inject_Z (mult i e))%Q by (rewrite <- Zle_Qle; exact H0). change (inject_Z 0) with 0%Q in H1. lra.
  Qed.

  Lemma row_22a_sat i v : In i (layers k) -> In v (non_src G) -> sat_row asg (row_22a WI i v).
  Proof.
    intros Hi Hv. unfold non_src in Hv. apply filter_In in Hv. destruct Hv as [Hvn Hv]. apply negb_true_iff in Hv. apply N.eqb_neq in Hv.
    unfold sat_row, row_22a, mkrow. cbn [sns lhs rhs]. rewrite eval_app.
    fold G.
    rewrite (eval_in_terms G WF asg (fun u w => Edge u w i) 1%Q v), (eval_in_terms G WF asg (fun u w => Sel u w i) (- Mv WI v)%Q v). cbv beta.
    rewrite (edge_sum_q i), (sel_sum_q i). fold E.
    rewrite (Mv_sum WI v WF). fold G E.
    assert (Hcaps : (0 <= sumq (cap WI) (WalkEnc.ins E v))%Q).
    { apply wsumq_nonneg. intros e He. apply ins_spec in He. apply (cap_nonneg i e Hi (proj1 He)). }
    assert (Hsel0 : (0 <= sumq (fun e => indq (selb (rev (P i)) e)) (WalkEnc.ins E v))%Q) by (apply wsumq_nonneg; intros e _; apply indq_nonneg).
    destruct (nin v (P i)) as [Hin|Hnin].
    - (* visited: its entry edge is selected *)
      destruct (P_shape i Hi) as (r & Er & Hl).
      assert (Hlast : last (rev (P i)) s = s) by (rewrite Er; cbn [rev]; apply last_app_single).
      destruct (selb_exists (rev (P i)) s v (proj1 (in_rev _ _) Hin) Hlast Hv) as (u & Hu).
      assert (HuE : In (u, v) (WalkEnc.ins E v)).
      { apply ins_spec. split; [|reflexivity]. destruct (HP i Hi) as (_ & _ & Hinc). apply Hinc. apply (sel_in_pairs i (u, v) Hu). }
      assert (S1 : (1 <= sumq (fun e => indq (selb (rev (P i)) e)) (WalkEnc.ins E v))%Q).
      { pose proof (wsumq_ge_term (fun e => indq (selb (rev (P i)) e)) _ (u, v) (fun e _ => indq_nonneg _) HuE) as T. cbv beta in T.
        rewrite Hu in T. exact T. }
      assert (Sx : (inject_Z (WalkEnc.sumf (mult i) (WalkEnc.ins E v)) <= sumq (cap WI) (WalkEnc.ins E v))%Q).
      { pose proof (sumq_inj (fun e => inject_Z (mult i e)) (mult i) (WalkEnc.ins E v) (fun e _ => Qeq_refl _)) as Eq.
        fold (WalkEnc.sumf (mult i) (WalkEnc.ins E v)) in Eq. rewrite <- Eq.
        apply wsumq_le. intros e He. apply ins_spec in He. apply (Hcap i e Hi (proj1 He)). }
      nra.
    - (* not visited: no in-edge is used *)
      assert (Z0 : WalkEnc.sumf (mult i) (WalkEnc.ins E v) = 0%Z).
      { apply sumf_zero. intros [a b] He. apply ins_spec in He. destruct He as [_ He]. cbn [snd] in He. subst b.
        unfold mult, multz. destruct (count_e (a, v) (pairs (P i))) eqn:C; [reflexivity|exfalso].
        assert (In (a, v) (pairs (P i))) by (apply count_pos_in; lia). apply Hnin. apply (in_pairs_nodes _ _ _ H). }
      rewrite Z0. change (inject_Z 0) with 0%Q. nra.
  Qed.

  Lemma row_22b_sat i v : sat_row asg (row_22b G i v).
  Proof.
    unfold sat_row, row_22b, mkrow. cbn [sns lhs rhs].
    rewrite (eval_in_terms G WF asg (fun u w => Sel u w i) 1%Q v). cbv beta. rewrite (sel_sum_q i). fold E.
    pose proof (sel_sum_le1 i v). lra.
  Qed.

  Lemma rank_s i : In i (layers k) -> rankf (rev (P i)) s = 1.
  Proof.
    intros Hi. destruct (P_shape i Hi) as (r & Er & _). apply rankf_first.
    - rewrite Er. cbn [rev]. apply last_app_single.
    - rewrite Er. cbn [rev]. destruct (rev r); discriminate.
  Qed.

  Lemma row_18a_sat i : In i (layers k) -> sat_row asg (row_18a G i).
  Proof.
    intros Hi. unfold sat_row, row_18a, mkrow. cbn [sns lhs rhs eval fst snd]. rewrite asg_dist. fold s. rewrite (rank_s i Hi).
    change (inject_Z (Z.of_nat 1)) with 1%Q. lra.
  Qed.

  Lemma rank_bound i v : In i (layers k) -> rankf (rev (P i)) v <= length (g_nodes G).
  Proof.
    intros Hi. etransitivity; [apply rankf_le|]. apply ndist_bound; [apply (wfs_nodup_n G WFS)|].
    intros x Hx. apply in_rev in Hx. apply (P_nodes i x Hi Hx).
  Qed.

  Lemma row_19c_sat i e : In i (layers k) -> In e E -> sat_row asg (row_19c G i e).
  Proof.
    intros Hi He. unfold sat_row, row_19c, mkrow, bigM, nnodes. cbn [sns lhs rhs eval]. cbn [fst snd].
    rewrite !asg_dist, asg_sel. destruct e as [u v]. cbn [fst snd].
    pose proof (inj_nat_le _ _ (rank_bound i u Hi)) as Bu.
    assert (B0 : (0 <= inject_Z (Z.of_nat (rankf (rev (P i)) v)))%Q) by (change 0%Q with (inject_Z 0); rewrite <- Zle_Qle; lia).
    destruct (selb (rev (P i)) (u, v)) eqn:S; cbn [indq].
    - destruct (selb_spec _ _ _ S) as (_ & _ & _ & Hlt).
      assert (inject_Z (Z.of_nat (rankf (rev (P i)) u)) + 1 <= inject_Z (Z.of_nat (rankf (rev (P i)) v)))%Q.
      { change 1%Q with (inject_Z 1). rewrite <- inject_Z_plus, <- Zle_Qle. lia. }
      lra.
    - lra.
  Qed.

  Lemma walk_rows_sat : Forall (sat_row asg) (walk_rows WI).
  Proof.
    unfold walk_rows. fold G k.
    repeat rewrite Forall_app. repeat split.
    - apply Forall_forall. intros r Hr. apply in_map_iff in Hr. destruct Hr as (i & <- & Hi). apply row_17a_sat. exact Hi.
    - apply Forall_flat_map. intros i Hi. apply Forall_forall. intros r Hr. apply in_map_iff in Hr. destruct Hr as (v & <- & Hv). apply row_17b_sat; assumption.
    - apply Forall_flat_map. intros i Hi. apply Forall_forall. intros r Hr. apply in_map_iff in Hr. destruct Hr as (e & <- & He). apply row_21_sat; assumption.
    - apply Forall_flat_map. intros i Hi. apply Forall_flat_map. intros v Hv. constructor; [apply row_22a_sat; assumption|]. constructor; [apply row_22b_sat|constructor].
    - apply Forall_forall. intros r Hr. apply in_map_iff in Hr. destruct Hr as (i & <- & Hi). apply row_18a_sat. exact Hi.
    - apply Forall_flat_map. intros i Hi. apply Forall_forall. intros r Hr. apply in_map_iff in Hr. destruct Hr as (e & <- & He). apply row_19c_sat; assumption.
  Qed.

  (* ---- the safety fixing ---- *)
  Lemma edge_lb_le e i : (edge_lb WI e i <= inject_Z (mult i e))%Q.
  Proof.
    assert (M0 : (0 <= inject_Z (mult i e))%Q) by (change 0%Q with (inject_Z 0); rewrite <- Zle_Qle; apply mult_nonneg).
    unfold edge_lb. destruct (o_bounds (w_opts WI)); [|exact M0].
    destruct (find (fun x => edge_eqb (fst (fst x)) e && (snd (fst x) =? i)%N) (fix_items WI)) as [[[e' i'] m]|] eqn:F; [|exact M0].
    apply find_some in F. destruct F as [Hin F]. cbn [fst snd] in F. apply andb_true_iff in F. destruct F as [F1 F2].
    apply edge_eqb_eq in F1. apply N.eqb_eq in F2. subst e' i'. destruct (Hfixed e i m Hin) as [A B].
    fold G.
    destruct (is_scc_edge G e) eqn:S.
    - destruct (o_geq (w_opts WI)) eqn:Gq; [|exact M0]. unfold qnat. rewrite <- Zle_Qle. apply A; reflexivity.
    - rewrite (B eq_refl). change (inject_Z 1) with 1%Q. lra.
  Qed.

  Lemma zero_rows_sat : Forall (sat_row asg) (zero_rows WI).
  Proof.
    unfold zero_rows. apply Forall_forall. intros r Hr. apply in_map_iff in Hr. destruct Hr as ([e i] & <- & Hin). cbn [fst snd].
    unfold sat_row, mkrow. cbn [sns lhs rhs eval fst snd]. rewrite asg_edge, (Hzero e i Hin). change (inject_Z 0) with 0%Q. lra.
  Qed.

  Lemma fix_rows_sat : Forall (sat_row asg) (fix_rows WI).
  Proof.
    unfold fix_rows. destruct (o_bounds (w_opts WI)); [constructor|]. apply Forall_flat_map. intros [[e i] m] Hin.
    destruct (Hfixed e i m Hin) as [A B]. fold G.
    destruct (is_scc_edge G e) eqn:S.
    - destruct (o_geq (w_opts WI)) eqn:Gq; [|constructor]. constructor; [|constructor].
      unfold sat_row, mkrow. cbn [sns lhs rhs eval fst snd]. rewrite asg_edge.
      assert (qnat m <= inject_Z (mult i e))%Q by (unfold qnat; rewrite <- Zle_Qle; apply A; reflexivity). lra.
    - constructor; [|constructor]. unfold sat_row, mkrow. cbn [sns lhs rhs eval fst snd]. rewrite asg_edge, (B eq_refl).
      change (inject_Z 1) with 1%Q. lra.
  Qed.

  Lemma one_set_mult e i : In (e, i) (one_set WI) -> mult i e = 1%Z.
  Proof.
    unfold one_set. intros H. apply in_map_iff in H. destruct H as ([[e' i'] m] & Eq & H). cbn [fst] in Eq. injection Eq as -> ->.
    apply filter_In in H. destruct H as [Hin S]. cbn [fst] in S. apply negb_true_iff in S.
    apply (proj2 (Hfixed e i m Hin)). exact S.
  Qed.

  (* ---- columns ---- *)
  Lemma walk_cols_sat : Forall (sat_col asg) (walk_cols WI).
  Proof.
    unfold walk_cols. fold G k. repeat rewrite Forall_app. repeat split.
    - apply Forall_flat_map. intros i Hi. apply Forall_forall. intros c Hc. apply in_map_iff in Hc. destruct Hc as (e & <- & He).
      unfold sat_col, intcol. cbn [cvar clb cub cint]. rewrite asg_edge. split; [|split].
      + apply edge_lb_le.
      + apply (Hcap i e Hi He).
      + intros _. apply is_int_inject.
    - apply Forall_flat_map. intros i Hi. apply Forall_forall. intros c Hc. apply in_map_iff in Hc. destruct Hc as (v & <- & Hv).
      unfold sat_col, intcol, nnodes. cbn [cvar clb cub cint]. rewrite asg_dist. split; [|split].
      + change 0%Q with (inject_Z 0). rewrite <- Zle_Qle. lia.
      + apply inj_nat_le. apply (rank_bound i v Hi).
      + intros _. apply is_int_inject.
    - apply Forall_flat_map. intros i Hi. apply Forall_forall. intros c Hc. apply in_map_iff in Hc. destruct Hc as (e & <- & He).
      apply col_of_bin. rewrite asg_sel. apply indq_bin.
  Qed.

  (* ---- subset constraints ---- *)
  Lemma usedq_bin i e : bin (usedq i e). Proof. apply indq_bin. Qed.

  Lemma zipn_nth {A} (l : list A) : forall n jn c, In (jn, c) (zipn n l) -> exists j, jn = N.of_nat (n + j) /\ nth_error l j = Some c.
  Proof.
    induction l as [|a l IH]; intros n jn c H; [destruct H|]. cbn [zipn] in H. destruct H as [H|H].
    - injection H as <- <-. exists 0%nat. rewrite Nat.add_0_r. split; reflexivity.
    - destruct (IH _ _ _ H) as (j & Ej & Hj). exists (S j). split; [rewrite Ej; f_equal; lia|exact Hj].
  Qed.

  Lemma sub_cols_sat : Forall (sat_col asg) (sub_cols WI).
  Proof.
    unfold sub_cols. destruct (all_cons WI) as [|c0 cs]; [constructor|]. rewrite Forall_app. split.
    - apply Forall_flat_map. intros i _. apply Forall_forall. intros c Hc. apply in_map_iff in Hc. destruct Hc as (j & <- & _).
      apply col_of_bin. rewrite asg_r. apply indq_bin.
    - apply Forall_flat_map. intros i _. apply Forall_forall. intros c Hc. apply in_map_iff in Hc. destruct Hc as (e & <- & _).
      apply col_of_bin. rewrite asg_used. apply usedq_bin.
  Qed.

  Lemma sub_rows_sat : Forall (sat_row asg) (sub_rows WI).
  Proof.
    unfold sub_rows. destruct (all_cons WI) as [|c0 cs] eqn:AC; [constructor|]. rewrite <- AC in *. clear AC c0 cs.
    fold G k. repeat rewrite Forall_app. repeat split.
    - apply Forall_flat_map. intros i Hi. apply Forall_flat_map. intros e He.
      assert (M0 := mult_nonneg i e). constructor; [|constructor; [|constructor]].
      + unfold sat_row, row_min1a, mkrow. cbn [sns lhs rhs eval fst snd]. rewrite asg_used, asg_edge. unfold usedq.
        destruct (Z.ltb_spec 0 (mult i e)) as [L|L]; cbn [indq].
        * assert (inject_Z 1 <= inject_Z (mult i e))%Q by (rewrite <- Zle_Qle; lia). change (inject_Z 1) with 1%Q in H. lra.
        * assert (mult i e = 0%Z) by lia. rewrite H. change (inject_Z 0) with 0%Q. lra.
      + unfold sat_row, row_min1b, mkrow. cbn [sns lhs rhs eval fst snd]. rewrite asg_used, asg_edge. unfold usedq.
        destruct (Z.ltb_spec 0 (mult i e)) as [L|L]; cbn [indq].
        * pose proof (Hcap i e Hi He). lra.
        * assert (mult i e = 0%Z) by lia. rewrite H. change (inject_Z 0) with 0%Q. lra.
    - apply Forall_flat_map. intros i Hi. apply Forall_forall. intros r Hr. apply in_map_iff in Hr. destruct Hr as ([jn c] & <- & Hjc).
      destruct (zipn_nth _ _ _ _ Hjc) as (j & -> & Hj). cbn [plus]. destruct (Hcov j c Hj) as (Hch & Hc).
      unfold sat_row, row_s7a, mkrow. cbn [sns lhs rhs fst snd]. rewrite eval_app.
      rewrite (eval_map_const asg (fun e => uvar e i) 1%Q). cbn [eval fst snd]. rewrite asg_r.
      assert (U : (sumq (fun e => asg (uvar e i)) (nodup_e c) == sumq (usedq i) (nodup_e c))%Q) by (apply sumq_ext; intros e _; rewrite asg_used; reflexivity).
      rewrite U.
      destruct (N.eqb_spec i (ch (N.of_nat j))) as [->|_]; cbn [indq].
      + lra.
      + assert (0 <= sumq (usedq i) (nodup_e c))%Q by (apply wsumq_nonneg; intros e _; apply indq_nonneg). lra.
    - apply Forall_forall. intros r Hr. apply in_map_iff in Hr. destruct Hr as (j & <- & Hj). apply in_seq in Hj.
      destruct (nth_error (all_cons WI) j) as [c|] eqn:N; [|apply nth_error_None in N; lia].
      destruct (Hcov j c N) as (Hch & _).
      unfold sat_row, row_s7b, mkrow. cbn [sns lhs rhs]. rewrite (eval_map_const asg (fun i => R i (N.of_nat j)) 1%Q).
      pose proof (wsumq_ge_term (fun i => asg (R i (N.of_nat j))) (layers k) (ch (N.of_nat j))
                    ltac:(intros i _; cbv beta; rewrite asg_r; apply indq_nonneg) Hch) as T. cbv beta in T.
      rewrite asg_r, N.eqb_refl in T. cbn [indq] in T. lra.
  Qed.

  (* C04 (cyclic), completeness: the walks with their weights satisfy the LP *)
  (* everything create_solver_and_walks() puts into the solver is satisfied *)
  Theorem base_sat : Forall (sat_col asg) (base_wcols WI) /\ Forall (sat_row asg) (base_wrows WI).
  Proof.
    split.
    - unfold base_wcols. rewrite Forall_app. split; [apply walk_cols_sat|apply sub_cols_sat].
    - unfold base_wrows. repeat rewrite Forall_app. repeat split; [apply walk_rows_sat|apply zero_rows_sat|apply fix_rows_sat|apply sub_rows_sat].
  Qed.
End WalkPart.

Section Complete.
  Variable I : kfdc_inst.
  Let WI := kfdc_walk I.
  Let G := c_graph I.
  Let k := c_k I.
  Let E := g_edges G.
  Let s := g_src G.
  Let t := g_snk G.
  Let wm := kfdc_wmax I.
  Variable P : N -> list node.          (* the full walk of layer i: s ... t *)
  Variable wt : N -> Q.                  (* its weight *)
  Variable ch : N -> N.                  (* the layer chosen to realise subset constraint j *)
  Hypothesis WFS : wf_stg G.

  Notation mult := (mult P).
  Notation usedq := (usedq P).

  Hypothesis HP : forall i, In i (layers k) -> hd_error (P i) = Some s /\ last (P i) s = t /\ incl (pairs (P i)) E.
  Hypothesis Hw : forall i, In i (layers k) -> (0 <= wt i <= wm)%Q /\ (c_int I = true -> is_int (wt i)).
  (* the caps of the model *)
  Hypothesis Hcap : forall i e, In i (layers k) -> In e E -> (inject_Z (mult i e) <= cap WI e)%Q.
  Hypothesis Hbits : forall i e, In i (layers k) -> In e (kept_edges I) -> prod_kind I e i = 2%N ->
      (mult i e < 2 ^ Z.of_nat (num_bits (prod_ub I e)))%Z.
  Hypothesis Hprod : forall i e, In i (layers k) -> In e (kept_edges I) -> (wt i * inject_Z (mult i e) <= wm)%Q.
  Hypothesis Hflow : forall e, In e (kept_edges I) ->
      (sumq (fun i => wt i * inject_Z (mult i e)) (layers k) == flow_of I e)%Q.
  (* the walks respect the safety fixing of the instance *)
  Hypothesis Hzero : forall e i, In (e, i) (zero_set WI) -> mult i e = 0%Z.
  Hypothesis Hfixed : forall e i m, In (e, i, m) (fix_items WI) ->
      (is_scc_edge G e = true -> o_geq (c_opts I) = true -> (Z.of_nat m <= mult i e)%Z) /\
      (is_scc_edge G e = false -> mult i e = 1%Z).
  (* they realise the subset constraints: constraint j by the walk of layer ch j *)
  Hypothesis Hcov : forall j c, nth_error (all_cons WI) j = Some c ->
      In (ch (N.of_nat j)) (layers k) /\
      (qnat (length (nodup_e c)) * c_cov I <= sumq (usedq (ch (N.of_nat j))) (nodup_e c))%Q.
  (* given weights are the weights *)
  Hypothesis Hgiven : forall ws j w, c_given I = Some ws -> nth_error ws j = Some w -> (wt (N.of_nat j) == w)%Q.

  Definition keptb (e : PathEnc.edge) : bool := mem_edge e (kept_edges I).
  Definition bitsof (i : N) (e : PathEnc.edge) : list Q := bits (num_bits (prod_ub I e)) (mult i e).

  Definition asg (x : var) : Q :=
    match vidx x with
    | [u; v; i] =>
        if (vfam x =? fEdge)%N then inject_Z (mult i (u, v))
        else if (vfam x =? fSel)%N then indq (selb (rev (P i)) (u, v))
        else if (vfam x =? fPi)%N then (if keptb (u, v) then wt i * inject_Z (mult i (u, v)) else 0)%Q
        else if (vfam x =? fUsed)%N then usedq i (u, v)
        else 0%Q
    | [v; i] => if (vfam x =? fDist)%N then inject_Z (Z.of_nat (rankf (rev (P i)) v))
                else if (vfam x =? fR)%N then indq (v =? ch i)%N else 0%Q
    | [i] => if (vfam x =? fW)%N then wt i else 0%Q
    | [f; u; v; i; j] =>
        if ((vfam x =? fBit)%N && (f =? fPi)%N)%bool then nth (N.to_nat j) (bitsof i (u, v)) 0%Q
        else if ((vfam x =? fComp)%N && (f =? fPi)%N)%bool then (nth (N.to_nat j) (bitsof i (u, v)) 0 * wt i)%Q
        else 0%Q
    | _ => 0%Q
    end.

  Lemma kasg_edge e i : asg (evar e i) = inject_Z (mult i e). Proof. destruct e; reflexivity. Qed.
  Lemma kasg_edge' u v i : asg (Edge u v i) = inject_Z (mult i (u, v)). Proof. reflexivity. Qed.
  Lemma kasg_sel e i : asg (svar e i) = indq (selb (rev (P i)) e). Proof. destruct e; reflexivity. Qed.
  Lemma kasg_sel' u v i : asg (Sel u v i) = indq (selb (rev (P i)) (u, v)). Proof. reflexivity. Qed.
  Lemma kasg_dist v i : asg (Dist v i) = inject_Z (Z.of_nat (rankf (rev (P i)) v)). Proof. reflexivity. Qed.
  Lemma kasg_w i : asg (W i) = wt i. Proof. reflexivity. Qed.
  Lemma kasg_used e i : asg (uvar e i) = usedq i e. Proof. destruct e; reflexivity. Qed.
  Lemma kasg_r i j : asg (R i j) = indq (i =? ch j)%N. Proof. reflexivity. Qed.
  Lemma kasg_pi e i : asg (pvar e i) = (if keptb e then wt i * inject_Z (mult i e) else 0)%Q. Proof. destruct e; reflexivity. Qed.
  Lemma kasg_bit e i j : asg (Bit (pvar e i) (N.of_nat j)) = nth j (bitsof i e) 0%Q.
  Proof. destruct e. unfold asg, Bit, pvar, Pi. cbn [vidx vfam app]. cbn. rewrite Nat2N.id. reflexivity. Qed.
  Lemma kasg_comp e i j : asg (Comp (pvar e i) (N.of_nat j)) = (nth j (bitsof i e) 0 * wt i)%Q.
  Proof. destruct e. unfold asg, Comp, pvar, Pi. cbn [vidx vfam app]. cbn. rewrite Nat2N.id. reflexivity. Qed.

  Lemma kmult_nonneg i e : (0 <= mult i e)%Z. Proof. unfold WalkEncComplete.mult, multz. lia. Qed.

  Lemma one_set_mult' e i : In (e, i) (one_set WI) -> mult i e = 1%Z.
  Proof.
    unfold one_set. intros H. apply in_map_iff in H. destruct H as ([[e' i'] m] & Eq & H). cbn [fst] in Eq. injection Eq as -> ->.
    apply filter_In in H. destruct H as [Hin S]. cbn [fst] in S. apply negb_true_iff in S.
    apply (proj2 (Hfixed e i m Hin)). exact S.
  Qed.

  Lemma kfdc_base_sat : Forall (sat_col asg) (base_wcols WI) /\ Forall (sat_row asg) (base_wrows WI).
  Proof. apply (base_sat WI P ch asg WFS HP Hcap Hzero Hfixed Hcov); reflexivity. Qed.

  Lemma wm_nonneg i : In i (layers k) -> (0 <= wm)%Q.
  Proof. intros Hi. destruct (Hw i Hi) as [[A B] _]. lra. Qed.

  Lemma keptb_true e : In e (kept_edges I) -> keptb e = true.
  Proof. intros H. unfold keptb. apply mem_edge_In. exact H. Qed.

  Lemma pi_col_sat i e : In i (layers k) -> sat_col asg (wcol_ (pvar e i) wm (c_int I)).
  Proof.
    intros Hi. unfold sat_col, wcol_. cbn [cvar clb cub cint]. rewrite kasg_pi. destruct (Hw i Hi) as [[W0 W1] Wi].
    assert (M0 : (0 <= inject_Z (mult i e))%Q) by (change 0%Q with (inject_Z 0); rewrite <- Zle_Qle; apply kmult_nonneg).
    destruct (keptb e) eqn:K.
    - apply mem_edge_In in K. split; [nra|]. split; [apply (Hprod i e Hi K)|].
      intros Hint. apply is_int_mult; [apply Wi; exact Hint|apply is_int_inject].
    - split; [lra|]. split; [apply (wm_nonneg i Hi)|]. intros _. exists 0%Z. reflexivity.
  Qed.

  (* the bit expansion block of one (edge, layer) pair *)
  Lemma prod_block_sat i e : In i (layers k) -> In e (kept_edges I) -> prod_kind I e i = 2%N ->
    Forall (sat_col asg) (intprod_cols (pvar e i) 0%Q (prod_ub I e) (num_bits (prod_ub I e))) /\
    Forall (sat_row asg) (intprod_rows (evar e i) (W i) (pvar e i) 0%Q (prod_ub I e) (num_bits (prod_ub I e))).
  Proof.
    intros Hi He Hk2. set (n := num_bits (prod_ub I e)). set (ub := prod_ub I e).
    apply (intprod_rows_sem (evar e i) (W i) (pvar e i) 0%Q ub n ltac:(split; discriminate) ltac:(split; discriminate) ltac:(split; discriminate) asg).
    cbn zeta.
    destruct (bits_spec n (mult i e) (conj (kmult_nonneg i e) (Hbits i e Hi He Hk2))) as (BL & BB & BV).
    destruct (Hw i Hi) as [[W0 W1] _].
    assert (Wub : (wt i <= ub)%Q).
    { unfold ub, prod_ub. destruct (c_scale_free I); [|exact W1]. pose proof (qmax_ge_l (kfdc_wmax I) (cap (kfdc_walk I) e)) as Hq. unfold wm in W1. lra. }
    assert (Ebs : map (fun j => asg (Bit (pvar e i) (N.of_nat j))) (seq 0 n) = bits n (mult i e)).
    { rewrite <- BL at 1. apply map_seq_nth. intros j _. cbn [plus]. rewrite kasg_bit. reflexivity. }
    assert (Ems : map (fun j => asg (Comp (pvar e i) (N.of_nat j))) (seq 0 n) = map (fun b => (b * wt i)%Q) (bits n (mult i e))).
    { rewrite <- Ebs. rewrite map_map. apply map_ext. intros j. rewrite kasg_comp, kasg_bit. reflexivity. }
    rewrite Ebs, Ems.
    assert (HF : Forall2 (fun b m => (0 <= m <= ub)%Q /\ mcc b (asg (W i)) m 0%Q ub) (bits n (mult i e)) (map (fun b => (b * wt i)%Q) (bits n (mult i e)))).
    { clear Ebs Ems BL BV. induction BB as [|b bs Hb _ IH]; cbn [map]; constructor; [|exact IH].
      rewrite kasg_w. split.
      - destruct Hb as [Hb|Hb]; rewrite Hb; split; lra.
      - apply (mcc_exact b (wt i) (b * wt i)%Q 0%Q ub Hb); [split; lra|reflexivity]. }
    split; [exact BB|]. split; [exact HF|]. split.
    - rewrite BV, kasg_edge. reflexivity.
    - pose proof (comps_value (asg (W i)) 0%Q ub ltac:(rewrite kasg_w; split; lra) _ _ BB HF) as V.
      rewrite V, BV, kasg_w, kasg_pi, (keptb_true e He). reflexivity.
  Qed.

  Lemma kfdc_cols_sat_c : Forall (sat_col asg) (kfdc_cols I).
  Proof.
    unfold kfdc_cols. fold G k wm. repeat rewrite Forall_app. repeat split.
    - apply Forall_flat_map. intros i Hi. apply Forall_forall. intros c Hc. apply in_map_iff in Hc. destruct Hc as (e & <- & _). apply pi_col_sat. exact Hi.
    - apply Forall_forall. intros c Hc. apply in_map_iff in Hc. destruct Hc as (i & <- & Hi).
      unfold sat_col, wcol_. cbn [cvar clb cub cint]. rewrite kasg_w. destruct (Hw i Hi) as [[A B] C]. repeat split; assumption.
    - apply Forall_flat_map. intros e He. apply Forall_flat_map. intros i Hi.
      destruct (N.eqb_spec (prod_kind I e i) 2%N) as [K2|_]; [apply (prod_block_sat i e Hi He K2)|constructor].
  Qed.

  Lemma given_rows_sat : Forall (sat_row asg) (kfdc_given_rows I).
  Proof.
    unfold kfdc_given_rows. destruct (c_given I) as [ws|] eqn:Gv; [|constructor].
    assert (X : forall l n, (forall j w, nth_error l j = Some w -> (wt (N.of_nat (n + j)) == w)%Q) ->
                Forall (sat_row asg) (map (fun iw => mkrow [(W (fst iw), 1%Q)] SEq (snd iw)) (zipn n l))).
    { induction l as [|w l IH]; intros n H; cbn [zipn map]; constructor.
      - unfold sat_row, mkrow. cbn [sns lhs rhs eval fst snd]. rewrite kasg_w. pose proof (H 0%nat w eq_refl) as E0. rewrite Nat.add_0_r in E0. rewrite E0. lra.
      - apply IH. intros j w' Hj. replace (S n + j)%nat with (n + S j)%nat by lia. apply H. exact Hj. }
    apply X. intros j w Hj. cbn [plus]. apply (Hgiven ws j w eq_refl Hj).
  Qed.

  Lemma kfdc_rows_sat_c : Forall (sat_row asg) (kfdc_rows I).
  Proof.
    unfold kfdc_rows. rewrite Forall_app. split; [|apply given_rows_sat]. apply Forall_flat_map. intros e He.
    unfold kfdc_edge_rows. fold k. rewrite Forall_app. split.
    - apply Forall_flat_map. intros i Hi. unfold kfdc_prod_rows, prod_kind. fold WI.
      destruct (mem_ei e i (zero_set WI)) eqn:Z0.
      + cbn. constructor; [|constructor]. unfold sat_row, mkrow. cbn [sns lhs rhs eval fst snd].
        apply mem_ei_In in Z0. rewrite kasg_pi, (keptb_true e He), (Hzero e i Z0). change (inject_Z 0) with 0%Q. lra.
      + destruct (mem_ei e i (one_set WI)) eqn:O1.
        * cbn. constructor; [|constructor]. unfold sat_row, mkrow. cbn [sns lhs rhs eval fst snd].
          apply mem_ei_In in O1. rewrite kasg_pi, kasg_w, (keptb_true e He), (one_set_mult' e i O1). change (inject_Z 1) with 1%Q. lra.
        * cbn. apply (prod_block_sat i e Hi He). unfold prod_kind. fold WI. rewrite Z0, O1. reflexivity.
    - constructor; [|constructor]. unfold sat_row, mkrow. cbn [sns lhs rhs].
      rewrite (eval_map_const asg (fun i => pvar e i) 1%Q), <- (Hflow e He), Qmult_1_l.
      apply sumq_ext. intros i _. rewrite kasg_pi, (keptb_true e He). reflexivity.
  Qed.

  (* C04 (cyclic), completeness: the walks with their weights satisfy the LP *)
  Theorem kfdc_complete : sat asg (encode_kfdc I).
  Proof.
    destruct kfdc_base_sat as [Bc Br]. unfold sat, encode_kfdc. cbn [cols rows]. fold WI. split.
    - rewrite Forall_app. split; [exact Bc|apply kfdc_cols_sat_c].
    - rewrite Forall_app. split; [exact Br|apply kfdc_rows_sat_c].
  Qed.
End Complete.
