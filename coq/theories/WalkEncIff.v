(* Feasibility of the cyclic flow-decomposition LP characterised (C04): encode_kfdc I is satisfiable exactly when the
   flow has an ADMISSIBLE decomposition into k weighted source-to-sink walks, i.e. one that explains the non-ignored
   flow with weights of the requested type, stays WITHIN THE CAPS OF THE MODEL (repetition caps, bit width, w_max),
   respects the safety fixing of the instance, realises its subset constraints and uses the given weights.
   Soundness direction: WalkEncRowsProofs.kfdc_sound + the row-level lemmas below; completeness: WalkEncComplete. *)
From Coq Require Import List NArith ZArith QArith Qround Lqa Bool Arith Lia Permutation.
Import ListNotations.
From FP Require Import Lin Blocks BlocksProofs PathEnc PathEncProofs Euler EulerProofs1 EulerProofs4
                       WalkEnc WalkDecode WalkEncRows WalkEncRowsProofs WalkTree WalkEncComplete.
Set Default Timeout 90.
Local Close Scope Q_scope.
Local Open Scope nat_scope.

Section Defs.
  Variable I : kfdc_inst.
  Let WI := kfdc_walk I.
  Let G := c_graph I.
  Let k := c_k I.
  Let E := g_edges G.
  Let s := g_src G.
  Let t := g_snk G.

  (* k source-to-sink walks of the graph with non-negative weights of the requested type that explain the flow of
     every non-ignored edge (mult P i e = number of times walk i traverses e) *)
  Definition walk_decomposition (P : N -> list node) (wt : N -> Q) : Prop :=
    (forall i, In i (layers k) -> hd_error (P i) = Some s /\ last (P i) s = t /\ incl (pairs (P i)) E) /\
    (forall i, In i (layers k) -> (0 <= wt i)%Q /\ (c_int I = true -> is_int (wt i))) /\
    (forall e, In e (kept_edges I) -> (sumq (fun i => wt i * inject_Z (mult P i e)) (layers k) == flow_of I e)%Q).

  (* THE CAPS OF THE MODEL: weights and products at most w_max, multiplicities at most the per-edge repetition cap
     (for kFlowDecompCycles as it is: the edge's own flow value inside SCCs, 1 outside) and representable in the bit
     vector of the product helper *)
  Definition within_caps (P : N -> list node) (wt : N -> Q) : Prop :=
    (forall i, In i (layers k) -> (wt i <= kfdc_wmax I)%Q) /\
    (forall i e, In i (layers k) -> In e E -> (inject_Z (mult P i e) <= cap WI e)%Q) /\
    (forall i e, In i (layers k) -> In e (kept_edges I) -> prod_kind I e i = 2%N ->
                 (mult P i e < 2 ^ Z.of_nat (num_bits (prod_ub I e)))%Z) /\
    (forall i e, In i (layers k) -> In e (kept_edges I) -> (wt i * inject_Z (mult P i e) <= kfdc_wmax I)%Q).

  Definition respects_fixing (P : N -> list node) : Prop :=
    (forall e i, In (e, i) (zero_set WI) -> mult P i e = 0%Z) /\
    (forall e i m, In (e, i, m) (fix_items WI) ->
       (is_scc_edge G e = true -> o_geq (c_opts I) = true -> (Z.of_nat m <= mult P i e)%Z) /\
       (is_scc_edge G e = false -> mult P i e = 1%Z)).

  Definition realises_constraints (P : N -> list node) : Prop :=
    forall j c, nth_error (all_cons WI) j = Some c ->
      exists i, In i (layers k) /\ (qnat (length (nodup_e c)) * c_cov I <= sumq (usedq P i) (nodup_e c))%Q.

  Definition uses_given (wt : N -> Q) : Prop :=
    forall ws j w, c_given I = Some ws -> nth_error ws j = Some w -> (wt (N.of_nat j) == w)%Q.

  Definition admissible (P : N -> list node) (wt : N -> Q) : Prop :=
    walk_decomposition P wt /\ within_caps P wt /\ respects_fixing P /\ realises_constraints P /\ uses_given wt.

  (* the sequences handed over by the implementation (constraints incl. appended safe sequences, walks_to_fix) consist
     of edges of the graph (the constructor validates the caller's constraints; checked on every E1 instance) *)
  Definition inputs_ok : Prop :=
    (forall c e, In c (all_cons WI) -> In e c -> In e E) /\ (forall w e, In w (c_fix I) -> In e w -> In e E).
End Defs.

Lemma finite_choice_w {A} (l : list A) : forall (Pr : nat -> A -> N -> Prop),
  (forall n c, nth_error l n = Some c -> exists i, Pr n c i) ->
  exists ch : N -> N, forall n c, nth_error l n = Some c -> Pr n c (ch (N.of_nat n)).
Proof.
  induction l as [|a r IH]; intros Pr H.
  - exists (fun _ => 0%N). intros n c Hn. destruct n; discriminate.
  - destruct (H 0%nat a eq_refl) as (i0 & H0).
    destruct (IH (fun n => Pr (Datatypes.S n))) as (ch' & Hch').
    { intros n c Hn. apply (H (Datatypes.S n) c Hn). }
    exists (fun j => if (j =? 0)%N then i0 else ch' (N.pred j)). intros n c Hn. destruct n as [|n].
    + cbn in Hn. injection Hn as <-. exact H0.
    + cbn [nth_error] in Hn. replace (N.of_nat (Datatypes.S n) =? 0)%N with false by (symmetry; apply N.eqb_neq; lia).
      replace (N.pred (N.of_nat (Datatypes.S n))) with (N.of_nat n) by lia. apply Hch'. exact Hn.
Qed.

(* completeness, packaged *)
Theorem kfdc_complete_admissible (I : kfdc_inst) (P : N -> list node) (wt : N -> Q) :
  wf_stg (c_graph I) -> admissible I P wt -> exists a, sat a (encode_kfdc I).
Proof.
  intros WF ((HP & Hw & Hflow) & (Cw & Ccap & Cbits & Cprod) & (Hz & Hf) & Hcons & Hg).
  destruct (finite_choice_w (all_cons (kfdc_walk I))
              (fun j c i => In i (layers (c_k I)) /\ (qnat (length (nodup_e c)) * c_cov I <= sumq (usedq P i) (nodup_e c))%Q) Hcons) as (ch & Hch).
  exists (asg I P wt ch). apply kfdc_complete; try assumption.
  intros i Hi. destruct (Hw i Hi) as [W0 Wi]. split; [split; [exact W0|apply (Cw i Hi)]|exact Wi].
Qed.

(* ---------------------------------------------------------------------------------------------- *)
(* list plumbing for the safety bookkeeping                                                        *)
Lemma zipn_nth_w {A} (l : list A) : forall n jn c, In (jn, c) (zipn n l) -> exists j, jn = N.of_nat (n + j) /\ nth_error l j = Some c.
Proof.
  induction l as [|a l IH]; intros n jn c H; [destruct H|]. cbn [zipn] in H. destruct H as [H|H].
  - injection H as <- <-. exists 0. rewrite Nat.add_0_r. split; reflexivity.
  - destruct (IH _ _ _ H) as (j & Ej & Hj). exists (S j). split; [rewrite Ej; f_equal; lia|exact Hj].
Qed.
Lemma nth_zipn_w {A} (l : list A) : forall n j c, nth_error l j = Some c -> In (N.of_nat (n + j), c) (zipn n l).
Proof.
  induction l as [|a l IH]; intros n j c H; [destruct j; discriminate|]. destruct j as [|j]; cbn [nth_error] in H.
  - injection H as <-. rewrite Nat.add_0_r. left. reflexivity.
  - right. replace (n + S j) with (S n + j) by lia. apply IH. exact H.
Qed.
Lemma firstn_zipn_in {A} (l : list A) : forall m n jn c, In (jn, c) (firstn m (zipn n l)) ->
  exists j, j < m /\ jn = N.of_nat (n + j) /\ nth_error l j = Some c.
Proof.
  induction l as [|a l IH]; intros m n jn c H; [cbn [zipn] in H; rewrite firstn_nil in H; destruct H|].
  destruct m as [|m]; [destruct H|]. cbn [zipn firstn] in H. destruct H as [H|H].
  - injection H as <- <-. exists 0. rewrite Nat.add_0_r. repeat split. lia.
  - destruct (IH _ _ _ _ H) as (j & Lj & Ej & Hj). exists (S j). split; [lia|]. split; [rewrite Ej; f_equal; lia|exact Hj].
Qed.

Lemma nodup_e_In e l : In e (nodup_e l) <-> In e l.
Proof.
  induction l as [|x l IH]; cbn [nodup_e]; [tauto|]. destruct (mem_edge x l) eqn:M.
  - rewrite IH. split; [intros H; right; exact H|]. intros [->|H]; [apply mem_edge_In; exact M|exact H].
  - cbn [In]. rewrite IH. tauto.
Qed.

Lemma in_layers_of_nat k j : j < k -> In (N.of_nat j) (layers k).
Proof. intros H. apply in_layers. exists j. split; [exact H|reflexivity]. Qed.

Lemma fix_layers_in (WI : walk_inst) i w : In (i, w) (fix_layers WI) ->
  In i (layers (w_k WI)) /\ exists j, i = N.of_nat j /\ nth_error (w_fix WI) j = Some w.
Proof.
  unfold fix_layers. destruct (o_safe_cons (w_opts WI)); [intros []|]. intros H. apply filter_In in H. destruct H as [H _].
  destruct (firstn_zipn_in _ _ _ _ _ H) as (j & Lj & Ej & Hj). cbn [plus] in Ej. subst i.
  split; [apply in_layers_of_nat; exact Lj|exists j; split; [reflexivity|exact Hj]].
Qed.

Lemma fix_items_in (WI : walk_inst) e i m : In (e, i, m) (fix_items WI) ->
  exists w, In (i, w) (fix_layers WI) /\ In e w /\ m = count_edge e w.
Proof.
  unfold fix_items. destruct (fixing_active WI); [|intros []]. intros H. apply in_flat_map in H. destruct H as ([i' w] & Hiw & H).
  cbn [fst snd] in H. apply in_map_iff in H. destruct H as (e' & Eq & He'). injection Eq as E1 E2 E3. subst e' i' m.
  exists w. split; [exact Hiw|]. split; [apply nodup_e_In; exact He'|reflexivity].
Qed.

Lemma fix_items_fun (WI : walk_inst) e i m m' : In (e, i, m) (fix_items WI) -> In (e, i, m') (fix_items WI) -> m = m'.
Proof.
  intros H1 H2. destruct (fix_items_in _ _ _ _ H1) as (w1 & L1 & _ & ->). destruct (fix_items_in _ _ _ _ H2) as (w2 & L2 & _ & ->).
  destruct (fix_layers_in _ _ _ L1) as (_ & j1 & E1 & N1). destruct (fix_layers_in _ _ _ L2) as (_ & j2 & E2 & N2).
  assert (j1 = j2) by lia. subst j2. rewrite N1 in N2. injection N2 as ->. reflexivity.
Qed.

Lemma zero_set_in (WI : walk_inst) e i : In (e, i) (zero_set WI) -> In e (g_edges (w_graph WI)) /\ In i (layers (w_k WI)).
Proof.
  unfold zero_set. destruct (o_zero (w_opts WI)); [|intros []]. intros H. apply in_flat_map in H. destruct H as ([i' w] & Hiw & H).
  cbn [fst snd] in H. apply in_map_iff in H. destruct H as (e' & Eq & He'). injection Eq as -> ->.
  split; [|apply (fix_layers_in _ _ _ Hiw)].
  unfold zero_edges in He'. destruct w as [|e0 w']; [destruct He'|]. apply filter_In in He'. tauto.
Qed.

(* a sum of binaries that is at least 1 has a term equal to 1 *)
Lemma sum_bin_ge1 {A} (g : A -> Q) (l : list A) : (forall x, In x l -> bin (g x)) -> (1 <= sumq g l)%Q -> exists x, In x l /\ (g x == 1)%Q.
Proof.
  induction l as [|x l IH]; intros Hb S; cbn [sumq] in S; [lra|].
  destruct (Hb x (or_introl eq_refl)) as [H0|H1]; [|exists x; split; [left; reflexivity|exact H1]].
  destruct IH as (y & Hy & Gy); [intros y Hy; apply Hb; right; exact Hy|lra|]. exists y. split; [right; exact Hy|exact Gy].
Qed.

Lemma sub_rows_ne (WI : walk_inst) : all_cons WI <> [] -> sub_rows WI =
  flat_map (fun i => flat_map (fun e => [row_min1a i e; row_min1b WI i e]) (g_edges (w_graph WI))) (layers (w_k WI)) ++
  flat_map (fun i => map (row_s7a WI i) (zipn 0 (all_cons WI))) (layers (w_k WI)) ++
  map (fun j => row_s7b (w_k WI) (N.of_nat j)) (seq 0 (length (all_cons WI))).
Proof. intros H. unfold sub_rows. destruct (all_cons WI); [congruence|reflexivity]. Qed.
Lemma sub_cols_ne (WI : walk_inst) : all_cons WI <> [] -> sub_cols WI =
  flat_map (fun i => map (fun j => bincol (R i (N.of_nat j))) (seq 0 (length (all_cons WI)))) (layers (w_k WI)) ++
  flat_map (fun i => map (fun e => bincol (uvar e i)) (g_edges (w_graph WI))) (layers (w_k WI)).
Proof. intros H. unfold sub_cols. destruct (all_cons WI); [congruence|reflexivity]. Qed.

(* ---------------------------------------------------------------------------------------------- *)
(* soundness: a satisfying assignment yields an admissible decomposition                           *)
Section Sound.
  Variable I : kfdc_inst.
  Variable a : var -> Q.
  Let WI := kfdc_walk I.
  Let G := c_graph I.
  Let k := c_k I.
  Let E := g_edges G.
  Let s := g_src G.
  Let t := g_snk G.
  Hypothesis WFS : wf_stg G.
  Hypothesis Hae : o_allow_empty (c_opts I) = false.
  Hypothesis Hin : inputs_ok I.
  Hypothesis Hsat : sat a (encode_kfdc I).

  Definition Pof (i : N) : list node :=
    match reconstruct (resid E (xint a i)) s with Some (_, w) => w | None => [] end.
  Definition wof (i : N) : Q := a (W i).

  Let Hc := proj1 (kfdc_cols_sat I a Hsat).
  Let Hsc := proj1 (proj2 (kfdc_cols_sat I a Hsat)).
  Let Hkc := proj2 (proj2 (kfdc_cols_sat I a Hsat)).
  Let Hr := proj1 (kfdc_rows_sat I a Hsat).
  Let Hzr := proj1 (proj2 (kfdc_rows_sat I a Hsat)).
  Let Hfr := proj1 (proj2 (proj2 (kfdc_rows_sat I a Hsat))).
  Let Hsr := proj1 (proj2 (proj2 (proj2 (kfdc_rows_sat I a Hsat)))).
  Let Hkr := proj2 (proj2 (proj2 (proj2 (kfdc_rows_sat I a Hsat)))).

  Lemma Pof_spec i : In i (layers k) ->
    hd_error (Pof i) = Some s /\ last (Pof i) s = t /\
    (forall e, In e E -> count_e e (pairs (Pof i)) = Z.to_nat (xint a i e)) /\
    (forall e, ~ In e E -> count_e e (pairs (Pof i)) = 0).
  Proof.
    intros Hi. destruct (walk_layer_is_one_walk WI a WFS Hc Hr i Hae Hi) as (w & R & Hh & Hl & _ & C1 & C0).
    unfold Pof. fold G E s t in R |- *. change (g_edges (w_graph WI)) with E in R. change (g_src (w_graph WI)) with s in R.
    rewrite R. repeat split; assumption.
  Qed.

  Lemma mult_xint i e : In i (layers k) -> In e E -> mult Pof i e = xint a i e.
  Proof.
    intros Hi He. destruct (Pof_spec i Hi) as (_ & _ & C1 & _). unfold mult, multz. rewrite (C1 e He).
    destruct (edge_val WI a Hc i e Hi He) as (_ & X0 & _). lia.
  Qed.
  Lemma mult_outside i e : In i (layers k) -> ~ In e E -> mult Pof i e = 0%Z.
  Proof. intros Hi He. destruct (Pof_spec i Hi) as (_ & _ & _ & C0). unfold mult, multz. rewrite (C0 e He). reflexivity. Qed.

  Lemma edge_q i e : In i (layers k) -> In e E -> (a (evar e i) == inject_Z (mult Pof i e))%Q.
  Proof. intros Hi He. rewrite (mult_xint i e Hi He). apply (edge_val WI a Hc i e Hi He). Qed.

  Lemma Pof_pairs i : In i (layers k) -> incl (pairs (Pof i)) E.
  Proof.
    intros Hi e He. destruct (mem_edge e E) eqn:M; [apply mem_edge_In; exact M|exfalso].
    assert (Hn : ~ In e E) by (intros X; apply mem_edge_In in X; congruence).
    destruct (Pof_spec i Hi) as (_ & _ & _ & C0). apply count_pos_in in He. rewrite (C0 e Hn) in He. lia.
  Qed.

  Lemma inj_eq_Z x y : (inject_Z x == inject_Z y)%Q -> x = y.
  Proof. apply inject_Z_inj_eq. Qed.

  (* ---- decomposition ---- *)
  Lemma sound_decomposition : walk_decomposition I Pof wof.
  Proof.
    destruct (kfdc_sound I a WFS Hae Hsat) as (_ & H2 & H3). split; [|split].
    - intros i Hi. destruct (Pof_spec i Hi) as (A & B & _). split; [exact A|]. split; [exact B|apply Pof_pairs; exact Hi].
    - intros i Hi. destruct (H2 i Hi) as [[A _] B]. split; assumption.
    - intros e He. rewrite <- (H3 e He). apply sumq_ext. intros i Hi. unfold wof.
      rewrite (mult_xint i e Hi (kept_in_E I e He)). reflexivity.
  Qed.

  (* ---- caps ---- *)
  Lemma sound_caps : within_caps I Pof wof.
  Proof.
    destruct (kfdc_sound I a WFS Hae Hsat) as (_ & H2 & _). split; [|split; [|split]].
    - intros i Hi. destruct (H2 i Hi) as [[_ B] _]. exact B.
    - intros i e Hi He. rewrite <- (edge_q i e Hi He). apply (edge_val WI a Hc i e Hi He).
    - intros i e Hi He K2. pose proof (kept_in_E I e He) as HeE.
      assert (HR : Forall (sat_row a) (kfdc_prod_rows I e i)).
      { apply (sat_rows_incl a _ _ Hkr). intros r Hr0. unfold kfdc_rows. apply in_or_app. left.
        apply in_flat_map. exists e. split; [exact He|]. unfold kfdc_edge_rows. apply in_or_app. left.
        apply in_flat_map. exists i. split; [exact Hi|exact Hr0]. }
      unfold kfdc_prod_rows in HR. rewrite K2 in HR. cbn in HR.
      assert (HC : Forall (sat_col a) (intprod_cols (pvar e i) 0%Q (prod_ub I e) (num_bits (prod_ub I e)))).
      { apply Forall_forall. intros c Hc0. apply (sat_cols_in a _ _ Hkc). unfold kfdc_cols. do 2 (apply in_or_app; right).
        apply in_flat_map. exists e. split; [exact He|]. apply in_flat_map. exists i. split; [exact Hi|]. rewrite K2. cbn. exact Hc0. }
      pose proof (proj1 (intprod_rows_sem (evar e i) (W i) (pvar e i) 0%Q (prod_ub I e) (num_bits (prod_ub I e))
                    ltac:(split; discriminate) ltac:(split; discriminate) ltac:(split; discriminate) a) (conj HC HR)) as S.
      cbn zeta in S. destruct S as (HB & _ & HX & _).
      destruct (bits_range _ HB) as (z & Hz & Rz). rewrite map_length, seq_length in Rz.
      rewrite Hz, (edge_q i e Hi HeE) in HX. apply inj_eq_Z in HX. subst z. lia.
    - intros i e Hi He. pose proof (kept_in_E I e He) as HeE.
      rewrite <- (mult_xint i e Hi HeE) at 1 || idtac. unfold wof.
      rewrite (mult_xint i e Hi HeE), <- (kfdc_product I a Hsat e i He Hi).
      assert (C : sat_col a (wcol_ (pvar e i) (kfdc_wmax I) (c_int I))).
      { apply (sat_cols_in a _ _ Hkc). unfold kfdc_cols. apply in_or_app. left. apply in_flat_map. exists i. split; [exact Hi|].
        apply (in_map (fun e => wcol_ (pvar e i) (kfdc_wmax I) (c_int I))) in HeE. exact HeE. }
      unfold sat_col, wcol_ in C. cbn [cvar clb cub] in C. tauto.
  Qed.

  (* ---- safety fixing ---- *)
  Lemma geq_val e i m : In i (layers k) -> In e E -> In (e, i, m) (fix_items WI) ->
    is_scc_edge G e = true -> o_geq (c_opts I) = true -> (qnat m <= a (evar e i))%Q.
  Proof.
    intros Hi He Hit Hscc Hg. destruct (o_bounds (w_opts WI)) eqn:B.
    - destruct (edge_val WI a Hc i e Hi He) as (_ & _ & L & _). unfold edge_lb in L. rewrite B in L.
      destruct (find (fun x => edge_eqb (fst (fst x)) e && (snd (fst x) =? i)%N) (fix_items WI)) as [[[e2 i2] m2]|] eqn:F.
      + apply find_some in F. destruct F as [Hin2 F]. cbn [fst snd] in F. apply andb_true_iff in F. destruct F as [F1 F2].
        apply edge_eqb_eq in F1. apply N.eqb_eq in F2. subst e2 i2. rewrite (fix_items_fun WI e i m m2 Hit Hin2).
        change (w_graph WI) with G in L. change (w_opts WI) with (c_opts I) in L. rewrite Hscc, Hg in L. exact L.
      + exfalso. pose proof (find_none _ _ F _ Hit) as Nn. cbn [fst snd] in Nn.
        rewrite (proj2 (edge_eqb_eq e e) eq_refl), N.eqb_refl in Nn. discriminate Nn.
    - assert (R : sat_row a (mkrow [(evar e i, 1%Q)] SGe (qnat m))).
      { apply (sat_rows_in a _ _ Hfr). unfold fix_rows. fold WI. rewrite B. apply in_flat_map. exists (e, i, m). split; [exact Hit|].
        change (w_graph WI) with G. change (w_opts WI) with (c_opts I). rewrite Hscc, Hg. left. reflexivity. }
      unfold sat_row, mkrow in R. cbn [sns lhs rhs eval fst snd] in R. lra.
  Qed.

  Lemma sound_fixing : respects_fixing I Pof.
  Proof.
    split.
    - intros e i Hz. destruct (zero_set_in WI e i Hz) as [He Hi]. change (g_edges (w_graph WI)) with E in He. change (w_k WI) with k in Hi.
      pose proof (zero_val WI a Hzr e i Hz) as Z0. rewrite (edge_q i e Hi He) in Z0. apply (inj_eq_Z _ 0%Z). exact Z0.
    - intros e i m Hit. destruct (fix_items_in WI e i m Hit) as (w & Hl & Hew & _).
      destruct (fix_layers_in WI i w Hl) as (Hi & j & _ & Hj). change (w_k WI) with k in Hi.
      assert (He : In e E) by (apply (proj2 Hin w e (nth_error_In _ _ Hj) Hew)).
      split.
      + intros Hscc Hg. pose proof (geq_val e i m Hi He Hit Hscc Hg) as L. rewrite (edge_q i e Hi He) in L.
        unfold qnat in L. rewrite <- Zle_Qle in L. exact L.
      + intros Hscc. assert (O : In (e, i) (one_set WI)).
        { unfold one_set. apply in_map_iff. exists (e, i, m). split; [reflexivity|]. apply filter_In. split; [exact Hit|].
          cbn [fst]. apply negb_true_iff. exact Hscc. }
        pose proof (one_val WI a Hc Hfr e i Hi He O) as X1. rewrite (edge_q i e Hi He) in X1. apply (inj_eq_Z _ 1%Z). exact X1.
  Qed.

  (* ---- subset constraints ---- *)
  Lemma used_le i e : In i (layers k) -> In e E -> all_cons WI <> [] -> (a (uvar e i) <= usedq Pof i e)%Q.
  Proof.
    intros Hi He Hne.
    assert (C : sat_col a (bincol (uvar e i))).
    { apply (sat_cols_in a _ _ Hsc). fold WI. rewrite (sub_cols_ne WI Hne). apply in_or_app. right.
      apply in_flat_map. exists i. split; [exact Hi|]. apply (in_map (fun e => bincol (uvar e i))) in He. exact He. }
    apply bin_of_col in C.
    assert (R : sat_row a (row_min1a i e)).
    { apply (sat_rows_in a _ _ Hsr). fold WI. rewrite (sub_rows_ne WI Hne). apply in_or_app. left.
      apply in_flat_map. exists i. split; [exact Hi|]. apply in_flat_map. exists e. split; [exact He|]. left. reflexivity. }
    unfold sat_row, row_min1a, mkrow in R. cbn [sns lhs rhs eval fst snd] in R. rewrite (edge_q i e Hi He) in R.
    unfold usedq. destruct (Z.ltb_spec 0 (mult Pof i e)) as [L|L]; cbn [WalkEncComplete.indq].
    - destruct C as [C|C]; rewrite C; lra.
    - assert (mult Pof i e = 0%Z) by (unfold mult, multz in *; lia). rewrite H in R. change (inject_Z 0) with 0%Q in R. lra.
  Qed.

  Lemma sound_constraints : realises_constraints I Pof.
  Proof.
    intros j c Hj. assert (Hne : all_cons WI <> []) by (intros X; fold WI in Hj; rewrite X in Hj; destruct j; discriminate).
    fold WI in Hj.
    assert (Hjl : j < length (all_cons WI)) by (apply nth_error_Some; congruence).
    (* 7b: some layer has R = 1 *)
    assert (R7b : sat_row a (row_s7b k (N.of_nat j))).
    { apply (sat_rows_in a _ _ Hsr). fold WI. rewrite (sub_rows_ne WI Hne).
      do 2 (apply in_or_app; right). apply (in_map (fun j => row_s7b (w_k WI) (N.of_nat j))). apply in_seq. lia. }
    unfold sat_row, row_s7b, mkrow in R7b. cbn [sns lhs rhs] in R7b. rewrite (eval_map_const a (fun i => R i (N.of_nat j)) 1%Q) in R7b.
    destruct (sum_bin_ge1 (fun i => a (R i (N.of_nat j))) (layers k)) as (i & Hi & Ri).
    { intros i Hi. apply bin_of_col. apply (sat_cols_in a _ _ Hsc). fold WI. rewrite (sub_cols_ne WI Hne).
      apply in_or_app. left. apply in_flat_map. exists i. split; [exact Hi|].
      apply (in_map (fun j => bincol (R i (N.of_nat j)))). apply in_seq. lia. }
    { lra. }
    exists i. split; [exact Hi|].
    (* 7a of that layer *)
    assert (R7a : sat_row a (row_s7a WI i (N.of_nat j, c))).
    { apply (sat_rows_in a _ _ Hsr). fold WI. rewrite (sub_rows_ne WI Hne).
      apply in_or_app. right. apply in_or_app. left. apply in_flat_map. exists i. split; [exact Hi|].
      apply in_map. apply (nth_zipn_w (all_cons WI) 0 j c Hj). }
    unfold sat_row, row_s7a, mkrow in R7a. cbn [sns lhs rhs fst snd] in R7a. rewrite eval_app in R7a.
    rewrite (eval_map_const a (fun e => uvar e i) 1%Q) in R7a. cbn [eval fst snd] in R7a. rewrite Ri in R7a.
    change (w_cov WI) with (c_cov I) in R7a.
    assert (L : (sumq (fun e => a (uvar e i)) (nodup_e c) <= sumq (usedq Pof i) (nodup_e c))%Q).
    { apply wsumq_le. intros e He. apply (proj1 (nodup_e_In e c)) in He. apply (used_le i e Hi); [|exact Hne].
      apply (proj1 Hin c e (nth_error_In _ _ Hj) He). }
    lra.
  Qed.

  Lemma sound_given : uses_given I wof.
  Proof.
    intros ws j w Hg Hj. unfold wof.
    assert (R : sat_row a (mkrow [(W (N.of_nat j), 1%Q)] SEq w)).
    { apply (sat_rows_in a _ _ Hkr). unfold kfdc_rows. apply in_or_app. right. unfold kfdc_given_rows. rewrite Hg.
      apply (in_map (fun iw => mkrow [(W (fst iw), 1%Q)] SEq (snd iw)) _ (N.of_nat j, w)). apply (nth_zipn_w ws 0 j w Hj). }
    unfold sat_row, mkrow in R. cbn [sns lhs rhs eval fst snd] in R. lra.
  Qed.

  Theorem kfdc_sound_admissible : admissible I Pof wof.
  Proof. split; [apply sound_decomposition|]. split; [apply sound_caps|]. split; [apply sound_fixing|]. split; [apply sound_constraints|apply sound_given]. Qed.
End Sound.

(* C04 (cyclic): the LP for k is feasible exactly when the flow has an admissible decomposition into k walks *)
Theorem kfdc_feasible_iff_within_caps (I : kfdc_inst) :
  wf_stg (c_graph I) -> o_allow_empty (c_opts I) = false -> inputs_ok I ->
  ((exists a, sat a (encode_kfdc I)) <-> (exists P wt, admissible I P wt)).
Proof.
  intros WF Hae Hin. split.
  - intros (a & Ha). exists (Pof I a), (wof a). apply kfdc_sound_admissible; assumption.
  - intros (P & wt & H). apply (kfdc_complete_admissible I P wt WF H).
Qed.

(* ---------------------------------------------------------------------------------------------- *)
(* For kFlowDecompCycles as it is (repetition cap = the edge's own flow value, c_scale_free = false) the bit-width and
   product clauses of within_caps follow from the flow equation: the caps that matter are  wt i <= w_max  and
   mult_i(e) <= cap(e). *)
Lemma qtrunc_floor q : qtrunc q = inject_Z (Qfloor q).
Proof. destruct q as [n d]. reflexivity. Qed.
Lemma int_le_floor z q : (inject_Z z <= q)%Q -> (inject_Z z <= inject_Z (Qfloor q))%Q.
Proof. intros H. rewrite <- Zle_Qle. rewrite <- (Qfloor_Z z). apply Qfloor_resp_le. exact H. Qed.

Lemma lookup_q_default e l d : lookup_q e l d = lookup_q e l 0%Q \/ (lookup_q e l d = d /\ lookup_q e l 0%Q = 0%Q).
Proof.
  induction l as [|[e' q] l IH]; cbn [lookup_q]; [right; split; reflexivity|]. destruct (edge_eqb e' e); [left; reflexivity|exact IH].
Qed.

Section Simple.
  Variable I : kfdc_inst.
  Variable P : N -> list node.
  Variable wt : N -> Q.
  Let k := c_k I.
  Let wm := kfdc_wmax I.
  Hypothesis Hsf : c_scale_free I = false.
  Hypothesis Hpos : (0 < wm)%Q.
  Hypothesis HD : walk_decomposition I P wt.
  Hypothesis Hwt : forall i, In i (layers k) -> (wt i <= wm)%Q.
  Hypothesis Hcap : forall i e, In i (layers k) -> In e (g_edges (c_graph I)) -> (inject_Z (mult P i e) <= cap (kfdc_walk I) e)%Q.

  Lemma flow_le_max e : In e (kept_edges I) -> (flow_of I e <= max_flow I)%Q.
  Proof.
    intros He. unfold max_flow. apply (proj2 (list_max_ge (map (flow_of I) (kept_edges I)) 0%Q)).
    apply in_map. exact He.
  Qed.
  Lemma max_flow_nonneg : (0 <= max_flow I)%Q.
  Proof. unfold max_flow. apply (proj1 (list_max_ge (map (flow_of I) (kept_edges I)) 0%Q)). Qed.

  Lemma k_pos i : In i (layers k) -> (1 <= qnat k)%Q.
  Proof.
    intros Hi. apply in_layers in Hi. destruct Hi as (n & Hn & _). unfold qnat. change 1%Q with (inject_Z 1). rewrite <- Zle_Qle. lia.
  Qed.

  (* an integral quantity bounded by a flow value is bounded by w_max / k *)
  Lemma below_unit i z : In i (layers k) -> (c_int I = true -> True) ->
    (if c_int I then exists y : Z, (z == inject_Z y)%Q else True) -> (0 <= z)%Q -> (z <= max_flow I)%Q -> (z <= wm)%Q.
  Proof.
    intros Hi _ Hz Z0 Hle. pose proof (k_pos i Hi) as K1. pose proof max_flow_nonneg as M0.
    unfold wm, kfdc_wmax. fold k. destruct (c_int I).
    - destruct Hz as (y & Ey). rewrite qtrunc_floor. rewrite Ey in Hle, Z0 |- *.
      pose proof (int_le_floor y _ Hle) as F. nra.
    - nra.
  Qed.

  Lemma term_le_flow i e : In i (layers k) -> In e (kept_edges I) -> (wt i * inject_Z (mult P i e) <= flow_of I e)%Q.
  Proof.
    intros Hi He. destruct HD as (_ & Hw & Hf). rewrite <- (Hf e He). fold k.
    apply (wsumq_ge_term (fun i => (wt i * inject_Z (mult P i e))%Q) (layers k) i); [|exact Hi].
    intros j Hj. destruct (Hw j Hj) as [W0 _].
    assert (0 <= inject_Z (mult P j e))%Q by (change 0%Q with (inject_Z 0); rewrite <- Zle_Qle; unfold mult, multz; lia). nra.
  Qed.

  Theorem within_caps_simple : within_caps I P wt.
  Proof.
    destruct HD as (_ & Hw & _).
    assert (M0 : forall i e, (0 <= inject_Z (mult P i e))%Q) by (intros; change 0%Q with (inject_Z 0); rewrite <- Zle_Qle; unfold mult, multz; lia).
    split; [exact Hwt|]. split; [exact Hcap|]. split.
    - intros i e Hi He _. unfold prod_ub. rewrite Hsf. fold wm.
      destruct (num_bits_spec wm ltac:(lra)) as [NB Nmin]. unfold pow2 in NB.
      assert (Goal : (inject_Z (mult P i e) + 1 <= wm + 1)%Q \/ (mult P i e <= 1)%Z).
      { pose proof (Hcap i e Hi (kept_in_E I e He)) as C. unfold cap in C. cbn [w_graph w_rep w_rep_default kfdc_walk] in C.
        destruct (is_scc_edge (c_graph I) e).
        - left. unfold kfdc_rep, kfdc_rep_default in C. rewrite Hsf in C. cbn [andb] in C.
          destruct (lookup_q_default e (c_flow I) (kfdc_wmax I)) as [Eq|[Eq _]]; rewrite Eq in C.
          + fold (flow_of I e) in C. pose proof (flow_le_max e He) as FM.
            assert ((inject_Z (mult P i e) <= wm)%Q); [|lra].
            apply (below_unit i _ Hi (fun _ => Logic.I)); [destruct (c_int I); [exists (mult P i e); reflexivity|exact Logic.I]|apply M0|lra].
          + fold wm in C. lra.
        - right. rewrite <- Zle_Qle in C || idtac. change 1%Q with (inject_Z 1) in C. rewrite <- Zle_Qle in C. exact C. }
      destruct Goal as [G1|G1].
      + assert (inject_Z (mult P i e + 1) <= inject_Z (2 ^ Z.of_nat (num_bits wm)))%Q by (rewrite inject_Z_plus; change (inject_Z 1) with 1%Q; lra).
        rewrite <- Zle_Qle in H. lia.
      + assert (1 <= num_bits wm)%nat.
        { destruct (num_bits wm) eqn:Nb; [|lia]. exfalso. change (inject_Z (2 ^ Z.of_nat 0)) with 1%Q in NB. lra. }
        assert (2 ^ 1 <= 2 ^ Z.of_nat (num_bits wm))%Z by (apply Z.pow_le_mono_r; lia). lia.
    - intros i e Hi He. pose proof (term_le_flow i e Hi He) as T. pose proof (flow_le_max e He) as FM.
      destruct (Hw i Hi) as [W0 Wi].
      apply (below_unit i _ Hi (fun _ => Logic.I)); [|pose proof (M0 i e); nra|lra].
      destruct (c_int I) eqn:Ci; [|exact Logic.I]. destruct (Wi eq_refl) as (y & Ey). exists (y * mult P i e)%Z.
      rewrite Ey, inject_Z_mult. reflexivity.
  Qed.
End Simple.
