(* C03 in NODE mode WITH additional_starts / additional_ends, in the caller's terms.  The caller passes S, T (nodes of the graph): a
   node path may start at any node of S as well as at a node without in-edges, and end at any node of T as well as at a node without
   out-edges (DilworthNode.nwalk).  The library attaches the global source to v.0 for v in S and v.1 to the global sink for v in T
   (NodeExpandedDiGraph.get_expanded_additional_starts / _ends, then AbstractSourceSinkGraph: Aug.aug_edges with S' = map x0 S,
   T' = map x1 T; C10_additional_starts_attach_exactly).  Everything of NodeFlowE2E.v is redone for arbitrary S, T; the statements of
   NodeFlowE2E.v are the instances S = T = [] (nwalk_nil_iff, node_decomposition_nil_iff, and the corollary at the end). *)
From Coq Require Import List NArith ZArith QArith Lqa Bool Arith Lia Permutation.
Import ListNotations.
From FP Require Import Lin PathEnc Euler EulerProofs1 PathEncProofs PathEncComplete Aug AugProofs DagDecode WfCheck EndToEnd1 EndToEnd2 EndToEnd3
                       EndToEndCover Search SearchProofs1 SearchProofs2 Dilworth ErrEncIgnore DilworthNode NodeFlowE2E.
From FP Require Peel.
Set Default Timeout 60.
Local Close Scope Q_scope.

(* ---------------------------------------------------------------------------------------------- the s-t graph with S, T *)
Definition st_ofST (V : list node) (E : list edge) (S T : list node) (s t : node) : stgraph :=
  let A := aug_edges V E S T s t in
  {| g_nodes := s :: t :: V; g_edges := A; g_src := s; g_snk := t;
     g_succ := table (succ_of A) (s :: t :: V); g_pred := table (pred_of A) (s :: t :: V) |}.

Section StOfST.
  Variables (V : list node) (E : list edge) (S T : list node) (s t : node).
  Hypothesis Hs : ~ In s V.
  Hypothesis Ht : ~ In t V.
  Hypothesis Hst : s <> t.
  Hypothesis HE : forall e, In e E -> In (fst e) V /\ In (snd e) V.
  Hypothesis NDV : NoDup V.
  Hypothesis NDE : NoDup E.

  Let A := aug_edges V E S T s t.

  Lemma synth_nodup_ST : forall l, NoDup l -> (forall u, In u l -> In u V) ->
    NoDup (flat_map (fun u => (if is_start E S u then [(s, u)] else []) ++ (if is_end E T u then [(u, t)] else [])) l).
  Proof.
    induction l as [|u l IH]; intros ND Hl; [constructor|]. inversion ND as [|? ? Hu ND']; subst. cbn [flat_map].
    assert (HuV : In u V) by (apply Hl; left; reflexivity).
    assert (Hrest : forall e, In e (flat_map (fun u => (if is_start E S u then [(s, u)] else []) ++ (if is_end E T u then [(u, t)] else [])) l) ->
                      exists u', In u' l /\ (e = (s, u') \/ e = (u', t))).
    { intros e He. apply in_flat_map in He. destruct He as (u' & Hu' & He). exists u'. split; [exact Hu'|].
      apply in_app_or in He. destruct He as [He|He].
      - destruct (is_start E S u'); [destruct He as [<-|[]]; left; reflexivity|destruct He].
      - destruct (is_end E T u'); [destruct He as [<-|[]]; right; reflexivity|destruct He]. }
    apply NoDup_app_intro.
    - apply NoDup_app_intro.
      + destruct (is_start E S u); [constructor; [intros []|constructor]|constructor].
      + destruct (is_end E T u); [constructor; [intros []|constructor]|constructor].
      + intros e H1 H2. destruct (is_start E S u); [|destruct H1]. destruct H1 as [<-|[]].
        destruct (is_end E T u); [|destruct H2]. destruct H2 as [H2|[]]. inversion H2. subst. contradiction.
    - apply IH; [exact ND'|]. intros x Hx. apply Hl. right. exact Hx.
    - intros e H1 H2. destruct (Hrest e H2) as (u' & Hu' & Hcase).
      assert (Hne : u' <> u) by (intros ->; contradiction).
      assert (Hu'V : In u' V) by (apply Hl; right; exact Hu').
      apply in_app_or in H1. destruct H1 as [H1|H1].
      + destruct (is_start E S u); [|destruct H1]. destruct H1 as [<-|[]]. destruct Hcase as [Eq|Eq]; inversion Eq; subst.
        * congruence.
        * contradiction.
      + destruct (is_end E T u); [|destruct H1]. destruct H1 as [<-|[]]. destruct Hcase as [Eq|Eq]; inversion Eq; subst.
        * contradiction.
        * congruence.
  Qed.

  Lemma aug_nodup_ST : NoDup A.
  Proof.
    unfold A, aug_edges. apply NoDup_app_intro; [exact NDE|apply synth_nodup_ST; [exact NDV|auto]|].
    intros e H1 H2. apply in_flat_map in H2. destruct H2 as (u & Hu & H2). apply HE in H1.
    apply in_app_or in H2. destruct H2 as [H2|H2].
    - destruct (is_start E S u); [|destruct H2]. destruct H2 as [<-|[]]. cbn in H1. tauto.
    - destruct (is_end E T u); [|destruct H2]. destruct H2 as [<-|[]]. cbn in H1. tauto.
  Qed.

  Lemma aug_ends_ST e : In e A -> In (fst e) (s :: t :: V) /\ In (snd e) (s :: t :: V).
  Proof.
    intros He. apply (aug_in V E S T s t) in He. destruct He as [He|[(u & Hu & _ & ->)|(u & Hu & _ & ->)]].
    - apply HE in He. cbn. tauto.
    - cbn. tauto.
    - cbn. tauto.
  Qed.

  Theorem st_ofST_wf : wf_graph (st_ofST V E S T s t).
  Proof.
    constructor; cbn [st_ofST g_nodes g_edges g_src g_snk g_succ g_pred]; fold A.
    - exact aug_nodup_ST.
    - exact aug_ends_ST.
    - intros v. unfold succs. cbn [st_ofST g_succ]. fold A. rewrite lookup_table.
      destruct (memnb v (s :: t :: V)) eqn:M; [reflexivity|].
      unfold succ_of. rewrite filter_nil_not_node; [reflexivity|]. intros e He. apply N.eqb_neq. intros Eq.
      assert (H : In v (s :: t :: V)) by (rewrite <- Eq; apply (aug_ends_ST e He)). apply memnb_In in H. congruence.
    - intros v. unfold preds. cbn [st_ofST g_pred]. fold A. rewrite lookup_table.
      destruct (memnb v (s :: t :: V)) eqn:M; [apply Permutation_refl|].
      unfold pred_of. rewrite filter_nil_not_node; [constructor|]. intros e He. apply N.eqb_neq. intros Eq.
      assert (H : In v (s :: t :: V)) by (rewrite <- Eq; apply (aug_ends_ST e He)). apply memnb_In in H. congruence.
    - intros [a b] He Eq. cbn in Eq. subst b. revert He. apply aug_no_into_s; assumption.
    - intros [a b] He Eq. cbn in Eq. subst a. revert He. apply aug_no_out_t; assumption.
    - exact Hst.
  Qed.

  Variable topo : list node.
  Hypothesis Htopo : forall u v, In (u, v) E -> (posn topo u < posn topo v)%nat.

  Theorem st_rank_increasing_ST : forall u v, In (u, v) A -> (st_rank s t topo u < st_rank s t topo v)%nat.
  Proof.
    intros u v He. apply (aug_in V E S T s t) in He. unfold st_rank.
    destruct He as [He|[(x & Hx & _ & Eq)|(x & Hx & _ & Eq)]].
    - pose proof (HE _ He) as [Hu Hv]. cbn in Hu, Hv.
      destruct (N.eqb_spec u s) as [->|_]; [contradiction|]. destruct (N.eqb_spec u t) as [->|_]; [contradiction|].
      destruct (N.eqb_spec v s) as [->|_]; [contradiction|]. destruct (N.eqb_spec v t) as [->|_]; [contradiction|].
      specialize (Htopo u v He). lia.
    - injection Eq as -> ->. rewrite N.eqb_refl.
      destruct (N.eqb_spec x s) as [->|_]; [contradiction|]. destruct (N.eqb_spec x t); lia.
    - injection Eq as -> ->. destruct (N.eqb_spec x s) as [->|_]; [contradiction|].
      destruct (N.eqb_spec x t) as [->|_]; [contradiction|]. rewrite N.eqb_refl.
      destruct (N.eqb_spec t s) as [E'|_]; [congruence|]. pose proof (posn_le s t Hst topo x). lia.
  Qed.

End StOfST.

(* ---------------------------------------------------------------------------------------------- the caller's notions with S, T *)
Definition node_decompositionST (V : list node) (E : list PathEnc.edge) (S T : list node) (fv : node -> Z) (ign : list node)
                                (D : list (list node * Z)) : Prop :=
  Forall (fun pw => nwalk V E S T (fst pw) /\ (0 <= snd pw)%Z) D /\
  forall v, In v V -> ~ In v ign -> node_explained D v = fv v.

Definition synthST (V : list node) (E : list PathEnc.edge) (S T : list node) (s t : node) : list PathEnc.edge :=
  aug_source_edges V E S s ++ aug_sink_edges V E T t.

(* the instance node mode hands to the edge model: global source attached to v.0 for v in S, v.1 attached to the global sink for v in T *)
Definition node_instST (V : list node) (E : list PathEnc.edge) (S T : list node) (s t : node) (fv : node -> Z) (ign : list node) (wmax : Z) (k : nat) : kfd_inst :=
  {| f_base := {| p_graph := st_ofST (expV V) (expE V E) (map x0 S) (map x1 T) s t; p_k := k; p_allow_empty := false;
                  p_cons := []; p_cov := 1%Q; p_len := None |};
     f_flow := map (fun v => (nedge v, inject_Z (fv v))) V;
     f_ignore := synthST (expV V) (expE V E) (map x0 S) (map x1 T) s t ++ node_ignore E ign;
     f_wmax := inject_Z wmax; f_int := true |}.

Section NodeFlowST.
  Variables (V : list node) (E : list PathEnc.edge) (S T : list node) (s t : node).
  Variable topo : list node.
  Variable fv : node -> Z.
  Variable ign : list node.
  Variable wmax : Z.
  Hypothesis Hs : ~ In s (expV V).
  Hypothesis Ht : ~ In t (expV V).
  Hypothesis Hst : s <> t.
  Hypothesis HE : forall e, In e E -> In (fst e) V /\ In (snd e) V.
  Hypothesis NDV : NoDup V.
  Hypothesis NDE : NoDup E.
  Hypothesis Htopo : forall u v, In (u, v) E -> (posn topo u < posn topo v)%nat.
  Hypothesis HVtopo : incl V topo.
  Hypothesis Hwmax : forall v, In v V -> ~ In v ign -> (fv v <= wmax)%Z.
  Hypothesis Hwmax0 : (0 <= wmax)%Z.

  Let V' := expV V.
  Let E' := expE V E.
  Let S' := map x0 S.
  Let T' := map x1 T.
  Let A' := aug_edges V' E' S' T' s t.
  Let HE' := expE_ends V E HE.
  Let rank' := st_rank s t (exp_topo topo).
  Let Hrank' : forall u v, In (u, v) A' -> (rank' u < rank' v)%nat :=
    st_rank_increasing_ST V' E' S' T' s t Hs Ht Hst HE' (exp_topo topo) (exp_topo_increasing V E topo HVtopo Htopo).

  Lemma start_expands v : In v V -> is_start E S v = true -> is_start E' S' (x0 v) = true.
  Proof.
    intros Hv H. unfold is_start in *. apply orb_true_iff in H. apply orb_true_iff. destruct H as [H|H].
    - left. unfold indeg0 in *. apply negb_true_iff in H. apply negb_true_iff. apply not_true_iff_false. intros X.
      apply existsb_exists in X. destruct X as ([c d] & Hcd & Eq). cbn [snd] in Eq. apply N.eqb_eq in Eq. subst d.
      apply expE_in in Hcd. destruct Hcd as [(u & _ & _ & Eq)|(u & w & Huw & _ & Eq)]; [exact (x0_x1 _ _ Eq)|].
      apply x0_inj in Eq. subst w.
      assert (Y : existsb (fun e => (snd e =? v)%N) E = true) by (apply existsb_exists; exists (u, v); split; [exact Huw|apply N.eqb_refl]). congruence.
    - right. apply memn_In in H. apply memn_In. apply in_map. exact H.
  Qed.
  Lemma end_expands v : In v V -> is_end E T v = true -> is_end E' T' (x1 v) = true.
  Proof.
    intros Hv H. unfold is_end in *. apply orb_true_iff in H. apply orb_true_iff. destruct H as [H|H].
    - left. unfold outdeg0 in *. apply negb_true_iff in H. apply negb_true_iff. apply not_true_iff_false. intros X.
      apply existsb_exists in X. destruct X as ([c d] & Hcd & Eq). cbn [fst] in Eq. apply N.eqb_eq in Eq. subst c.
      apply expE_in in Hcd. destruct Hcd as [(u & _ & Eq & _)|(u & w & Huw & Eq & _)]; [exact (x0_x1 _ _ (eq_sym Eq))|].
      apply x1_inj in Eq. subst u.
      assert (Y : existsb (fun e => (fst e =? v)%N) E = true) by (apply existsb_exists; exists (v, w); split; [exact Huw|apply N.eqb_refl]). congruence.
    - right. apply memn_In in H. apply memn_In. apply in_map. exact H.
  Qed.

  Lemma nwalk_in_aug p : nwalk V E S T p -> incl (pairs (s :: expand p ++ [t])) A'.
  Proof.
    intros (Hne & HpV & Hw & Hhd & Hlast). destruct (expand_nonempty p Hne) as (a & r & Er & Ea). rewrite Er, pairs_st.
    assert (Hwalk := expand_walk V E p HpV Hw). rewrite Er in Hwalk.
    assert (HhdV : In (hd 0%N p) V) by (destruct p; [contradiction|apply HpV; left; reflexivity]).
    assert (HlastV : In (last p 0%N) V).
    { apply HpV. destruct (exists_last Hne) as (l' & z & ->). rewrite last_last. apply in_or_app. right. left. reflexivity. }
    intros e [<-|He].
    - apply (aug_spec_source V' E' S' T' s t Hs Hst HE'). split; [subst a; apply expV_in; exists (hd 0%N p); auto|].
      subst a. apply start_expands; assumption.
    - apply in_app_or in He. destruct He as [He|[<-|[]]].
      + apply (aug_in V' E' S' T' s t). left. apply Hwalk. exact He.
      + assert (El : last (a :: r) a = x1 (last p 0%N)).
        { rewrite <- Er. rewrite (last_default_irrel (expand p) a 0%N) by (rewrite Er; discriminate). apply expand_last. exact Hne. }
        rewrite El. apply (aug_spec_sink V' E' S' T' s t Ht Hst HE'). split; [apply expV_in; exists (last p 0%N); auto|].
        apply end_expands; assumption.
  Qed.

  (* a source-to-sink route of the expanded s-t graph, stripped of s and t, is the expansion of a node walk of the caller's graph *)
  Lemma walk_contracts r : incl (pairs (s :: r ++ [t])) A' -> exists p, r = expand p /\ nwalk V E S T p.
  Proof.
    intros Hin. destruct (aug_route_valid V' E' S' T' s t Hs Ht Hst HE' r Hin) as (Hne & HrV & Hw & Hstart & Hend).
    destruct r as [|a q]; [contradiction|]. cbn [hd] in Hstart.
    destruct (start_contracts V E S a (HrV a (or_introl eq_refl)) Hstart) as (v & -> & Hv & Hsv).
    assert (Hb : In (last (x0 v :: q) s) (expV V)).
    { apply HrV. destruct (exists_last (l := x0 v :: q) ltac:(discriminate)) as (l' & z & Eq). rewrite Eq, last_last. apply in_or_app. right. left. reflexivity. }
    destruct (end_contracts V E T _ Hb Hend) as (w & Ew & HwV & Hew).
    assert (Hl : exists w, last (x0 v :: q) 0%N = x1 w).
    { exists w. rewrite <- Ew. apply last_default_irrel. discriminate. }
    destruct (contract V E (length q) q v (le_n _) Hw Hl) as (p & Ep & Hp & HpV).
    exists (v :: p). split; [exact Ep|]. split; [discriminate|]. split; [exact HpV|]. split; [exact Hp|]. split; [exact Hsv|].
    assert (El : x1 (last (v :: p) 0%N) = x1 w).
    { rewrite <- Ew, Ep. rewrite (last_default_irrel (expand (v :: p)) s 0%N) by discriminate. symmetry. apply expand_last. discriminate. }
    apply x1_inj in El. rewrite El. exact Hew.
  Qed.

  Lemma nonignored_iffST e : (In e A' /\ mem_edge e (synthST V' E' S' T' s t) = false) <-> In e E'.
  Proof.
    split.
    - intros [He Hm]. apply (aug_in V' E' S' T' s t) in He. destruct He as [He|[(u & Hu & X & ->)|(u & Hu & X & ->)]]; [exact He| |]; exfalso.
      + assert (M : mem_edge (s, u) (synthST V' E' S' T' s t) = true).
        { apply mem_edge_In. unfold synthST, aug_source_edges. apply in_or_app. left. apply (in_map (fun u => (s, u))). apply filter_In. auto. }
        congruence.
      + assert (M : mem_edge (u, t) (synthST V' E' S' T' s t) = true).
        { apply mem_edge_In. unfold synthST, aug_sink_edges. apply in_or_app. right. apply (in_map (fun u => (u, t))). apply filter_In. auto. }
        congruence.
    - intros He. split; [apply (aug_in V' E' S' T' s t); left; exact He|].
      destruct (mem_edge e (synthST V' E' S' T' s t)) eqn:M; [exfalso|reflexivity]. apply mem_edge_In in M.
      destruct (HE' e He) as [H1 H2]. unfold synthST, aug_source_edges, aug_sink_edges in M. apply in_app_or in M.
      destruct M as [M|M]; apply in_map_iff in M; destruct M as (u & <- & _); cbn in *; contradiction.
  Qed.

  Lemma nonignored_is_nedgeST e : In e A' -> mem_edge e (synthST V' E' S' T' s t ++ node_ignore E ign) = false ->
    exists v, In v V /\ ~ In v ign /\ e = nedge v.
  Proof.
    intros He Hig. rewrite mem_edge_app in Hig. apply orb_false_iff in Hig. destruct Hig as [H1 H2].
    assert (HeE : In e E') by (apply nonignored_iffST; split; assumption).
    exact (proj1 (node_ignore_spec V E ign e HeE) H2).
  Qed.
  Lemma nedge_nonignoredST v : In v V -> ~ In v ign ->
    In (nedge v) A' /\ mem_edge (nedge v) (synthST V' E' S' T' s t ++ node_ignore E ign) = false.
  Proof.
    intros Hv Hni. assert (HeE : In (nedge v) E') by (apply expE_in; left; exists v; auto).
    destruct (proj2 (nonignored_iffST (nedge v)) HeE) as [H1 H2]. split; [exact H1|].
    rewrite mem_edge_app, H2. cbn [orb]. apply (node_ignore_spec V E ign (nedge v) HeE). exists v. auto.
  Qed.

  Section Forward.
    Variable D : list (list node * Z).
    Hypothesis HD : node_decompositionST V E S T fv ign D.
    Let k := length D.

    Lemma weight_boundST pw : In pw D -> (0 <= nw_of ign pw <= wmax)%Z.
    Proof.
      intros Hin. destruct HD as [HF Heq]. rewrite Forall_forall in HF. destruct (HF pw Hin) as [(Hne & HpV & _) Hw0].
      unfold nw_of. destruct (counts ign (fst pw)) eqn:C; [|lia]. split; [exact Hw0|].
      unfold counts in C. apply existsb_exists in C. destruct C as (v & Hvp & Hni). apply negb_true_iff in Hni.
      assert (HvV : In v V) by (apply HpV; exact Hvp).
      assert (Hnotin : ~ In v ign) by (intros H; apply memn_In in H; congruence).
      specialize (Hwmax v HvV Hnotin). rewrite <- (Heq v HvV Hnotin) in Hwmax.
      assert (Hge : (snd pw <= node_explained D v)%Z).
      { unfold node_explained.
        pose proof (sumL_ge_member (fun pw => (snd pw * zind (memn v (fst pw)))%Z) D pw) as H.
        assert (M : memn v (fst pw) = true) by (apply memn_In; exact Hvp). cbn beta in H. rewrite M in H. cbn [zind] in H.
        rewrite Z.mul_1_r in H. apply H; [|exact Hin].
        intros y Hy. destruct (HF y Hy) as [_ Hy0]. destruct (memn v (fst y)); cbn [zind]; lia. }
      lia.
    Qed.

    Theorem node_decomposition_expandsST : decomposition (node_instST V E S T s t fv ign wmax k) (nP s t D) (nw ign D).
    Proof.
      destruct HD as [HF Heq]. rewrite Forall_forall in HF.
      unfold decomposition. cbn [node_instST f_base p_graph p_k f_wmax f_int f_ignore f_flow st_ofST g_src g_snk g_edges].
      fold V' E' S' T' A'. split; [|split].
      - intros i Hi. assert (Hin : In (nth (N.to_nat i) D ([], 0%Z)) D).
        { apply in_layers in Hi. destruct Hi as (n & Hn & ->). rewrite Nat2N.id. apply nth_In. exact Hn. }
        destruct (HF _ Hin) as [Hr _]. unfold nP.
        pose proof (nwalk_in_aug _ Hr) as Hincl. destruct Hr as (Hne & _).
        destruct (expand_nonempty _ Hne) as (a & r & Er & _). rewrite Er in *.
        split; [reflexivity|]. split; [change (s :: (a :: r) ++ [t]) with ((s :: a :: r) ++ [t]); apply last_last|].
        split; [|exact Hincl].
        destruct (rank_walk_nodup A' rank' Hrank' ((a :: r) ++ [t]) s Hincl) as [ND _]. exact ND.
      - intros i Hi. assert (Hin : In (nth (N.to_nat i) D ([], 0%Z)) D).
        { apply in_layers in Hi. destruct Hi as (n & Hn & ->). rewrite Nat2N.id. apply nth_In. exact Hn. }
        unfold nw. destruct (weight_boundST _ Hin) as [W0 W1]. split.
        + split; [change 0%Q with (inject_Z 0); rewrite <- Zle_Qle; exact W0|rewrite <- Zle_Qle; exact W1].
        + intros _. eexists. reflexivity.
      - intros e He Hig. destruct (nonignored_is_nedgeST e He Hig) as (v & Hv & Hni & ->).
        rewrite (lookup_nedge fv V v Hv). rewrite <- (Heq v Hv Hni). unfold node_explained. rewrite sumL_sumq.
        unfold layers. rewrite sumq_map.
        rewrite (sumq_ext (fun n => (nw ign D (N.of_nat n) * indq (mem_edge (nedge v) (pairs (nP s t D (N.of_nat n)))))%Q)
                          (fun n => (fun pw => (inject_Z (nw_of ign pw) * indq (mem_edge (nedge v) (pairs (s :: expand (fst pw) ++ [t]))))%Q)
                                      (nth n D ([], 0%Z)))).
        2:{ intros n _. unfold nw, nP. rewrite Nat2N.id. reflexivity. }
        unfold k. rewrite (sumq_nth_seq (fun pw => (inject_Z (nw_of ign pw) * indq (mem_edge (nedge v) (pairs (s :: expand (fst pw) ++ [t]))))%Q) D ([], 0%Z)).
        apply sumq_ext. intros pw Hpw. destruct (HF _ Hpw) as [(Hne & _) _].
        rewrite (nedge_on_expanded_path V s t Hs Ht v (fst pw) Hv Hne). rewrite inject_Z_mult.
        destruct (memn v (fst pw)) eqn:M; cbn [indq zind].
        + assert (C : counts ign (fst pw) = true).
          { unfold counts. apply existsb_exists. exists v. split; [apply memn_In; exact M|]. apply negb_true_iff.
            apply not_true_iff_false. intros X. apply memn_In in X. contradiction. }
          unfold nw_of. rewrite C. reflexivity.
        + change (inject_Z 0) with 0%Q. ring.
    Qed.
  End Forward.

  Theorem expanded_decomposition_contractsST k P w : decomposition (node_instST V E S T s t fv ign wmax k) P w ->
    exists D, length D = k /\ node_decompositionST V E S T fv ign D.
  Proof.
    unfold decomposition. cbn [node_instST f_base p_graph p_k f_wmax f_int f_ignore f_flow st_ofST g_src g_snk g_edges].
    fold V' E' S' T' A'. intros (HP & Hw & Hf).
    destruct (choice_list (fun i pw => P i = s :: expand (fst pw) ++ [t] /\ nwalk V E S T (fst pw) /\ (w i == inject_Z (snd pw))%Q /\ (0 <= snd pw)%Z)
                          (layers k)) as (D & HF).
    { intros i Hi. destruct (HP i Hi) as (Hh & Hl & _ & Hin). destruct (P i) as [|a m] eqn:EP; [discriminate|]. cbn in Hh. injection Hh as ->.
      destruct m as [|b m']; [cbn in Hl; congruence|].
      destruct (exists_last (l := b :: m') ltac:(discriminate)) as (r & z & Er). rewrite Er in *.
      assert (z = t).
      { rewrite <- Hl. change (s :: r ++ [z]) with ((s :: r) ++ [z]). rewrite last_last. reflexivity. }
      subst z.
      destruct (walk_contracts r Hin) as (p & -> & Hp).
      destruct (Hw i Hi) as [[W0 _] Hint]. destruct (Hint eq_refl) as (z & Hz).
      exists (p, z). cbn [fst snd]. split; [reflexivity|]. split; [exact Hp|]. split; [exact Hz|].
      rewrite Hz in W0. change 0%Q with (inject_Z 0) in W0. rewrite <- Zle_Qle in W0. exact W0. }
    exists D. split.
    - rewrite <- (Forall2_len _ _ _ HF). unfold layers. rewrite map_length, seq_length. reflexivity.
    - split.
      + apply Forall_forall. intros pw Hpw. destruct (Forall2_in_r _ _ _ pw HF Hpw) as (i & _ & _ & H1 & _ & H2). split; assumption.
      + intros v Hv Hni. destruct (nedge_nonignoredST v Hv Hni) as [HeA Hig].
        specialize (Hf (nedge v) HeA Hig). rewrite (lookup_nedge fv V v Hv) in Hf.
        apply inject_Z_injective. rewrite <- Hf. unfold node_explained. rewrite sumL_sumq. symmetry.
        apply (sumq_Forall2 _ _ _ _ _ HF). intros i pw (EP & (Hne & _) & Ew & _).
        rewrite EP, (nedge_on_expanded_path V s t Hs Ht v (fst pw) Hv Hne), Ew, inject_Z_mult.
        destruct (memn v (fst pw)); cbn [indq zind]; reflexivity.
  Qed.

  Theorem node_decomposition_iffST k :
    (exists D, length D = k /\ node_decompositionST V E S T fv ign D) <->
    (exists P w, decomposition (node_instST V E S T s t fv ign wmax k) P w).
  Proof.
    split.
    - intros (D & <- & HD). exists (nP s t D), (nw ign D). exact (node_decomposition_expandsST D HD).
    - intros (P & w & H). exact (expanded_decomposition_contractsST k P w H).
  Qed.

  Theorem node_k_model_feasible_iffST k :
    (exists a, sat a (encode_kfd (node_instST V E S T s t fv ign wmax k))) <-> (exists D, length D = k /\ node_decompositionST V E S T fv ign D).
  Proof.
    rewrite node_decomposition_iffST.
    apply (kfd_feasible_iff (node_instST V E S T s t fv ign wmax k) rank' (Datatypes.S (Datatypes.S (length (exp_topo topo))))).
    - exact (st_ofST_wf V' E' S' T' s t Hs Ht Hst HE' (expV_nodup V NDV) (expE_nodup V E NDV NDE)).
    - reflexivity.
    - reflexivity.
    - exact Hrank'.
    - intros v. apply st_rank_le. exact Hst.
  Qed.
End NodeFlowST.

(* ================================================================================================================= *)
(* end to end with additional starts / ends, in the caller's terms *)
Theorem node_minflowdecomp_returns_the_minimum_ST
    (V : list node) (E : list PathEnc.edge) (S T : list node) (s t : node) (topo : list node) (fv : node -> Z) (ign : list node) (wmax : Z)
    (feasible : nat -> bool) (lb : nat) (sts : list raw) :
  NoDup V -> NoDup E -> (forall e, In e E -> In (fst e) V /\ In (snd e) V) ->
  (forall u v, In (u, v) E -> (posn topo u < posn topo v)%nat) -> incl V topo ->
  ~ In s (expV V) -> ~ In t (expV V) -> s <> t ->
  (forall v, In v V -> ~ In v ign -> (fv v <= wmax)%Z) -> (0 <= wmax)%Z ->
  (forall k, feasible k = true <-> exists a, sat a (encode_kfd (node_instST V E S T s t fv ign wmax k))) ->
  (forall i, (i < Datatypes.S (length (expE V E)) - lb)%nat -> exists x, nth_error sts i = Some x /\
             status_of x = if feasible (lb + i)%nat then Optimal else Infeasible) ->
  (forall k, (k < lb)%nat -> feasible k = false) ->
  (exists D0, (length D0 <= length (expE V E))%nat /\ node_decompositionST V E S T fv ign D0) ->
  exists kopt,
    so_res (mpc_solve true lb (Datatypes.S (length (expE V E))) sts) = Solved kopt /\
    (exists D, length D = kopt /\ node_decompositionST V E S T fv ign D) /\
    (forall k, (k < kopt)%nat -> ~ exists D, length D = k /\ node_decompositionST V E S T fv ign D).
Proof.
  intros NDV NDE HE Htopo HVt Hs Ht Hst Hwmax Hwmax0 Hspec Hsts Hlb (D0 & Hlen0 & HD0).
  assert (Hiff : forall k, feasible k = true <-> exists D, length D = k /\ node_decompositionST V E S T fv ign D).
  { intros k. rewrite Hspec. exact (node_k_model_feasible_iffST V E S T s t topo fv ign wmax Hs Ht Hst HE NDV NDE Htopo HVt Hwmax Hwmax0 k). }
  assert (Hfeas0 : feasible (length D0) = true) by (apply Hiff; exists D0; auto).
  destruct (least_true feasible (length D0) Hfeas0) as (kopt & Hk & Hgk & Hmin).
  exists kopt. split; [|split].
  - apply (search_min feasible lb (Datatypes.S (length (expE V E))) kopt sts Hsts Hgk Hmin). split.
    + destruct (Nat.le_gt_cases lb kopt) as [H|H]; [exact H|]. rewrite (Hlb kopt H) in Hgk. discriminate.
    + lia.
  - apply Hiff. exact Hgk.
  - intros k Hk' Hex. apply Hiff in Hex. rewrite (Hmin k Hk') in Hex. discriminate.
Qed.

(* ---- S = T = [] gives back the notions and the theorem of NodeFlowE2E.v *)
Lemma nwalk_nil_iff V E p : nwalk V E [] [] p <-> nroute V E p.
Proof.
  unfold nwalk, nroute, is_start, is_end, indeg0, outdeg0. cbn [memn existsb]. rewrite !orb_false_r, !negb_true_iff.
  assert (A : forall v, existsb (fun e : node * node => (snd e =? v)%N) E = false <-> forall u, ~ In (u, v) E).
  { intros v. split.
    - intros H u Hu. assert (X : existsb (fun e : node * node => (snd e =? v)%N) E = true) by (apply existsb_exists; exists (u, v); split; [exact Hu|apply N.eqb_refl]). congruence.
    - intros H. apply not_true_iff_false. intros X. apply existsb_exists in X. destruct X as ([u v'] & Hu & Q). apply N.eqb_eq in Q. cbn in Q. subst v'. exact (H u Hu). }
  assert (B : forall v, existsb (fun e : node * node => (fst e =? v)%N) E = false <-> forall w, ~ In (v, w) E).
  { intros v. split.
    - intros H w Hw. assert (X : existsb (fun e : node * node => (fst e =? v)%N) E = true) by (apply existsb_exists; exists (v, w); split; [exact Hw|apply N.eqb_refl]). congruence.
    - intros H. apply not_true_iff_false. intros X. apply existsb_exists in X. destruct X as ([v' w] & Hw & Q). apply N.eqb_eq in Q. cbn in Q. subst v'. exact (H w Hw). }
  rewrite A, B. tauto.
Qed.

Lemma node_decomposition_nil_iff V E fv ign D : node_decompositionST V E [] [] fv ign D <-> node_decomposition V E fv ign D.
Proof.
  unfold node_decompositionST, node_decomposition. rewrite !Forall_forall. split; intros [H1 H2]; (split; [|exact H2]);
    intros pw Hpw; destruct (H1 pw Hpw) as [A B]; (split; [apply nwalk_nil_iff in A || apply nwalk_nil_iff; exact A|exact B]).
Qed.

(* the statement of NodeFlowE2E.node_minflowdecomp_returns_the_minimum as the instance S = T = [] of the theorem above *)
Corollary node_minflowdecomp_returns_the_minimum_as_instance
    (V : list node) (E : list PathEnc.edge) (s t : node) (topo : list node) (fv : node -> Z) (ign : list node) (wmax : Z)
    (feasible : nat -> bool) (lb : nat) (sts : list raw) :
  NoDup V -> NoDup E -> (forall e, In e E -> In (fst e) V /\ In (snd e) V) ->
  (forall u v, In (u, v) E -> (posn topo u < posn topo v)%nat) -> incl V topo ->
  ~ In s (expV V) -> ~ In t (expV V) -> s <> t ->
  (forall v, In v V -> ~ In v ign -> (fv v <= wmax)%Z) -> (0 <= wmax)%Z ->
  (forall k, feasible k = true <-> exists a, sat a (encode_kfd (node_inst V E s t fv ign wmax k))) ->
  (forall i, (i < Datatypes.S (length (expE V E)) - lb)%nat -> exists x, nth_error sts i = Some x /\
             status_of x = if feasible (lb + i)%nat then Optimal else Infeasible) ->
  (forall k, (k < lb)%nat -> feasible k = false) ->
  (exists D0, (length D0 <= length (expE V E))%nat /\ node_decomposition V E fv ign D0) ->
  exists kopt,
    so_res (mpc_solve true lb (Datatypes.S (length (expE V E))) sts) = Solved kopt /\
    (exists D, length D = kopt /\ node_decomposition V E fv ign D) /\
    (forall k, (k < kopt)%nat -> ~ exists D, length D = k /\ node_decomposition V E fv ign D).
Proof.
  intros NDV NDE HE Htopo HVt Hs Ht Hst Hw Hw0 Hspec Hsts Hlb (D0 & Hl0 & HD0).
  destruct (node_minflowdecomp_returns_the_minimum_ST V E [] [] s t topo fv ign wmax feasible lb sts NDV NDE HE Htopo HVt Hs Ht Hst Hw Hw0
              Hspec Hsts Hlb) as (kopt & H1 & (D & HlD & HD) & H3).
  { exists D0. split; [exact Hl0|apply node_decomposition_nil_iff; exact HD0]. }
  exists kopt. split; [exact H1|]. split.
  - exists D. split; [exact HlD|apply node_decomposition_nil_iff; exact HD].
  - intros k Hk (D' & Hl' & HD'). apply (H3 k Hk). exists D'. split; [exact Hl'|apply node_decomposition_nil_iff; exact HD'].
Qed.

(* ================================================================================================================= *)
(* non-vacuity: the chain 1 -> 2 -> 3 with node weights 2, 5, 5.  Without additional starts NO node decomposition exists (every path
   runs 1-2-3, so nodes 1 and 2 would carry the same total); with the inner node 2 as additional start it has one with 2 paths
   (2-3 with weight 3, 1-2-3 with weight 2) and none with 1 path. *)
Definition sxV : list node := [1; 2; 3]%N.
Definition sxE : list PathEnc.edge := [(1, 2); (2, 3)]%N.
Definition sxfv (v : node) : Z := if (v =? 1)%N then 2%Z else 5%Z.
Definition sxD : list (list node * Z) := [([2; 3]%N, 3%Z); ([1; 2; 3]%N, 2%Z)].

Lemma sx_walk_nil p : nwalk sxV sxE [] [] p -> memn 1%N p = true /\ memn 2%N p = true.
Proof.
  intros (Hne & HpV & Hw & Hs & He). destruct p as [|a q]; [contradiction|]. cbn [hd] in Hs.
  assert (Ha : In a sxV) by (apply HpV; left; reflexivity).
  assert (a = 1%N) by (cbn in Ha; destruct Ha as [<-|[<-|[<-|[]]]]; [reflexivity|discriminate Hs|discriminate Hs]). subst a.
  split; [apply memn_In; left; reflexivity|]. destruct q as [|b q]; [cbn in He; discriminate He|].
  assert (Hb : In (1%N, b) sxE) by (apply Hw; left; reflexivity). cbn in Hb. destruct Hb as [Eq|[Eq|[]]]; [|discriminate Eq].
  injection Eq as <-. apply memn_In. right. left. reflexivity.
Qed.

Lemma sx_walk_end S p : nwalk sxV sxE S [] p -> memn 3%N p = true.
Proof.
  intros (Hne & HpV & _ & _ & He). apply memn_In.
  assert (Hl : In (last p 0%N) p) by (destruct (exists_last Hne) as (l' & z & ->); rewrite last_last; apply in_or_app; right; left; reflexivity).
  assert (Hl2 : In (last p 0%N) sxV) by (apply HpV; exact Hl). cbn in Hl2.
  destruct Hl2 as [Eq|[Eq|[Eq|[]]]]; rewrite <- Eq in He; try discriminate He. rewrite Eq. exact Hl.
Qed.

Lemma sx_premises :
  NoDup sxV /\ NoDup sxE /\ (forall e, In e sxE -> In (fst e) sxV /\ In (snd e) sxV) /\
  (forall u v, In (u, v) sxE -> (posn sxV u < posn sxV v)%nat) /\ incl sxV sxV /\
  ~ In 100%N (expV sxV) /\ ~ In 101%N (expV sxV) /\ 100%N <> 101%N /\
  (forall v, In v sxV -> ~ In v [] -> (sxfv v <= 5)%Z) /\
  (* without additional starts there is no node decomposition at all ... *)
  (forall D, ~ node_decompositionST sxV sxE [] [] sxfv [] D) /\
  (* ... with the inner node 2 as additional start there is one with 2 paths and none with 1 *)
  node_decompositionST sxV sxE [2%N] [] sxfv [] sxD /\ (length sxD <= length (expE sxV sxE))%nat /\
  ~ (exists D, length D = 1%nat /\ node_decompositionST sxV sxE [2%N] [] sxfv [] D).
Proof.
  split; [repeat constructor; cbn; intuition discriminate|].
  split; [repeat constructor; cbn; intuition discriminate|].
  split; [intros e He; cbn in He; destruct He as [<-|[<-|[]]]; cbn; tauto|].
  split; [intros u v He; cbn in He; destruct He as [Eq|[Eq|[]]]; injection Eq as <- <-; cbn; lia|].
  split; [apply incl_refl|].
  split; [cbn; intuition discriminate|]. split; [cbn; intuition discriminate|]. split; [discriminate|].
  split; [intros v Hv _; cbn in Hv; destruct Hv as [<-|[<-|[<-|[]]]]; cbn; lia|].
  split; [|split; [|split; [cbn; lia|]]].
  - intros D [HF Heq].
    assert (X : node_explained D 1%N = node_explained D 2%N).
    { clear Heq. unfold node_explained. induction D as [|[p w] D IH]; [reflexivity|]. inversion HF as [|? ? [Hp _] HF']; subst.
      cbn [Peel.sumL fold_right fst snd]. destruct (sx_walk_nil p Hp) as [-> ->]. f_equal. exact (IH HF'). }
    exfalso. pose proof (Heq 1%N ltac:(cbn; tauto) ltac:(intros [])) as H1. pose proof (Heq 2%N ltac:(cbn; tauto) ltac:(intros [])) as H2.
    rewrite X in H1. rewrite H1 in H2. discriminate H2.
  - split.
    + assert (R : forall p, p = [2; 3]%N \/ p = [1; 2; 3]%N -> nwalk sxV sxE [2%N] [] p).
      { intros p Hp. unfold nwalk. destruct Hp as [-> | ->];
          (split; [discriminate|]); (split; [intros x Hx; cbn in Hx |- *; tauto|]); (split; [intros e He; cbn in He |- *; tauto|]); split; reflexivity. }
      constructor; [split; [apply R; left; reflexivity|cbn; lia]|]. constructor; [split; [apply R; right; reflexivity|cbn; lia]|]. constructor.
    + intros v Hv _. cbn in Hv. destruct Hv as [<-|[<-|[<-|[]]]]; reflexivity.
  - intros (D & Hlen & HF & Heq). destruct D as [|[p w] [|]]; try discriminate Hlen.
    inversion HF as [|? ? [Hp _] _]; subst. cbn [fst] in Hp.
    pose proof (Heq 1%N ltac:(cbn; tauto) ltac:(intros [])) as H1. pose proof (Heq 3%N ltac:(cbn; tauto) ltac:(intros [])) as H3.
    unfold node_explained in H1, H3. cbn [Peel.sumL fold_right fst snd] in H1, H3. rewrite (sx_walk_end _ p Hp) in H3.
    destruct (memn 1 p); cbn [zind sxfv N.eqb Pos.eqb] in H1, H3; lia.
Qed.
