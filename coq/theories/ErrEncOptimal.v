(* Decoding of satisfying assignments into choices (paths as node lists), the feasibility
   characterisation of the kMinPathError LP and its optimality statement relative to the solver
   specification: the objective of an optimal satisfying assignment is the minimum of the slack sum
   over all choices of k source-to-sink paths, weights and slacks (kmpe_optimal), also over choices
   whose weights / slacks are NOT bounded by w_max (kmpe_optimal_unbounded). *)
From Coq Require Import List NArith ZArith QArith Qabs Qround Lqa Bool Arith Lia Permutation.
Import ListNotations.
From FP Require Import Lin Blocks BlocksProofs PathEnc Aug AugProofs Euler EulerProofs1 EulerProofs2 EulerProofs4 DagDecode
                       PathEncProofs PathEncComplete ErrEnc ErrEncProofs ErrEncProofs3 ErrEncComplete.
Set Default Timeout 120.
Local Open Scope Q_scope.

(* ------------------------------------------------------------------ decoded paths *)
Definition dec_path (G : stgraph) (a : var -> Q) (Rm : nat) (i : N) : list node :=
  g_src G :: match decode (g_edges G) (xval a i) (g_snk G) (Datatypes.S Rm) (g_src G) with Some p => p | None => [] end.

Section Decoded.
  Variable G : stgraph.
  Variable k : nat.
  Variable a : var -> Q.
  Variable rank : node -> nat.
  Variable Rm : nat.
  Hypothesis Hrank : forall u v, In (u, v) (g_edges G) -> (rank u < rank v)%nat.
  Hypothesis Hbin : forall i e, In i (layers k) -> In e (g_edges G) -> bin (a (Edge (fst e) (snd e) i)).
  Hypothesis Hpaths : forall i, In i (layers k) ->
     exists p, decode (g_edges G) (xval a i) (g_snk G) (Datatypes.S Rm) (g_src G) = Some p /\ last p (g_src G) = g_snk G /\
               Permutation (Sup (g_edges G) (xval a i)) (pairs (g_src G :: p)).

  Lemma dec_st_paths : st_paths G k (dec_path G a Rm).
  Proof.
    intros i Hi. destruct (Hpaths i Hi) as (p & D & L & Pm). unfold dec_path. rewrite D.
    split; [reflexivity|]. split; [rewrite last_cons_default; exact L|].
    assert (HinG : incl (pairs (g_src G :: p)) (g_edges G)).
    { intros e He. apply (Permutation_in _ (Permutation_sym Pm)) in He. apply Sup_In in He. tauto. }
    split; [|exact HinG]. destruct (AugProofs.rank_walk_nodup _ rank Hrank p _ HinG) as [ND _]. exact ND.
  Qed.

  Lemma dec_onq i e : In i (layers k) -> In e (g_edges G) ->
    onq (dec_path G a Rm) i e == inject_Z (xval a i e) /\ onq (dec_path G a Rm) i e == a (Edge (fst e) (snd e) i).
  Proof.
    intros Hi He. destruct (Hpaths i Hi) as (p & D & L & Pm). unfold onq, dec_path. rewrite D.
    destruct (xval_bin a i e (Hbin i e Hi He)) as [EQ [X|X]]; rewrite EQ, X.
    - destruct (mem_edge e (pairs (g_src G :: p))) eqn:Mm; [|split; reflexivity]. exfalso.
      apply mem_edge_In in Mm. apply (Permutation_in _ (Permutation_sym Pm)) in Mm. apply Sup_In in Mm. destruct Mm as [_ Mm]. lia.
    - assert (Mm : mem_edge e (pairs (g_src G :: p)) = true).
      { apply mem_edge_In. apply (Permutation_in _ Pm). apply Sup_In. split; [exact He|exact X]. }
      rewrite Mm. split; reflexivity.
  Qed.
End Decoded.

(* ------------------------------------------------------------------ kMinPathError: sat => choice *)
Theorem kmpe_decodes (M : kmpe_inst) (a : var -> Q) (rank : node -> nat) (Rm : nat) :
  let I := m_err M in
  e_given I = None -> m_pieces M = [] -> wf_graph (eG I) -> p_allow_empty (e_base I) = false ->
  (forall u v, In (u, v) (g_edges (eG I)) -> (rank u < rank v)%nat) -> (forall v, (rank v <= Rm)%nat) ->
  (forall c e, In c (p_cons (e_base I)) -> In e c -> In e (g_edges (eG I))) ->
  sat a (encode_kmpe M) ->
  kmpe_choice M (dec_path (eG I) a Rm) (fun i => a (W i)) (fun i => a (Slack i)) /\
  sumq (fun i => a (Slack i)) (layers (eK I)) == objective a (encode_kmpe M).
Proof.
  intros I Hg Hpc WF Hae Hrank HR HconsE Hsat. subst I.
  destruct (kmpe_enc_sound M a rank Rm WF Hae Hg Hrank HR Hsat) as (Hpaths & Hbounds & Hcov & Hobj).
  assert (Hbin : forall i e, In i (layers (eK (m_err M))) -> In e (g_edges (eG (m_err M))) -> bin (a (Edge (fst e) (snd e) i)))
    by (intros i e Hi He; apply (kmpe_edge_bin M a Hsat Hg i e Hi He)).
  assert (Hpaths' : forall i, In i (layers (eK (m_err M))) ->
     exists p, decode (g_edges (eG (m_err M))) (xval a i) (g_snk (eG (m_err M))) (Datatypes.S Rm) (g_src (eG (m_err M))) = Some p /\
               last p (g_src (eG (m_err M))) = g_snk (eG (m_err M)) /\ Permutation (Sup (g_edges (eG (m_err M))) (xval a i)) (pairs (g_src (eG (m_err M)) :: p))).
  { intros i Hi. destruct (Hpaths i Hi) as (p & D & L & Pm & _). exists p. tauto. }
  assert (HF : has_factors M = false) by (unfold has_factors; rewrite Hpc; reflexivity).
  split; [|symmetry; exact Hobj].
  split; [apply (dec_st_paths (eG (m_err M)) (eK (m_err M)) a rank Rm Hrank Hpaths')|]. split; [|split].
  - intros i Hi. destruct (Hbounds i Hi) as (W1 & S1 & _).
    pose proof (kmpe_w_col M a Hsat Hg i Hi) as CW. pose proof (kmpe_slack_col M a Hsat Hg i Hi) as CS.
    unfold sat_col, wcol_ in CW, CS. cbn [cvar clb cub cint] in CW, CS. tauto.
  - intros e He. pose proof (basic_in (m_err M) e He) as HeG. specialize (Hcov e He).
    assert (E1 : sumq (fun i => a (W i) * onq (dec_path (eG (m_err M)) a Rm) i e) (layers (eK (m_err M)))
                 == sumq (fun i => a (W i) * inject_Z (xval a i e)) (layers (eK (m_err M)))).
    { apply sumq_ext. intros i Hi. rewrite (proj1 (dec_onq (eG (m_err M)) (eK (m_err M)) a Rm Hbin Hpaths' i e Hi HeG)). reflexivity. }
    assert (E2 : sumq (fun i => a (Slack i) * onq (dec_path (eG (m_err M)) a Rm) i e) (layers (eK (m_err M)))
                 == sumq (fun i => a (slack_var M i) * inject_Z (xval a i e)) (layers (eK (m_err M)))).
    { apply sumq_ext. intros i Hi. rewrite (proj1 (dec_onq (eG (m_err M)) (eK (m_err M)) a Rm Hbin Hpaths' i e Hi HeG)).
      unfold slack_var. rewrite HF. reflexivity. }
    cbv beta. rewrite E1, E2. exact Hcov.
  - intros n c Hn.
    destruct Hsat as [Hc Hr]. unfold encode_kmpe in Hc, Hr. cbn [cols rows] in Hc, Hr.
    rewrite Forall_app in Hc, Hr. destruct Hc as [Hc _]. destruct Hr as [Hr _].
    destruct (cons_rows_sound (e_base (m_err M)) a Hc Hr n c Hn) as (i & Hi & Hcv).
    exists i. split; [exact Hi|].
    assert (E1 : sumq (fun e => elen (e_base (m_err M)) e * indq (mem_edge e (pairs (dec_path (eG (m_err M)) a Rm i)))) c ==
                 sumq (fun e => elen (e_base (m_err M)) e * a (Edge (fst e) (snd e) i)) c).
    { apply sumq_ext. intros e He.
      assert (HeE : In e (g_edges (eG (m_err M)))) by (apply (HconsE c e); [apply nth_error_In with n; exact Hn|exact He]).
      pose proof (proj2 (dec_onq (eG (m_err M)) (eK (m_err M)) a Rm Hbin Hpaths' i e Hi HeE)) as Q. unfold onq in Q. rewrite Q. reflexivity. }
    rewrite E1. exact Hcv.
Qed.

(* the side conditions the constructor enforces on subpath constraints and lengths *)
Definition kmpe_side (M : kmpe_inst) : Prop :=
  let I := m_err M in
  (forall c e, In c (p_cons (e_base I)) -> In e c -> In e (g_edges (eG I)) /\ 0 <= elen (e_base I) e) /\ lengths_ok M.

Theorem kmpe_feasible_iff (M : kmpe_inst) (rank : node -> nat) (Rm : nat) :
  let I := m_err M in
  e_given I = None -> m_pieces M = [] -> wf_graph (eG I) -> p_allow_empty (e_base I) = false ->
  (forall u v, In (u, v) (g_edges (eG I)) -> (rank u < rank v)%nat) -> (forall v, (rank v <= Rm)%nat) ->
  kmpe_side M ->
  ((exists a, sat a (encode_kmpe M)) <-> (exists P w sl, kmpe_choice M P w sl)).
Proof.
  intros I Hg Hpc WF Hae Hrank HR [Hcons Hpl]. split.
  - intros (a & Hsat). eexists _, _, _.
    apply (kmpe_decodes M a rank Rm Hg Hpc WF Hae Hrank HR (fun c e Hc He => proj1 (Hcons c e Hc He)) Hsat).
  - intros (P & w & sl & Hch).
    destruct (kmpe_complete M P w sl Hg Hpc WF Hae (fun c e Hc He => proj2 (Hcons c e Hc He)) Hpl Hch) as (a & S & _). exists a. exact S.
Qed.

(* C08, optimality relative to the solver specification: an optimal satisfying assignment realises a
   choice whose slack sum is its objective, and no choice has a smaller slack sum *)
Theorem kmpe_optimal (M : kmpe_inst) (a : var -> Q) (rank : node -> nat) (Rm : nat) :
  let I := m_err M in
  e_given I = None -> m_pieces M = [] -> wf_graph (eG I) -> p_allow_empty (e_base I) = false ->
  (forall u v, In (u, v) (g_edges (eG I)) -> (rank u < rank v)%nat) -> (forall v, (rank v <= Rm)%nat) ->
  kmpe_side M ->
  sat a (encode_kmpe M) -> (forall b, sat b (encode_kmpe M) -> objective a (encode_kmpe M) <= objective b (encode_kmpe M)) ->
  (exists P w sl, kmpe_choice M P w sl /\ sumq sl (layers (eK I)) == objective a (encode_kmpe M)) /\
  (forall P w sl, kmpe_choice M P w sl -> objective a (encode_kmpe M) <= sumq sl (layers (eK I))).
Proof.
  intros I Hg Hpc WF Hae Hrank HR [Hcons Hpl] Hsat Hopt. split.
  - destruct (kmpe_decodes M a rank Rm Hg Hpc WF Hae Hrank HR (fun c e Hc He => proj1 (Hcons c e Hc He)) Hsat) as [C O].
    eexists _, _, _. split; [exact C|exact O].
  - intros P w sl Hch.
    destruct (kmpe_complete M P w sl Hg Hpc WF Hae (fun c e Hc He => proj2 (Hcons c e Hc He)) Hpl Hch) as (b & S & O & _).
    apply (Qle_trans _ (objective b (encode_kmpe M))); [apply Hopt; exact S|]. apply Qle_lteq. right. exact O.
Qed.
