(* C10 for the DAG error models (ErrEnc.encode_klae / encode_kmpe as they are): the generated model depends on the
   weights, the ignore list and the error scaling only through the set of non-ignored edges (basic_edges) and the
   weights / scalings of those edges.  Consequences: the value of an ignored edge (ignore list, source/sink edge, scale 0)
   has no influence; scale 0 and membership in the ignore list give the same model; ignoring one more edge only relaxes. *)
From Coq Require Import List NArith ZArith QArith Qabs Qround Lqa Bool Arith Lia Permutation.
Import ListNotations.
From FP Require Import Lin Blocks BlocksProofs PathEnc PathEncProofs ErrEnc ErrEncProofs ErrEncProofs3.
Set Default Timeout 120.
Local Close Scope Q_scope.

Lemma flat_map_ext_in {A B} (f g : A -> list B) l : (forall x, In x l -> f x = g x) -> flat_map f l = flat_map g l.
Proof.
  induction l as [|x l IH]; intros H; cbn [flat_map]; [reflexivity|].
  rewrite (H x (or_introl eq_refl)), IH; [reflexivity|]. intros y Hy. apply H. right. exact Hy.
Qed.

(* ------------------------------------------------------------------ the frame *)
Definition err_agree (I J : err_inst) : Prop :=
  e_base I = e_base J /\ e_int I = e_int J /\ e_given I = e_given J /\ e_korig I = e_korig J /\
  basic_edges I = basic_edges J /\
  (forall e, In e (basic_edges J) -> flow_of I e = flow_of J e /\ scale_of I e = scale_of J e).

Lemma agree_wmax I J : err_agree I J -> max_flow I = max_flow J /\ w_max I = w_max J.
Proof.
  intros (Hb & Hi & Hg & _ & Hbe & Hf).
  assert (Hm : max_flow I = max_flow J).
  { unfold max_flow. rewrite Hbe. f_equal. apply map_ext_in. intros e He. apply (Hf e He). }
  split; [exact Hm|]. unfold w_max, eK. rewrite Hb, Hi, Hg, Hm. reflexivity.
Qed.

Theorem encode_klae_frame I J : err_agree I J -> encode_klae I = encode_klae J.
Proof.
  intros H. destruct (agree_wmax I J H) as [_ Hw]. destruct H as (Hb & Hi & Hg & Hk & Hbe & Hf).
  unfold encode_klae. f_equal.
  - rewrite Hb. f_equal. unfold klae_cols, pi_cols, w_cols, err_cols, eK, eG. rewrite Hb, Hi, Hg, Hw, Hbe. reflexivity.
  - rewrite Hb. f_equal. unfold klae_rows. rewrite Hg, Hbe. destruct (e_given J) as [ws|].
    + f_equal.
      * apply flat_map_ext_in. intros e He. unfold row_9aa_given, row_9ab_given. rewrite (proj1 (Hf e He)). reflexivity.
      * unfold row_max_paths, eG, eK. rewrite Hb, Hk. reflexivity.
    + apply flat_map_ext_in. intros e He. unfold klae_edge_rows, pi_prod_rows, row_9aa, row_9ab, eK. rewrite Hb, Hw, (proj1 (Hf e He)). reflexivity.
  - unfold klae_obj. rewrite Hbe. apply map_ext_in. intros e He. rewrite (proj2 (Hf e He)). reflexivity.
Qed.

Definition kmpe_agree (M N : kmpe_inst) : Prop := err_agree (m_err M) (m_err N) /\ m_len M = m_len N /\ m_pieces M = m_pieces N.

Theorem encode_kmpe_frame M N : kmpe_agree M N -> encode_kmpe M = encode_kmpe N.
Proof.
  intros (H & Hl & Hp). destruct (agree_wmax _ _ H) as [_ Hw]. destruct H as (Hb & Hi & Hg & Hk & Hbe & Hf).
  assert (Hpl : forall e, plen M e = plen N e) by (intros e; unfold plen; rewrite Hl; reflexivity).
  assert (Hml : max_length M = max_length N).
  { unfold max_length, eG. rewrite Hl, Hb. destruct (m_len N); [|reflexivity].
    generalize (g_edges (p_graph (e_base (m_err N)))). intros l0. induction l0 as [|e l0 IH]; cbn [fold_right]; [reflexivity|]. rewrite IH, Hpl. reflexivity. }
  assert (HF : has_factors M = has_factors N) by (unfold has_factors; rewrite Hp; reflexivity).
  assert (Hsu : sslack_ub M = sslack_ub N) by (unfold sslack_ub, max_factor; rewrite Hw, Hp; reflexivity).
  assert (Hsv : forall i, slack_var M i = slack_var N i) by (intros i; unfold slack_var; rewrite HF; reflexivity).
  assert (Hfc : factor_cols M = factor_cols N).
  { unfold factor_cols, min_factor, max_factor, eK. rewrite HF, Hsu, Hp, Hb. reflexivity. }
  assert (Hfr : factor_rows M = factor_rows N).
  { unfold factor_rows, eK. rewrite HF, Hsu, Hp, Hb. reflexivity. }
  unfold encode_kmpe. cbv zeta. f_equal.
  - rewrite Hb. f_equal. f_equal.
    + unfold pos_cols, eK, eG. rewrite Hml, Hb. reflexivity.
    + unfold kmpe_cols, w_cols, pi_cols, slack_cols, eK, eG. rewrite Hg, Hb, Hi, Hw, Hfc. reflexivity.
  - rewrite Hb. f_equal. f_equal.
    + unfold pos_rows, eK, eG. rewrite Hb. f_equal.
      * apply flat_map_ext_in. intros i _. apply map_ext. intros e. unfold row_pos, eG. rewrite Hb. f_equal. f_equal. apply map_ext. intros e'. rewrite Hpl. reflexivity.
      * apply map_ext. intros i. unfold row_len, eG. rewrite Hb. f_equal. f_equal. apply map_ext. intros e'. rewrite Hpl. reflexivity.
    + unfold kmpe_rows. rewrite Hfr, Hg, Hbe. f_equal. f_equal.
      * apply flat_map_ext_in. intros e He. destruct (Hf e He) as [F1 F2].
        unfold kmpe_edge_rows. rewrite Hg. destruct (e_given (m_err N)) as [ws|].
        -- unfold gamma_prod_rows, mrow_9aa_given, mrow_9ab_given, gamma_terms, eK. rewrite Hb, Hw, F1, F2.
           f_equal. apply flat_map_ext_in. intros i _. rewrite Hsv. reflexivity.
        -- unfold pi_prod_rows, gamma_prod_rows, mrow_9aa, mrow_9ab, gamma_terms, eK. rewrite Hb, Hw, F1, F2.
           f_equal. f_equal. apply flat_map_ext_in. intros i _. rewrite Hsv. reflexivity.
      * destruct (e_given (m_err N)); [|reflexivity]. unfold row_max_paths, eG, eK. rewrite Hb, Hk. reflexivity.
  - unfold kmpe_obj, eK. rewrite Hb. reflexivity.
Qed.

(* ------------------------------------------------------------------ modified instances *)
Definition with_flow (I : err_inst) (fl : list (PathEnc.edge * Q)) : err_inst :=
  {| e_base := e_base I; e_flow := fl; e_user_ignore := e_user_ignore I; e_scale := e_scale I; e_int := e_int I;
     e_given := e_given I; e_korig := e_korig I |}.
Definition with_ignore (I : err_inst) (ig : list PathEnc.edge) : err_inst :=
  {| e_base := e_base I; e_flow := e_flow I; e_user_ignore := ig; e_scale := e_scale I; e_int := e_int I;
     e_given := e_given I; e_korig := e_korig I |}.
Definition with_scale (I : err_inst) (sc : list (PathEnc.edge * Q)) : err_inst :=
  {| e_base := e_base I; e_flow := e_flow I; e_user_ignore := e_user_ignore I; e_scale := sc; e_int := e_int I;
     e_given := e_given I; e_korig := e_korig I |}.
Definition kwith (M : kmpe_inst) (I : err_inst) : kmpe_inst := {| m_err := I; m_len := m_len M; m_pieces := m_pieces M |}.

Lemma basic_spec I e : In e (basic_edges I) <-> In e (g_edges (eG I)) /\ mem_edge e (ign_all I) = false.
Proof. unfold basic_edges. rewrite filter_In, negb_true_iff. tauto. Qed.

Lemma mem_edge_app e l1 l2 : mem_edge e (l1 ++ l2) = mem_edge e l1 || mem_edge e l2.
Proof. unfold mem_edge. apply existsb_app. Qed.

Lemma edge_eqb_sym e1 e2 : edge_eqb e1 e2 = edge_eqb e2 e1.
Proof. unfold edge_eqb. rewrite (N.eqb_sym (fst e1)), (N.eqb_sym (snd e1)). reflexivity. Qed.

(* (1) the weight of an ignored edge -- listed, source/sink edge, or scaled by 0 -- has no influence on the model *)
Theorem err_ignored_value_agree (I : err_inst) (fl : list (PathEnc.edge * Q)) :
  (forall e, In e (g_edges (eG I)) -> mem_edge e (ign_all I) = false -> lookup_q e fl 0%Q = lookup_q e (e_flow I) 0%Q) ->
  err_agree (with_flow I fl) I.
Proof.
  intros H. repeat split; try reflexivity. apply basic_spec in H0. apply (H e (proj1 H0) (proj2 H0)).
Qed.

Theorem klae_ignored_value_has_no_influence (I : err_inst) (fl : list (PathEnc.edge * Q)) :
  (forall e, In e (g_edges (eG I)) -> mem_edge e (ign_all I) = false -> lookup_q e fl 0%Q = lookup_q e (e_flow I) 0%Q) ->
  encode_klae (with_flow I fl) = encode_klae I.
Proof. intros H. apply encode_klae_frame. apply err_ignored_value_agree. exact H. Qed.

Theorem kmpe_ignored_value_has_no_influence (M : kmpe_inst) (fl : list (PathEnc.edge * Q)) :
  (forall e, In e (g_edges (eG (m_err M))) -> mem_edge e (ign_all (m_err M)) = false ->
             lookup_q e fl 0%Q = lookup_q e (e_flow (m_err M)) 0%Q) ->
  encode_kmpe (kwith M (with_flow (m_err M) fl)) = encode_kmpe M.
Proof.
  intros H. apply encode_kmpe_frame. split; [|split; reflexivity]. apply (err_ignored_value_agree (m_err M) fl H).
Qed.

(* (2) error scale 0 is the same as membership in elements_to_ignore *)
Theorem err_scale_zero_agree (I : err_inst) (e0 : PathEnc.edge) :
  err_agree (with_scale I ((e0, 0%Q) :: e_scale I)) (with_ignore I (e0 :: e_user_ignore I)).
Proof.
  assert (Hm : forall e, mem_edge e (ign_all (with_scale I ((e0, 0%Q) :: e_scale I))) = mem_edge e (ign_all (with_ignore I (e0 :: e_user_ignore I)))).
  { intros e. unfold ign_all, eG. cbn [with_scale with_ignore e_user_ignore e_scale e_base].
    assert (F : filter (fun es : PathEnc.edge * Q => Qeq_bool (snd es) 0) ((e0, 0%Q) :: e_scale I)
                = (e0, 0%Q) :: filter (fun es => Qeq_bool (snd es) 0) (e_scale I)) by reflexivity.
    rewrite F. cbn [map fst]. rewrite !mem_edge_app.
    change (mem_edge e (e0 :: e_user_ignore I)) with (edge_eqb e e0 || mem_edge e (e_user_ignore I)).
    change (mem_edge e (e0 :: map fst (filter (fun es : PathEnc.edge * Q => Qeq_bool (snd es) 0) (e_scale I))))
      with (edge_eqb e e0 || mem_edge e (map fst (filter (fun es : PathEnc.edge * Q => Qeq_bool (snd es) 0) (e_scale I)))).
    destruct (edge_eqb e e0), (mem_edge e (e_user_ignore I)), (mem_edge e (st_edges (p_graph (e_base I)))),
      (mem_edge e (map fst (filter (fun es : PathEnc.edge * Q => Qeq_bool (snd es) 0) (e_scale I)))); reflexivity. }
  assert (Hb : basic_edges (with_scale I ((e0, 0%Q) :: e_scale I)) = basic_edges (with_ignore I (e0 :: e_user_ignore I))).
  { unfold basic_edges. apply filter_ext. intros e. rewrite Hm. reflexivity. }
  split; [reflexivity|]. split; [reflexivity|]. split; [reflexivity|]. split; [reflexivity|]. split; [exact Hb|].
  intros e He. split; [reflexivity|].
  apply basic_spec in He. destruct He as [_ He]. unfold ign_all in He. cbn [with_ignore e_user_ignore app] in He.
  cbn [mem_edge existsb] in He. apply orb_false_iff in He. destruct He as [He _].
  unfold scale_of. cbn [with_scale with_ignore e_scale lookup_q]. rewrite edge_eqb_sym, He. reflexivity.
Qed.

Theorem klae_scale_zero_is_ignore (I : err_inst) (e0 : PathEnc.edge) :
  encode_klae (with_scale I ((e0, 0%Q) :: e_scale I)) = encode_klae (with_ignore I (e0 :: e_user_ignore I)).
Proof. apply encode_klae_frame. apply err_scale_zero_agree. Qed.

Theorem kmpe_scale_zero_is_ignore (M : kmpe_inst) (e0 : PathEnc.edge) :
  encode_kmpe (kwith M (with_scale (m_err M) ((e0, 0%Q) :: e_scale (m_err M)))) =
  encode_kmpe (kwith M (with_ignore (m_err M) (e0 :: e_user_ignore (m_err M)))).
Proof. apply encode_kmpe_frame. split; [|split; reflexivity]. apply err_scale_zero_agree. Qed.

(* ------------------------------------------------------------------ (3) ignoring one more edge only relaxes *)
Lemma basic_drop (I : err_inst) (e0 : PathEnc.edge) :
  basic_edges (with_ignore I (e0 :: e_user_ignore I)) = filter (fun e => negb (edge_eqb e e0)) (basic_edges I).
Proof.
  unfold basic_edges, ign_all, eG. cbn [with_ignore e_user_ignore e_base e_scale app].
  induction (g_edges (p_graph (e_base I))) as [|e l IH]; [reflexivity|]. cbn [filter mem_edge existsb].
  fold (mem_edge e (e_user_ignore I ++ st_edges (p_graph (e_base I)) ++ map fst (filter (fun es => Qeq_bool (snd es) 0) (e_scale I)))).
  destruct (edge_eqb e e0) eqn:E0; cbn [orb negb].
  - destruct (negb (mem_edge e _)); [cbn [filter]; rewrite E0; cbn [negb]|]; exact IH.
  - destruct (negb (mem_edge e _)); [cbn [filter]; rewrite E0; cbn [negb]; f_equal|]; exact IH.
Qed.

Lemma Forall_flat_map_filter {A B} (Pr : B -> Prop) (f : A -> list B) (p : A -> bool) l :
  Forall Pr (flat_map f l) -> Forall Pr (flat_map f (filter p l)).
Proof.
  rewrite !Forall_flat_map. intros H x Hx. apply filter_In in Hx. apply H. tauto.
Qed.
Lemma Forall_map_filter {A B} (Pr : B -> Prop) (f : A -> B) (p : A -> bool) l :
  Forall Pr (map f l) -> Forall Pr (map f (filter p l)).
Proof. rewrite !Forall_map, !Forall_forall. intros H x Hx. apply filter_In in Hx. apply H. tauto. Qed.

Section Relax.
  Variable I : err_inst.
  Variable e0 : PathEnc.edge.
  Let I1 := with_ignore I (e0 :: e_user_ignore I).
  (* the bound w_max is computed over the non-ignored edges: the statement needs that dropping e0 does not change it *)
  Hypothesis Hw : w_max I1 = w_max I.

  Theorem klae_ignoring_only_relaxes (a : var -> Q) :
    (forall e, In e (basic_edges I) -> (0 <= scale_of I e)%Q) ->
    sat a (encode_klae I) ->
    sat a (encode_klae I1) /\ (objective a (encode_klae I1) <= objective a (encode_klae I))%Q.
  Proof.
    intros Hs [HC HR]. unfold I1 in *. unfold encode_klae in HC, HR. cbn [cols rows] in HC, HR.
    rewrite Forall_app in HC, HR. destruct HC as [HCb HCk]. destruct HR as [HRb HRk].
    assert (Herr : Forall (sat_col a) (err_cols I)).
    { unfold klae_cols in HCk. destruct (e_given I); [exact HCk|]. rewrite !Forall_app in HCk. tauto. }
    split; [split|].
    - unfold encode_klae. cbn [cols]. apply Forall_app. split; [exact HCb|].
      unfold klae_cols, pi_cols, w_cols, err_cols in HCk |- *. rewrite Hw, (basic_drop I e0).
      cbn [with_ignore e_given e_int eK eG e_base].
      destruct (e_given I).
      + apply Forall_map_filter. exact HCk.
      + rewrite !Forall_app in HCk |- *. destruct HCk as (A & B & C). split; [exact A|]. split; [exact B|]. apply Forall_map_filter. exact C.
    - unfold encode_klae. cbn [rows]. apply Forall_app. split; [exact HRb|].
      unfold klae_rows in HRk |- *. rewrite (basic_drop I e0). cbn [with_ignore e_given]. destruct (e_given I) as [ws|].
      + rewrite Forall_app in HRk |- *. destruct HRk as [A B]. split; [|exact B].
        apply (Forall_flat_map_filter (sat_row a) (fun e => [row_9aa_given I ws e; row_9ab_given I ws e])). exact A.
      + assert (E : forall e, klae_edge_rows (with_ignore I (e0 :: e_user_ignore I)) e = klae_edge_rows I e).
        { intros e. unfold klae_edge_rows, pi_prod_rows. rewrite Hw. reflexivity. }
        rewrite (flat_map_ext _ _ E). apply Forall_flat_map_filter. exact HRk.
    - rewrite (klae_objective_value (with_ignore I (e0 :: e_user_ignore I)) a), (klae_objective_value I a), (basic_drop I e0).
      change (scale_of (with_ignore I (e0 :: e_user_ignore I))) with (scale_of I).
      apply (ErrEncProofs3.sumq_filter_le (fun e => (scale_of I e * a (Err (fst e) (snd e)))%Q) (fun e => negb (edge_eqb e e0)) (basic_edges I)).
      intros e He. apply Qmult_le_0_compat; [apply Hs; exact He|].
      assert (C : sat_col a (wcol_ (Err (fst e) (snd e)) (w_max I) (e_int I))).
      { apply (sat_cols_in a _ _ Herr). unfold err_cols. apply (in_map (fun e => wcol_ (Err (fst e) (snd e)) (w_max I) (e_int I))) in He. exact He. }
      unfold sat_col, wcol_ in C. cbn [cvar clb cub] in C. tauto.
  Qed.
End Relax.

Section RelaxMpe.
  Variable M : kmpe_inst.
  Variable e0 : PathEnc.edge.
  Let M1 := kwith M (with_ignore (m_err M) (e0 :: e_user_ignore (m_err M))).
  Hypothesis Hw : w_max (m_err M1) = w_max (m_err M).

  (* all columns stay (there is no per-edge error column), the rows of e0 are dropped, the objective is unchanged *)
  Theorem kmpe_ignoring_only_relaxes (a : var -> Q) :
    sat a (encode_kmpe M) ->
    sat a (encode_kmpe M1) /\ (objective a (encode_kmpe M1) == objective a (encode_kmpe M))%Q.
  Proof.
    intros [HC HR].
    assert (HF : has_factors M1 = has_factors M) by reflexivity.
    assert (Hsu : sslack_ub M1 = sslack_ub M) by (unfold sslack_ub; rewrite Hw; reflexivity).
    split; [split|reflexivity].
    - assert (E : cols (encode_kmpe M1) = cols (encode_kmpe M)).
      { unfold encode_kmpe. cbn [cols]. f_equal. f_equal.
        unfold kmpe_cols, w_cols, pi_cols, slack_cols, factor_cols. rewrite HF, Hsu, Hw. reflexivity. }
      rewrite E. exact HC.
    - unfold encode_kmpe in HR |- *. cbn [rows] in HR |- *. rewrite !Forall_app in HR. destruct HR as (A & B & C).
      rewrite !Forall_app. split; [exact A|]. split; [exact B|].
      unfold kmpe_rows in C |- *. rewrite !Forall_app in C. destruct C as (C1 & C2 & C3). rewrite !Forall_app.
      split; [unfold factor_rows in C1 |- *; rewrite HF, Hsu; exact C1|]. split; [|exact C3].
      change (m_err M1) with (with_ignore (m_err M) (e0 :: e_user_ignore (m_err M))). rewrite (basic_drop (m_err M) e0).
      assert (E : forall e, kmpe_edge_rows M1 e = kmpe_edge_rows M e).
      { intros e. unfold kmpe_edge_rows, pi_prod_rows, gamma_prod_rows. rewrite Hw. reflexivity. }
      rewrite (flat_map_ext _ _ E). apply Forall_flat_map_filter. exact C2.
  Qed.
End RelaxMpe.
