(* Constraint generators of the DAG error models (E1):
     kLeastAbsErrors._encode_leastabserrors_decomposition (+ _with_given_weights, _encode_objective)
     kMinPathError._encode_minpatherror_decomposition (+ _with_given_weights, _encode_objective)
     and the position / path-length block of AbstractPathModelDAG._encode_paths (encode_edge_position).
   The instance carries what the CALLER passed (ignore list, error scaling, given weights, ranges);
   the ignore set I*, w_max, the set of error columns and all bounds are computed here the way the
   constructors compute them.  On DAGs edges_set_to_zero / edges_set_to_one are always empty
   (_apply_safety_optimizations is never called, paths_to_fix never set), so every product is the
   four-row McCormick block. *)
From Coq Require Import List NArith ZArith QArith Qround Bool Lia.
Import ListNotations.
From FP Require Import Lin Blocks PathEnc.
Local Close Scope Q_scope.

Definition Err (u v : node) : var := V fErr [u; v].
Definition Slack (i : N) : var := V fSlack [i].
Definition Gamma (u v : node) (i : N) : var := V fGamma [u; v; i].
Definition Pos (u v : node) (i : N) : var := V fPos [u; v; i].
Definition Len (i : N) : var := V fLen [i].
Definition Factor (i : N) : var := V fFactor [i].
Definition SSlack (i : N) : var := V fSSlack [i].

Record err_inst := {
  e_base : path_inst;                   (* s-t graph, k in force (= #given weights if given), allow_empty, constraints *)
  e_flow : list (edge * Q);             (* flow_attr of the edges that carry it *)
  e_user_ignore : list edge;            (* elements_to_ignore (edge form), WITHOUT source/sink edges *)
  e_scale : list (edge * Q);            (* error_scaling (edge form) *)
  e_int : bool;                         (* weight_type = int *)
  e_given : option (list Q);            (* solution_weights_superset *)
  e_korig : nat }.                      (* the k the caller passed (only used with given weights) *)

Definition eG (I : err_inst) : stgraph := p_graph (e_base I).
Definition eK (I : err_inst) : nat := p_k (e_base I).

(* G.source_sink_edges *)
Definition st_edges (G : stgraph) : list edge :=
  filter (fun e => (fst e =? g_src G)%N || (snd e =? g_snk G)%N) (g_edges G).

Definition scale_of (I : err_inst) (e : edge) : Q := lookup_q e (e_scale I) 1%Q.

(* self.edges_to_ignore = source_sink_edges U elements_to_ignore U {e : error_scaling[e] == 0} *)
Definition ign_all (I : err_inst) : list edge :=
  e_user_ignore I ++ st_edges (eG I) ++ map fst (filter (fun es => Qeq_bool (snd es) 0) (e_scale I)).

(* edge_indexes_basic *)
Definition basic_edges (I : err_inst) : list edge :=
  filter (fun e => negb (mem_edge e (ign_all I))) (g_edges (eG I)).

Definition flow_of (I : err_inst) (e : edge) : Q := lookup_q e (e_flow I) 0%Q.

Definition max_of (l : list Q) : Q := match l with [] => 0%Q | x :: r => list_max x r end.

(* weight_type(x): int() truncates, values are non-negative *)
Definition cast (isint : bool) (q : Q) : Q := if isint then inject_Z (Qfloor q) else q.

(* w_max = k * weight_type(max flow over non-ignored edges), raised to the largest given weight *)
Definition max_flow (I : err_inst) : Q := max_of (map (flow_of I) (basic_edges I)).
Definition w_max (I : err_inst) : Q :=
  qmax (inject_Z (Z.of_nat (eK I)) * cast (e_int I) (max_flow I))%Q
       (match e_given I with None => 0%Q | Some ws => list_max 0%Q ws end).

Definition all_ik {A} (k : nat) (l : list A) : list (N * A) :=
  flat_map (fun i => map (fun x => (i, x)) l) (layers k).

(* ------------------------------------------------------------------ kLeastAbsErrors *)
Definition pi_cols (I : err_inst) : list col :=
  map (fun ie => wcol_ (Pi (fst (snd ie)) (snd (snd ie)) (fst ie)) (w_max I) (e_int I)) (all_ik (eK I) (g_edges (eG I))).
Definition w_cols (I : err_inst) : list col :=
  map (fun i => wcol_ (W i) (w_max I) (e_int I)) (layers (eK I)).
Definition err_cols (I : err_inst) : list col :=
  map (fun e => wcol_ (Err (fst e) (snd e)) (w_max I) (e_int I)) (basic_edges I).

Definition klae_cols (I : err_inst) : list col :=
  match e_given I with
  | None => pi_cols I ++ w_cols I ++ err_cols I
  | Some _ => err_cols I
  end.

Definition pi_prod_rows (I : err_inst) (e : edge) : list row :=
  flat_map (fun i => mcc_rows (Edge (fst e) (snd e) i) (W i) (Pi (fst e) (snd e) i) 0%Q (w_max I)) (layers (eK I)).

(* 9aa:  f - sum_i Pi <= Err      9ab:  sum_i Pi - f <= Err *)
Definition row_9aa (I : err_inst) (e : edge) : row :=
  mkrow (map (fun i => (Pi (fst e) (snd e) i, (- (1))%Q)) (layers (eK I)) ++ [(Err (fst e) (snd e), (- (1))%Q)]) SLe (- flow_of I e)%Q.
Definition row_9ab (I : err_inst) (e : edge) : row :=
  mkrow (map (fun i => (Pi (fst e) (snd e) i, 1%Q)) (layers (eK I)) ++ [(Err (fst e) (snd e), (- (1))%Q)]) SLe (flow_of I e).

Definition klae_edge_rows (I : err_inst) (e : edge) : list row :=
  pi_prod_rows I e ++ [row_9aa I e; row_9ab I e].

(* given weights: the weight of layer i is the constant ws[i] *)
Definition row_9aa_given (I : err_inst) (ws : list Q) (e : edge) : row :=
  mkrow (map (fun iw => (Edge (fst e) (snd e) (fst iw), (- snd iw)%Q)) (zipn 0 ws) ++ [(Err (fst e) (snd e), (- (1))%Q)]) SLe (- flow_of I e)%Q.
Definition row_9ab_given (I : err_inst) (ws : list Q) (e : edge) : row :=
  mkrow (map (fun iw => (Edge (fst e) (snd e) (fst iw), snd iw)) (zipn 0 ws) ++ [(Err (fst e) (snd e), (- (1))%Q)]) SLe (flow_of I e).
Definition row_max_paths (I : err_inst) : row :=
  mkrow (src_out_terms (eG I) (eK I)) SLe (inject_Z (Z.of_nat (e_korig I))).

Definition klae_rows (I : err_inst) : list row :=
  match e_given I with
  | None => flat_map (klae_edge_rows I) (basic_edges I)
  | Some ws => flat_map (fun e => [row_9aa_given I ws e; row_9ab_given I ws e]) (basic_edges I) ++ [row_max_paths I]
  end.

Definition klae_obj (I : err_inst) : lin := map (fun e => (Err (fst e) (snd e), scale_of I e)) (basic_edges I).

Definition encode_klae (I : err_inst) : milp :=
  {| cols := base_cols (e_base I) ++ klae_cols I; rows := base_rows (e_base I) ++ klae_rows I;
     obj := klae_obj I; maximize := false |}.

(* ------------------------------------------------------------------ positions / path lengths *)
Record kmpe_inst := {
  m_err : err_inst;
  m_len : option (list (edge * Q));     (* Some: length_attr given (missing length = 1) *)
  m_pieces : list piece }.              (* path_length_ranges zipped with path_length_factors *)

Definition plen (M : kmpe_inst) (e : edge) : Q :=
  match m_len M with None => 1%Q | Some l => lookup_q e l 1%Q end.

Definition mem_node (v : node) (l : list node) : bool := existsb (N.eqb v) l.
Definition add_new (S : list node) (l : list node) : list node :=
  fold_left (fun acc v => if mem_node v acc then acc else acc ++ [v]) l S.
(* nodes that reach u (u included): closure of {u} under predecessors; |V| rounds suffice *)
Fixpoint anc_iter (G : stgraph) (fuel : nat) (S : list node) : list node :=
  match fuel with
  | O => S
  | Datatypes.S f => anc_iter G f (add_new S (flat_map (preds G) S))
  end.
Definition nodes_reaching (G : stgraph) (u : node) : list node := anc_iter G (length (g_nodes G)) [u].
(* G.reachable_edges_rev_from[u]: the edges whose head reaches u *)
Definition rev_edges (G : stgraph) (u : node) : list edge :=
  filter (fun e => mem_node (snd e) (nodes_reaching G u)) (g_edges G).

Definition max_length (M : kmpe_inst) : Q :=
  let G := eG (m_err M) in
  match m_len M with
  | None => inject_Z (Z.of_nat (length (g_nodes G)))
  | Some _ => fold_right (fun e s => (plen M e + s)%Q) 0%Q (g_edges G)
  end.

Definition icol (v : var) (ub : Q) : col := {| cvar := v; clb := 0; cub := ub; cint := true |}.

Definition pos_cols (M : kmpe_inst) : list col :=
  let I := m_err M in
  map (fun ie => icol (Pos (fst (snd ie)) (snd (snd ie)) (fst ie)) (max_length M)) (all_ik (eK I) (g_edges (eG I))) ++
  map (fun i => icol (Len i) (max_length M)) (layers (eK I)).

Definition row_pos (M : kmpe_inst) (i : N) (e : edge) : row :=
  mkrow ((Pos (fst e) (snd e) i, 1%Q) ::
         map (fun e' => (Edge (fst e') (snd e') i, (- plen M e')%Q)) (rev_edges (eG (m_err M)) (fst e))) SEq 0%Q.
Definition row_len (M : kmpe_inst) (i : N) : row :=
  mkrow ((Len i, 1%Q) :: map (fun e' => (Edge (fst e') (snd e') i, (- plen M e')%Q)) (g_edges (eG (m_err M)))) SEq 0%Q.

Definition pos_rows (M : kmpe_inst) : list row :=
  let I := m_err M in
  flat_map (fun i => map (row_pos M i) (g_edges (eG I))) (layers (eK I)) ++ map (row_len M) (layers (eK I)).

(* ------------------------------------------------------------------ kMinPathError *)
Definition has_factors (M : kmpe_inst) : bool := match m_pieces M with [] => false | _ => true end.
Definition min_factor (M : kmpe_inst) : Q := match map pC (m_pieces M) with [] => 0%Q | x :: r => list_min x r end.
Definition max_factor (M : kmpe_inst) : Q := match map pC (m_pieces M) with [] => 0%Q | x :: r => list_max x r end.
Definition sslack_ub (M : kmpe_inst) : Q := (w_max (m_err M) * max_factor M)%Q.

(* the variable multiplied into gamma: the slack, or the length-scaled slack *)
Definition slack_var (M : kmpe_inst) (i : N) : var := if has_factors M then SSlack i else Slack i.

Definition ccol (v : var) (lb ub : Q) : col := {| cvar := v; clb := lb; cub := ub; cint := false |}.

Definition factor_cols (M : kmpe_inst) : list col :=
  let I := m_err M in
  if has_factors M then
    map (fun i => ccol (Factor i) (min_factor M) (max_factor M)) (layers (eK I)) ++
    flat_map (fun i => pwc_cols (Factor i) (m_pieces M)) (layers (eK I)) ++
    map (fun i => ccol (SSlack i) 0%Q (sslack_ub M)) (layers (eK I)) ++
    flat_map (fun i => intprod_cols (SSlack i) 0%Q (sslack_ub M) (num_bits (sslack_ub M))) (layers (eK I))
  else [].

Definition factor_rows (M : kmpe_inst) : list row :=
  let I := m_err M in
  if has_factors M then
    flat_map (fun i => pwc_rows (Len i) (Factor i) (m_pieces M)) (layers (eK I)) ++
    flat_map (fun i => intprod_rows (Slack i) (Factor i) (SSlack i) 0%Q (sslack_ub M) (num_bits (sslack_ub M))) (layers (eK I))
  else [].

Definition slack_cols (M : kmpe_inst) : list col :=
  let I := m_err M in
  map (fun i => wcol_ (Slack i) (w_max I) (e_int I)) (layers (eK I)) ++
  map (fun ie => ccol (Gamma (fst (snd ie)) (snd (snd ie)) (fst ie)) 0%Q (w_max I)) (all_ik (eK I) (g_edges (eG I))).

Definition kmpe_cols (M : kmpe_inst) : list col :=
  let I := m_err M in
  match e_given I with
  | None => w_cols I ++ pi_cols I ++ slack_cols M ++ factor_cols M
  | Some _ => slack_cols M ++ factor_cols M
  end.

Definition gamma_prod_rows (M : kmpe_inst) (e : edge) : list row :=
  let I := m_err M in
  flat_map (fun i => mcc_rows (Edge (fst e) (snd e) i) (slack_var M i) (Gamma (fst e) (snd e) i) 0%Q (w_max I)) (layers (eK I)).

(* 9aa: (f - sum Pi) * sc <=  sum Gamma        9ab: (f - sum Pi) * sc >= - sum Gamma *)
Definition gamma_terms (I : err_inst) (e : edge) (c : Q) : lin :=
  map (fun i => (Gamma (fst e) (snd e) i, c)) (layers (eK I)).
Definition mrow_9aa (M : kmpe_inst) (e : edge) : row :=
  let I := m_err M in let sc := scale_of I e in
  mkrow (map (fun i => (Pi (fst e) (snd e) i, (- sc)%Q)) (layers (eK I)) ++ gamma_terms I e (- (1))%Q) SLe (- (flow_of I e * sc))%Q.
Definition mrow_9ab (M : kmpe_inst) (e : edge) : row :=
  let I := m_err M in let sc := scale_of I e in
  mkrow (map (fun i => (Pi (fst e) (snd e) i, (- sc)%Q)) (layers (eK I)) ++ gamma_terms I e 1%Q) SGe (- (flow_of I e * sc))%Q.
Definition mrow_9aa_given (M : kmpe_inst) (ws : list Q) (e : edge) : row :=
  let I := m_err M in let sc := scale_of I e in
  mkrow (map (fun iw => (Edge (fst e) (snd e) (fst iw), (- (sc * snd iw))%Q)) (zipn 0 ws) ++ gamma_terms I e (- (1))%Q) SLe (- (flow_of I e * sc))%Q.
Definition mrow_9ab_given (M : kmpe_inst) (ws : list Q) (e : edge) : row :=
  let I := m_err M in let sc := scale_of I e in
  mkrow (map (fun iw => (Edge (fst e) (snd e) (fst iw), (- (sc * snd iw))%Q)) (zipn 0 ws) ++ gamma_terms I e 1%Q) SGe (- (flow_of I e * sc))%Q.

Definition kmpe_edge_rows (M : kmpe_inst) (e : edge) : list row :=
  let I := m_err M in
  match e_given I with
  | None => pi_prod_rows I e ++ gamma_prod_rows M e ++ [mrow_9aa M e; mrow_9ab M e]
  | Some ws => gamma_prod_rows M e ++ [mrow_9aa_given M ws e; mrow_9ab_given M ws e]
  end.

Definition kmpe_rows (M : kmpe_inst) : list row :=
  let I := m_err M in
  factor_rows M ++ flat_map (kmpe_edge_rows M) (basic_edges I) ++
  match e_given I with None => [] | Some _ => [row_max_paths I] end.

Definition kmpe_obj (M : kmpe_inst) : lin := map (fun i => (Slack i, 1%Q)) (layers (eK (m_err M))).

Definition encode_kmpe (M : kmpe_inst) : milp :=
  let I := m_err M in
  {| cols := base_cols (e_base I) ++ pos_cols M ++ kmpe_cols M;
     rows := base_rows (e_base I) ++ pos_rows M ++ kmpe_rows M;
     obj := kmpe_obj M; maximize := false |}.

(* ------------------------------------------------------------------ reported quantities *)
(* get_objective_value of kLeastAbsErrors as the code computes it (since /repo 158493f): every returned
   edge error weighed by its error_scaling factor (default 1) *)
Definition klae_reported_objective_code (I : err_inst) (a : var -> Q) : Q :=
  sumq (fun e => (a (Err (fst e) (snd e)) * scale_of I e)%Q) (basic_edges I).
(* the behaviour before 158493f, kept only for the refutation witness: the plain sum of the errors *)
Definition klae_reported_objective_old (I : err_inst) (a : var -> Q) : Q :=
  sumq (fun e => a (Err (fst e) (snd e))) (basic_edges I).
