(* Soundness of MinFlowDecomp's `use_subgraph_scanning_lowerbound` (C05).
   graphutils.get_subgraph_between_topological_nodes(G, topo, left, right) = window_subgraph topo left right E:
     window nodes W = topo[left:right];  EH = the edges of G with an endpoint in W;  VH = W + the outside endpoints.
   _get_lowerbound_with_subgraph_scanning solves MinFlowDecomp on H (same flow values, ignore list restricted to edges
   with both endpoints in H) and starts the search for G at that optimum.  Theorem: every decomposition of G into k
   source-to-sink paths restricts to a decomposition of H into k' <= k source-to-sink paths OF H (sources / sinks of H =
   nodes without in- / out-edges in H), so min(H) <= min(G).
   Key facts: along a path the topological positions increase strictly, so the path's nodes inside the window are
   contiguous; the edges of H on the path are the edge entering the first window node, the edges between window nodes and
   the edge leaving the last one; the outside endpoint before the window has no in-edge in H, the one after it no
   out-edge; paths without a window node use no edge of H and are dropped (k' <= k; a path that only uses ignored edges
   of H gets weight 0). *)
From Coq Require Import List NArith ZArith QArith Lqa Bool Arith Lia Permutation Sorted.
Import ListNotations.
From FP Require Import Lin Blocks BlocksProofs PathEnc PathEncProofs PathEncComplete Euler EulerProofs1 EulerProofs4
                       Aug AugProofs EndToEnd1 EndToEnd2 WalkTree.
Set Default Timeout 90.
Local Close Scope Q_scope.
Local Open Scope nat_scope.

(* ---- the executable window subgraph ---- *)
Definition window_nodes (topo : list node) (left right : nat) : list node :=
  filter (fun v => (left <=? posn topo v) && (posn topo v <? right)) topo.
Definition touches (W : list node) (e : edge) : bool := memn (fst e) W || memn (snd e) W.
Definition window_edges (W : list node) (E : list edge) : list edge := filter (touches W) E.
Definition add_node (v : node) (l : list node) : list node := if memn v l then l else l ++ [v].
(* networkx order: the window nodes, then per edge (in edge order) tail and head when new *)
Definition window_vertices (W : list node) (EH : list edge) : list node :=
  fold_left (fun acc e => add_node (snd e) (add_node (fst e) acc)) EH W.
Definition window_subgraph (topo : list node) (left right : nat) (E : list edge) : list node * list edge :=
  let W := window_nodes topo left right in let EH := window_edges W E in (window_vertices W EH, EH).
(* the ValueError cases of the function: right >= len(topo) or left > right (left < 0 cannot be expressed) *)
Definition window_subgraph_opt (topo : list node) (left right : nat) (E : list edge) : option (list node * list edge) :=
  if (right <? length topo) && (left <=? right) then Some (window_subgraph topo left right E) else None.

Lemma add_node_In v l x : In x (add_node v l) <-> In x l \/ x = v.
Proof.
  unfold add_node. destruct (memn v l) eqn:M.
  - apply memn_In in M. split; [tauto|]. intros [H| ->]; assumption.
  - rewrite in_app_iff. cbn. split; [intros [H|[H|[]]]; [tauto|right; congruence]|intros [H| ->]; [left; exact H|right; left; reflexivity]].
Qed.

Lemma window_vertices_In W EH x : In x (window_vertices W EH) <-> In x W \/ exists e, In e EH /\ (x = fst e \/ x = snd e).
Proof.
  unfold window_vertices. revert W. induction EH as [|e EH IH]; intros W; cbn [fold_left].
  - split; [tauto|]. intros [H|(e & [] & _)]. exact H.
  - rewrite IH, !add_node_In. split.
    + intros [[[H|H]|H]|(e' & He' & H)]; [left; exact H|right; exists e; split; [left; reflexivity|tauto]|
                                          right; exists e; split; [left; reflexivity|tauto]|right; exists e'; split; [right; exact He'|exact H]].
    + intros [H|(e' & [<-|He'] & H)]; [tauto|destruct H as [-> | ->]; tauto|right; exists e'; tauto].
Qed.

Lemma window_nodes_In topo left right v : In v (window_nodes topo left right) <-> In v topo /\ left <= posn topo v < right.
Proof.
  unfold window_nodes. rewrite filter_In, andb_true_iff, Nat.leb_le, Nat.ltb_lt. tauto.
Qed.

(* ---- lists that are strictly increasing for a position function ---- *)
Section Sorted.
  Variable pos : node -> nat.
  Definition plt (a b : node) : Prop := pos a < pos b.

  Lemma chain_sorted (r : list node) : (forall a b, In (a, b) (pairs r) -> plt a b) -> StronglySorted plt r.
  Proof.
    intros H. apply Sorted_StronglySorted; [intros a b c; unfold plt; lia|].
    induction r as [|a r IH]; [constructor|]. constructor.
    - apply IH. intros x y Hxy. apply H. destruct r as [|b r]; [destruct Hxy|]. rewrite pairs_cons2. right. exact Hxy.
    - destruct r as [|b r]; constructor. apply H. rewrite pairs_cons2. left. reflexivity.
  Qed.

  Lemma sorted_split (c : nat) (r : list node) : StronglySorted plt r ->
    r = filter (fun v => pos v <? c) r ++ filter (fun v => c <=? pos v) r.
  Proof.
    induction 1 as [|a r SS IH Hall]; [reflexivity|]. cbn [filter].
    destruct (Nat.ltb_spec (pos a) c) as [L|L].
    - destruct (Nat.leb_spec c (pos a)) as [L'|_]; [lia|]. cbn [app]. f_equal. exact IH.
    - destruct (Nat.leb_spec c (pos a)) as [_|L']; [|lia].
      assert (E1 : filter (fun v => pos v <? c) r = []).
      { clear IH SS. induction r as [|b r IHr]; [reflexivity|]. inversion Hall as [|? ? Hb Hr]; subst. cbn [filter].
        destruct (Nat.ltb_spec (pos b) c) as [X|_]; [unfold plt in Hb; lia|]. apply IHr. exact Hr. }
      assert (E2 : filter (fun v => c <=? pos v) r = r).
      { clear IH SS E1. induction r as [|b r IHr]; [reflexivity|]. inversion Hall as [|? ? Hb Hr]; subst. cbn [filter].
        destruct (Nat.leb_spec c (pos b)) as [_|X]; [|unfold plt in Hb; lia]. f_equal. apply IHr. exact Hr. }
      rewrite E1, E2. reflexivity.
  Qed.

  Lemma sorted_filter (p : node -> bool) (r : list node) : StronglySorted plt r -> StronglySorted plt (filter p r).
  Proof.
    induction 1 as [|a r SS IH Hall]; [constructor|]. cbn [filter]. destruct (p a); [|exact IH]. constructor; [exact IH|].
    apply Forall_forall. intros x Hx. apply filter_In in Hx. rewrite Forall_forall in Hall. apply Hall. tauto.
  Qed.

  Lemma sorted_nodup (r : list node) : StronglySorted plt r -> NoDup r.
  Proof.
    induction 1 as [|a r SS IH Hall]; constructor; [|exact IH]. intros Hin. rewrite Forall_forall in Hall.
    specialize (Hall a Hin). unfold plt in Hall. lia.
  Qed.
End Sorted.

(* ---- consecutive pairs of concatenations ---- *)
Lemma pairs_app_cases (l1 l2 : list node) (a b d : node) : In (a, b) (pairs (l1 ++ l2)) ->
  In (a, b) (pairs l1) \/ In (a, b) (pairs l2) \/ (l1 <> [] /\ l2 <> [] /\ a = last l1 d /\ b = hd d l2).
Proof.
  induction l1 as [|x l1 IH]; intros H; [right; left; exact H|].
  destruct l1 as [|y l1].
  - cbn [app] in H. destruct l2 as [|z l2]; [destruct H|]. rewrite pairs_cons2 in H. destruct H as [H|H].
    + injection H as <- <-. right. right. repeat split; discriminate.
    + right. left. exact H.
  - change ((x :: y :: l1) ++ l2) with (x :: y :: l1 ++ l2) in H. rewrite pairs_cons2 in H. destruct H as [H|H].
    + left. rewrite pairs_cons2. left. exact H.
    + destruct (IH H) as [H1|[H2|(N1 & N2 & Ea & Eb)]].
      * left. rewrite pairs_cons2. right. exact H1.
      * right. left. exact H2.
      * right. right. repeat split; [discriminate|exact N2| |exact Eb]. rewrite Ea. symmetry. apply (last_cons_ne x (y :: l1) d). discriminate.
Qed.

Lemma pairs_incl_app_r (l1 l2 : list node) : incl (pairs l2) (pairs (l1 ++ l2)).
Proof.
  induction l1 as [|x l1 IH]; [intros e He; exact He|]. intros e He. specialize (IH e He).
  destruct (l1 ++ l2) as [|y r] eqn:Q; [destruct IH|]. cbn [app]. rewrite Q, pairs_cons2. right. exact IH.
Qed.
Lemma pairs_incl_app_l (l1 l2 : list node) : incl (pairs l1) (pairs (l1 ++ l2)).
Proof.
  induction l1 as [|x l1 IH]; [intros e []|]. intros e He. destruct l1 as [|y l1]; [destruct He|].
  change ((x :: y :: l1) ++ l2) with (x :: y :: l1 ++ l2). rewrite pairs_cons2 in He |- *. destruct He as [He|He]; [left; exact He|right; apply IH; exact He].
Qed.

Lemma last_In (l : list node) d : l <> [] -> In (last l d) l.
Proof.
  induction l as [|x l IH]; [congruence|]. intros _. destruct l as [|y l]; [left; reflexivity|]. right. apply IH. discriminate.
Qed.
Lemma hd_In (l : list node) d : l <> [] -> In (hd d l) l.
Proof. destruct l; [congruence|]. intros _. left. reflexivity. Qed.

Lemma nodup_mid (l1 l2 l3 : list node) : NoDup (l1 ++ l2 ++ l3) -> NoDup l2.
Proof.
  induction l1 as [|x l1 IH]; cbn [app]; intros ND.
  - induction l2 as [|y l2 IH2]; [constructor|]. cbn [app] in ND. inversion ND as [|? ? Hy ND']; subst.
    constructor; [intros X; apply Hy; apply in_or_app; left; exact X|apply IH2; exact ND'].
  - inversion ND; subst. apply IH. assumption.
Qed.

Definition lastopt (l : list node) : list node := match l with [] => [] | _ => [last l 0%N] end.
Definition hdopt (l : list node) : list node := match l with [] => [] | x :: _ => [x] end.
Lemma lastopt_split l : l = removelast l ++ lastopt l.
Proof. destruct l as [|x l]; [reflexivity|]. unfold lastopt. apply app_removelast_last. discriminate. Qed.
Lemma hdopt_split l : l = hdopt l ++ tl l.
Proof. destruct l; reflexivity. Qed.
Lemma lastopt_incl l : incl (lastopt l) l.
Proof. destruct l as [|x l]; [intros ? []|]. intros y [<-|[]]. apply last_In. discriminate. Qed.
Lemma hdopt_incl l : incl (hdopt l) l.
Proof. destruct l as [|x l]; [intros ? []|]. intros y [<-|[]]. left. reflexivity. Qed.
Lemma removelast_incl (l : list node) : incl (removelast l) l.
Proof. intros x Hx. rewrite (lastopt_split l). apply in_or_app. left. exact Hx. Qed.
Lemma tl_incl (l : list node) : incl (tl l) l.
Proof. destruct l; [intros ? []|]. intros x Hx. right. exact Hx. Qed.
Lemma pairs_short (l : list node) : length l <= 1 -> pairs l = [].
Proof. destruct l as [|x [|y l]]; cbn; try reflexivity. lia. Qed.
Lemma lastopt_short l : length (lastopt l) <= 1. Proof. destruct l; cbn; lia. Qed.
Lemma hdopt_short l : length (hdopt l) <= 1. Proof. destruct l; cbn; lia. Qed.

(* ---- restriction of a position-sorted node list to a window ---- *)
Section Restrict.
  Variables (topo : list node) (left right : nat).
  Let pos := posn topo.
  Let W := window_nodes topo left right.

  Definition partA (r : list node) : list node := filter (fun v => pos v <? left) r.
  Definition partR (r : list node) : list node := filter (fun v => left <=? pos v) r.
  Definition partM (r : list node) : list node := filter (fun v => pos v <? right) (partR r).
  Definition partB (r : list node) : list node := filter (fun v => right <=? pos v) (partR r).
  Definition restrict (r : list node) : list node := lastopt (partA r) ++ partM r ++ hdopt (partB r).

  Variable r : list node.
  Hypothesis SS : StronglySorted (plt pos) r.
  Hypothesis Hin_topo : forall v, In v r -> In v topo.

  Lemma parts_split : r = partA r ++ partM r ++ partB r.
  Proof.
    rewrite (sorted_split pos left r SS) at 1. fold (partA r) (partR r). f_equal.
    apply (sorted_split pos right (partR r)). apply sorted_filter. exact SS.
  Qed.

  Lemma restrict_infix : r = removelast (partA r) ++ restrict r ++ tl (partB r).
  Proof.
    unfold restrict. rewrite parts_split at 1. rewrite (lastopt_split (partA r)) at 1. rewrite (hdopt_split (partB r)) at 1.
    rewrite <- !app_assoc. reflexivity.
  Qed.

  Lemma partA_spec v : In v (partA r) <-> In v r /\ pos v < left.
  Proof. unfold partA. rewrite filter_In, Nat.ltb_lt. tauto. Qed.
  Lemma partM_spec v : In v (partM r) <-> In v r /\ left <= pos v < right.
  Proof. unfold partM, partR. rewrite !filter_In, Nat.ltb_lt, Nat.leb_le. tauto. Qed.
  Lemma partB_spec v : In v (partB r) <-> In v r /\ right <= pos v /\ left <= pos v.
  Proof. unfold partB, partR. rewrite !filter_In, !Nat.leb_le. tauto. Qed.

  Lemma partM_window v : In v (partM r) <-> In v r /\ In v W.
  Proof.
    rewrite partM_spec. unfold W. rewrite window_nodes_In. fold pos. split; [intros [H1 H2]; split; [exact H1|split; [apply Hin_topo; exact H1|exact H2]]|tauto].
  Qed.
  Lemma partA_not_window v : In v (partA r) -> ~ In v W.
  Proof. intros H Hw. apply partA_spec in H. unfold W in Hw. apply window_nodes_In in Hw. fold pos in Hw. lia. Qed.
  Lemma partB_not_window v : In v (partB r) -> ~ In v W.
  Proof. intros H Hw. apply partB_spec in H. unfold W in Hw. apply window_nodes_In in Hw. fold pos in Hw. lia. Qed.

  Lemma restrict_incl : incl (restrict r) r.
  Proof.
    intros v Hv. unfold restrict in Hv. apply in_app_or in Hv. destruct Hv as [Hv|Hv].
    - apply lastopt_incl in Hv. apply partA_spec in Hv. tauto.
    - apply in_app_or in Hv. destruct Hv as [Hv|Hv]; [apply partM_spec in Hv; tauto|apply hdopt_incl in Hv; apply partB_spec in Hv; tauto].
  Qed.

  Lemma restrict_pairs_incl : incl (pairs (restrict r)) (pairs r).
  Proof.
    intros e He. rewrite restrict_infix. apply pairs_incl_app_r. apply pairs_incl_app_l. exact He.
  Qed.

  Lemma restrict_nodup : NoDup (restrict r).
  Proof.
    pose proof (sorted_nodup pos r SS) as ND. rewrite restrict_infix in ND. apply nodup_mid in ND. exact ND.
  Qed.

  (* every consecutive pair of the restriction touches the window *)
  Lemma restrict_pairs_touch a b : partM r <> [] -> In (a, b) (pairs (restrict r)) -> In a W \/ In b W.
  Proof.
    intros HM H. unfold restrict in H.
    destruct (pairs_app_cases _ _ a b 0%N H) as [H1|[H2|(_ & _ & Ea & Eb)]].
    - rewrite (pairs_short _ (lastopt_short _)) in H1. destruct H1.
    - destruct (pairs_app_cases _ _ a b 0%N H2) as [H3|[H4|(N1 & _ & Ea & _)]].
      + left. apply (in_pairs_nodes _ _ _) in H3. apply (partM_window a). tauto.
      + rewrite (pairs_short _ (hdopt_short _)) in H4. destruct H4.
      + left. apply (partM_window a). rewrite Ea. apply last_In. exact N1.
    - right. apply (partM_window b). rewrite Eb. destruct (partM r) as [|m M] eqn:Q; [congruence|]. cbn [app hd]. rewrite <- Q at 1.
      rewrite Q. left. reflexivity.
  Qed.

  Lemma restrict_hd_A l : partA r <> [] -> hd 0%N (restrict r ++ l) = last (partA r) 0%N.
  Proof. intros H. unfold restrict. destruct (partA r) as [|x A]; [congruence|reflexivity]. Qed.

  (* every consecutive pair of the list that touches the window is a consecutive pair of the restriction *)
  Lemma touch_in_restrict a b : In (a, b) (pairs r) -> In a W \/ In b W -> In (a, b) (pairs (restrict r)).
  Proof.
    intros H Hw.
    assert (Hab : In a r /\ In b r) by (apply in_pairs_nodes; exact H).
    assert (HM : partM r <> []).
    { destruct Hw as [Hw|Hw]; [assert (X : In a (partM r)) by (apply partM_window; tauto)|assert (X : In b (partM r)) by (apply partM_window; tauto)];
        intros Q; rewrite Q in X; destruct X. }
    assert (HQ : restrict r <> []).
    { unfold restrict. destruct (partM r) as [|m M]; [congruence|]. destruct (lastopt (partA r)); discriminate. }
    rewrite restrict_infix in H.
    destruct (pairs_app_cases _ _ a b 0%N H) as [H1|[H2|(N1 & _ & Ea & Eb)]].
    - exfalso. apply in_pairs_nodes in H1. destruct H1 as [Ha Hb]. apply removelast_incl in Ha. apply removelast_incl in Hb.
      destruct Hw as [Hw|Hw]; [exact (partA_not_window a Ha Hw)|exact (partA_not_window b Hb Hw)].
    - destruct (pairs_app_cases _ _ a b 0%N H2) as [H3|[H4|(_ & N2 & Ea & Eb)]].
      + exact H3.
      + exfalso. apply in_pairs_nodes in H4. destruct H4 as [Ha Hb]. apply tl_incl in Ha. apply tl_incl in Hb.
        destruct Hw as [Hw|Hw]; [exact (partB_not_window a Ha Hw)|exact (partB_not_window b Hb Hw)].
      + exfalso. (* a = last of the restriction, b = first node after it *)
        assert (Hb : In b (partB r)) by (apply tl_incl; rewrite Eb; apply hd_In; exact N2).
        assert (HB : partB r <> []) by (intros Q; rewrite Q in Hb; destruct Hb).
        assert (Ha : In a (partB r)).
        { rewrite Ea. unfold restrict. destruct (partB r) as [|y B]; [congruence|]. cbn [hdopt].
          rewrite !app_assoc. rewrite last_app_single. left. reflexivity. }
        destruct Hw as [Hw|Hw]; [exact (partB_not_window a Ha Hw)|exact (partB_not_window b Hb Hw)].
    - exfalso. (* a = last node before the restriction, b = its first node *)
      assert (Ha : In a (partA r)) by (apply removelast_incl; rewrite Ea; apply last_In; exact N1).
      assert (HA : partA r <> []) by (intros Q; rewrite Q in Ha; destruct Ha).
      assert (Hb : In b (partA r)) by (rewrite Eb, (restrict_hd_A _ HA); apply last_In; exact HA).
      destruct Hw as [Hw|Hw]; [exact (partA_not_window a Ha Hw)|exact (partA_not_window b Hb Hw)].
  Qed.

  (* the first node of the restriction: either the last node before the window, or the first node of the list *)
  Lemma restrict_hd : partM r <> [] ->
    (partA r <> [] /\ hd 0%N (restrict r) = last (partA r) 0%N) \/ (partA r = [] /\ hd 0%N (restrict r) = hd 0%N r).
  Proof.
    intros HM. pose proof parts_split as E. unfold restrict. destruct (partA r) as [|x A] eqn:QA.
    - right. split; [reflexivity|]. cbn [app] in E. destruct (partM r) as [|m M] eqn:QM; [congruence|].
      cbn [lastopt app hd]. rewrite E. reflexivity.
    - left. split; [discriminate|reflexivity].
  Qed.

  Lemma last_app_ne (l1 l2 : list node) d : l2 <> [] -> last (l1 ++ l2) d = last l2 d.
  Proof.
    induction l1 as [|z l1 IH]; intros Hn; [reflexivity|]. cbn [app]. rewrite last_cons_ne; [apply IH; exact Hn|].
    destruct l1; [exact Hn|discriminate].
  Qed.

  Lemma restrict_last : partM r <> [] ->
    (partB r <> [] /\ last (restrict r) 0%N = hd 0%N (partB r)) \/ (partB r = [] /\ last (restrict r) 0%N = last r 0%N).
  Proof.
    intros HM. pose proof parts_split as E. unfold restrict. destruct (partB r) as [|y B] eqn:QB.
    - right. split; [reflexivity|]. cbn [hdopt]. rewrite !app_nil_r in *.
      rewrite (last_app_ne _ _ 0%N HM). rewrite E at 2. rewrite (last_app_ne _ _ 0%N HM). reflexivity.
    - left. split; [discriminate|]. cbn [hdopt hd]. rewrite !app_assoc. apply last_app_single.
  Qed.
End Restrict.
