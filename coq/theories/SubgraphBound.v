(* Soundness of MinFlowDecomp's `use_subgraph_scanning_lowerbound` (C05).
   graphutils.get_subgraph_between_topological_nodes(G, topo, left, right) = window_subgraph topo left right E:
     window nodes W = topo[left:right];  EH = the edges of G with an endpoint in W;  VH = W + the outside endpoints.
   _get_lowerbound_with_subgraph_scanning solves MinFlowDecomp on H (same flow values, ignore list restricted to edges
   with both endpoints in H) and starts the search for G at that optimum.  Theorem: every decomposition of G into k
   source-to-sink paths restricts to a decomposition of H into k' <= k source-to-sink paths OF H (sources / sinks of H =
   nodes without in- / out-edges in H), so min(H) <= min(G).
   Key facts: along a path the topological positions increase strictly, so the path's nodes inside the window are
   contiguous; the edges of H on the path are the edge entering the first window node, the edges between window nodes and
   the edge leaving the last one; the outside endpoint before the window has no in-edge in H, the one after it no
   out-edge; paths without a window node use no edge of H and are dropped (k' <= k; a path that only uses ignored edges
   of H gets weight 0). *)
From Coq Require Import List NArith ZArith QArith Lqa Bool Arith Lia Permutation Sorted.
Import ListNotations.
From FP Require Import Lin Blocks BlocksProofs PathEnc PathEncProofs PathEncComplete Euler EulerProofs1 EulerProofs4
                       Aug AugProofs EndToEnd1 EndToEnd2 WalkTree.
Set Default Timeout 90.
Local Close Scope Q_scope.
Local Open Scope nat_scope.

(* ---- the executable window subgraph ---- *)
Definition window_nodes (topo : list node) (left right : nat) : list node :=
  filter (fun v => (left <=? posn topo v) && (posn topo v <? right)) topo.
Definition touches (W : list node) (e : edge) : bool := memn (fst e) W || memn (snd e) W.
Definition window_edges (W : list node) (E : list edge) : list edge := filter (touches W) E.
Definition add_node (v : node) (l : list node) : list node := if memn v l then l else l ++ [v].
(* networkx order: the window nodes, then per edge (in edge order) tail and head when new *)
Definition window_vertices (W : list node) (EH : list edge) : list node :=
  fold_left (fun acc e => add_node (snd e) (add_node (fst e) acc)) EH W.
Definition window_subgraph (topo : list node) (left right : nat) (E : list edge) : list node * list edge :=
  let W := window_nodes topo left right in let EH := window_edges W E in (window_vertices W EH, EH).
(* the ValueError cases of the function: right >= len(topo) or left > right (left < 0 cannot be expressed) *)
Definition window_subgraph_opt (topo : list node) (left right : nat) (E : list edge) : option (list node * list edge) :=
  if (right <? length topo) && (left <=? right) then Some (window_subgraph topo left right E) else None.

Lemma add_node_In v l x : In x (add_node v l) <-> In x l \/ x = v.
Proof.
  unfold add_node. destruct (memn v l) eqn:M.
  - apply memn_In in M. split; [tauto|]. intros [H| ->]; assumption.
  - rewrite in_app_iff. cbn. split; [intros [H|[H|[]]]; [tauto|right; congruence]|intros [H| ->]; [left; exact H|right; left; reflexivity]].
Qed.

Lemma window_vertices_In W EH x : In x (window_vertices W EH) <-> In x W \/ exists e, In e EH /\ (x = fst e \/ x = snd e).
Proof.
  unfold window_vertices. revert W. induction EH as [|e EH IH]; intros W; cbn [fold_left].
  - split; [tauto|]. intros [H|(e & [] & _)]. exact H.
  - rewrite IH, !add_node_In. split.
    + intros [[[H|H]|H]|(e' & He' & H)]; [left; exact H|right; exists e; split; [left; reflexivity|tauto]|
                                          right; exists e; split; [left; reflexivity|tauto]|right; exists e'; split; [right; exact He'|exact H]].
    + intros [H|(e' & [<-|He'] & H)]; [tauto|destruct H as [-> | ->]; tauto|right; exists e'; tauto].
Qed.

Lemma window_nodes_In topo left right v : In v (window_nodes topo left right) <-> In v topo /\ left <= posn topo v < right.
Proof.
  unfold window_nodes. rewrite filter_In, andb_true_iff, Nat.leb_le, Nat.ltb_lt. tauto.
Qed.

(* ---- lists that are strictly increasing for a position function ---- *)
Section Sorted.
  Variable pos : node -> nat.
  Definition plt (a b : node) : Prop := pos a < pos b.

  Lemma chain_sorted (r : list node) : (forall a b, In (a, b) (pairs r) -> plt a b) -> StronglySorted plt r.
  Proof.
    intros H. apply Sorted_StronglySorted; [intros a b c; unfold plt; lia|].
    induction r as [|a r IH]; [constructor|]. constructor.
    - apply IH. intros x y Hxy. apply H. destruct r as [|b r]; [destruct Hxy|]. rewrite pairs_cons2. right. exact Hxy.
    - destruct r as [|b r]; constructor. apply H. rewrite pairs_cons2. left. reflexivity.
  Qed.

  Lemma sorted_split (c : nat) (r : list node) : StronglySorted plt r ->
    r = filter (fun v => pos v <? c) r ++ filter (fun v => c <=? pos v) r.
  Proof.
    induction 1 as [|a r SS IH Hall]; [reflexivity|]. cbn [filter].
    destruct (Nat.ltb_spec (pos a) c) as [L|L].
    - destruct (Nat.leb_spec c (pos a)) as [L'|_]; [lia|]. cbn [app]. f_equal. exact IH.
    - destruct (Nat.leb_spec c (pos a)) as [_|L']; [|lia].
      assert (E1 : filter (fun v => pos v <? c) r = []).
      { clear IH SS. induction r as [|b r IHr]; [reflexivity|]. inversion Hall as [|? ? Hb Hr]; subst. cbn [filter].
        destruct (Nat.ltb_spec (pos b) c) as [X|_]; [unfold plt in Hb; lia|]. apply IHr. exact Hr. }
      assert (E2 : filter (fun v => c <=? pos v) r = r).
      { clear IH SS E1. induction r as [|b r IHr]; [reflexivity|]. inversion Hall as [|? ? Hb Hr]; subst. cbn [filter].
        destruct (Nat.leb_spec c (pos b)) as [_|X]; [|unfold plt in Hb; lia]. f_equal. apply IHr. exact Hr. }
      rewrite E1, E2. reflexivity.
  Qed.

  Lemma sorted_filter (p : node -> bool) (r : list node) : StronglySorted plt r -> StronglySorted plt (filter p r).
  Proof.
    induction 1 as [|a r SS IH Hall]; [constructor|]. cbn [filter]. destruct (p a); [|exact IH]. constructor; [exact IH|].
    apply Forall_forall. intros x Hx. apply filter_In in Hx. rewrite Forall_forall in Hall. apply Hall. tauto.
  Qed.

  Lemma sorted_nodup (r : list node) : StronglySorted plt r -> NoDup r.
  Proof.
    induction 1 as [|a r SS IH Hall]; constructor; [|exact IH]. intros Hin. rewrite Forall_forall in Hall.
    specialize (Hall a Hin). unfold plt in Hall. lia.
  Qed.
End Sorted.

(* ---- consecutive pairs of concatenations ---- *)
Lemma pairs_app_cases (l1 l2 : list node) (a b d : node) : In (a, b) (pairs (l1 ++ l2)) ->
  In (a, b) (pairs l1) \/ In (a, b) (pairs l2) \/ (l1 <> [] /\ l2 <> [] /\ a = last l1 d /\ b = hd d l2).
Proof.
  induction l1 as [|x l1 IH]; intros H; [right; left; exact H|].
  destruct l1 as [|y l1].
  - cbn [app] in H. destruct l2 as [|z l2]; [destruct H|]. rewrite pairs_cons2 in H. destruct H as [H|H].
    + injection H as <- <-. right. right. repeat split; discriminate.
    + right. left. exact H.
  - change ((x :: y :: l1) ++ l2) with (x :: y :: l1 ++ l2) in H. rewrite pairs_cons2 in H. destruct H as [H|H].
    + left. rewrite pairs_cons2. left. exact H.
    + destruct (IH H) as [H1|[H2|(N1 & N2 & Ea & Eb)]].
      * left. rewrite pairs_cons2. right. exact H1.
      * right. left. exact H2.
      * right. right. repeat split; [discriminate|exact N2| |exact Eb]. rewrite Ea. symmetry. apply (last_cons_ne x (y :: l1) d). discriminate.
Qed.

Lemma pairs_incl_app_r (l1 l2 : list node) : incl (pairs l2) (pairs (l1 ++ l2)).
Proof.
  induction l1 as [|x l1 IH]; [intros e He; exact He|]. intros e He. specialize (IH e He).
  destruct (l1 ++ l2) as [|y r] eqn:Q; [destruct IH|]. cbn [app]. rewrite Q, pairs_cons2. right. exact IH.
Qed.
Lemma pairs_incl_app_l (l1 l2 : list node) : incl (pairs l1) (pairs (l1 ++ l2)).
Proof.
  induction l1 as [|x l1 IH]; [intros e []|]. intros e He. destruct l1 as [|y l1]; [destruct He|].
  change ((x :: y :: l1) ++ l2) with (x :: y :: l1 ++ l2). rewrite pairs_cons2 in He |- *. destruct He as [He|He]; [left; exact He|right; apply IH; exact He].
Qed.

Lemma last_In (l : list node) d : l <> [] -> In (last l d) l.
Proof.
  induction l as [|x l IH]; [congruence|]. intros _. destruct l as [|y l]; [left; reflexivity|]. right. apply IH. discriminate.
Qed.
Lemma hd_In (l : list node) d : l <> [] -> In (hd d l) l.
Proof. destruct l; [congruence|]. intros _. left. reflexivity. Qed.

Lemma nodup_mid (l1 l2 l3 : list node) : NoDup (l1 ++ l2 ++ l3) -> NoDup l2.
Proof.
  induction l1 as [|x l1 IH]; cbn [app]; intros ND.
  - induction l2 as [|y l2 IH2]; [constructor|]. cbn [app] in ND. inversion ND as [|? ? Hy ND']; subst.
    constructor; [intros X; apply Hy; apply in_or_app; left; exact X|apply IH2; exact ND'].
  - inversion ND; subst. apply IH. assumption.
Qed.

Definition lastopt (l : list node) : list node := match l with [] => [] | _ => [last l 0%N] end.
Definition hdopt (l : list node) : list node := match l with [] => [] | x :: _ => [x] end.
Lemma lastopt_split l : l = removelast l ++ lastopt l.
Proof. destruct l as [|x l]; [reflexivity|]. unfold lastopt. apply app_removelast_last. discriminate. Qed.
Lemma hdopt_split l : l = hdopt l ++ tl l.
Proof. destruct l; reflexivity. Qed.
Lemma lastopt_incl l : incl (lastopt l) l.
Proof. destruct l as [|x l]; [intros ? []|]. intros y [<-|[]]. apply last_In. discriminate. Qed.
Lemma hdopt_incl l : incl (hdopt l) l.
Proof. destruct l as [|x l]; [intros ? []|]. intros y [<-|[]]. left. reflexivity. Qed.
Lemma removelast_incl (l : list node) : incl (removelast l) l.
Proof. intros x Hx. rewrite (lastopt_split l). apply in_or_app. left. exact Hx. Qed.
Lemma tl_incl (l : list node) : incl (tl l) l.
Proof. destruct l; [intros ? []|]. intros x Hx. right. exact Hx. Qed.
Lemma pairs_short (l : list node) : length l <= 1 -> pairs l = [].
Proof. destruct l as [|x [|y l]]; cbn; try reflexivity. lia. Qed.
Lemma lastopt_short l : length (lastopt l) <= 1. Proof. destruct l; cbn; lia. Qed.
Lemma hdopt_short l : length (hdopt l) <= 1. Proof. destruct l; cbn; lia. Qed.

(* ---- restriction of a position-sorted node list to a window ---- *)
Section Restrict.
  Variables (topo : list node) (left right : nat).
  Let pos := posn topo.
  Let W := window_nodes topo left right.

  Definition partA (r : list node) : list node := filter (fun v => pos v <? left) r.
  Definition partR (r : list node) : list node := filter (fun v => left <=? pos v) r.
  Definition partM (r : list node) : list node := filter (fun v => pos v <? right) (partR r).
  Definition partB (r : list node) : list node := filter (fun v => right <=? pos v) (partR r).
  Definition restrict (r : list node) : list node := lastopt (partA r) ++ partM r ++ hdopt (partB r).

  Variable r : list node.
  Hypothesis SS : StronglySorted (plt pos) r.
  Hypothesis Hin_topo : forall v, In v r -> In v topo.

  Lemma parts_split : r = partA r ++ partM r ++ partB r.
  Proof.
    rewrite (sorted_split pos left r SS) at 1. fold (partA r) (partR r). f_equal.
    apply (sorted_split pos right (partR r)). apply sorted_filter. exact SS.
  Qed.

  Lemma restrict_infix : r = removelast (partA r) ++ restrict r ++ tl (partB r).
  Proof.
    unfold restrict. rewrite parts_split at 1. rewrite (lastopt_split (partA r)) at 1. rewrite (hdopt_split (partB r)) at 1.
    rewrite <- !app_assoc. reflexivity.
  Qed.

  Lemma partA_spec v : In v (partA r) <-> In v r /\ pos v < left.
  Proof. unfold partA. rewrite filter_In, Nat.ltb_lt. tauto. Qed.
  Lemma partM_spec v : In v (partM r) <-> In v r /\ left <= pos v < right.
  Proof. unfold partM, partR. rewrite !filter_In, Nat.ltb_lt, Nat.leb_le. tauto. Qed.
  Lemma partB_spec v : In v (partB r) <-> In v r /\ right <= pos v /\ left <= pos v.
  Proof. unfold partB, partR. rewrite !filter_In, !Nat.leb_le. tauto. Qed.

  Lemma partM_window v : In v (partM r) <-> In v r /\ In v W.
  Proof.
    rewrite partM_spec. unfold W. rewrite window_nodes_In. fold pos. split; [intros [H1 H2]; split; [exact H1|split; [apply Hin_topo; exact H1|exact H2]]|tauto].
  Qed.
  Lemma partA_not_window v : In v (partA r) -> ~ In v W.
  Proof. intros H Hw. apply partA_spec in H. unfold W in Hw. apply window_nodes_In in Hw. fold pos in Hw. lia. Qed.
  Lemma partB_not_window v : In v (partB r) -> ~ In v W.
  Proof. intros H Hw. apply partB_spec in H. unfold W in Hw. apply window_nodes_In in Hw. fold pos in Hw. lia. Qed.

  Lemma restrict_incl : incl (restrict r) r.
  Proof.
    intros v Hv. unfold restrict in Hv. apply in_app_or in Hv. destruct Hv as [Hv|Hv].
    - apply lastopt_incl in Hv. apply partA_spec in Hv. tauto.
    - apply in_app_or in Hv. destruct Hv as [Hv|Hv]; [apply partM_spec in Hv; tauto|apply hdopt_incl in Hv; apply partB_spec in Hv; tauto].
  Qed.

  Lemma restrict_pairs_incl : incl (pairs (restrict r)) (pairs r).
  Proof.
    intros e He. rewrite restrict_infix. apply pairs_incl_app_r. apply pairs_incl_app_l. exact He.
  Qed.

  Lemma restrict_nodup : NoDup (restrict r).
  Proof.
    pose proof (sorted_nodup pos r SS) as ND. rewrite restrict_infix in ND. apply nodup_mid in ND. exact ND.
  Qed.

  (* every consecutive pair of the restriction touches the window *)
  Lemma restrict_pairs_touch a b : partM r <> [] -> In (a, b) (pairs (restrict r)) -> In a W \/ In b W.
  Proof.
    intros HM H. unfold restrict in H.
    destruct (pairs_app_cases _ _ a b 0%N H) as [H1|[H2|(_ & _ & Ea & Eb)]].
    - rewrite (pairs_short _ (lastopt_short _)) in H1. destruct H1.
    - destruct (pairs_app_cases _ _ a b 0%N H2) as [H3|[H4|(N1 & _ & Ea & _)]].
      + left. apply (in_pairs_nodes _ _ _) in H3. apply (partM_window a). tauto.
      + rewrite (pairs_short _ (hdopt_short _)) in H4. destruct H4.
      + left. apply (partM_window a). rewrite Ea. apply last_In. exact N1.
    - right. apply (partM_window b). rewrite Eb. destruct (partM r) as [|m M] eqn:Q; [congruence|]. cbn [app hd]. rewrite <- Q at 1.
      rewrite Q. left. reflexivity.
  Qed.

  Lemma restrict_hd_A l : partA r <> [] -> hd 0%N (restrict r ++ l) = last (partA r) 0%N.
  Proof. intros H. unfold restrict. destruct (partA r) as [|x A]; [congruence|reflexivity]. Qed.

  (* every consecutive pair of the list that touches the window is a consecutive pair of the restriction *)
  Lemma touch_in_restrict a b : In (a, b) (pairs r) -> In a W \/ In b W -> In (a, b) (pairs (restrict r)).
  Proof.
    intros H Hw.
    assert (Hab : In a r /\ In b r) by (apply in_pairs_nodes; exact H).
    assert (HM : partM r <> []).
    { destruct Hw as [Hw|Hw]; [assert (X : In a (partM r)) by (apply partM_window; tauto)|assert (X : In b (partM r)) by (apply partM_window; tauto)];
        intros Q; rewrite Q in X; destruct X. }
    assert (HQ : restrict r <> []).
    { unfold restrict. destruct (partM r) as [|m M]; [congruence|]. destruct (lastopt (partA r)); discriminate. }
    rewrite restrict_infix in H.
    destruct (pairs_app_cases _ _ a b 0%N H) as [H1|[H2|(N1 & _ & Ea & Eb)]].
    - exfalso. apply in_pairs_nodes in H1. destruct H1 as [Ha Hb]. apply removelast_incl in Ha. apply removelast_incl in Hb.
      destruct Hw as [Hw|Hw]; [exact (partA_not_window a Ha Hw)|exact (partA_not_window b Hb Hw)].
    - destruct (pairs_app_cases _ _ a b 0%N H2) as [H3|[H4|(_ & N2 & Ea & Eb)]].
      + exact H3.
      + exfalso. apply in_pairs_nodes in H4. destruct H4 as [Ha Hb]. apply tl_incl in Ha. apply tl_incl in Hb.
        destruct Hw as [Hw|Hw]; [exact (partB_not_window a Ha Hw)|exact (partB_not_window b Hb Hw)].
      + exfalso. (* a = last of the restriction, b = first node after it *)
        assert (Hb : In b (partB r)) by (apply tl_incl; rewrite Eb; apply hd_In; exact N2).
        assert (HB : partB r <> []) by (intros Q; rewrite Q in Hb; destruct Hb).
        assert (Ha : In a (partB r)).
        { rewrite Ea. unfold restrict. destruct (partB r) as [|y B]; [congruence|]. cbn [hdopt].
          rewrite !app_assoc. rewrite last_app_single. left. reflexivity. }
        destruct Hw as [Hw|Hw]; [exact (partB_not_window a Ha Hw)|exact (partB_not_window b Hb Hw)].
    - exfalso. (* a = last node before the restriction, b = its first node *)
      assert (Ha : In a (partA r)) by (apply removelast_incl; rewrite Ea; apply last_In; exact N1).
      assert (HA : partA r <> []) by (intros Q; rewrite Q in Ha; destruct Ha).
      assert (Hb : In b (partA r)) by (rewrite Eb, (restrict_hd_A _ HA); apply last_In; exact HA).
      destruct Hw as [Hw|Hw]; [exact (partA_not_window a Ha Hw)|exact (partA_not_window b Hb Hw)].
  Qed.

  (* the first node of the restriction: either the last node before the window, or the first node of the list *)
  Lemma restrict_hd : partM r <> [] ->
    (partA r <> [] /\ hd 0%N (restrict r) = last (partA r) 0%N) \/ (partA r = [] /\ hd 0%N (restrict r) = hd 0%N r).
  Proof.
    intros HM. pose proof parts_split as E. unfold restrict. destruct (partA r) as [|x A] eqn:QA.
    - right. split; [reflexivity|]. cbn [app] in E. destruct (partM r) as [|m M] eqn:QM; [congruence|].
      cbn [lastopt app hd]. rewrite E. reflexivity.
    - left. split; [discriminate|reflexivity].
  Qed.

  Lemma last_app_ne (l1 l2 : list node) d : l2 <> [] -> last (l1 ++ l2) d = last l2 d.
  Proof.
    induction l1 as [|z l1 IH]; intros Hn; [reflexivity|]. cbn [app]. rewrite last_cons_ne; [apply IH; exact Hn|].
    destruct l1; [exact Hn|discriminate].
  Qed.

  Lemma restrict_last : partM r <> [] ->
    (partB r <> [] /\ last (restrict r) 0%N = hd 0%N (partB r)) \/ (partB r = [] /\ last (restrict r) 0%N = last r 0%N).
  Proof.
    intros HM. pose proof parts_split as E. unfold restrict. destruct (partB r) as [|y B] eqn:QB.
    - right. split; [reflexivity|]. cbn [hdopt]. rewrite !app_nil_r in *.
      rewrite (last_app_ne _ _ 0%N HM). rewrite E at 2. rewrite (last_app_ne _ _ 0%N HM). reflexivity.
    - left. split; [discriminate|]. cbn [hdopt hd]. rewrite !app_assoc. apply last_app_single.
  Qed.
End Restrict.

(* ---------------------------------------------------------------------------------------------- *)
(* the instance MinFlowDecomp builds for a graph with an ignore list (EndToEnd2.e2e_inst is the case ign = []) *)
Definition sg_inst (V : list node) (E : list edge) (s t : node) (f : edge -> Z) (ign : list edge) (k : nat) : kfd_inst :=
  {| f_base := {| p_graph := st_of V E s t; p_k := k; p_allow_empty := false; p_cons := []; p_cov := 1%Q; p_len := None |};
     f_flow := map (fun e => (e, inject_Z (f e))) E; f_ignore := synth V E s t ++ ign;
     f_wmax := inject_Z (fmax E f); f_int := true |}.

Lemma sumq_filter_zero {A} (g : A -> Q) (c : A -> bool) (l : list A) :
  (forall x, In x l -> c x = false -> (g x == 0)%Q) -> (sumq g (filter c l) == sumq g l)%Q.
Proof.
  induction l as [|x l IH]; intros H; [reflexivity|]. cbn [filter]. destruct (c x) eqn:C; cbn [sumq].
  - rewrite IH; [reflexivity|]. intros y Hy. apply H. right. exact Hy.
  - rewrite IH, (H x (or_introl eq_refl) C); [lra|]. intros y Hy. apply H. right. exact Hy.
Qed.

Lemma sumq_ge_term_nn {A} (g : A -> Q) l x : (forall y, In y l -> (0 <= g y)%Q) -> In x l -> (g x <= sumq g l)%Q.
Proof.
  induction l as [|y l IH]; intros H Hin; [destruct Hin|]. cbn [sumq].
  assert (N : (0 <= sumq g l)%Q).
  { clear IH Hin. induction l as [|z l IHl]; cbn [sumq]; [lra|]. pose proof (H z (or_intror (or_introl eq_refl))).
    assert (0 <= sumq g l)%Q by (apply IHl; intros u [->|Hu]; apply H; [left; reflexivity|right; right; exact Hu]). lra. }
  destruct Hin as [->|Hin]; [lra|]. pose proof (H y (or_introl eq_refl)).
  assert (g x <= sumq g l)%Q by (apply IH; [intros z Hz; apply H; right; exact Hz|exact Hin]). lra.
Qed.

Lemma in_pairs_st (s t : node) (r : list node) (e : edge) : fst e <> s -> snd e <> t -> r <> [] ->
  (In e (pairs (s :: r ++ [t])) <-> In e (pairs r)).
Proof.
  intros Hs Ht Hr. destruct r as [|v0 r]; [congruence|]. rewrite pairs_st. cbn [In]. rewrite in_app_iff. cbn [In]. split.
  - intros [H|[H|[H|[]]]]; [subst e; cbn in Hs; congruence|exact H|subst e; cbn in Ht; congruence].
  - intros H. right. left. exact H.
Qed.

Section SubgraphBound.
  Variables (V : list node) (E : list edge) (s t : node).
  Variable f : edge -> Z.
  Variable ign : list edge.
  Variables (topo : list node) (left right : nat).
  Variable k : nat.
  Variable P : N -> list node.
  Variable w : N -> Q.
  Hypothesis Hs : ~ In s V.
  Hypothesis Ht : ~ In t V.
  Hypothesis Hst : s <> t.
  Hypothesis HE : forall e, In e E -> In (fst e) V /\ In (snd e) V.
  Hypothesis Htopo : forall u v, In (u, v) E -> posn topo u < posn topo v.
  Hypothesis Hcover : forall v, In v V -> In v topo.
  Hypothesis Htopo_V : forall v, In v topo -> In v V.
  Hypothesis HD : decomposition (sg_inst V E s t f ign k) P w.

  Let pos := posn topo.
  Let W := window_nodes topo left right.
  Let EH := window_edges W E.
  Let VH := window_vertices W EH.
  Definition ign_H : list edge := filter (fun e => memn (fst e) VH && memn (snd e) VH) ign.

  Definition inner (i : N) : list node := removelast (tl (P i)).
  Definition Qp (i : N) : list node := restrict topo left right (inner i).
  Definition survives (i : N) : bool := negb (match partM topo left right (inner i) with [] => true | _ => false end).
  Definition surv : list N := filter survives (layers k).
  Definition k' : nat := length surv.
  Definition idx (j : N) : N := nth (N.to_nat j) surv 0%N.
  Definition live (i : N) : bool := existsb (fun e => negb (mem_edge e ign)) (pairs (Qp i)).
  Definition P' (j : N) : list node := s :: Qp (idx j) ++ [t].
  Definition w' (j : N) : Q := if live (idx j) then w (idx j) else 0%Q.

  Lemma EH_spec e : In e EH <-> In e E /\ (In (fst e) W \/ In (snd e) W).
  Proof. unfold EH, window_edges, touches. rewrite filter_In, orb_true_iff, !memn_In. tauto. Qed.
  Lemma VH_ends e : In e EH -> In (fst e) VH /\ In (snd e) VH.
  Proof. intros He. unfold VH. split; apply window_vertices_In; right; exists e; tauto. Qed.
  Lemma VH_in_V v : (forall x, In x W -> In x V) -> In v VH -> In v V.
  Proof.
    intros HW Hv. unfold VH in Hv. apply window_vertices_In in Hv. destruct Hv as [Hv|(e & He & Hv)]; [apply HW; exact Hv|].
    apply EH_spec in He. destruct He as [He _]. apply HE in He. destruct Hv as [-> | ->]; tauto.
  Qed.

  (* shape of the paths of the decomposition *)
  Lemma P_shape_sg i : In i (layers k) ->
    P i = s :: inner i ++ [t] /\ inner i <> [] /\ (forall v, In v (inner i) -> In v V) /\ incl (pairs (inner i)) E /\
    is_start E [] (hd s (inner i)) = true /\ is_end E [] (last (inner i) s) = true /\ NoDup (P i).
  Proof.
    intros Hi. destruct HD as (HP & _ & _). destruct (HP i Hi) as (Hh & Hl & ND & Hin). cbn in Hh, Hl, Hin.
    destruct (strip_st_spec s t (P i) Hst Hh Hl) as (r & Er & _).
    assert (Ei : inner i = r) by (unfold inner; rewrite Er; cbn [tl]; apply removelast_last).
    rewrite Ei. rewrite Er in Hin.
    destruct (aug_route_valid V E [] [] s t Hs Ht Hst HE r Hin) as (A1 & A2 & A3 & A4 & A5).
    repeat split; assumption.
  Qed.

  Lemma inner_sorted i : In i (layers k) -> StronglySorted (plt pos) (inner i).
  Proof.
    intros Hi. destruct (P_shape_sg i Hi) as (_ & _ & _ & HinE & _). apply chain_sorted. intros a b Hab. apply Htopo. apply HinE. exact Hab.
  Qed.
  Lemma inner_topo i : In i (layers k) -> forall v, In v (inner i) -> In v topo.
  Proof. intros Hi v Hv. apply Hcover. apply (P_shape_sg i Hi). exact Hv. Qed.

  Lemma s_not_inner i : In i (layers k) -> ~ In s (inner i) /\ ~ In t (inner i).
  Proof. intros Hi. destruct (P_shape_sg i Hi) as (_ & _ & HV & _). split; intros X; apply HV in X; contradiction. Qed.

  (* an edge of H lies on the path iff it lies on the restricted path *)
  Lemma on_path_iff i e : In i (layers k) -> In e EH -> (In e (pairs (P i)) <-> In e (pairs (Qp i))).
  Proof.
    intros Hi He. destruct (P_shape_sg i Hi) as (EP & Hne & HV & HinE & _). apply EH_spec in He. destruct He as [HeE Hw].
    destruct (HE e HeE) as [H1 H2].
    assert (Es : fst e <> s) by (intros X; rewrite X in H1; contradiction).
    assert (Et : snd e <> t) by (intros X; rewrite X in H2; contradiction).
    rewrite EP, (in_pairs_st s t (inner i) e Es Et Hne). destruct e as [a b]. cbn [fst snd] in Hw. split.
    - intros H. apply (touch_in_restrict topo left right (inner i) (inner_sorted i Hi) (inner_topo i Hi) a b H Hw).
    - intros H. apply (restrict_pairs_incl topo left right (inner i) (inner_sorted i Hi)). exact H.
  Qed.

  Lemma survives_M i : survives i = true -> partM topo left right (inner i) <> [].
  Proof. unfold survives. destruct (partM topo left right (inner i)); [discriminate|discriminate]. Qed.

  Lemma Qp_pairs_EH i e : In i (layers k) -> survives i = true -> In e (pairs (Qp i)) -> In e EH.
  Proof.
    intros Hi Hsv He. destruct (P_shape_sg i Hi) as (_ & _ & _ & HinE & _). destruct e as [a b]. apply EH_spec. split.
    - apply HinE. apply (restrict_pairs_incl topo left right (inner i) (inner_sorted i Hi)). exact He.
    - apply (restrict_pairs_touch topo left right (inner i) (inner_topo i Hi) a b (survives_M i Hsv) He).
  Qed.

  Lemma not_surviving_no_edge i e : In i (layers k) -> survives i = false -> In e EH -> ~ In e (pairs (P i)).
  Proof.
    intros Hi Hsv He Hp. apply (on_path_iff i e Hi He) in Hp. unfold Qp, restrict in Hp.
    unfold survives in Hsv. destruct (partM topo left right (inner i)) as [|m M] eqn:QM; [|discriminate]. cbn [app] in Hp.
    (* with no window node the restriction has at most two nodes, one before and one after the window: that pair does not touch it *)
    apply EH_spec in He. destruct He as [_ Hw]. destruct e as [a b]. cbn [fst snd] in Hw.
    apply in_pairs_nodes in Hp. destruct Hp as [Ha Hb].
    assert (X : forall v, In v (lastopt (partA topo left (inner i)) ++ hdopt (partB topo left right (inner i))) -> ~ In v W).
    { intros v Hv. apply in_app_or in Hv. destruct Hv as [Hv|Hv].
      - apply lastopt_incl in Hv. apply (partA_not_window topo left right (inner i) v Hv).
      - apply hdopt_incl in Hv. apply (partB_not_window topo left right (inner i) v Hv). }
    destruct Hw as [Hw|Hw]; [exact (X a Ha Hw)|exact (X b Hb Hw)].
  Qed.

  Lemma Qp_nonempty i : survives i = true -> Qp i <> [].
  Proof.
    intros Hsv. apply survives_M in Hsv. unfold Qp, restrict. destruct (partM topo left right (inner i)); [congruence|].
    destruct (lastopt (partA topo left (inner i))); discriminate.
  Qed.
  Lemma Qp_in_inner i : In i (layers k) -> incl (Qp i) (inner i).
  Proof. intros Hi. apply (restrict_incl topo left right). Qed.

  (* the first node of a restricted path has no in-edge in H, the last one no out-edge *)
  Lemma Qp_hd_start i : In i (layers k) -> survives i = true -> indeg0 EH (hd s (Qp i)) = true.
  Proof.
    intros Hi Hsv. destruct (P_shape_sg i Hi) as (_ & Hne & HV & HinE & Hstart & _).
    assert (Hd : hd s (Qp i) = hd 0%N (Qp i)) by (destruct (Qp i) eqn:Q; [exfalso; apply (Qp_nonempty i Hsv); exact Q|reflexivity]).
    rewrite Hd. unfold indeg0. apply negb_true_iff. destruct (existsb (fun e => (snd e =? hd 0%N (Qp i))%N) EH) eqn:X; [exfalso|reflexivity].
    apply existsb_exists in X. destruct X as ([x y] & He & Ey). cbn [snd] in Ey. apply N.eqb_eq in Ey. subst y.
    apply EH_spec in He. destruct He as [HeE Hw]. cbn [fst snd] in Hw.
    destruct (restrict_hd topo left right (inner i) (inner_sorted i Hi) (survives_M i Hsv)) as [(HA & Eh)|(HA & Eh)]; fold (Qp i) in Eh.
    - (* the node before the window *)
      assert (Hq : In (hd 0%N (Qp i)) (partA topo left (inner i))) by (rewrite Eh; apply last_In; exact HA).
      pose proof (Htopo _ _ HeE) as Hlt. apply partA_spec in Hq. destruct Hq as [_ Hq]. unfold pos in *.
      destruct Hw as [Hw|Hw]; unfold W in Hw; apply window_nodes_In in Hw; lia.
    - (* the first node of the path: a source of G *)
      rewrite Eh in HeE. assert (Hh : hd 0%N (inner i) = hd s (inner i)) by (destruct (inner i); [congruence|reflexivity]).
      rewrite Hh in HeE. unfold is_start, indeg0 in Hstart. rewrite orb_false_r in Hstart. apply negb_true_iff in Hstart.
      assert (Y : existsb (fun e => (snd e =? hd s (inner i))%N) E = true) by (apply existsb_exists; exists (x, hd s (inner i)); split; [exact HeE|apply N.eqb_refl]).
      congruence.
  Qed.

  Lemma Qp_last_end i : In i (layers k) -> survives i = true -> outdeg0 EH (last (Qp i) s) = true.
  Proof.
    intros Hi Hsv. destruct (P_shape_sg i Hi) as (_ & Hne & HV & HinE & _ & Hend & _).
    assert (Hd : last (Qp i) s = last (Qp i) 0%N) by (apply last_default_irrel; apply (Qp_nonempty i Hsv)).
    rewrite Hd. unfold outdeg0. apply negb_true_iff. destruct (existsb (fun e => (fst e =? last (Qp i) 0%N)%N) EH) eqn:X; [exfalso|reflexivity].
    apply existsb_exists in X. destruct X as ([x y] & He & Ey). cbn [fst] in Ey. apply N.eqb_eq in Ey. subst x.
    apply EH_spec in He. destruct He as [HeE Hw]. cbn [fst snd] in Hw.
    destruct (restrict_last topo left right (inner i) (inner_sorted i Hi) (survives_M i Hsv)) as [(HB & El)|(HB & El)]; fold (Qp i) in El.
    - assert (Hq : In (last (Qp i) 0%N) (partB topo left right (inner i))) by (rewrite El; apply hd_In; exact HB).
      pose proof (Htopo _ _ HeE) as Hlt. apply partB_spec in Hq. destruct Hq as (_ & Hq & _). unfold pos in *.
      destruct Hw as [Hw|Hw]; unfold W in Hw; apply window_nodes_In in Hw; lia.
    - rewrite El in HeE. assert (Hh : last (inner i) 0%N = last (inner i) s) by (apply last_default_irrel; exact Hne).
      rewrite Hh in HeE. unfold is_end, outdeg0 in Hend. rewrite orb_false_r in Hend. apply negb_true_iff in Hend.
      assert (Y : existsb (fun e => (fst e =? last (inner i) s)%N) E = true) by (apply existsb_exists; exists (last (inner i) s, y); split; [exact HeE|apply N.eqb_refl]).
      congruence.
  Qed.

  Lemma W_in_V x : In x W -> In x V.
  Proof. intros H. unfold W in H. apply window_nodes_In in H. apply Htopo_V. tauto. Qed.
  Lemma s_not_VH : ~ In s VH. Proof. intros H. apply (VH_in_V s W_in_V) in H. contradiction. Qed.
  Lemma t_not_VH : ~ In t VH. Proof. intros H. apply (VH_in_V t W_in_V) in H. contradiction. Qed.

  Lemma filter_len_le' {A} (c : A -> bool) (l : list A) : length (filter c l) <= length l.
  Proof. induction l as [|x l IH]; [cbn; lia|]. cbn [filter]. destruct (c x); cbn [length]; lia. Qed.
  Lemma layers_len n : length (layers n) = n.
  Proof. unfold layers. rewrite map_length, seq_length. reflexivity. Qed.

  Lemma k'_le_k : k' <= k.
  Proof. unfold k', surv. etransitivity; [apply filter_len_le'|]. rewrite layers_len. lia. Qed.

  Lemma idx_surv j : In j (layers k') -> In (idx j) (layers k) /\ survives (idx j) = true.
  Proof.
    intros Hj. apply in_layers in Hj. destruct Hj as (n & Hn & ->). unfold idx. rewrite Nat2N.id.
    assert (X : In (nth n surv 0%N) surv) by (apply nth_In; exact Hn). unfold surv in X at 2. apply filter_In in X. exact X.
  Qed.

  (* sums over the surviving layers *)
  Lemma sum_over_survivors (g : N -> Q) : (forall i, In i (layers k) -> survives i = false -> (g i == 0)%Q) ->
    (sumq (fun j => g (idx j)) (layers k') == sumq g (layers k))%Q.
  Proof.
    intros H0. unfold layers at 1. rewrite sumq_map.
    assert (E1 : (sumq (fun n => g (idx (N.of_nat n))) (seq 0 k') == sumq (fun n => g (nth n surv 0%N)) (seq 0 (length surv)))%Q).
    { unfold k'. apply sumq_ext. intros n _. unfold idx. rewrite Nat2N.id. reflexivity. }
    rewrite E1, (sumq_nth_seq g surv 0%N). unfold surv. apply sumq_filter_zero. exact H0.
  Qed.

  Lemma live_edge i : In i (layers k) -> survives i = true -> live i = true ->
    exists e, In e (pairs (Qp i)) /\ In e EH /\ mem_edge e ign = false /\ In e (pairs (P i)).
  Proof.
    intros Hi Hsv Hl. unfold live in Hl. apply existsb_exists in Hl. destruct Hl as (e & He & Hn). apply negb_true_iff in Hn.
    pose proof (Qp_pairs_EH i e Hi Hsv He) as HeH. exists e. repeat split; try assumption. apply (on_path_iff i e Hi HeH). exact He.
  Qed.

  Lemma not_synth e : In e E -> mem_edge e (synth V E s t) = false.
  Proof.
    intros He. destruct (mem_edge e (synth V E s t)) eqn:M; [exfalso|reflexivity]. apply PathEncComplete.mem_edge_In in M.
    destruct (HE e He) as [H1 H2]. unfold synth, aug_source_edges, aug_sink_edges in M. apply in_app_or in M.
    destruct M as [M|M]; apply in_map_iff in M; destruct M as (u & Eq & _); subst e; cbn [fst snd] in *; contradiction.
  Qed.

  Lemma ign_H_spec e : In e EH -> mem_edge e ign_H = mem_edge e ign.
  Proof.
    intros He. destruct (VH_ends e He) as [H1 H2]. apply eq_true_iff_eq. rewrite !PathEncComplete.mem_edge_In. unfold ign_H.
    rewrite filter_In, andb_true_iff, !memn_In. tauto.
  Qed.

  Lemma w_nonneg i : In i (layers k) -> (0 <= w i)%Q.
  Proof. intros Hi. destruct HD as (_ & Hw & _). destruct (Hw i Hi) as [[A _] _]. exact A. Qed.

  (* the flow equation of G on a non-ignored edge of E *)
  Lemma G_flow e : In e E -> mem_edge e ign = false ->
    (sumq (fun i => w i * PathEncComplete.indq (mem_edge e (pairs (P i)))) (layers k) == inject_Z (f e))%Q.
  Proof.
    intros He Hig. destruct HD as (_ & _ & Hf). cbn in Hf. rewrite <- (lookup_flow E f e He). apply Hf.
    - unfold aug_edges. apply in_or_app. left. exact He.
    - change (mem_edge e (synth V E s t ++ ign) = false). destruct (mem_edge e (synth V E s t ++ ign)) eqn:M; [exfalso|reflexivity].
      apply PathEncComplete.mem_edge_In in M. apply in_app_or in M. destruct M as [M|M].
      + apply PathEncComplete.mem_edge_In in M. rewrite (not_synth e He) in M. discriminate.
      + apply PathEncComplete.mem_edge_In in M. congruence.
  Qed.

  (* C05: the decomposition of G restricts to a decomposition of the window subgraph into at most as many paths *)
  Theorem subgraph_decomposition : decomposition (sg_inst VH EH s t f ign_H k') P' w' /\ k' <= k.
  Proof.
    split; [|exact k'_le_k]. unfold decomposition. cbn [p_graph f_base sg_inst p_k g_src g_snk g_edges st_of f_wmax f_int f_ignore f_flow].
    assert (HEH : forall e, In e EH -> In (fst e) VH /\ In (snd e) VH) by exact VH_ends.
    split; [|split].
    - (* the restricted paths are source-to-sink paths of H *)
      intros j Hj. destruct (idx_surv j Hj) as [Hi Hsv]. set (i := idx j) in *. unfold P'. fold i.
      pose proof (Qp_nonempty i Hsv) as Hne. destruct (s_not_inner i Hi) as [Hsn Htn].
      split; [reflexivity|]. split; [change (s :: Qp i ++ [t]) with ((s :: Qp i) ++ [t]); apply last_snoc|]. split.
      + constructor.
        * intros X. apply in_app_or in X. destruct X as [X|[X|[]]]; [apply Hsn; apply (Qp_in_inner i Hi); exact X|congruence].
        * apply NoDup_app_intro || idtac.
          assert (NDQ : NoDup (Qp i)) by (apply (restrict_nodup topo left right (inner i) (inner_sorted i Hi))).
          clear -NDQ Htn Hi. assert (Ht' : ~ In t (Qp i)) by (intros X; apply Htn; apply (Qp_in_inner i Hi); exact X).
          induction (Qp i) as [|x l IH]; cbn [app]; [constructor; [intros []|constructor]|].
          inversion NDQ as [|? ? Hx ND']; subst. constructor.
          -- intros X. apply in_app_or in X. destruct X as [X|[X|[]]]; [contradiction|]. apply Ht'. left. symmetry. exact X.
          -- apply IH; [exact ND'|]. intros X. apply Ht'. right. exact X.
      + destruct (Qp i) as [|q0 Q] eqn:EQ; [congruence|]. rewrite pairs_st. intros e He. destruct He as [<-|He].
        * apply (aug_spec_source VH EH [] [] s t s_not_VH Hst HEH q0). split.
          -- destruct (in_dec N.eq_dec q0 VH) as [X|X]; [exact X|exfalso].
             (* q0 is an endpoint of an edge of the restricted path or a window node *)
             pose proof (survives_M i Hsv) as HM.
             destruct Q as [|q1 Q'].
             ++ (* single node: it is the window node *)
                assert (Hq : In q0 (partM topo left right (inner i))).
                { unfold Qp, restrict in EQ. destruct (partM topo left right (inner i)) as [|m M] eqn:QM; [congruence|].
                  destruct (lastopt (partA topo left (inner i))) as [|a0 A0]; cbn [app] in EQ.
                  - injection EQ as <- _. left. reflexivity.
                  - injection EQ as _ EQ. apply app_eq_nil in EQ. destruct EQ as [_ EQ]. discriminate EQ. }
                apply (partM_window topo left right (inner i) (inner_topo i Hi)) in Hq. apply X. unfold VH. apply window_vertices_In. left. tauto.
             ++ assert (He : In (q0, q1) (pairs (Qp i))) by (rewrite EQ, pairs_cons2; left; reflexivity).
                apply (Qp_pairs_EH i _ Hi Hsv) in He. apply X. apply (VH_ends _ He).
          -- unfold is_start. rewrite orb_false_r. pose proof (Qp_hd_start i Hi Hsv) as Hh. rewrite EQ in Hh. exact Hh.
        * apply in_app_or in He. destruct He as [He|[<-|[]]].
          -- unfold aug_edges. apply in_or_app. left. apply (Qp_pairs_EH i e Hi Hsv). rewrite EQ. exact He.
          -- apply (aug_spec_sink VH EH [] [] s t t_not_VH Hst HEH (last (q0 :: Q) q0)). split.
             ++ destruct (in_dec N.eq_dec (last (q0 :: Q) q0) VH) as [X|X]; [exact X|exfalso].
                destruct Q as [|q1 Q'].
                ** cbn [last] in X.
                   assert (Hq : In q0 (partM topo left right (inner i))).
                   { pose proof (survives_M i Hsv) as HM. unfold Qp, restrict in EQ. destruct (partM topo left right (inner i)) as [|m M] eqn:QM; [congruence|].
                     destruct (lastopt (partA topo left (inner i))) as [|a0 A0]; cbn [app] in EQ.
                     - injection EQ as <- _. left. reflexivity.
                     - injection EQ as _ EQ. apply app_eq_nil in EQ. destruct EQ as [_ EQ]. discriminate EQ. }
                   apply (partM_window topo left right (inner i) (inner_topo i Hi)) in Hq. apply X. unfold VH. apply window_vertices_In. left. tauto.
                ** assert (Hl : exists z, In (z, last (q0 :: q1 :: Q') q0) (pairs (Qp i))).
                   { rewrite EQ. clear. revert q0 q1. induction Q' as [|q2 Q'' IH]; intros q0 q1.
                     - exists q0. cbn. left. reflexivity.
                     - destruct (IH q1 q2) as (z & Hz). exists z. rewrite pairs_cons2. right.
                       change (last (q0 :: q1 :: q2 :: Q'') q0) with (last (q1 :: q2 :: Q'') q0).
                       rewrite (last_default_irrel (q1 :: q2 :: Q'') q0 q1) by discriminate. exact Hz. }
                   destruct Hl as (z & Hz). apply (Qp_pairs_EH i _ Hi Hsv) in Hz. apply X. apply (VH_ends _ Hz).
             ++ unfold is_end. rewrite orb_false_r. pose proof (Qp_last_end i Hi Hsv) as Hh. rewrite EQ in Hh.
                rewrite (last_default_irrel (q0 :: Q) q0 s) by discriminate. exact Hh.
    - (* weights *)
      intros j Hj. destruct (idx_surv j Hj) as [Hi Hsv]. unfold w'. set (i := idx j) in *.
      destruct HD as (_ & Hw & _). destruct (Hw i Hi) as [[W0 _] Wint]. cbn in Wint.
      destruct (live i) eqn:L.
      + split; [|exact Wint]. split; [exact W0|].
        destruct (live_edge i Hi Hsv L) as (e & _ & HeH & Hig & HeP).
        pose proof (proj1 (EH_spec e) HeH) as [HeE _].
        pose proof (G_flow e HeE Hig) as Fl.
        pose proof (sumq_ge_term_nn (fun i => (w i * PathEncComplete.indq (mem_edge e (pairs (P i))))%Q) (layers k) i) as T. cbv beta in T.
        assert (M1 : mem_edge e (pairs (P i)) = true) by (apply PathEncComplete.mem_edge_In; exact HeP).
        rewrite M1 in T. cbn [PathEncComplete.indq] in T.
        assert (T' : (w i * 1 <= sumq (fun i0 => w i0 * PathEncComplete.indq (mem_edge e (pairs (P i0)))) (layers k))%Q).
        { apply T; [|exact Hi]. intros y Hy. pose proof (w_nonneg y Hy). destruct (mem_edge e (pairs (P y))); cbn [PathEncComplete.indq]; lra. }
        rewrite Fl in T'. pose proof (fmax_ge EH f e HeH) as FM.
        assert (inject_Z (f e) <= inject_Z (fmax EH f))%Q by (rewrite <- Zle_Qle; exact FM). lra.
      + split; [|intros _; exists 0%Z; reflexivity]. split; [lra|].
        change 0%Q with (inject_Z 0). rewrite <- Zle_Qle. unfold fmax. clear. induction EH as [|x l IH]; cbn [fold_right]; lia.
    - (* the flow equation on the non-ignored edges of H *)
      intros e He Hig.
      assert (HeH : In e EH).
      { apply (aug_in VH EH [] [] s t) in He. destruct He as [He|[(u & Hu & X & ->)|(u & Hu & X & ->)]]; [exact He| |]; exfalso.
        - assert (M : mem_edge (s, u) (synth VH EH s t ++ ign_H) = true).
          { apply PathEncComplete.mem_edge_In. apply in_or_app. left. unfold synth, aug_source_edges. apply in_or_app. left.
            apply (in_map (fun u => (s, u))). apply filter_In. auto. }
          congruence.
        - assert (M : mem_edge (u, t) (synth VH EH s t ++ ign_H) = true).
          { apply PathEncComplete.mem_edge_In. apply in_or_app. left. unfold synth, aug_sink_edges. apply in_or_app. right.
            apply (in_map (fun u => (u, t))). apply filter_In. auto. }
          congruence. }
      pose proof (proj1 (EH_spec e) HeH) as [HeE _].
      assert (Hig' : mem_edge e ign = false).
      { rewrite <- (ign_H_spec e HeH). destruct (mem_edge e ign_H) eqn:M; [exfalso|reflexivity].
        assert (M' : mem_edge e (synth VH EH s t ++ ign_H) = true).
        { apply PathEncComplete.mem_edge_In. apply in_or_app. right. apply PathEncComplete.mem_edge_In. exact M. }
        congruence. }
      rewrite (lookup_flow EH f e HeH), <- (G_flow e HeE Hig').
      rewrite <- (sum_over_survivors (fun i => (w i * PathEncComplete.indq (mem_edge e (pairs (P i))))%Q)).
      + apply sumq_ext. intros j Hj. destruct (idx_surv j Hj) as [Hi Hsv]. unfold w', P'. set (i := idx j) in *.
        destruct (HE e HeE) as [H1 H2].
        assert (Es : fst e <> s) by (intros X; rewrite X in H1; contradiction).
        assert (Et : snd e <> t) by (intros X; rewrite X in H2; contradiction).
        assert (Eqm : mem_edge e (pairs (s :: Qp i ++ [t])) = mem_edge e (pairs (P i))).
        { apply eq_true_iff_eq. rewrite !PathEncComplete.mem_edge_In. rewrite (in_pairs_st s t (Qp i) e Es Et (Qp_nonempty i Hsv)).
          symmetry. apply (on_path_iff i e Hi HeH). }
        rewrite Eqm. destruct (mem_edge e (pairs (P i))) eqn:M; cbn [PathEncComplete.indq]; [|destruct (live i); ring].
        assert (L : live i = true).
        { unfold live. apply existsb_exists. exists e. split; [|rewrite Hig'; reflexivity].
          apply (on_path_iff i e Hi HeH). apply PathEncComplete.mem_edge_In. exact M. }
        rewrite L. reflexivity.
      + intros i Hi Hsv. assert (M : mem_edge e (pairs (P i)) = false).
        { destruct (mem_edge e (pairs (P i))) eqn:M; [|reflexivity]. exfalso. apply PathEncComplete.mem_edge_In in M.
          exact (not_surviving_no_edge i e Hi Hsv HeH M). }
        rewrite M. cbn [PathEncComplete.indq]. ring.
  Qed.
End SubgraphBound.

(* ---------------------------------------------------------------------------------------------- *)
(* packaged statements                                                                            *)
Definition restrict_ignore (VH : list node) (ign : list edge) : list edge :=
  filter (fun e => memn (fst e) VH && memn (snd e) VH) ign.

(* the premises about the caller's DAG and its topological order *)
Definition dag_with_order (V : list node) (E : list edge) (s t : node) (topo : list node) : Prop :=
  ~ In s V /\ ~ In t V /\ s <> t /\ (forall e, In e E -> In (fst e) V /\ In (snd e) V) /\
  (forall u v, In (u, v) E -> posn topo u < posn topo v) /\ (forall v, In v V <-> In v topo).

Theorem subgraph_restriction (V : list node) (E : list edge) (s t : node) (f : edge -> Z) (ign : list edge)
        (topo : list node) (left right k : nat) (P : N -> list node) (w : N -> Q) :
  dag_with_order V E s t topo ->
  decomposition (sg_inst V E s t f ign k) P w ->
  let VH := fst (window_subgraph topo left right E) in let EH := snd (window_subgraph topo left right E) in
  exists (kH : nat) (PH : N -> list node) (wH : N -> Q),
    kH <= k /\ decomposition (sg_inst VH EH s t f (restrict_ignore VH ign) kH) PH wH.
Proof.
  intros (Hs & Ht & Hst & HE & Htopo & Hperm) HD VH EH.
  exists (k' topo left right k P), (P' s t topo left right k P), (w' ign topo left right k P w).
  destruct (subgraph_decomposition V E s t f ign topo left right k P w Hs Ht Hst HE Htopo
              (fun v Hv => proj1 (Hperm v) Hv) (fun v Hv => proj2 (Hperm v) Hv) HD) as [D L].
  split; [exact L|exact D].
Qed.

(* the lower bound is sound: if the window subgraph has no decomposition into fewer than lbH paths, neither has G *)
Theorem subgraph_scanning_bound (V : list node) (E : list edge) (s t : node) (f : edge -> Z) (ign : list edge)
        (topo : list node) (left right k lbH : nat) (P : N -> list node) (w : N -> Q) :
  dag_with_order V E s t topo ->
  let VH := fst (window_subgraph topo left right E) in let EH := snd (window_subgraph topo left right E) in
  (forall j, j < lbH -> ~ exists PH wH, decomposition (sg_inst VH EH s t f (restrict_ignore VH ign) j) PH wH) ->
  decomposition (sg_inst V E s t f ign k) P w -> lbH <= k.
Proof.
  intros HG VH EH Hmin HD.
  destruct (subgraph_restriction V E s t f ign topo left right k P w HG HD) as (kH & PH & wH & Hle & DH).
  destruct (Nat.le_gt_cases lbH kH) as [L|L]; [lia|]. exfalso. apply (Hmin kH L). exists PH, wH. exact DH.
Qed.

Lemma sg_inst_nil V E s t f k : sg_inst V E s t f [] k = e2e_inst V E s t f k.
Proof. unfold sg_inst, e2e_inst. rewrite app_nil_r. reflexivity. Qed.

(* the same for the instance without an ignore list (EndToEnd2.e2e_inst) *)
Theorem subgraph_scanning_bound_e2e (V : list node) (E : list edge) (s t : node) (f : edge -> Z)
        (topo : list node) (left right k lbH : nat) (P : N -> list node) (w : N -> Q) :
  dag_with_order V E s t topo ->
  let VH := fst (window_subgraph topo left right E) in let EH := snd (window_subgraph topo left right E) in
  (forall j, j < lbH -> ~ exists PH wH, decomposition (e2e_inst VH EH s t f j) PH wH) ->
  decomposition (e2e_inst V E s t f k) P w -> lbH <= k.
Proof.
  intros HG VH EH Hmin HD. rewrite <- sg_inst_nil in HD.
  apply (subgraph_scanning_bound V E s t f [] topo left right k lbH P w HG); [|exact HD].
  intros j Hj. change (restrict_ignore (fst (window_subgraph topo left right E)) []) with (@nil edge). rewrite sg_inst_nil. apply Hmin. exact Hj.
Qed.

(* ---- a concrete instance: 0 -> 1 -> 2 -> 3 and 0 -> 2, window {1} ---- *)
Definition sbV : list node := [0; 1; 2; 3]%N.
Definition sbE : list edge := [(0, 1); (1, 2); (2, 3); (0, 2)]%N.
Definition sbf (e : edge) : Z := if edge_eqb e (2, 3)%N then 2%Z else 1%Z.
Definition sbP (i : N) : list node := if (i =? 0)%N then [10; 0; 1; 2; 3; 11]%N else [10; 0; 2; 3; 11]%N.
Definition sbw (_ : N) : Q := 1%Q.

Lemma sb_dag : dag_with_order sbV sbE 10%N 11%N sbV.
Proof.
  split; [cbn; intuition discriminate|]. split; [cbn; intuition discriminate|]. split; [discriminate|]. split.
  - intros e He. cbn in He. intuition (subst; cbn; tauto).
  - split; [|tauto]. intros u v He. cbn in He. intuition (try discriminate); match goal with H : (_, _) = (_, _) |- _ => injection H as <- <- end; vm_compute; lia.
Qed.

Lemma sb_decomposition : decomposition (sg_inst sbV sbE 10%N 11%N sbf [] 2) sbP sbw.
Proof.
  split; [|split].
  - intros i Hi. cbn in Hi. destruct Hi as [<-|[<-|[]]]; (split; [reflexivity|]; split; [reflexivity|]; split;
      [repeat constructor; cbn; intuition discriminate|intros e He; vm_compute in He; vm_compute; tauto]).
  - intros i _. split; [vm_compute; split; discriminate|]. intros _. exists 1%Z. reflexivity.
  - intros e He Hig. vm_compute in He.
    destruct He as [<-|[<-|[<-|[<-|He]]]]; try (vm_compute; reflexivity);
      repeat (destruct He as [<-|He]; [vm_compute in Hig; discriminate Hig|]); destruct He.
Qed.

Example sb_window : window_subgraph sbV 1 2 sbE = ([1; 0; 2]%N, [(0, 1); (1, 2)]%N) /\ k' sbV 1 2 2 sbP = 1.
Proof. split; vm_compute; reflexivity. Qed.
