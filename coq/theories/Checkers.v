(* Verified boolean checkers for the properties that are evaluated on every answer of the
   implementation (E2): route validity (C01), flow explanation (C02), coverage (C09), constraint
   containment (C10).  Each checker has a correctness theorem (CheckersProofs.v), so a verdict of a
   checker IS the declarative property on that answer. *)
From Coq Require Import List NArith ZArith QArith Bool.
Import ListNotations.
From FP Require Import Lin PathEnc Aug Euler EulerProofs1 EulerProofs4.
Local Close Scope Q_scope.

Fixpoint nodup_b (l : list node) : bool :=
  match l with [] => true | x :: r => negb (memn x r) && nodup_b r end.

Definition all_in (l : list node) (V : list node) : bool := forallb (fun v => memn v V) l.
Definition edges_in (l : list edge) (E : list edge) : bool := forallb (fun e => mem_edge e E) l.

(* C01: r is a route of the caller's graph (V,E) with additional starts S / ends T *)
Definition valid_route_b (V : list node) (E : list edge) (S T : list node) (simple : bool) (r : list node) : bool :=
  match r with
  | [] => false
  | x :: _ =>
      all_in r V && edges_in (pairs r) E && is_start E S x && is_end E T (last r x) && (negb simple || nodup_b r)
  end.

(* C02: sum over routes of weight * number of traversals of e *)
Definition explained_q (routes : list (list node * Q)) (e : edge) : Q :=
  fold_right (fun rw acc => (snd rw * inject_Z (Z.of_nat (count_e e (pairs (fst rw)))) + acc)%Q) 0%Q routes.

Definition explains_b (flow : list (edge * Q)) (ignore : list edge) (routes : list (list node * Q)) : bool :=
  forallb (fun ef => mem_edge (fst ef) ignore || Qeq_bool (explained_q routes (fst ef)) (snd ef)) flow.

(* C09: every non-ignored edge lies on some route *)
Definition covers_b (E : list edge) (ignore : list edge) (routes : list (list node)) : bool :=
  forallb (fun e => mem_edge e ignore || existsb (fun r => mem_edge e (pairs r)) routes) E.

(* C10 (full coverage): every edge of the constraint lies on ONE of the routes *)
Definition constraint_b (c : list edge) (routes : list (list node)) : bool :=
  existsb (fun r => forallb (fun e => mem_edge e (pairs r)) c) routes.
