(* C15: the upper end of MinGenSet's search range suffices ALSO with partition constraints: take as cut points of [0,total] the
   numbers and, for every constraint p_1..p_r, its inner prefix sums p_1, p_1+p_2, ..; the differences of the sorted cut points
   (and total) have len(numbers) + sum(r-1) + 1 elements, generate every number as a prefix sum, and every part of every
   constraint is the sum of the consecutive differences between two of its prefix sums. *)
From Coq Require Import List NArith ZArith QArith Lqa Bool Lia Permutation Sorting.Sorted.
Import ListNotations.
From FP Require Import Lin Blocks BlocksProofs PathEnc PathEncProofs MiscEnc MiscEncProofs MgsComplete LowerBoundsMgs MgsRange MgsPartsIff.
Set Default Timeout 60.
Open Scope Q_scope.

(* ---------------------------------------------------------------- end points and differences *)
Fixpoint epairs (total prev : Q) (s : list Q) : list (Q * Q) :=
  match s with [] => [(total, total - prev)] | a :: r => (a, a - prev) :: epairs total a r end.

Lemma epairs_snd total : forall s prev, map snd (epairs total prev s) = diffs total prev s.
Proof. induction s as [|a r IH]; intros prev; cbn [epairs diffs map snd]; [reflexivity|]. rewrite IH. reflexivity. Qed.

Definition Hle (x : Q) (l : list (Q * Q)) : Q := sumq (fun ed => if Qle_bool (fst ed) x then snd ed else 0) l.

Fixpoint topq (total x prev : Q) (s : list Q) : Q :=
  match s with
  | [] => if Qle_bool total x then total else prev
  | a :: r => if Qle_bool a x then topq total x a r else prev
  end.

Lemma sorted_lt_all x : forall s a, Sorted Qle s -> HdRel Qle a s -> x < a -> Forall (fun e => x < e) s.
Proof.
  induction s as [|b r IH]; intros a Hs Hh Hx; [constructor|]. inversion Hs as [|? ? Hs' Hh']; subst. inversion Hh as [|? ? Hab]; subst.
  constructor; [lra|]. apply (IH b); [assumption|assumption|lra].
Qed.

Lemma sorted_le_all : forall s a, Sorted Qle s -> HdRel Qle a s -> Forall (fun e => a <= e) s.
Proof.
  induction s as [|b r IH]; intros a Hs Hh; [constructor|]. inversion Hs as [|? ? Hs' Hh']; subst. inversion Hh as [|? ? Hab]; subst.
  constructor; [assumption|]. eapply Forall_impl; [|apply (IH b); assumption]. intros e He. cbn beta in *. lra.
Qed.

Lemma Hle_zero total x : forall s prev, Forall (fun e => x < e) s -> x < total -> Hle x (epairs total prev s) == 0.
Proof.
  induction s as [|a r IH]; intros prev Hf Ht; unfold Hle in *; cbn [epairs sumq fst snd].
  - destruct (Qle_bool total x) eqn:E; [apply Qle_bool_iff in E; lra|ring].
  - inversion Hf as [|? ? Ha Hf']; subst. destruct (Qle_bool a x) eqn:E; [apply Qle_bool_iff in E; lra|]. rewrite (IH a) by assumption. ring.
Qed.

Lemma Hle_top total x : forall s prev, Sorted Qle s -> HdRel Qle prev s -> Forall (fun e => e <= total) s -> prev <= total ->
  Hle x (epairs total prev s) == topq total x prev s - prev.
Proof.
  induction s as [|a r IH]; intros prev Hs Hh Hf Hp; unfold Hle in *; cbn [epairs sumq fst snd topq].
  - destruct (Qle_bool total x); ring.
  - inversion Hs as [|? ? Hs' Hh']; subst. inversion Hh as [|? ? Hpa]; subst. inversion Hf as [|? ? Ha Hf']; subst. destruct (Qle_bool a x) eqn:E.
    + rewrite (IH a) by assumption. ring.
    + assert (Hxa : x < a). { apply Qnot_le_lt. intros C. apply Qle_bool_iff in C. congruence. }
      pose proof (Hle_zero total x r a (sorted_lt_all x r a Hs' Hh' Hxa) ltac:(lra)) as Z. unfold Hle in Z. rewrite Z. ring.
Qed.

Lemma topq_bounds total x : forall s prev, Forall (fun e => e <= total) s -> prev <= total -> prev <= x -> HdRel Qle prev s -> Sorted Qle s ->
  prev <= topq total x prev s /\ topq total x prev s <= x.
Proof.
  induction s as [|a r IH]; intros prev Hf Hp Hx Hh Hs; cbn [topq].
  - destruct (Qle_bool total x) eqn:E; [apply Qle_bool_iff in E; lra|lra].
  - inversion Hf as [|? ? Ha Hf']; subst. inversion Hh as [|? ? Hpa]; subst. inversion Hs as [|? ? Hs' Hh']; subst. destruct (Qle_bool a x) eqn:E; [|lra].
    apply Qle_bool_iff in E. destruct (IH a Hf' Ha E Hh' Hs'). lra.
Qed.

Lemma topq_in total x : forall s prev, Sorted Qle s -> HdRel Qle prev s -> Forall (fun e => e <= total) s -> prev <= total ->
  In x s -> topq total x prev s == x.
Proof.
  induction s as [|a r IH]; intros prev Hs Hh Hf Hp Hin; [destruct Hin|]. cbn [topq].
  inversion Hs as [|? ? Hs' Hh']; subst. inversion Hh as [|? ? Hpa]; subst. inversion Hf as [|? ? Ha Hf']; subst. destruct Hin as [->|Hin].
  - assert (E : Qle_bool x x = true) by (apply Qle_bool_iff; lra). rewrite E.
    destruct (topq_bounds total x r x Hf' Ha ltac:(lra) Hh' Hs'). lra.
  - pose proof (sorted_le_all r a Hs' Hh') as Hall. rewrite Forall_forall in Hall. specialize (Hall x Hin).
    assert (E : Qle_bool a x = true) by (apply Qle_bool_iff; exact Hall). rewrite E. apply IH; assumption.
Qed.

Lemma topq_total total x : forall s prev, Forall (fun e => e <= total) s -> total <= x -> topq total x prev s == total.
Proof.
  induction s as [|a r IH]; intros prev Hf Hx; cbn [topq].
  - assert (E : Qle_bool total x = true) by (apply Qle_bool_iff; exact Hx). rewrite E. reflexivity.
  - inversion Hf as [|? ? Ha Hf']; subst. assert (E : Qle_bool a x = true) by (apply Qle_bool_iff; lra). rewrite E. apply IH; assumption.
Qed.

(* the differences up to a cut point x (or up to the total) sum to x *)
Lemma Hle_cut total x s : Sorted Qle s -> Forall (fun e => 0 <= e <= total) s -> 0 <= total -> (In x s \/ x == total) ->
  Hle x (epairs total 0 s) == x.
Proof.
  intros Hs Hf Ht Hx.
  assert (Hf' : Forall (fun e => e <= total) s) by (eapply Forall_impl; [|exact Hf]; intros e [_ H]; exact H).
  assert (Hh : HdRel Qle 0 s) by (destruct s; constructor; inversion Hf as [|? ? Ha ?]; subst; tauto).
  rewrite (Hle_top total x s 0 Hs Hh Hf' Ht). destruct Hx as [Hx|Hx].
  - rewrite (topq_in total x s 0 Hs Hh Hf' Ht Hx). ring.
  - rewrite (topq_total total x s 0 Hf') by lra. rewrite Hx. ring.
Qed.

Lemma epairs_sum total : forall s prev, sumq snd (epairs total prev s) == total - prev.
Proof. induction s as [|a r IH]; intros prev; cbn [epairs sumq snd]; [ring|]. rewrite IH. ring. Qed.

(* the differences behind a cut point *)
Lemma Hgt_cut total x s : Sorted Qle s -> Forall (fun e => 0 <= e <= total) s -> 0 <= total -> (In x s \/ x == total) ->
  sumq (fun ed => if Qlt_bool x (fst ed) then snd ed else 0) (epairs total 0 s) == total - x.
Proof.
  intros Hs Hf Ht Hx. pose proof (Hle_cut total x s Hs Hf Ht Hx) as H. pose proof (epairs_sum total s 0) as S. unfold Hle in H.
  assert (E : sumq snd (epairs total 0 s) ==
              sumq (fun ed => if Qle_bool (fst ed) x then snd ed else 0) (epairs total 0 s) +
              sumq (fun ed => if Qlt_bool x (fst ed) then snd ed else 0) (epairs total 0 s)).
  { generalize (epairs total 0 s). intros l. induction l as [|ed l IH]; cbn [sumq]; [ring|]. rewrite IH. unfold Qlt_bool.
    destruct (Qle_bool (fst ed) x); cbn [negb]; ring. }
  lra.
Qed.

(* ---------------------------------------------------------------- prefix sums of a constraint *)
Fixpoint psums (acc : Q) (cons : list Q) : list Q :=
  match cons with [] => [] | p :: r => (acc + p) :: psums (acc + p) r end.

Lemma psums_length : forall cons acc, length (psums acc cons) = length cons.
Proof. induction cons as [|p r IH]; intros acc; cbn [psums length]; [reflexivity|]. rewrite IH. reflexivity. Qed.

(* part j = prefix sum j - prefix sum j-1 *)
Lemma psums_part : forall cons acc j v, nth_error cons j = Some v ->
  v == nth j (psums acc cons) 0 - (match j with O => acc | S j' => nth j' (psums acc cons) 0 end).
Proof.
  induction cons as [|p r IH]; intros acc j v H; [destruct j; discriminate|]. destruct j as [|j]; cbn in H.
  - injection H as <-. cbn [psums nth]. ring.
  - cbn [psums nth]. rewrite (IH (acc + p) j v H). destruct j as [|j']; cbn [nth]; ring.
Qed.

Lemma psums_last : forall cons acc, cons <> [] -> last (psums acc cons) 0 == acc + sumql cons.
Proof.
  induction cons as [|p r IH]; intros acc H; [congruence|]. cbn [psums sumql]. destruct r as [|q r'].
  - cbn. ring.
  - change (last ((acc + p) :: psums (acc + p) (q :: r')) 0) with (last (psums (acc + p) (q :: r')) 0).
    rewrite IH by discriminate. ring.
Qed.

(* with positive parts the prefix sums increase strictly and exceed the start *)
Lemma psums_sorted : forall cons acc, Forall (fun p => 0 < p) cons ->
  StronglySorted Qlt (psums acc cons) /\ Forall (fun P => acc < P) (psums acc cons).
Proof.
  induction cons as [|p r IH]; intros acc Hf; cbn [psums]; [split; constructor|]. inversion Hf as [|? ? Hp Hf']; subst.
  destruct (IH (acc + p) Hf') as [Hs Hl]. split.
  - constructor; [exact Hs|exact Hl].
  - constructor; [lra|]. eapply Forall_impl; [|exact Hl]. intros P HP. cbn beta in *. lra.
Qed.

(* ---------------------------------------------------------------- the part of an end point: how many prefix sums lie below it *)
Definition cntlt (Ps : list Q) (e : Q) : nat := length (filter (fun P => Qlt_bool P e) Ps).

Lemma cntlt_gt : forall Ps e j, StronglySorted Qlt Ps -> (j < length Ps)%nat ->
  ((j < cntlt Ps e)%nat <-> nth j Ps 0 < e).
Proof.
  induction Ps as [|P r IH]; intros e j Hs Hj; [cbn in Hj; lia|]. inversion Hs as [|? ? Hs' Hall]; subst.
  unfold cntlt in *. cbn [filter]. destruct (Qlt_bool P e) eqn:E.
  - apply Qlt_bool_iff in E. cbn [length]. destruct j as [|j]; cbn [nth]; [split; [intros _; exact E|lia]|].
    rewrite <- (IH e j Hs' ltac:(cbn in Hj; lia)). lia.
  - assert (Hnot : ~ P < e) by (intros C; apply Qlt_bool_iff in C; congruence).
    assert (Hzero : filter (fun P0 => Qlt_bool P0 e) r = []).
    { clear - Hall Hnot. induction r as [|q r IHr]; [reflexivity|]. inversion Hall as [|? ? Hq Hall']; subst. cbn [filter].
      destruct (Qlt_bool q e) eqn:Eq; [apply Qlt_bool_iff in Eq; exfalso; apply Hnot; lra|]. apply IHr. exact Hall'. }
    rewrite Hzero. cbn [length]. split; [lia|]. intros H. exfalso. destruct j as [|j]; cbn [nth] in H; [tauto|].
    assert (In (nth j r 0) r) by (apply nth_In; cbn in Hj; lia). rewrite Forall_forall in Hall. specialize (Hall _ H0). apply Hnot. lra.
Qed.

Lemma cntlt_le_length Ps e : (cntlt Ps e <= length Ps)%nat.
Proof. unfold cntlt. induction Ps as [|P r IH]; cbn [filter length]; [lia|]. destruct (Qlt_bool P e); cbn [length]; lia. Qed.

Lemma sumq_sub' {A} (g h : A -> Q) l : sumq (fun x => g x - h x) l == sumq g l - sumq h l.
Proof. induction l as [|x l IH]; cbn [sumq]; [ring|]. rewrite IH. ring. Qed.

Lemma nth_last_own {A} (d : A) : forall l, l <> [] -> nth (length l - 1) l d = last l d.
Proof.
  intros l H. pose proof (app_removelast_last d H) as E.
  assert (Hl : length l = S (length (removelast l))).
  { rewrite E at 1. rewrite app_length. cbn [length]. lia. }
  rewrite E at 2. rewrite app_nth2 by lia. replace (length l - 1 - length (removelast l))%nat with 0%nat by lia. reflexivity.
Qed.

Lemma epairs_fst_range total : forall s prev, Forall (fun e => e <= total) s -> Forall (fun ed => fst ed <= total) (epairs total prev s).
Proof.
  induction s as [|a r IH]; intros prev Hf; cbn [epairs]; [constructor; [cbn; lra|constructor]|].
  inversion Hf as [|? ? Ha Hf']; subst. constructor; [exact Ha|apply IH; exact Hf'].
Qed.

(* ---------------------------------------------------------------- one constraint is met by the differences of the cut points *)
Section OneConstraint.
  Variables (total : Q) (s : list Q) (cons : list Q).
  Hypothesis Hs : Sorted Qle s.
  Hypothesis Hf : Forall (fun e => 0 <= e <= total) s.
  Hypothesis Ht : 0 <= total.
  Hypothesis Hne : cons <> [].
  Hypothesis Hpos : Forall (fun p => 0 < p) cons.
  Hypothesis Hsum : sumql cons == total.
  Hypothesis Hin : forall P, In P (removelast (psums 0 cons)) -> In P s.

  Let Pall := psums 0 cons.
  Let r := length cons.
  Let ep := epairs total 0 s.

  Lemma Pall_len : length Pall = r. Proof. apply psums_length. Qed.
  Lemma Pall_sorted : StronglySorted Qlt Pall. Proof. apply (psums_sorted cons 0 Hpos). Qed.
  Lemma r_pos : (1 <= r)%nat. Proof. unfold r. destruct cons; [congruence|cbn; lia]. Qed.

  Lemma Pall_cut m : (m < r)%nat -> In (nth m Pall 0) s \/ nth m Pall 0 == total.
  Proof.
    intros Hm. destruct (Nat.eq_dec m (r - 1)) as [->|Hne'].
    - right. rewrite <- Pall_len. rewrite nth_last_own by (unfold Pall; destruct cons; [congruence|discriminate]).
      unfold Pall. rewrite psums_last by exact Hne. rewrite Hsum. ring.
    - left. apply Hin. fold Pall.
      assert (Hl : (m < length (removelast Pall))%nat).
      { assert (Pall <> []) by (unfold Pall; destruct cons; [congruence|discriminate]).
        pose proof (app_removelast_last 0 H) as E. apply (f_equal (@length Q)) in E. rewrite app_length in E. cbn in E. rewrite Pall_len in E. lia. }
      assert (E : nth m Pall 0 = nth m (removelast Pall) 0).
      { assert (HP : Pall <> []) by (unfold Pall; destruct cons; [congruence|discriminate]).
        rewrite (app_removelast_last 0 HP) at 1. rewrite app_nth1 by exact Hl. reflexivity. }
      rewrite E. apply nth_In. exact Hl.
  Qed.

  Definition Asum (m : nat) : Q := sumq (fun ed => if (m <=? cntlt Pall (fst ed))%nat then snd ed else 0) ep.

  Lemma Asum_0 : Asum 0 == total.
  Proof. unfold Asum, ep. cbn [Nat.leb]. rewrite (sumq_ext _ snd) by (intros; reflexivity). rewrite epairs_sum. ring. Qed.

  Lemma Asum_S m : (m < r)%nat -> Asum (S m) == total - nth m Pall 0.
  Proof.
    intros Hm. unfold Asum. rewrite <- (Hgt_cut total (nth m Pall 0) s Hs Hf Ht (Pall_cut m Hm)). fold ep.
    apply sumq_ext. intros ed _. pose proof (cntlt_gt Pall (fst ed) m Pall_sorted ltac:(rewrite Pall_len; exact Hm)) as Hiff.
    destruct (Nat.leb_spec (S m) (cntlt Pall (fst ed))) as [H1|H1]; destruct (Qlt_bool (nth m Pall 0) (fst ed)) eqn:E2; try reflexivity.
    - exfalso. assert (nth m Pall 0 < fst ed) by (apply Hiff; lia). apply Qlt_bool_iff in H. congruence.
    - exfalso. apply Qlt_bool_iff in E2. apply Hiff in E2. lia.
  Qed.

  Lemma cnt_lt_r ed : In ed ep -> (cntlt Pall (fst ed) < r)%nat.
  Proof.
    intros Hed. destruct (le_lt_dec r (cntlt Pall (fst ed))) as [Hge|Hlt]; [|exact Hlt]. exfalso.
    pose proof r_pos as Hr.
    assert (Hl : nth (r - 1) Pall 0 < fst ed).
    { apply (cntlt_gt Pall (fst ed) (r - 1) Pall_sorted); [rewrite Pall_len; lia|lia]. }
    destruct (Pall_cut (r - 1) ltac:(lia)) as [Hc|Hc].
    - assert (Hf' : Forall (fun e => e <= total) s) by (eapply Forall_impl; [|exact Hf]; intros e [_ H]; exact H).
      pose proof (epairs_fst_range total s 0 Hf') as Hr'. rewrite Forall_forall in Hr'. specialize (Hr' ed Hed). cbn beta in Hr'.
      (* the last prefix sum equals the total *)
      assert (E : nth (r - 1) Pall 0 == total).
      { rewrite <- Pall_len. rewrite nth_last_own by (unfold Pall; destruct cons; [congruence|discriminate]).
        unfold Pall. rewrite psums_last by exact Hne. rewrite Hsum. ring. }
      lra.
    - assert (Hf' : Forall (fun e => e <= total) s) by (eapply Forall_impl; [|exact Hf]; intros e [_ H]; exact H).
      pose proof (epairs_fst_range total s 0 Hf') as Hr'. rewrite Forall_forall in Hr'. specialize (Hr' ed Hed). cbn beta in Hr'. lra.
  Qed.

  Theorem part_ok_cut : part_ok_strict (diffs total 0 s) cons.
  Proof.
    set (l' := map (fun ed => (cntlt Pall (fst ed), snd ed)) ep).
    exists (map fst l'). unfold part_ok_strict.
    assert (Eg : diffs total 0 s = map snd l').
    { unfold l'. rewrite map_map. cbn [snd]. unfold ep. symmetry. apply epairs_snd. }
    split; [rewrite Eg, !map_length; reflexivity|]. split.
    - apply Forall_forall. intros p Hp. unfold l' in Hp. rewrite map_map in Hp. cbn [fst] in Hp. apply in_map_iff in Hp.
      destruct Hp as (ed & <- & Hed). apply cnt_lt_r. exact Hed.
    - intros j v Hv. rewrite Eg, part_sum_pairs. unfold ppair_sum, l'. rewrite sumq_map. cbn [fst snd].
      assert (Hj : (j < r)%nat) by (apply nth_error_Some; congruence).
      assert (Ediff : sumq (fun ed => if (cntlt Pall (fst ed) =? j)%nat then snd ed else 0) ep == Asum j - Asum (S j)).
      { unfold Asum. rewrite <- sumq_sub'. apply sumq_ext. intros ed _.
        destruct (Nat.eqb_spec (cntlt Pall (fst ed)) j) as [E|E].
        - rewrite E. rewrite Nat.leb_refl. replace (S j <=? j)%nat with false by (symmetry; apply Nat.leb_gt; lia). ring.
        - destruct (Nat.leb_spec j (cntlt Pall (fst ed))) as [H1|H1]; destruct (Nat.leb_spec (S j) (cntlt Pall (fst ed))) as [H2|H2]; try ring; lia. }
      rewrite Ediff. rewrite (psums_part cons 0 j v Hv). fold Pall. rewrite (Asum_S j Hj). destruct j as [|j'].
      + rewrite Asum_0. ring.
      + rewrite (Asum_S j' ltac:(lia)). ring.
  Qed.
End OneConstraint.

(* ---------------------------------------------------------------- assembly *)
Definition inner_psums (cons : list Q) : list Q := removelast (psums 0 cons).
Definition cut_points (numbers : list Q) (parts : list (list Q)) : list Q := numbers ++ flat_map inner_psums parts.
Definition cut_witness (numbers : list Q) (parts : list (list Q)) (total : Q) : list Q := diffs total 0 (qsort (cut_points numbers parts)).

Definition good_constraint (total : Q) (cons : list Q) : Prop := cons <> [] /\ Forall (fun p => 0 < p) cons /\ sumql cons == total.

Lemma removelast_lt_last : forall l, StronglySorted Qlt l -> forall P, In P (removelast l) -> P < last l 0.
Proof.
  induction l as [|x l IH]; intros Hs P HP; [destruct HP|]. inversion Hs as [|? ? Hs' Hall]; subst. destruct l as [|y l']; [destruct HP|].
  change (removelast (x :: y :: l')) with (x :: removelast (y :: l')) in HP. change (last (x :: y :: l') 0) with (last (y :: l') 0).
  destruct HP as [<-|HP]; [|apply IH; assumption].
  rewrite Forall_forall in Hall. apply Hall. destruct (exists_last (l := y :: l') ltac:(discriminate)) as (l0 & z & E).
  rewrite E, last_last. apply in_or_app. right. left. reflexivity.
Qed.

Lemma inner_psums_range total cons : good_constraint total cons -> Forall (fun e => 0 <= e <= total) (inner_psums cons).
Proof.
  intros (Hne & Hpos & Hsum). destruct (psums_sorted cons 0 Hpos) as [Hs Hgt]. apply Forall_forall. intros P HP.
  pose proof (removelast_lt_last _ Hs P HP) as Hlt. rewrite psums_last in Hlt by exact Hne. rewrite Hsum in Hlt.
  assert (In P (psums 0 cons)).
  { unfold inner_psums in HP. assert (Hn : psums 0 cons <> []) by (destruct cons; [congruence|discriminate]).
    rewrite (app_removelast_last 0 Hn). apply in_or_app. left. exact HP. }
  rewrite Forall_forall in Hgt. specialize (Hgt P H). lra.
Qed.

Lemma inner_psums_length cons : cons <> [] -> length (inner_psums cons) = (length cons - 1)%nat.
Proof.
  intros Hne. unfold inner_psums. assert (Hn : psums 0 cons <> []) by (destruct cons; [congruence|discriminate]).
  pose proof (app_removelast_last 0 Hn) as E. apply (f_equal (@length Q)) in E. rewrite app_length, psums_length in E. cbn in E. lia.
Qed.

Lemma extra_cuts_length cs : Forall (fun c => c <> []) cs -> extra_cuts (Some cs) = Z.of_nat (length (flat_map inner_psums cs)).
Proof.
  induction 1 as [|c cs Hc _ IH]; [reflexivity|]. cbn [extra_cuts fold_right flat_map] in *. rewrite app_length, Nat2Z.inj_add, <- IH.
  rewrite (inner_psums_length c Hc). destruct c; [congruence|]. cbn [length]. lia.
Qed.

Lemma is_int_add p q : is_int p -> is_int q -> is_int (p + q).
Proof. intros [z1 H1] [z2 H2]. exists (z1 + z2)%Z. rewrite H1, H2, inject_Z_plus. reflexivity. Qed.

Lemma psums_int : forall cons acc, is_int acc -> Forall is_int cons -> Forall is_int (psums acc cons).
Proof.
  induction cons as [|p r IH]; intros acc Ha Hf; cbn [psums]; [constructor|]. inversion Hf as [|? ? Hp Hf']; subst.
  constructor; [apply is_int_add; assumption|]. apply IH; [apply is_int_add; assumption|exact Hf'].
Qed.

Lemma Forall_removelast {A} (P : A -> Prop) l : Forall P l -> Forall P (removelast l).
Proof.
  intros H. destruct l as [|x l']; [constructor|]. assert (Hn : x :: l' <> []) by discriminate.
  rewrite (app_removelast_last x Hn) in H. apply Forall_app in H. tauto.
Qed.

(* the differences of ANY sorted list of cut points in [0,total] that contains the numbers generate the numbers *)
Lemma cut_genset mult numbers cps total : (1 <= mult)%nat -> 0 <= total -> incl numbers cps ->
  Forall (fun a => 0 <= a <= total) cps -> genset mult numbers total (diffs total 0 (qsort cps)).
Proof.
  intros Hm Ht Hi Hn. pose proof (qsort_perm cps) as HP.
  assert (Hs : Forall (fun a => 0 <= a <= total) (qsort cps)).
  { apply Forall_forall. intros a Ha. rewrite Forall_forall in Hn. apply Hn. eapply Permutation_in; [symmetry; exact HP|exact Ha]. }
  split; [|split].
  - apply diffs_nonneg; [apply qsort_sorted| |lra|].
    + apply HdRel_min. eapply Forall_impl; [|exact Hs]. intros a [H _]. exact H.
    + eapply Forall_impl; [|exact Hs]. intros a [_ H]. exact H.
  - rewrite diffs_sum. ring.
  - intros a Ha. apply (gen_by_mono 1 mult); [exact Hm|].
    destruct (diffs_prefix total (qsort cps) 0 a (Permutation_in _ HP (Hi a Ha))) as (xs & Hl & Hf & He).
    exists xs. split; [exact Hl|]. split; [exact Hf|]. rewrite <- He. ring.
Qed.

(* the domain with partition constraints: numbers in [0,total]; every constraint a non-empty list of positive parts that sum
   to the total (the documented shape); integral data for weight_type = int *)
Definition mgs_domain_parts (I : mgs_inst) : Prop :=
  0 <= mg_total I /\ Forall (fun a => 0 <= a <= mg_total I) (mg_numbers I) /\
  Forall (good_constraint (mg_total I)) (parts_of I) /\
  (mg_int I = true -> is_int (mg_total I) /\ Forall is_int (mg_numbers I) /\ Forall (Forall is_int) (parts_of I)).

Lemma cut_points_range I : mgs_domain_parts I -> Forall (fun a => 0 <= a <= mg_total I) (cut_points (mg_numbers I) (parts_of I)).
Proof.
  intros (_ & Hn & Hg & _). unfold cut_points. apply Forall_app. split; [exact Hn|]. apply Forall_forall. intros P HP.
  apply in_flat_map in HP. destruct HP as (cons & Hc & HP). rewrite Forall_forall in Hg.
  pose proof (inner_psums_range _ _ (Hg cons Hc)) as Hr. rewrite Forall_forall in Hr. apply Hr. exact HP.
Qed.

Theorem cut_witness_genset_for (I : mgs_inst) : (1 <= mg_mult I)%nat -> mgs_domain_parts I ->
  genset_for I (cut_witness (mg_numbers I) (parts_of I) (mg_total I)) /\
  length (cut_witness (mg_numbers I) (parts_of I) (mg_total I)) = S (length (mg_numbers I) + length (flat_map inner_psums (parts_of I))).
Proof.
  intros Hm Hd. pose proof (cut_points_range I Hd) as Hr. destruct Hd as (Ht & Hn & Hg & Hi). unfold cut_witness.
  pose proof (qsort_perm (cut_points (mg_numbers I) (parts_of I))) as HP.
  assert (Hs : Forall (fun a => 0 <= a <= mg_total I) (qsort (cut_points (mg_numbers I) (parts_of I)))).
  { apply Forall_forall. intros a Ha. rewrite Forall_forall in Hr. apply Hr. eapply Permutation_in; [symmetry; exact HP|exact Ha]. }
  split; [split; [|split]|].
  - apply cut_genset; [exact Hm|exact Ht|intros a Ha; unfold cut_points; apply in_or_app; left; exact Ha|exact Hr].
  - intros Hint. destruct (Hi Hint) as (H1 & H2 & H3). apply diffs_int; [exact H1|exists 0%Z; reflexivity|].
    apply Forall_forall. intros a Ha. apply (Permutation_in _ (Permutation_sym HP)) in Ha. unfold cut_points in Ha. apply in_app_or in Ha.
    destruct Ha as [Ha|Ha]; [rewrite Forall_forall in H2; apply H2; exact Ha|]. apply in_flat_map in Ha. destruct Ha as (cons & Hc & Ha).
    rewrite Forall_forall in H3. pose proof (Forall_removelast _ _ (psums_int cons 0 ltac:(exists 0%Z; reflexivity) (H3 cons Hc))) as Hrl.
    rewrite Forall_forall in Hrl. apply Hrl. exact Ha.
  - apply Forall_forall. intros cons Hc. rewrite Forall_forall in Hg. destruct (Hg cons Hc) as (Hne & Hpos & Hsum).
    apply part_ok_cut; try assumption; [apply qsort_sorted|].
    intros P HPin. apply (Permutation_in _ HP). unfold cut_points. apply in_or_app. right. apply in_flat_map. exists cons. split; [exact Hc|exact HPin].
  - rewrite diffs_length, <- (Permutation_length HP). unfold cut_points. rewrite app_length. reflexivity.
Qed.

(* ---- padding with zeros also keeps the partition constraints met (zeros go into part 0) ---- *)
Lemma part_sum_app : forall ps g qs h j, length ps = length g -> part_sum (ps ++ qs) (g ++ h) j == part_sum ps g j + part_sum qs h j.
Proof.
  induction ps as [|p ps IH]; intros [|v g] qs h j H; try discriminate; cbn [app part_sum]; [ring|].
  rewrite IH by (cbn in H; lia). ring.
Qed.
Lemma part_sum_zeros n j : part_sum (repeat 0%nat n) (repeat 0 n) j == 0.
Proof. induction n as [|n IH]; cbn [repeat part_sum]; [reflexivity|]. rewrite IH. destruct (0 =? j)%nat; ring. Qed.

Lemma part_ok_strict_pad g cons n : cons <> [] -> part_ok_strict g cons -> part_ok_strict (g ++ repeat 0 n) cons.
Proof.
  intros Hne (ps & Hl & Hf & Hs). exists (ps ++ repeat 0%nat n). split; [rewrite !app_length, !repeat_length, Hl; reflexivity|]. split.
  - apply Forall_app. split; [exact Hf|]. apply Forall_forall. intros p Hp. apply repeat_spec in Hp. subst. destruct cons; [congruence|cbn; lia].
  - intros j v Hv. rewrite (part_sum_app _ _ _ _ _ Hl), part_sum_zeros, (Hs j v Hv). ring.
Qed.

Lemma genset_for_pad_parts (I : mgs_inst) g n : Forall (fun c => c <> []) (parts_of I) -> genset_for I g -> genset_for I (g ++ repeat 0 n).
Proof.
  intros Hne (Hg & Hi & Hp). split; [apply genset_pad; exact Hg|]. split.
  - intros H. apply Forall_app. split; [apply Hi; exact H|]. apply Forall_forall. intros v Hv. apply repeat_spec in Hv. subst. exists 0%Z. reflexivity.
  - apply Forall_forall. intros cons Hc. rewrite Forall_forall in Hp, Hne. apply part_ok_strict_pad; [apply Hne; exact Hc|apply Hp; exact Hc].
Qed.

(* THE UPPER END OF THE RANGE SUFFICES: a generating multiset meeting every partition constraint exists for every size from
   len(numbers) + 1 + extra_cuts on, hence the model for each such size is satisfiable *)
Theorem mgs_range_suffices (I : mgs_inst) : (1 <= mg_mult I)%nat -> mgs_domain_parts I ->
  forall k, (Z.of_nat (length (mg_numbers I)) + 1 + extra_cuts (mg_parts I) <= Z.of_nat k)%Z ->
  (exists g, length g = k /\ genset_for I g) /\ exists a, sat a (encode_mgs I k).
Proof.
  intros Hm Hd k Hk. destruct (cut_witness_genset_for I Hm Hd) as [Hg Hl].
  assert (Hne : Forall (fun c => c <> []) (parts_of I)).
  { destruct Hd as (_ & _ & Hgc & _). eapply Forall_impl; [|exact Hgc]. intros c (H & _). exact H. }
  assert (He : extra_cuts (mg_parts I) = Z.of_nat (length (flat_map inner_psums (parts_of I)))).
  { unfold parts_of in *. destruct (mg_parts I) as [cs|]; [apply extra_cuts_length; exact Hne|reflexivity]. }
  set (w := cut_witness (mg_numbers I) (parts_of I) (mg_total I)) in *.
  assert (Hgk : exists g, length g = k /\ genset_for I g).
  { exists (w ++ repeat 0 (k - length w)). split; [rewrite app_length, repeat_length, Hl; lia|]. apply genset_for_pad_parts; assumption. }
  split; [exact Hgk|]. destruct Hgk as (g & Hlg & Hgg). eapply mgs_enc_complete; eassumption.
Qed.

Lemma range_contains_upper_parts lb n extra : (0 <= extra)%Z -> (Z.of_nat lb <= Z.of_nat n + 1 + extra)%Z ->
  In (Z.to_nat (Z.of_nat n + 1 + extra)) (mgsm_range lb n extra).
Proof.
  intros He Hlb. unfold mgsm_range, mgsm_first. cbv zeta. apply in_seq. set (f := Nat.max 1 lb).
  assert (Hf : (Z.of_nat f <= Z.of_nat n + 1 + extra)%Z) by (unfold f; lia).
  pose proof (Z.le_max_r (Z.of_nat f + 1) (Z.of_nat n + 2 + extra)) as H1. pose proof (Z.le_max_l (Z.of_nat f + 1) (Z.of_nat n + 2 + extra)) as H2.
  set (M := Z.max (Z.of_nat f + 1) (Z.of_nat n + 2 + extra)) in *. split; [lia|].
  rewrite Nat2Z.inj_lt, Nat2Z.inj_add, !Z2Nat.id by lia. lia.
Qed.

(* MinGenSet.solve ALWAYS reports a size -- by mgs_returns_minimum_rows the minimum -- for every input of the documented domain
   (numbers in [0,total], partition constraints = non-empty lists of positive parts summing to the total), any lower bound up to
   len(initial numbers) + 1 + extra_cuts, under the solver specification with truthful (conclusive) statuses *)
Theorem mgs_always_solves_parts (I : mgs_inst) (status : nat -> mstatus) lb n_initial :
  (1 <= mg_mult I)%nat -> mgs_domain_parts I -> (length (mg_numbers I) <= n_initial)%nat ->
  (Z.of_nat lb <= Z.of_nat n_initial + 1 + extra_cuts (mg_parts I))%Z ->
  (forall k, status k = MgInfeasible -> forall a, ~ sat a (encode_mgs I k)) ->
  (forall k, status k = MgOptimal \/ status k = MgInfeasible) ->
  exists tried k, mgsm_loop status lb n_initial (extra_cuts (mg_parts I)) = (tried, Some k).
Proof.
  intros Hm Hd Hn Hlb Hinf Hc.
  assert (Hex : (0 <= extra_cuts (mg_parts I))%Z).
  { destruct Hd as (_ & _ & Hgc & _). unfold parts_of in Hgc. destruct (mg_parts I) as [cs|]; [|cbn; lia].
    rewrite (extra_cuts_length cs); [lia|]. eapply Forall_impl; [|exact Hgc]. intros c (H & _). exact H. }
  apply (mgsm_loop_complete (fun k => exists a, sat a (encode_mgs I k)) status
           (fun k Hk Hex' => let '(ex_intro _ a Ha) := Hex' in Hinf k Hk a Ha) lb n_initial _ Hc).
  exists (Z.to_nat (Z.of_nat n_initial + 1 + extra_cuts (mg_parts I))). split; [apply range_contains_upper_parts; assumption|].
  apply (mgs_range_suffices I Hm Hd). rewrite Z2Nat.id by lia. lia.
Qed.

(* non-vacuity: numbers [1,1], total 6, constraints [2,2,2] and [6]: cut points 1,1,2,4 -> witness {1,0,1,2,2} of size
   5 = len(numbers) + 1 + extra_cuts *)
Lemma ex_parts_domain : mgs_domain_parts ex_parts_inst /\
  cut_witness (mg_numbers ex_parts_inst) (parts_of ex_parts_inst) (mg_total ex_parts_inst) = [1 - 0; 1 - 1; (0 + 2) - 1; (0 + 2 + 2) - (0 + 2); 6 - (0 + 2 + 2)] /\
  exists a, sat a (encode_mgs ex_parts_inst 5).
Proof.
  assert (Hd : mgs_domain_parts ex_parts_inst).
  { split; [cbn; lra|]. split; [repeat constructor; cbn; lra|]. split.
    - cbn [parts_of mg_parts ex_parts_inst mg_total]. repeat constructor; try discriminate; try lra; vm_compute; reflexivity.
    - intros _. split; [exists 6%Z; reflexivity|]. split; [repeat constructor; exists 1%Z; reflexivity|].
      cbn [parts_of mg_parts ex_parts_inst]. repeat constructor; [exists 2%Z|exists 2%Z|exists 2%Z|exists 6%Z]; reflexivity. }
  split; [exact Hd|]. split; [reflexivity|]. apply (mgs_range_suffices ex_parts_inst ltac:(cbn; lia) Hd 5%nat). vm_compute. discriminate.
Qed.

(* composed: for every input of the documented domain MinGenSet.solve is SOLVED and its answer is the MINIMUM *)
Theorem mgs_always_solves_minimum (I : mgs_inst) (status : nat -> mstatus) lb n_initial :
  (1 <= mg_mult I)%nat -> mgs_domain_parts I -> (length (mg_numbers I) <= n_initial)%nat ->
  (Z.of_nat lb <= Z.of_nat n_initial + 1 + extra_cuts (mg_parts I))%Z ->
  (forall k, status k = MgOptimal -> exists a, sat a (encode_mgs I k)) ->
  (forall k, status k = MgInfeasible -> forall a, ~ sat a (encode_mgs I k)) ->
  (forall k, status k = MgOptimal \/ status k = MgInfeasible) ->
  exists tried k, mgsm_loop status lb n_initial (extra_cuts (mg_parts I)) = (tried, Some k) /\
    (exists g, length g = k /\ genset_rows I g) /\ (Nat.max 1 lb <= k)%nat /\
    forall k' g, (Nat.max 1 lb <= k' < k)%nat -> length g = k' -> ~ genset_rows I g.
Proof.
  intros Hm Hd Hn Hlb Hopt Hinf Hc. destruct (mgs_always_solves_parts I status lb n_initial Hm Hd Hn Hlb Hinf Hc) as (tried & k & Hl).
  exists tried, k. split; [exact Hl|]. exact (mgs_returns_minimum_rows I status Hm Hopt Hinf lb n_initial _ tried k Hl).
Qed.

(* the bound len(numbers) + 1 + extra_cuts is TIGHT: no numbers, total 6, one constraint [2,4]: the bound is 0 + 1 + 1 = 2,
   {2,4} has 2 elements and no single element meets the constraint *)
Definition ex_tight_inst : mgs_inst := {| mg_numbers := []; mg_total := 6; mg_int := true; mg_mult := 1; mg_parts := Some [[2; 4]] |}.
Lemma ex_tight : (Z.of_nat (length (mg_numbers ex_tight_inst)) + 1 + extra_cuts (mg_parts ex_tight_inst) = 2)%Z /\
  genset_for ex_tight_inst [2; 4] /\ forall g, length g = 1%nat -> ~ genset_for ex_tight_inst g.
Proof.
  split; [reflexivity|]. split.
  - split; [|split].
    + split; [repeat constructor; lra|]. split; [vm_compute; reflexivity|]. intros a [].
    + intros _. repeat constructor; [exists 2%Z|exists 4%Z]; reflexivity.
    + cbn [parts_of mg_parts ex_tight_inst]. constructor; [|constructor]. exists [0; 1]%nat. split; [reflexivity|]. split; [repeat constructor|].
      intros j v H. do 2 (destruct j as [|j]; [cbn in H; injection H as <-; vm_compute; reflexivity|]). destruct j; discriminate.
  - intros g Hl (_ & _ & Hp). destruct g as [|x [|? ?]]; try discriminate. cbn [parts_of mg_parts ex_tight_inst] in Hp.
    inversion Hp as [|? ? (ps & Hlp & Hf & Hs) _]; subst. destruct ps as [|p [|? ?]]; try discriminate.
    pose proof (Hs 0%nat 2 eq_refl) as H0. pose proof (Hs 1%nat 4 eq_refl) as H1. cbn [part_sum] in H0, H1.
    destruct p as [|[|p]]; cbn in H0, H1; lra.
Qed.
