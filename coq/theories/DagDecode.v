(* Prototype: on a DAG, the 1-edges of a layer satisfying 10a/10c are exactly one s-t path,
   and the decoder of get_solution_paths finds it. *)
From Coq Require Import List NArith ZArith Bool Arith Lia Permutation.
Import ListNotations.
From FP Require Import Euler EulerProofs1.

Lemma NoDup_app_intro {A} (l1 l2 : list A) :
  NoDup l1 -> NoDup l2 -> (forall x, In x l1 -> In x l2 -> False) -> NoDup (l1 ++ l2).
Proof.
  induction 1 as [|a l Ha ND IH]; intros N2 D; simpl; [assumption|].
  constructor.
  - intros H. apply in_app_or in H. destruct H as [H|H]; [contradiction|]. apply (D a); [left; reflexivity|assumption].
  - apply IH; [assumption|]. intros x H1 H2. apply (D x); [right|]; assumption.
Qed.

Lemma eqe_spec e1 e2 : reflect (e1 = e2) (eqe e1 e2).
Proof.
  destruct e1 as [a b], e2 as [c d]. unfold eqe. simpl.
  destruct (N.eqb_spec a c), (N.eqb_spec b d); simpl; constructor; congruence.
Qed.
Definition memE (e : edge) (l : list edge) : bool := existsb (eqe e) l.
Lemma memE_In e l : memE e l = true <-> In e l.
Proof.
  unfold memE. rewrite existsb_exists. split.
  - intros (y & Hy & E). destruct (eqe_spec e y); [subst; assumption|discriminate].
  - intros H. exists e. split; [assumption|]. destruct (eqe_spec e e); congruence.
Qed.

Lemma split_sublist (l a : list edge) : NoDup l -> NoDup a -> incl a l ->
  Permutation l (a ++ filter (fun e => negb (memE e a)) l).
Proof.
  intros Nl Na I. apply NoDup_Permutation; [assumption| |].
  - apply NoDup_app_intro; [assumption|apply NoDup_filter; assumption|].
    intros x H1 H2. apply filter_In in H2. destruct H2 as [_ H2]. apply memE_In in H1. rewrite H1 in H2. discriminate.
  - intros x. rewrite in_app_iff, filter_In. split.
    + intros H. destruct (memE x a) eqn:M; [left; apply memE_In; assumption|right; split; [assumption|reflexivity]].
    + intros [H|[H _]]; [apply I|]; assumption.
Qed.

Section Decode.
  Variable G : graph.
  Variable x : edge -> Z.
  Variables s t : node.
  Variable rank : node -> nat.
  Variable R : nat.
  Hypothesis G_nodup : NoDup G.
  Hypothesis Hrank : forall u v, In (u, v) G -> rank u < rank v.
  Hypothesis HR : forall v, rank v <= R.
  Hypothesis Hbin : forall e, In e G -> x e = 0%Z \/ x e = 1%Z.

  Definition outs (v : node) : list edge := filter (fun e => (fst e =? v)%N) G.
  Definition ins  (v : node) : list edge := filter (fun e => (snd e =? v)%N) G.
  Definition sumx (l : list edge) : Z := fold_right (fun e a => (x e + a)%Z) 0%Z l.

  Hypothesis H10a : sumx (outs s) = 1%Z.
  Hypothesis H10c : forall v, v <> s -> v <> t -> sumx (ins v) = sumx (outs v).
  Hypothesis Hs_in : ins s = [].
  Hypothesis Ht_out : outs t = [].

  Definition one (e : edge) : bool := (x e =? 1)%Z.
  Definition Sup : graph := filter one G.

  Lemma sumx_count l : incl l G -> sumx l = Z.of_nat (length (filter one l)).
  Proof.
    induction l as [|e l IH]; intros I; [reflexivity|]. cbn [sumx fold_right filter].
    fold (sumx l). rewrite IH by (intros y Hy; apply I; right; assumption).
    pose proof (Hbin e (I e (or_introl eq_refl))) as Hb.
    destruct (one e) eqn:O; unfold one in O; [apply Z.eqb_eq in O|apply Z.eqb_neq in O]; cbn [length]; lia.
  Qed.

  Lemma filter_comm {A} (p q : A -> bool) l : filter p (filter q l) = filter q (filter p l).
  Proof. induction l as [|a l IH]; simpl; [reflexivity|]. destruct (p a) eqn:P, (q a) eqn:Q; simpl; rewrite ?P, ?Q, IH; reflexivity. Qed.

  Lemma outd_Sup v : Z.of_nat (outd Sup v) = sumx (outs v).
  Proof. unfold outd, Sup, outs. rewrite sumx_count by (intros e He; apply filter_In in He; tauto). rewrite filter_comm. reflexivity. Qed.
  Lemma ind_Sup v : Z.of_nat (ind Sup v) = sumx (ins v).
  Proof. unfold ind, Sup, ins. rewrite sumx_count by (intros e He; apply filter_In in He; tauto). rewrite filter_comm. reflexivity. Qed.

  Lemma Sup_In e : In e Sup <-> In e G /\ x e = 1%Z.
  Proof. unfold Sup. rewrite filter_In. unfold one. rewrite Z.eqb_eq. tauto. Qed.

  Fixpoint decode (fuel : nat) (v : node) : option (list node) :=
    match fuel with
    | O => None
    | S f =>
        if (v =? t)%N then Some []
        else match find one (outs v) with
             | None => None
             | Some e => option_map (cons (snd e)) (decode f (snd e))
             end
    end.

  Lemma outd_pos_find g v : outd g v > 0 -> exists e, In e g /\ fst e = v.
  Proof.
    unfold outd. intros H. destruct (filter (fun e => (fst e =? v)%N) g) as [|e l] eqn:E; [simpl in H; lia|].
    exists e. assert (In e (filter (fun e => (fst e =? v)%N) g)) by (rewrite E; left; reflexivity).
    apply filter_In in H0. destruct H0 as [H0 H1]. apply N.eqb_eq in H1. tauto.
  Qed.
  Lemma ind_pos_find g v : ind g v > 0 -> exists e, In e g /\ snd e = v.
  Proof.
    unfold ind. intros H. destruct (filter (fun e => (snd e =? v)%N) g) as [|e l] eqn:E; [simpl in H; lia|].
    exists e. assert (In e (filter (fun e => (snd e =? v)%N) g)) by (rewrite E; left; reflexivity).
    apply filter_In in H0. destruct H0 as [H0 H1]. apply N.eqb_eq in H1. tauto.
  Qed.
  Lemma in_ind_pos g u v : In (u, v) g -> ind g v > 0.
  Proof.
    intros H. unfold ind. assert (H0 : In (u, v) (filter (fun e => (snd e =? v)%N) g)) by (apply filter_In; split; [assumption|apply N.eqb_refl]).
    destruct (filter (fun e => (snd e =? v)%N) g); [destruct H0|simpl; lia].
  Qed.
  Lemma in_outd_pos g u v : In (u, v) g -> outd g u > 0.
  Proof.
    intros H. unfold outd. assert (H0 : In (u, v) (filter (fun e => (fst e =? u)%N) g)) by (apply filter_In; split; [assumption|apply N.eqb_refl]).
    destruct (filter (fun e => (fst e =? u)%N) g); [destruct H0|simpl; lia].
  Qed.

  Lemma follow fuel : forall v, R - rank v < fuel -> (v = s \/ ind Sup v > 0) ->
    exists p, decode fuel v = Some p /\ last p v = t /\ incl (pairs (v :: p)) Sup /\
              NoDup (pairs (v :: p)) /\ (forall e, In e (pairs (v :: p)) -> rank v <= rank (fst e)).
  Proof.
    induction fuel as [|f IH]; intros v Hf Hv; [lia|]. cbn [decode].
    destruct (N.eqb_spec v t) as [->|Hvt].
    - exists []. cbn [pairs last]. repeat split; try constructor; intros ? [].
    - assert (Ho : outd Sup v > 0).
      { destruct Hv as [->|Hv].
        - pose proof (outd_Sup s). lia.
        - destruct (N.eq_dec v s) as [->|Hvs]; [pose proof (outd_Sup s); lia|].
          pose proof (outd_Sup v). pose proof (ind_Sup v). rewrite (H10c v Hvs Hvt) in H0. lia. }
      destruct (find one (outs v)) as [e|] eqn:F.
      + apply find_some in F. destruct F as [Fin Fone]. unfold outs in Fin. apply filter_In in Fin. destruct Fin as [Fin Ft].
        apply N.eqb_eq in Ft. destruct e as [a u]. simpl in *. subst a.
        assert (HeS : In (v, u) Sup) by (apply Sup_In; split; [assumption|apply Z.eqb_eq; assumption]).
        pose proof (Hrank _ _ Fin) as Hr.
        destruct (IH u) as (p & D & L & I & ND & Rk).
        * pose proof (HR u). lia.
        * right. eapply in_ind_pos. eassumption.
        * rewrite D. exists (u :: p). simpl option_map. repeat split.
          -- rewrite last_cons_default. assumption.
          -- intros e [<-|He]; [assumption|apply I; assumption].
          -- constructor; [|assumption]. intros Hin. apply Rk in Hin. simpl in Hin. lia.
          -- intros e [<-|He]; [simpl; lia|]. apply Rk in He. lia.
      + exfalso. destruct (outd_pos_find _ _ Ho) as (e & He & Hfst). apply Sup_In in He. destruct He as [HeG Hx].
        assert (Hf0 : one e = false).
        { apply (find_none _ _ F e). unfold outs. apply filter_In. split; [assumption|]. apply N.eqb_eq. assumption. }
        unfold one in Hf0. apply Z.eqb_neq in Hf0. congruence.
  Qed.

  Theorem decode_exact : s <> t ->
    exists p, decode (S R) s = Some p /\ last p s = t /\ Permutation Sup (pairs (s :: p)).
  Proof.
    intros Hst. destruct (follow (S R) s ltac:(lia) (or_introl eq_refl)) as (p & D & L & I & ND & _).
    exists p. repeat split; try assumption.
    assert (NS : NoDup Sup) by (apply NoDup_filter; assumption).
    pose proof (split_sublist Sup (pairs (s :: p)) NS ND I) as P.
    set (Rest := filter (fun e => negb (memE e (pairs (s :: p)))) Sup) in *.
    assert (RestG' : forall e, In e Rest -> In e G).
    { intros e He. unfold Rest in He. apply filter_In in He. destruct He as [He _]. apply Sup_In in He. tauto. }
    assert (Hexc : forall v, v <> t -> exc Rest v = 0%Z).
    { intros v Hvt. pose proof (exc_perm _ _ v P) as E. rewrite exc_app, exc_pairs, L in E.
      destruct (N.eqb_spec v t); [congruence|]. cbn [ind1] in E.
      unfold exc at 1 in E.
      destruct (N.eqb_spec v s) as [->|Hvs]; cbn [ind1] in E.
      - rewrite outd_Sup, ind_Sup, H10a, Hs_in in E. change (sumx []) with 0%Z in E. lia.
      - rewrite outd_Sup, ind_Sup, (H10c v Hvs Hvt) in E. lia. }
    assert (Hacyc : forall n u v, rank u = n -> In (u, v) Rest -> False).
    { induction n as [n IHn] using lt_wf_ind. intros u v Hn He.
      assert (Hut : u <> t).
      { intros ->. assert (In (t, v) (outs t)) by (unfold outs; apply filter_In; split; [apply RestG'; assumption|apply N.eqb_refl]).
        rewrite Ht_out in H. destruct H. }
      pose proof (Hexc u Hut) as E. unfold exc in E. pose proof (in_outd_pos _ _ _ He).
      assert (Hi : ind Rest u > 0) by lia.
      destruct (ind_pos_find _ _ Hi) as ([u' u''] & He' & Hs). simpl in Hs. subst u''.
      pose proof (Hrank _ _ (RestG' _ He')).
      apply (IHn (rank u') ltac:(lia) u' u eq_refl He'). }
    assert (HR0 : Rest = []).
    { destruct Rest as [|[u v] r]; [reflexivity|exfalso].
      apply (Hacyc (rank u) u v eq_refl). left. reflexivity. }
    rewrite HR0, app_nil_r in P. exact P.
  Qed.
End Decode.
Print Assumptions decode_exact.
