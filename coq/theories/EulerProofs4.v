(* C14 at the level of get_solution_walks: rounding, residual graph, stripping. *)
From Coq Require Import List NArith ZArith QArith Bool Arith Lia Permutation.
Import ListNotations.
From FP Require Import Euler EulerProofs1 EulerProofs2 EulerProofs3.
Set Default Timeout 30.
Local Close Scope Q_scope.

(* ---- Python's round() on exact values ---- *)
Lemma round_half_even_int z : round_half_even (inject_Z z) = z.
Proof.
  unfold round_half_even, inject_Z. cbn [Qnum Qden].
  rewrite Z.div_1_r. replace (2 * (z - z * 1))%Z with 0%Z by lia.
  reflexivity.
Qed.

(* a value strictly closer than 1/2 to an integer rounds to that integer *)
Lemma round_half_even_near (q : Q) (z : Z) :
  (inject_Z z - (1#2) < q)%Q -> (q < inject_Z z + (1#2))%Q -> round_half_even q = z.
Proof.
  destruct q as [n d]. unfold Qlt, Qminus, Qplus, Qopp, inject_Z, round_half_even. cbn [Qnum Qden].
  intros H1 H2.
  set (D := Z.pos d) in *. assert (HD : (0 < D)%Z) by (subst D; lia).
  change (Z.pos (1 * 2)) with 2%Z in *.
  pose proof (Z.div_mod n D ltac:(lia)) as E. pose proof (Z.mod_pos_bound n D HD) as B.
  set (fl := (n / D)%Z) in *. set (r := (n mod D)%Z) in *.
  replace (n - fl * D)%Z with r by lia.
  assert (H1' : ((2 * z - 1) * D < 2 * (D * fl + r))%Z) by lia.
  assert (H2' : (2 * (D * fl + r) < (2 * z + 1) * D)%Z) by lia.
  clear H1 H2 E.
  destruct (Z.ltb_spec (2 * r) D) as [L|L].
  - assert (z <= fl)%Z by nia. assert (fl <= z)%Z by nia. lia.
  - destruct (Z.ltb_spec D (2 * r)) as [L2|L2].
    + assert (z <= fl + 1)%Z by nia. assert (fl + 1 <= z)%Z by nia. lia.
    + assert (2 * r = D)%Z by lia. exfalso.
      assert (z <= fl)%Z by nia. assert (fl + 1 <= z)%Z by nia. lia.
Qed.

(* ---- stripping ---- *)
Lemma strip_st_spec s t w : s <> t -> hd_error w = Some s -> last w s = t ->
  exists w', w = s :: w' ++ [t] /\ strip_st s t w = w'.
Proof.
  intros Hst Hh Hl. destruct w as [|a r]; [discriminate|]. cbn in Hh. injection Hh as ->.
  destruct r as [|b r].
  - cbn in Hl. congruence.
  - assert (Hr : b :: r <> []) by discriminate.
    destruct (exists_last Hr) as (w' & z & E).
    rewrite last_cons_ne in Hl by exact Hr. rewrite E, last_app_single in Hl. subst z.
    exists w'. split; [rewrite E; reflexivity|].
    cbn [strip_st]. rewrite N.eqb_refl. cbn [andb].
    rewrite E. rewrite last_app_single, N.eqb_refl. apply removelast_app_single || idtac.
    rewrite removelast_app by discriminate. cbn. apply app_nil_r.
Qed.

(* ---- the residual multigraph carries each edge round(x e) times ---- *)
Definition mult_of (es : list (edge * Q)) : list (edge * nat) :=
  map (fun '(e, q) => (e, Z.to_nat (round_half_even q))) es.

Lemma residual_q_mult es : residual_q es = flat_map (fun '(e, m) => repeat e m) (mult_of es).
Proof.
  unfold residual_q, mult_of. induction es as [|[e q] es IH]; [reflexivity|].
  cbn [flat_map map]. rewrite IH. reflexivity.
Qed.

Fixpoint count_e (e : edge) (l : list edge) : nat :=
  match l with [] => O | x :: r => (if eqe x e then 1 else 0) + count_e e r end.

Lemma count_e_app e l1 l2 : count_e e (l1 ++ l2) = count_e e l1 + count_e e l2.
Proof. induction l1 as [|x l1 IH]; cbn; [reflexivity|]. rewrite IH. lia. Qed.
Lemma count_e_perm e l l' : Permutation l l' -> count_e e l = count_e e l'.
Proof. induction 1; cbn; lia. Qed.
Lemma eqe_true e1 e2 : eqe e1 e2 = true <-> e1 = e2.
Proof.
  destruct e1 as [a b], e2 as [c d]. unfold eqe. cbn [fst snd].
  rewrite andb_true_iff, !N.eqb_eq. split; [intros [-> ->]; reflexivity|intros E; injection E; auto].
Qed.
Lemma count_e_repeat e x m : count_e e (repeat x m) = if eqe x e then m else O.
Proof. induction m as [|m IH]; cbn; [destruct (eqe x e); reflexivity|]. rewrite IH. destruct (eqe x e); lia. Qed.

(* with pairwise distinct edges (networkx DiGraph), each edge occurs exactly round(x e) times *)
Lemma count_residual es e q : NoDup (map fst es) -> In (e, q) es ->
  count_e e (residual_q es) = Z.to_nat (round_half_even q).
Proof.
  unfold residual_q. induction es as [|[e' q'] es IH]; intros ND Hin; [destruct Hin|].
  cbn [flat_map]. rewrite count_e_app, count_e_repeat. cbn [map fst] in ND. inversion ND as [|? ? Hni ND']; subst.
  destruct Hin as [E|Hin].
  - injection E as -> ->. rewrite (proj2 (eqe_true e e) eq_refl).
    assert (Z0 : count_e e (flat_map (fun '(e0, q0) => repeat e0 (Z.to_nat (round_half_even q0))) es) = 0).
    { clear IH ND ND'. induction es as [|[e2 q2] es IH2]; [reflexivity|]. cbn [flat_map]. rewrite count_e_app, count_e_repeat.
      destruct (eqe e2 e) eqn:Q; [apply eqe_true in Q; subst; exfalso; apply Hni; left; reflexivity|].
      cbn. apply IH2. intros X. apply Hni. right. exact X. }
    rewrite Z0. lia.
  - destruct (eqe e' e) eqn:Q.
    + apply eqe_true in Q. subst. exfalso. apply Hni. apply (in_map fst) in Hin. exact Hin.
    + cbn. apply IH; assumption.
Qed.

Lemma count_absent es e : ~ In e (map fst es) -> count_e e (residual_q es) = 0.
Proof.
  unfold residual_q. induction es as [|[e' q'] es IH]; intros Hni; [reflexivity|].
  cbn [flat_map]. rewrite count_e_app, count_e_repeat.
  destruct (eqe e' e) eqn:Q; [apply eqe_true in Q; subst; exfalso; apply Hni; left; reflexivity|].
  cbn. apply IH. intros X. apply Hni. right. exact X.
Qed.

(* ---- main statement ---- *)
Theorem solution_walk_correct (es : list (edge * Q)) (s t : node) :
  let g0 := residual_q es in
  s <> t ->
  exc g0 s = 1%Z -> exc g0 t = (-1)%Z -> (forall x, x <> s -> x <> t -> exc g0 x = 0%Z) ->
  (forall a b, In (a, b) g0 -> reach g0 s a) ->
  exists w', solution_walk es s t = Some (O, w') /\
             Permutation g0 (pairs (s :: w' ++ [t])) /\
             (forall e, count_e e (pairs (s :: w' ++ [t])) = count_e e g0).
Proof.
  intros g0 Hst Hs Ht Hx Hc.
  destruct (reconstruct_correct g0 s t Hst Hs Ht Hx Hc) as (w & R & P & Hh & Hl).
  destruct (strip_st_spec s t w Hst Hh Hl) as (w' & E & S).
  exists w'. unfold solution_walk. fold g0. rewrite R. cbn [length]. rewrite S.
  split; [reflexivity|]. rewrite <- E. split; [exact P|].
  intros e. symmetry. apply count_e_perm. exact P.
Qed.

(* each distinct edge is traversed exactly round(x e) times, nothing else is traversed *)
Corollary solution_walk_multiplicities (es : list (edge * Q)) (s t : node) :
  let g0 := residual_q es in
  NoDup (map fst es) -> s <> t ->
  exc g0 s = 1%Z -> exc g0 t = (-1)%Z -> (forall x, x <> s -> x <> t -> exc g0 x = 0%Z) ->
  (forall a b, In (a, b) g0 -> reach g0 s a) ->
  exists w', solution_walk es s t = Some (O, w') /\
     (forall e q, In (e, q) es -> count_e e (pairs (s :: w' ++ [t])) = Z.to_nat (round_half_even q)) /\
     (forall e, ~ In e (map fst es) -> count_e e (pairs (s :: w' ++ [t])) = 0).
Proof.
  intros g0 ND Hst Hs Ht Hx Hc.
  destruct (solution_walk_correct es s t Hst Hs Ht Hx Hc) as (w' & R & _ & C).
  exists w'. split; [exact R|]. split.
  - intros e q Hin. rewrite C. apply count_residual; assumption.
  - intros e Hni. rewrite C. apply count_absent. exact Hni.
Qed.

(* all-zero assignment: empty walk, nothing left *)
Theorem solution_walk_zero (es : list (edge * Q)) (s t : node) :
  (forall e q, In (e, q) es -> round_half_even q = 0%Z) ->
  solution_walk es s t = Some (O, []).
Proof.
  intros H0. assert (G : residual_q es = []).
  { unfold residual_q. induction es as [|[e q] es IH]; [reflexivity|]. cbn [flat_map].
    rewrite (H0 e q (or_introl eq_refl)). cbn [Z.to_nat repeat app]. apply IH. intros e' q' Hin. apply (H0 e' q'). right. exact Hin. }
  unfold solution_walk. rewrite G. cbn. rewrite N.eqb_refl. reflexivity.
Qed.
