(* C10 for the cyclic error models (WalkErrEnc.encode_klae_cycles / encode_kmpe_cycles as they are).  The generated model
   depends on weights / ignore list / scaling through (a) the set of non-ignored edges x_basic with their weights and
   scalings, and (b) the repetition caps reach_max, which stDiGraph.compute_edge_max_reachable_value takes over ALL edges,
   ignored ones included.  Hence: the value of an ignored edge has no influence PROVIDED the caps are unchanged (and has
   influence otherwise: refutation witness = open finding cycles_rep_cap_from_reachable_max); scale 0 == ignore list;
   ignoring one more edge only relaxes; and the _checked forms of the cyclic optimality theorems. *)
From Coq Require Import List NArith ZArith QArith Qabs Qround Lqa Bool Arith Lia Permutation.
Import ListNotations.
From FP Require Import Lin Blocks BlocksProofs PathEnc PathEncProofs SatCheck WalkEnc WalkEncRows WalkEncRowsProofs WalkTree WalkEncComplete
                       WalkCoverIff WalkChecked WalkExamples WalkErrEnc WalkErrEncProofs WalkErrComplete WalkErrOptimal WalkErrOptExamples.
Set Default Timeout 300.
Local Close Scope Q_scope.

Lemma wflat_map_ext_in {A B} (f g : A -> list B) l : (forall x, In x l -> f x = g x) -> flat_map f l = flat_map g l.
Proof.
  induction l as [|x l IH]; intros H; cbn [flat_map]; [reflexivity|].
  rewrite (H x (or_introl eq_refl)), IH; [reflexivity|]. intros y Hy. apply H. right. exact Hy.
Qed.

(* ------------------------------------------------------------------ the frame *)
Definition werr_agree (I J : werr_inst) : Prop :=
  x_graph I = x_graph J /\ x_k I = x_k J /\ x_int I = x_int J /\ x_cons I = x_cons J /\ x_cov I = x_cov J /\
  x_opts I = x_opts J /\ x_safe_lists I = x_safe_lists J /\ x_fix I = x_fix J /\
  x_basic I = x_basic J /\
  (forall e, In e (x_basic J) -> xflow I e = xflow J e /\ xscale I e = xscale J e) /\
  (* the repetition caps (largest weight reachable from / reaching the edge, over ALL edges) coincide *)
  (forall e, In e (g_edges (x_graph J)) -> reach_max I e = reach_max J e).

Lemma agree_walk I J : werr_agree I J -> werr_walk I = werr_walk J /\ x_wmax I = x_wmax J.
Proof.
  intros (Hg & Hk & Hi & Hc & Hv & Ho & Hs & Hf & Hb & Hfl & Hr). split.
  - unfold werr_walk. rewrite Hg, Hk, Hc, Hv, Ho, Hs, Hf. f_equal. apply map_ext_in. intros e He. rewrite (Hr e He). reflexivity.
  - unfold x_wmax, x_max_flow. rewrite Hk, Hi, Hb.
    assert (E : map (xflow I) (x_basic J) = map (xflow J) (x_basic J)) by (apply map_ext_in; intros e He; apply (Hfl e He)).
    rewrite E. reflexivity.
Qed.

Theorem encode_klaec_frame I J : werr_agree I J -> encode_klae_cycles I = encode_klae_cycles J.
Proof.
  intros H. destruct (agree_walk I J H) as [HW Hw]. destruct H as (Hg & Hk & Hi & _ & _ & _ & _ & _ & Hb & Hfl & _).
  unfold encode_klae_cycles. rewrite HW. f_equal.
  - f_equal. unfold klaec_cols, x_pi_cols, x_w_cols, x_err_cols, x_piprod_cols. rewrite Hg, Hk, Hi, Hw, Hb, HW. reflexivity.
  - f_equal. unfold klaec_rows. rewrite Hb. apply wflat_map_ext_in. intros e He.
    unfold klaec_edge_rows, x_piprod_rows, xrow_9aa, xrow_9ab. rewrite Hk, Hw, HW, (proj1 (Hfl e He)). reflexivity.
  - unfold klaec_obj. rewrite Hb. apply map_ext_in. intros e He. rewrite (proj2 (Hfl e He)). reflexivity.
Qed.

Theorem encode_kmpec_frame I J : werr_agree I J -> encode_kmpe_cycles I = encode_kmpe_cycles J.
Proof.
  intros H. destruct (agree_walk I J H) as [HW Hw]. destruct H as (Hg & Hk & Hi & _ & _ & _ & _ & _ & Hb & Hfl & _).
  unfold encode_kmpe_cycles. rewrite HW. f_equal.
  - f_equal. unfold kmpec_cols, x_pi_cols, x_w_cols, x_slack_cols, x_gamma_cols, x_piprod_cols, x_gprod_cols. rewrite Hg, Hk, Hi, Hw, Hb, HW. reflexivity.
  - f_equal. unfold kmpec_rows. rewrite Hb. apply wflat_map_ext_in. intros e He. destruct (Hfl e He) as [F1 F2].
    unfold kmpec_edge_rows, x_piprod_rows, x_gprod_rows, mrow_9aa, mrow_9ab. rewrite Hk, Hw, HW, F1, F2. reflexivity.
  - unfold kmpec_obj. rewrite Hk. reflexivity.
Qed.

(* ------------------------------------------------------------------ modified instances *)
Definition xwith_flow (I : werr_inst) (fl : list (PathEnc.edge * Q)) : werr_inst :=
  {| x_graph := x_graph I; x_k := x_k I; x_flow := fl; x_ignore := x_ignore I; x_scale := x_scale I; x_int := x_int I;
     x_cons := x_cons I; x_cov := x_cov I; x_opts := x_opts I; x_safe_lists := x_safe_lists I; x_fix := x_fix I |}.
Definition xwith_ignore (I : werr_inst) (ig : list PathEnc.edge) : werr_inst :=
  {| x_graph := x_graph I; x_k := x_k I; x_flow := x_flow I; x_ignore := ig; x_scale := x_scale I; x_int := x_int I;
     x_cons := x_cons I; x_cov := x_cov I; x_opts := x_opts I; x_safe_lists := x_safe_lists I; x_fix := x_fix I |}.
Definition xwith_scale (I : werr_inst) (sc : list (PathEnc.edge * Q)) : werr_inst :=
  {| x_graph := x_graph I; x_k := x_k I; x_flow := x_flow I; x_ignore := x_ignore I; x_scale := sc; x_int := x_int I;
     x_cons := x_cons I; x_cov := x_cov I; x_opts := x_opts I; x_safe_lists := x_safe_lists I; x_fix := x_fix I |}.

Lemma xmem_app e l1 l2 : mem_edge e (l1 ++ l2) = mem_edge e l1 || mem_edge e l2.
Proof. unfold mem_edge. apply existsb_app. Qed.
Lemma xedge_eqb_sym e1 e2 : edge_eqb e1 e2 = edge_eqb e2 e1.
Proof. unfold edge_eqb. rewrite (N.eqb_sym (fst e1)), (N.eqb_sym (snd e1)). reflexivity. Qed.

(* (1) the weight of an ignored edge has no influence -- given that the repetition caps do not change *)
Theorem klaec_ignored_value_has_no_influence (I : werr_inst) (fl : list (PathEnc.edge * Q)) :
  (forall e, In e (g_edges (x_graph I)) -> mem_edge e (x_ign_all I) = false -> lookup_q e fl 0%Q = lookup_q e (x_flow I) 0%Q) ->
  (forall e, In e (g_edges (x_graph I)) -> reach_max (xwith_flow I fl) e = reach_max I e) ->
  encode_klae_cycles (xwith_flow I fl) = encode_klae_cycles I.
Proof.
  intros H Hr. apply encode_klaec_frame. repeat split; try reflexivity; [|exact Hr].
  apply x_basic_spec in H0. apply (H e (proj1 H0) (proj2 H0)).
Qed.
Theorem kmpec_ignored_value_has_no_influence (I : werr_inst) (fl : list (PathEnc.edge * Q)) :
  (forall e, In e (g_edges (x_graph I)) -> mem_edge e (x_ign_all I) = false -> lookup_q e fl 0%Q = lookup_q e (x_flow I) 0%Q) ->
  (forall e, In e (g_edges (x_graph I)) -> reach_max (xwith_flow I fl) e = reach_max I e) ->
  encode_kmpe_cycles (xwith_flow I fl) = encode_kmpe_cycles I.
Proof.
  intros H Hr. apply encode_kmpec_frame. repeat split; try reflexivity; [|exact Hr].
  apply x_basic_spec in H0. apply (H e (proj1 H0) (proj2 H0)).
Qed.

(* without the hypothesis on the caps the statement is false of the models as they are -- open finding
   cycles_rep_cap_from_reachable_max: the 2-cycle with a tail, cycle edge b -> a ignored, its weight raised from 1 to 5:
   the repetition caps of all edges rise from 2 to 5 and the generated models differ *)
Definition tail_ign : werr_inst := xwith_ignore tail_inst [(1, 0)%N].
Definition tail_fl5 : list (PathEnc.edge * Q) := [((0, 1)%N, 2%Q); ((1, 0)%N, 5%Q); ((2, 0)%N, 1%Q); ((1, 3)%N, 1%Q)].

Definition first_ub (m : milp) : Q := match cols m with c :: _ => cub c | [] => 0%Q end.

Theorem klaec_ignored_value_influence_refuted : exists I fl,
  (forall e, In e (g_edges (x_graph I)) -> mem_edge e (x_ign_all I) = false -> lookup_q e fl 0%Q = lookup_q e (x_flow I) 0%Q) /\
  encode_klae_cycles (xwith_flow I fl) <> encode_klae_cycles I.
Proof.
  exists tail_ign, tail_fl5. split.
  - intros e He Hn. cbn in He. destruct He as [<-|[<-|[<-|[<-|[]]]]]; try reflexivity. vm_compute in Hn. discriminate Hn.
  - intros H. apply (f_equal first_ub) in H. vm_compute in H. discriminate H.
Qed.
Theorem kmpec_ignored_value_influence_refuted : exists I fl,
  (forall e, In e (g_edges (x_graph I)) -> mem_edge e (x_ign_all I) = false -> lookup_q e fl 0%Q = lookup_q e (x_flow I) 0%Q) /\
  encode_kmpe_cycles (xwith_flow I fl) <> encode_kmpe_cycles I.
Proof.
  exists tail_ign, tail_fl5. split.
  - intros e He Hn. cbn in He. destruct He as [<-|[<-|[<-|[<-|[]]]]]; try reflexivity. vm_compute in Hn. discriminate Hn.
  - intros H. apply (f_equal first_ub) in H. vm_compute in H. discriminate H.
Qed.

(* (2) error scale 0 is the same as membership in elements_to_ignore *)
Lemma werr_scale_zero_agree (I : werr_inst) (e0 : PathEnc.edge) :
  werr_agree (xwith_scale I ((e0, 0%Q) :: x_scale I)) (xwith_ignore I (e0 :: x_ignore I)).
Proof.
  assert (Hm : forall e, mem_edge e (x_ign_all (xwith_scale I ((e0, 0%Q) :: x_scale I))) = mem_edge e (x_ign_all (xwith_ignore I (e0 :: x_ignore I)))).
  { intros e. unfold x_ign_all. cbn [xwith_scale xwith_ignore x_graph x_ignore x_scale].
    assert (F : filter (fun es : PathEnc.edge * Q => Qeq_bool (snd es) 0) ((e0, 0%Q) :: x_scale I)
                = (e0, 0%Q) :: filter (fun es => Qeq_bool (snd es) 0) (x_scale I)) by reflexivity.
    rewrite F. cbn [map fst]. rewrite !xmem_app.
    change (mem_edge e (e0 :: x_ignore I)) with (edge_eqb e e0 || mem_edge e (x_ignore I)).
    change (mem_edge e (e0 :: map fst (filter (fun es : PathEnc.edge * Q => Qeq_bool (snd es) 0) (x_scale I))))
      with (edge_eqb e e0 || mem_edge e (map fst (filter (fun es : PathEnc.edge * Q => Qeq_bool (snd es) 0) (x_scale I)))).
    destruct (edge_eqb e e0), (mem_edge e (x_ignore I)), (mem_edge e (st_edges (x_graph I))),
      (mem_edge e (map fst (filter (fun es : PathEnc.edge * Q => Qeq_bool (snd es) 0) (x_scale I)))); reflexivity. }
  assert (Hb : x_basic (xwith_scale I ((e0, 0%Q) :: x_scale I)) = x_basic (xwith_ignore I (e0 :: x_ignore I))).
  { unfold x_basic. apply filter_ext. intros e. rewrite Hm. reflexivity. }
  repeat split; try reflexivity; [exact Hb|].
  apply x_basic_spec in H. destruct H as [_ He]. unfold x_ign_all in He. cbn [xwith_ignore x_ignore x_graph x_scale] in He.
  rewrite !xmem_app in He. change (mem_edge e (e0 :: x_ignore I)) with (edge_eqb e e0 || mem_edge e (x_ignore I)) in He.
  destruct (edge_eqb e e0) eqn:E0; [rewrite !orb_true_r in He; cbn in He; discriminate He|].
  unfold xscale. cbn [xwith_scale xwith_ignore x_scale lookup_q]. rewrite xedge_eqb_sym, E0. reflexivity.
Qed.

Theorem klaec_scale_zero_is_ignore (I : werr_inst) (e0 : PathEnc.edge) :
  encode_klae_cycles (xwith_scale I ((e0, 0%Q) :: x_scale I)) = encode_klae_cycles (xwith_ignore I (e0 :: x_ignore I)).
Proof. apply encode_klaec_frame. apply werr_scale_zero_agree. Qed.
Theorem kmpec_scale_zero_is_ignore (I : werr_inst) (e0 : PathEnc.edge) :
  encode_kmpe_cycles (xwith_scale I ((e0, 0%Q) :: x_scale I)) = encode_kmpe_cycles (xwith_ignore I (e0 :: x_ignore I)).
Proof. apply encode_kmpec_frame. apply werr_scale_zero_agree. Qed.

(* ------------------------------------------------------------------ (3) ignoring one more edge only relaxes *)
Lemma x_basic_drop (I : werr_inst) (e0 : PathEnc.edge) :
  x_basic (xwith_ignore I (e0 :: x_ignore I)) = filter (fun e => negb (edge_eqb e e0)) (x_basic I).
Proof.
  unfold x_basic, x_ign_all. cbn [xwith_ignore x_ignore x_graph x_scale].
  induction (g_edges (x_graph I)) as [|e l IH]; [reflexivity|]. cbn [filter].
  rewrite !xmem_app. change (mem_edge e (e0 :: x_ignore I)) with (edge_eqb e e0 || mem_edge e (x_ignore I)).
  destruct (edge_eqb e e0) eqn:E0, (mem_edge e (st_edges (x_graph I))), (mem_edge e (x_ignore I)),
    (mem_edge e (map fst (filter (fun es : PathEnc.edge * Q => Qeq_bool (snd es) 0) (x_scale I)))); cbn [orb negb filter]; rewrite ?E0; cbn [negb];
    rewrite ?IH; reflexivity.
Qed.

Lemma WForall_flat_map_filter {A B} (Pr : B -> Prop) (f : A -> list B) (p : A -> bool) l :
  Forall Pr (flat_map f l) -> Forall Pr (flat_map f (filter p l)).
Proof. rewrite !Forall_flat_map. intros H x Hx. apply filter_In in Hx. apply H. tauto. Qed.
Lemma WForall_map_filter {A B} (Pr : B -> Prop) (f : A -> B) (p : A -> bool) l :
  Forall Pr (map f l) -> Forall Pr (map f (filter p l)).
Proof. rewrite !Forall_map, !Forall_forall. intros H x Hx. apply filter_In in Hx. apply H. tauto. Qed.
Lemma wsumq_filter_le {A} (g : A -> Q) (p : A -> bool) l : (forall e, In e l -> (0 <= g e)%Q) -> (sumq g (filter p l) <= sumq g l)%Q.
Proof.
  induction l as [|e l IH]; intros H; cbn [filter sumq]; [lra|].
  pose proof (H e (or_introl eq_refl)) as He. assert (IH' : (sumq g (filter p l) <= sumq g l)%Q) by (apply IH; intros e' He'; apply H; right; exact He').
  destruct (p e); cbn [sumq]; lra.
Qed.

Section XRelax.
  Variable I : werr_inst.
  Variable e0 : PathEnc.edge.
  (* w_max is computed over the non-ignored edges: the statement needs that dropping e0 does not change it
     (the repetition caps do not depend on the ignore list) *)
  Hypothesis Hw : x_wmax (xwith_ignore I (e0 :: x_ignore I)) = x_wmax I.

  Theorem klaec_ignoring_only_relaxes (a : var -> Q) :
    (forall e, In e (x_basic I) -> (0 <= xscale I e)%Q) ->
    sat a (encode_klae_cycles I) ->
    sat a (encode_klae_cycles (xwith_ignore I (e0 :: x_ignore I))) /\
    (objective a (encode_klae_cycles (xwith_ignore I (e0 :: x_ignore I))) <= objective a (encode_klae_cycles I))%Q.
  Proof.
    intros Hs Hsat. pose proof Hsat as [HC HR]. unfold encode_klae_cycles in HC, HR. cbn [cols rows] in HC, HR.
    rewrite Forall_app in HC, HR. destruct HC as [HCb HCk]. destruct HR as [HRb HRk].
    unfold klaec_cols in HCk. rewrite !Forall_app in HCk. destruct HCk as (C1 & C2 & C3 & C4).
    split; [split|].
    - unfold encode_klae_cycles. cbn [cols]. apply Forall_app. split; [exact HCb|].
      unfold klaec_cols, x_pi_cols, x_w_cols, x_err_cols, x_piprod_cols in C1, C2, C3, C4 |- *.
      rewrite Hw, (x_basic_drop I e0). rewrite !Forall_app. split; [exact C1|]. split; [exact C2|].
      split; [apply WForall_map_filter; exact C3|]. apply (WForall_flat_map_filter (sat_col a)). exact C4.
    - unfold encode_klae_cycles. cbn [rows]. apply Forall_app. split; [exact HRb|].
      unfold klaec_rows in HRk |- *. rewrite (x_basic_drop I e0).
      assert (E : forall e, klaec_edge_rows (xwith_ignore I (e0 :: x_ignore I)) e = klaec_edge_rows I e).
      { intros e. unfold klaec_edge_rows, x_piprod_rows. rewrite Hw. reflexivity. }
      rewrite (flat_map_ext _ _ E). apply WForall_flat_map_filter. exact HRk.
    - rewrite (klaec_objective (xwith_ignore I (e0 :: x_ignore I)) a), (klaec_objective I a), (x_basic_drop I e0).
      change (xscale (xwith_ignore I (e0 :: x_ignore I))) with (xscale I).
      apply (wsumq_filter_le (fun e => (xscale I e * a (errvar e))%Q)). intros e He.
      apply Qmult_le_0_compat; [apply Hs; exact He|].
      assert (C : sat_col a (wcol_ (errvar e) (x_wmax I) (x_int I))).
      { apply (sat_cols_in a _ _ C3). unfold x_err_cols. apply (in_map (fun e => wcol_ (errvar e) (x_wmax I) (x_int I))) in He. exact He. }
      unfold sat_col, wcol_ in C. cbn [cvar clb cub] in C. tauto.
  Qed.

  Theorem kmpec_ignoring_only_relaxes (a : var -> Q) :
    sat a (encode_kmpe_cycles I) ->
    sat a (encode_kmpe_cycles (xwith_ignore I (e0 :: x_ignore I))) /\
    (objective a (encode_kmpe_cycles (xwith_ignore I (e0 :: x_ignore I))) == objective a (encode_kmpe_cycles I))%Q.
  Proof.
    intros [HC HR]. unfold encode_kmpe_cycles in HC, HR. cbn [cols rows] in HC, HR.
    rewrite Forall_app in HC, HR. destruct HC as [HCb HCk]. destruct HR as [HRb HRk].
    unfold kmpec_cols in HCk. rewrite !Forall_app in HCk. destruct HCk as (C1 & C2 & C3 & C4 & C5 & C6).
    split; [split|reflexivity].
    - unfold encode_kmpe_cycles. cbn [cols]. apply Forall_app. split; [exact HCb|].
      unfold kmpec_cols, x_pi_cols, x_w_cols, x_slack_cols, x_gamma_cols, x_piprod_cols, x_gprod_cols in C1, C2, C3, C4, C5, C6 |- *.
      rewrite Hw, (x_basic_drop I e0). rewrite !Forall_app. repeat (split; [assumption|]).
      split; [apply (WForall_flat_map_filter (sat_col a)); exact C5|apply (WForall_flat_map_filter (sat_col a)); exact C6].
    - unfold encode_kmpe_cycles. cbn [rows]. apply Forall_app. split; [exact HRb|].
      unfold kmpec_rows in HRk |- *. rewrite (x_basic_drop I e0).
      assert (E : forall e, kmpec_edge_rows (xwith_ignore I (e0 :: x_ignore I)) e = kmpec_edge_rows I e).
      { intros e. unfold kmpec_edge_rows, x_piprod_rows, x_gprod_rows. rewrite Hw. reflexivity. }
      rewrite (flat_map_ext _ _ E). apply WForall_flat_map_filter. exact HRk.
  Qed.
End XRelax.

(* ------------------------------------------------------------------ (4) the cyclic optimality theorems, premises executable *)
Definition werr_domain_b (I : werr_inst) : bool :=
  winputs_ok_b (werr_walk I) &&
  forallb (fun e => Qle_bool 0 (xscale I e) && (negb (x_int I) || is_int_b (xflow I e))) (x_basic I).
Lemma werr_domain_b_sound I : werr_domain_b I = true -> werr_domain I.
Proof.
  unfold werr_domain_b, werr_domain. rewrite andb_true_iff, forallb_forall. intros [H1 H2]. split; [apply winputs_ok_b_sound_w; exact H1|].
  intros e He. specialize (H2 e He). apply andb_true_iff in H2. destruct H2 as [A B]. split; [apply Qle_bool_iff; exact A|].
  intros Hi. rewrite Hi in B. cbn in B. apply is_int_b_sound. exact B.
Qed.

Theorem klaec_optimal_checked (I : werr_inst) (a : var -> Q) :
  wf_stg_b (x_graph I) = true -> werr_domain_b I = true -> o_allow_empty (x_opts I) = false ->
  sat a (encode_klae_cycles I) ->
  (forall b, sat b (encode_klae_cycles I) -> (objective a (encode_klae_cycles I) <= objective b (encode_klae_cycles I))%Q) ->
  (exists P wt, klaec_admissible I P wt /\ (klaec_cost I P wt == objective a (encode_klae_cycles I))%Q) /\
  (forall P wt, klaec_admissible I P wt -> (objective a (encode_klae_cycles I) <= klaec_cost I P wt)%Q).
Proof.
  intros H1 H2 Hae. apply klaec_optimal; [apply wf_stg_b_sound; exact H1|exact Hae|apply werr_domain_b_sound; exact H2].
Qed.

Theorem kmpec_optimal_checked (I : werr_inst) (a : var -> Q) :
  wf_stg_b (x_graph I) = true -> winputs_ok_b (werr_walk I) = true -> o_allow_empty (x_opts I) = false ->
  sat a (encode_kmpe_cycles I) ->
  (forall b, sat b (encode_kmpe_cycles I) -> (objective a (encode_kmpe_cycles I) <= objective b (encode_kmpe_cycles I))%Q) ->
  (exists P wt sl, kmpec_admissible I P wt sl /\ (sumq sl (layers (x_k I)) == objective a (encode_kmpe_cycles I))%Q) /\
  (forall P wt sl, kmpec_admissible I P wt sl -> (objective a (encode_kmpe_cycles I) <= sumq sl (layers (x_k I)))%Q).
Proof.
  intros H1 H2 Hae. apply kmpec_optimal; [apply wf_stg_b_sound; exact H1|exact Hae|apply winputs_ok_b_sound_w; exact H2].
Qed.

Theorem kmpec_feasible_iff_checked (I : werr_inst) :
  wf_stg_b (x_graph I) = true -> winputs_ok_b (werr_walk I) = true -> o_allow_empty (x_opts I) = false ->
  ((exists a, sat a (encode_kmpe_cycles I)) <-> (exists P wt sl, kmpec_admissible I P wt sl)).
Proof.
  intros H1 H2 Hae. apply kmpec_feasible_iff_within_caps; [apply wf_stg_b_sound; exact H1|exact Hae|apply winputs_ok_b_sound_w; exact H2].
Qed.

(* non-vacuity: the executable premises accept the 2-cycle with a tail *)
Example werr_checked_premises_hold : wf_stg_b (x_graph tail_inst) = true /\ werr_domain_b tail_inst = true.
Proof. split; vm_compute; reflexivity. Qed.
