(* C06 proofs, part 2: DAG algorithms.  Univocal extension (safe_paths) is a contiguous infix of every
   source-to-sink walk through the edge; bridges are met by every walk, in order; safe_sequences are safe. *)
From Coq Require Import List Bool Arith NArith Lia.
Import ListNotations.
From FP Require Import SafetyReach Safety SafetyProofs1.
Set Default Timeout 30.

(* ------------------------------------------------------------------ univocal extension *)
Section Univocal.
  Variable G : graph.
  Variables s t : node.
  Hypothesis s_no_in : in_edges G s = [].
  Hypothesis t_no_out : out_edges G t = [].

  Lemma left_is_suffix fuel : forall u w1, chain s w1 u -> incl w1 G ->
    exists w0, w1 = w0 ++ left_ext G fuel u.
  Proof.
    induction fuel as [|k IH]; intros u w1 C I; [exists w1; cbn; rewrite app_nil_r; reflexivity|].
    cbn [left_ext]. destruct (in_edges G u) as [|e [|e' l]] eqn:E; try (exists w1; rewrite app_nil_r; reflexivity).
    destruct w1 as [|x w1] using rev_ind.
    - inversion C; subst. rewrite s_no_in in E. discriminate.
    - clear IHw1. apply chain_snoc_inv in C. destruct C as [C Hx].
      assert (Hin : In x (in_edges G u)).
      { unfold in_edges. apply filter_In. split; [apply I, in_or_app; right; left; reflexivity|apply N.eqb_eq; assumption]. }
      rewrite E in Hin. destruct Hin as [He|[]]. subst x.
      destruct (IH (fst e) w1 C) as (w0 & ->); [intros y Hy; apply I, in_or_app; left; assumption|].
      exists w0. rewrite app_assoc. reflexivity.
  Qed.

  Lemma right_is_prefix fuel : forall v w2, chain v w2 t -> incl w2 G ->
    exists w3, w2 = right_ext G fuel v ++ w3.
  Proof.
    induction fuel as [|k IH]; intros v w2 C I; [exists w2; reflexivity|].
    cbn [right_ext]. destruct (out_edges G v) as [|e [|e' l]] eqn:E; try (exists w2; reflexivity).
    destruct w2 as [|x w2].
    - inversion C; subst. rewrite t_no_out in E. discriminate.
    - inversion C as [|? u0 ? ? Hc]; subst.
      assert (Hin : In (v, u0) (out_edges G v)).
      { unfold out_edges. apply filter_In. split; [apply I; left; reflexivity|apply N.eqb_refl]. }
      rewrite E in Hin. destruct Hin as [He|[]]. subst e. cbn [snd].
      destruct (IH u0 w2 Hc) as (w3 & ->); [intros y Hy; apply I; right; assumption|].
      exists w3. reflexivity.
  Qed.

  (* the safe path of edge (u,v) is a contiguous infix of every source-to-sink walk through it (any fuel) *)
  Theorem univocal_safe f1 f2 u v w1 w2 :
    st_walk G s t (w1 ++ (u, v) :: w2) ->
    exists a b, w1 ++ (u, v) :: w2 = a ++ safe_path_fuel G f1 f2 (u, v) ++ b.
  Proof.
    intros [C I]. destruct (chain_app_inv _ _ _ _ C) as (m & C1 & C2). inversion C2 as [|? ? ? ? Hc]; subst.
    destruct (left_is_suffix f1 u w1 C1) as (w0 & E1); [intros y Hy; apply I, in_or_app; left; assumption|].
    destruct (right_is_prefix f2 v w2 Hc) as (w3 & E2); [intros y Hy; apply I, in_or_app; right; right; assumption|].
    exists w0, w3. unfold safe_path_fuel. cbn [fst snd]. rewrite E1 at 1. rewrite E2 at 1.
    repeat (rewrite <- app_assoc; cbn [app]). reflexivity.
  Qed.

  Lemma infix_subseq {A} (a p b : list A) : subseq p (a ++ p ++ b).
  Proof.
    apply subseq_skip_l. rewrite <- (app_nil_r p) at 1. apply subseq_app; [apply subseq_refl|constructor].
  Qed.

  Theorem safe_path_fuel_safe f1 f2 X e :
    In e X -> safe_for_edges G s t X (safe_path_fuel G f1 f2 e).
  Proof.
    intros He. apply safe_iff_edge. exists e. split; [assumption|]. intros w Hw Hi.
    destruct (in_split _ _ Hi) as (w1 & w2 & ->). destruct e as [u v].
    destruct (univocal_safe f1 f2 u v w1 w2 Hw) as (a & b & E).
    exact (eq_ind_r (fun l => subseq (safe_path_fuel G f1 f2 (u, v)) l) (infix_subseq a _ b) E).
  Qed.

  (* the model of safe_paths: every path it returns is safe for the trusted edge set *)
  Theorem safe_path_model_safe X e p :
    In e X -> safe_path G e = Some p -> safe_for_edges G s t X p.
  Proof.
    intros He H. unfold safe_path in H.
    destruct (left_done G (S (length G)) (fst e) && right_done G (S (length G)) (snd e)); [|discriminate].
    inversion H; subst. apply safe_path_fuel_safe. assumption.
  Qed.
End Univocal.

(* when the model does not run out of fuel the loops stopped for the reason the code's loops stop:
   the end node of the extension does not have exactly one in- (resp. out-) edge: the path is maximal *)
Definition left_end (l : list edge) (u : node) : node := match l with [] => u | e :: _ => fst e end.
Lemma left_end_app l e u : left_end (l ++ [e]) u = left_end l (fst e).
Proof. destruct l; reflexivity. Qed.
Lemma left_ext_maximal G fuel : forall u, left_done G fuel u = true ->
  length (in_edges G (left_end (left_ext G fuel u) u)) <> 1.
Proof.
  induction fuel as [|k IH]; intros u H; [discriminate|].
  cbn [left_done left_ext] in *. destruct (in_edges G u) as [|e [|e' l]] eqn:E.
  - cbn [left_end]. rewrite E. discriminate.
  - rewrite left_end_app. apply IH. assumption.
  - cbn [left_end]. rewrite E. discriminate.
Qed.
Lemma last_indep {A} (l : list A) d d' : l <> [] -> last l d = last l d'.
Proof.
  induction l as [|x l IH]; intros H; [congruence|]. destruct l as [|y l]; [reflexivity|].
  change (last (x :: y :: l) d) with (last (y :: l) d). change (last (x :: y :: l) d') with (last (y :: l) d').
  apply IH. discriminate.
Qed.
Lemma right_ext_maximal G fuel : forall v, right_done G fuel v = true ->
  length (out_edges G (snd (last (right_ext G fuel v) (v, v)))) <> 1.
Proof.
  induction fuel as [|k IH]; intros v H; [discriminate|].
  cbn [right_done right_ext] in *. destruct (out_edges G v) as [|e [|e' l]] eqn:E.
  - cbn [last snd]. rewrite E. discriminate.
  - specialize (IH (snd e) H). destruct (right_ext G k (snd e)) as [|x r] eqn:R.
    + cbn [last] in *. exact IH.
    + change (last (e :: x :: r) (v, v)) with (last (x :: r) (v, v)).
      rewrite (last_indep (x :: r) (v, v) (snd e, snd e)); [exact IH|discriminate].
  - cbn [last snd]. rewrite E. discriminate.
Qed.

(* ------------------------------------------------------------------ bridges *)
Lemma run_nil w j : run [] j w = j.
Proof. revert j. induction w as [|e w IH]; intros j; [reflexivity|]. cbn [run fold_left]. unfold adv at 2. destruct j; cbn [nth_error]; apply IH. Qed.

Lemma reachb_correct G v t : reachb G v t = true <-> exists w, st_walk G v t w.
Proof.
  unfold reachb. split.
  - destruct (sink_pairs G [] [] v t) as [|[i j] l] eqn:E; [discriminate|]. intros _.
    assert (H : In (i, j) (sink_pairs G [] [] v t)) by (rewrite E; left; reflexivity).
    apply sink_pairs_correct in H. destruct H as (w & Hw & _). exists w. assumption.
  - intros (w & Hw).
    assert (H : In (0, 0) (sink_pairs G [] [] v t)).
    { apply sink_pairs_correct. exists w. split; [assumption|]. split; apply run_nil. }
    destruct (sink_pairs G [] [] v t); [destruct H|reflexivity].
Qed.

Lemma neqe_true e x : neqe e x = true <-> x <> e.
Proof. unfold neqe. destruct (eqe_spec e x); cbn; split; congruence. Qed.

Lemma bridgeb_correct G v t e : bridgeb G v t e = true <-> (forall w, st_walk G v t w -> In e w).
Proof.
  unfold bridgeb. rewrite negb_true_iff. split.
  - intros H w [C I]. destruct (in_dec (fun x y => reflect_dec _ _ (eqe_spec x y)) e w) as [Hin|Hn]; [assumption|exfalso].
    assert (R : reachb (remove_edge G e) v t = true).
    { apply reachb_correct. exists w. split; [assumption|]. intros x Hx. apply filter_In. split; [apply I; assumption|].
      apply neqe_true. intros ->. contradiction. }
    congruence.
  - intros H. destruct (reachb (remove_edge G e) v t) eqn:R; [exfalso|reflexivity].
    apply reachb_correct in R. destruct R as (w & C & I).
    assert (Hw : st_walk G v t w).
    { split; [assumption|]. intros x Hx. apply I in Hx. apply filter_In in Hx. tauto. }
    specialize (H w Hw). apply I in H. apply filter_In in H. destruct H as [_ H]. apply neqe_true in H. congruence.
Qed.

Lemma first_path_chain G fuel : forall v t p, first_path G fuel v t = Some p -> chain v p t /\ incl p G.
Proof.
  induction fuel as [|k IH]; intros v t p H; cbn [first_path] in H.
  - destruct (N.eqb_spec v t); [|discriminate]. inversion H; subst. split; [constructor|intros ? []].
  - destruct (N.eqb_spec v t). { inversion H; subst. split; [constructor|intros ? []]. }
    destruct (out_edges G v) as [|e l] eqn:E; [discriminate|].
    destruct (first_path G k (snd e) t) as [q|] eqn:F; [|discriminate]. inversion H; subst.
    destruct (IH _ _ _ F) as [C I].
    assert (He : In e (out_edges G v)) by (rewrite E; left; reflexivity).
    apply filter_In in He. destruct He as [HG Hv]. apply N.eqb_eq in Hv. destruct e as [x y]. cbn [fst snd] in *. subst x.
    split; [constructor; assumption|]. intros z [<-|Hz]; [assumption|apply I; assumption].
Qed.

Lemma nodupb_NoDup l : nodupb l = true -> NoDup l.
Proof.
  induction l as [|e r IH]; intros H; [constructor|]. cbn [nodupb] in H. apply andb_true_iff in H. destruct H as [H1 H2].
  constructor; [|apply IH; assumption]. intros Hin. apply negb_true_iff in H1.
  assert (existsb (eqe e) r = true); [|congruence].
  apply existsb_exists. exists e. split; [assumption|]. destruct (eqe_spec e e); congruence.
Qed.

Lemma filter_first {A} (f : A -> bool) (l : list A) :
  filter f l = [] \/ exists l1 x l2, l = l1 ++ x :: l2 /\ filter f l1 = [] /\ f x = true.
Proof.
  induction l as [|a l IH]; [left; reflexivity|]. cbn [filter]. destruct (f a) eqn:E.
  - right. exists [], a, l. repeat split; assumption.
  - destruct IH as [H|(l1 & x & l2 & -> & H1 & H2)]; [left; assumption|].
    right. exists (a :: l1), x, l2. repeat split; [|assumption]. cbn [filter]. rewrite E. assumption.
Qed.

Lemma NoDup_app_not_in {A} (l1 l2 : list A) x : NoDup (l1 ++ l2) -> In x l2 -> ~ In x l1.
Proof.
  induction l1 as [|a l1 IH]; intros ND H2 H1; [destruct H1|]. cbn [app] in ND. inversion ND; subst.
  destruct H1 as [->|H1]; [apply H3, in_or_app; right; assumption|apply IH; assumption].
Qed.

(* every walk from the current node of the path to t meets the remaining v0-t bridges of the path in path order *)
Lemma bridges_ordered G v0 t n : forall P2, length P2 <= n -> forall P1 m,
  chain v0 P1 m -> incl P1 G -> chain m P2 t -> incl P2 G -> NoDup (P1 ++ P2) ->
  forall W, chain m W t -> incl W G -> subseq (filter (bridgeb G v0 t) P2) W.
Proof.
  induction n as [|n IH]; intros P2 Hlen P1 m C1 I1 C2 I2 ND W CW IW.
  - destruct P2; [constructor|cbn in Hlen; lia].
  - destruct (filter_first (bridgeb G v0 t) P2) as [E|(Q & b & P2' & -> & HQ & Hb)]; [rewrite E; constructor|].
    rewrite filter_app, HQ. cbn [app filter]. rewrite Hb.
    assert (HbW : In b W).
    { pose proof (proj1 (bridgeb_correct _ _ _ _) Hb (P1 ++ W)) as Hb'. clear Hb. rename Hb' into Hb.
      assert (Hst : st_walk G v0 t (P1 ++ W)).
      { split; [eapply chain_app; eassumption|]. intros x Hx. apply in_app_or in Hx. destruct Hx; [apply I1|apply IW]; assumption. }
      specialize (Hb Hst). apply in_app_or in Hb. destruct Hb as [Hb|Hb]; [exfalso|assumption].
      revert Hb. apply (NoDup_app_not_in P1 (Q ++ b :: P2') b ND). apply in_or_app. right. left. reflexivity. }
    destruct (in_split _ _ HbW) as (Wa & Wb & ->).
    apply subseq_skip_l. constructor.
    destruct (chain_app_inv _ _ _ _ CW) as (x & CWa & CWb).
    destruct (chain_app_inv _ _ _ _ C2) as (x' & CQ & CP).
    destruct b as [bx bt].
    assert (x = bx /\ chain bt Wb t) as [-> CWb'] by (inversion CWb; subst; split; [reflexivity|assumption]).
    assert (x' = bx /\ chain bt P2' t) as [-> CP'] by (inversion CP; subst; split; [reflexivity|assumption]).
    apply (IH P2') with (P1 := P1 ++ Q ++ [(bx, bt)]) (m := bt).
    + rewrite app_length in Hlen. cbn [length] in Hlen. lia.
    + eapply chain_app; [eassumption|]. apply chain_snoc. assumption.
    + intros e He. apply in_app_or in He. destruct He as [He|He]; [apply I1; assumption|].
      apply I2. apply in_app_or in He. apply in_or_app. destruct He as [He|[<-|[]]]; [left; assumption|right; left; reflexivity].
    + assumption.
    + intros e He. apply I2, in_or_app. right. right. assumption.
    + rewrite <- !app_assoc. cbn [app]. exact ND.
    + assumption.
    + intros e He. apply IW, in_or_app. right. right. assumption.
Qed.

(* find_all_bridges: the model returns exactly the v-t bridges, and every v-t walk meets them in this order *)
Theorem bridges_model_correct G v t bs :
  bridges G v t = Some bs ->
  (forall e, In e bs <-> (forall w, st_walk G v t w -> In e w)) /\
  (forall W, st_walk G v t W -> subseq bs W).
Proof.
  unfold bridges. destruct (first_path G (S (length G)) v t) as [p|] eqn:F; [|discriminate].
  destruct (nodupb p) eqn:ND; [|discriminate]. intros H. inversion H; subst. clear H.
  destruct (first_path_chain _ _ _ _ _ F) as [C I]. apply nodupb_NoDup in ND. split.
  - intros e. rewrite filter_In, bridgeb_correct. split; [tauto|]. intros Hb. split; [|assumption].
    apply Hb. split; assumption.
  - intros W [CW IW]. apply (bridges_ordered G v t (length p) p (le_n _) [] v); try assumption; [constructor|intros ? []].
Qed.

(* ------------------------------------------------------------------ reversed graph *)
Lemma subseq_map {A B} (f : A -> B) a b : subseq a b -> subseq (map f a) (map f b).
Proof. induction 1; cbn [map]; constructor; assumption. Qed.
Lemma subseq_rev {A} (a b : list A) : subseq a b -> subseq (rev a) (rev b).
Proof.
  induction 1 as [w|x l w Hs IH|x l w Hs IH]; cbn [rev].
  - constructor.
  - apply subseq_app; [assumption|apply subseq_refl].
  - rewrite <- (app_nil_r (rev l)). apply subseq_app; [assumption|constructor].
Qed.
Lemma swap_swap e : swap (swap e) = e.
Proof. destruct e; reflexivity. Qed.
Lemma chain_rev a w b : chain a w b -> chain b (rev (map swap w)) a.
Proof.
  induction 1 as [|v u w z Hc IH]; cbn [map rev]; [constructor|].
  eapply chain_app; [exact IH|]. cbn [swap fst snd]. constructor. constructor.
Qed.
Lemma rev_swap_invol w : rev (map swap (rev (map swap w))) = w.
Proof. rewrite map_rev, rev_involutive, map_map. rewrite (map_ext _ (fun e => e)); [apply map_id|apply swap_swap]. Qed.

Lemma chain_last a c z d : chain a c z -> c <> [] -> z = snd (last c d).
Proof.
  induction 1 as [|v u w z Hc IH]; intros Hn; [congruence|].
  destruct w as [|e w]; [inversion Hc; reflexivity|].
  change (last ((v, u) :: e :: w) d) with (last (e :: w) d). apply IH. discriminate.
Qed.

(* safe_sequences: the sequence computed for an item c is met, in order, by every source-to-sink walk in which c
   occurs contiguously (for a single trusted edge: by every walk through the edge) *)
Theorem safe_sequence_contains G s t c q W1 W2 :
  safe_sequence G s t c = Some q -> st_walk G s t (W1 ++ c ++ W2) -> subseq q (W1 ++ c ++ W2).
Proof.
  unfold safe_sequence. destruct c as [|e0 c']; [discriminate|].
  destruct (bridges (rev_graph G) (fst e0) s) as [l|] eqn:BL; [|discriminate].
  destruct (bridges G (snd (last (e0 :: c') e0)) t) as [r|] eqn:BR; [|discriminate].
  intros H [C I]. inversion H; subst. clear H.
  destruct (chain_app_inv _ _ _ _ C) as (m & C1 & C23). destruct (chain_app_inv _ _ _ _ C23) as (m2 & C2 & C3).
  assert (m = fst e0) by (inversion C2; reflexivity). subst m.
  assert (m2 = snd (last (e0 :: c') e0)) by (apply (chain_last _ _ _ e0 C2); discriminate). subst m2.
  apply subseq_app; [|apply (subseq_app (e0 :: c') r (e0 :: c') W2); [apply subseq_refl|]].
  - destruct (bridges_model_correct _ _ _ _ BL) as [_ HL].
    assert (Hrev : st_walk (rev_graph G) (fst e0) s (rev (map swap W1))).
    { split; [apply chain_rev; assumption|]. intros x Hx. apply in_rev in Hx. apply in_map_iff in Hx.
      destruct Hx as (y & <- & Hy). apply in_map. apply I, in_or_app. left. assumption. }
    specialize (HL _ Hrev). apply (subseq_map swap), subseq_rev in HL. rewrite rev_swap_invol in HL. exact HL.
  - destruct (bridges_model_correct _ _ _ _ BR) as [_ HR]. apply HR. split; [assumption|].
    intros x Hx. apply I, in_or_app. right. apply in_or_app. right. assumption.
Qed.

Theorem safe_sequence_model_safe G s t X e q :
  In e X -> safe_sequence G s t [e] = Some q -> safe_for_edges G s t X q.
Proof.
  intros He H. apply safe_iff_edge. exists e. split; [assumption|]. intros w Hw Hi.
  destruct (in_split _ _ Hi) as (w1 & w2 & ->). apply (safe_sequence_contains G s t [e] q w1 w2 H Hw).
Qed.
