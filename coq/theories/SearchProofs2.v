(* SearchProofs2.v — the C13 statements for each search loop of Search.v. *)
From Coq Require Import List Bool Arith Lia QArith.
Import ListNotations.
From FP Require Import Search SearchProofs1.
Local Close Scope Q_scope.
Set Default Timeout 30.

(* "invocation number p was answered with a status other than optimal / infeasible"
   (native time limit, interrupt, unknown, solution limit ... or the custom time-out flag) *)
Definition inconclusive_at (sts : list raw) (p : nat) : Prop :=
  exists x, nth_error sts p = Some x /\ conclusive (status_of x) = false.

Lemma inconclusive_custom_timeout sts p x :
  nth_error sts p = Some x -> custom_timeout x = true -> inconclusive_at sts p.
Proof. intros H1 H2. exists x. split; [exact H1|]. rewrite (custom_timeout_is_timelimit _ H2). reflexivity. Qed.

(* ------------------------------------------------------------------ plain loops *)
Lemma plain_sound lb ub sts k m :
  kloop never never (krange lb ub) sts 0 = (Solved k, m) ->
  lb <= k < ub /\ map status_of (firstn m sts) = repeat Infeasible (k - lb) ++ [Optimal].
Proof.
  intros H. apply kloop_sound in H. destruct H as (ks1 & ks2 & Hk & _ & Hm & Hs & _).
  apply krange_split in Hk. destruct Hk as [Hk Hr]. split; [exact Hr|].
  unfold never in Hs. rewrite Nat.sub_0_r in Hs. rewrite Hs. f_equal. f_equal. lia.
Qed.

Lemma plain_inconclusive ks sts p r m :
  kloop never never ks sts 0 = (r, m) -> inconclusive_at sts p -> p < m -> r = NotSolved.
Proof. intros H (x & Hx & Hc) Hp. eapply kloop_inconclusive; eauto. Qed.

(* MinPathCover *)
Theorem mpc_search_sound ex lb ne sts k :
  so_res (mpc_solve ex lb ne sts) = Solved k ->
  lb <= k < upper ex ne /\
  map status_of (firstn (used (mpc_solve ex lb ne sts)) sts) = repeat Infeasible (k - lb) ++ [Optimal].
Proof.
  unfold mpc_solve. destruct (kloop never never (krange lb (upper ex ne)) sts 0) as [r m] eqn:E. simpl.
  intros ->. apply plain_sound in E. exact E.
Qed.

Theorem mpc_search_inconclusive ex lb ne sts p :
  inconclusive_at sts p -> p < used (mpc_solve ex lb ne sts) -> so_res (mpc_solve ex lb ne sts) = NotSolved.
Proof.
  unfold mpc_solve. destruct (kloop never never (krange lb (upper ex ne)) sts 0) as [r m] eqn:E. simpl.
  intros Hi Hp. eapply plain_inconclusive; eauto.
Qed.

Theorem mpc_search_inconclusive_first ex lb ne pre x post :
  Forall (fun y => status_of y = Infeasible) pre -> conclusive (status_of x) = false ->
  so_res (mpc_solve ex lb ne (pre ++ x :: post)) = NotSolved.
Proof.
  intros Hp Hx. unfold mpc_solve.
  pose proof (kloop_first_inconclusive (krange lb (upper ex ne)) pre x post 0 Hp Hx) as H.
  destruct (kloop never never (krange lb (upper ex ne)) (pre ++ x :: post) 0). exact H.
Qed.

(* MinPathCoverCycles *)
Theorem mpcc_search_sound ex lb ne sts k :
  so_res (mpcc_solve ex lb ne sts) = Solved k ->
  lb <= k < upper ex ne /\
  map status_of (firstn (used (mpcc_solve ex lb ne sts)) sts) = repeat Infeasible (k - lb) ++ [Optimal].
Proof. exact (mpc_search_sound ex lb ne sts k). Qed.

Theorem mpcc_search_inconclusive ex lb ne sts p :
  inconclusive_at sts p -> p < used (mpcc_solve ex lb ne sts) -> so_res (mpcc_solve ex lb ne sts) = NotSolved.
Proof. exact (mpc_search_inconclusive ex lb ne sts p). Qed.

Theorem mpcc_search_inconclusive_first ex lb ne pre x post :
  Forall (fun y => status_of y = Infeasible) pre -> conclusive (status_of x) = false ->
  so_res (mpcc_solve ex lb ne (pre ++ x :: post)) = NotSolved.
Proof. exact (mpc_search_inconclusive_first ex lb ne pre x post). Qed.

(* ------------------------------------------------------------------ MinGenSet *)
(* corrected model (switch off) *)
Theorem mgs_search_sound lb n sts k :
  so_res (mgs_solve false lb n sts) = Solved k ->
  lb <= k < mgs_upper lb n /\
  map status_of (firstn (used (mgs_solve false lb n sts)) sts) = repeat Infeasible (k - lb) ++ [Optimal].
Proof.
  unfold mgs_solve, mgs_range. rewrite mgs_loop_false.
  destruct (kloop never never (krange lb (mgs_upper lb n)) sts 0) as [r m] eqn:E. simpl.
  intros ->. apply plain_sound in E. exact E.
Qed.

Theorem mgs_search_inconclusive lb n sts p :
  inconclusive_at sts p -> p < used (mgs_solve false lb n sts) -> so_res (mgs_solve false lb n sts) = NotSolved.
Proof.
  unfold mgs_solve, mgs_range. rewrite mgs_loop_false.
  destruct (kloop never never (krange lb (mgs_upper lb n)) sts 0) as [r m] eqn:E. simpl.
  intros Hi Hp. eapply plain_inconclusive; eauto.
Qed.

Theorem mgs_search_inconclusive_first lb n pre x post :
  Forall (fun y => status_of y = Infeasible) pre -> conclusive (status_of x) = false ->
  so_res (mgs_solve false lb n (pre ++ x :: post)) = NotSolved.
Proof.
  intros Hp Hx. unfold mgs_solve, mgs_range. rewrite mgs_loop_false.
  pose proof (kloop_first_inconclusive (krange lb (mgs_upper lb n)) pre x post 0 Hp Hx) as H.
  destruct (kloop never never _ (pre ++ x :: post) 0). exact H.
Qed.

(* the code as it stands (switch on): what remains true ... *)
Theorem mgs_faithful_final_optimal b lb n sts k :
  so_res (mgs_solve b lb n sts) = Solved k ->
  lb <= k < mgs_upper lb n /\ 0 < used (mgs_solve b lb n sts) /\
  exists x, nth_error sts (used (mgs_solve b lb n sts) - 1) = Some x /\ status_of x = Optimal.
Proof.
  unfold mgs_solve. destruct (mgs_loop b (mgs_range lb n) sts 0) as [r m] eqn:E. simpl. intros ->.
  apply mgs_loop_final_optimal in E. destruct E as (Hi & Hm & x & Hx & Ho).
  unfold mgs_range, krange in Hi. apply in_seq in Hi. split; [lia|]. split; [exact Hm|].
  exists x. rewrite Nat.sub_0_r in Hx. auto.
Qed.

(* ... and what is false: a time limit at k = 1 is skipped and k = 2 reported as the minimum *)
Theorem mgs_refuted :
  exists lb n sts p k,
    inconclusive_at sts p /\ p < used (mgs_solve true lb n sts) /\
    so_res (mgs_solve true lb n sts) = Solved k /\ lb + p < k.
Proof.
  exists 1, 3, [mkraw TimeLimit false; mkraw Optimal false], 0, 2.
  split; [exists (mkraw TimeLimit false); split; reflexivity|]. vm_compute. repeat split; lia.
Qed.

(* the same through the custom time-out flag, and in last position of the range *)
Theorem mgs_refuted_custom_timeout :
  exists lb n sts p k,
    (exists x, nth_error sts p = Some x /\ custom_timeout x = true) /\
    p < used (mgs_solve true lb n sts) /\ so_res (mgs_solve true lb n sts) = Solved k /\ lb + p < k.
Proof.
  exists 1, 4, [mkraw Infeasible false; mkraw Optimal true; mkraw Optimal false], 1, 3.
  split; [exists (mkraw Optimal true); split; reflexivity|]. vm_compute. repeat split; lia.
Qed.

(* ------------------------------------------------------------------ lower-bound phase *)
Lemma lb_phase_justified ex um l0 nw sts lb n1 :
  lb_phase false ex um l0 nw sts = LB lb n1 ->
  lb = l0 \/ (um = true /\ exists kg, lb = Nat.max l0 kg /\ l0 <= kg /\
              map status_of (firstn n1 sts) = repeat Infeasible (kg - l0) ++ [Optimal]).
Proof.
  unfold lb_phase. destruct um; [|intros H; injection H as <- _; left; reflexivity].
  rewrite mgs_loop_false. unfold mgs_range.
  destruct (kloop never never (krange l0 (mgs_upper l0 nw)) sts 0) as [r m] eqn:E.
  destruct r; try (destruct ex; intros H; first [discriminate|injection H as <- _; left; reflexivity]).
  intros H. injection H as <- <-. right. split; [reflexivity|]. exists k.
  apply plain_sound in E. destruct E as [Hr Hs]. repeat split; [lia|exact Hs].
Qed.

(* ------------------------------------------------------------------ MinFlowDecomp[Cycles] *)
(* any inconclusive status in the main loop ends the search unsolved — whatever the switches *)
Theorem fd_main_inconclusive sk ex P sts p :
  inconclusive_at sts p ->
  aux (fd_solve sk ex P sts) <= p < used (fd_solve sk ex P sts) ->
  so_res (fd_solve sk ex P sts) = NotSolved.
Proof.
  intros (x & Hx & Hc). unfold fd_solve.
  destruct (lb_phase sk ex (use_mgs P) (lb0 P) (nweights P) sts) as [lb n1|n|n]; simpl; try lia.
  destruct (guessed P).
  - destruct (skipn n1 sts) as [|y sts2] eqn:Es; simpl; [lia|].
    destruct (kloop _ (over P) (krange lb (upper (upper_excl P) (nedges P))) sts2 (S n1)) as [r m] eqn:E. simpl. intros Hp.
    eapply (kloop_inconclusive _ _ _ _ _ (p - S n1) x) in E; eauto; [|lia].
    assert (H : nth_error (skipn n1 sts) (S (p - S n1)) = Some x).
    { rewrite nth_error_skipn'. replace (n1 + S (p - S n1)) with p by lia. exact Hx. }
    rewrite Es in H. exact H.
  - destruct (kloop (greedy P) (over P) (krange lb (upper (upper_excl P) (nedges P))) (skipn n1 sts) n1) as [r m] eqn:E. simpl. intros Hp.
    eapply (kloop_inconclusive _ _ _ _ _ (p - n1) x) in E; eauto; [|lia].
    rewrite nth_error_skipn'. replace (n1 + (p - n1)) with p by lia. exact Hx.
Qed.

(* Solved k: all k' in [lbk, k) were tried and proven infeasible, k was proven optimal or needed
   no solver (greedy / guessed-weights model proven optimal with exactly k paths), clock not run out *)
Theorem fd_sound_main sk ex P sts k :
  so_res (fd_solve sk ex P sts) = Solved k ->
  let o := fd_solve sk ex P sts in
  lbk o <= k < upper (upper_excl P) (nedges P) /\ aux o <= used o /\ over P (used o) = false /\
  exists tail,
    map status_of (firstn (used o - aux o) (skipn (aux o) sts)) = repeat Infeasible (k - lbk o) ++ tail /\
    (tail = [Optimal] \/
     (tail = [] /\ (greedy P k = true \/
                    (guessed P = true /\ gw_paths P = k /\
                     exists x, nth_error sts (aux o - 1) = Some x /\ status_of x = Optimal)))).
Proof.
  unfold fd_solve.
  destruct (lb_phase sk ex (use_mgs P) (lb0 P) (nweights P) sts) as [lb n1|n|n]; simpl; try discriminate.
  destruct (guessed P) eqn:Eg.
  - destruct (skipn n1 sts) as [|y sts2] eqn:Es; simpl; [discriminate|].
    destruct (kloop _ (over P) (krange lb (upper (upper_excl P) (nedges P))) sts2 (S n1)) as [r m] eqn:E. simpl. intros ->.
    pose proof (kloop_used _ _ _ _ _ _ _ E) as Hu.
    apply kloop_sound in E. destruct E as (ks1 & ks2 & Hk & _ & Hm & Hs & Ho).
    apply krange_split in Hk. destruct Hk as [Hk Hr].
    split; [exact Hr|]. split; [lia|]. split; [exact Ho|].
    assert (Hsk : skipn (S n1) sts = sts2).
    { clear -Es. revert sts Es. induction n1 as [|n1 IH]; intros [|a l] Es; simpl in *; try discriminate.
      - injection Es as _ <-. reflexivity.
      - apply IH, Es. }
    simpl in Hsk. rewrite Hsk, Hs. replace (length ks1) with (k - lb) by lia.
    eexists. split; [reflexivity|].
    destruct (given_match _ k || greedy P k) eqn:Ep; [right|left; reflexivity].
    split; [reflexivity|]. apply orb_true_iff in Ep. destruct Ep as [Ep|Ep]; [right|left; exact Ep].
    split; [reflexivity|]. destruct (is_optimal (status_of y)) eqn:Ey; [|discriminate].
    simpl in Ep. apply Nat.eqb_eq in Ep. split; [exact Ep|]. exists y. split.
    + assert (Hn : nth_error (skipn n1 sts) 0 = Some y) by (rewrite Es; reflexivity).
      rewrite nth_error_skipn', Nat.add_0_r in Hn. rewrite ?Nat.sub_0_r. exact Hn.
    + destruct (status_of y); simpl in Ey; congruence.
  - destruct (kloop (greedy P) (over P) (krange lb (upper (upper_excl P) (nedges P))) (skipn n1 sts) n1) as [r m] eqn:E. simpl. intros ->.
    pose proof (kloop_used _ _ _ _ _ _ _ E) as Hu.
    apply kloop_sound in E. destruct E as (ks1 & ks2 & Hk & _ & Hm & Hs & Ho).
    apply krange_split in Hk. destruct Hk as [Hk Hr].
    split; [exact Hr|]. split; [lia|]. split; [exact Ho|].
    rewrite Hs. replace (length ks1) with (k - lb) by lia.
    eexists. split; [reflexivity|].
    destruct (greedy P k) eqn:Ep; [right; split; [reflexivity|left; reflexivity]|left; reflexivity].
Qed.

(* corrected MinGenSet: the first k of the main loop is lb0 or a proven MinGenSet optimum *)
Theorem fd_lb_justified ex P sts :
  let o := fd_solve false ex P sts in
  lbk o = lb0 P \/
  (use_mgs P = true /\ exists kg m, lbk o = Nat.max (lb0 P) kg /\ lb0 P <= kg /\ m <= aux o /\
     map status_of (firstn m sts) = repeat Infeasible (kg - lb0 P) ++ [Optimal]).
Proof.
  unfold fd_solve.
  destruct (lb_phase false ex (use_mgs P) (lb0 P) (nweights P) sts) as [lb n1|n|n] eqn:El; simpl; try (left; reflexivity).
  apply lb_phase_justified in El.
  assert (Hl : forall o, lbk o = lb -> aux o >= n1 ->
     lbk o = lb0 P \/ (use_mgs P = true /\ exists kg m, lbk o = Nat.max (lb0 P) kg /\ lb0 P <= kg /\ m <= aux o /\
     map status_of (firstn m sts) = repeat Infeasible (kg - lb0 P) ++ [Optimal])).
  { intros o Ho Ha. destruct El as [->|(Hu & kg & -> & Hk & Hs)]; [left; exact Ho|right].
    split; [exact Hu|]. exists kg, n1. repeat split; auto. }
  destruct (guessed P).
  - destruct (skipn n1 sts) as [|y sts2]; [apply Hl; simpl; lia|].
    destruct (kloop _ (over P) (krange lb (upper (upper_excl P) (nedges P))) sts2 (S n1)). apply Hl; simpl; lia.
  - destruct (kloop (greedy P) (over P) (krange lb (upper (upper_excl P) (nedges P))) (skipn n1 sts) n1). apply Hl; simpl; lia.
Qed.

(* without the exit switch the interpreter is never left *)
Theorem fd_never_exits sk P sts : so_res (fd_solve sk false P sts) <> Exited.
Proof.
  unfold fd_solve.
  assert (Hk : forall pre ov ks s n, fst (kloop pre ov ks s n) <> Exited).
  { intros pre ov ks. induction ks as [|k ks IH]; intros s n; simpl; [discriminate|].
    destruct (pre k); [destruct (ov n); discriminate|]. destruct s as [|y s]; [discriminate|].
    destruct (ov (S n)); [discriminate|]. destruct (status_of y); try discriminate. apply IH. }
  destruct (lb_phase sk false (use_mgs P) (lb0 P) (nweights P) sts) as [lb n1|n|n] eqn:El; simpl; try discriminate.
  - destruct (guessed P).
    + destruct (skipn n1 sts) as [|y sts2]; [discriminate|].
      specialize (Hk (fun k => given_match (if is_optimal (status_of y) then Some (gw_paths P) else None) k || greedy P k)
                     (over P) (krange lb (upper (upper_excl P) (nedges P))) sts2 (S n1)).
      destruct (kloop _ (over P) (krange lb (upper (upper_excl P) (nedges P))) sts2 (S n1)). exact Hk.
    + specialize (Hk (greedy P) (over P) (krange lb (upper (upper_excl P) (nedges P))) (skipn n1 sts) n1).
      destruct (kloop (greedy P) (over P) (krange lb (upper (upper_excl P) (nedges P))) (skipn n1 sts) n1). exact Hk.
  - unfold lb_phase in El. destruct (use_mgs P); [|discriminate].
    destruct (mgs_loop sk _ sts 0) as [[] ?]; discriminate.
Qed.

(* --- repeated solve() on one object *)
(* the state a run hands to the next call: the lower bound, which is fixed by the auxiliary phase alone —
   the statuses of the main loop (the inconclusive one included) leave no trace in it *)
Theorem failed_run_leaves_no_trace sk ex P sts :
  lbk (fd_solve sk ex P sts) =
  match lb_phase sk ex (use_mgs P) (lb0 P) (nweights P) sts with LB lb _ => lb | _ => lb0 P end.
Proof.
  unfold fd_solve.
  destruct (lb_phase sk ex (use_mgs P) (lb0 P) (nweights P) sts) as [lb n1|n|n]; try reflexivity.
  destruct (guessed P).
  - destruct (skipn n1 sts) as [|y sts2]; [reflexivity|].
    destruct (kloop _ (over P) (krange lb (upper (upper_excl P) (nedges P))) sts2 (S n1)). reflexivity.
  - destruct (kloop (greedy P) (over P) (krange lb (upper (upper_excl P) (nedges P))) (skipn n1 sts) n1). reflexivity.
Qed.

(* and a later call that starts from such a state (no solved guessed-weights model kept) is exactly a
   fresh run whose solver-free lower bound is the cached one: all theorems about fd_solve apply to it *)
Theorem resolve_is_fresh_run sk ex P lb sts :
  fd_resolve P lb None sts =
  fd_solve sk ex (mkfd lb (upper_excl P) (nedges P) false (nweights P) (guessed P) (gw_paths P) (greedy P) (over P)) sts.
Proof.
  unfold fd_resolve, fd_solve, lb_phase. cbn [use_mgs lb0 guessed skipn gw_paths greedy over upper_excl nedges].
  destruct (guessed P); [|reflexivity]. destruct sts as [|r sts2]; reflexivity.
Qed.

Corollary resolve_main_inconclusive P lb sts p :
  inconclusive_at sts p -> aux (fd_resolve P lb None sts) <= p < used (fd_resolve P lb None sts) ->
  so_res (fd_resolve P lb None sts) = NotSolved.
Proof. rewrite (resolve_is_fresh_run false false). apply fd_main_inconclusive. Qed.

(* --- subgraph-scanning lower bound (nested searches over windows) *)
Lemma skipn_add {A} (l : list A) : forall a b, skipn b (skipn a l) = skipn (a + b) l.
Proof. induction l as [|x l IH]; intros [|a] b; simpl; try reflexivity; [destruct b; reflexivity|apply IH]. Qed.

Lemma inconclusive_at_skipn sts N p : N <= p -> inconclusive_at sts p -> inconclusive_at (skipn N sts) (p - N).
Proof.
  intros Hle (x & Hx & Hc). exists x. split; [|exact Hc].
  rewrite nth_error_skipn'. replace (N + (p - N)) with p by lia. exact Hx.
Qed.

(* a window whose own search met an inconclusive status in its main loop is unsolved and contributes NO bound *)
Theorem scan_inconclusive_window_no_bound sk ex W ws sts b n p :
  inconclusive_at sts p -> aux (fd_solve sk ex W sts) <= p < used (fd_solve sk ex W sts) ->
  scan sk ex (W :: ws) sts b n =
  scan sk ex ws (skipn (used (fd_solve sk ex W sts)) sts) b (n + used (fd_solve sk ex W sts)).
Proof.
  intros Hi Hp. pose proof (fd_main_inconclusive sk ex W sts p Hi Hp) as Hr.
  cbn [scan]. rewrite Hr. reflexivity.
Qed.

(* the bound that comes out of the scan is the initial one or the size of a window that was itself Solved *)
Lemma scan_bound_certified sk ex ws : forall sts b0 n0 b n,
  scan sk ex ws sts b0 n0 = LB b n ->
  b = b0 \/ exists W sts', In W ws /\ so_res (fd_solve sk ex W sts') = Solved b.
Proof.
  induction ws as [|W ws IH]; intros sts b0 n0 b n H; cbn [scan] in H.
  - injection H as <- _. left. reflexivity.
  - destruct (so_res (fd_solve sk ex W sts)) eqn:Er; try discriminate.
    + apply IH in H. destruct H as [H|(W' & s' & Hin & Hs)].
      * destruct (Nat.max_dec b0 k) as [Hm|Hm]; rewrite Hm in H; [left; exact H|].
        right. exists W, sts. split; [left; reflexivity|]. rewrite H. exact Er.
      * right. exists W', s'. split; [right; exact Hin|exact Hs].
    + apply IH in H. destruct H as [H|(W' & s' & Hin & Hs)]; [left; exact H|].
      right. exists W', s'. split; [right; exact Hin|exact Hs].
    + apply IH in H. destruct H as [H|(W' & s' & Hin & Hs)]; [left; exact H|].
      right. exists W', s'. split; [right; exact Hin|exact Hs].
Qed.

Definition scan_view (P : fd_params) : fd_params :=
  mkfd (lb0 P) (upper_excl P) (nedges P) (use_mgs P) (nweights P) (guessed P) (gw_paths P) (greedy P) never.

(* main loop after the scan: any inconclusive status that was consumed there gives not-solved *)
Theorem mfd_scan_main_inconclusive sk ex P ws sts p :
  inconclusive_at sts p ->
  aux (mfd_scan_solve sk ex P ws sts) <= p < used (mfd_scan_solve sk ex P ws sts) ->
  so_res (mfd_scan_solve sk ex P ws sts) = NotSolved.
Proof.
  intros Hi. unfold mfd_scan_solve.
  destruct (lb_phase sk ex (use_mgs P) (lb0 P) (nweights P) sts) as [lb1 n1|n|n]; cbn [aux used so_res]; try lia.
  destruct (scan sk ex ws (skipn n1 sts) 0 0) as [b n2|n2|n2]; cbn [aux used so_res]; try lia.
  intros Hp. apply (resolve_main_inconclusive _ _ _ (p - (n1 + n2))).
  - apply inconclusive_at_skipn; [lia|exact Hi].
  - lia.
Qed.

(* the first k of the main loop: max of a justified MinGenSet/solver-free bound and a certified window optimum;
   and a Solved k carries the usual certificate for the main loop *)
Theorem mfd_scan_sound ex P ws sts k :
  so_res (mfd_scan_solve false ex P ws sts) = Solved k ->
  let o := mfd_scan_solve false ex P ws sts in
  (exists lb1 b, lbk o = Nat.max lb1 b /\
     (lb1 = lb0 P \/ (use_mgs P = true /\ exists kg m, lb1 = Nat.max (lb0 P) kg /\ lb0 P <= kg /\
                        map status_of (firstn m sts) = repeat Infeasible (kg - lb0 P) ++ [Optimal])) /\
     (b = 0 \/ exists W sts', In W ws /\ so_res (fd_solve false ex W sts') = Solved b)) /\
  lbk o <= k < upper (upper_excl P) (nedges P) /\ aux o <= used o /\
  exists tail,
    map status_of (firstn (used o - aux o) (skipn (aux o) sts)) = repeat Infeasible (k - lbk o) ++ tail /\
    (tail = [Optimal] \/ tail = []).
Proof.
  unfold mfd_scan_solve.
  destruct (lb_phase false ex (use_mgs P) (lb0 P) (nweights P) sts) as [lb1 n1|n|n] eqn:El; cbn [so_res]; try discriminate.
  destruct (scan false ex ws (skipn n1 sts) 0 0) as [b n2|n2|n2] eqn:Es; cbn [so_res]; try discriminate.
  set (lb2 := Nat.max lb1 b). set (N := n1 + n2).
  rewrite (resolve_is_fresh_run false false). intros H. cbn zeta. cbn [lbk aux used].
  split.
  { exists lb1, b. split; [reflexivity|]. split.
    - apply lb_phase_justified in El. destruct El as [->|(Hu & kg & -> & Hk & Hs)]; [left; reflexivity|right].
      split; [exact Hu|]. exists kg, n1. repeat split; auto.
    - apply scan_bound_certified in Es. destruct Es as [->|Hw]; [left; reflexivity|right; exact Hw]. }
  pose proof (fd_sound_main false false _ _ k H) as (H1 & H2 & _ & tail & H4 & H5). cbn zeta in *.
  rewrite (failed_run_leaves_no_trace false false) in H1, H4. unfold lb_phase in H1, H4. cbn [use_mgs lb0 upper_excl nedges] in H1, H4.
  split; [exact H1|]. split; [lia|]. exists tail. split.
  - rewrite skipn_add in H4. replace (N + used _ - (N + aux _)) with (used (fd_solve false false
      (mkfd lb2 (upper_excl (scan_view P)) (nedges (scan_view P)) false (nweights (scan_view P)) (guessed (scan_view P))
            (gw_paths (scan_view P)) (greedy (scan_view P)) (over (scan_view P))) (skipn N sts)) -
      aux (fd_solve false false
      (mkfd lb2 (upper_excl (scan_view P)) (nedges (scan_view P)) false (nweights (scan_view P)) (guessed (scan_view P))
            (gw_paths (scan_view P)) (greedy (scan_view P)) (over (scan_view P))) (skipn N sts))) by (unfold scan_view; cbn; lia).
    exact H4.
  - destruct H5 as [H5|(H5 & _)]; [left|right]; exact H5.
Qed.

(* --- MinFlowDecomp *)
Definition mfd_view (P : fd_params) : fd_params :=
  mkfd (lb0 P) (upper_excl P) (nedges P) (use_mgs P) (nweights P) (guessed P) (gw_paths P) (greedy P) never.
Definition mfdc_view (P : fd_params) : fd_params :=
  mkfd (lb0 P) (upper_excl P) (nedges P) (use_mgs P) (nweights P) (guessed P) (gw_paths P) never (over P).

Theorem mfd_main_inconclusive sk ex P sts p :
  inconclusive_at sts p -> aux (mfd_solve sk ex P sts) <= p < used (mfd_solve sk ex P sts) ->
  so_res (mfd_solve sk ex P sts) = NotSolved.
Proof. exact (fd_main_inconclusive sk ex (mfd_view P) sts p). Qed.

Theorem mfd_search_sound ex P sts k :
  so_res (mfd_solve false ex P sts) = Solved k ->
  let o := mfd_solve false ex P sts in
  (* the lower bound is lb0 or a MinGenSet optimum certified by its own status sequence *)
  (lbk o = lb0 P \/
   (use_mgs P = true /\ exists kg m, lbk o = Nat.max (lb0 P) kg /\ lb0 P <= kg /\ m <= aux o /\
      map status_of (firstn m sts) = repeat Infeasible (kg - lb0 P) ++ [Optimal])) /\
  lbk o <= k < upper (upper_excl P) (nedges P) /\ aux o <= used o /\
  exists tail,
    map status_of (firstn (used o - aux o) (skipn (aux o) sts)) = repeat Infeasible (k - lbk o) ++ tail /\
    (tail = [Optimal] \/
     (tail = [] /\ (greedy P k = true \/
                    (guessed P = true /\ gw_paths P = k /\
                     exists x, nth_error sts (aux o - 1) = Some x /\ status_of x = Optimal)))).
Proof.
  intros H. split; [exact (fd_lb_justified ex (mfd_view P) sts)|].
  pose proof (fd_sound_main false ex (mfd_view P) sts k H) as (H1 & H2 & _ & H4).
  split; [exact H1|]. split; [exact H2|exact H4].
Qed.

(* the code as it stands: a time limit inside the MinGenSet lower bound is skipped, the main loop
   then starts above a k that was never shown infeasible and "solves" *)
Theorem mfd_refuted_skipped_lowerbound :
  exists P sts p k,
    inconclusive_at sts p /\ p < aux (mfd_solve true true P sts) /\
    so_res (mfd_solve true true P sts) = Solved k /\ lb0 P + p < lbk (mfd_solve true true P sts).
Proof.
  exists (mkfd 1 true 4 true 3 false 0 never never),
         [mkraw TimeLimit false; mkraw Optimal false; mkraw Optimal false], 0, 2.
  split; [exists (mkraw TimeLimit false); split; reflexivity|]. vm_compute. repeat split; lia.
Qed.

(* exit(0): with the MinGenSet model unsolved the process is left (with either MinGenSet variant) *)
Theorem mfd_refuted_exit : forall sk,
  exists P sts p, inconclusive_at sts p /\ so_res (mfd_solve sk true P sts) = Exited.
Proof.
  intros sk. exists (mkfd 1 true 4 true 0 false 0 never never), [mkraw TimeLimit false; mkraw TimeLimit false], 0.
  split; [exists (mkraw TimeLimit false); split; reflexivity|]. destruct sk; reflexivity.
Qed.

Theorem mfd_never_exits sk P sts : so_res (mfd_solve sk false P sts) <> Exited.
Proof. exact (fd_never_exits sk (mfd_view P) sts). Qed.

(* --- MinFlowDecompCycles *)
Theorem mfdc_main_inconclusive sk P sts p :
  inconclusive_at sts p -> aux (mfdc_solve sk P sts) <= p < used (mfdc_solve sk P sts) ->
  so_res (mfdc_solve sk P sts) = NotSolved.
Proof. exact (fd_main_inconclusive sk false (mfdc_view P) sts p). Qed.

Theorem mfdc_search_sound P sts k :
  so_res (mfdc_solve false P sts) = Solved k ->
  let o := mfdc_solve false P sts in
  (lbk o = lb0 P \/
   (use_mgs P = true /\ exists kg m, lbk o = Nat.max (lb0 P) kg /\ lb0 P <= kg /\ m <= aux o /\
      map status_of (firstn m sts) = repeat Infeasible (kg - lb0 P) ++ [Optimal])) /\
  lbk o <= k < upper (upper_excl P) (nedges P) /\ aux o <= used o /\
  over P (used o) = false /\                                   (* elapsed-time exit did not fire *)
  exists tail,
    map status_of (firstn (used o - aux o) (skipn (aux o) sts)) = repeat Infeasible (k - lbk o) ++ tail /\
    (tail = [Optimal] \/
     (tail = [] /\ guessed P = true /\ gw_paths P = k /\
      exists x, nth_error sts (aux o - 1) = Some x /\ status_of x = Optimal)).
Proof.
  intros H. split; [exact (fd_lb_justified false (mfdc_view P) sts)|].
  pose proof (fd_sound_main false false (mfdc_view P) sts k H) as (H1 & H2 & H3 & tail & H4 & H5).
  split; [exact H1|]. split; [exact H2|]. split; [exact H3|]. exists tail. split; [exact H4|].
  destruct H5 as [H5|(H5 & [H6|H6])]; [left; exact H5|discriminate|right; split; [exact H5|exact H6]].
Qed.

Theorem mfdc_refuted_skipped_lowerbound :
  exists P sts p k,
    inconclusive_at sts p /\ p < aux (mfdc_solve true P sts) /\
    so_res (mfdc_solve true P sts) = Solved k /\ lb0 P + p < lbk (mfdc_solve true P sts).
Proof.
  exists (mkfd 1 true 4 true 3 false 0 never never),
         [mkraw TimeLimit false; mkraw Optimal false; mkraw Optimal false], 0, 2.
  split; [exists (mkraw TimeLimit false); split; reflexivity|]. vm_compute. repeat split; lia.
Qed.

Theorem mfdc_never_exits sk P sts : so_res (mfdc_solve sk P sts) <> Exited.
Proof. exact (fd_never_exits sk (mfdc_view P) sts). Qed.

(* ------------------------------------------------------------------ NumPathsOptimization *)
Lemma npo_loop_sound P ks : forall sts prev n k m,
  npo_loop P ks sts prev n = (Solved k, m) ->
  In k ks /\ n <= m /\
  (npo_ext P k = true \/ (n < m /\ exists x, nth_error sts (m - n - 1) = Some x /\ status_of x = Optimal)).
Proof.
  induction ks as [|a ks IH]; intros sts prev n k m H; simpl in H; [discriminate|].
  destruct (npo_ext P a) eqn:Ea.
  - destruct (npo_check P prev (npo_obj P a)) as [| |prev'].
    + injection H as <- <-. split; [left; reflexivity|]. split; [lia|left; exact Ea].
    + discriminate.
    + destruct (npo_over P n); [discriminate|]. apply IH in H. destruct H as (Hi & Hm & Hx).
      split; [right; exact Hi|]. split; [exact Hm|exact Hx].
  - destruct sts as [|y sts]; [discriminate|].
    assert (Hrec : forall pv, npo_loop P ks sts pv (S n) = (Solved k, m) ->
      In k (a :: ks) /\ n <= m /\
      (npo_ext P k = true \/ (n < m /\ exists x, nth_error (y :: sts) (m - n - 1) = Some x /\ status_of x = Optimal))).
    { intros pv H'. apply IH in H'. destruct H' as (Hi & Hm & Hx). split; [right; exact Hi|]. split; [lia|].
      destruct Hx as [Hx|(Hlt & x & Hx & Ho)]; [left; exact Hx|right]. split; [lia|]. exists x. split; [|exact Ho].
      replace (m - n - 1) with (S (m - S n - 1)) by lia. exact Hx. }
    destruct (is_optimal (status_of y)) eqn:Ey.
    + destruct (npo_check P prev (npo_obj P a)) as [| |prev'].
      * injection H as <- <-. split; [left; reflexivity|]. split; [lia|right]. split; [lia|].
        exists y. replace (S n - n - 1) with 0 by lia. split; [reflexivity|].
        destruct (status_of y); simpl in Ey; congruence.
      * discriminate.
      * destruct (npo_over P (S n)); [discriminate|]. apply (Hrec _ H).
    + destruct (npo_over P (S n)); [discriminate|]. apply (Hrec _ H).
Qed.

(* the returned model is the one for k, k is in range, and it was itself solved: by the last
   solver call, which ended optimal, or by its constructor *)
Theorem npo_sound P sts k :
  so_res (npo_solve P sts) = Solved k ->
  kstart P <= k <= kmax P /\
  (npo_ext P k = true \/
   (0 < used (npo_solve P sts) /\
    exists x, nth_error sts (used (npo_solve P sts) - 1) = Some x /\ status_of x = Optimal)).
Proof.
  unfold npo_solve. destruct (npo_loop P (krange (kstart P) (kmax P + 1)) sts None 0) as [r m] eqn:E. simpl.
  intros ->. apply npo_loop_sound in E. destruct E as (Hi & _ & Hx).
  unfold krange in Hi. apply in_seq in Hi. split; [lia|].
  destruct Hx as [Hx|(Hm & x & Hx & Ho)]; [left; exact Hx|right]. split; [exact Hm|].
  exists x. rewrite Nat.sub_0_r in Hx. auto.
Qed.

(* ------------------------------------------------------------------ C03/C04/C09: exact solver => minimum
   (ported from the prototype; not part of C13 proper) *)
Theorem search_min (feasible : nat -> bool) lb ub kopt sts :
  (forall i, i < ub - lb -> exists x, nth_error sts i = Some x /\
             status_of x = if feasible (lb + i) then Optimal else Infeasible) ->
  feasible kopt = true -> (forall k, k < kopt -> feasible k = false) -> lb <= kopt < ub ->
  so_res (mpc_solve true lb ub sts) = Solved kopt.
Proof.
  intros Ho Hf Hmin Hb. unfold mpc_solve, krange, upper.
  assert (G : forall len l s n, l + len = ub -> l <= kopt ->
              (forall i, i < len -> exists x, nth_error s i = Some x /\
                 status_of x = if feasible (l + i) then Optimal else Infeasible) ->
              fst (kloop never never (seq l len) s n) = Solved kopt).
  { induction len as [|len IH]; intros l s n Hl Hle Hs; [lia|].
    simpl. destruct (Hs 0 ltac:(lia)) as (x & Hx & Hst). destruct s as [|y s]; [discriminate|].
    simpl in Hx. injection Hx as ->. rewrite Hst, Nat.add_0_r.
    destruct (Nat.eq_dec l kopt) as [->|Hne].
    - rewrite Hf. reflexivity.
    - rewrite (Hmin l) by lia. apply IH; [lia|lia|].
      intros i Hi. destruct (Hs (S i) ltac:(lia)) as (z & Hz & Hzs). exists z. split; [exact Hz|].
      rewrite Hzs. replace (l + S i) with (S l + i) by lia. reflexivity. }
  specialize (G (ub - lb) lb sts 0 ltac:(lia) ltac:(lia) Ho).
  destruct (kloop never never (seq lb (ub - lb)) sts 0). exact G.
Qed.
