(* C18 — a model's result depends only on its own arguments; caller data is never mutated.

   Caller heap: the argument objects a caller shares between model constructions (graph, optimization_options,
   solver_options, constraint list, ignore list, additional starts/ends) and the mutable default-argument objects
   of every class.  Per class an EFFECT SUMMARY written from the constructor / solve() of /repo/flowpaths:
   how each parameter is held (alias / copy / deep copy) and which keys are written into the held dict.
   The summaries are hand-written (thin tie); harness/engines/c18.py replays histories on the implementation
   and compares deep snapshots with this heap.  Nothing is proved here (see EffectsProofs.v). *)
From Coq Require Import List Bool Arith.
Import ListNotations.
From FP Require Import Validate.

(* keys of optimization_options that constructors write (values abstracted) *)
Inductive key := KTrusted | KAllowEmpty | KSafePaths | KSafeSeq | KSafeZero | KSubAsSafe | KSafetyAsSub | KUser (n : nat).
Definition key_eqb (a b : key) : bool :=
  match a, b with
  | KTrusted, KTrusted | KAllowEmpty, KAllowEmpty | KSafePaths, KSafePaths | KSafeSeq, KSafeSeq | KSafeZero, KSafeZero
  | KSubAsSafe, KSubAsSafe | KSafetyAsSub, KSafetyAsSub => true
  | KUser n, KUser m => Nat.eqb n m
  | _, _ => false
  end.
Definition dict := list key.                      (* keys present, in insertion order *)
Definition has_key (k : key) (d : dict) := existsb (key_eqb k) d.
Definition set_key (d : dict) (k : key) : dict := if has_key k d then d else d ++ [k].
Definition set_keys (d : dict) (ks : list key) : dict := fold_left set_key ks d.

(* the shared caller objects; lists are abstracted by their contents as nat codes *)
Record heap := {
  h_graph : list nat;            (* attribute writes / structural edits, as an event log: [] = untouched *)
  h_opts : dict;                 (* optimization_options: the keys *)
  h_has_ext : bool;              (* the dict holds a caller-owned LIST value: optimization_options["external_safe_paths"] *)
  h_ext : list nat;              (* that list, as a log of extensions: [] = untouched *)
  h_sopts : list nat;            (* solver_options *)
  h_cons : list nat;             (* subpath / subset constraints *)
  h_ign : list nat;              (* elements_to_ignore *)
  h_starts : list nat; h_ends : list nat;
  h_sup : list nat;              (* solution_weights_superset: every class copies nothing and only reads it (indexing, len, max) *)
  h_defaults : list nat;         (* the mutable default-argument objects ([] / {}) of all classes, as an event log *)
}.

(* how a class holds the caller's optimization_options *)
Inductive hold := Copy            (* .copy() / deepcopy / not taken at all *)
                | AliasReadOnly   (* kept, only read *)
                | AliasIfNonEmpty (* `optimization_options or {}`: a non-empty dict is aliased, and written *)
                | AliasForward.   (* kept and handed on to a k-model in solve() that does AliasIfNonEmpty *)
(* the CURRENT code (/repo at 5ed9792 and later): every class that writes into its options works on a copy *)
Definition opts_hold (c : cls) : hold :=
  match c with
  | CkFlowDecomp | CkPathCover | CkPathCoverCycles => Copy               (* kflowdecomp.py:194, kpathcover.py:151, kpathcovercycles.py:133 *)
  | CkLeastAbsErrors | CkMinPathError => Copy                            (* `dict(optimization_options) if optimization_options else {}` *)
  | CkFlowDecompCycles | CkLeastAbsErrorsCycles | CkMinPathErrorCycles => Copy
  | CMinFlowDecomp | CMinPathCover | CMinPathCoverCycles | CMinFlowDecompCycles => AliasReadOnly   (* forwarded to k-models that copy *)
  | CstDAG | CstDiGraph | CNodeExpandedDiGraph | CMinErrorFlow => Copy    (* no such parameter *)
  end.
(* OLD BEHAVIOUR (/repo at a068bcc, DESIGN §6 #16): `optimization_options or {}` *)
Definition old_opts_hold (c : cls) : hold :=
  match c with
  | CkLeastAbsErrors | CkMinPathError => AliasIfNonEmpty                 (* kleastabserrors.py:204, kminpatherror.py:233 *)
  | CkFlowDecompCycles | CkLeastAbsErrorsCycles | CkMinPathErrorCycles => AliasIfNonEmpty
  | CMinFlowDecompCycles => AliasForward                                  (* minflowdecompcycles.py:231 -> kflowdecompcycles.py:145 *)
  | c' => opts_hold c'
  end.
(* keys written into the held dict by the constructor; [sup] = solution_weights_superset given, [hc] = constraints given *)
Definition ctor_writes (c : cls) (sup hc : bool) : list key :=
  match c with
  | CkLeastAbsErrors =>
    (if sup then [KAllowEmpty; KSafePaths; KSafeSeq; KSafeZero] ++ (if hc then [KSubAsSafe; KSafetyAsSub] else []) else []) ++ [KTrusted]
  | CkMinPathError =>
    (if sup then [KAllowEmpty; KSafePaths; KSafeSeq; KSafeZero; KSubAsSafe; KSafetyAsSub] else []) ++ [KTrusted]
  | CkFlowDecompCycles | CkLeastAbsErrorsCycles | CkMinPathErrorCycles => [KTrusted]
  | _ => []
  end.
Definition solve_writes (c : cls) : list key :=
  match c with CMinFlowDecompCycles => [KTrusted] | _ => [] end.

(* one operation of a caller's history: construct a model of class c (passing the shared optimization_options or
   omitting it) and solve it *)
Record op := { o_cls : cls; o_pass_opts : bool; o_sup : bool; o_hc : bool; o_solve : bool }.

Definition with_opts (h : heap) (d : dict) : heap :=
  {| h_graph := h_graph h; h_opts := d; h_has_ext := h_has_ext h; h_ext := h_ext h; h_sopts := h_sopts h; h_cons := h_cons h;
     h_ign := h_ign h; h_starts := h_starts h; h_ends := h_ends h; h_sup := h_sup h; h_defaults := h_defaults h |}.
Definition with_ext (h : heap) (l : list nat) : heap :=
  {| h_graph := h_graph h; h_opts := h_opts h; h_has_ext := h_has_ext h; h_ext := l; h_sopts := h_sopts h; h_cons := h_cons h;
     h_ign := h_ign h; h_starts := h_starts h; h_ends := h_ends h; h_sup := h_sup h; h_defaults := h_defaults h |}.

(* option VALUES that are lists.  AbstractPathModelDAG.__init__ (abstractpathmodeldag.py:241-267):
       self.safe_lists = self.external_safe_paths                      <- the caller's list, not a copy (5ed9792 copies the dict shallowly)
       if optimize_with_subpath_constraints_as_safe_sequences (default True) and len(self.subpath_constraints) > 0 and not solved
          and coverage == 1:   self.safe_lists += safe_sequences(...)  <- extends the caller's list
   [ext_alias c] = class c reaches that code with the caller's list; [ext_in_solve c] = only in solve() (through the k-models it builds).
   kFlowDecomp (and MinFlowDecomp through it) overwrites the key in its own copy of the dict for a conserving flow. *)
Definition old_ext_alias (c : cls) : bool :=
  match c with CkLeastAbsErrors | CkMinPathError | CkPathCover | CMinPathCover => true | _ => false end.
Definition ext_in_solve (c : cls) : bool := match c with CMinPathCover => true | _ => false end.
(* the repaired code: self.safe_lists = list(self.external_safe_paths) *)
Definition ext_alias (c : cls) : bool := false.
Definition is_empty (d : dict) := match d with [] => true | _ => false end.

(* the heap after the operation.  Every other parameter is deep-copied, copied or only read by every class
   (constraints: copy.deepcopy in the abstract base classes; ignore lists / starts / ends: read into sets;
   solver_options: read, deep-copied before a time limit is adjusted; graph: copied into the st-graph / deep-copied by
   NodeExpandedDiGraph and the cover classes; mutable defaults: never written) *)
Definition ext_step (alias_of : cls -> bool) (h : heap) (o : op) : heap :=
  if o_pass_opts o && h_has_ext h && alias_of (o_cls o) && o_hc o && (negb (ext_in_solve (o_cls o)) || o_solve o)
  then with_ext h (h_ext h ++ [1]) else h.
Definition opts_step (hold_of : cls -> hold) (h : heap) (o : op) : heap :=
  if negb (o_pass_opts o) || is_empty (h_opts h) then h
  else match hold_of (o_cls o) with
       | AliasIfNonEmpty => with_opts h (set_keys (h_opts h) (ctor_writes (o_cls o) (o_sup o) (o_hc o)))
       | AliasForward => if o_solve o then with_opts h (set_keys (h_opts h) (solve_writes (o_cls o))) else h
       | _ => h
       end.
Definition step_gen2 (hold_of : cls -> hold) (alias_of : cls -> bool) (h : heap) (o : op) : heap :=
  ext_step alias_of (opts_step hold_of h o) o.
Definition step_gen (hold_of : cls -> hold) := step_gen2 hold_of ext_alias.
Definition step := step_gen opts_hold.                 (* the current code *)
Definition old_step := step_gen old_opts_hold.         (* the code before 5ed9792 *)
Definition run_gen (hold_of : cls -> hold) (ops : list op) (h : heap) : heap := fold_left (step_gen hold_of) ops h.
(* the code at 003f186, before the list is copied: current dict handling, aliased list value *)
Definition head_step := step_gen2 opts_hold old_ext_alias.
Definition head_run (ops : list op) (h : heap) : heap := fold_left head_step ops h.
(* one switch for the driver: [sw] = the list-aliasing finding is still open *)
Definition run_sw (sw : bool) (ops : list op) (h : heap) : heap := if sw then head_run ops h else fold_left (step_gen opts_hold) ops h.
Definition run := run_gen opts_hold.
Definition old_run := run_gen old_opts_hold.

(* ---------------------------------------------------------------- refused constructions (ValueError)
   A constructor is a list of effects on the caller's heap in program order; a construction that is refused stops after
   the first n of them.  Two kinds of effect exist in the summaries: writing keys into the held options dict, and
   tagging / untagging the caller's graph with a temporary attribute while a node expansion is built from it.
   The CURRENT code tags a private deep copy ([no_tag]); [inplace_tag] is the explicitly named summary of a kPathCover
   that tags the caller's own graph and removes the tags afterwards: invisible after every completed construction,
   left behind by a refused one (this is why every refused step of a history is followed by the snapshot comparison). *)
Definition with_graph (h : heap) (g : list nat) : heap :=
  {| h_graph := g; h_opts := h_opts h; h_has_ext := h_has_ext h; h_ext := h_ext h; h_sopts := h_sopts h; h_cons := h_cons h;
     h_ign := h_ign h; h_starts := h_starts h; h_ends := h_ends h; h_sup := h_sup h; h_defaults := h_defaults h |}.
Inductive eff := EKeys (ks : list key) | ETag (t : nat) | EUntag (t : nat).
Definition apply_eff (h : heap) (e : eff) : heap :=
  match e with
  | EKeys ks => with_opts h (set_keys (h_opts h) ks)
  | ETag t => with_graph h (h_graph h ++ [t])
  | EUntag t => with_graph h (filter (fun x => negb (Nat.eqb x t)) (h_graph h))
  end.
Definition no_tag (c : cls) : bool := false.
Definition inplace_tag (c : cls) : bool := match c with CkPathCover => true | _ => false end.
Definition ctor_effs (hold_of : cls -> hold) (tag : cls -> bool) (h : heap) (o : op) : list eff :=
  (if tag (o_cls o) then [ETag 1; EUntag 1] else []) ++           (* around the construction of the node expansion, which validates the graph *)
  (if negb (o_pass_opts o) || is_empty (h_opts h) then []
   else match hold_of (o_cls o) with
        | AliasIfNonEmpty => [EKeys (ctor_writes (o_cls o) (o_sup o) (o_hc o))]
        | _ => []
        end).
Definition run_effs (es : list eff) (h : heap) : heap := fold_left apply_eff es h.
Definition refused_gen (hold_of : cls -> hold) (tag : cls -> bool) (h : heap) (o : op) (n : nat) : heap :=
  run_effs (firstn n (ctor_effs hold_of tag h o)) h.
Definition completed_gen (hold_of : cls -> hold) (tag : cls -> bool) (h : heap) (o : op) : heap :=
  run_effs (ctor_effs hold_of tag h o) h.
Definition refused_step := refused_gen opts_hold no_tag.          (* the current code *)
(* histories whose steps are completed or refused constructions *)
Inductive event := Built (o : op) | Refused (o : op) (n : nat).
Definition ev_step (h : heap) (e : event) : heap := match e with Built o => step h o | Refused o n => refused_step h o n end.
Definition ev_run (evs : list event) (h : heap) : heap := fold_left ev_step evs h.
Definition ev_step_sw (sw : bool) (h : heap) (e : event) : heap :=
  match e with Built o => run_sw sw [o] h | Refused o n => refused_step h o n end.

(* what the constructed model sees: the option keys present at construction time (user keys only: the keys a
   constructor writes itself are overwritten by it), together with the other argument values *)
Definition written_by_ctors (k : key) : bool := match k with KUser _ => false | KTrusted => false | _ => true end.
Record view := { v_opts : dict; v_ext : list nat; v_graph : list nat; v_sopts : list nat; v_cons : list nat; v_ign : list nat;
                 v_starts : list nat; v_ends : list nat; v_sup : list nat }.
Definition view_of (h : heap) (o : op) : view :=
  {| v_opts := if o_pass_opts o then h_opts h else []; v_ext := if o_pass_opts o && h_has_ext h then h_ext h else []; v_graph := h_graph h; v_sopts := h_sopts h; v_cons := h_cons h;
     v_ign := h_ign h; v_starts := h_starts h; v_ends := h_ends h; v_sup := if o_sup o then h_sup h else [] |}.
(* a model's result is a function of the class and of what it saw (the solver is deterministic, §4) *)
Definition model_of (h : heap) (o : op) : cls * view := (o_cls o, view_of h o).

(* operations that leave the heap alone by construction of the summary *)
Definition quiet_gen (hold_of : cls -> hold) (h : heap) (o : op) : bool :=
  negb (o_pass_opts o) || is_empty (h_opts h) ||
  match hold_of (o_cls o) with AliasIfNonEmpty => false | AliasForward => negb (o_solve o) | _ => true end.

(* getters: get_solution caches, get_objective_value / is_solved read *)
Record mstate := { ms_solved : bool; ms_cached : option nat; ms_value : nat }.
Definition get_solution (m : mstate) : mstate * option nat :=
  match ms_cached m with
  | Some s => (m, Some s)
  | None => if ms_solved m then ({| ms_solved := true; ms_cached := Some (ms_value m); ms_value := ms_value m |}, Some (ms_value m))
            else (m, None)                       (* check_is_solved raises *)
  end.

(* the other exported classes that take part in the histories: NumPathsOptimization forwards its keyword arguments
   (optimization_options among them) to the k-model class it wraps, built in solve(); MinGenSet and MinSetCover have no
   optimization_options parameter at all (numbers / universe / subsets lists are copied or only read) *)
Inductive participant := PModel (c : cls) | PNumPaths (inner : cls) | PMinGenSet | PMinSetCover.
Definition op_of (p : participant) (pass sup hc solve : bool) : op :=
  match p with
  | PModel c => {| o_cls := c; o_pass_opts := pass; o_sup := sup; o_hc := hc; o_solve := solve |}
  | PNumPaths c => {| o_cls := c; o_pass_opts := pass && solve; o_sup := false; o_hc := hc; o_solve := solve |}
  | PMinGenSet | PMinSetCover => {| o_cls := CMinErrorFlow; o_pass_opts := false; o_sup := false; o_hc := false; o_solve := solve |}
  end.
