(* The selection of the sequences that are fixed into the solution slots of the cyclic classes (stDiGraph.get_longest_incompatible_sequences,
   called by AbstractWalkModelDiGraph._get_walks_to_fix_from_safe_lists): every safe sequence is attached to the arcs of the expanded
   condensation its arcs lie over; per member the attached sequences are sorted by length (longest first, stable) and truncated to the
   number of arcs between the two components (to ONE for the arc of a component); the sequences of the members of the antichain that the
   maximum-weight-antichain oracle returns are output in that order.  Proved: for dominator sequences of pairwise different core arcs and
   an oracle answer that is an antichain of the expanded condensation, any two sequences at different positions of the output are
   incompatible -- across members by the projection argument, inside a member because an arc with a parallel arc dominates nothing, so the
   arc of a kept sequence over that member is its own core arc. *)
From Coq Require Import List Bool Arith NArith ZArith QArith Lia.
Import ListNotations.
From FP Require Import Lin PathEnc Euler EulerProofs1 SafetyReach Dilworth SlotSafety.
From FP Require Safety DomSpec DomAlg WalkWidth MinFlowCut.
Set Default Timeout 60.
Local Close Scope Q_scope.
Local Open Scope nat_scope.

(* stable sort, largest key first *)
Section Sort.
  Variable key : nat -> nat.
  Fixpoint insert_desc (x : nat) (l : list nat) : list nat :=
    match l with [] => [x] | y :: r => if key x <? key y then y :: insert_desc x r else x :: y :: r end.
  Definition sort_desc (l : list nat) : list nat := fold_right insert_desc [] l.
  Lemma insert_desc_In x l z : In z (insert_desc x l) <-> z = x \/ In z l.
  Proof.
    induction l as [|y r IH]; cbn [insert_desc]; [cbn; intuition|]. destruct (key x <? key y); cbn [In]; [rewrite IH|]; intuition.
  Qed.
  Lemma sort_desc_In l z : In z (sort_desc l) <-> In z l.
  Proof. induction l as [|x r IH]; [reflexivity|]. cbn [sort_desc fold_right]. rewrite insert_desc_In. fold (sort_desc r). rewrite IH. cbn; intuition. Qed.
End Sort.

Fixpoint nodupb_nat (l : list nat) : bool :=
  match l with [] => true | x :: r => negb (existsb (Nat.eqb x) r) && nodupb_nat r end.
Lemma nodupb_nat_NoDup l : nodupb_nat l = true -> NoDup l.
Proof.
  induction l as [|x r IH]; intros H; [constructor|]. cbn [nodupb_nat] in H. apply andb_true_iff in H. destruct H as [H1 H2].
  constructor; [|apply IH; exact H2]. intros Hin. apply negb_true_iff in H1.
  assert (existsb (Nat.eqb x) r = true) by (apply existsb_exists; exists x; split; [exact Hin|apply Nat.eqb_refl]). congruence.
Qed.

Lemma firstn_In_incl {A} n (l : list A) x : In x (firstn n l) -> In x l.
Proof. intros H. rewrite <- (firstn_skipn n l). apply in_or_app. left. exact H. Qed.
Lemma two_in_list {A} (l : list A) i j : In i l -> In j l -> i <> j -> 2 <= length l.
Proof.
  intros Hi Hj Hne. destruct l as [|a [|b r]]; [destruct Hi| |cbn; lia]. destruct Hi as [<-|[]], Hj as [<-|[]]. contradiction.
Qed.

Section Select.
  Variable E : list PathEnc.edge.
  Variables s t : node.
  Variable cm : node -> N.
  Variable cn : list N.
  Variable cE : list (N * N).
  Variable seqs : list (list PathEnc.edge).            (* self.safe_lists *)

  Definition over (b : PathEnc.edge) : list PathEnc.edge := filter (fun e => edge_eqb (WalkWidth.hmap E cm e) b) E.
  (* sequence_function[b] before sorting: one entry per arc of a sequence that lies over b *)
  Definition attached (b : PathEnc.edge) : list nat :=
    flat_map (fun i => map (fun _ => i) (filter (fun e => edge_eqb (WalkWidth.hmap E cm e) b) (nth i seqs []))) (seq 0 (length seqs)).
  Definition seq_len (i : nat) : nat := length (nth i seqs []).
  (* to one sequence for the arc of a component (odd head), to the number of arcs between the components otherwise *)
  Definition kept_of (b : PathEnc.edge) : list nat :=
    let l := sort_desc seq_len (attached b) in if N.odd (snd b) then firstn 1 l else firstn (length (over b)) l.
  Definition selected (B : list PathEnc.edge) : list nat := flat_map kept_of B.
  (* None: the code raises ValueError ("CRITICAL BUG: Sequence ... is already in the incompatible sequences") *)
  Definition select (B : list PathEnc.edge) : option (list (list PathEnc.edge)) :=
    if nodupb_nat (selected B) then Some (map (fun i => nth i seqs []) (selected B)) else None.

  Lemma attached_spec b i : In i (attached b) -> i < length seqs /\ exists e, In e (nth i seqs []) /\ WalkWidth.hmap E cm e = b.
  Proof.
    unfold attached. intros H. apply in_flat_map in H. destruct H as (j & Hj & H). apply in_map_iff in H. destruct H as (e & <- & He).
    apply filter_In in He. destruct He as [He Q]. apply edge_eqb_eq in Q. apply in_seq in Hj. split; [lia|]. exists e. split; assumption.
  Qed.
  Lemma kept_of_attached b i : In i (kept_of b) -> In i (attached b).
  Proof.
    unfold kept_of. intros H. apply (sort_desc_In seq_len). destruct (N.odd (snd b)); revert H; apply firstn_In_incl.
  Qed.

  Hypothesis Hcm : forall u v, In u (nodes_of E) -> In v (nodes_of E) -> (cm u = cm v <-> conn E u v /\ conn E v u).
  Hypothesis HcE_fwd : forall u v, In (u, v) E -> cm u <> cm v -> In (cm u, cm v) cE.
  Hypothesis Hcn : forall e, In e E -> In (cm (fst e)) cn /\ In (cm (snd e)) cn.
  Hypothesis NDE : NoDup E.
  (* the safe sequences are the dominator sequences of pairwise different core arcs *)
  Variable cores : list PathEnc.edge.
  Hypothesis Hseqs : seqs = map (DomAlg.dom_sequence E s t) cores.
  Hypothesis NDc : NoDup cores.
  Hypothesis Hcin : incl cores E.
  Hypothesis Hreach : forall e, In e E -> (exists w, Safety.st_walk E s (fst e) w) /\ (exists w, Safety.st_walk E (snd e) t w).

  Lemma seq_nth i : i < length cores -> nth i seqs [] = DomAlg.dom_sequence E s t (nth i cores (0%N, 0%N)).
  Proof.
    intros Hi. rewrite Hseqs. rewrite (nth_indep _ [] (DomAlg.dom_sequence E s t (0%N, 0%N))) by (rewrite map_length; exact Hi).
    apply map_nth.
  Qed.
  Lemma same_member_same_components e e' : WalkWidth.hmap E cm e = WalkWidth.hmap E cm e' ->
    cm (fst e) = cm (fst e') /\ cm (snd e) = cm (snd e').
  Proof.
    intros H. destruct (WalkWidth.hmap_ends E cm e) as [A1 A2]. destruct (WalkWidth.hmap_ends E cm e') as [B1 B2]. rewrite H in A1, A2. split; congruence.
  Qed.

  (* in the dominator sequence of a core arc, an arc that has a parallel arc over the same member is the core arc itself *)
  Lemma parallel_arc_is_the_core c e e' : In c E -> In e (DomAlg.dom_sequence E s t c) -> In e' E -> e' <> e ->
    WalkWidth.hmap E cm e' = WalkWidth.hmap E cm e -> cm (fst e) <> cm (snd e) -> e = c.
  Proof.
    intros Hc He He' Hne Hh Hinter. destruct (Hreach c Hc) as [Hl Hr].
    destruct (DomAlg.dom_sequence_is_the_dominator_chain E s t c Hl Hr) as (bl & br & (_ & Hinl & _) & (_ & Hinr & _) & Eq).
    rewrite Eq in He. destruct (same_member_same_components e e' (eq_sym Hh)) as [E1 E2].
    apply in_app_or in He. destruct He as [He|[He|He]]; [exfalso| symmetry; exact He |exfalso].
    - pose proof (proj1 (Hinl e) He) as Hd. destruct Hl as (w & Hw). pose proof (proj2 Hw e (Hd w Hw)) as HeE.
      exact (parallel_arc_dominates_nothing E cm Hcm e e' s (fst c) HeE He' (fun X => Hne (eq_sym X)) E1 E2 Hinter (ex_intro _ w Hw) Hd).
    - pose proof (proj1 (Hinr e) He) as Hd. destruct Hr as (w & Hw). pose proof (proj2 Hw e (Hd w Hw)) as HeE.
      exact (parallel_arc_dominates_nothing E cm Hcm e e' (snd c) t HeE He' (fun X => Hne (eq_sym X)) E1 E2 Hinter (ex_intro _ w Hw) Hd).
  Qed.

  Variable B : list PathEnc.edge.                     (* the oracle's answer *)
  Hypothesis HB : condensation_antichain E cm cn cE B.

  Theorem selected_sequences_pairwise_incompatible out : select B = Some out ->
    forall p q, p < length out -> q < length out -> p <> q -> Safety.incompatible E s t (nth p out []) (nth q out []).
  Proof.
    unfold select. destruct (nodupb_nat (selected B)) eqn:ND; [|discriminate]. intros Eo. injection Eo as <-.
    apply nodupb_nat_NoDup in ND. intros p q Hp Hq Hpq. rewrite map_length in Hp, Hq.
    set (f := fun i => nth i seqs []). rewrite !(nth_indep (map f (selected B)) [] (f 0)) by (rewrite map_length; assumption).
    rewrite !map_nth. set (i := nth p (selected B) 0). set (j := nth q (selected B) 0).
    assert (Hij : i <> j) by (intros X; apply Hpq; apply (proj1 (NoDup_nth (selected B) 0) ND p q Hp Hq X)).
    assert (Hi : In i (selected B)) by (apply nth_In; exact Hp). assert (Hj : In j (selected B)) by (apply nth_In; exact Hq).
    unfold selected in Hi, Hj. apply in_flat_map in Hi, Hj. destruct Hi as (b & Hb & Hib). destruct Hj as (b' & Hb' & Hjb).
    destruct (attached_spec b i (kept_of_attached b i Hib)) as (Li & e & Hei & Hhe).
    destruct (attached_spec b' j (kept_of_attached b' j Hjb)) as (Lj & e' & Hej & Hhe').
    rewrite Hseqs, map_length in Li, Lj. unfold f.
    assert (HeE : forall k x, k < length cores -> In x (nth k seqs []) -> In x E).
    { intros k x Hk Hx. rewrite (seq_nth k Hk) in Hx. set (c := nth k cores (0%N, 0%N)) in *. assert (Hc : In c E) by (apply Hcin; apply nth_In; exact Hk).
      destruct (Hreach c Hc) as [Hl Hr]. destruct (DomAlg.dom_sequence_is_the_dominator_chain E s t c Hl Hr) as (bl & br & (_ & Hinl & _) & (_ & Hinr & _) & Eq).
      rewrite Eq in Hx. apply in_app_or in Hx. destruct Hx as [Hx|[<-|Hx]]; [|exact Hc|].
      - destruct Hl as (w & Hw). exact (proj2 Hw x (proj1 (Hinl x) Hx w Hw)).
      - destruct Hr as (w & Hw). exact (proj2 Hw x (proj1 (Hinr x) Hx w Hw)). }
    destruct (DomSpec.edge_dec b b') as [Ebb|Nbb].
    - (* the same member: it has at least two arcs, so both arcs are the cores *)
      rewrite <- Ebb in *. clear Ebb. assert (Hlen : 2 <= length (kept_of b)) by (exact (two_in_list _ i j Hib Hjb Hij)).
      unfold kept_of in Hlen. destruct (N.odd (snd b)) eqn:Odd; [pose proof (firstn_le_length 1 (sort_desc seq_len (attached b))); lia|].
      pose proof (firstn_le_length (length (over b)) (sort_desc seq_len (attached b))) as Hf.
      assert (Hover : exists x y, In x (over b) /\ In y (over b) /\ x <> y).
      { assert (NDo : NoDup (over b)) by (apply NoDup_filter; exact NDE). destruct (over b) as [|x [|y r]]; [cbn in *; lia|cbn in *; lia|].
        exists x, y. split; [left; reflexivity|]. split; [right; left; reflexivity|]. inversion NDo as [|? ? Hn _]; subst. intros ->. apply Hn. left. reflexivity. }
      destruct Hover as (x & y & Hx & Hy & Hxy). apply filter_In in Hx, Hy. destruct Hx as [HxE Qx], Hy as [HyE Qy]. apply edge_eqb_eq in Qx, Qy.
      assert (Hpar : forall a, WalkWidth.hmap E cm a = b -> exists a', In a' E /\ a' <> a /\ WalkWidth.hmap E cm a' = WalkWidth.hmap E cm a).
      { intros a Ha. destruct (DomSpec.edge_dec x a) as [->|Hxa]; [exists y; split; [exact HyE|split; [intros X; apply Hxy; symmetry; exact X|congruence]]|].
        exists x. split; [exact HxE|split; [exact Hxa|congruence]]. }
      assert (Hint : forall a, WalkWidth.hmap E cm a = b -> cm (fst a) <> cm (snd a)) by (intros a Ha; apply (WalkWidth.hmap_even_inter E cm); rewrite Ha; exact Odd).
      set (ci := nth i cores (0%N, 0%N)). set (cj := nth j cores (0%N, 0%N)).
      assert (Hci : In ci E) by (apply Hcin; apply nth_In; exact Li). assert (Hcj : In cj E) by (apply Hcin; apply nth_In; exact Lj).
      rewrite (seq_nth i Li) in Hei |- *. rewrite (seq_nth j Lj) in Hej |- *. fold ci in Hei |- *. fold cj in Hej |- *.
      destruct (Hpar e Hhe) as (a1 & Ha1 & Hn1 & Hh1). destruct (Hpar e' Hhe') as (a2 & Ha2 & Hn2 & Hh2).
      pose proof (parallel_arc_is_the_core ci e a1 Hci Hei Ha1 Hn1 Hh1 (Hint e Hhe)) as Eci.
      pose proof (parallel_arc_is_the_core cj e' a2 Hcj Hej Ha2 Hn2 Hh2 (Hint e' Hhe')) as Ecj.
      assert (Hcc : ci <> cj) by (intros X; apply Hij; apply (proj1 (NoDup_nth cores (0%N, 0%N)) NDc i j Li Lj X)).
      apply (sequences_over_a_condensation_antichain_are_incompatible E s t cm cn cE Hcm HcE_fwd Hcn B ci cj); try assumption.
      + unfold SlotSafety.hmap. rewrite <- Eci, Hhe. exact Hb.
      + unfold SlotSafety.hmap. rewrite <- Ecj, Hhe'. exact Hb.
      + unfold SlotSafety.hmap. right. split; [exact Hcc|]. split; [rewrite <- Eci, <- Ecj; congruence|]. rewrite <- Eci. exact (Hint e Hhe).
      + rewrite Eci in Hei. exact Hei.
      + rewrite Ecj in Hej. exact Hej.
    - apply (sequences_over_a_condensation_antichain_are_incompatible E s t cm cn cE Hcm HcE_fwd Hcn B e e'); try assumption.
      + exact (HeE i e Li Hei).
      + exact (HeE j e' Lj Hej).
      + unfold SlotSafety.hmap. rewrite Hhe. exact Hb.
      + unfold SlotSafety.hmap. rewrite Hhe'. exact Hb'.
      + unfold SlotSafety.hmap. left. congruence.
  Qed.

  (* every selected sequence is one of the input sequences, hence safe *)
  Theorem selected_sequences_are_safe X out : select B = Some out -> incl cores X ->
    forall q, In q out -> q <> [] -> Safety.safe_for_edges E s t X q.
  Proof.
    unfold select. destruct (nodupb_nat (selected B)); [|discriminate]. intros Eo HX q Hq Hne. injection Eo as <-.
    apply in_map_iff in Hq. destruct Hq as (i & <- & _). destruct (Nat.lt_ge_cases i (length cores)) as [Hi|Hi].
    - rewrite (seq_nth i Hi). set (c := nth i cores (0%N, 0%N)). assert (Hc : In c cores) by (apply nth_In; exact Hi).
      destruct (Hreach c (Hcin c Hc)) as [Hl Hr]. exact (DomAlg.dom_sequence_safe E s t X c (HX c Hc) Hl Hr).
    - exfalso. apply Hne. apply nth_overflow. rewrite Hseqs, map_length. exact Hi.
  Qed.
End Select.

(* the oracle's answer: arcs of the expanded condensation that are pairwise unordered by reachability in the s-t wrapper of the expanded
   condensation (what MinFlowCut proves of the set compute_max_edge_antichain extracts) form an antichain of the expanded condensation *)
Lemma unordered_in_wrapper_is_condensation_antichain E cm cn cE (H' B : list PathEnc.edge) :
  incl (WalkWidth.hedges E cm cn cE) H' -> (forall b1 b2, In b1 B -> In b2 B -> ~ conn H' (snd b1) (fst b2)) ->
  condensation_antichain E cm cn cE B.
Proof.
  intros Hsub HB b1 b2 p H1 H2 Hne Hp I1 I2.
  assert (Hp' : incl (EulerProofs1.pairs p) H') by (intros e He; apply Hsub; apply Hp; exact He).
  destruct (two_on_path H' p b1 b2 Hp' I1 I2) as [E0|[H|H]]; [contradiction|exact (HB b1 b2 H1 H2 H)|exact (HB b2 b1 H2 H1 H)].
Qed.

(* composed: the code's selection, with the oracle's answer passing the extracted premise check of MinFlowCut *)
Theorem selected_sequences_pairwise_incompatible_checked
    (E : list PathEnc.edge) (s t : node) (cm : node -> N) (cn : list N) (cE : list (N * N)) (cores : list PathEnc.edge)
    (VH : list node) (EH : list PathEnc.edge) (sH tH : node) (wl fl : list (PathEnc.edge * Q)) out :
  (forall u v, In u (nodes_of E) -> In v (nodes_of E) -> (cm u = cm v <-> conn E u v /\ conn E v u)) ->
  (forall u v, In (u, v) E -> cm u <> cm v -> In (cm u, cm v) cE) ->
  (forall e, In e E -> In (cm (fst e)) cn /\ In (cm (snd e)) cn) ->
  NoDup E -> NoDup cores -> incl cores E ->
  (forall e, In e E -> (exists w, Safety.st_walk E s (fst e) w) /\ (exists w, Safety.st_walk E (snd e) t w)) ->
  incl (WalkWidth.hedges E cm cn cE) EH -> MinFlowCut.mincut_premises VH EH sH tH wl fl = true ->
  select E cm (map (DomAlg.dom_sequence E s t) cores) (snd (MinFlowCut.mincut_model VH EH sH wl fl)) = Some out ->
  forall p q, p < length out -> q < length out -> p <> q -> Safety.incompatible E s t (nth p out []) (nth q out []).
Proof.
  intros Hcm HcE Hcn NDE NDc Hcin Hreach Hsub Hprem Hsel.
  destruct (MinFlowCut.mincut_checked VH EH sH tH wl fl Hprem) as ((_ & _ & Hanti) & _).
  apply (selected_sequences_pairwise_incompatible E s t cm cn cE (map (DomAlg.dom_sequence E s t) cores) Hcm HcE Hcn NDE cores eq_refl NDc Hcin Hreach
           (snd (MinFlowCut.mincut_model VH EH sH wl fl))); [|exact Hsel].
  apply (unordered_in_wrapper_is_condensation_antichain E cm cn cE EH); assumption.
Qed.

(* executable form for the correspondence tests: the component map as an association list *)
Definition select_model (E : list PathEnc.edge) (cmap : list (node * N)) (seqs : list (list PathEnc.edge)) (B : list PathEnc.edge)
  : option (list (list PathEnc.edge)) := select E (Reach.map_of cmap 0%N) seqs B.

(* non-vacuity.  The diamond 0 -> 1 -> {2,3} -> 4 -> 5 (every node its own component): the two dominator sequences of the arcs (1,2) and
   (1,3) both pass the arc (0,1), which is the only arc between its two components, so over that member only ONE of them is kept (the
   truncation); over the members of (1,2) and (1,3) both are selected.  The 2-cycle graph slE of SlotSafety: the parallel arcs (1,3) and
   (2,3) between the cycle and node 3 lie over ONE member of multiplicity 2, and both their sequences are kept *)
Definition idmap6 : list (node * N) := [(0, 0); (1, 1); (2, 2); (3, 3); (4, 4); (5, 5)]%N.
Example select_truncates :
  let sq := map (DomAlg.dom_sequence MinFlowCut.dmE 0%N 5%N) [(1, 2); (1, 3)]%N in
  select_model MinFlowCut.dmE idmap6 sq [WalkWidth.hmap MinFlowCut.dmE (Reach.map_of idmap6 0%N) (0, 1)%N] = Some [nth 0 sq []] /\
  select_model MinFlowCut.dmE idmap6 sq [WalkWidth.hmap MinFlowCut.dmE (Reach.map_of idmap6 0%N) (1, 2)%N;
                                         WalkWidth.hmap MinFlowCut.dmE (Reach.map_of idmap6 0%N) (1, 3)%N] = Some sq.
Proof. vm_compute. split; reflexivity. Qed.
Example select_keeps_parallel_arcs :
  let sq := map (DomAlg.dom_sequence slE 0%N 4%N) [(1, 3); (2, 3)]%N in
  select_model slE [(0, 0); (1, 1); (2, 1); (3, 2); (4, 3)]%N sq [WalkWidth.hmap slE (Reach.c_map slC) (1, 3)%N] =
  Some [[(0, 1); (1, 2); (2, 3); (3, 4)]; [(0, 1); (1, 3); (3, 4)]]%N.
Proof. vm_compute. reflexivity. Qed.

(* ---- for the audit example of Props/C06_slots.v: a cycle 1 <-> 2 with a by-pass, and deciding "not connected" with the verified closure ---- *)
From FP Require ReachProofs1.
Definition brV : list node := [0; 1; 2; 3; 4; 5]%N.
Definition brE : list PathEnc.edge := [(0, 1); (1, 2); (2, 1); (1, 3); (3, 5); (0, 4); (4, 5)]%N.
Definition brC : Reach.cond :=
  {| Reach.c_map := Reach.map_of [(0, 0); (1, 1); (2, 1); (3, 2); (4, 3); (5, 4)]%N 0%N;
     Reach.c_edges := [(0, 1); (1, 2); (2, 4); (0, 3); (3, 4)]%N; Reach.c_topo := [0; 1; 2; 3; 4]%N |}.
Lemma not_conn_by_closure (H : list PathEnc.edge) (u v : node) :
  In u (nodes_of H) -> Reach.memN v (Reach.closure (nodes_of H) (Reach.succs_of H) u) = false -> ~ conn H u v.
Proof.
  intros Hu Hm Hc. apply conn_reach in Hc.
  assert (Hin : In v (Reach.closure (nodes_of H) (Reach.succs_of H) u)).
  { apply ReachProofs1.closure_correct_N; [apply NoDup_nodup| |exact Hu|exact Hc].
    intros x z _ Hz. apply ReachProofs1.succs_of_In in Hz. exact (proj2 (nodes_of_in H (x, z) Hz)). }
  apply ReachProofs1.memN_In in Hin. congruence.
Qed.
