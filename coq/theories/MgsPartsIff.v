(* C15: with partition constraints the rows of _create_solver(k) admit EXACTLY the generating multisets that meet every
   constraint in the sense [part_ok_t (parts_t I)]: each element is put into exactly one part index below the length of the
   longest constraint and the sums of the parts the constraint has are as given.  (Soundness here; completeness is
   MgsComplete.mgs_enc_complete_rows.) *)
From Coq Require Import List NArith ZArith QArith Lqa Bool Lia Permutation.
Import ListNotations.
From FP Require Import Lin Blocks BlocksProofs PathEnc PathEncProofs MiscEnc MiscEncProofs MgsComplete.
Set Default Timeout 60.
Open Scope Q_scope.

Lemma sumq_ge_member_q {A} (g : A -> Q) l x : (forall z, In z l -> 0 <= g z) -> In x l -> g x <= sumq g l.
Proof.
  induction l as [|z l IH]; intros H Hx; [destruct Hx|]. cbn [sumq].
  assert (0 <= g z) by (apply H; left; reflexivity).
  assert (0 <= sumq g l) by (apply sumq_nonneg; intros w Hw; apply H; right; exact Hw).
  destruct Hx as [->|Hx]; [lra|]. assert (g x <= sumq g l) by (apply IH; [intros w Hw; apply H; right; exact Hw|exact Hx]). lra.
Qed.

(* binary values that sum to one: exactly one of them is one *)
Lemma bin_sum_one {A} (y : A -> Q) : forall l, NoDup l -> (forall x, In x l -> bin (y x)) -> sumq y l == 1 ->
  exists p, In p l /\ y p == 1 /\ forall x, In x l -> x <> p -> y x == 0.
Proof.
  induction l as [|z l IH]; intros Hn Hb Hs; [cbn in Hs; lra|].
  inversion Hn as [|? ? Hz Hn']; subst. cbn [sumq] in Hs.
  assert (Hl : forall x, In x l -> bin (y x)) by (intros x Hx; apply Hb; right; exact Hx).
  assert (Hnn : forall x, In x l -> 0 <= y x) by (intros x Hx; destruct (Hl x Hx) as [E|E]; rewrite E; lra).
  destruct (Hb z (or_introl eq_refl)) as [E|E].
  - assert (Hs' : sumq y l == 1) by lra. destruct (IH Hn' Hl Hs') as (p & Hp & H1 & H0). exists p. split; [right; exact Hp|]. split; [exact H1|].
    intros x [<-|Hx] Hne; [exact E|apply H0; assumption].
  - exists z. split; [left; reflexivity|]. split; [exact E|]. intros x [<-|Hx] Hne; [congruence|].
    assert (Hs' : sumq y l == 0) by lra. pose proof (sumq_ge_member_q y l x Hnn Hx). pose proof (Hnn x Hx). lra.
Qed.

Lemma choice_nat (P : nat -> nat -> Prop) : forall n, (forall i, (i < n)%nat -> exists p, P i p) ->
  exists ps, length ps = n /\ forall i, (i < n)%nat -> P i (nth i ps 0%nat).
Proof.
  induction n as [|n IH]; intros H; [exists []; split; [reflexivity|intros i Hi; lia]|].
  destruct IH as (ps & Hl & Hp); [intros i Hi; apply H; lia|]. destruct (H n ltac:(lia)) as (p & Hpn).
  exists (ps ++ [p]). split; [rewrite app_length; cbn; lia|]. intros i Hi. destruct (Nat.eq_dec i n) as [->|Hne].
  - rewrite app_nth2 by lia. rewrite Hl, Nat.sub_diag. exact Hpn.
  - rewrite app_nth1 by lia. apply Hp. lia.
Qed.

Lemma nth_map_seq {B} (F : nat -> B) d : forall k s n, (n < k)%nat -> nth n (map F (seq s k)) d = F (s + n)%nat.
Proof.
  induction k as [|k IH]; intros s n Hn; [lia|]. cbn [seq map]. destruct n as [|n]; cbn [nth]; [f_equal; lia|].
  rewrite IH by lia. f_equal. lia.
Qed.

Lemma layers_NoDup k : NoDup (layers k).
Proof. unfold layers. apply FinFun.Injective_map_NoDup; [intros x y H; apply Nnat.Nat2N.inj; exact H|apply seq_NoDup]. Qed.

Lemma zipn_nth_in {A} (l : list A) : forall s n x, nth_error l n = Some x -> In (N.of_nat (s + n), x) (zipn s l).
Proof.
  induction l as [|y l IH]; intros s n x H; [destruct n; discriminate|]. destruct n as [|n]; cbn in H.
  - injection H as ->. left. rewrite Nat.add_0_r. reflexivity.
  - right. replace (s + S n)%nat with (S s + n)%nat by lia. apply IH. exact H.
Qed.

(* what the partition block forces: for every constraint, every element in exactly one part index below parts_t, the sums of
   the constraint's parts as given *)
Theorem mgs_parts_sound (I : mgs_inst) (k : nat) (a : var -> Q) : (1 <= mg_mult I)%nat -> sat a (encode_mgs I k) ->
  Forall (part_ok_t (parts_t I) (map (fun i => a (Gen i)) (layers k))) (parts_of I).
Proof.
  intros Hm Hs. destruct (mgs_enc_sound_code I k a Hm Hs) as (_ & _ & _ & _ & HP).
  apply Forall_forall. intros cons Hc. destruct (zipn_of_in _ 0 _ Hc) as (c & Hzc). destruct (HP c cons Hzc) as [HA HB].
  set (t := parts_t I) in *.
  destruct (choice_nat (fun i p => (p < t)%nat /\ a (Yv (N.of_nat i) (N.of_nat p) c) == 1 /\
                                   forall j, (j < t)%nat -> j <> p -> a (Yv (N.of_nat i) (N.of_nat j) c) == 0) k) as (ps & Hl & Hps).
  { intros i Hi. assert (Hil : In (N.of_nat i) (layers k)) by (apply in_layers; exists i; split; [exact Hi|reflexivity]).
    destruct (HA _ Hil) as [Hb Hsum].
    destruct (bin_sum_one (fun j => a (Yv (N.of_nat i) j c)) (layers t) (layers_NoDup t) (fun j Hj => proj1 (Hb j Hj)) Hsum) as (p & Hp & H1 & H0).
    apply in_layers in Hp. destruct Hp as (pn & Hpn & ->). exists pn. split; [exact Hpn|]. split; [exact H1|].
    intros j Hj Hne. apply H0; [apply in_layers; exists j; split; [exact Hj|reflexivity]|]. intros E. apply Nnat.Nat2N.inj in E. congruence. }
  set (g := map (fun i => a (Gen i)) (layers k)).
  assert (Hg : length g = k) by (unfold g, layers; rewrite !map_length, seq_length; reflexivity).
  exists ps. split; [rewrite Hg; exact Hl|]. split.
  - apply Forall_forall. intros p Hp. destruct (In_nth ps p 0%nat Hp) as (i & Hi & <-). rewrite Hl in Hi. apply (Hps i Hi).
  - intros j v Hv. pose proof (zipn_nth_in cons 0 j v Hv) as Hjv. cbn [Nat.add] in Hjv. specialize (HB _ _ Hjv).
    assert (Hjt : (j < t)%nat).
    { assert (j < length cons)%nat by (apply nth_error_Some; congruence). pose proof (len_le_fold_max (parts_of I) cons Hc). unfold t, parts_t. lia. }
    rewrite <- HB. rewrite <- (sumq_seq_part ps g j) by (rewrite Hg; exact Hl). rewrite Hg.
    rewrite <- (sumq_layers (fun n => (if (nth n ps 0%nat =? j)%nat then 1 else 0) * nth n g 0) k).
    apply sumq_ext. intros i Hi. apply in_layers in Hi. destruct Hi as (n & Hn & ->). rewrite Nnat.Nat2N.id.
    assert (Hil : In (N.of_nat n) (layers k)) by (apply in_layers; exists n; split; [exact Hn|reflexivity]).
    destruct (HA _ Hil) as [Hb _]. destruct (Hb (N.of_nat j) ltac:(apply in_layers; exists j; split; [exact Hjt|reflexivity])) as [_ Hpi].
    rewrite Hpi. unfold g, layers. rewrite map_map, (nth_map_seq _ 0 k 0 n Hn). cbn [Nat.add].
    destruct (Hps n Hn) as (_ & H1 & H0). destruct (Nat.eqb_spec (nth n ps 0%nat) j) as [E|E].
    + rewrite <- E, H1. reflexivity.
    + rewrite (H0 j Hjt ltac:(congruence)). reflexivity.
Qed.

(* THE IFF with partition constraints: the model for k is satisfiable exactly when a generating multiset of size k exists that
   meets every partition constraint in the sense the rows use *)
Theorem mgs_feasible_iff_parts (I : mgs_inst) (k : nat) : (1 <= mg_mult I)%nat ->
  ((exists a, sat a (encode_mgs I k)) <-> exists g, length g = k /\ genset_rows I g).
Proof.
  intros Hm. split.
  - intros (a & Hs). destruct (mgs_sound_multiset I k a Hm Hs) as (Hl & Hg & Hi). cbn zeta in *.
    eexists. split; [exact Hl|]. split; [exact Hg|]. split; [exact Hi|]. apply mgs_parts_sound; assumption.
  - intros (g & Hl & Hg). eapply mgs_enc_complete_rows; eassumption.
Qed.

(* when every constraint has the length of the longest one (in particular: a single constraint) the rows' predicate is the
   natural one: every element in exactly one part OF THE CONSTRAINT *)
Lemma genset_rows_strict (I : mgs_inst) g : (forall cons, In cons (parts_of I) -> length cons = parts_t I) ->
  (genset_rows I g <-> genset_for I g).
Proof.
  intros Hlen. split; [|apply genset_for_rows]. intros (H1 & H2 & H3). split; [exact H1|]. split; [exact H2|].
  apply Forall_forall. intros cons Hc. rewrite Forall_forall in H3. unfold part_ok_strict. rewrite (Hlen cons Hc). apply H3. exact Hc.
Qed.

(* MinGenSet.solve returns the minimum also with partition constraints (solver specification) *)
Theorem mgs_returns_minimum_rows (I : mgs_inst) (status : nat -> mstatus) : (1 <= mg_mult I)%nat ->
  (forall k, status k = MgOptimal -> exists a, sat a (encode_mgs I k)) ->
  (forall k, status k = MgInfeasible -> forall a, ~ sat a (encode_mgs I k)) ->
  forall lb n extra tried k, mgsm_loop status lb n extra = (tried, Some k) ->
  (exists g, length g = k /\ genset_rows I g) /\ (Nat.max 1 lb <= k)%nat /\
  forall k' g, (Nat.max 1 lb <= k' < k)%nat -> length g = k' -> ~ genset_rows I g.
Proof.
  intros Hm Hopt Hinf lb n extra tried k H.
  destruct (mgsm_loop_sound (fun k => exists a, sat a (encode_mgs I k)) status Hopt
              (fun k Hk Hex => let '(ex_intro _ a Ha) := Hex in Hinf k Hk a Ha) lb n extra tried k H) as (Hf & _ & Hlb & Hmin).
  split; [apply (mgs_feasible_iff_parts I k Hm); exact Hf|]. split; [exact Hlb|].
  intros k' g Hk' Hl Hg. apply (Hmin k' Hk'). apply (mgs_feasible_iff_parts I k' Hm). exists g. split; assumption.
Qed.
