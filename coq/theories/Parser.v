(* C20 — executable model of flowpaths/utils/graphutils.py : read_graph / read_graphs.

   Characters are Unicode code points (N); a string is a list of code points; the input of the
   model is the list of lines that Python's `f.readlines()` returned (each line normally ends with
   "\n", the last one possibly not).  Everything below transcribes what the Python code does:

     str.lstrip()/strip()/split()      -> lstrip / strip / split_ws  (Python's str.isspace set)
     line.lstrip().startswith('#')     -> is_hdr
     the header loop of read_graph     -> scan   (header texts, '#S' lines, duplicate filtering)
     int(line.strip())                 -> parse_int   (three-valued, see below)
     float(w_str)                      -> parse_float (three-valued)
     G.add_edge(u, v, flow=w)          -> add_edge    (node / edge insertion order of networkx,
                                                       a repeated edge keeps its place and takes the new weight)
     `if n == 0:` validation (fc0735f)    -> zero_block
     constraint validation loop        -> forallb (forallb (has_edge es)) cstr
     stDiGraph(G) source / sink test   -> has_source / has_sink
     stDiGraph(G).get_width()          -> width : NOT a transcription (the code condenses the graph with networkx and
                                          solves a min-flow with network simplex); the model computes the value that
                                          computation is specified to return, the maximum number of pairwise
                                          incomparable items (edges between different strongly connected components,
                                          and components that contain an edge) by exhaustive search
     read_graphs block splitting       -> blocks_fuel (three `while` loops = three `span`s)

   Python exceptions are explicit [Error] values (all of them are ValueError in the code).
   Number tokens: the model decides the value only for the grammar [+-]?digits[.digits]? ;
   a token that Python would accept but that is outside this grammar (underscores, exponents,
   inf/nan, ".5", "5.", non-ASCII digits) makes the result [Unmodelled]; a token Python rejects
   is [IBad]/[FBad].  No proofs in this file. *)
From Coq Require Import List NArith ZArith Bool Arith.
Import ListNotations.
From FP Require Reach.      (* generic closure [Reach.clos] (C17); not imported, to keep its names apart *)
Open Scope N_scope.

Definition str := list N.

(* ---------------------------------------------------------------- characters *)
(* Python 3.12 str.isspace(): 9-13, 28-32, 0x85, 0xA0, 0x1680, 0x2000-0x200A, 0x2028, 0x2029, 0x202F, 0x205F, 0x3000 *)
Definition is_ws (c : N) : bool :=
  ((9 <=? c) && (c <=? 13)) || ((28 <=? c) && (c <=? 32)) || (c =? 133) || (c =? 160) || (c =? 5760)
  || ((8192 <=? c) && (c <=? 8202)) || (c =? 8232) || (c =? 8233) || (c =? 8239) || (c =? 8287) || (c =? 12288).
Definition is_digit (c : N) : bool := (48 <=? c) && (c <=? 57).
Definition c_hash : N := 35.   (* '#' *)
Definition c_S : N := 83.      (* 'S' *)
Definition c_dot : N := 46.
Definition c_plus : N := 43.
Definition c_minus : N := 45.
Definition c_us : N := 95.     (* '_' *)

(* ---------------------------------------------------------------- strings *)
Fixpoint str_eqb (a b : str) : bool :=
  match a, b with
  | [], [] => true
  | x :: a', y :: b' => (x =? y) && str_eqb a' b'
  | _, _ => false
  end.
Fixpoint toks_eqb (a b : list str) : bool :=
  match a, b with
  | [], [] => true
  | x :: a', y :: b' => str_eqb x y && toks_eqb a' b'
  | _, _ => false
  end.

Fixpoint lstrip (s : str) : str :=
  match s with [] => [] | c :: r => if is_ws c then lstrip r else s end.
(* rstrip: drop the maximal all-whitespace suffix *)
Fixpoint rstrip (s : str) : str :=
  match s with
  | [] => []
  | c :: r => match rstrip r with
              | [] => if is_ws c then [] else [c]
              | r' => c :: r'
              end
  end.
Definition strip (s : str) : str := rstrip (lstrip s).

(* str.split(): fields separated by runs of whitespace, no empty fields; [cur] = current field, reversed *)
Fixpoint split_ws (s : str) (cur : str) : list str :=
  match s with
  | [] => match cur with [] => [] | _ => [rev cur] end
  | c :: r => if is_ws c
              then match cur with [] => split_ws r [] | _ => rev cur :: split_ws r [] end
              else split_ws r (c :: cur)
  end.

Fixpoint starts_with (p s : str) : bool :=
  match p, s with
  | [], _ => true
  | x :: p', y :: s' => (x =? y) && starts_with p' s'
  | _ :: _, [] => false
  end.
(* str.lstrip("#") *)
Fixpoint lstrip_hash (s : str) : str :=
  match s with c :: r => if c =? c_hash then lstrip_hash r else s | [] => [] end.

Definition is_hdr (line : str) : bool := starts_with [c_hash] (lstrip line).    (* line.lstrip().startswith('#') *)
Definition is_blank (line : str) : bool := match strip line with [] => true | _ => false end.   (* line.strip() == "" *)

Fixpoint pairs_of (l : list str) : list (str * str) :=                             (* zip(seq, seq[1:]) *)
  match l with a :: ((b :: _) as r) => (a, b) :: pairs_of r | _ => [] end.

(* ---------------------------------------------------------------- numbers *)
Record dec := { dneg : bool; dmant : N; dscale : nat }.    (* (-1)^dneg * dmant / 10^dscale *)

Fixpoint span_digits (s : str) : str * str :=
  match s with
  | c :: r => if is_digit c then let '(a, b) := span_digits r in (c :: a, b) else ([], s)
  | [] => ([], [])
  end.
Fixpoint digits_val (ds : str) (acc : N) : N :=
  match ds with [] => acc | c :: r => digits_val r (10 * acc + (c - 48)) end.
Definition strip_sign (s : str) : bool * str :=
  match s with
  | c :: r => if c =? c_plus then (false, r) else if c =? c_minus then (true, r) else (false, s)
  | [] => (false, [])
  end.
Definition non_ascii (s : str) : bool := existsb (fun c => 128 <=? c) s.

(* digit (_? digit)*  — Python's "digitpart" *)
Fixpoint udigits (s : str) (prev_digit : bool) : bool :=
  match s with
  | [] => prev_digit
  | c :: r => if is_digit c then udigits r true
              else if (c =? c_us) && prev_digit
                   then match r with d :: _ => is_digit d && udigits r false | [] => false end
                   else false
  end.

Inductive pint := IOk (z : Z) | IBad | IUnm.
(* int(s) for an already stripped s *)
Definition parse_int (s : str) : pint :=
  if non_ascii s then IUnm                      (* Unicode digits are accepted by int() *)
  else if (4000 <? length s)%nat then IUnm      (* sys.int_max_str_digits *)
  else let '(neg, b) := strip_sign s in
       match span_digits b with
       | ((_ :: _) as ds, []) => let v := Z.of_N (digits_val ds 0) in IOk (if neg then (- v)%Z else v)
       | _ => if udigits b false then IUnm else IBad
       end.

(* the part of the float grammar whose value the model decides:  [+-]? digits ( . digits )? *)
Definition simple_float (s : str) : option dec :=
  let '(neg, b) := strip_sign s in
  let '(ip, r1) := span_digits b in
  match ip with
  | [] => None
  | _ :: _ =>
      match r1 with
      | [] => Some {| dneg := neg; dmant := digits_val ip 0; dscale := 0 |}
      | c :: r2 =>
          if c =? c_dot then
            match span_digits r2 with
            | ((_ :: _) as fp, []) => Some {| dneg := neg; dmant := digits_val (ip ++ fp) 0; dscale := length fp |}
            | _ => None
            end
          else None
      end
  end.

(* CPython's float(str) syntax on ASCII input (after whitespace stripping):
   every '_' must stand between two digits; with underscores removed:
   [+-]? ( inf | infinity | nan  (any case)  |  ( digits [. digits*] | . digits ) ( [eE] [+-]? digits )? ) *)
Fixpoint us_ok (s : str) (prev : N) : bool :=
  match s with
  | [] => negb (prev =? c_us)
  | c :: r => if c =? c_us then is_digit prev && us_ok r c
              else (if prev =? c_us then is_digit c else true) && us_ok r c
  end.
Definition lower (c : N) : N := if (65 <=? c) && (c <=? 90) then c + 32 else c.
Definition is_nil {A} (l : list A) : bool := match l with [] => true | _ => false end.
Definition dec_syntax (s : str) : bool :=
  let '(ip, r1) := span_digits s in
  let '(fp, r2) := match r1 with
                   | c :: r => if c =? c_dot then span_digits r else ([], r1)
                   | [] => ([], [])
                   end in
  if is_nil ip && is_nil fp then false
  else match r2 with
       | [] => true
       | e :: r3 =>
           if (e =? 101) || (e =? 69) then
             let r4 := match r3 with c :: r' => if (c =? c_plus) || (c =? c_minus) then r' else r3 | [] => r3 end in
             let '(ed, r5) := span_digits r4 in negb (is_nil ed) && is_nil r5
           else false
       end.
Definition py_float_ok (s : str) : bool :=
  us_ok s 0 &&
  (let t := filter (fun c => negb (c =? c_us)) s in
   let b := snd (strip_sign t) in
   let lb := map lower b in
   str_eqb lb [105;110;102] || str_eqb lb [105;110;102;105;110;105;116;121] || str_eqb lb [110;97;110] || dec_syntax b).

Inductive pfloat := FOk (d : dec) | FBad | FUnm.
Definition parse_float (s : str) : pfloat :=
  if non_ascii s then FUnm
  else match simple_float s with
       | Some d => FOk d
       | None => if py_float_ok s then FUnm else FBad
       end.

(* ---------------------------------------------------------------- results *)
Inductive perr := EMissingCount | EBadCount | EBadEdge | EBadWeight | EMissingConstraintEdge | ENoSource | ENoSink
               | EZeroHasConstraints | EZeroHasEdges.
Inductive res (A : Type) := Ok (a : A) | Error (e : perr) | Unmodelled.
Arguments Ok {A} a. Arguments Error {A} e. Arguments Unmodelled {A}.

Definition wedge : Type := str * str * dec.
Record ginfo := { gi_nodes : list str;         (* list(G.nodes()) : first-appearance order *)
                  gi_edges : list wedge;       (* one entry per distinct (u,v), first-insertion order, last weight; "flow" is the only edge attribute *)
                  gi_n : nat; gi_m : nat;      (* G.graph["n"] = G.number_of_nodes(), G.graph["m"] = G.number_of_edges(): computed, not read from the file *)
                  gi_w : nat }.                (* G.graph["w"] = stDiGraph(G).get_width(): computed, the format has no width field *)
(* The record is the complete attribute set of the returned DiGraph: G.graph has exactly the keys id, constraints and
   (unless the block declares 0 vertices) n, m, w; nodes carry no attributes, edges exactly "flow".  The vertex count
   written in the file is parsed, tested against 0 and then dropped: it is stored nowhere. *)
Record graph := { gid : option str;                       (* None: no header text line -> str(id(graph_raw)) *)
                  gcons : list (list (str * str));        (* G.graph["constraints"] *)
                  ginf : option ginfo }.                  (* None: the n == 0 early return (no n/m/w keys, no edges) *)

(* ---------------------------------------------------------------- read_graph *)
Definition mem_toks (t : list str) (seen : list (list str)) : bool := existsb (toks_eqb t) seen.

(* the `while idx < len(graph_raw) and graph_raw[idx].lstrip().startswith("#")` loop *)
Fixpoint scan (lines : list str) (hdrs : list str) (seen : list (list str)) (cstr : list (list (str * str)))
  : list str * list str * list (list (str * str)) :=
  match lines with
  | [] => ([], hdrs, cstr)
  | l :: r =>
      if is_hdr l then
        let st := lstrip l in
        if starts_with [c_hash; c_S] st then
          let nodes_part := strip (skipn 2 st) in
          match nodes_part with
          | [] => scan r hdrs seen cstr
          | _ :: _ =>
              let toks := split_ws nodes_part [] in
              if mem_toks toks seen then scan r hdrs seen cstr
              else match pairs_of toks with
                   | [] => scan r hdrs (toks :: seen) cstr
                   | ps => scan r hdrs (toks :: seen) (cstr ++ [ps])
                   end
          end
        else scan r (hdrs ++ [strip (lstrip_hash st)]) seen cstr
      else (lines, hdrs, cstr)
  end.

Fixpoint skip_blank (lines : list str) : list str :=
  match lines with l :: r => if is_blank l then skip_blank r else lines | [] => [] end.

Definition mem_str (x : str) (l : list str) : bool := existsb (str_eqb x) l.
Definition add_node (x : str) (ns : list str) : list str := if mem_str x ns then ns else ns ++ [x].
Fixpoint set_edge (u v : str) (w : dec) (es : list wedge) : list wedge :=
  match es with
  | [] => [(u, v, w)]
  | (a, b, x) :: r => if str_eqb a u && str_eqb b v then (a, b, w) :: r else (a, b, x) :: set_edge u v w r
  end.
Definition add_edge (u v : str) (w : dec) (g : list str * list wedge) : list str * list wedge :=
  (add_node v (add_node u (fst g)), set_edge u v w (snd g)).

(* the `for line in graph_raw[idx:]` loop *)
Fixpoint read_edges (lines : list str) (g : list str * list wedge) : res (list str * list wedge) :=
  match lines with
  | [] => Ok g
  | l :: r =>
      if is_blank l || is_hdr l then read_edges r g
      else match split_ws l [] with
           | [u; v; ws] =>
               match parse_float ws with
               | FOk w => read_edges r (add_edge u v w g)
               | FBad => Error EBadWeight
               | FUnm => Unmodelled
               end
           | _ => Error EBadEdge
           end
  end.

Definition has_edge (es : list wedge) (e : str * str) : bool :=
  existsb (fun t => str_eqb (fst (fst t)) (fst e) && str_eqb (snd (fst t)) (snd e)) es.
(* stDiGraph: "at least one source" = a node without in-edge; "at least one sink" = a node without out-edge *)
Definition has_source (ns : list str) (es : list wedge) : bool :=
  existsb (fun x => negb (existsb (fun t => str_eqb (snd (fst t)) x) es)) ns.
Definition has_sink (ns : list str) (es : list wedge) : bool :=
  existsb (fun x => negb (existsb (fun t => str_eqb (fst (fst t)) x) es)) ns.
(* (Before /repo 59945c9 a failing test looked up out_edges("source_<id>") on a graph without that node and networkx
   iterated the characters of the name; since that commit a graph without source / sink is a plain ValueError.) *)

(* ---------------------------------------------------------------- G.graph["w"] *)
Definition succs (es : list wedge) (u : str) : list str :=
  map (fun t => snd (fst t)) (filter (fun t => str_eqb (fst (fst t)) u) es).
(* for every node the list of nodes reachable from it (itself included) *)
Definition reach_tab (ns : list str) (es : list wedge) : list (str * list str) :=
  map (fun u => (u, Reach.clos str_eqb (succs es) (S (length ns)) [u])) ns.
Definition reaches (tab : list (str * list str)) (u v : str) : bool :=
  match find (fun p => str_eqb (fst p) u) tab with Some p => mem_str v (snd p) | None => false end.
Definition same_scc (tab : list (str * list str)) (u v : str) : bool := reaches tab u v && reaches tab v u.
(* one item (u,v) per edge between different components, one item (r,r) per component that contains an edge *)
Fixpoint items_of (tab : list (str * list str)) (l : list wedge) (reps : list str) : list (str * str) :=
  match l with
  | [] => []
  | (u, v, _) :: r =>
      if same_scc tab u v
      then if existsb (same_scc tab u) reps then items_of tab r reps else (u, u) :: items_of tab r (u :: reps)
      else (u, v) :: items_of tab r reps
  end.
Definition comparable (tab : list (str * list str)) (a b : str * str) : bool :=
  reaches tab (snd a) (fst b) || reaches tab (snd b) (fst a).
(* size of a largest set of pairwise incomparable items that extends [chosen] *)
Fixpoint best (tab : list (str * list str)) (items chosen : list (str * str)) : nat :=
  match items with
  | [] => length chosen
  | i :: r => let skip := best tab r chosen in
              if forallb (fun c => negb (comparable tab i c)) chosen then Nat.max (best tab r (i :: chosen)) skip else skip
  end.
Definition width (ns : list str) (es : list wedge) : nat :=
  let tab := reach_tab ns es in best tab (items_of tab es []) [].

(* the `if n == 0:` branch (since fc0735f): a block that declares 0 vertices may have neither subpath
   constraints nor any line after the count that is not blank and does not start with '#' *)
Definition skipped_line (l : str) : bool := is_blank l || is_hdr l.       (* not (line.strip() and not line.lstrip().startswith('#')) *)
Definition zero_block (id : option str) (cstr : list (list (str * str))) (body : list str) : res graph :=
  match cstr with
  | _ :: _ => Error EZeroHasConstraints
  | [] => if forallb skipped_line body then Ok {| gid := id; gcons := []; ginf := None |} else Error EZeroHasEdges
  end.

Definition read_graph (lines : list str) : res graph :=
  let '(rest, hdrs, cstr) := scan lines [] [] [] in
  match skip_blank rest with
  | [] => Error EMissingCount
  | nline :: body =>
      match parse_int (strip nline) with
      | IBad => Error EBadCount
      | IUnm => Unmodelled
      | IOk n =>
          if (n =? 0)%Z then zero_block (hd_error hdrs) cstr body
          else match read_edges body ([], []) with
               | Error e => Error e
               | Unmodelled => Unmodelled
               | Ok (ns, es) =>
                   if forallb (fun c => forallb (has_edge es) c) cstr then
                     if has_source ns es then
                       if has_sink ns es then
                         Ok {| gid := hd_error hdrs; gcons := cstr;
                               ginf := Some {| gi_nodes := ns; gi_edges := es; gi_n := length ns; gi_m := length es;
                                               gi_w := width ns es |} |}
                       else Error ENoSink
                     else Error ENoSource
                   else Error EMissingConstraintEdge
               end
      end
  end.

(* ---------------------------------------------------------------- read_graphs *)
Fixpoint span {A} (p : A -> bool) (l : list A) : list A * list A :=
  match l with
  | x :: r => if p x then let '(a, b) := span p r in (x :: a, b) else ([], l)
  | [] => ([], [])
  end.
Definition not_hdr (l : str) : bool := negb (is_hdr l).

(* one iteration of the outer `while i < n_lines` per unit of fuel; None = out of fuel *)
Fixpoint blocks_fuel (fuel : nat) (lines : list str) : option (list (list str)) :=
  match fuel with
  | O => None
  | S k =>
      let '(_, l1) := span not_hdr lines in              (* move to the start of the next header *)
      match l1 with
      | [] => Some []
      | _ :: _ =>
          let '(hs, l2) := span is_hdr l1 in              (* consecutive header lines *)
          let '(body, l3) := span not_hdr l2 in           (* until the next header line or EOF *)
          match blocks_fuel k l3 with
          | Some bs => Some ((hs ++ body) :: bs)          (* lines[start:j] *)
          | None => None
          end
      end
  end.

(* graphs.append(read_graph(block)) in order: the first block that fails decides *)
Fixpoint seq_blocks (bs : list (list str)) : res (list graph) :=
  match bs with
  | [] => Ok []
  | b :: r => match read_graph b with
              | Ok g => match seq_blocks r with Ok gs => Ok (g :: gs) | Error e => Error e | Unmodelled => Unmodelled end
              | Error e => Error e
              | Unmodelled => Unmodelled
              end
  end.

Inductive fres := FRes (r : res (list graph)) | OutOfFuel.
Definition read_graphs (lines : list str) : fres :=
  match blocks_fuel (S (length lines)) lines with
  | None => OutOfFuel
  | Some bs => FRes (seq_blocks bs)
  end.

(* ---------------------------------------------------------------- printing numbers (renderer side, also used by the driver) *)
Fixpoint show_aux (fuel : nat) (n : N) (acc : str) : str :=
  match fuel with
  | O => acc
  | S k => let acc' := (48 + n mod 10) :: acc in
           if n <? 10 then acc' else show_aux k (n / 10) acc'
  end.
Definition show_N (n : N) : str := show_aux (S (N.to_nat (N.log2 n))) n [].
