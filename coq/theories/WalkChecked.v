(* Executable, verified check of the graph PREMISE of the walk-encoder theorems (WalkEncRowsProofs.wf_stg: well-formed
   s-t digraph, adjacency tables consistent with the edge list, duplicate-free node list containing source and sink),
   and the walk theorems restated with "the checker says true" in place of the Prop premise.  Extracted and evaluated on
   the very tokens every cyclic E1 instance sends (C04, C07/C08 section E1_cycles, kPathCoverCycles).  The walk models
   need no further graph data: reachability, SCC membership, repetition caps and reach_max tables are computed by the
   model itself (WalkEncRows.reach_fwd / is_scc_edge / cap, WalkErrEnc.reach_max), nothing is handed over. *)
From Coq Require Import List NArith ZArith QArith Bool Arith Lia Permutation.
Import ListNotations.
From FP Require Import Lin Blocks BlocksProofs PathEnc PathEncProofs Euler EulerProofs1 EulerProofs4 WalkDecode WfCheck
                       WalkEncRows WalkEncRowsProofs WalkErrEnc WalkErrEncProofs WalkTree WalkEncComplete WalkEncIff WalkCoverIff WalkErrCompleteW WalkErrIff.
Set Default Timeout 60.
Local Close Scope Q_scope.

Definition wf_stg_b (G : stgraph) : bool :=
  wf_graph_b G && nodup_nb (g_nodes G) && memnb (g_src G) (g_nodes G) && memnb (g_snk G) (g_nodes G).

Theorem wf_stg_b_sound (G : stgraph) : wf_stg_b G = true -> wf_stg G.
Proof.
  unfold wf_stg_b. intros H.
  apply andb_true_iff in H. destruct H as [H H4]. apply andb_true_iff in H. destruct H as [H H3].
  apply andb_true_iff in H. destruct H as [H1 H2].
  constructor.
  - apply wf_graph_b_sound. exact H1.
  - apply nodup_nb_NoDup. exact H2.
  - apply memnb_In. exact H3.
  - apply memnb_In. exact H4.
Qed.

Theorem kfdc_sound_checked (I : kfdc_inst) (a : var -> Q) :
  let G := c_graph I in let k := c_k I in
  let E := g_edges G in let s := g_src G in let t := g_snk G in
  wf_stg_b G = true -> o_allow_empty (c_opts I) = false ->
  sat a (encode_kfdc I) ->
  (forall i, In i (layers k) ->
     exists w, reconstruct (resid E (xint a i)) s = Some ([], w) /\ hd_error w = Some s /\ last w s = t /\
               (forall e, In e E -> count_e e (pairs w) = Z.to_nat (xint a i e) /\ (0 <= xint a i e)%Z /\
                                    (a (evar e i) == inject_Z (xint a i e))%Q) /\
               (forall e, ~ In e E -> count_e e (pairs w) = 0%nat)) /\
  (forall i, In i (layers k) -> (0 <= a (W i) <= kfdc_wmax I)%Q /\ (c_int I = true -> is_int (a (W i)))) /\
  (forall e, In e (kept_edges I) ->
     (sumq (fun i => a (W i) * inject_Z (xint a i e)) (layers k) == flow_of I e)%Q).
Proof. intros G k E s t Hb. exact (kfdc_sound I a (wf_stg_b_sound G Hb)). Qed.

Theorem kpcc_layer_is_one_walk_checked (I : kpcc_inst) (a : var -> Q) i :
  let G := pc_graph I in
  wf_stg_b G = true -> o_allow_empty (pc_opts I) = false -> sat a (encode_kpcc I) -> In i (layers (pc_k I)) ->
  exists w, reconstruct (resid (g_edges G) (xint a i)) (g_src G) = Some ([], w) /\
            hd_error w = Some (g_src G) /\ last w (g_src G) = g_snk G /\
            (forall e, In e (g_edges G) -> count_e e (pairs w) = Z.to_nat (xint a i e)) /\
            (forall e, ~ In e (g_edges G) -> count_e e (pairs w) = 0%nat).
Proof. intros G Hb. exact (kpcc_layer_is_one_walk I a i (wf_stg_b_sound G Hb)). Qed.

Theorem klaec_sound_checked (I : werr_inst) (a : var -> Q) :
  let G := x_graph I in let k := x_k I in
  let E := g_edges G in let s := g_src G in let t := g_snk G in
  wf_stg_b G = true -> o_allow_empty (x_opts I) = false ->
  sat a (encode_klae_cycles I) ->
  (forall i, In i (layers k) ->
     exists w, reconstruct (resid E (xint a i)) s = Some ([], w) /\ hd_error w = Some s /\ last w s = t /\
               (forall e, In e E -> count_e e (pairs w) = Z.to_nat (xint a i e) /\ (0 <= xint a i e)%Z) /\
               (forall e, ~ In e E -> count_e e (pairs w) = 0%nat)) /\
  (forall i, In i (layers k) -> (0 <= a (W i) <= x_wmax I)%Q /\ (x_int I = true -> is_int (a (W i)))) /\
  (forall e, In e (x_basic I) ->
     let expl := sumq (fun i => (a (W i) * inject_Z (xint a i e))%Q) (layers k) in
     (xflow I e - expl <= a (errvar e))%Q /\ (expl - xflow I e <= a (errvar e))%Q) /\
  (objective a (encode_klae_cycles I) == sumq (fun e => xscale I e * a (errvar e)) (x_basic I))%Q.
Proof. intros G k E s t Hb. exact (klaec_sound I a (wf_stg_b_sound G Hb)). Qed.

Theorem kmpec_sound_checked (I : werr_inst) (a : var -> Q) :
  let G := x_graph I in let k := x_k I in
  let E := g_edges G in let s := g_src G in let t := g_snk G in
  wf_stg_b G = true -> o_allow_empty (x_opts I) = false ->
  sat a (encode_kmpe_cycles I) ->
  (forall i, In i (layers k) ->
     exists w, reconstruct (resid E (xint a i)) s = Some ([], w) /\ hd_error w = Some s /\ last w s = t /\
               (forall e, In e E -> count_e e (pairs w) = Z.to_nat (xint a i e) /\ (0 <= xint a i e)%Z) /\
               (forall e, ~ In e E -> count_e e (pairs w) = 0%nat)) /\
  (forall i, In i (layers k) -> (0 <= a (W i) <= x_wmax I)%Q /\ (0 <= a (Slack i) <= x_wmax I)%Q /\
                                (x_int I = true -> is_int (a (W i)) /\ is_int (a (Slack i)))) /\
  (forall e, In e (x_basic I) ->
     let expl := sumq (fun i => (a (W i) * inject_Z (xint a i e))%Q) (layers k) in
     let slk := sumq (fun i => (a (Slack i) * inject_Z (xint a i e))%Q) (layers k) in
     ((xflow I e - expl) * xscale I e <= slk)%Q /\ (- slk <= (xflow I e - expl) * xscale I e)%Q) /\
  (objective a (encode_kmpe_cycles I) == sumq (fun i => a (Slack i)) (layers k))%Q.
Proof. intros G k E s t Hb. exact (kmpec_sound I a (wf_stg_b_sound G Hb)). Qed.

(* the sequences handed over by the implementation (subset constraints incl. the appended safe sequences, walks_to_fix)
   consist of edges of the graph *)
Definition winputs_ok_b (WI : walk_inst) : bool :=
  forallb (fun c => forallb (fun e => mem_edge e (g_edges (w_graph WI))) c) (all_cons WI) &&
  forallb (fun c => forallb (fun e => mem_edge e (g_edges (w_graph WI))) c) (w_fix WI).

Lemma winputs_ok_b_sound (I : kfdc_inst) : winputs_ok_b (kfdc_walk I) = true -> inputs_ok I.
Proof.
  unfold winputs_ok_b, inputs_ok. intros H. apply andb_true_iff in H. destruct H as [H1 H2].
  rewrite forallb_forall in H1, H2. split.
  - intros c e Hc He. specialize (H1 c Hc). rewrite forallb_forall in H1. apply WalkEncRowsProofs.mem_edge_In. apply (H1 e He).
  - intros w e Hw He. specialize (H2 w Hw). rewrite forallb_forall in H2. apply WalkEncRowsProofs.mem_edge_In. apply (H2 e He).
Qed.

(* C04: feasibility of the LP characterised, premises decided by the extracted checkers *)
Theorem kfdc_feasible_iff_checked (I : kfdc_inst) :
  wf_stg_b (c_graph I) = true -> winputs_ok_b (kfdc_walk I) = true -> o_allow_empty (c_opts I) = false ->
  ((exists a, sat a (encode_kfdc I)) <-> (exists P wt, admissible I P wt)).
Proof.
  intros H1 H2 Hae. apply kfdc_feasible_iff_within_caps; [apply wf_stg_b_sound; exact H1|exact Hae|apply winputs_ok_b_sound; exact H2].
Qed.

Lemma winputs_ok_b_sound_w (WI : walk_inst) : winputs_ok_b WI = true -> winputs_ok WI.
Proof.
  unfold winputs_ok_b, winputs_ok. intros H. apply andb_true_iff in H. destruct H as [H1 H2].
  rewrite forallb_forall in H1, H2. split.
  - intros c e Hc He. specialize (H1 c Hc). rewrite forallb_forall in H1. apply WalkEncRowsProofs.mem_edge_In. apply (H1 e He).
  - intros w e Hw He. specialize (H2 w Hw). rewrite forallb_forall in H2. apply WalkEncRowsProofs.mem_edge_In. apply (H2 e He).
Qed.

(* C09 (cyclic): feasibility of the walk-cover LP characterised, premises decided by the extracted checkers *)
Theorem kpcc_feasible_iff_checked (I : kpcc_inst) :
  wf_stg_b (pc_graph I) = true -> winputs_ok_b (kpcc_walk I) = true -> o_allow_empty (pc_opts I) = false ->
  ((exists a, sat a (encode_kpcc I)) <-> (exists P, cover_admissible I P)).
Proof.
  intros H1 H2 Hae. apply kpcc_feasible_iff_within_caps; [apply wf_stg_b_sound; exact H1|exact Hae|apply winputs_ok_b_sound_w; exact H2].
Qed.

(* C07 / C08 (cyclic): feasibility of the error LPs characterised, premises decided by the extracted checkers *)
Theorem klaec_feasible_iff_checked (I : werr_inst) :
  wf_stg_b (x_graph I) = true -> winputs_ok_b (werr_walk I) = true -> o_allow_empty (x_opts I) = false ->
  ((exists a, sat a (encode_klae_cycles I)) <-> (exists P wt err, klaec_admissible I P wt err)).
Proof.
  intros H1 H2 Hae. apply klaec_feasible_iff_within_caps; [apply wf_stg_b_sound; exact H1|exact Hae|apply winputs_ok_b_sound_w; exact H2].
Qed.
Theorem kmpec_feasible_iff_checked (I : werr_inst) :
  wf_stg_b (x_graph I) = true -> winputs_ok_b (werr_walk I) = true -> o_allow_empty (x_opts I) = false ->
  ((exists a, sat a (encode_kmpe_cycles I)) <-> (exists P wt sl, kmpec_admissible I P wt sl)).
Proof.
  intros H1 H2 Hae. apply kmpec_feasible_iff_within_caps; [apply wf_stg_b_sound; exact H1|exact Hae|apply winputs_ok_b_sound_w; exact H2].
Qed.

(* non-vacuity: the checker accepts the self-loop graph of WalkExamples *)
From FP Require Import WalkExamples.
Example wf_stg_b_accepts_loopG : wf_stg_b loopG = true /\ winputs_ok_b (kfdc_walk (loop_inst 2)) = true.
Proof. split; vm_compute; reflexivity. Qed.
