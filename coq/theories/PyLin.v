(* PyLin.v — hand-written runtime for GENERATED models of functions that EMIT MILP rows and columns
   (SolverWrapper's modelling helpers, property C12).  harness/translate.py mirrors the Python expression
   tree of every `self.add_constraint(<expr> <=|>=|== <expr>, ...)` as a [lexp] pair; what that means as a
   [Lin.row] (all variable terms to the left in order of appearance, constants to the right) is defined
   HERE, once, with the lemma that relates the row to the two expression values.  Likewise
   `self.add_variables(...)` (scalar bounds, HiGHS path) becomes [py_add_variables], and
   ceil(log2(x)) becomes [py_ceil_log2] with its characterising lemma. *)
From Coq Require Import List NArith ZArith QArith Bool Lia Lqa.
Import ListNotations.
From FP Require Import Lin Blocks BlocksProofs PyRt.
Local Open Scope Q_scope.

(* ------------------------------------------------------------------------- linear expressions *)
(* what highspy builds from  var, number, e + e, e - e, number * e (e * number)  *)
Inductive lexp := LVar (v : var) | LConst (q : Q) | LAdd (a b : lexp) | LSub (a b : lexp) | LScale (q : Q) (a : lexp).

Fixpoint leval (a : var -> Q) (e : lexp) : Q :=
  match e with
  | LVar v => a v | LConst q => q
  | LAdd x y => leval a x + leval a y | LSub x y => leval a x - leval a y
  | LScale q x => q * leval a x
  end.

Definition lscale (q : Q) (l : lin) : lin := map (fun t => (fst t, q * snd t)) l.
Fixpoint lterms (e : lexp) : lin :=
  match e with
  | LVar v => [(v, 1)] | LConst _ => []
  | LAdd x y => lterms x ++ lterms y | LSub x y => lterms x ++ lscale (-(1)) (lterms y)
  | LScale q x => lscale q (lterms x)
  end.
Fixpoint lconst (e : lexp) : Q :=
  match e with
  | LVar _ => 0 | LConst q => q
  | LAdd x y => lconst x + lconst y | LSub x y => lconst x - lconst y
  | LScale q x => q * lconst x
  end.

Lemma eval_lscale : forall a q l, eval a (lscale q l) == q * eval a l.
Proof.
  intros a q l; induction l as [|t l IH]; cbn [lscale map eval fst snd]; [ring|].
  fold (lscale q l). rewrite IH. ring.
Qed.
Lemma leval_split : forall a e, eval a (lterms e) + lconst e == leval a e.
Proof.
  intros a e; induction e as [v|q|x IHx y IHy|x IHx y IHy|q x IHx]; cbn [lterms lconst leval eval fst snd].
  - ring.
  - ring.
  - rewrite eval_app, <- IHx, <- IHy. ring.
  - rewrite eval_app, eval_lscale, <- IHx, <- IHy. ring.
  - rewrite eval_lscale, <- IHx. ring.
Qed.

(* self.quicksum(iterable of terms) — highspy's qsum: the sum, 0 for no terms *)
Definition py_quicksum (l : list lexp) : lexp := fold_right LAdd (LConst 0) l.
Lemma leval_quicksum : forall a l, leval a (py_quicksum l) == sumq (leval a) l.
Proof. intros a l; induction l as [|e l IH]; cbn [py_quicksum fold_right leval sumq]; [reflexivity|]. fold (py_quicksum l). rewrite IH. reflexivity. Qed.

(* a comparison of two expressions, and the row self.add_constraint hands to the solver *)
Record lcon := mk_lcon { k_lhs : lexp; k_sns : sense; k_rhs : lexp }.
Definition mk_row (k : lcon) : row :=
  {| lhs := lterms (k_lhs k) ++ lscale (-(1)) (lterms (k_rhs k)); sns := k_sns k; rhs := lconst (k_rhs k) - lconst (k_lhs k) |}.
Definition lcon_holds (a : var -> Q) (k : lcon) : Prop :=
  match k_sns k with
  | SLe => leval a (k_lhs k) <= leval a (k_rhs k)
  | SGe => leval a (k_rhs k) <= leval a (k_lhs k)
  | SEq => leval a (k_lhs k) == leval a (k_rhs k)
  end.
Lemma sat_row_mk_row : forall a k, sat_row a (mk_row k) <-> lcon_holds a k.
Proof.
  intros a [e1 s e2]; unfold sat_row, mk_row, lcon_holds; cbn [sns lhs rhs k_lhs k_sns k_rhs].
  pose proof (leval_split a e1) as H1; pose proof (leval_split a e2) as H2.
  destruct s; rewrite eval_app, eval_lscale; split; intro H; lra.
Qed.
Lemma Forall_sat_mk_rows : forall a ks, Forall (sat_row a) (map mk_row ks) <-> Forall (lcon_holds a) ks.
Proof.
  intros a ks; induction ks as [|k ks IH]; cbn [map]; [split; constructor|].
  split; intro H; inversion H; subst; constructor; try (apply sat_row_mk_row; assumption); apply IH; assumption.
Qed.

(* ------------------------------------------------------------------------- variables created by a helper *)
(* self.add_variables(indexes, name_prefix=f"<prefix>{name}", ...): the harness identifies the helper instance `name`
   with the key of its product / output variable and the prefix with a family tag (binary_ -> fBit, comp_ -> fComp,
   z_ -> fZ), exactly as Lin.Bit / Lin.Comp / Lin.Zsel do *)
Definition py_helper_var (fam : N) (nm : var) (i : Z) : var := V fam (vfam nm :: vidx nm ++ [Z.to_N i]).
Definition py_vardict_get (d : N * var) (i : Z) : var := py_helper_var (fst d) (snd d) i.
(* scalar bounds, one column per index, HiGHS type kInteger / kContinuous *)
Definition py_add_variables (fam : N) (nm : var) (idx : list Z) (lb ub : Q) (isint : bool) : list col :=
  map (fun i => {| cvar := py_helper_var fam nm i; clb := lb; cub := ub; cint := isint |}) idx.

Lemma py_helper_var_Bit : forall p j, py_helper_var fBit p (Z.of_nat j) = Bit p (N.of_nat j).
Proof. intros; unfold py_helper_var, Bit. rewrite <- nat_N_Z, N2Z.id. reflexivity. Qed.
Lemma py_helper_var_Comp : forall p j, py_helper_var fComp p (Z.of_nat j) = Comp p (N.of_nat j).
Proof. intros; unfold py_helper_var, Comp. rewrite <- nat_N_Z, N2Z.id. reflexivity. Qed.
Lemma py_helper_var_Zsel : forall p j, py_helper_var fZ p (Z.of_nat j) = Zsel p (N.of_nat j).
Proof. intros; unfold py_helper_var, Zsel. rewrite <- nat_N_Z, N2Z.id. reflexivity. Qed.

Lemma py_range_of_nat : forall n, py_range (Z.of_nat n) = map Z.of_nat (seq 0 n).
Proof. intros; unfold py_range. rewrite Nat2Z.id. reflexivity. Qed.

(* a call of another translated helper: its columns and rows are appended, its exception propagates *)
Definition py_emit_call {S R} (f : S -> result unit * list col * list row) (add : list col -> list row -> S -> S) : stmt S R :=
  fun s => match f s with
           | (Exc e, cs, rs) => (CRaise e, add cs rs s)
           | (_, cs, rs) => (CNormal, add cs rs s)
           end.

(* ------------------------------------------------------------------------- numbers *)
(* ceil(log2(x)) for x > 0, as far as it is used: the translator lets the value flow into range(...) only, where
   every value <= 0 gives the empty range; so values <= 0 (x <= 1) are represented by 0.  log2 of x <= 0 raises
   ValueError (math domain error): the translator puts that guard in front of the statement. *)
Definition py_ceil_log2 (x : Q) : Z := Z.of_nat (least_pow (S (Z.to_nat (Qnum x))) 0 x).
Lemma py_ceil_log2_spec : forall x, 0 <= x ->
  exists n, py_ceil_log2 x = Z.of_nat n /\ x <= pow2 n /\ forall j, (j < n)%nat -> ~ x <= pow2 j.
Proof.
  intros x Hx. exists (least_pow (S (Z.to_nat (Qnum x))) 0 x). split; [reflexivity|].
  apply least_pow_spec; [intros j Hj; lia | cbn [plus]; apply pow2_ge_numerator; exact Hx].
Qed.
Lemma py_ceil_log2_num_bits : forall ub, py_ceil_log2 (ub + 1) = Z.of_nat (num_bits ub).
Proof. reflexivity. Qed.

(* b ** e for a positive integer literal b: an int for e >= 0, the float 1 / b**(-e) otherwise *)
Definition py_pow (b e : Z) : Q := if (0 <=? e)%Z then inject_Z (b ^ e) else / inject_Z (b ^ (- e)).
Lemma py_pow_2_nat : forall j, py_pow 2 (Z.of_nat j) = pow2 j.
Proof. intros; unfold py_pow, pow2. destruct (0 <=? Z.of_nat j)%Z eqn:E; [reflexivity | apply Z.leb_gt in E; lia]. Qed.

(* max(l) / min(l) of a non-empty list (first maximal / minimal element); l[i] with Python's negative indices *)
Definition py_list_max (l : list Q) : Q := match l with [] => 0 | x :: r => fold_left Qmax_py r x end.
Definition py_list_min (l : list Q) : Q := match l with [] => 0 | x :: r => fold_left Qmin_py r x end.
Definition py_list_is_empty {A} (l : list A) : bool := match l with [] => true | _ => false end.
Definition py_index_ok {A} (l : list A) (i : Z) : bool := ((- py_len l <=? i) && (i <? py_len l))%Z.
Definition py_list_get {A} (d : A) (l : list A) (i : Z) : A :=
  nth (Z.to_nat (if (i <? 0)%Z then py_len l + i else i)%Z) l d.

(* ------------------------------------------------------------------------- printing (correspondence runs) *)
Definition enc_var (v : var) : list Z := Z.of_N (vfam v) :: Z.of_nat (length (vidx v)) :: map Z.of_N (vidx v).
Definition enc_sense (s : sense) : Z := match s with SLe => 0 | SGe => 1 | SEq => 2 end%Z.
Definition enc_row (r : row) : list Z :=
  enc_sense (sns r) :: enc_Q (rhs r) ++ Z.of_nat (length (lhs r)) :: flat_map (fun t => enc_var (fst t) ++ enc_Q (snd t)) (lhs r).
Definition enc_col (c : col) : list Z :=
  enc_var (cvar c) ++ enc_Q (clb c) ++ enc_Q (cub c) ++ [if cint c then 1 else 0]%Z.
Definition enc_emitted (r : result unit * list col * list row) : list (list Z) :=
  match r with (o, cs, rs) => enc_result (fun _ => []) o :: [Z.of_nat (length cs)] :: map enc_col cs ++ map enc_row rs end.

(* ------------------------------------------------------------------------- variables keyed by index tuples (model encoders) *)
(* self.solver.add_variables(indexes, name_prefix="edge" | "pi" | "w" | "r" | ..., lb, ub, var_type): one column per index; the variable of
   index (u, v, i) / (i, j) / i in family fam is V fam [u; v; i] / V fam [i; j] / V fam [i] — Lin.Edge, Lin.Pi, PathEnc.R, Lin.W *)
Definition vkey3 (k : N * N * Z) : list N := [fst (fst k); snd (fst k); Z.to_N (snd k)].
Definition vkey2 (k : Z * Z) : list N := [Z.to_N (fst k); Z.to_N (snd k)].
Definition vkey1 (k : Z) : list N := [Z.to_N k].
Definition py_new_vars {K} (fam : N) (enc : K -> list N) (idx : list K) (lb ub : Q) (isint : bool) : list col :=
  map (fun k => {| cvar := V fam (enc k); clb := lb; cub := ub; cint := isint |}) idx.
Definition eqb3 : (N * N * Z) -> (N * N * Z) -> bool := py_pair_eqb (py_pair_eqb N.eqb N.eqb) Z.eqb.
Definition eqb2 : (Z * Z) -> (Z * Z) -> bool := py_pair_eqb Z.eqb Z.eqb.
Lemma eqb3_eq : forall a b, eqb3 a b = true <-> a = b.
Proof.
  intros [[a1 a2] a3] [[b1 b2] b3]; unfold eqb3, py_pair_eqb; cbn [fst snd].
  rewrite !andb_true_iff, !N.eqb_eq, Z.eqb_eq. split; [intros [[-> ->] ->]; reflexivity | intro H; inversion H; auto].
Qed.
Lemma eqb2_eq : forall a b, eqb2 a b = true <-> a = b.
Proof.
  intros [a1 a2] [b1 b2]; unfold eqb2, py_pair_eqb; cbn [fst snd].
  rewrite andb_true_iff, !Z.eqb_eq. split; [intros [-> ->]; reflexivity | intro H; inversion H; auto].
Qed.

(* self.G[u][v].get(self.length_attr, 1): the harness passes, for every edge, the value of that very expression *)
Definition py_edge_len (lens : list (N * N * Q)) (u v : N) : Q := py_dict_get edge_eqb lens (u, v) 1.
(* sum(<numbers>) *)
Definition py_sum (l : list Q) : Q := fold_left Qplus l 0.
Lemma py_sum_sumQ : forall l, py_sum l == sumQ l.
Proof.
  unfold py_sum. assert (G : forall l a, fold_left Qplus l a == a + sumQ l).
  { induction l as [|x l IH]; intro a; cbn [fold_left sumQ]; [ring | rewrite IH; ring]. }
  intro l. rewrite G. ring.
Qed.

(* the objective handed to set_objective: expression and sense *)
Definition enc_lin (l : lin) : list Z := Z.of_nat (length l) :: flat_map (fun t => enc_var (fst t) ++ enc_Q (snd t)) l.

(* self.G.edges(data=True) with the data dict restricted to the flow attribute: None = the edge has no such attribute *)
Definition py_edges_data (es : list (N * N)) (flows : list (N * N * Q)) : list (N * N * option Q) :=
  map (fun e => (fst e, snd e, py_dict_find edge_eqb flows e)) es.
Definition enc_obj (o : option (lexp * bool)) : list Z :=
  match o with None => [0%Z] | Some (e, mx) => (if mx then 2%Z else 1%Z) :: enc_Q (lconst e) ++ enc_lin (lterms e) end.

(* variables indexed by an edge (u, v): Err u v = V fErr [u; v] *)
Definition vkeyE (e : N * N) : list N := [fst e; snd e].
(* the builtin sum(<solver expressions>): 0 + e0 + e1 + ... *)
Definition py_sum_lexp (l : list lexp) : lexp := fold_left LAdd l (LConst 0).
Lemma leval_sum_lexp : forall a l, leval a (py_sum_lexp l) == sumq (leval a) l.
Proof.
  intros a l. unfold py_sum_lexp. assert (G : forall l e, leval a (fold_left LAdd l e) == leval a e + sumq (leval a) l).
  { induction l0 as [|x l0 IH]; intro e; cbn [fold_left sumq]; [ring | rewrite IH; cbn [leval]; ring]. }
  rewrite G. cbn [leval]. ring.
Qed.

(* variables indexed by three integers (MinGenSet: y[(i, j, c)]) *)
Definition vkey3z (k : Z * Z * Z) : list N := [Z.to_N (fst (fst k)); Z.to_N (snd (fst k)); Z.to_N (snd k)].
Definition eqb3z : (Z * Z * Z) -> (Z * Z * Z) -> bool := py_pair_eqb (py_pair_eqb Z.eqb Z.eqb) Z.eqb.
Lemma eqb3z_eq : forall a b, eqb3z a b = true <-> a = b.
Proof.
  intros [[a1 a2] a3] [[b1 b2] b3]. unfold eqb3z, py_pair_eqb; cbn [fst snd]. rewrite !andb_true_iff, !Z.eqb_eq.
  split; [intros [[-> ->] ->]; reflexivity | intro H; injection H as -> -> ->; repeat split].
Qed.
(* max(<non-empty list of ints>) *)
Definition py_list_max_Z (l : list Z) : Z := match l with [] => 0%Z | x :: r => fold_left Z.max r x end.
