(* C07 / C08 for the CYCLIC error models (kLeastAbsErrorsCycles / kMinPathErrorCycles) in NODE mode (flow_attr_origin = 'node'), stated
   in the caller's terms.  The caller's digraph (V, E) may have cycles and self-loops; nodes carry rational weights fq (nodes of Wn carry
   the attribute), nodes in [ign] are ignored, sc is the error scaling (scale 0 = not counted), S / T are additional starts / ends.
   The k walks are walks of the caller's graph (DilworthNode.nwalk); what they put on node v is the sum over the walks of
   weight * (number of visits of v) ([node_wexplains], visits counted WITH multiplicity as in NodeWalkE2E.v), and the error term at v is
   sc v * |fq v - node_wexplains v|.  Node mode solves the walk error model of the node expansion, so this is a transfer of the hand
   theorems WalkErrOptimal.klaec_optimal / kmpec_optimal / kmpec_feasible_iff_within_caps, all WITHIN THE CAPS of the encoder: the cap
   predicate is kept as the model's predicate on the expanded tuple ([node_klaec_adm] / [node_kmpec_adm]) and spelled out in visits /
   traversals by [node_klaec_reading] / [node_kmpec_reading].  Default options (no safety fixing, no subset constraints). *)
From Coq Require Import List NArith ZArith QArith Qabs Lqa Bool Arith Lia Permutation.
Import ListNotations.
From FP Require Import Lin Blocks BlocksProofs PathEnc PathEncProofs PathEncComplete Euler EulerProofs1 EulerProofs4 Aug AugProofs
                       EndToEnd1 EndToEnd2 ErrEncIgnore DilworthNode NodeFlowE2E NodeFlowST.
From FP Require Import WalkEnc WalkDecode WalkEncRows WalkEncRowsProofs WalkTree WalkEncComplete WalkCoverIff WalkExamples.
From FP Require Import WalkErrEnc WalkErrComplete WalkErrOptimal NodeWalkE2E.
From FP Require NodeErrE2E NodeErrST.
Set Default Timeout 90.
Local Close Scope Q_scope.

Notation nodes_basic := NodeErrE2E.nodes_basic.
Notation ngood := NodeErrE2E.ngood.

Definition node_werr_inst (V : list node) (E : list PathEnc.edge) (S T : list node) (s t : node) (Wn : list node) (fq sc : node -> Q)
                          (ign : list node) (isint : bool) (k : nat) : werr_inst :=
  {| x_graph := st_ofST (expV V) (expE V E) (map x0 S) (map x1 T) s t; x_k := k;
     x_flow := map (fun v => (nedge v, fq v)) Wn; x_ignore := node_ignore E ign;
     x_scale := map (fun v => (nedge v, sc v)) V; x_int := isint;
     x_cons := []; x_cov := 1%Q; x_opts := no_opts; x_safe_lists := []; x_fix := [] |}.

(* what k weighted walks put on node v: visits counted with multiplicity *)
Definition node_wexplains (k : nat) (Pn : N -> list node) (c : N -> Q) (v : node) : Q :=
  sumq (fun i => (c i * inject_Z (visits v (Pn i)))%Q) (layers k).
Definition node_klaec_cost (V : list node) (fq sc : node -> Q) (ign : list node) (k : nat) (Pn : N -> list node) (w : N -> Q) : Q :=
  sumq (fun v => (sc v * Qabs (fq v - node_wexplains k Pn w v))%Q) (nodes_basic V ign sc).

Lemma node_klaec_cost_unfolded (V : list node) (fq sc : node -> Q) (ign : list node) (k : nat) (Pn : N -> list node) (w : N -> Q) :
  node_klaec_cost V fq sc ign k Pn w =
  sumq (fun v => (sc v * Qabs (fq v - sumq (fun i => (w i * inject_Z (visits v (Pn i)))%Q) (layers k)))%Q) (nodes_basic V ign sc).
Proof. reflexivity. Qed.

Section NodeWalkErr.
  Variables (V : list node) (E : list PathEnc.edge) (S T : list node) (s t : node).
  Variable Wn : list node.
  Variables fq sc : node -> Q.
  Variable ign : list node.
  Variable isint : bool.
  Hypothesis Hs : ~ In s (expV V).
  Hypothesis Ht : ~ In t (expV V).
  Hypothesis Hst : s <> t.
  Hypothesis HE : forall e, In e E -> In (fst e) V /\ In (snd e) V.
  Hypothesis NDV : NoDup V.
  Hypothesis NDE : NoDup E.
  Hypothesis HWn : forall v, In v V -> ~ In v ign -> In v Wn.      (* every non-ignored node carries the weight attribute *)

  Let V' := expV V.
  Let E' := expE V E.
  Let S' := map x0 S.
  Let T' := map x1 T.
  Let A' := aug_edges V' E' S' T' s t.
  Notation I k := (node_werr_inst V E S T s t Wn fq sc ign isint k).
  Notation expP := (NodeErrE2E.expP s t).
  Notation conP := NodeErrE2E.conP.

  (* within the caps of the model: the model's predicate on the expanded tuple *)
  Definition node_klaec_adm (k : nat) (Pn : N -> list node) (w : N -> Q) : Prop := klaec_admissible (I k) (expP Pn) w.
  Definition node_kmpec_adm (k : nat) (Pn : N -> list node) (w sl : N -> Q) : Prop := kmpec_admissible (I k) (expP Pn) w sl.

  Lemma wf_X k : wf_stg (x_graph (I k)).
  Proof. exact (wf_I V E S T s t Wn fq ign isint Hs Ht Hst HE NDV NDE k). Qed.
  Lemma winputs_X k : winputs_ok (werr_walk (I k)).
  Proof. split; [intros c e Hc; cbn in Hc; destruct Hc|intros w e Hw; cbn in Hw; destruct Hw]. Qed.

  (* ---- the charged edges of the expanded instance are the node edges of the counting nodes *)
  Lemma nedge_ign_iff k v : In v V -> mem_edge (nedge v) (x_ign_all (I k)) = negb (ngood ign sc v).
  Proof.
    intros Hv. unfold x_ign_all. cbn [node_werr_inst x_ignore x_scale x_graph]. rewrite !mem_edge_app.
    assert (HeE : In (nedge v) E') by (apply expE_in; left; exists v; auto).
    assert (M1 : mem_edge (nedge v) (node_ignore E ign) = memn v ign).
    { apply eq_true_iff_eq. rewrite memn_In. split.
      - intros M. destruct (in_dec N.eq_dec v ign) as [Hi|Hni]; [exact Hi|exfalso].
        assert (X : mem_edge (nedge v) (node_ignore E ign) = false) by (apply (node_ignore_spec V E ign (nedge v) HeE); exists v; auto). congruence.
      - intros Hi. destruct (mem_edge (nedge v) (node_ignore E ign)) eqn:M; [reflexivity|exfalso].
        destruct (proj1 (node_ignore_spec V E ign (nedge v) HeE) M) as (u & _ & Hni & Eq). injection Eq as Eq _. apply x0_inj in Eq. subst u. contradiction. }
    assert (M2 : mem_edge (nedge v) (st_edges (st_ofST (expV V) (expE V E) (map x0 S) (map x1 T) s t)) = false).
    { match goal with |- ?x = false => destruct x eqn:M end; [exfalso|reflexivity]. apply mem_edge_In in M. unfold st_edges in M. apply filter_In in M.
      destruct M as [_ M]. cbn [st_ofST g_src g_snk nedge fst snd] in M.
      apply orb_true_iff in M. destruct M as [M|M]; apply N.eqb_eq in M.
      - apply Hs. rewrite <- M. apply expV_in. exists v. auto.
      - apply Ht. rewrite <- M. apply expV_in. exists v. auto. }
    assert (M3 : mem_edge (nedge v) (map fst (filter (fun es => Qeq_bool (snd es) 0) (map (fun v => (nedge v, sc v)) V))) = Qeq_bool (sc v) 0).
    { apply eq_true_iff_eq. rewrite mem_edge_In, in_map_iff. split.
      - intros ([e q] & Eq & Hin). cbn [fst] in Eq. subst e. apply filter_In in Hin. destruct Hin as [Hin Hq]. cbn [snd] in Hq.
        apply in_map_iff in Hin. destruct Hin as (u & Eq & _). injection Eq as Eq1 _ Eq2. apply x0_inj in Eq1. subst u q. exact Hq.
      - intros Hq. exists (nedge v, sc v). split; [reflexivity|]. apply filter_In. split; [|exact Hq].
        apply (in_map (fun v => (nedge v, sc v))). exact Hv. }
    rewrite M1, M2, M3. unfold NodeErrE2E.ngood. destruct (memn v ign), (Qeq_bool (sc v) 0); reflexivity.
  Qed.

  Theorem xbasic_nedges k : x_basic (I k) = map nedge (nodes_basic V ign sc).
  Proof.
    unfold x_basic. set (f := fun e : PathEnc.edge => negb (mem_edge e (x_ign_all (I k)))).
    cbn [node_werr_inst x_graph st_ofST g_edges]. fold V' E' S' T'.
    unfold aug_edges, E', expE. rewrite !filter_app.
    assert (F1 : filter f (map nedge V) = map nedge (nodes_basic V ign sc)).
    { rewrite NodeErrE2E.filter_map_comm. unfold NodeErrE2E.nodes_basic. f_equal. apply filter_ext_in.
      intros v Hv. unfold f. rewrite (nedge_ign_iff k v Hv). apply negb_involutive. }
    assert (F2 : filter f (map (fun e : node * node => (x1 (fst e), x0 (snd e))) E) = []).
    { apply NodeErrE2E.filter_all_false. intros e He. unfold f. apply negb_false_iff. unfold x_ign_all. cbn [node_werr_inst x_ignore].
      rewrite !mem_edge_app. apply orb_true_iff. right. apply orb_true_iff. left. apply mem_edge_In. unfold node_ignore. apply in_or_app. left. exact He. }
    rewrite F1, F2. rewrite NodeErrE2E.filter_all_false; [rewrite !app_nil_r; reflexivity|].
    intros e He. unfold f. apply negb_false_iff. unfold x_ign_all. rewrite !mem_edge_app. apply orb_true_iff. left.
    apply mem_edge_In. unfold st_edges. apply filter_In.
    assert (HeA : In e A') by (unfold A', aug_edges; apply in_or_app; right; exact He).
    split; [exact HeA|]. cbn [node_werr_inst x_graph st_ofST g_src g_snk].
    apply in_flat_map in He. destruct He as (u & _ & He). apply in_app_or in He. apply orb_true_iff. destruct He as [He|He].
    - match type of He with In _ (if ?c then _ else _) => destruct c end; [|destruct He]. destruct He as [<-|[]]. left. apply N.eqb_refl.
    - match type of He with In _ (if ?c then _ else _) => destruct c end; [|destruct He]. destruct He as [<-|[]]. right. apply N.eqb_refl.
  Qed.

  Lemma nodes_basic_in v : In v (nodes_basic V ign sc) -> In v V /\ ~ In v ign.
  Proof.
    unfold NodeErrE2E.nodes_basic, NodeErrE2E.ngood. rewrite filter_In, andb_true_iff, !negb_true_iff. intros (H1 & H2 & _).
    split; [exact H1|]. intros H. apply memn_In in H. congruence.
  Qed.
  Lemma xflow_nedge k v : In v (nodes_basic V ign sc) -> xflow (I k) (nedge v) = fq v.
  Proof. intros Hv. destruct (nodes_basic_in v Hv) as [H1 H2]. unfold xflow. cbn [node_werr_inst x_flow]. apply NodeErrE2E.lookup_nedge_q. apply HWn; assumption. Qed.
  Lemma xscale_nedge k v : In v V -> xscale (I k) (nedge v) = sc v.
  Proof. intros Hv. unfold xscale. cbn [node_werr_inst x_scale]. apply NodeErrE2E.lookup_nedge_q. exact Hv. Qed.

  (* what the expanded tuple puts on the node edge of v = what the caller's walks put on v *)
  Lemma xexpl_agree k Pn c v : node_walks V E S T k Pn -> (xexpl (I k) (expP Pn) c (nedge v) == node_wexplains k Pn c v)%Q.
  Proof.
    intros HP. unfold xexpl, node_wexplains. cbn [node_werr_inst x_k]. apply sumq_ext. intros i Hi. destruct (HP i Hi) as (Hne & _).
    unfold mult, NodeErrE2E.expP. rewrite (mult_nedge s t v (Pn i) Hne). reflexivity.
  Qed.

  Theorem klaec_cost_agree k Pn w : node_walks V E S T k Pn -> (klaec_cost (I k) (expP Pn) w == node_klaec_cost V fq sc ign k Pn w)%Q.
  Proof.
    intros HP. unfold klaec_cost, node_klaec_cost. rewrite xbasic_nedges, sumq_map. apply sumq_ext. intros v Hv.
    unfold klaec_dev. rewrite (xflow_nedge k v Hv), (xscale_nedge k v (proj1 (nodes_basic_in v Hv))), (xexpl_agree k Pn w v HP). reflexivity.
  Qed.

  (* ---- the predicates only look at the k walks *)
  Section Ext.
    Variable k : nat.
    Variables P P' : N -> list node.
    Hypothesis Heq : forall i, In i (layers k) -> P i = P' i.
    Lemma mult_ext i e : In i (layers k) -> mult P' i e = mult P i e.
    Proof. intros Hi. unfold mult. rewrite (Heq i Hi). reflexivity. Qed.
    Lemma xexpl_ext c e : (xexpl (I k) P' c e == xexpl (I k) P c e)%Q.
    Proof. unfold xexpl. cbn [node_werr_inst x_k]. apply sumq_ext. intros i Hi. rewrite (mult_ext i e Hi). reflexivity. Qed.
    Lemma family_ext : werr_family (I k) P -> werr_family (I k) P'.
    Proof.
      intros (H1 & H2 & _ & _). split; [|split; [|split]].
      - intros i Hi. rewrite <- (Heq i Hi). exact (H1 i Hi).
      - intros i e Hi He. rewrite (mult_ext i e Hi). exact (H2 i e Hi He).
      - split; [intros e i H|intros e i m H]; cbn in H; destruct H.
      - intros j c H. cbn in H. destruct j; discriminate.
    Qed.
    Lemma bits_ext : werr_bits_cap (I k) P -> werr_bits_cap (I k) P'.
    Proof. intros H i e Hi He Hk. rewrite (mult_ext i e Hi). exact (H i e Hi He Hk). Qed.
    Lemma prod_ext c : werr_prod_cap (I k) P c -> werr_prod_cap (I k) P' c.
    Proof. intros H i e Hi He. rewrite (mult_ext i e Hi). exact (H i e Hi He). Qed.
    Lemma klaec_dev_ext w e : (klaec_dev (I k) P' w e == klaec_dev (I k) P w e)%Q.
    Proof. unfold klaec_dev. rewrite (xexpl_ext w e). reflexivity. Qed.
    Lemma klaec_adm_ext w : klaec_admissible (I k) P w -> klaec_admissible (I k) P' w.
    Proof.
      intros (F & Hw & Hb & Hp & Hd). split; [exact (family_ext F)|]. split; [exact Hw|]. split; [exact (bits_ext Hb)|].
      split; [exact (prod_ext w Hp)|]. intros e He. rewrite (klaec_dev_ext w e). exact (Hd e He).
    Qed.
    Lemma klaec_cost_ext w : (klaec_cost (I k) P' w == klaec_cost (I k) P w)%Q.
    Proof. unfold klaec_cost. apply sumq_ext. intros e _. rewrite (klaec_dev_ext w e). reflexivity. Qed.
    Lemma kmpec_adm_ext w sl : kmpec_admissible (I k) P w sl -> kmpec_admissible (I k) P' w sl.
    Proof.
      intros (F & Hw & Hsl & Hb & Hp & Hps & Hd). split; [exact (family_ext F)|]. split; [exact Hw|]. split; [exact Hsl|].
      split; [exact (bits_ext Hb)|]. split; [exact (prod_ext w Hp)|]. split; [exact (prod_ext sl Hps)|].
      intros e He. rewrite (xexpl_ext w e), (xexpl_ext sl e). exact (Hd e He).
    Qed.
  End Ext.

  Lemma family_walks k P : werr_family (I k) P ->
    forall i, In i (layers k) -> hd_error (P i) = Some s /\ last (P i) s = t /\ incl (pairs (P i)) A'.
  Proof. intros (H1 & _) i Hi. exact (H1 i Hi). Qed.

  (* ---------------------------------------------------------------- C07, cyclic, node mode *)
  Theorem node_klaec_optimal k (a : var -> Q) :
    (forall v, In v V -> (0 <= sc v)%Q) -> (isint = true -> forall v, In v (nodes_basic V ign sc) -> is_int (fq v)) ->
    sat a (encode_klae_cycles (I k)) ->
    (forall b, sat b (encode_klae_cycles (I k)) -> (objective a (encode_klae_cycles (I k)) <= objective b (encode_klae_cycles (I k)))%Q) ->
    (exists Pn w, node_walks V E S T k Pn /\ node_klaec_adm k Pn w /\
                  (node_klaec_cost V fq sc ign k Pn w == objective a (encode_klae_cycles (I k)))%Q) /\
    (forall Pn w, node_walks V E S T k Pn -> node_klaec_adm k Pn w ->
                  (objective a (encode_klae_cycles (I k)) <= node_klaec_cost V fq sc ign k Pn w)%Q).
  Proof.
    intros Hsc Hint Hsat Hopt.
    assert (Hdom : werr_domain (I k)).
    { split; [apply winputs_X|]. intros e He. rewrite xbasic_nedges in He. apply in_map_iff in He. destruct He as (v & <- & Hv).
      destruct (nodes_basic_in v Hv) as [HvV _]. rewrite (xscale_nedge k v HvV), (xflow_nedge k v Hv).
      split; [exact (Hsc v HvV)|]. intros Hi. exact (Hint Hi v Hv). }
    destruct (klaec_optimal (I k) a (wf_X k) eq_refl Hdom Hsat Hopt) as [(P & w & Hadm & Hc) Hlow]. split.
    - pose proof Hadm as (F & _). destruct (walks_contract V E S T s t Hs Ht Hst HE k P (family_walks k P F)) as [HPn Heq].
      exists (conP P), w. split; [exact HPn|]. split; [exact (klaec_adm_ext k P _ Heq w Hadm)|].
      rewrite <- (klaec_cost_agree k (conP P) w HPn), (klaec_cost_ext k P _ Heq w). exact Hc.
    - intros Pn w' HPn Hadm'. rewrite <- (klaec_cost_agree k Pn w' HPn). apply Hlow. exact Hadm'.
  Qed.

  (* ---------------------------------------------------------------- C08, cyclic, node mode *)
  Theorem node_kmpec_optimal k (a : var -> Q) :
    sat a (encode_kmpe_cycles (I k)) ->
    (forall b, sat b (encode_kmpe_cycles (I k)) -> (objective a (encode_kmpe_cycles (I k)) <= objective b (encode_kmpe_cycles (I k)))%Q) ->
    (exists Pn w sl, node_walks V E S T k Pn /\ node_kmpec_adm k Pn w sl /\ (sumq sl (layers k) == objective a (encode_kmpe_cycles (I k)))%Q) /\
    (forall Pn w sl, node_walks V E S T k Pn -> node_kmpec_adm k Pn w sl -> (objective a (encode_kmpe_cycles (I k)) <= sumq sl (layers k))%Q).
  Proof.
    intros Hsat Hopt.
    destruct (kmpec_optimal (I k) a (wf_X k) eq_refl (winputs_X k) Hsat Hopt) as [(P & w & sl & Hadm & Hc) Hlow]. split.
    - pose proof Hadm as (F & _). destruct (walks_contract V E S T s t Hs Ht Hst HE k P (family_walks k P F)) as [HPn Heq].
      exists (conP P), w, sl. split; [exact HPn|]. split; [exact (kmpec_adm_ext k P _ Heq w sl Hadm)|exact Hc].
    - intros Pn w' sl' _ Hadm'. exact (Hlow _ _ _ Hadm').
  Qed.

  Theorem node_kmpec_feasible_iff k :
    (exists a, sat a (encode_kmpe_cycles (I k))) <-> (exists Pn w sl, node_walks V E S T k Pn /\ node_kmpec_adm k Pn w sl).
  Proof.
    rewrite (kmpec_feasible_iff_within_caps (I k) (wf_X k) eq_refl (winputs_X k)). split.
    - intros (P & w & sl & Hadm). pose proof Hadm as (F & _).
      destruct (walks_contract V E S T s t Hs Ht Hst HE k P (family_walks k P F)) as [HPn Heq].
      exists (conP P), w, sl. split; [exact HPn|exact (kmpec_adm_ext k P _ Heq w sl Hadm)].
    - intros (Pn & w & sl & _ & Hadm). exists (expP Pn), w, sl. exact Hadm.
  Qed.

  (* ---------------------------------------------------------------- what "within the caps" says, in visits and traversals *)
  Lemma caps_reading_common k Pn : node_walks V E S T k Pn -> werr_family (I k) (expP Pn) ->
    (forall i v, In i (layers k) -> In v V -> (inject_Z (visits v (Pn i)) <= cap (werr_walk (I k)) (nedge v))%Q) /\
    (forall i e, In i (layers k) -> In e E -> (inject_Z (traversals e (Pn i)) <= cap (werr_walk (I k)) (cn e))%Q).
  Proof.
    intros HP (_ & C2 & _). split.
    - intros i v Hi Hv. destruct (HP i Hi) as (Hne & _).
      assert (Hm : mult (expP Pn) i (nedge v) = visits v (Pn i)) by (unfold mult, NodeErrE2E.expP; apply mult_nedge; exact Hne).
      rewrite <- Hm. apply (C2 i (nedge v) Hi).
      cbn [werr_walk w_graph node_werr_inst x_graph st_ofST g_edges]. apply (aug_in (expV V) (expE V E) (map x0 S) (map x1 T) s t). left. apply expE_in. left. exists v. auto.
    - intros i e Hi He. destruct (HP i Hi) as (Hne & _).
      assert (Hm : mult (expP Pn) i (cn e) = traversals e (Pn i)).
      { unfold mult, NodeErrE2E.expP. destruct (HE e He) as [H1 H2]. apply mult_conn; [exact Hne| |].
        - intros Ha. apply Hs. rewrite Ha. apply expV_in. exists (fst e). auto.
        - intros Ha. apply Ht. rewrite Ha. apply expV_in. exists (snd e). auto. }
      rewrite <- Hm. apply (C2 i (cn e) Hi).
      cbn [werr_walk w_graph node_werr_inst x_graph st_ofST g_edges]. apply (aug_in (expV V) (expE V E) (map x0 S) (map x1 T) s t). left. apply expE_in. right.
      exists (fst e), (snd e). destruct e. auto.
  Qed.

  Lemma prod_reading k Pn c : node_walks V E S T k Pn -> werr_prod_cap (I k) (expP Pn) c ->
    forall i v, In i (layers k) -> In v (nodes_basic V ign sc) -> (c i * inject_Z (visits v (Pn i)) <= x_wmax (I k))%Q.
  Proof.
    intros HP C i v Hi Hv. destruct (HP i Hi) as (Hne & _).
    assert (Hm : mult (expP Pn) i (nedge v) = visits v (Pn i)) by (unfold mult, NodeErrE2E.expP; apply mult_nedge; exact Hne).
    rewrite <- Hm. apply (C i (nedge v) Hi). rewrite xbasic_nedges. apply in_map. exact Hv.
  Qed.

  Theorem node_klaec_reading k Pn w : node_walks V E S T k Pn -> node_klaec_adm k Pn w ->
    (forall i, In i (layers k) -> (0 <= w i <= x_wmax (I k))%Q /\ (isint = true -> is_int (w i))) /\
    (forall i v, In i (layers k) -> In v V -> (inject_Z (visits v (Pn i)) <= cap (werr_walk (I k)) (nedge v))%Q) /\
    (forall i e, In i (layers k) -> In e E -> (inject_Z (traversals e (Pn i)) <= cap (werr_walk (I k)) (cn e))%Q) /\
    (forall i v, In i (layers k) -> In v (nodes_basic V ign sc) -> (w i * inject_Z (visits v (Pn i)) <= x_wmax (I k))%Q) /\
    (forall v, In v (nodes_basic V ign sc) -> (Qabs (fq v - node_wexplains k Pn w v) <= x_wmax (I k))%Q).
  Proof.
    intros HP (F & Hw & _ & Hp & Hd). destruct (caps_reading_common k Pn HP F) as [R1 R2].
    split; [exact Hw|]. split; [exact R1|]. split; [exact R2|]. split; [exact (prod_reading k Pn w HP Hp)|].
    intros v Hv. rewrite <- (xexpl_agree k Pn w v HP), <- (xflow_nedge k v Hv). apply Hd. rewrite xbasic_nedges. apply in_map. exact Hv.
  Qed.

  Theorem node_kmpec_reading k Pn w sl : node_walks V E S T k Pn -> node_kmpec_adm k Pn w sl ->
    (forall i, In i (layers k) -> (0 <= w i <= x_wmax (I k))%Q /\ (isint = true -> is_int (w i))) /\
    (forall i, In i (layers k) -> (0 <= sl i <= x_wmax (I k))%Q /\ (isint = true -> is_int (sl i))) /\
    (forall i v, In i (layers k) -> In v V -> (inject_Z (visits v (Pn i)) <= cap (werr_walk (I k)) (nedge v))%Q) /\
    (forall i e, In i (layers k) -> In e E -> (inject_Z (traversals e (Pn i)) <= cap (werr_walk (I k)) (cn e))%Q) /\
    (forall i v, In i (layers k) -> In v (nodes_basic V ign sc) ->
       (w i * inject_Z (visits v (Pn i)) <= x_wmax (I k))%Q /\ (sl i * inject_Z (visits v (Pn i)) <= x_wmax (I k))%Q) /\
    (* the error at every counting node is paid by the slacks of the walks through it, once per visit *)
    (forall v, In v (nodes_basic V ign sc) -> (Qabs (sc v * (fq v - node_wexplains k Pn w v)) <= node_wexplains k Pn sl v)%Q).
  Proof.
    intros HP (F & Hw & Hsl & _ & Hp & Hps & Hd). destruct (caps_reading_common k Pn HP F) as [R1 R2].
    split; [exact Hw|]. split; [exact Hsl|]. split; [exact R1|]. split; [exact R2|]. split.
    - intros i v Hi Hv. split; [exact (prod_reading k Pn w HP Hp i v Hi Hv)|exact (prod_reading k Pn sl HP Hps i v Hi Hv)].
    - intros v Hv. rewrite <- (xexpl_agree k Pn w v HP), <- (xexpl_agree k Pn sl v HP), <- (xflow_nedge k v Hv),
        <- (xscale_nedge k v (proj1 (nodes_basic_in v Hv))). apply Hd. rewrite xbasic_nedges. apply in_map. exact Hv.
  Qed.
  (* ---------------------------------------------------------------- the two halves separately (used to instantiate the solver hypotheses) *)
  Theorem node_klaec_complete k Pn w :
    (forall v, In v V -> (0 <= sc v)%Q) -> (isint = true -> forall v, In v (nodes_basic V ign sc) -> is_int (fq v)) ->
    node_walks V E S T k Pn -> node_klaec_adm k Pn w ->
    exists a, sat a (encode_klae_cycles (I k)) /\ (objective a (encode_klae_cycles (I k)) == node_klaec_cost V fq sc ign k Pn w)%Q.
  Proof.
    intros Hsc Hint HP Hadm.
    assert (Hdom : werr_domain (I k)).
    { split; [apply winputs_X|]. intros e He. rewrite xbasic_nedges in He. apply in_map_iff in He. destruct He as (v & <- & Hv).
      destruct (nodes_basic_in v Hv) as [HvV _]. rewrite (xscale_nedge k v HvV), (xflow_nedge k v Hv).
      split; [exact (Hsc v HvV)|]. intros Hi. exact (Hint Hi v Hv). }
    destruct (klaec_complete (I k) _ _ (wf_X k) Hdom Hadm) as (a & Sa & Oa & _). exists a. split; [exact Sa|].
    rewrite Oa. apply klaec_cost_agree. exact HP.
  Qed.

  Theorem node_klaec_objective_is_at_least_a_cost k b :
    (forall v, In v V -> (0 <= sc v)%Q) -> sat b (encode_klae_cycles (I k)) ->
    exists Pn w, node_walks V E S T k Pn /\ node_klaec_adm k Pn w /\
                 (node_klaec_cost V fq sc ign k Pn w <= objective b (encode_klae_cycles (I k)))%Q.
  Proof.
    intros Hsc Hsat. destruct (klaec_decodes (I k) b (wf_X k) eq_refl (winputs_X k) Hsat) as [Hadm Hd].
    set (P := Pofw (werr_walk (I k)) b) in *. set (w := fun i => b (W i)) in *.
    pose proof Hadm as (F & _). destruct (walks_contract V E S T s t Hs Ht Hst HE k P (family_walks k P F)) as [HPn Heq].
    exists (conP P), w. split; [exact HPn|]. split; [exact (klaec_adm_ext k P _ Heq w Hadm)|].
    rewrite <- (klaec_cost_agree k (conP P) w HPn), (klaec_cost_ext k P _ Heq w), (WalkErrEncProofs.klaec_objective (I k) b).
    unfold klaec_cost. apply xsum_le. intros e He. pose proof (Hd e He) as D.
    assert (S0 : (0 <= xscale (I k) e)%Q).
    { rewrite xbasic_nedges in He. apply in_map_iff in He. destruct He as (v & <- & Hv). destruct (nodes_basic_in v Hv) as [HvV _].
      rewrite (xscale_nedge k v HvV). exact (Hsc v HvV). }
    assert (H2 : (0 <= xscale (I k) e * (b (errvar e) - klaec_dev (I k) P w e))%Q) by (apply Qmult_le_0_compat; lra). lra.
  Qed.

  Theorem node_kmpec_complete k Pn w sl : node_kmpec_adm k Pn w sl ->
    exists a, sat a (encode_kmpe_cycles (I k)) /\ (objective a (encode_kmpe_cycles (I k)) == sumq sl (layers k))%Q.
  Proof. intros Hadm. destruct (kmpec_complete (I k) _ _ _ (wf_X k) Hadm) as (a & Sa & Oa & _). exists a. split; [exact Sa|exact Oa]. Qed.

  Theorem node_kmpec_objective_is_a_total_slack k b : sat b (encode_kmpe_cycles (I k)) ->
    exists Pn w sl, node_walks V E S T k Pn /\ node_kmpec_adm k Pn w sl /\ (sumq sl (layers k) == objective b (encode_kmpe_cycles (I k)))%Q.
  Proof.
    intros Hsat. destruct (kmpec_decodes (I k) b (wf_X k) eq_refl (winputs_X k) Hsat) as [Hadm O].
    set (P := Pofw (werr_walk (I k)) b) in *.
    pose proof Hadm as (F & _). destruct (walks_contract V E S T s t Hs Ht Hst HE k P (family_walks k P F)) as [HPn Heq].
    eexists (conP P), _, _. split; [exact HPn|]. split; [exact (kmpec_adm_ext k P _ Heq _ _ Hadm)|exact O].
  Qed.
End NodeWalkErr.

(* ================================================================================================================= *)
(* non-vacuity, with a self-loop and a NON-ZERO optimum: 1 -> 2 -> 3 with a self-loop at 2, node weights 3, 6, 1, scale 1, one walk.
   The walk 1 2 2 2 3 of weight 2 (three visits of node 2) is within the caps and has error |3-2| + |6-3*2| + |1-2| = 2; and EVERY
   walk of the graph visits node 1 exactly once and node 3 exactly once (no edge enters 1, none leaves 3), so every weighted walk has
   error >= |3-w| + |1-w| >= 2: the optimum of the 1-walk model is 2.  For kMinPathErrorCycles the same walk with slack 1 is within
   the caps, and every admissible triple has slack >= 1. *)
Definition wxfq (v : node) : Q := if (v =? 1)%N then 3%Q else if (v =? 2)%N then 6%Q else 1%Q.
Definition wxsc (_ : node) : Q := 1%Q.
Definition wxsl (_ : N) : Q := 1%Q.

Lemma in_tl_pred (E0 : list PathEnc.edge) v : forall p, incl (pairs p) E0 -> In v (tl p) -> exists u, In (u, v) E0.
Proof.
  induction p as [|a r IH]; intros Hin Hv; [destruct Hv|]. destruct r as [|b r']; [destruct Hv|].
  change (pairs (a :: b :: r')) with ((a, b) :: pairs (b :: r')) in Hin. cbn [tl] in Hv. destruct Hv as [<-|Hv].
  - exists a. apply Hin. left. reflexivity.
  - apply IH; [intros e He; apply Hin; right; exact He|exact Hv].
Qed.
Lemma in_removelast_succ (E0 : list PathEnc.edge) v : forall p, incl (pairs p) E0 -> In v (removelast p) -> exists u, In (v, u) E0.
Proof.
  induction p as [|a r IH]; intros Hin Hv; [destruct Hv|]. destruct r as [|b r']; [destruct Hv|].
  change (pairs (a :: b :: r')) with ((a, b) :: pairs (b :: r')) in Hin.
  change (removelast (a :: b :: r')) with (a :: removelast (b :: r')) in Hv. destruct Hv as [<-|Hv].
  - exists b. apply Hin. left. reflexivity.
  - apply IH; [intros e He; apply Hin; right; exact He|exact Hv].
Qed.

Lemma lx_walk_visits p : nwalk lxV lxE [] [] p -> visits 1%N p = 1%Z /\ visits 3%N p = 1%Z.
Proof.
  intros (Hne & HV & HEp & Hst & Hen). unfold visits. split.
  - destruct p as [|a r]; [contradiction|]. cbn [hd] in Hst.
    assert (a = 1%N).
    { assert (Ha : In a lxV) by (apply HV; left; reflexivity). cbn in Ha. destruct Ha as [<-|[<-|[<-|[]]]]; [reflexivity|vm_compute in Hst; discriminate Hst|vm_compute in Hst; discriminate Hst]. }
    subst a. cbn [count_occ]. destruct (N.eq_dec 1 1) as [_|X]; [|contradiction].
    assert (Hn : ~ In 1%N r).
    { intros Hin. destruct (in_tl_pred lxE 1%N (1%N :: r) HEp Hin) as (u & Hu). cbn in Hu. destruct Hu as [X|[X|[X|[]]]]; discriminate X. }
    rewrite (proj1 (count_occ_not_In N.eq_dec r 1%N) Hn). reflexivity.
  - destruct (exists_last Hne) as (r & z & ->). rewrite last_last in Hen.
    assert (z = 3%N).
    { assert (Hz : In z lxV) by (apply HV; apply in_or_app; right; left; reflexivity). cbn in Hz.
      destruct Hz as [<-|[<-|[<-|[]]]]; [vm_compute in Hen; discriminate Hen|vm_compute in Hen; discriminate Hen|reflexivity]. }
    subst z. rewrite count_occ_app. cbn [count_occ]. destruct (N.eq_dec 3 3) as [_|X]; [|contradiction].
    assert (Hn : ~ In 3%N r).
    { intros Hin. rewrite <- (removelast_last r 3%N) in Hin. destruct (in_removelast_succ lxE 3%N _ HEp Hin) as (u & Hu).
      cbn in Hu. destruct Hu as [X|[X|[X|[]]]]; discriminate X. }
    rewrite (proj1 (count_occ_not_In N.eq_dec r 3%N) Hn). reflexivity.
Qed.

Lemma wx_premises :
  NoDup lxV /\ NoDup lxE /\ (forall e, In e lxE -> In (fst e) lxV /\ In (snd e) lxV) /\
  ~ In 100%N (expV lxV) /\ ~ In 101%N (expV lxV) /\ 100%N <> 101%N /\ (forall v, In v lxV -> ~ In v [] -> In v lxV) /\
  (forall v, In v lxV -> (0 <= wxsc v)%Q) /\
  node_walks lxV lxE [] [] 1 lxPn /\ visits 2%N (lxPn 0%N) = 3%Z /\
  node_klaec_adm lxV lxE [] [] 100%N 101%N lxV wxfq wxsc [] false 1 lxPn lxw /\
  (node_klaec_cost lxV wxfq wxsc [] 1 lxPn lxw == 2)%Q /\
  (forall Pn w, node_walks lxV lxE [] [] 1 Pn -> (2 <= node_klaec_cost lxV wxfq wxsc [] 1 Pn w)%Q) /\
  node_kmpec_adm lxV lxE [] [] 100%N 101%N lxV wxfq wxsc [] false 1 lxPn lxw wxsl /\
  (sumq wxsl (layers 1) == 1)%Q /\
  (forall Pn w sl, node_walks lxV lxE [] [] 1 Pn -> node_kmpec_adm lxV lxE [] [] 100%N 101%N lxV wxfq wxsc [] false 1 Pn w sl ->
                   (1 <= sumq sl (layers 1))%Q).
Proof.
  destruct lx_premises as (P1 & P2 & P3 & P4 & P5 & P6 & P7 & _).
  assert (HW : node_walks lxV lxE [] [] 1 lxPn).
  { intros i _. unfold lxPn, nwalk. split; [discriminate|]. split; [intros x Hx; cbn in Hx |- *; tauto|].
    split; [intros e He; cbn in He |- *; tauto|]. split; reflexivity. }
  assert (HF : werr_family (node_werr_inst lxV lxE [] [] 100%N 101%N lxV wxfq wxsc [] false 1) (NodeErrE2E.expP 100%N 101%N lxPn)).
  { split; [|split; [|split]].
    - exact (expP_walks lxV lxE [] [] 100%N 101%N P4 P5 P6 P3 1 lxPn HW).
    - intros i e _ He. cbn in He. repeat (destruct He as [<-|He]; [vm_compute; discriminate|]). destruct He.
    - split; [intros e i H|intros e i m H]; cbn in H; destruct H.
    - intros j c H. cbn in H. destruct j; discriminate. }
  assert (Hvis : forall Pn, node_walks lxV lxE [] [] 1 Pn -> visits 1%N (Pn 0%N) = 1%Z /\ visits 3%N (Pn 0%N) = 1%Z).
  { intros Pn HP. apply lx_walk_visits. apply HP. left. reflexivity. }
  split; [exact P1|]. split; [exact P2|]. split; [exact P3|]. split; [exact P4|]. split; [exact P5|]. split; [exact P6|]. split; [exact P7|].
  split; [intros v _; unfold wxsc; lra|]. split; [exact HW|]. split; [reflexivity|].
  split; [|split; [vm_compute; reflexivity|split; [|split; [|split; [vm_compute; reflexivity|]]]]].
  - split; [exact HF|]. split; [|split; [|split]].
    + intros i _. split; [vm_compute; split; discriminate|discriminate].
    + intros i e _ He _. vm_compute in He. repeat (destruct He as [<-|He]; [vm_compute; reflexivity|]). destruct He.
    + intros i e _ He. vm_compute in He. repeat (destruct He as [<-|He]; [vm_compute; discriminate|]). destruct He.
    + intros e He. vm_compute in He. repeat (destruct He as [<-|He]; [vm_compute; discriminate|]). destruct He.
  - intros Pn w HP. destruct (Hvis Pn HP) as [V1 V3]. unfold node_klaec_cost.
    change (nodes_basic lxV [] wxsc) with [1; 2; 3]%N. unfold node_wexplains. cbn [layers seq map sumq N.of_nat]. rewrite V1, V3.
    change (wxfq 1%N) with 3%Q. change (wxfq 3%N) with 1%Q. unfold wxsc.
    pose proof (Qle_Qabs (3 - (w 0%N * inject_Z 1 + 0))) as A1.
    pose proof (Qle_Qabs (- (1 - (w 0%N * inject_Z 1 + 0)))) as A3. rewrite Qabs_opp in A3.
    pose proof (Qabs_nonneg (wxfq 2%N - (w 0%N * inject_Z (visits 2%N (Pn 0%N)) + 0))) as A2.
    change (inject_Z 1) with 1%Q in *. lra.
  - split; [exact HF|]. split; [|split; [|split; [|split; [|split]]]].
    + intros i _. split; [vm_compute; split; discriminate|discriminate].
    + intros i _. split; [vm_compute; split; discriminate|discriminate].
    + intros i e _ He _. vm_compute in He. repeat (destruct He as [<-|He]; [vm_compute; reflexivity|]). destruct He.
    + intros i e _ He. vm_compute in He. repeat (destruct He as [<-|He]; [vm_compute; discriminate|]). destruct He.
    + intros i e _ He. vm_compute in He. repeat (destruct He as [<-|He]; [vm_compute; discriminate|]). destruct He.
    + intros e He. vm_compute in He. repeat (destruct He as [<-|He]; [vm_compute; discriminate|]). destruct He.
  - intros Pn w sl HP Hadm. destruct (Hvis Pn HP) as [V1 V3].
    destruct (node_kmpec_reading lxV lxE [] [] 100%N 101%N lxV wxfq wxsc [] false P4 P5 P3 P7 1 Pn w sl HP Hadm) as (_ & _ & _ & _ & _ & R).
    pose proof (R 1%N ltac:(vm_compute; tauto)) as R1. pose proof (R 3%N ltac:(vm_compute; tauto)) as R3.
    unfold node_wexplains in R1, R3. cbn [layers seq map sumq N.of_nat] in R1, R3 |- *. rewrite V1 in R1. rewrite V3 in R3.
    change (wxfq 1%N) with 3%Q in R1. change (wxfq 3%N) with 1%Q in R3. unfold wxsc in R1, R3. change (inject_Z 1) with 1%Q in *.
    pose proof (Qle_Qabs (1 * (3 - (w 0%N * 1 + 0)))) as A1.
    pose proof (Qle_Qabs (- (1 * (1 - (w 0%N * 1 + 0))))) as A3. rewrite Qabs_opp in A3. lra.
Qed.

(* the SOLVER hypotheses of node_klaec_optimal / node_kmpec_optimal are satisfiable on this instance: there is a satisfying assignment
   that is optimal, with objective 2 resp. 1 *)
Lemma wx_solver_hypotheses :
  (exists a, sat a (encode_klae_cycles (node_werr_inst lxV lxE [] [] 100%N 101%N lxV wxfq wxsc [] false 1)) /\
     (forall b, sat b (encode_klae_cycles (node_werr_inst lxV lxE [] [] 100%N 101%N lxV wxfq wxsc [] false 1)) ->
        (objective a (encode_klae_cycles (node_werr_inst lxV lxE [] [] 100%N 101%N lxV wxfq wxsc [] false 1)) <=
         objective b (encode_klae_cycles (node_werr_inst lxV lxE [] [] 100%N 101%N lxV wxfq wxsc [] false 1)))%Q) /\
     (objective a (encode_klae_cycles (node_werr_inst lxV lxE [] [] 100%N 101%N lxV wxfq wxsc [] false 1)) == 2)%Q) /\
  (exists a, sat a (encode_kmpe_cycles (node_werr_inst lxV lxE [] [] 100%N 101%N lxV wxfq wxsc [] false 1)) /\
     (forall b, sat b (encode_kmpe_cycles (node_werr_inst lxV lxE [] [] 100%N 101%N lxV wxfq wxsc [] false 1)) ->
        (objective a (encode_kmpe_cycles (node_werr_inst lxV lxE [] [] 100%N 101%N lxV wxfq wxsc [] false 1)) <=
         objective b (encode_kmpe_cycles (node_werr_inst lxV lxE [] [] 100%N 101%N lxV wxfq wxsc [] false 1)))%Q) /\
     (objective a (encode_kmpe_cycles (node_werr_inst lxV lxE [] [] 100%N 101%N lxV wxfq wxsc [] false 1)) == 1)%Q).
Proof.
  destruct wx_premises as (A1 & A2 & A3 & A4 & A5 & A6 & A7 & A8 & A9 & _ & A11 & A12 & A13 & A14 & A15 & A16).
  split.
  - destruct (node_klaec_complete lxV lxE [] [] 100%N 101%N lxV wxfq wxsc [] false A4 A5 A6 A3 A1 A2 A7 1 lxPn lxw A8 ltac:(discriminate) A9 A11)
      as (a & Sa & Oa).
    exists a. split; [exact Sa|]. split; [|rewrite Oa; exact A12].
    intros b Sb. destruct (node_klaec_objective_is_at_least_a_cost lxV lxE [] [] 100%N 101%N lxV wxfq wxsc [] false A4 A5 A6 A3 A1 A2 A7 1 b A8 Sb)
      as (Pn & w & HP & _ & Hc).
    rewrite Oa, A12. apply (Qle_trans _ _ _ (A13 Pn w HP) Hc).
  - destruct (node_kmpec_complete lxV lxE [] [] 100%N 101%N lxV wxfq wxsc [] false A4 A5 A6 A3 A1 A2 1 lxPn lxw wxsl A14) as (a & Sa & Oa).
    exists a. split; [exact Sa|]. split; [|rewrite Oa; exact A15].
    intros b Sb. destruct (node_kmpec_objective_is_a_total_slack lxV lxE [] [] 100%N 101%N lxV wxfq wxsc [] false A4 A5 A6 A3 A1 A2 1 b Sb)
      as (Pn & w & sl & HP & Hadm & Hc).
    rewrite Oa, A15, <- Hc. exact (A16 Pn w sl HP Hadm).
Qed.
